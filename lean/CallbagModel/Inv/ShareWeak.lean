import CallbagModel.Inv.Ghost
import CallbagModel.Ops.Share
import CallbagModel.Inv.Share
/-!
# share: what holds under EVERY conformant environment (nested fan-out included)

`Inv/Share.lean` proves full phase-level safety under `noNestedFanout`.  Without that restriction the fan-out loop can
deliver to sinks of its snapshot that have meanwhile received a (nested) terminal or have disposed (KF5a, KF5b).  Here:
these late deliveries (`Viol.afterTerm`, `Viol.afterDispose`) are the ONLY phase-level violations `share` can commit, and it
never panics.

The invariant (at environment turns) has the three modes of `Inv/Share.lean`, with a weaker description of the stack:

* `core`    — `Share.Core` (unchanged: `k ∈ st.sinks ↔ sink k live`, `st.sinks ≠ [] →` upstream `gen-1` live and in `slot`, …);
              every frame of the stack is a tail frame `wait _ .done` or a DATA fan-out frame
              `wait (down s (data a)) (fLoop r (data a))` all of whose remaining sinks `r` have been GREETED
              (phase `live`, `doneBySrc` or `doneBySelf`).  Any number of fan-out frames, in any position; nothing is
              claimed about `r ⊆ st.sinks` or liveness of `r`.
* `waiting` — as in `Inv/Share.lean` (only reachable from top level).
* `tfan`    — terminal fan-out on top of the stack (nobody can call while it is open), remaining sinks greeted, every live
              sink is among them, no upstream live; below it a `core`-style stack.
-/
namespace Cb.ShareWeak
open Cb Cb.Share

variable {α : Type}

/-- the only phase-level violations `share` can commit are deliveries to sinks that are already done (KF5a, KF5b) -/
def OnlyLateDelivery (vs : List Viol) : Prop := ∀ v ∈ vs, (∃ k, v = Viol.afterTerm k) ∨ (∃ k, v = Viol.afterDispose k)

/-! ## ghost lemmas -/

@[simp] theorem sinkPh_flag (g : Ph) (v : Viol) (k : Nat) : (g.flag v).sinkPh k = g.sinkPh k := rfl
@[simp] theorem srcPh_flag (g : Ph) (v : Viol) (i : Nat) : (g.flag v).srcPh i = g.srcPh i := rfl

theorem onIn_viols (g : Ph) (i : In α) : (g.onIn i).viols = g.viols := by
  cases i with
  | subscribe k => rfl
  | sinkUp k u => cases u <;> rfl
  | srcGreet i => rfl
  | srcDown i d => cases d <;> rfl

/-- sink `x` has received its greeting (so a delivery to it is at worst late) -/
def Greeted (g : Ph) (x : Nat) : Prop := g.sinkPh x = .live ∨ g.sinkPh x = .doneBySrc ∨ g.sinkPh x = .doneBySelf

theorem Greeted.congr {g g' : Ph} {x : Nat} (h : Greeted g x) (hs : g'.sinkPh x = g.sinkPh x) : Greeted g' x := by
  unfold Greeted; rw [hs]; exact h

theorem Greeted.setSink {g : Ph} {x : Nat} (h : Greeted g x) (k : Nat) (p : SinkPh)
    (hp : p = .live ∨ p = .doneBySrc ∨ p = .doneBySelf) : Greeted (g.setSink k p) x := by
  unfold Greeted
  by_cases hx : x = k
  · simp [hx]; exact hp
  · simp [hx]; exact h

theorem down_srcPh (g : Ph) (s : Nat) (d : Down α) (i : Nat) : (g.onOut (.down s d : Out α)).srcPh i = g.srcPh i := by
  simp only [Ph.onOut]
  split
  · split <;> simp
  all_goals rfl

theorem down_data_sinkPh (g : Ph) (s : Nat) (a : α) (k : Nat) :
    (g.onOut (.down s (.data a) : Out α)).sinkPh k = g.sinkPh k := by
  simp only [Ph.onOut]
  split <;> simp [isFinal]

theorem down_sinkPh_ne (g : Ph) (s : Nat) (d : Down α) (k : Nat) (hk : k ≠ s) :
    (g.onOut (.down s d : Out α)).sinkPh k = g.sinkPh k := by
  simp only [Ph.onOut]
  split
  · split <;> simp [hk]
  all_goals rfl

theorem down_greeted (g : Ph) (s : Nat) (d : Down α) (x : Nat) (h : Greeted g x) : Greeted (g.onOut (.down s d : Out α)) x := by
  simp only [Ph.onOut]
  split
  · split
    · exact h.setSink _ _ (Or.inr (Or.inl rfl))
    · exact h
  all_goals exact h

theorem down_live_back (g : Ph) (s : Nat) (d : Down α) (k : Nat) (h : (g.onOut (.down s d : Out α)).sinkPh k = .live) :
    g.sinkPh k = .live := by
  simp only [Ph.onOut] at h
  split at h
  · split at h
    · by_cases hk : k = s
      · simp [hk] at h
      · simpa [hk] using h
    · exact h
  all_goals exact h

theorem down_nosub (g : Ph) (s : Nat) (d : Down α) (h : ∀ k, g.sinkPh k ≠ .subscribed) (k : Nat) :
    (g.onOut (.down s d : Out α)).sinkPh k ≠ .subscribed := by
  simp only [Ph.onOut]
  split
  · split
    · by_cases hk : k = s
      · simp [hk]
      · simp [hk]; exact h k
    · exact h k
  all_goals exact h k

theorem down_end_self (g : Ph) (s : Nat) (d : Down α) (hd : isEndD d = true) :
    (g.onOut (.down s d : Out α)).sinkPh s ≠ .live := by
  have hf : isFinal d = true := by cases d <;> simp_all [isEndD, isFinal]
  simp only [Ph.onOut]
  split
  · simp [hf]
  all_goals simp [*]

theorem down_viols (g : Ph) (s : Nat) (d : Down α) (hg : Greeted g s) (hv : OnlyLateDelivery g.viols) :
    OnlyLateDelivery (g.onOut (.down s d : Out α)).viols := by
  rcases hg with h | h | h
  · simp only [Ph.onOut, h]; split <;> simpa using hv
  · simp only [Ph.onOut, h]
    intro v hv'
    simp at hv'
    rcases hv' with rfl | hv'
    · exact Or.inl ⟨_, rfl⟩
    · exact hv v hv'
  · simp only [Ph.onOut, h]
    intro v hv'
    simp at hv'
    rcases hv' with rfl | hv'
    · exact Or.inr ⟨_, rfl⟩
    · exact hv v hv'

/-! ## the invariant -/

/-- a frame below (or at) the top: a tail frame, or a data fan-out whose remaining sinks have all been greeted -/
def FrameOK (g : Ph) (f : Fr α) : Prop :=
  TailF f ∨ ∃ s a r, f = .wait (.down s (.data a)) (.fLoop r (.data a)) ∧ ∀ x ∈ r, Greeted g x

def SOK (g : Ph) (stk : List (Fr α)) : Prop := ∀ f ∈ stk, FrameOK g f

theorem SOK.mono {g g' : Ph} {stk : List (Fr α)} (h : SOK g stk) (hg : ∀ x, Greeted g x → Greeted g' x) : SOK g' stk := by
  intro f hf
  rcases h f hf with ht | ⟨s, a, r, he, hr⟩
  · exact Or.inl ht
  · exact Or.inr ⟨s, a, r, he, fun x hx => hg x (hr x hx)⟩

theorem SOK.nil (g : Ph) : SOK g ([] : List (Fr α)) := fun _ h => by cases h

theorem SOK.cons_tail {g : Ph} {stk : List (Fr α)} (h : SOK g stk) (o : Out α) : SOK g (.wait o .done :: stk) :=
  List.forall_mem_cons.2 ⟨Or.inl ⟨o, rfl⟩, h⟩

theorem SOK.cons_fan {g : Ph} {stk : List (Fr α)} (h : SOK g stk) (s : Nat) (a : α) (r : List Nat)
    (hr : ∀ x ∈ r, Greeted g x) : SOK g (.wait (.down s (.data a)) (.fLoop r (.data a)) :: stk) :=
  List.forall_mem_cons.2 ⟨Or.inr ⟨s, a, r, rfl, hr⟩, h⟩

theorem SOK.tail {g : Ph} {f : Fr α} {stk : List (Fr α)} (h : SOK g (f :: stk)) : SOK g stk :=
  (List.forall_mem_cons.1 h).2

theorem core_congr {st : St} {g g' : Ph} (h : Core st g) (hs : ∀ k, g'.sinkPh k = g.sinkPh k)
    (hr : ∀ i, g'.srcPh i = g.srcPh i) : Core st g' :=
  ⟨fun k => by rw [hs]; exact h.mem k, fun k => by rw [hs]; exact h.nosub k, h.nodup,
    fun hne => by rw [hr]; exact h.up hne, fun i hi => h.live i (by rw [← hr]; exact hi), fun i => by rw [hr]; exact h.nosrcsub i⟩

inductive WMode (st : St) (g : Ph) (stk : List (Fr α)) : Prop where
  | core : Core st g → SOK g stk → WMode st g stk
  | waiting (k : Nat) : stk = [.wait (.subSrc (st.gen - 1)) .done] → st.sinks = [k] → phAt st.first (st.gen - 1) = k →
      g.sinkPh k = .subscribed → (∀ k', k' ≠ k → g.sinkPh k' ≠ .live ∧ g.sinkPh k' ≠ .subscribed) →
      g.srcPh (st.gen - 1) = .subscribed → (∀ i, i ≠ st.gen - 1 → g.srcPh i ≠ .live ∧ g.srcPh i ≠ .subscribed) →
      WMode st g stk
  | tfan (s : Nat) (d : Down α) (r : List Nat) (rest : List (Fr α)) :
      stk = .wait (.down s d) (.fLoop r d) :: rest → isEndD d = true → SOK g rest → (∀ x ∈ r, Greeted g x) →
      (∀ k, g.sinkPh k = .live → k ∈ r) → (∀ k, g.sinkPh k ≠ .subscribed) →
      (∀ i, g.srcPh i ≠ .live ∧ g.srcPh i ≠ .subscribed) → WMode st g stk

def WInv' (st : St) (stk : List (Fr α)) (ph : Ph) : Prop :=
  OnlyLateDelivery ph.viols ∧ st.first.length = st.gen ∧ (∀ i, st.gen ≤ i → ph.srcPh i = .idle) ∧ WMode st ph stk

def WInv (s : Cfg α) : Prop := s.panicked = none ∧ WInv' s.st s.stack s.g.ph

/-- the sticky property proved for every reachable configuration -/
def P (s : Cfg α) : Prop := OnlyLateDelivery s.g.ph.viols ∧ s.panicked = none

theorem winv_of_reaches {s : Cfg α} {st stk ph} (h : Reaches s st stk ph) (hi : WInv' st stk ph) :
    ∃ n, WInv (advance (machine α) n s) := by
  obtain ⟨n, h1, h2, h3, h4⟩ := h
  exact ⟨n, h4, by rw [h1, h2, h3]; exact hi⟩

/-! ## operational lemmas for deliveries to sinks of unknown phase -/

theorem run_fLoop_cons (s : Nat) (r : List Nat) (d : Down α) (st : St) (stk : List (Fr α)) (g : G) (tr : List (Ev α α)) :
    Reaches ⟨st, .run (.fLoop (s :: r) d) :: stk, g, tr, none⟩
      st (.wait (.down s d) (.fLoop r d) :: stk) (g.ph.onOut (.down s d)) :=
  ⟨1, by simp [advance, opStep, machine, step]⟩

theorem run_f0_cons (s : Nat) (r : List Nat) (d : Down α) (st : St) (stk : List (Fr α)) (g : G) (tr : List (Ev α α))
    (hs : st.sinks = s :: r) :
    Reaches ⟨st, .run (.f0 d) :: stk, g, tr, none⟩
      st (.wait (.down s d) (.fLoop r d) :: stk) (g.ph.onOut (.down s d)) :=
  ⟨2, by simp [advance, opStep, machine, step, hs]⟩

/-! ## turn, init -/

theorem ctx_isSome_of_sok {g : Ph} {stk : List (Fr α)} (h : SOK g stk) : (ctxOf stk).isSome := by
  cases stk with
  | nil => simp [ctxOf]
  | cons f r =>
    rcases h f (by simp) with ⟨o, rfl⟩ | ⟨s, a, r', rfl, _⟩ <;> simp [ctxOf]

theorem inv_turn (s : Cfg α) (h : WInv s) : EnvTurn s ∧ P s := by
  obtain ⟨hp, hv, _, _, hm⟩ := h
  refine ⟨⟨hp, ?_⟩, hv, hp⟩
  cases hm with
  | core _ hs => exact ctx_isSome_of_sok hs
  | waiting k he => simp [he, ctxOf]
  | tfan s0 d r rest he => simp [he, ctxOf]

theorem inv_init : WInv (Sys.init (machine α)) := by
  refine ⟨rfl, fun v hv => by simp [Sys.init] at hv, rfl, fun i _ => by simp [Sys.init], WMode.core ?_ (by simp [Sys.init]; exact SOK.nil _)⟩
  exact ⟨fun k => by simp [Sys.init, machine], fun k => by simp [Sys.init], by simp [Sys.init, machine],
    fun h => by simp [Sys.init, machine] at h, fun i h => by simp [Sys.init] at h, fun i => by simp [Sys.init]⟩

/-! ## the environment moves -/

theorem step_subscribe {st : St} {stk : List (Fr α)} {g : G} {tr : List (Ev α α)} {c : Ctx α} {k : Nat}
    (hI : WInv' st stk g.ph) (hc : ctxOf stk = some c) (hl : legalIn (machine α).shape g.ph c (In.subscribe k : In α) = true) :
    ∃ n, WInv (advance (machine α) n
      ⟨st, .run (enter (In.subscribe k : In α)) :: stk, g.onIn stk.length (In.subscribe k : In α), .inp (.subscribe k) :: tr, none⟩) := by
  obtain ⟨hv, hlen, hidle, hm⟩ := hI
  simp only [legalIn, Bool.and_eq_true, beq_iff_eq, machine, Bool.or_true] at hl
  obtain ⟨⟨htop, hki⟩, _⟩ := hl
  have := stk_nil_of_top hc htop; subst this
  rcases hm with ⟨hcore, _⟩ | ⟨k0, hs, _⟩ | ⟨s, d, r, rest, hs, _⟩
  · by_cases he : st.sinks = []
    · have hnl : ∀ k', g.ph.sinkPh k' ≠ .live := fun k' h => by
        have := (hcore.mem k').2 h; rw [he] at this; cases this
      have hnls : ∀ i, g.ph.srcPh i ≠ .live := fun i h => (hcore.live i h).2 he
      refine winv_of_reaches (run_sub_first k st [] _ _ he (by simpa [Ph.onIn] using hidle _ (Nat.le_refl _))
        ((Ph.anySinkOpen_iff _).2 ⟨k, by simp [Ph.onIn]⟩)) ?_
      refine ⟨by simpa [Ph.onIn] using hv, by simp [hlen], fun i hi => ?_, WMode.waiting k (by simp) rfl ?_ (by simp [Ph.onIn]) ?_ (by simp) ?_⟩
      · have : i ≠ st.gen := by simp at hi; omega
        simp [Ph.onIn, this]; exact hidle i (by simp at hi; omega)
      · simp [phAt, ← hlen]
      · intro k' hk'; simp [Ph.onIn, hk']; exact ⟨hnl k', hcore.nosub k'⟩
      · intro i hi; simp at hi; simp [Ph.onIn, hi]; exact ⟨hnls i, hcore.nosrcsub i⟩
    · have hkn : k ∉ st.sinks := fun h => by have := (hcore.mem k).1 h; rw [hki] at this; cases this
      refine winv_of_reaches (run_sub_more k st [] _ _ he (by simp [Ph.onIn])) ?_
      refine ⟨by simpa [Ph.onIn] using hv, hlen, fun i hi => by simpa [Ph.onIn] using hidle i hi,
        WMode.core ?_ ((SOK.nil _).cons_tail _)⟩
      refine ⟨fun k' => ?_, fun k' => ?_, ?_, fun _ => ?_, fun i hi => ?_, fun i => by simpa [Ph.onIn] using hcore.nosrcsub i⟩
      · by_cases hk' : k' = k
        · simp [hk']
        · simp [Ph.onIn, hk']; exact hcore.mem k'
      · by_cases hk' : k' = k
        · simp [hk']
        · simp [Ph.onIn, hk']; exact hcore.nosub k'
      · exact List.nodup_append.2 ⟨hcore.nodup, by simp, fun a ha b hb => by simp at hb; subst hb; rintro rfl; exact hkn ha⟩
      · simpa [Ph.onIn] using hcore.up he
      · have := hcore.live i (by simpa [Ph.onIn] using hi)
        exact ⟨this.1, by simp⟩
  · simp at hs
  · simp at hs

/-- a live sink that has control: the mode is `core` (in `waiting` no sink is live, in `tfan` nobody can call) -/
theorem sink_has_control {st : St} {stk : List (Fr α)} {ph : Ph} {c : Ctx α} {k : Nat}
    (hm : WMode st ph stk) (hc : ctxOf stk = some c) (hlive : ph.sinkPh k = .live)
    (hctx : isTop c = true ∨ inGreet k c = true ∨ inData k c = true) : Core st ph ∧ SOK ph stk := by
  rcases hm with ⟨hcore, hs⟩ | ⟨k0, hs, _, _, hk0, hoth, _⟩ | ⟨s, d, r, rest, hs, hd, _⟩
  · exact ⟨hcore, hs⟩
  · by_cases hk : k = k0
    · subst hk; rw [hk0] at hlive; cases hlive
    · exact absurd hlive (hoth k hk).1
  · subst hs
    simp [ctxOf] at hc; subst hc
    cases d <;> simp [isEndD, isTop, inGreet, inData] at hd hctx

theorem step_pull {st : St} {stk : List (Fr α)} {g : G} {tr : List (Ev α α)} {c : Ctx α} {k : Nat}
    (hI : WInv' st stk g.ph) (hc : ctxOf stk = some c) (hl : legalIn (machine α).shape g.ph c (In.sinkUp k .pull : In α) = true) :
    ∃ n, WInv (advance (machine α) n
      ⟨st, .run (enter (In.sinkUp k .pull : In α)) :: stk, g.onIn stk.length (In.sinkUp k .pull : In α), .inp (.sinkUp k .pull) :: tr, none⟩) := by
  obtain ⟨hv, hlen, hidle, hm⟩ := hI
  simp only [legalIn, Bool.and_eq_true, beq_iff_eq, Bool.or_eq_true] at hl
  obtain ⟨hlive, hctx⟩ := hl
  obtain ⟨hcore, hs⟩ := sink_has_control hm hc hlive (by simpa [or_assoc] using hctx)
  have hne : st.sinks ≠ [] := List.ne_nil_of_mem ((hcore.mem k).2 hlive)
  obtain ⟨hup, hslot⟩ := hcore.up hne
  refine winv_of_reaches (run_p0 (st.gen - 1) st stk _ _ hslot (by simpa [Ph.onIn] using hup)) ?_
  refine ⟨by simpa [Ph.onIn] using hv, hlen, by simpa [Ph.onIn] using hidle,
    WMode.core (by simpa [Ph.onIn] using hcore) (by simpa [Ph.onIn] using hs.cons_tail _)⟩

/-- sink `k` disposes (`Terminate` or `Error`): stated for any ghost whose phases are those after the call -/
theorem step_dispose_aux {st : St} {stk : List (Fr α)} {g g1 : G} {tr : List (Ev α α)} {c : Ctx α} {k : Nat}
    (hI : WInv' st stk g.ph) (hc : ctxOf stk = some c) (hlive : g.ph.sinkPh k = .live)
    (hctx : isTop c = true ∨ inGreet k c = true ∨ inData k c = true) (hg1 : g1.ph = g.ph.setSink k .doneBySelf) :
    ∃ n, WInv (advance (machine α) n ⟨st, .run (.x0 k) :: stk, g1, tr, none⟩) := by
  obtain ⟨hv, hlen, hidle, hm⟩ := hI
  obtain ⟨hcore, hs⟩ := sink_has_control hm hc hlive hctx
  have hk : k ∈ st.sinks := (hcore.mem k).2 hlive
  have hne : st.sinks ≠ [] := List.ne_nil_of_mem hk
  obtain ⟨hup, hslot⟩ := hcore.up hne
  have hs' : SOK (g.ph.setSink k .doneBySelf) stk := hs.mono (fun x hx => hx.setSink _ _ (Or.inr (Or.inr rfl)))
  have hmem : ∀ k', k' ∈ st.sinks.erase k ↔ (g.ph.setSink k .doneBySelf).sinkPh k' = .live := by
    intro k'
    by_cases hk' : k' = k
    · subst hk'; simp [hcore.nodup.mem_erase_iff]
    · simp [hk', List.mem_erase_of_ne hk']; exact hcore.mem k'
  have hnosub : ∀ k', (g.ph.setSink k .doneBySelf).sinkPh k' ≠ .subscribed := by
    intro k'
    by_cases hk' : k' = k
    · simp [hk']
    · simp [hk']; exact hcore.nosub k'
  by_cases he : st.sinks.erase k = []
  · refine winv_of_reaches (run_x0_last k (st.gen - 1) st stk g1 tr he hslot (by simpa [hg1] using hup)) ?_
    rw [hg1]
    refine ⟨by simpa using hv, hlen, fun i hi => ?_, WMode.core ?_ ?_⟩
    · have hi' : i ≠ st.gen - 1 := by simp at hi; have := hidle (st.gen - 1); intro h; rw [← h, hidle i hi] at hup; cases hup
      simp [hi']; exact hidle i hi
    · refine ⟨fun k' => ?_, ?_, List.nodup_nil, fun h => absurd rfl h, fun i hi => ?_, fun i => ?_⟩
      · have := hmem k'; rw [he] at this; simpa using this
      · simpa using hnosub
      · exfalso
        by_cases hi' : i = st.gen - 1
        · simp [hi'] at hi
        · simp [hi'] at hi; exact hi' (hcore.live i hi).1
      · by_cases hi' : i = st.gen - 1
        · simp [hi']
        · simp [hi']; exact hcore.nosrcsub i
    · exact (hs'.mono (fun x hx => hx.congr rfl)).cons_tail _
  · refine winv_of_reaches (run_x0_some k st stk g1 tr he) ?_
    rw [hg1]
    refine ⟨by simpa using hv, hlen, by simpa using hidle, WMode.core ?_ hs'⟩
    exact ⟨hmem, hnosub, hcore.nodup.erase k, fun _ => by simpa using hcore.up hne,
      fun i hi => ⟨(hcore.live i (by simpa using hi)).1, he⟩, fun i => by simpa using hcore.nosrcsub i⟩

theorem step_greet {st : St} {stk : List (Fr α)} {g : G} {tr : List (Ev α α)} {c : Ctx α} {i : Nat}
    (hI : WInv' st stk g.ph) (hl : legalIn (machine α).shape g.ph c (In.srcGreet i : In α) = true) :
    ∃ n, WInv (advance (machine α) n
      ⟨st, .run (.g0 i) :: stk, g.onIn stk.length (In.srcGreet i : In α), .inp (.srcGreet i) :: tr, none⟩) := by
  obtain ⟨hv, hlen, hidle, hm⟩ := hI
  simp only [legalIn, Bool.and_eq_true, beq_iff_eq] at hl
  obtain ⟨hsub, _⟩ := hl
  rcases hm with ⟨hcore, _⟩ | ⟨k, hs, hsinks, hfirst, hk, hoth, hsrc, hoths⟩ | ⟨s, d, r, rest, _, _, _, _, _, _, hsrcs⟩
  · exact absurd hsub (hcore.nosrcsub i)
  · have hi : i = st.gen - 1 := by
      by_cases hi : i = st.gen - 1
      · exact hi
      · exact absurd hsub (hoths i hi).2
    subst hi
    have hgen : 0 < st.gen := by
      rcases Nat.eq_zero_or_pos st.gen with h0 | h0
      · have := hidle (st.gen - 1) (by omega); rw [this] at hsrc; cases hsrc
      · exact h0
    refine winv_of_reaches (run_g0 (st.gen - 1) st stk _ _ (by simpa [Ph.onIn, hfirst] using hk)) ?_
    rw [hfirst, hs]
    refine ⟨by simpa [Ph.onIn] using hv, hlen, fun i hi => ?_, WMode.core ?_ (((SOK.nil _).cons_tail _).cons_tail _)⟩
    · have hi' : i ≠ st.gen - 1 := by simp at hi; omega
      simp [Ph.onIn, hi']; exact hidle i hi
    · refine ⟨fun k' => ?_, fun k' => ?_, by simp [hsinks], fun _ => by simp [Ph.onIn], fun i hi => ?_, fun i => ?_⟩
      · by_cases hk' : k' = k
        · simp [hk', hsinks]
        · simp [hk', hsinks, Ph.onIn]; exact (hoth k' hk').1
      · by_cases hk' : k' = k
        · simp [hk']
        · simp [hk', Ph.onIn]; exact (hoth k' hk').2
      · refine ⟨?_, by simp [hsinks]⟩
        by_cases hi' : i = st.gen - 1
        · exact hi'
        · simp [Ph.onIn, hi'] at hi; exact absurd hi (hoths i hi').1
      · by_cases hi' : i = st.gen - 1
        · simp [Ph.onIn, hi']
        · simp [Ph.onIn, hi']; exact (hoths i hi').2
  · exact absurd hsub (hsrcs i).2

/-- an upstream that is live: the mode is `core` -/
theorem src_live_core {st : St} {stk : List (Fr α)} {ph : Ph} {i : Nat}
    (hm : WMode st ph stk) (hlive : ph.srcPh i = .live) : Core st ph ∧ SOK ph stk := by
  rcases hm with ⟨hcore, hs⟩ | ⟨k, _, _, _, _, _, hsrc, hoths⟩ | ⟨s, d, r, rest, _, _, _, _, _, _, hsrcs⟩
  · exact ⟨hcore, hs⟩
  · by_cases hi : i = st.gen - 1
    · subst hi; rw [hsrc] at hlive; cases hlive
    · exact absurd hlive (hoths i hi).1
  · exact absurd hlive (hsrcs i).1

/-- upstream data, at top level or NESTED inside an open fan-out: one more data fan-out frame -/
theorem step_down_data {st : St} {stk : List (Fr α)} {g : G} {tr : List (Ev α α)} {c : Ctx α} {i : Nat} {a : α}
    (hI : WInv' st stk g.ph) (hl : legalIn (machine α).shape g.ph c (In.srcDown i (.data a) : In α) = true) :
    ∃ n, WInv (advance (machine α) n
      ⟨st, .run (.f0 (.data a)) :: stk, g.onIn stk.length (In.srcDown i (.data a) : In α), .inp (.srcDown i (.data a)) :: tr, none⟩) := by
  obtain ⟨hv, hlen, hidle, hm⟩ := hI
  simp only [legalIn, Bool.and_eq_true, beq_iff_eq] at hl
  obtain ⟨hlive, _⟩ := hl
  obtain ⟨hcore, hs⟩ := src_live_core hm hlive
  obtain ⟨_, hne⟩ := hcore.live i hlive
  obtain ⟨s0, r, hsr⟩ := List.exists_cons_of_ne_nil hne
  have hgr : ∀ x ∈ st.sinks, Greeted g.ph x := fun x hx => Or.inl ((hcore.mem x).1 hx)
  refine winv_of_reaches (run_f0_cons s0 r (.data a) st stk _ _ hsr) ?_
  have hph : (g.onIn stk.length (In.srcDown i (.data a) : In α)).ph = g.ph := by simp [Ph.onIn]
  rw [hph]
  refine ⟨down_viols _ _ _ (hgr s0 (by simp [hsr])) hv, hlen, fun j hj => by rw [down_srcPh]; exact hidle j hj,
    WMode.core (core_congr hcore (down_data_sinkPh _ _ _) (down_srcPh _ _ _)) ?_⟩
  exact (hs.cons_fan s0 a r (fun x hx => hgr x (by simp [hsr, hx]))).mono (fun x hx => down_greeted _ _ _ x hx)

/-- upstream terminal (at top level or nested inside an open DATA fan-out): terminal fan-out on top -/
theorem step_down_end {st : St} {stk : List (Fr α)} {g g1 : G} {tr : List (Ev α α)} {i : Nat} {d : Down α}
    (hI : WInv' st stk g.ph) (hlive : g.ph.srcPh i = .live) (hd : isEndD d = true)
    (hg1 : g1.ph = g.ph.setSrc i .ended) :
    ∃ n, WInv (advance (machine α) n ⟨st, .run (.f0 d) :: stk, g1, tr, none⟩) := by
  obtain ⟨hv, hlen, hidle, hm⟩ := hI
  obtain ⟨hcore, hs⟩ := src_live_core hm hlive
  obtain ⟨hi, hne⟩ := hcore.live i hlive
  obtain ⟨s0, r, hsr⟩ := List.exists_cons_of_ne_nil hne
  have hgr : ∀ x ∈ st.sinks, Greeted (g.ph.setSrc i .ended) x := fun x hx => Or.inl ((hcore.mem x).1 hx)
  refine winv_of_reaches (run_f0_cons s0 r d st stk g1 tr hsr) ?_
  rw [hg1]
  refine ⟨down_viols _ _ _ (hgr s0 (by simp [hsr])) (by simpa using hv), hlen, fun i' hi' => ?_,
    WMode.tfan s0 d r stk rfl hd ?_ (fun x hx => down_greeted _ _ _ x (hgr x (by simp [hsr, hx])))
      (fun k hk => ?_) (fun k => down_nosub _ _ _ (fun k' => by simpa using hcore.nosub k') k) (fun i' => ?_)⟩
  · have : i' ≠ i := by rintro rfl; rw [hidle _ hi'] at hlive; cases hlive
    rw [down_srcPh]; simp [this]; exact hidle i' hi'
  · exact hs.mono (fun x hx => down_greeted _ _ _ x (hx.congr rfl))
  · have hk0 : k ≠ s0 := by rintro rfl; exact down_end_self _ _ _ hd hk
    have := down_live_back _ _ _ _ hk
    have hmem : k ∈ st.sinks := (hcore.mem k).2 (by simpa using this)
    rw [hsr] at hmem
    simpa [hk0] using hmem
  · rw [down_srcPh]
    by_cases hi' : i' = i
    · simp [hi']
    · simp [hi']; exact ⟨fun h => hi' ((hcore.live i' h).1.trans hi.symm), hcore.nosrcsub i'⟩

theorem step_ret {st : St} {stk : List (Fr α)} {g : G} {tr : List (Ev α α)} {o : Out α} {l : Loc α}
    (hI : WInv' st (.wait o l :: stk) g.ph) (hl : legalRet (machine α).shape g.ph (.inCall o : Ctx α) = true) :
    ∃ n, WInv (advance (machine α) n ⟨st, .run l :: stk, g, .retE :: tr, none⟩) := by
  obtain ⟨hv, hlen, hidle, hm⟩ := hI
  rcases hm with ⟨hcore, hs⟩ | ⟨k, hs, _, _, _, _, hsrc, _⟩ | ⟨s, d, r, rest, hs, hd, hrest, hgr, hlv, hnosub, hsrcs⟩
  · have hrest : SOK g.ph stk := hs.tail
    rcases hs _ List.mem_cons_self with ⟨o', ho'⟩ | ⟨s0, a, r, he, hr⟩
    · simp at ho'; obtain ⟨rfl, rfl⟩ := ho'
      exact winv_of_reaches (run_done st stk g _) ⟨hv, hlen, hidle, WMode.core hcore hrest⟩
    · simp at he; obtain ⟨rfl, rfl⟩ := he
      cases r with
      | nil => exact winv_of_reaches (run_fLoop_nil_data a st stk g _) ⟨hv, hlen, hidle, WMode.core hcore hrest⟩
      | cons s1 r1 =>
        -- the next sink of the snapshot may be done by now (nested terminal / disposal): at worst a late delivery
        refine winv_of_reaches (run_fLoop_cons s1 r1 (.data a) st stk g _)
          ⟨down_viols _ _ _ (hr s1 (by simp)) hv, hlen, fun j hj => by rw [down_srcPh]; exact hidle j hj,
            WMode.core (core_congr hcore (down_data_sinkPh _ _ _) (down_srcPh _ _ _)) ?_⟩
        exact (hrest.cons_fan s1 a r1 (fun x hx => hr x (by simp [hx]))).mono (fun x hx => down_greeted _ _ _ x hx)
  · simp at hs; obtain ⟨⟨rfl, rfl⟩, rfl⟩ := hs
    simp [legalRet, machine, hsrc] at hl
  · simp at hs; obtain ⟨⟨rfl, rfl⟩, rfl⟩ := hs
    cases r with
    | nil =>
      refine winv_of_reaches (run_fLoop_nil_end d hd st stk g _) ⟨hv, hlen, hidle, WMode.core ?_ hrest⟩
      exact ⟨fun k => ⟨fun h => (by cases h), fun h => hlv k h⟩, hnosub, List.nodup_nil, fun h => absurd rfl h,
        fun i hi => absurd hi (hsrcs i).1, fun i => (hsrcs i).2⟩
    | cons s1 r1 =>
      refine winv_of_reaches (run_fLoop_cons s1 r1 d st stk g _)
        ⟨down_viols _ _ _ (hgr s1 (by simp)) hv, hlen, fun j hj => by rw [down_srcPh]; exact hidle j hj,
          WMode.tfan s1 d r1 stk rfl hd (hrest.mono (fun x hx => down_greeted _ _ _ x hx))
            (fun x hx => down_greeted _ _ _ x (hgr x (by simp [hx]))) (fun k hk => ?_) (down_nosub _ _ _ hnosub)
            (fun i => by rw [down_srcPh]; exact hsrcs i)⟩
      have hk0 : k ≠ s1 := by rintro rfl; exact down_end_self _ _ _ hd hk
      have := hlv k (down_live_back _ _ _ _ hk)
      simpa [hk0] using this

theorem inv_step (s s' : Cfg α) (m : Move α) (h : WInv s) (hs : EnvStep (machine α) m s s') :
    ∃ n, WInv (advance (machine α) n s') := by
  obtain ⟨hp, hI⟩ := h
  cases hs with
  | @call st stk g tr c i hc hl =>
    simp only at hI
    cases i with
    | subscribe k => exact step_subscribe hI hc hl
    | sinkUp k u =>
      cases u with
      | pull => exact step_pull hI hc hl
      | term =>
        simp only [legalIn, Bool.and_eq_true, beq_iff_eq, Bool.or_eq_true] at hl
        exact step_dispose_aux hI hc hl.1 (by simpa [or_assoc] using hl.2) (by simp [Ph.onIn])
      | err e =>
        simp only [legalIn, Bool.and_eq_true, beq_iff_eq, Bool.or_eq_true] at hl
        exact step_dispose_aux hI hc hl.1 (by simpa [or_assoc] using hl.2) (by simp [Ph.onIn])
    | srcGreet i => exact step_greet hI hl
    | srcDown i d =>
      cases d with
      | data a => exact step_down_data hI hl
      | term =>
        simp only [legalIn, Bool.and_eq_true, beq_iff_eq] at hl
        exact step_down_end hI hl.1 rfl (by simp [Ph.onIn])
      | err e =>
        simp only [legalIn, Bool.and_eq_true, beq_iff_eq] at hl
        exact step_down_end hI hl.1 rfl (by simp [Ph.onIn])
  | @ret st stk g tr o l hl => exact step_ret hI hl

theorem P_mono (s s' : Cfg α) (h : opStep (machine α) s = some s') (hs : P s') : P s := by
  obtain ⟨⟨l, hl⟩, _, hp⟩ := opStep_viols_suffix (machine α) s s' h
  refine ⟨fun v hv => hs.1 v ?_, hp hs.2⟩
  rw [hl]; exact List.mem_append_right _ hv

/-- share, any number of sinks, EVERY conformant environment (upstream deliveries nested inside share's own deliveries
included): no sink is greeted twice or receives anything before its greeting (C01), share never panics (C17), no upstream
is subscribed twice or once the output is over, no `Pull`/`Terminate` goes to an upstream that is not live (protocol part
of C04).  The only phase-level violations are deliveries to sinks of a fan-out snapshot that are already done
(`afterTerm`: KF5a, `afterDispose`: KF5b). -/
theorem share_safe_weak {α : Type} :
    ∀ s, SReach (machine α) s → OnlyLateDelivery s.g.ph.viols ∧ s.panicked = none :=
  reach_of_macro_inv (machine α) anyEnv P WInv inv_init inv_turn
    (fun s s' m hi he _ => inv_step s s' m hi he) P_mono

end Cb.ShareWeak

#print axioms Cb.ShareWeak.share_safe_weak
