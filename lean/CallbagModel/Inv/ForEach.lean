import CallbagModel.Inv.Ghost
import CallbagModel.Ops.ForEach
/-!
# for_each: the phase-level safety invariant

Sink 0 is the user who applied `for_each(f)(source)`: idle, then subscribed for ever (a sink has no downstream to greet).
The one continuation that carries an assumption is `wait (.app a) .pull` ("the closure has been applied; now pull"): it
assumes the source is still live and the talkback is stored.  It is stable because it is only ever the *top* frame, and
in context `inCall (.app a)` the environment has no legal call — it can only return.
-/
namespace Cb.ForEach
open Cb

variable {α : Type}

/-- continuations that assume nothing -/
def Benign : Frame (Loc α) α → Prop
  | .wait _ .done => True
  | _ => False

inductive Mode (st : St) (g : Ph) (stk : List (Frame (Loc α) α)) : Prop where
  | m1 : g.sinkPh 0 = .idle → g.srcPh 0 = .idle → stk = [] → Mode st g stk
  | m2 : g.sinkPh 0 = .subscribed → g.srcPh 0 = .subscribed → stk = [.wait (.subSrc 0) .done] → Mode st g stk
  | m3 : g.sinkPh 0 = .subscribed → g.srcPh 0 = .live → st.tb = true → (∀ f ∈ stk, Benign f) → Mode st g stk
  | m3a : g.sinkPh 0 = .subscribed → g.srcPh 0 = .live → st.tb = true →
          (∃ a rest, stk = .wait (.app a) .pull :: rest ∧ ∀ f ∈ rest, Benign f) → Mode st g stk
  | m4 : g.sinkPh 0 = .subscribed → g.srcPh 0 = .ended → (∀ f ∈ stk, Benign f) → Mode st g stk

def Inv (s : Sys St (Loc α) α α) : Prop :=
  s.panicked = none ∧ s.g.ph.viols = [] ∧
  (∀ i, i ≠ 0 → s.g.ph.srcPh i = .idle) ∧ (∀ j, j ≠ 0 → s.g.ph.sinkPh j = .idle) ∧
  Mode s.st s.g.ph s.stack

theorem ctx_isSome_of_benign {stk : List (Frame (Loc α) α)}
    (h : ∀ f ∈ stk, Benign f) : (ctxOf stk).isSome := by
  cases stk with
  | nil => simp [ctxOf]
  | cons f r =>
    have := h f (by simp)
    cases f with
    | run l => simp [Benign] at this
    | wait o l => simp [ctxOf]

theorem inv_turn (s : Sys St (Loc α) α α) (h : Inv s) : EnvTurn s ∧ BasicSafe s := by
  obtain ⟨hp, hb, _, _, hm⟩ := h
  refine ⟨⟨hp, ?_⟩, hb, hp⟩
  cases hm with
  | m1 _ _ h => simp [h, ctxOf]
  | m2 _ _ h => simp [h, ctxOf]
  | m3 _ _ _ h => exact ctx_isSome_of_benign h
  | m3a _ _ _ h => obtain ⟨a, r, h, _⟩ := h; simp [h, ctxOf]
  | m4 _ _ h => exact ctx_isSome_of_benign h

theorem benign_done (o : Out α) : Benign (Frame.wait o .done : Frame (Loc α) α) := by simp [Benign]

macro "exec" n:num : tactic =>
  `(tactic| (refine ⟨$n, ?_⟩; simp [advance, opStep, machine, enter, step, Ph.onIn, Ph.onOut, Inv, isFinal, *]))

theorem inv_step (s s' : Sys St (Loc α) α α) (m : Move α) (h : Inv s) (hs : EnvStep (machine α) m s s') :
    ∃ n, Inv (advance (machine α) n s') := by
  obtain ⟨hp, hb, hoth, hoths, hm⟩ := h
  cases hs with
  | @call st stk g tr c i hc hl =>
    simp only at hp hb hoth hoths hm
    cases i with
    | subscribe j =>
      simp only [legalIn, Bool.and_eq_true, beq_iff_eq, machine, Bool.or_false] at hl
      obtain ⟨⟨hc', hidle⟩, rfl⟩ := hl
      cases hm <;> simp_all
      have hopen : (g.ph.setSink 0 .subscribed).anySinkOpen = true := (Ph.anySinkOpen_iff _).2 ⟨0, by simp⟩
      exec 1
      refine ⟨fun i hi => by simp [hi, hoth i hi], fun j hj => by simp [hj, hoths j hj], Mode.m2 (by simp) (by simp) rfl⟩
    | sinkUp j u =>
      simp only [legalIn, Bool.and_eq_true, beq_iff_eq, Bool.or_eq_true] at hl
      obtain ⟨hlive, hctx⟩ := hl
      by_cases hj : j = 0
      · subst hj; cases hm <;> simp_all
      · rw [hoths j hj] at hlive; cases hlive
    | srcGreet i =>
      simp only [legalIn, Bool.and_eq_true, beq_iff_eq, machine, Bool.false_and, Bool.or_false] at hl
      obtain ⟨hsub, hin⟩ := hl
      by_cases hi : i = 0
      · subst hi
        cases hm with
        | m2 h1 h2 h5 =>
          subst h5
          exec 2
          refine ⟨fun i hi => by simp [hi, hoth i hi], hoths, Mode.m3 h1 (by simp) rfl ?_⟩
          simp [Benign]
        | _ => simp_all
      · simp [hoth i hi] at hsub
    | srcDown i d =>
      simp only [legalIn, Bool.and_eq_true, beq_iff_eq, Bool.or_eq_true] at hl
      obtain ⟨hlive, hctx⟩ := hl
      by_cases hi : i = 0
      · subst hi
        cases hm with
        | m3 h1 h2 h3 h6 =>
          cases d with
          | data a =>
            exec 1
            exact ⟨hoth, hoths, Mode.m3a h1 h2 h3 ⟨a, stk, rfl, h6⟩⟩
          | term =>
            exec 1
            exact ⟨fun i hi => by simp [hi, hoth i hi], hoths, Mode.m4 h1 (by simp) h6⟩
          | err e =>
            exec 1
            exact ⟨fun i hi => by simp [hi, hoth i hi], hoths, Mode.m4 h1 (by simp) h6⟩
        | m3a h1 h2 h3 h5 =>
          obtain ⟨a, rest, rfl, _⟩ := h5
          simp [ctxOf] at hc; subst hc; simp [isTop, inSub, inPull] at hctx
        | _ => simp_all
      · simp [hoth i hi] at hlive
  | @ret st stk g tr o l hl =>
    simp only at hp hb hoth hoths hm
    have hl_done : ∀ (_ : ∀ f ∈ Frame.wait o l :: stk, Benign f), l = .done ∧ ∀ f ∈ stk, Benign f := by
      intro h6
      have hben := h6 _ (List.mem_cons_self)
      refine ⟨?_, (List.forall_mem_cons.1 h6).2⟩
      cases l <;> simp_all [Benign]
    cases hm with
    | m1 _ _ h => simp at h
    | m2 h1 h2 h5 =>
      simp at h5; obtain ⟨⟨rfl, rfl⟩, rfl⟩ := h5
      simp [legalRet, h2, machine] at hl
    | m3 h1 h2 h3 h6 =>
      obtain ⟨rfl, hrest⟩ := hl_done h6
      exec 1
      exact ⟨hoth, hoths, Mode.m3 h1 h2 h3 hrest⟩
    | m3a h1 h2 h3 h5 =>
      obtain ⟨a, rest, he, hrest⟩ := h5
      simp at he; obtain ⟨⟨rfl, rfl⟩, rfl⟩ := he
      exec 1
      exact ⟨hoth, hoths, Mode.m3 h1 h2 h3 (List.forall_mem_cons.2 ⟨benign_done _, hrest⟩)⟩
    | m4 h1 h2 h6 =>
      obtain ⟨rfl, hrest⟩ := hl_done h6
      exec 1
      exact ⟨hoth, hoths, Mode.m4 h1 h2 hrest⟩

theorem inv_init : Inv (Sys.init (machine α)) :=
  ⟨rfl, rfl, fun _ _ => by simp [Sys.init], fun _ _ => by simp [Sys.init],
    Mode.m1 (by simp [Sys.init]) (by simp [Sys.init]) rfl⟩

/-- for_each: under every conformant source (synchronous or deferred, re-entrant through `Pull`), the sink never talks
to a source that is not live and never panics. -/
theorem forEach_basicSafe : ∀ s, SReach (machine α) s → BasicSafe s :=
  basicSafe_of_macro_inv (machine α) Inv inv_init inv_turn inv_step

end Cb.ForEach

#print axioms Cb.ForEach.forEach_basicSafe
