import CallbagModel.Inv.Ghost2
import CallbagModel.Inv.Relay
/-!
# map / filter / scan / skip: the FULL safety invariant (both ghost layers: C01–C05, C17)

`Mode`, `Benign` are those of `Inv/Relay.lean`.  New in the invariant: `XOk s.g` and `sinkErr = none` unless the sink has
disposed (needed where the sink's `Terminate` is forwarded upstream).  The case analysis and the step counts are exactly
those of `Relay.inv_step`.
-/
namespace Cb.RelayFull
open Cb Cb.Relay

variable {σ α β : Type}

def Inv (k : Kind σ α β) (s : Sys (St σ) (Loc α β) α β) : Prop :=
  s.panicked = none ∧ s.g.ph.viols = [] ∧
  (∀ i, i ≠ 0 → s.g.ph.srcPh i = .idle) ∧ (∀ j, j ≠ 0 → s.g.ph.sinkPh j = .idle) ∧
  Mode k s.st s.g.ph s.stack ∧ XOk s.g ∧ (s.g.ph.sinkPh 0 ≠ .doneBySelf → s.g.sinkErr = none)

theorem inv_turn (k : Kind σ α β) (s : Sys (St σ) (Loc α β) α β) (h : Inv k s) : EnvTurn s ∧ Safe s := by
  obtain ⟨hp, hb, ho, hos, hm, hx, hse⟩ := h
  have := (Relay.inv_turn k s ⟨hp, hb, ho, hos, hm⟩).1
  exact ⟨this, by simp [G.viols, hb, hx.clean], hp⟩

macro "exec" n:num : tactic =>
  `(tactic| (refine ⟨$n, ?_⟩; simp [advance, opStep, machine, enter, step, Ph.onIn, Ph.onOut, Inv, isFinal, onIn_srcErr, *]))

/-- no upstream other than 0 is ever live -/
theorem noLive_of {g : Ph} (hoth : ∀ i, i ≠ 0 → g.srcPh i = .idle) (h0 : g.srcPh 0 ≠ .live) : ∀ i, g.srcPh i ≠ .live := by
  intro i; by_cases hi : i = 0
  · subst hi; exact h0
  · rw [hoth i hi]; decide

/-- side goals about fields of a structure literal, whichever way `simp` has normalised it -/
macro "fld" : tactic => `(tactic| first | rfl | assumption | exact Or.inl rfl | exact Or.inr rfl | simp)

/-- the second layer is untouched and the phases are as before, while upstream 0 is live -/
theorem xok_live {g g' : G} (hx : XOk g) (h2 : g.ph.srcPh 0 = .live) (hfin : g'.fin = g.fin) (hpend : g'.pend = g.pend ∨ g'.pend = none)
    (hxv : g'.xviols = g.xviols) (ho : NoOrphan g'.ph) : XOk g' :=
  hx.of_fields hfin hpend hxv (Or.inl (hx.pend_none_of_live 0 h2)) ho

theorem inv_step (k : Kind σ α β) (hk : k.slotted = false → ∀ s a, (k.xfer s a).2 ≠ none)
    (s s' : Sys (St σ) (Loc α β) α β) (m : Move α) (h : Inv k s) (hs : EnvStep (machine k) m s s') :
    ∃ n, Inv k (advance (machine k) n s') := by
  obtain ⟨hp, hb, hoth, hoths, hm, hx, hse⟩ := h
  cases hs with
  | @call st stk g tr c i hc hl =>
    simp only at hp hb hoth hoths hm hx hse
    cases i with
    | subscribe j =>
      simp only [legalIn, Bool.and_eq_true, beq_iff_eq, machine, Bool.or_false] at hl
      obtain ⟨⟨hc', hidle⟩, rfl⟩ := hl
      cases hm with
      | m1 h1 h2 h3 =>
        subst h3
        have hopen : (g.ph.setSink 0 .subscribed).anySinkOpen = true := (Ph.anySinkOpen_iff _).2 ⟨0, by simp⟩
        have hpn : g.pend = none := hx.pend_none_of_noDone (fun k => by by_cases hk : k = 0 <;> simp [hk, h1, hoths])
        have hse' : g.sinkErr = none := hse (by rw [h1]; decide)
        exec 1
        refine ⟨fun i hi => by simp [hi, hoth i hi], fun j hj => by simp [hj, hoths j hj], Mode.m2 (by simp) (by simp) rfl, ?_⟩
        exact hx.of_fields (by fld) (by fld) (by fld) (Or.inl hpn) (noOrphan_of_open 0 (by simp))
      | _ => simp_all
    | sinkUp j u =>
      simp only [legalIn, Bool.and_eq_true, beq_iff_eq, Bool.or_eq_true] at hl
      obtain ⟨hlive, hctx⟩ := hl
      have hj : j = 0 := by
        by_cases hj : j = 0
        · exact hj
        · rw [hoths j hj] at hlive; cases hlive
      subst hj
      have hse' : g.sinkErr = none := hse (by rw [hlive]; decide)
      cases hm with
      | m3 h1 h2 h3 h6 =>
        have hpn := hx.pend_none_of_live 0 h2
        have hne : (k.slotted && !st.slot) = false := by
          cases hks : k.slotted with
          | false => simp
          | true => simp [h3 hks]
        cases u with
        | pull =>
          exec 1
          refine ⟨hoth, hoths, Mode.m3 h1 h2 h3 (List.forall_mem_cons.2 ⟨benign_done _, h6⟩), ?_⟩
          exact xok_live hx h2 (by fld) (by fld) (by fld) (noOrphan_of_open 0 (Or.inr h1))
        | term =>
          exec 1
          refine ⟨fun i hi => by simp [hi, hoth i hi], fun j hj => by simp [hj, hoths j hj],
            Mode.m4 (by simp) (by simp) (List.forall_mem_cons.2 ⟨benign_done _, h6⟩), ?_⟩
          exact hx.of_fields (by fld) (by fld) (by fld) (Or.inl hpn)
            (noOrphan_of_noLive (noLive_of (by intro i hi; simp [hi, hoth i hi]) (by simp)))
        | err e =>
          exec 1
          refine ⟨fun i hi => by simp [hi, hoth i hi], fun j hj => by simp [hj, hoths j hj],
            Mode.m4 (by simp) (by simp) (List.forall_mem_cons.2 ⟨benign_done _, h6⟩), ?_⟩
          exact hx.of_noPend hpn (by fld) (by fld)
            (noOrphan_of_noLive (noLive_of (by intro i hi; simp [hi, hoth i hi]) (by simp)))
      | _ => simp_all
    | srcGreet i =>
      simp only [legalIn, Bool.and_eq_true, beq_iff_eq, machine, Bool.false_and, Bool.or_false] at hl
      obtain ⟨hsub, hin⟩ := hl
      by_cases hi : i = 0
      · subst hi
        cases hm with
        | m2 h1 h2 h5 =>
          subst h5
          have hpn : g.pend = none := hx.pend_none_of_noDone (fun k => by by_cases hk : k = 0 <;> simp [hk, h1, hoths])
          have hse' : g.sinkErr = none := hse (by rw [h1]; decide)
          cases hks : k.slotted with
          | false =>
            exec 2
            refine ⟨fun i hi => by simp [hi, hoth i hi], fun j hj => by simp [hj, hoths j hj],
              Mode.m3 (by simp) (by simp) (by simp [hks]) (by simp [Benign]), ?_⟩
            exact hx.of_fields (by fld) (by fld) (by fld) (Or.inl hpn) (noOrphan_of_open 0 (by simp))
          | true =>
            exec 2
            refine ⟨fun i hi => by simp [hi, hoth i hi], fun j hj => by simp [hj, hoths j hj],
              Mode.m3 (by simp) (by simp) (by simp) (by simp [Benign]), ?_⟩
            exact hx.of_fields (by fld) (by fld) (by fld) (Or.inl hpn) (noOrphan_of_open 0 (by simp))
        | _ => simp_all
      · simp [hoth i hi] at hsub
    | srcDown i d =>
      simp only [legalIn, Bool.and_eq_true, beq_iff_eq, Bool.or_eq_true] at hl
      obtain ⟨hlive, hctx⟩ := hl
      by_cases hi : i = 0
      · subst hi
        cases hm with
        | m3 h1 h2 h3 h6 =>
          have hpn := hx.pend_none_of_live 0 h2
          have hse' : g.sinkErr = none := hse (by rw [h1]; decide)
          cases d with
          | data a =>
            cases hxf : (k.xfer st.priv a).2 with
            | some b =>
              exec 2
              refine ⟨hoth, hoths, Mode.m3 h1 h2 h3 (List.forall_mem_cons.2 ⟨benign_done _, h6⟩), ?_⟩
              exact xok_live hx h2 (by fld) (by fld) (by fld) (noOrphan_of_open 0 (Or.inr h1))
            | none =>
              have hsl : st.slot = true := by
                apply h3
                cases hks : k.slotted with
                | true => rfl
                | false => exact absurd hxf (hk hks _ _)
              exec 2
              refine ⟨hoth, hoths, Mode.m3 h1 h2 (fun _ => rfl) (List.forall_mem_cons.2 ⟨benign_done _, h6⟩), ?_⟩
              exact xok_live hx h2 (by fld) (by fld) (by fld) (noOrphan_of_open 0 (Or.inr h1))
          | term =>
            exec 1
            refine ⟨fun i hi => by simp [hi, hoth i hi], fun j hj => by simp [hj, hoths j hj],
              Mode.m5 (by simp) (by simp) (List.forall_mem_cons.2 ⟨benign_done _, h6⟩), ?_⟩
            exact hx.of_noPend hpn (by fld) (by fld)
              (noOrphan_of_noLive (noLive_of (by intro i hi; simp [hi, hoth i hi]) (by simp)))
          | err e =>
            have hlv : (livesOf g.ph).isEmpty = false := by
              cases hl : livesOf g.ph with
              | nil => exact absurd hl (livesOf_ne_nil 0 h1)
              | cons _ _ => rfl
            exec 1
            refine ⟨fun i hi => by simp [hi, hoth i hi], fun j hj => by simp [hj, hoths j hj],
              Mode.m5 (by simp) (by simp) (List.forall_mem_cons.2 ⟨benign_done _, h6⟩), ?_⟩
            refine hx.of_err e stk.length (livesOf g.ph) (livesOf_ne_nil 0 h1) rfl rfl ?_
              (noLive_of (by intro i hi; simp [hi, hoth i hi]) (by simp))
            intro k' hk'
            have hk0 : k' = 0 := by
              by_cases hk0 : k' = 0
              · exact hk0
              · have := (mem_livesOf g.ph k').1 hk'; rw [hoths k' hk0] at this; cases this
            subst hk0; simp [G.finOf, phAt_setAt]
        | _ => simp_all
      · simp [hoth i hi] at hlive
  | @ret st stk g tr o l hl =>
    simp only at hp hb hoth hoths hm hx hse
    have hl_done : ∀ (_ : ∀ f ∈ Frame.wait o l :: stk, Benign f), l = .done ∧ ∀ f ∈ stk, Benign f := by
      intro h6
      have hben := h6 _ (List.mem_cons_self)
      refine ⟨?_, (List.forall_mem_cons.1 h6).2⟩
      cases l <;> simp_all [Benign]
    -- every continuation is `done`: the handler just returns
    have quiet_inv : ∀ (_ : ∀ f ∈ Frame.wait o l :: stk, Benign f) (_ : Mode k st g.ph stk),
        ∃ n, Inv k (advance (machine k) n ⟨st, .run l :: stk, g, .retE :: tr, none⟩) := by
      intro h6 hm'
      obtain ⟨rfl, _⟩ := hl_done h6
      refine ⟨1, ?_⟩
      have : advance (machine k) 1 ⟨st, .run .done :: stk, g, .retE :: tr, none⟩ = ⟨st, stk, g.onRetO stk.length, .retO :: .retE :: tr, none⟩ := by
        simp [advance, opStep, machine, step]
      rw [this]
      refine ⟨rfl, by simpa using hb, by simpa using hoth, by simpa using hoths, by simpa using hm', hx.onRetO _, ?_⟩
      intro hne
      exact onRetO_sinkErr_none hx (hse (by simpa using hne)) _
    cases hm with
    | m1 _ _ h => simp at h
    | m2 h1 h2 h5 =>
      simp at h5; obtain ⟨⟨rfl, rfl⟩, rfl⟩ := h5
      simp [legalRet, h2, machine] at hl
    | m3 h1 h2 h3 h6 => exact quiet_inv h6 (Mode.m3 h1 h2 h3 (hl_done h6).2)
    | m4 h1 h2 h6 => exact quiet_inv h6 (Mode.m4 h1 h2 (hl_done h6).2)
    | m5 h1 h2 h6 => exact quiet_inv h6 (Mode.m5 h1 h2 (hl_done h6).2)

theorem inv_init (k : Kind σ α β) : Inv k (Sys.init (machine k)) := by
  obtain ⟨h1, h2, h3, h4, h5⟩ := Relay.inv_init k
  exact ⟨h1, h2, h3, h4, h5, ⟨rfl, (by intro e h ks hp; cases hp), noOrphan_of_noLive (by intro i; simp [Sys.init])⟩, fun _ => rfl⟩

/-- The generic relay: under every conformant environment it never violates any clause of C01–C05 and never panics,
provided a kind that drops items (and therefore re-pulls through the slot) is a slotted kind. -/
theorem relay_safe {σ α β : Type} (k : Kind σ α β) (hk : k.slotted = false → ∀ s a, (k.xfer s a).2 ≠ none) :
    ∀ s, SReach (machine k) s → Safe s :=
  safe_of_macro_inv (machine k) (Inv k) (inv_init k) (inv_turn k) (inv_step k hk)

theorem map_safe {α β : Type} (f : α → β) : ∀ s, SReach (machine (map f)) s → Safe s :=
  relay_safe (map f) (fun _ _ _ => by simp [map])

theorem filter_safe {α : Type} (p : α → Bool) : ∀ s, SReach (machine (filter p)) s → Safe s :=
  relay_safe (filter p) (fun h => by simp [filter] at h)

theorem scan_safe {α β : Type} (r : β → α → β) (seed : β) : ∀ s, SReach (machine (scan r seed)) s → Safe s :=
  relay_safe (scan r seed) (fun _ _ _ => by simp [scan])

theorem skip_safe {α : Type} (n : Nat) : ∀ s, SReach (machine (skip (α := α) n)) s → Safe s :=
  relay_safe (skip n) (fun h => by simp [skip] at h)

end Cb.RelayFull

#print axioms Cb.RelayFull.relay_safe
#print axioms Cb.RelayFull.map_safe
#print axioms Cb.RelayFull.filter_safe
#print axioms Cb.RelayFull.scan_safe
#print axioms Cb.RelayFull.skip_safe
