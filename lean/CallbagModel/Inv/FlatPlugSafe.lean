import CallbagModel.Inv.PlugConcat
import CallbagModel.Ops.FlatPlug
import CallbagModel.Inv.Flatten
/-!
# Assume–guarantee for `flatPlug Mo Mi initOf`: `flatten(map(g)(outer))` as a network with dynamically created inner sources

`flatPlug_inv`: every small-step reachable configuration `s` of the network projects onto a reachable configuration `sF` of
`Flatten.machine Int`, a reachable configuration `sO` of `Mo`, and, for every inner source `j` created so far from the outer datum
`a_j`, a reachable configuration of `atInit Mi (initOf a_j)` (`= { Mi with init := initOf a_j }`) — carried as a finite family
`fam : Nat → Option (Int × Sys …)`.  All external calls are flatten's; flatten's upstream 0 is `Mo`, its upstream `j ≥ 1` is inner `j`.
-/
namespace Cb
namespace FlatPlugSafe
open ComposeSafe ComposeFun ComposeComplete PlugSafe

/-- `Mi` started in the state `x` -/
def atInit {Si Li αi β : Type} (M : Machine Si Li αi β) (x : Si) : Machine Si Li αi β := { M with init := x }

section Defs
variable {So Lo Si Li αo αi : Type}

abbrev FL := Flatten.Loc Int

/-- the component directly above -/
inductive Who where | flat | outer | inner (j : Nat)

/-- the frames of inner source `j` among the (tagged, interleaved) frames of all inner sources -/
def proj (j : Nat) (kI : List (Nat × Frame Li Int)) : List (Frame Li Int) := (kI.filter (fun p => p.1 == j)).map (·.2)

@[simp] theorem proj_nil (j : Nat) : proj j ([] : List (Nat × Frame Li Int)) = [] := rfl

theorem proj_cons_same (j : Nat) (f : Frame Li Int) (kI : List (Nat × Frame Li Int)) : proj j ((j, f) :: kI) = f :: proj j kI := by
  simp [proj]

theorem proj_cons_ne {j j' : Nat} (h : j' ≠ j) (f : Frame Li Int) (kI : List (Nat × Frame Li Int)) :
    proj j ((j', f) :: kI) = proj j kI := by
  simp [proj, h]

/-- the waiting part of the network as an interleaving of the waiting stacks of the outer source (`kO`), of all inner sources (`kI`,
tagged) and of flatten (`kF`).  External calls are flatten's; a frame of the outer / of inner `j` sits on a call of flatten into
exactly that component. -/
inductive RelF : Who → List (FFr Lo FL Li) → List (Frame (List (FFr Lo FL Li)) Int) →
    List (Frame Lo Int) → List (Nat × Frame Li Int) → List (Frame FL Int) → Prop where
  | nil : RelF .flat [] [] [] [] []
  | ext {o l cfs stk kO kI kF} : SinkSide o → RelF .flat cfs stk kO kI kF →
      RelF .flat [] (.wait o (.flat l :: cfs) :: stk) kO kI (.wait o l :: kF)
  | intO {o l cfs stk kO kI kF} : Internal1 o → RelF .outer cfs stk kO kI kF →
      RelF .flat (.outer l :: cfs) stk (.wait o l :: kO) kI kF
  | intI {j o l cfs stk kO kI kF} : Internal1 o → RelF (.inner j) cfs stk kO kI kF →
      RelF .flat (.inner j l :: cfs) stk kO ((j, .wait o l) :: kI) kF
  | subO {l cfs stk kI kF} : RelF .flat cfs stk [] kI kF →
      RelF .outer (.flat l :: cfs) stk [] kI (.wait (.subSrc 0) l :: kF)
  | upO {u l cfs stk kO kI kF} : RelF .flat cfs stk kO kI kF →
      RelF .outer (.flat l :: cfs) stk kO kI (.wait (.srcUp 0 u) l :: kF)
  | subI {j l cfs stk kO kI kF} : proj (j + 1) kI = [] → RelF .flat cfs stk kO kI kF →
      RelF (.inner (j + 1)) (.flat l :: cfs) stk kO kI (.wait (.subSrc (j + 1)) l :: kF)
  | upI {j u l cfs stk kO kI kF} : RelF .flat cfs stk kO kI kF →
      RelF (.inner (j + 1)) (.flat l :: cfs) stk kO kI (.wait (.srcUp (j + 1) u) l :: kF)

/-- the shapes of the network's stack; `topI` = the running frame of an inner source, if that is what runs -/
inductive SMF : List (Frame (List (FFr Lo FL Li)) Int) → List (Frame Lo Int) → Option (Nat × Li) →
    List (Nat × Frame Li Int) → List (Frame FL Int) → Prop where
  | turn {stk kO kI kF} : RelF .flat [] stk kO kI kF → SMF stk kO none kI kF
  | runO {l cfs stk kO kI kF} : RelF .outer cfs stk kO kI kF → SMF (.run (.outer l :: cfs) :: stk) (.run l :: kO) none kI kF
  | runI {j l cfs stk kO kI kF} : RelF (.inner j) cfs stk kO kI kF → SMF (.run (.inner j l :: cfs) :: stk) kO (some (j, l)) kI kF
  | runF {l cfs stk kO kI kF} : RelF .flat cfs stk kO kI kF → SMF (.run (.flat l :: cfs) :: stk) kO none kI (.run l :: kF)

/-- the stack of inner source `j` -/
def istack (topI : Option (Nat × Li)) (kI : List (Nat × Frame Li Int)) (j : Nat) : List (Frame Li Int) :=
  match topI with
  | some (j', l) => if j' = j then .run l :: proj j kI else proj j kI
  | none => proj j kI

theorem RelF.turnsF {w cfs} {stk : List (Frame (List (FFr Lo FL Li)) Int)} {kO : List (Frame Lo Int)}
    {kI : List (Nat × Frame Li Int)} {kF : List (Frame FL Int)} (h : RelF w cfs stk kO kI kF) :
    (ctxOf kO).isSome = true ∧ (ctxOf kF).isSome = true ∧ ∀ p ∈ kI, ∃ o l, p.2 = Frame.wait o l ∧ Internal1 o := by
  induction h with
  | nil => exact ⟨by simp [ctxOf], by simp [ctxOf], fun p hp => by cases hp⟩
  | ext _ _ ih => exact ⟨ih.1, by simp [ctxOf], ih.2.2⟩
  | intO _ _ ih => exact ⟨by simp [ctxOf], ih.2.1, ih.2.2⟩
  | intI ho _ ih =>
    refine ⟨ih.1, ih.2.1, ?_⟩
    intro p hp
    rcases List.mem_cons.1 hp with rfl | hp
    · exact ⟨_, _, rfl, ho⟩
    · exact ih.2.2 p hp
  | subO _ ih => exact ⟨by simp [ctxOf], by simp [ctxOf], ih.2.2⟩
  | upO _ ih => exact ⟨ih.1, by simp [ctxOf], ih.2.2⟩
  | subI _ _ ih => exact ⟨ih.1, by simp [ctxOf], ih.2.2⟩
  | upI _ ih => exact ⟨ih.1, by simp [ctxOf], ih.2.2⟩

/-- while flatten runs (or waits on its sink), the outer source is at top level or waiting on a call into flatten -/
theorem RelF.flat_kO {w cfs} {stk : List (Frame (List (FFr Lo FL Li)) Int)} {kO : List (Frame Lo Int)}
    {kI : List (Nat × Frame Li Int)} {kF : List (Frame FL Int)} (h : RelF w cfs stk kO kI kF) :
    kO = [] ∨ ∃ o l r, kO = .wait o l :: r ∧ Internal1 o := by
  induction h with
  | nil => exact .inl rfl
  | ext _ _ ih => exact ih
  | intO ho _ ih => exact .inr ⟨_, _, _, rfl, ho⟩
  | intI _ _ ih => exact ih
  | subO _ ih => exact .inl rfl
  | upO _ ih => exact ih
  | subI _ _ ih => exact ih
  | upI _ ih => exact ih

/-- at an environment turn of the network, flatten's context is the network's -/
theorem RelF.ctx {stk : List (Frame (List (FFr Lo FL Li)) Int)} {kO : List (Frame Lo Int)}
    {kI : List (Nat × Frame Li Int)} {kF : List (Frame FL Int)} (h : RelF .flat [] stk kO kI kF) : ctxOf kF = ctxOf stk := by
  cases h <;> rfl

/-- the family of inner sources created so far: number ↦ (the outer datum it was created from, its configuration) -/
abbrev Fam (Si Li αi : Type) := Nat → Option (Int × Sys Si Li αi Int)

def Fam.upd {Si Li αi : Type} (fam : Fam Si Li αi) (j : Nat) (x : Int × Sys Si Li αi Int) : Fam Si Li αi :=
  fun j' => if j' = j then some x else fam j'

@[simp] theorem Fam.upd_same {Si Li αi : Type} (fam : Fam Si Li αi) (j : Nat) (x : Int × Sys Si Li αi Int) :
    fam.upd j x j = some x := by simp [Fam.upd]

theorem Fam.upd_ne {Si Li αi : Type} (fam : Fam Si Li αi) {j j' : Nat} (h : j' ≠ j) (x : Int × Sys Si Li αi Int) :
    fam.upd j x j' = fam j' := by simp [Fam.upd, h]

def isOd : FL → Prop
  | .od0 => True
  | .od1 => True
  | _ => False

def locOf {L β : Type} : Frame L β → L
  | .run l => l
  | .wait _ l => l

abbrev NSys (So Lo Si Li : Type) := Sys (FPSt So Si) (List (FFr Lo FL Li)) Int Int
abbrev FSys := Sys Flatten.St FL Int Int

/-- the network and flatten -/
structure Core (s : NSys So Lo Si Li) (sF : FSys) : Prop where
  stF : s.st.flat = sF.st
  p : s.panicked = none
  pF : sF.panicked = none
  v : s.g.ph.viols = []
  sink : ∀ k, s.g.ph.sinkPh k = sF.g.ph.sinkPh k
  src : ∀ i, s.g.ph.srcPh i = .idle
  pend : s.st.pending = none → ∀ f ∈ sF.stack, ¬ isOd (locOf f)

/-- the outer source and flatten's upstream 0 -/
structure OuterRel (s : NSys So Lo Si Li) (sO : Sys So Lo αo Int) (sF : FSys) : Prop where
  stO : s.st.outer = sO.st
  pO : sO.panicked = none
  ifcO : sF.g.ph.srcPh 0 = toSrc (sO.g.ph.sinkPh 0)
  sinkO : ∀ k, sO.g.ph.sinkPh (k + 1) = .idle

/-- the inner sources and flatten's upstreams `j ≥ 1` -/
structure InnerRel (Mi : Machine Si Li αi Int) (initOf : Int → Si) (s : NSys So Lo Si Li) (sF : FSys) (fam : Fam Si Li αi) : Prop where
  stI : ∀ j, s.st.innerSt j = (fam j).map (fun p => p.2.st)
  pI : ∀ j a sI, fam j = some (a, sI) → sI.panicked = none
  rI : ∀ j a sI, fam j = some (a, sI) → SReach (atInit Mi (initOf a)) sI
  ifcI : ∀ j, sF.g.ph.srcPh (j + 1) = match fam (j + 1) with
    | some (_, sI) => toSrc (sI.g.ph.sinkPh 0)
    | none => .idle
  sinkI : ∀ j a sI, fam j = some (a, sI) → ∀ k, sI.g.ph.sinkPh (k + 1) = .idle
  fam0 : fam 0 = none
  alive : ∀ j a sI, fam j = some (a, sI) → sI.g.ph.sinkPh 0 ≠ .idle

/-- the stacks -/
structure StackRel (s : NSys So Lo Si Li) (sO : Sys So Lo αo Int) (sF : FSys) (fam : Fam Si Li αi)
    (topI : Option (Nat × Li)) (kI : List (Nat × Frame Li Int)) : Prop where
  sm : SMF s.stack sO.stack topI kI sF.stack
  stkI : ∀ j a sI, fam j = some (a, sI) → sI.stack = istack topI kI j
  ex : ∀ p ∈ kI, (fam p.1).isSome
  exTop : ∀ j l, topI = some (j, l) → (fam j).isSome

/-- a network configuration and its projections -/
structure MatchF (Mi : Machine Si Li αi Int) (initOf : Int → Si)
    (s : NSys So Lo Si Li) (sO : Sys So Lo αo Int) (sF : FSys) (fam : Fam Si Li αi) : Prop where
  core : Core s sF
  outer : OuterRel s sO sF
  inner : InnerRel Mi initOf s sF fam
  stk : ∃ topI kI, StackRel s sO sF fam topI kI

theorem InnerRel.congr {Mi : Machine Si Li αi Int} {initOf : Int → Si} {s s' : NSys So Lo Si Li} {sF sF' : FSys}
    {fam : Fam Si Li αi} (h : InnerRel Mi initOf s sF fam) (hst : ∀ j, s'.st.innerSt j = s.st.innerSt j)
    (hph : ∀ j, sF'.g.ph.srcPh (j + 1) = sF.g.ph.srcPh (j + 1)) : InnerRel Mi initOf s' sF' fam :=
  ⟨fun j => by rw [hst]; exact h.stI j, h.pI, h.rI, fun j => by rw [hph]; exact h.ifcI j, h.sinkI, h.fam0, h.alive⟩

theorem OuterRel.congr {s s' : NSys So Lo Si Li} {sO : Sys So Lo αo Int} {sF sF' : FSys} (h : OuterRel s sO sF)
    (hst : s'.st.outer = s.st.outer) (hph : sF'.g.ph.srcPh 0 = sF.g.ph.srcPh 0) : OuterRel s' sO sF' :=
  ⟨by rw [hst]; exact h.stO, h.pO, by rw [hph]; exact h.ifcO, h.sinkO⟩

/-- the hypotheses: the outer source and every inner source are closed, head-capable sources -/
structure HypF (Mo : Machine So Lo αo Int) (Mi : Machine Si Li αi Int) (initOf : Int → Si) : Prop where
  upO : UpSide Mo
  noUpO : ComposeFull.NoUpstream Mo
  upI : ∀ a, UpSide (atInit Mi (initOf a))
  noUpI : ∀ a, ComposeFull.NoUpstream (atInit Mi (initOf a))

end Defs


/-! ### helpers: the inner-state table, the family, flatten's program text -/
section Helpers
variable {So Lo Si Li αo αi : Type}

theorem find_filter_ne {X : Type} (l : List (Nat × X)) {j j' : Nat} (h : j' ≠ j) :
    (l.filter (fun p => p.1 != j)).find? (fun p => p.1 == j') = l.find? (fun p => p.1 == j') := by
  induction l with
  | nil => rfl
  | cons x t ih =>
    simp only [List.filter_cons, List.find?_cons]
    by_cases hx : x.1 = j
    · have b1 : (x.1 != j) = false := by simp [hx]
      have b2 : (x.1 == j') = false := by simp [hx, Ne.symm h]
      simp only [b1, b2]; exact ih
    · have b1 : (x.1 != j) = true := by simp [hx]
      simp only [b1, ↓reduceIte, List.find?_cons]
      by_cases hx' : x.1 = j'
      · simp [hx']
      · have b2 : (x.1 == j') = false := by simp [hx']
        simp only [b2]; exact ih

theorem innerSt_setInner_same (st : FPSt So Si) (j : Nat) (x : Si) : (st.setInner j x).innerSt j = some x := by
  simp [FPSt.innerSt, FPSt.setInner]

theorem innerSt_setInner_ne (st : FPSt So Si) {j j' : Nat} (h : j' ≠ j) (x : Si) :
    (st.setInner j x).innerSt j' = st.innerSt j' := by
  simp only [FPSt.innerSt, FPSt.setInner]
  rw [List.find?_cons_of_neg (by simpa using Ne.symm h), find_filter_ne _ h]

theorem proj_eq_nil {fam : Fam Si Li αi} {kI : List (Nat × Frame Li Int)} (hex : ∀ p ∈ kI, (fam p.1).isSome) {j : Nat}
    (hj : fam j = none) : proj j kI = [] := by
  simp only [proj, List.map_eq_nil_iff, List.filter_eq_nil_iff]
  intro p hp hpj
  have := hex p hp
  simp only [beq_iff_eq] at hpj
  rw [hpj, hj] at this; cases this

theorem isSome_upd {fam : Fam Si Li αi} {j j' : Nat} {x : Int × Sys Si Li αi Int} (h : (fam j').isSome) :
    (fam.upd j x j').isSome := by
  by_cases hj : j' = j
  · subst hj; simp
  · rw [Fam.upd_ne _ hj]; exact h

/-- replacing (or creating) member `j ≥ 1` of the family -/
theorem InnerRel.upd {Mi : Machine Si Li αi Int} {initOf : Int → Si} {s s' : NSys So Lo Si Li} {sF sF' : FSys}
    {fam : Fam Si Li αi} (h : InnerRel Mi initOf s sF fam) (j0 : Nat) (a : Int) (sI' : Sys Si Li αi Int)
    (hst : s'.st.innerSt (j0 + 1) = some sI'.st) (hst' : ∀ j', j' ≠ j0 + 1 → s'.st.innerSt j' = s.st.innerSt j')
    (hp : sI'.panicked = none) (hr : SReach (atInit Mi (initOf a)) sI')
    (hifc : sF'.g.ph.srcPh (j0 + 1) = toSrc (sI'.g.ph.sinkPh 0))
    (hoth : ∀ i, i ≠ j0 → sF'.g.ph.srcPh (i + 1) = sF.g.ph.srcPh (i + 1))
    (hsink : ∀ k, sI'.g.ph.sinkPh (k + 1) = .idle) (halive : sI'.g.ph.sinkPh 0 ≠ .idle) :
    InnerRel Mi initOf s' sF' (fam.upd (j0 + 1) (a, sI')) := by
  refine ⟨?_, ?_, ?_, ?_, ?_, ?_, ?_⟩
  · intro j'
    by_cases hj : j' = j0 + 1
    · subst hj; simp [hst]
    · rw [hst' j' hj, Fam.upd_ne _ hj]; exact h.stI j'
  · intro j' a' sI hf
    by_cases hj : j' = j0 + 1
    · subst hj; simp at hf; obtain ⟨rfl, rfl⟩ := hf; exact hp
    · rw [Fam.upd_ne _ hj] at hf; exact h.pI j' a' sI hf
  · intro j' a' sI hf
    by_cases hj : j' = j0 + 1
    · subst hj; simp at hf; obtain ⟨rfl, rfl⟩ := hf; exact hr
    · rw [Fam.upd_ne _ hj] at hf; exact h.rI j' a' sI hf
  · intro i
    by_cases hi : i = j0
    · subst hi; simp [hifc]
    · rw [hoth i hi, Fam.upd_ne _ (by omega)]; exact h.ifcI i
  · intro j' a' sI hf
    by_cases hj : j' = j0 + 1
    · subst hj; simp at hf; obtain ⟨rfl, rfl⟩ := hf; exact hsink
    · rw [Fam.upd_ne _ hj] at hf; exact h.sinkI j' a' sI hf
  · rw [Fam.upd_ne _ (by omega)]; exact h.fam0
  · intro j' a' sI hf
    by_cases hj : j' = j0 + 1
    · subst hj; simp at hf; obtain ⟨rfl, rfl⟩ := hf; exact halive
    · rw [Fam.upd_ne _ hj] at hf; exact h.alive j' a' sI hf

/-- the stacks of the family after member `j` has been replaced and `topI`, `kI` have changed only as far as `j` is concerned -/
theorem stkI_upd {fam : Fam Si Li αi} {topI topI' : Option (Nat × Li)} {kI kI' : List (Nat × Frame Li Int)}
    (h : ∀ j a sI, fam j = some (a, sI) → sI.stack = istack topI kI j) (j : Nat) (a : Int) (sI' : Sys Si Li αi Int)
    (hj : sI'.stack = istack topI' kI' j) (hoth : ∀ j', j' ≠ j → istack topI' kI' j' = istack topI kI j') :
    ∀ j' a' sI, fam.upd j (a, sI') j' = some (a', sI) → sI.stack = istack topI' kI' j' := by
  intro j' a' sI hf
  by_cases hjj : j' = j
  · subst hjj; simp at hf; obtain ⟨rfl, rfl⟩ := hf; exact hj
  · rw [Fam.upd_ne _ hjj] at hf; rw [hoth j' hjj]; exact h j' a' sI hf

theorem flat_tau_od {st s : Flatten.St} {l l' : FL} (h : (Flatten.machine Int).step st l = .tau s l') (hod : isOd l') : isOd l := by
  cases l
  all_goals (try (simp [isOd]; done))
  all_goals (simp only [Flatten.machine, Flatten.step] at h)
  all_goals (try split at h)
  all_goals (first | (cases h; done) | skip)
  all_goals (simp only [Act.tau.injEq] at h; obtain ⟨_, rfl⟩ := h; simp [isOd] at hod)

theorem flat_call_od {st s : Flatten.St} {l l' : FL} {o : Out Int} (h : (Flatten.machine Int).step st l = .call o s l')
    (hod : isOd l') : isOd l := by
  cases l
  all_goals (try (simp [isOd]; done))
  all_goals (simp only [Flatten.machine, Flatten.step] at h)
  all_goals (try split at h)
  all_goals (first | (cases h; done) | skip)
  all_goals (simp only [Act.call.injEq] at h; obtain ⟨_, _, rfl⟩ := h; simp [isOd] at hod)

theorem flat_subI_od {st s : Flatten.St} {l l' : FL} {j : Nat} (h : (Flatten.machine Int).step st l = .call (.subSrc (j + 1)) s l') :
    isOd l := by
  cases l
  all_goals (try (simp [isOd]; done))
  all_goals (simp only [Flatten.machine, Flatten.step] at h)
  all_goals (try split at h)
  all_goals (first | (cases h; done) | skip)
  all_goals (simp only [Act.call.injEq] at h; obtain ⟨h1, _, _⟩ := h; cases h1)

end Helpers

/-! ## every step of the network is matched -/
section Steps
variable {So Lo Si Li αo αi : Type} {Mo : Machine So Lo αo Int} {Mi : Machine Si Li αi Int} {initOf : Int → Si}

theorem flatten_lg : (Flatten.machine Int).shape.lateGreet = false := rfl

theorem innerSt_outer (st : FPSt So Si) (x : So) (j : Nat) : ({ st with outer := x } : FPSt So Si).innerSt j = st.innerSt j := rfl
theorem innerSt_flat (st : FPSt So Si) (x : Flatten.St) (j : Nat) : ({ st with flat := x } : FPSt So Si).innerSt j = st.innerSt j := rfl

theorem pend_cons {pd : Option Int} {f : Frame FL Int} {kF : List (Frame FL Int)} (hf : pd = none → ¬ isOd (locOf f))
    (h : pd = none → ∀ f ∈ kF, ¬ isOd (locOf f)) : pd = none → ∀ f' ∈ f :: kF, ¬ isOd (locOf f') := by
  intro hp f' hf'
  rcases List.mem_cons.1 hf' with rfl | hf'
  · exact hf hp
  · exact h hp f' hf'

theorem pend_tail {pd : Option Int} {f : Frame FL Int} {kF : List (Frame FL Int)}
    (h : pd = none → ∀ f' ∈ f :: kF, ¬ isOd (locOf f')) : pd = none → ∀ f' ∈ kF, ¬ isOd (locOf f') :=
  fun hp f' hf' => h hp f' (List.mem_cons_of_mem _ hf')

theorem step_outer (H : HypF Mo Mi initOf) {st : FPSt So Si} {l : Lo} {rest : List (FFr Lo FL Li)}
    {stk : List (Frame (List (FFr Lo FL Li)) Int)} {g : G} {tr : List (Ev Int Int)}
    {stO : So} {kO : List (Frame Lo Int)} {gO : G} {trO : List (Ev αo Int)}
    {stF : Flatten.St} {kF : List (Frame FL Int)} {gF : G} {trF : List (Ev Int Int)}
    {fam : Fam Si Li αi} {kI : List (Nat × Frame Li Int)} {b : NSys So Lo Si Li}
    (hrO : SReach Mo ⟨stO, .run l :: kO, gO, trO, none⟩) (hrF : SReach (Flatten.machine Int) ⟨stF, kF, gF, trF, none⟩)
    (hrel : RelF .outer rest stk kO kI kF)
    (hc : Core (⟨st, .run (.outer l :: rest) :: stk, g, tr, none⟩ : NSys So Lo Si Li) ⟨stF, kF, gF, trF, none⟩)
    (ho : OuterRel (⟨st, .run (.outer l :: rest) :: stk, g, tr, none⟩ : NSys So Lo Si Li) ⟨stO, .run l :: kO, gO, trO, none⟩ ⟨stF, kF, gF, trF, none⟩)
    (hi : InnerRel Mi initOf (⟨st, .run (.outer l :: rest) :: stk, g, tr, none⟩ : NSys So Lo Si Li) ⟨stF, kF, gF, trF, none⟩ fam)
    (hsI : ∀ j a sI, fam j = some (a, sI) → sI.stack = istack none kI j) (hex : ∀ p ∈ kI, (fam p.1).isSome)
    (hop : opStep (flatPlug Mo Mi initOf) ⟨st, .run (.outer l :: rest) :: stk, g, tr, none⟩ = some b) :
    ∃ sO' sF' fam', SReach Mo sO' ∧ SReach (Flatten.machine Int) sF' ∧ MatchF Mi initOf b sO' sF' fam' := by
  have hstO : st.outer = stO := ho.stO
  cases hst : Mo.step stO l with
  | tau s1' l' =>
    simp [opStep, flatPlug, hstO, hst] at hop
    subst hop
    exact ⟨_, _, fam, reach_op hrO (.tau hst), hrF,
      ⟨⟨hc.stF, rfl, rfl, hc.v, hc.sink, hc.src, hc.pend⟩, ⟨rfl, rfl, ho.ifcO, ho.sinkO⟩, hi.congr (fun j => rfl) (fun j => rfl),
        none, kI, ⟨.runO hrel, hsI, hex, fun j l h => by cases h⟩⟩⟩
  | panic m =>
    have := (H.upO.safe _ (reach_op hrO (.panic hst))).2
    cases this
  | ret =>
    have hrO' := reach_op hrO (.ret hst)
    cases hrel with
    | @subO l2 rest' _ _ kF' h =>
      simp [opStep, flatPlug, hstO, hst] at hop
      subst hop
      have h1 : gO.ph.sinkPh 0 ≠ .subscribed := by simpa using H.upO.sync _ hrO' rfl
      have h2 : gF.ph.srcPh 0 ≠ .subscribed := by
        have := ho.ifcO; simp only at this; rw [this]; exact fun h => h1 (toSrc_subscribed.1 h)
      have he := EnvStep.ret (M := Flatten.machine Int) (st := stF) (stk := kF') (g := gF) (tr := trF) (o := .subSrc 0) (l := l2)
        (by simp [legalRet, h2])
      refine ⟨_, _, fam, hrO', reach_env hrF he, ⟨⟨hc.stF, rfl, rfl, hc.v, hc.sink, hc.src, ?_⟩,
        ⟨hstO, rfl, by simpa using ho.ifcO, by simpa using ho.sinkO⟩, hi.congr (fun j => rfl) (fun j => rfl),
        none, kI, ⟨.runF h, hsI, hex, fun j l h => by cases h⟩⟩⟩
      intro hp f hf
      rcases List.mem_cons.1 hf with rfl | hf
      · simpa [locOf] using hc.pend hp (Frame.wait (.subSrc 0) l2) List.mem_cons_self
      · exact hc.pend hp f (List.mem_cons_of_mem _ hf)
    | @upO u l2 rest' _ _ _ kF' h =>
      simp [opStep, flatPlug, hstO, hst] at hop
      subst hop
      have he := EnvStep.ret (M := Flatten.machine Int) (st := stF) (stk := kF') (g := gF) (tr := trF) (o := .srcUp 0 u) (l := l2)
        (by simp [legalRet])
      refine ⟨_, _, fam, hrO', reach_env hrF he, ⟨⟨hc.stF, rfl, rfl, hc.v, hc.sink, hc.src, ?_⟩,
        ⟨hstO, rfl, by simpa using ho.ifcO, by simpa using ho.sinkO⟩, hi.congr (fun j => rfl) (fun j => rfl),
        none, kI, ⟨.runF h, hsI, hex, fun j l h => by cases h⟩⟩⟩
      intro hp f hf
      rcases List.mem_cons.1 hf with rfl | hf
      · simpa [locOf] using hc.pend hp (Frame.wait (.srcUp 0 u) l2) List.mem_cons_self
      · exact hc.pend hp f (List.mem_cons_of_mem _ hf)
  | call o s1' l' =>
    have hrO' := reach_op hrO (.call hst)
    have hv := (H.upO.safe _ hrO').1
    simp only [onOut_ph] at hv
    have hifc : gF.ph.srcPh 0 = toSrc (gO.ph.sinkPh 0) := ho.ifcO
    have hsinkO : ∀ k, gO.ph.sinkPh (k + 1) = .idle := ho.sinkO
    cases o with
    | greet k =>
      obtain ⟨hsub, heq⟩ := onOut_greet_ok _ _ hv
      cases k with
      | succ k => rw [hsinkO k] at hsub; cases hsub
      | zero =>
        simp [opStep, flatPlug, hstO, hst] at hop
        subst hop
        have hsub2 : gF.ph.srcPh 0 = .subscribed := by rw [hifc, hsub]; rfl
        obtain ⟨l2, r, hk2⟩ := subscribed_top (Flatten.machine Int) flatten_lg hrF 0 hsub2
        simp only at hk2
        subst hk2
        have he := EnvStep.call (M := Flatten.machine Int) (st := stF) (stk := .wait (.subSrc 0) l2 :: r) (g := gF) (tr := trF)
          (.srcGreet 0) rfl (by simp [legalIn, hsub2, inSub])
        refine ⟨_, _, fam, hrO', reach_env hrF he, ⟨⟨hc.stF, rfl, rfl, hc.v, by simpa [Ph.onIn] using hc.sink, hc.src, ?_⟩,
          ⟨rfl, rfl, ?_, ?_⟩, hi.congr (fun j => rfl) (fun j => by simp [Ph.onIn]),
          none, kI, ⟨.runF (.intO (by simp [Internal1]) hrel), hsI, hex, fun j l h => by cases h⟩⟩⟩
        · exact pend_cons (fun _ => by simp [Flatten.machine, Flatten.enter, locOf, isOd]) hc.pend
        · simp only [onOut_ph, onIn_ph, heq]; simp [Ph.onIn, toSrc]
        · intro k; simp only [onOut_ph, heq]; simp [hsinkO k]
    | down k d =>
      obtain ⟨hlive, heq⟩ := onOut_down_ok _ _ _ hv
      cases k with
      | succ k => rw [hsinkO k] at hlive; cases hlive
      | zero =>
        simp [opStep, flatPlug, hstO, hst] at hop
        subst hop
        have hlive2 : gF.ph.srcPh 0 = .live := by rw [hifc, hlive]; rfl
        have hctx : ∃ c, ctxOf kF = some c ∧ legalIn (Flatten.machine Int).shape gF.ph c (.srcDown 0 d) = true := by
          cases hrel with
          | @subO l2 rest' _ _ kF' h => exact ⟨_, rfl, by simp [legalIn, hlive2, inSub]⟩
          | @upO u l2 rest' _ _ _ kF' h =>
            cases u with
            | pull => exact ⟨_, rfl, by simp [legalIn, hlive2, inPull]⟩
            | term =>
              have := wait_srcUp_disposed _ hrF (Flatten.flatten_basicSafe _ hrF).1 0 .term l2 (by simp) (by simp)
              simp only at this; rw [hlive2] at this; cases this
            | err e =>
              have := wait_srcUp_disposed _ hrF (Flatten.flatten_basicSafe _ hrF).1 0 (.err e) l2 (by simp) (by simp)
              simp only at this; rw [hlive2] at this; cases this
        obtain ⟨c, hcc, hl⟩ := hctx
        have he := EnvStep.call (M := Flatten.machine Int) (st := stF) (stk := kF) (g := gF) (tr := trF) (.srcDown 0 d) hcc hl
        have hph : ∀ j, (gF.ph.onIn (.srcDown 0 d : In Int)).srcPh (j + 1) = gF.ph.srcPh (j + 1) := by
          intro j; cases d <;> simp [Ph.onIn]
        refine ⟨_, _, fam, hrO', reach_env hrF he,
          ⟨⟨hc.stF, rfl, rfl, hc.v, by cases d <;> simpa [Ph.onIn] using hc.sink, hc.src, ?_⟩,
          ⟨rfl, rfl, ?_, ?_⟩, hi.congr (fun j => rfl) (fun j => by simpa using hph j),
          none, kI, ⟨.runF (.intO (by simp [Internal1]) hrel), hsI, hex, fun j l h => by cases h⟩⟩⟩
        · cases d with
          | data x => intro hp; simp at hp
          | term => exact pend_cons (fun _ => by simp [Flatten.machine, Flatten.enter, locOf, isOd]) hc.pend
          | err e => exact pend_cons (fun _ => by simp [Flatten.machine, Flatten.enter, locOf, isOd]) hc.pend
        · simp only [onOut_ph, onIn_ph, heq]
          cases d <;> simp [Ph.onIn, toSrc, isFinal, hifc, hlive]
        · intro k
          simp only [onOut_ph, heq]
          cases d <;> simp [isFinal, hsinkO k]
    | subSrc i =>
      obtain ⟨_, _, heq⟩ := onOut_subSrc_ok _ _ hv
      have := H.noUpO _ hrO' i
      simp [heq] at this
    | srcUp i u =>
      obtain ⟨hl, _⟩ := onOut_srcUp_ok _ _ _ hv
      have := H.noUpO _ hrO i
      simp only at this
      rw [this] at hl; cases hl
    | app b' => exact absurd hst (H.upO.noApp _ _ _ _ _)


theorem istack_none (kI : List (Nat × Frame Li Int)) (j : Nat) : istack none kI j = proj j kI := rfl

theorem istack_some_same (j : Nat) (l : Li) (kI : List (Nat × Frame Li Int)) : istack (some (j, l)) kI j = .run l :: proj j kI := by
  simp [istack]

theorem istack_some_ne {j j' : Nat} (h : j' ≠ j) (l : Li) (kI : List (Nat × Frame Li Int)) :
    istack (some (j, l)) kI j' = proj j' kI := by
  simp [istack, Ne.symm h]

theorem step_inner (H : HypF Mo Mi initOf) {st : FPSt So Si} {j : Nat} {l : Li} {rest : List (FFr Lo FL Li)}
    {stk : List (Frame (List (FFr Lo FL Li)) Int)} {g : G} {tr : List (Ev Int Int)}
    {stO : So} {kO : List (Frame Lo Int)} {gO : G} {trO : List (Ev αo Int)}
    {stF : Flatten.St} {kF : List (Frame FL Int)} {gF : G} {trF : List (Ev Int Int)}
    {fam : Fam Si Li αi} {kI : List (Nat × Frame Li Int)} {b : NSys So Lo Si Li}
    {a : Int} {stI : Si} {gI : G} {trI : List (Ev αi Int)}
    (hrO : SReach Mo ⟨stO, kO, gO, trO, none⟩) (hrF : SReach (Flatten.machine Int) ⟨stF, kF, gF, trF, none⟩)
    (hrel : RelF (.inner j) rest stk kO kI kF)
    (hc : Core (⟨st, .run (.inner j l :: rest) :: stk, g, tr, none⟩ : NSys So Lo Si Li) ⟨stF, kF, gF, trF, none⟩)
    (ho : OuterRel (⟨st, .run (.inner j l :: rest) :: stk, g, tr, none⟩ : NSys So Lo Si Li) ⟨stO, kO, gO, trO, none⟩ ⟨stF, kF, gF, trF, none⟩)
    (hi : InnerRel Mi initOf (⟨st, .run (.inner j l :: rest) :: stk, g, tr, none⟩ : NSys So Lo Si Li) ⟨stF, kF, gF, trF, none⟩ fam)
    (hfj : fam j = some (a, ⟨stI, .run l :: proj j kI, gI, trI, none⟩))
    (hsI : ∀ j' a' sI, fam j' = some (a', sI) → sI.stack = istack (some (j, l)) kI j') (hex : ∀ p ∈ kI, (fam p.1).isSome)
    (hop : opStep (flatPlug Mo Mi initOf) ⟨st, .run (.inner j l :: rest) :: stk, g, tr, none⟩ = some b) :
    ∃ sO' sF' fam', SReach Mo sO' ∧ SReach (Flatten.machine Int) sF' ∧ MatchF Mi initOf b sO' sF' fam' := by
  have hrI : SReach (atInit Mi (initOf a)) ⟨stI, .run l :: proj j kI, gI, trI, none⟩ := hi.rI j a _ hfj
  have hUI := H.upI a
  have hinner : st.innerSt j = some stI := by have := hi.stI j; simp only at this; rw [this, hfj]; rfl
  -- `j` is `j0 + 1`
  obtain ⟨j0, rfl⟩ : ∃ j0, j = j0 + 1 := by
    cases j with
    | zero => rw [hi.fam0] at hfj; cases hfj
    | succ j0 => exact ⟨j0, rfl⟩
  have hifc : gF.ph.srcPh (j0 + 1) = toSrc (gI.ph.sinkPh 0) := by have := hi.ifcI j0; simp only at this; rw [this, hfj]
  have hsinkI : ∀ k, gI.ph.sinkPh (k + 1) = .idle := hi.sinkI _ a _ hfj
  have halive : gI.ph.sinkPh 0 ≠ .idle := hi.alive _ a _ hfj
  have hoth_stk : ∀ (topI' : Option (Nat × Li)) (kI' : List (Nat × Frame Li Int)),
      (∀ j', j' ≠ j0 + 1 → istack topI' kI' j' = proj j' kI) →
      ∀ j', j' ≠ j0 + 1 → istack topI' kI' j' = istack (some (j0 + 1, l)) kI j' := by
    intro topI' kI' h j' hj'
    rw [h j' hj', istack_some_ne hj']
  cases hst : (atInit Mi (initOf a)).step stI l with
  | tau s1' l' =>
    have hst' : Mi.step stI l = .tau s1' l' := hst
    simp [opStep, flatPlug, hinner, hst'] at hop
    subst hop
    refine ⟨_, _, fam.upd (j0 + 1) (a, ⟨s1', .run l' :: proj (j0 + 1) kI, gI, trI, none⟩), hrO, hrF,
      ⟨⟨hc.stF, rfl, rfl, hc.v, hc.sink, hc.src, hc.pend⟩, ⟨ho.stO, rfl, ho.ifcO, ho.sinkO⟩, ?_,
        some (j0 + 1, l'), kI, ⟨.runI hrel, ?_, fun p hp => isSome_upd (hex p hp), fun j' l0 h => by cases h; simp⟩⟩⟩
    · exact hi.upd j0 a _ (innerSt_setInner_same _ _ _) (fun j' hj' => innerSt_setInner_ne _ hj' _) rfl
        (reach_op hrI (.tau hst)) hifc (fun i _ => rfl) hsinkI halive
    · exact stkI_upd hsI _ a _ (istack_some_same _ _ _).symm
        (hoth_stk _ _ (fun j' hj' => istack_some_ne hj' _ _))
  | panic m =>
    have := (hUI.safe _ (reach_op hrI (.panic hst))).2
    cases this
  | ret =>
    have hst' : Mi.step stI l = .ret := hst
    have hrI' := reach_op hrI (.ret hst)
    have hfam' := fam.upd (j0 + 1) (a, (⟨stI, proj (j0 + 1) kI, gI.onRetO (proj (j0 + 1) kI).length, .retO :: trI, none⟩ : Sys Si Li αi Int))
    have hinn : InnerRel Mi initOf (⟨st, .run rest :: stk, g, tr, none⟩ : NSys So Lo Si Li) ⟨stF, kF, gF, trF, none⟩
        (fam.upd (j0 + 1) (a, ⟨stI, proj (j0 + 1) kI, gI.onRetO (proj (j0 + 1) kI).length, .retO :: trI, none⟩)) :=
      hi.upd j0 a _ hinner (fun j' _ => rfl) rfl hrI' (by simpa using hifc) (fun i _ => rfl) (by simpa using hsinkI)
        (by simpa using halive)
    have hstk' : ∀ j' a' sI, fam.upd (j0 + 1) (a, (⟨stI, proj (j0 + 1) kI, gI.onRetO (proj (j0 + 1) kI).length, .retO :: trI, none⟩ : Sys Si Li αi Int)) j' = some (a', sI) →
        sI.stack = istack none kI j' :=
      stkI_upd hsI _ a _ rfl (hoth_stk _ _ (fun j' _ => rfl))
    cases hrel with
    | @subI _ l2 rest' _ _ _ kF' hproj h =>
      simp [opStep, flatPlug, hinner, hst'] at hop
      subst hop
      have h1 : gI.ph.sinkPh 0 ≠ .subscribed := by
        have := hUI.sync _ hrI' (by simpa using hproj); simpa using this
      have h2 : gF.ph.srcPh (j0 + 1) ≠ .subscribed := by rw [hifc]; exact fun h => h1 (toSrc_subscribed.1 h)
      have he := EnvStep.ret (M := Flatten.machine Int) (st := stF) (stk := kF') (g := gF) (tr := trF) (o := .subSrc (j0 + 1)) (l := l2)
        (by simp [legalRet, h2])
      refine ⟨_, _, _, hrO, reach_env hrF he, ⟨⟨hc.stF, rfl, rfl, hc.v, hc.sink, hc.src, ?_⟩,
        ho.congr rfl rfl, hinn.congr (fun _ => rfl) (fun _ => rfl),
        none, kI, ⟨.runF h, hstk', fun p hp => isSome_upd (hex p hp), fun j' l0 h => by cases h⟩⟩⟩
      intro hp f hf
      rcases List.mem_cons.1 hf with rfl | hf
      · simpa [locOf] using hc.pend hp (Frame.wait (.subSrc (j0 + 1)) l2) List.mem_cons_self
      · exact hc.pend hp f (List.mem_cons_of_mem _ hf)
    | @upI _ u l2 rest' _ _ _ kF' h =>
      simp [opStep, flatPlug, hinner, hst'] at hop
      subst hop
      have he := EnvStep.ret (M := Flatten.machine Int) (st := stF) (stk := kF') (g := gF) (tr := trF) (o := .srcUp (j0 + 1) u) (l := l2)
        (by simp [legalRet])
      refine ⟨_, _, _, hrO, reach_env hrF he, ⟨⟨hc.stF, rfl, rfl, hc.v, hc.sink, hc.src, ?_⟩,
        ho.congr rfl rfl, hinn.congr (fun _ => rfl) (fun _ => rfl),
        none, kI, ⟨.runF h, hstk', fun p hp => isSome_upd (hex p hp), fun j' l0 h => by cases h⟩⟩⟩
      intro hp f hf
      rcases List.mem_cons.1 hf with rfl | hf
      · simpa [locOf] using hc.pend hp (Frame.wait (.srcUp (j0 + 1) u) l2) List.mem_cons_self
      · exact hc.pend hp f (List.mem_cons_of_mem _ hf)
  | call o s1' l' =>
    have hst' : Mi.step stI l = .call o s1' l' := hst
    have hrI' := reach_op hrI (.call hst)
    have hv := (hUI.safe _ hrI').1
    simp only [onOut_ph] at hv
    have hexI : ∀ (o' : Out Int) p, p ∈ ((j0 + 1, Frame.wait o' l') :: kI : List (Nat × Frame Li Int)) →
        ∀ x, ((fam.upd (j0 + 1) x) p.1).isSome := by
      intro o' p hp x
      rcases List.mem_cons.1 hp with rfl | hp
      · simp
      · exact isSome_upd (hex p hp)
    have hstkI : ∀ (o' : Out Int) (sI' : Sys Si Li αi Int), sI'.stack = .wait o' l' :: proj (j0 + 1) kI →
        ∀ j' a' sI, fam.upd (j0 + 1) (a, sI') j' = some (a', sI) → sI.stack = istack none ((j0 + 1, Frame.wait o' l') :: kI) j' := by
      intro o' sI' hs
      refine stkI_upd hsI _ a _ (by rw [hs, istack_none, proj_cons_same]) (hoth_stk _ _ (fun j' hj' => ?_))
      rw [istack_none, proj_cons_ne (Ne.symm hj')]
    cases o with
    | greet k =>
      obtain ⟨hsub, heq⟩ := onOut_greet_ok _ _ hv
      cases k with
      | succ k => rw [hsinkI k] at hsub; cases hsub
      | zero =>
        simp [opStep, flatPlug, hinner, hst'] at hop
        subst hop
        have hsub2 : gF.ph.srcPh (j0 + 1) = .subscribed := by rw [hifc, hsub]; rfl
        obtain ⟨l2, r, hk2⟩ := subscribed_top (Flatten.machine Int) flatten_lg hrF (j0 + 1) hsub2
        simp only at hk2
        subst hk2
        have he := EnvStep.call (M := Flatten.machine Int) (st := stF) (stk := .wait (.subSrc (j0 + 1)) l2 :: r) (g := gF) (tr := trF)
          (.srcGreet (j0 + 1)) rfl (by simp [legalIn, hsub2, inSub])
        have hcore : Core (⟨st.setInner (j0 + 1) s1',
            .run (.flat ((Flatten.machine Int).enter (.srcGreet (j0 + 1))) :: .inner (j0 + 1) l' :: rest) :: stk, g, tr, none⟩ : NSys So Lo Si Li)
            ⟨stF, .run ((Flatten.machine Int).enter (.srcGreet (j0 + 1))) :: .wait (.subSrc (j0 + 1)) l2 :: r,
              gF.onIn (Frame.wait (Out.subSrc (j0 + 1)) l2 :: r : List (Frame FL Int)).length (.srcGreet (j0 + 1) : In Int), .inp (.srcGreet (j0 + 1)) :: trF, none⟩ :=
          ⟨hc.stF, rfl, rfl, hc.v, by simpa [Ph.onIn] using hc.sink, hc.src,
            pend_cons (fun _ => by simp [Flatten.machine, Flatten.enter, locOf, isOd]) hc.pend⟩
        have hinn := hi.upd (s' := (⟨st.setInner (j0 + 1) s1',
            .run (.flat ((Flatten.machine Int).enter (.srcGreet (j0 + 1))) :: .inner (j0 + 1) l' :: rest) :: stk, g, tr, none⟩ : NSys So Lo Si Li))
          (sF' := ⟨stF, .run ((Flatten.machine Int).enter (.srcGreet (j0 + 1))) :: .wait (.subSrc (j0 + 1)) l2 :: r,
              gF.onIn (Frame.wait (Out.subSrc (j0 + 1)) l2 :: r : List (Frame FL Int)).length (.srcGreet (j0 + 1) : In Int), .inp (.srcGreet (j0 + 1)) :: trF, none⟩)
          j0 a ⟨s1', .wait (.greet 0) l' :: proj (j0 + 1) kI, gI.onOut (atInit Mi (initOf a)).shape (.greet 0), .out (.greet 0) :: trI, none⟩
          (innerSt_setInner_same _ _ _) (fun j' hj' => innerSt_setInner_ne _ hj' _) rfl hrI'
          (by simp only [onOut_ph, onIn_ph, heq]; simp [Ph.onIn, toSrc])
          (fun i hi' => by simp [Ph.onIn, hi'])
          (fun k => by simp only [onOut_ph, heq]; simp [hsinkI k])
          (by simp only [onOut_ph, heq]; simp)
        exact ⟨_, _, _, hrO, reach_env hrF he, ⟨hcore, ho.congr rfl (by simp [Ph.onIn]), hinn,
          none, (j0 + 1, .wait (.greet 0) l') :: kI,
          ⟨.runF (.intI (by simp [Internal1]) hrel), hstkI _ _ rfl, fun p hp => hexI _ p hp _, fun j' l0 h => by cases h⟩⟩⟩
    | down k d =>
      obtain ⟨hlive, heq⟩ := onOut_down_ok _ _ _ hv
      cases k with
      | succ k => rw [hsinkI k] at hlive; cases hlive
      | zero =>
        simp [opStep, flatPlug, hinner, hst'] at hop
        subst hop
        have hlive2 : gF.ph.srcPh (j0 + 1) = .live := by rw [hifc, hlive]; rfl
        have hctx : ∃ c, ctxOf kF = some c ∧ legalIn (Flatten.machine Int).shape gF.ph c (.srcDown (j0 + 1) d) = true := by
          cases hrel with
          | @subI _ l2 rest' _ _ _ kF' hproj h => exact ⟨_, rfl, by simp [legalIn, hlive2, inSub]⟩
          | @upI _ u l2 rest' _ _ _ kF' h =>
            cases u with
            | pull => exact ⟨_, rfl, by simp [legalIn, hlive2, inPull]⟩
            | term =>
              have := wait_srcUp_disposed _ hrF (Flatten.flatten_basicSafe _ hrF).1 (j0 + 1) .term l2 (by simp) (by simp)
              simp only at this; rw [hlive2] at this; cases this
            | err e =>
              have := wait_srcUp_disposed _ hrF (Flatten.flatten_basicSafe _ hrF).1 (j0 + 1) (.err e) l2 (by simp) (by simp)
              simp only at this; rw [hlive2] at this; cases this
        obtain ⟨c, hcc, hl⟩ := hctx
        have he := EnvStep.call (M := Flatten.machine Int) (st := stF) (stk := kF) (g := gF) (tr := trF) (.srcDown (j0 + 1) d) hcc hl
        have hcore : Core (⟨st.setInner (j0 + 1) s1',
            .run (.flat ((Flatten.machine Int).enter (.srcDown (j0 + 1) d)) :: .inner (j0 + 1) l' :: rest) :: stk, g, tr, none⟩ : NSys So Lo Si Li)
            ⟨stF, .run ((Flatten.machine Int).enter (.srcDown (j0 + 1) d)) :: kF,
              gF.onIn kF.length (.srcDown (j0 + 1) d), .inp (.srcDown (j0 + 1) d) :: trF, none⟩ :=
          ⟨hc.stF, rfl, rfl, hc.v, by cases d <;> simpa [Ph.onIn] using hc.sink, hc.src,
            by cases d <;> exact pend_cons (fun _ => by simp [Flatten.machine, Flatten.enter, locOf, isOd]) hc.pend⟩
        have hinn := hi.upd (s' := (⟨st.setInner (j0 + 1) s1',
            .run (.flat ((Flatten.machine Int).enter (.srcDown (j0 + 1) d)) :: .inner (j0 + 1) l' :: rest) :: stk, g, tr, none⟩ : NSys So Lo Si Li))
          (sF' := ⟨stF, .run ((Flatten.machine Int).enter (.srcDown (j0 + 1) d)) :: kF,
              gF.onIn kF.length (.srcDown (j0 + 1) d), .inp (.srcDown (j0 + 1) d) :: trF, none⟩)
          j0 a ⟨s1', .wait (.down 0 d) l' :: proj (j0 + 1) kI, gI.onOut (atInit Mi (initOf a)).shape (.down 0 d), .out (.down 0 d) :: trI, none⟩
          (innerSt_setInner_same _ _ _) (fun j' hj' => innerSt_setInner_ne _ hj' _) rfl hrI'
          (by simp only [onOut_ph, onIn_ph, heq]; cases d <;> simp [Ph.onIn, toSrc, isFinal, hifc, hlive])
          (fun i hi' => by cases d <;> simp [Ph.onIn, hi'])
          (fun k => by simp only [onOut_ph, heq]; cases d <;> simp [isFinal, hsinkI k])
          (by simp only [onOut_ph, heq]; cases d <;> simp [isFinal, hlive])
        exact ⟨_, _, _, hrO, reach_env hrF he, ⟨hcore, ho.congr rfl (by cases d <;> simp [Ph.onIn]), hinn,
          none, (j0 + 1, .wait (.down 0 d) l') :: kI,
          ⟨.runF (.intI (by simp [Internal1]) hrel), hstkI _ _ rfl, fun p hp => hexI _ p hp _, fun j' l0 h => by cases h⟩⟩⟩
    | subSrc i =>
      obtain ⟨_, _, heq⟩ := onOut_subSrc_ok _ _ hv
      have := H.noUpI a _ hrI' i
      simp [heq] at this
    | srcUp i u =>
      obtain ⟨hl, _⟩ := onOut_srcUp_ok _ _ _ hv
      have := H.noUpI a _ hrI i
      simp only at this
      rw [this] at hl; cases hl
    | app b' => exact absurd hst (hUI.noApp _ _ _ _ _)


theorem step_flat (H : HypF Mo Mi initOf) {st : FPSt So Si} {l : FL} {rest : List (FFr Lo FL Li)}
    {stk : List (Frame (List (FFr Lo FL Li)) Int)} {g : G} {tr : List (Ev Int Int)}
    {stO : So} {kO : List (Frame Lo Int)} {gO : G} {trO : List (Ev αo Int)}
    {stF : Flatten.St} {kF : List (Frame FL Int)} {gF : G} {trF : List (Ev Int Int)}
    {fam : Fam Si Li αi} {kI : List (Nat × Frame Li Int)} {b : NSys So Lo Si Li}
    (hrO : SReach Mo ⟨stO, kO, gO, trO, none⟩) (hrF : SReach (Flatten.machine Int) ⟨stF, .run l :: kF, gF, trF, none⟩)
    (hrel : RelF .flat rest stk kO kI kF)
    (hc : Core (⟨st, .run (.flat l :: rest) :: stk, g, tr, none⟩ : NSys So Lo Si Li) ⟨stF, .run l :: kF, gF, trF, none⟩)
    (ho : OuterRel (⟨st, .run (.flat l :: rest) :: stk, g, tr, none⟩ : NSys So Lo Si Li) ⟨stO, kO, gO, trO, none⟩ ⟨stF, .run l :: kF, gF, trF, none⟩)
    (hi : InnerRel Mi initOf (⟨st, .run (.flat l :: rest) :: stk, g, tr, none⟩ : NSys So Lo Si Li) ⟨stF, .run l :: kF, gF, trF, none⟩ fam)
    (hsI : ∀ j a sI, fam j = some (a, sI) → sI.stack = istack none kI j) (hex : ∀ p ∈ kI, (fam p.1).isSome)
    (hop : opStep (flatPlug Mo Mi initOf) ⟨st, .run (.flat l :: rest) :: stk, g, tr, none⟩ = some b) :
    ∃ sO' sF' fam', SReach Mo sO' ∧ SReach (Flatten.machine Int) sF' ∧ MatchF Mi initOf b sO' sF' fam' := by
  have hstF : st.flat = stF := hc.stF
  have hpendTl : st.pending = none → ∀ f ∈ kF, ¬ isOd (locOf f) := pend_tail hc.pend
  have hifcO : gF.ph.srcPh 0 = toSrc (gO.ph.sinkPh 0) := ho.ifcO
  have hsinkO : ∀ k, gO.ph.sinkPh (k + 1) = .idle := ho.sinkO
  have hwI := hrel.turnsF.2.2
  cases hst : (Flatten.machine Int).step stF l with
  | tau s' l' =>
    simp [opStep, flatPlug, hstF, hst] at hop
    subst hop
    refine ⟨_, _, fam, hrO, reach_op hrF (.tau hst), ⟨⟨rfl, rfl, rfl, hc.v, hc.sink, hc.src, ?_⟩,
      ho.congr rfl rfl, hi.congr (fun _ => rfl) (fun _ => rfl), none, kI, ⟨.runF hrel, hsI, hex, fun j l0 h => by cases h⟩⟩⟩
    exact pend_cons (fun hp hod => hc.pend hp (.run l) List.mem_cons_self (flat_tau_od hst hod)) hpendTl
  | panic m =>
    have := (Flatten.flatten_basicSafe _ (reach_op hrF (.panic hst))).2
    cases this
  | ret =>
    have hrF' := reach_op hrF (.ret hst)
    cases rest with
    | nil =>
      simp [opStep, flatPlug, hstF, hst] at hop
      subst hop
      exact ⟨_, _, fam, hrO, hrF', ⟨⟨hstF, rfl, rfl, by simpa using hc.v, by simpa using hc.sink, by simpa using hc.src, hpendTl⟩,
        ho.congr rfl (by simp), hi.congr (fun _ => rfl) (fun _ => by simp), none, kI,
        ⟨.turn hrel, hsI, hex, fun j l0 h => by cases h⟩⟩⟩
    | cons c rest' =>
      simp [opStep, flatPlug, hstF, hst] at hop
      subst hop
      have hcore : Core (⟨st, .run (c :: rest') :: stk, g, tr, none⟩ : NSys So Lo Si Li)
          ⟨stF, kF, gF.onRetO kF.length, .retO :: trF, none⟩ :=
        ⟨hstF, rfl, rfl, hc.v, by simpa using hc.sink, hc.src, hpendTl⟩
      cases hrel with
      | @intO o l1 _ _ kO' _ _ hio h =>
        have he := EnvStep.ret (M := Mo) (st := stO) (stk := kO') (g := gO) (tr := trO) (o := o) (l := l1)
          (legalRet_internal1 _ _ hio)
        exact ⟨_, _, fam, reach_env hrO he, hrF', ⟨hcore, ⟨ho.stO, rfl, by simpa using hifcO, hsinkO⟩,
          hi.congr (fun _ => rfl) (fun _ => by simp), none, kI, ⟨.runO h, hsI, hex, fun j l0 h => by cases h⟩⟩⟩
      | @intI j o l1 _ _ _ kI' _ hio h =>
        have hsome := hex (j, .wait o l1) List.mem_cons_self
        obtain ⟨⟨a, sI⟩, hfj⟩ := Option.isSome_iff_exists.1 hsome
        obtain ⟨stI, kIj, gI, trI, pI⟩ := sI
        have hpI : pI = none := hi.pI j a _ hfj
        subst hpI
        have hk : kIj = .wait o l1 :: proj j kI' := by
          have := hsI j a _ hfj; simp only at this; rw [this, istack_none, proj_cons_same]
        subst hk
        obtain ⟨j0, rfl⟩ : ∃ j0, j = j0 + 1 := by
          cases j with
          | zero => rw [hi.fam0] at hfj; cases hfj
          | succ j0 => exact ⟨j0, rfl⟩
        have hrI := hi.rI _ a _ hfj
        have he := EnvStep.ret (M := atInit Mi (initOf a)) (st := stI) (stk := proj (j0 + 1) kI') (g := gI) (tr := trI) (o := o) (l := l1)
          (legalRet_internal1 _ _ hio)
        have hstj : st.innerSt (j0 + 1) = some stI := by have := hi.stI (j0 + 1); simp only at this; rw [this, hfj]; rfl
        have hifc : gF.ph.srcPh (j0 + 1) = toSrc (gI.ph.sinkPh 0) := by have := hi.ifcI j0; simp only at this; rw [this, hfj]
        have hsk : ∀ k, gI.ph.sinkPh (k + 1) = .idle := hi.sinkI _ a _ hfj
        have halive : gI.ph.sinkPh 0 ≠ .idle := hi.alive _ a _ hfj
        have hinn := hi.upd (s' := (⟨st, .run (.inner (j0 + 1) l1 :: rest') :: stk, g, tr, none⟩ : NSys So Lo Si Li))
          (sF' := ⟨stF, kF, gF.onRetO kF.length, .retO :: trF, none⟩) j0 a
          ⟨stI, .run l1 :: proj (j0 + 1) kI', gI, .retE :: trI, none⟩ hstj (fun _ _ => rfl) rfl (reach_env hrI he)
          (by simpa using hifc) (fun i _ => by simp) hsk halive
        refine ⟨_, _, _, hrO, hrF', ⟨hcore, ho.congr rfl (by simp), hinn, some (j0 + 1, l1), kI',
          ⟨.runI h, ?_, fun p hp => isSome_upd (hex p (List.mem_cons_of_mem _ hp)), fun j' l0 h => by cases h; simp⟩⟩⟩
        refine stkI_upd hsI _ a _ (istack_some_same _ _ _).symm ?_
        intro j' hj'
        rw [istack_some_ne hj', istack_none, proj_cons_ne (Ne.symm hj')]
  | call o s' l' =>
    have hrF' := reach_op hrF (.call hst)
    have hv := (Flatten.flatten_basicSafe _ hrF').1
    simp only [onOut_ph] at hv
    have hpend' : ∀ o' : Out Int, st.pending = none → ∀ f ∈ (Frame.wait o' l' :: kF : List (Frame FL Int)), ¬ isOd (locOf f) :=
      fun o' => pend_cons (fun hp hod => hc.pend hp (.run l) List.mem_cons_self (flat_call_od hst hod)) hpendTl
    cases o with
    | subSrc i =>
      obtain ⟨hidle2, hopen2, heq⟩ := onOut_subSrc_ok _ _ hv
      cases i with
      | zero =>
        simp [opStep, flatPlug, hstF, hst] at hop
        subst hop
        have hidle1 : gO.ph.sinkPh 0 = .idle := toSrc_idle.1 (hifcO ▸ hidle2)
        have hall : ∀ k, gO.ph.sinkPh k = .idle := by
          intro k; cases k with
          | zero => exact hidle1
          | succ k => exact hsinkO k
        have hk1 := (idle_empty Mo hrO hall).1
        simp only at hk1
        subst hk1
        have he := EnvStep.call (M := Mo) (st := stO) (stk := []) (g := gO) (tr := trO)
          (.subscribe 0) rfl (by simp [legalIn, isTop, hidle1])
        refine ⟨_, _, fam, reach_env hrO he, hrF', ⟨⟨rfl, rfl, rfl, hc.v, by simpa [heq] using hc.sink, hc.src, hpend' _⟩,
          ⟨ho.stO, rfl, ?_, ?_⟩, hi.congr (fun _ => rfl) (fun j => by simp [heq]),
          none, kI, ⟨.runO (.subO hrel), hsI, hex, fun j l0 h => by cases h⟩⟩⟩
        · simp only [onOut_ph, onIn_ph, heq]; simp [Ph.onIn, toSrc]
        · intro k; simp [Ph.onIn, hsinkO k]
      | succ j0 =>
        have hod : isOd l := flat_subI_od hst
        obtain ⟨a, hpa⟩ : ∃ a, st.pending = some a := by
          cases hp : st.pending with
          | none => exact absurd hod (hc.pend hp (.run l) List.mem_cons_self)
          | some a => exact ⟨a, rfl⟩
        obtain ⟨so, sf, pd, inn⟩ := st
        simp only at hpa hstF
        subst hpa hstF
        simp [opStep, flatPlug, hst] at hop
        subst hop
        have hnone : fam (j0 + 1) = none := by
          have := hi.ifcI j0
          simp only at this
          cases hf : fam (j0 + 1) with
          | none => rfl
          | some p =>
            obtain ⟨a', sI⟩ := p
            rw [hf] at this
            simp only at this
            rw [hidle2] at this
            exact absurd (toSrc_idle.1 this.symm) (hi.alive _ a' sI hf)
        have hproj : proj (j0 + 1) kI = [] := proj_eq_nil hex hnone
        have he := EnvStep.call (M := atInit Mi (initOf a)) (st := initOf a) (stk := []) (g := {}) (tr := [])
          (.subscribe 0) rfl (by simp [legalIn, isTop])
        have hrI' := reach_env (SReachR.init (M := atInit Mi (initOf a)) (R := anyEnv)) he
        have hinn := hi.upd (s' := (⟨(⟨so, s', some a, inn⟩ : FPSt So Si).setInner (j0 + 1) (initOf a),
            .run (.inner (j0 + 1) (Mi.enter (.subscribe 0)) :: .flat l' :: rest) :: stk, g, tr, none⟩ : NSys So Lo Si Li))
          (sF' := ⟨s', .wait (.subSrc (j0 + 1)) l' :: kF, gF.onOut (Flatten.machine Int).shape (.subSrc (j0 + 1) : Out Int), .out (.subSrc (j0 + 1)) :: trF, none⟩)
          j0 a ⟨initOf a, [.run ((atInit Mi (initOf a)).enter (.subscribe 0))], ({} : G).onIn 0 (.subscribe 0 : In αi), [.inp (.subscribe 0)], none⟩
          (innerSt_setInner_same _ _ _) (fun j' hj' => by rw [innerSt_setInner_ne _ hj']; rfl) rfl hrI'
          (by simp only [onOut_ph, onIn_ph]; rw [heq]; simp [Ph.onIn, toSrc])
          (fun i hi' => by simp only [onOut_ph]; rw [heq]; simp [hi'])
          (fun k => by simp [Ph.onIn])
          (by simp [Ph.onIn])
        refine ⟨_, _, _, hrO, hrF', ⟨⟨rfl, rfl, rfl, hc.v, by simpa [heq] using hc.sink, hc.src,
            fun hp => by simp [FPSt.setInner] at hp⟩,
          ⟨ho.stO, rfl, by simpa [heq] using hifcO, hsinkO⟩, hinn,
          some (j0 + 1, Mi.enter (.subscribe 0)), kI,
          ⟨.runI (.subI hproj hrel), ?_, fun p hp => isSome_upd (hex p hp), fun j' l0 h => by cases h; simp⟩⟩⟩
        refine stkI_upd hsI _ a ⟨initOf a, [.run ((atInit Mi (initOf a)).enter (.subscribe 0))], ({} : G).onIn 0 (.subscribe 0 : In αi), [.inp (.subscribe 0)], none⟩
          (by rw [istack_some_same, hproj]; rfl) ?_
        intro j' hj'
        rw [istack_some_ne hj', istack_none]
    | srcUp i u =>
      obtain ⟨hlive2, heq⟩ := onOut_srcUp_ok _ _ _ hv
      cases i with
      | zero =>
        simp [opStep, flatPlug, hstF, hst] at hop
        subst hop
        have hlive1 : gO.ph.sinkPh 0 = .live := toSrc_live.1 (hifcO ▸ hlive2)
        have hctx : ∃ c, ctxOf kO = some c ∧ legalIn Mo.shape gO.ph c (.sinkUp 0 u : In αo) = true := by
          rcases hrel.flat_kO with h | ⟨o, l1, r, h, hio⟩
          · subst h; exact ⟨_, rfl, by simp [legalIn, hlive1, isTop]⟩
          · subst h
            cases o with
            | greet k =>
              cases k with
              | zero => exact ⟨_, rfl, by simp [legalIn, hlive1, inGreet]⟩
              | succ k => simp [Internal1] at hio
            | down k d =>
              cases k with
              | succ k => simp [Internal1] at hio
              | zero =>
                cases d with
                | data x => exact ⟨_, rfl, by simp [legalIn, hlive1, inData]⟩
                | term =>
                  have := wait_down_done Mo hrO (H.upO.safe _ hrO).1 0 .term l1 (by simp) rfl
                  simp only at this; rw [hlive1] at this; cases this
                | err e =>
                  have := wait_down_done Mo hrO (H.upO.safe _ hrO).1 0 (.err e) l1 (by simp) rfl
                  simp only at this; rw [hlive1] at this; cases this
            | subSrc i => simp [Internal1] at hio
            | srcUp i u => simp [Internal1] at hio
            | app b => simp [Internal1] at hio
        obtain ⟨c, hcc, hl⟩ := hctx
        have he := EnvStep.call (M := Mo) (st := stO) (stk := kO) (g := gO) (tr := trO) (.sinkUp 0 u) hcc hl
        refine ⟨_, _, fam, reach_env hrO he, hrF', ⟨⟨rfl, rfl, rfl, hc.v, ?_, hc.src, hpend' _⟩,
          ⟨ho.stO, rfl, ?_, ?_⟩, hi.congr (fun _ => rfl) (fun j => by cases u <;> simp [heq, afterUp]),
          none, kI, ⟨.runO (.upO hrel), hsI, hex, fun j l0 h => by cases h⟩⟩⟩
        · intro k; simp only [onOut_ph, heq]; cases u <;> simpa [afterUp] using hc.sink k
        · simp only [onOut_ph, onIn_ph, heq]
          cases u <;> simp [Ph.onIn, toSrc, afterUp, hifcO, hlive1]
        · intro k; cases u <;> simp [Ph.onIn, hsinkO k]
      | succ j0 =>
        simp [opStep, flatPlug, hstF, hst] at hop
        subst hop
        have hifc := hi.ifcI j0
        simp only at hifc
        rw [hlive2] at hifc
        cases hf : fam (j0 + 1) with
        | none => rw [hf] at hifc; cases hifc
        | some p =>
          obtain ⟨a, sI⟩ := p
          rw [hf] at hifc
          simp only at hifc
          obtain ⟨stI, kIj, gI, trI, pI⟩ := sI
          have hpI : pI = none := hi.pI _ a _ hf
          subst hpI
          have hk : kIj = proj (j0 + 1) kI := by have := hsI _ a _ hf; simpa [istack_none] using this
          subst hk
          have hrI := hi.rI _ a _ hf
          have hlive1 : gI.ph.sinkPh 0 = .live := toSrc_live.1 hifc.symm
          have hctx : ∃ c, ctxOf (proj (j0 + 1) kI) = some c ∧
              legalIn (atInit Mi (initOf a)).shape gI.ph c (.sinkUp 0 u : In αi) = true := by
            cases hpj : proj (j0 + 1) kI with
            | nil => exact ⟨_, rfl, by simp [legalIn, hlive1, isTop]⟩
            | cons f r =>
              have hmem : (j0 + 1, f) ∈ kI := by
                have : f ∈ proj (j0 + 1) kI := by rw [hpj]; exact List.mem_cons_self
                simp only [proj, List.mem_map, List.mem_filter, beq_iff_eq] at this
                obtain ⟨p, ⟨hp, hp1⟩, hp2⟩ := this
                have : p = (j0 + 1, f) := by cases p; simp at hp1 hp2; simp [hp1, hp2]
                rw [← this]; exact hp
              obtain ⟨o, l1, hfo, hio⟩ := hwI _ hmem
              simp only at hfo
              subst hfo
              have hfr : Frame.wait o l1 ∈ (⟨stI, proj (j0 + 1) kI, gI, trI, none⟩ : Sys Si Li αi Int).stack := by
                simp only; rw [hpj]; exact List.mem_cons_self
              cases o with
              | greet k =>
                cases k with
                | zero => exact ⟨_, rfl, by simp [legalIn, hlive1, inGreet]⟩
                | succ k => simp [Internal1] at hio
              | down k d =>
                cases k with
                | succ k => simp [Internal1] at hio
                | zero =>
                  cases d with
                  | data x => exact ⟨_, rfl, by simp [legalIn, hlive1, inData]⟩
                  | term =>
                    have := wait_down_done _ hrI ((H.upI a).safe _ hrI).1 0 .term l1 hfr rfl
                    simp only at this; rw [hlive1] at this; cases this
                  | err e =>
                    have := wait_down_done _ hrI ((H.upI a).safe _ hrI).1 0 (.err e) l1 hfr rfl
                    simp only at this; rw [hlive1] at this; cases this
              | subSrc i => simp [Internal1] at hio
              | srcUp i u => simp [Internal1] at hio
              | app b => simp [Internal1] at hio
          obtain ⟨c, hcc, hl⟩ := hctx
          have he := EnvStep.call (M := atInit Mi (initOf a)) (st := stI) (stk := proj (j0 + 1) kI) (g := gI) (tr := trI)
            (.sinkUp 0 u) hcc hl
          have hstj : st.innerSt (j0 + 1) = some stI := by have := hi.stI (j0 + 1); simp only at this; rw [this, hf]; rfl
          have hinn := hi.upd (s' := (⟨({ st with flat := s' } : FPSt So Si),
              .run (.inner (j0 + 1) (Mi.enter (.sinkUp 0 u)) :: .flat l' :: rest) :: stk, g, tr, none⟩ : NSys So Lo Si Li))
            (sF' := ⟨s', .wait (.srcUp (j0 + 1) u) l' :: kF, gF.onOut (Flatten.machine Int).shape (.srcUp (j0 + 1) u : Out Int), .out (.srcUp (j0 + 1) u) :: trF, none⟩)
            j0 a ⟨stI, .run ((atInit Mi (initOf a)).enter (.sinkUp 0 u)) :: proj (j0 + 1) kI, gI.onIn (proj (j0 + 1) kI).length (.sinkUp 0 u : In αi),
              .inp (.sinkUp 0 u) :: trI, none⟩
            hstj (fun _ _ => rfl) rfl (reach_env hrI he)
            (by simp only [onOut_ph, onIn_ph, heq]; cases u <;> simp [Ph.onIn, toSrc, afterUp, hlive1, hlive2])
            (fun i hi' => by cases u <;> simp [heq, afterUp, hi'])
            (fun k => by cases u <;> simp [Ph.onIn, hi.sinkI _ a _ hf k])
            (by cases u <;> simp [Ph.onIn, hlive1])
          refine ⟨_, _, _, hrO, hrF', ⟨⟨rfl, rfl, rfl, hc.v, ?_, hc.src, hpend' _⟩,
            ⟨ho.stO, rfl, by cases u <;> simpa [heq, afterUp] using hifcO, hsinkO⟩, hinn,
            some (j0 + 1, Mi.enter (.sinkUp 0 u)), kI,
            ⟨.runI (.upI hrel), ?_, fun p hp => isSome_upd (hex p hp), fun j' l0 h => by cases h; simp⟩⟩⟩
          · intro k; simp only [onOut_ph, heq]; cases u <;> simpa [afterUp] using hc.sink k
          · refine stkI_upd hsI _ a _ (by rw [istack_some_same]; rfl) ?_
            intro j' hj'
            rw [istack_some_ne hj', istack_none]
    | greet k =>
      obtain ⟨hsub, heq⟩ := onOut_greet_ok _ _ hv
      simp [opStep, flatPlug, hstF, hst] at hop
      subst hop
      have hsubC : g.ph.sinkPh k = .subscribed := (hc.sink k).trans hsub
      refine ⟨_, _, fam, hrO, hrF', ⟨⟨rfl, rfl, rfl, ?_, ?_, ?_, hpend' _⟩,
        ho.congr rfl (by simp [heq]), hi.congr (fun _ => rfl) (fun j => by simp [heq]),
        none, kI, ⟨.turn (.ext (by simp [SinkSide]) hrel), hsI, hex, fun j l0 h => by cases h⟩⟩⟩
      · simp only [onOut_greet_eq hsubC]; exact hc.v
      · intro k'; simp only [onOut_ph, onOut_greet_eq hsubC, heq]; simp [hc.sink k']
      · intro i; simp only [onOut_greet_eq hsubC]; simpa using hc.src i
    | down k d =>
      obtain ⟨hlive, heq⟩ := onOut_down_ok _ _ _ hv
      simp [opStep, flatPlug, hstF, hst] at hop
      subst hop
      have hliveC : g.ph.sinkPh k = .live := (hc.sink k).trans hlive
      refine ⟨_, _, fam, hrO, hrF', ⟨⟨rfl, rfl, rfl, ?_, ?_, ?_, hpend' _⟩,
        ho.congr rfl (by simp only [onOut_ph, heq]; split <;> simp), hi.congr (fun _ => rfl) (fun j => by simp only [onOut_ph, heq]; split <;> simp),
        none, kI, ⟨.turn (.ext (by simp [SinkSide]) hrel), hsI, hex, fun j l0 h => by cases h⟩⟩⟩
      · simp only [onOut_ph, onOut_down_eq d hliveC]; split <;> simpa using hc.v
      · intro k'; simp only [onOut_ph, onOut_down_eq d hliveC, heq]; split <;> simp [hc.sink k']
      · intro i; simp only [onOut_ph, onOut_down_eq d hliveC]; split <;> simpa using hc.src i
    | app b' =>
      simp [opStep, flatPlug, hstF, hst] at hop
      subst hop
      exact ⟨_, _, fam, hrO, hrF', ⟨⟨rfl, rfl, rfl, by simpa [Ph.onOut] using hc.v, by simpa [Ph.onOut] using hc.sink,
        by simpa [Ph.onOut] using hc.src, hpend' _⟩,
        ho.congr rfl (by simp [Ph.onOut]), hi.congr (fun _ => rfl) (fun j => by simp [Ph.onOut]),
        none, kI, ⟨.turn (.ext (by simp [SinkSide]) hrel), hsI, hex, fun j l0 h => by cases h⟩⟩⟩


theorem step_env {a b : NSys So Lo Si Li} {sO : Sys So Lo αo Int} {sF : FSys} {fam : Fam Si Li αi} {m : Move Int}
    (hrO : SReach Mo sO) (hrF : SReach (Flatten.machine Int) sF) (hm : MatchF Mi initOf a sO sF fam)
    (he : EnvStep (flatPlug Mo Mi initOf) m a b) :
    ∃ sO' sF' fam', SReach Mo sO' ∧ SReach (Flatten.machine Int) sF' ∧ MatchF Mi initOf b sO' sF' fam' := by
  obtain ⟨stO, kO, gO, trO, pO⟩ := sO
  obtain ⟨stF, kF, gF, trF, pF⟩ := sF
  obtain ⟨hc, ho, hi, topI, kI, hsm, hsI, hex, hexT⟩ := hm
  have hpO : pO = none := ho.pO
  have hpF : pF = none := hc.pF
  subst hpO hpF
  cases he with
  | @call st stk g tr c i hc' hl =>
    simp only at hsm
    cases hsm with
    | runO h => simp [ctxOf] at hc'
    | runI h => simp [ctxOf] at hc'
    | runF h => simp [ctxOf] at hc'
    | turn hrel =>
      have hc2 : ctxOf kF = some c := by rw [hrel.ctx]; exact hc'
      have hsink : ∀ k, g.ph.sinkPh k = gF.ph.sinkPh k := hc.sink
      cases i with
      | subscribe k =>
        have hl2 : legalIn (Flatten.machine Int).shape gF.ph c (.subscribe k : In Int) = true := by
          simpa [legalIn, flatPlug, Flatten.machine, hsink k] using hl
        have he2 := EnvStep.call (M := Flatten.machine Int) (st := stF) (stk := kF) (g := gF) (tr := trF) (.subscribe k) hc2 hl2
        exact ⟨_, _, fam, hrO, reach_env hrF he2, ⟨⟨hc.stF, rfl, rfl, by simpa using hc.v, fun k' => by simp [Ph.onIn, hsink k'],
          fun i' => by simpa [Ph.onIn] using hc.src i',
          pend_cons (fun _ => by simp [Flatten.machine, Flatten.enter, locOf, isOd]) hc.pend⟩,
          ho.congr rfl (by simp [Ph.onIn]), hi.congr (fun _ => rfl) (fun j => by simp [Ph.onIn]),
          none, kI, ⟨.runF hrel, hsI, hex, fun j l0 h => by cases h⟩⟩⟩
      | sinkUp k u =>
        have hl2 : legalIn (Flatten.machine Int).shape gF.ph c (.sinkUp k u : In Int) = true := by
          simpa [legalIn, flatPlug, Flatten.machine, hsink k] using hl
        have he2 := EnvStep.call (M := Flatten.machine Int) (st := stF) (stk := kF) (g := gF) (tr := trF) (.sinkUp k u) hc2 hl2
        exact ⟨_, _, fam, hrO, reach_env hrF he2, ⟨⟨hc.stF, rfl, rfl, by simpa using hc.v, fun k' => by cases u <;> simp [Ph.onIn, hsink k'],
          fun i' => by cases u <;> simpa [Ph.onIn] using hc.src i',
          pend_cons (fun _ => by cases u <;> simp [Flatten.machine, Flatten.enter, locOf, isOd]) hc.pend⟩,
          ho.congr rfl (by cases u <;> simp [Ph.onIn]), hi.congr (fun _ => rfl) (fun j => by cases u <;> simp [Ph.onIn]),
          none, kI, ⟨.runF hrel, hsI, hex, fun j l0 h => by cases h⟩⟩⟩
      | srcGreet i' =>
        have := legal_srcGreet hl
        rw [hc.src i'] at this; cases this
      | srcDown i' d =>
        have := legal_srcDown hl
        rw [hc.src i'] at this; cases this
  | @ret st stk g tr o l hl =>
    simp only at hsm
    cases hsm with
    | turn hrel =>
      cases hrel with
      | @ext _ l2 cfs _ _ _ kF' hos h =>
        have he2 := EnvStep.ret (M := Flatten.machine Int) (st := stF) (stk := kF') (g := gF) (tr := trF) (o := o) (l := l2)
          (legalRet_sinkSide _ _ hos)
        refine ⟨_, _, fam, hrO, reach_env hrF he2, ⟨⟨hc.stF, rfl, rfl, hc.v, hc.sink, hc.src, ?_⟩,
          ho.congr rfl rfl, hi.congr (fun _ => rfl) (fun _ => rfl), none, kI, ⟨.runF h, hsI, hex, fun j l0 h => by cases h⟩⟩⟩
        intro hp f hf
        rcases List.mem_cons.1 hf with rfl | hf
        · simpa [locOf] using hc.pend hp (Frame.wait o l2) List.mem_cons_self
        · exact hc.pend hp f (List.mem_cons_of_mem _ hf)

/-- **THE INVARIANT** for `flatPlug` -/
theorem flatPlug_inv (H : HypF Mo Mi initOf) :
    ∀ s, SReach (flatPlug Mo Mi initOf) s →
      ∃ sO sF fam, SReach Mo sO ∧ SReach (Flatten.machine Int) sF ∧ MatchF Mi initOf s sO sF fam := by
  intro s hs
  induction hs with
  | init =>
    refine ⟨Sys.init Mo, Sys.init (Flatten.machine Int), fun _ => none, .init, .init,
      ⟨⟨rfl, rfl, rfl, rfl, fun k => (by simp [Sys.init]), fun i => (by simp [Sys.init]), fun _ f hf => (by simp [Sys.init] at hf)⟩,
       ⟨rfl, rfl, (by simp [Sys.init, toSrc]), fun k => (by simp [Sys.init])⟩,
       ⟨fun j => (by simp [Sys.init, flatPlug, FPSt.innerSt]), fun j a sI h => (by cases h), fun j a sI h => (by cases h),
        fun j => (by simp [Sys.init]), fun j a sI h => (by cases h), rfl, fun j a sI h => (by cases h)⟩,
       none, [], ⟨.turn .nil, fun j a sI h => (by cases h), fun p hp => (by cases hp), fun j l h => (by cases h)⟩⟩⟩
  | @step a b ha hab ih =>
    obtain ⟨sO, sF, fam, hrO, hrF, hm⟩ := ih
    cases hab with
    | env he _ => exact step_env hrO hrF hm he
    | op hop =>
      obtain ⟨st, stk, g, tr, p⟩ := a
      obtain ⟨stO, kO, gO, trO, pO⟩ := sO
      obtain ⟨stF, kF, gF, trF, pF⟩ := sF
      obtain ⟨hc, ho, hi, topI, kI, hsm, hsI, hex, hexT⟩ := hm
      have hp : p = none := hc.p
      have hpO : pO = none := ho.pO
      have hpF : pF = none := hc.pF
      subst hp hpO hpF
      simp only at hsm
      cases hsm with
      | turn hrel =>
        have hturn : (ctxOf stk).isSome = true := by cases hrel <;> simp [ctxOf]
        have := opStep_none_of_envTurn (M := flatPlug Mo Mi initOf) (s := ⟨st, stk, g, tr, none⟩) ⟨rfl, hturn⟩
        rw [this] at hop; cases hop
      | runO hrel => exact step_outer H hrO hrF hrel hc ho hi hsI hex hop
      | runF hrel => exact step_flat H hrO hrF hrel hc ho hi hsI hex hop
      | @runI j l cfs _ _ _ _ hrel =>
        obtain ⟨⟨a, sI⟩, hfj⟩ := Option.isSome_iff_exists.1 (hexT j l rfl)
        obtain ⟨stI, kIj, gI, trI, pI⟩ := sI
        have hpI : pI = none := hi.pI j a _ hfj
        subst hpI
        have hk : kIj = .run l :: proj j kI := by have := hsI j a _ hfj; simpa [istack_some_same] using this
        subst hk
        exact step_inner H hrO hrF hrel hc ho hi hfj hsI hex hop

end Steps

/-! ## consequences -/
section Consequences
variable {So Lo Si Li αo αi : Type} {Mo : Machine So Lo αo Int} {Mi : Machine Si Li αi Int} {initOf : Int → Si}

/-- **phase-level safety of the network** (C01–C03, protocol part of C04, C17) -/
theorem flatPlug_basicSafe (H : HypF Mo Mi initOf) : ∀ s, SReach (flatPlug Mo Mi initOf) s → BasicSafe s := by
  intro s hs
  obtain ⟨sO, sF, fam, _, _, hm⟩ := flatPlug_inv H s hs
  exact ⟨hm.core.v, hm.core.p⟩

/-- the network is a closed source -/
theorem flatPlug_noUpstream (H : HypF Mo Mi initOf) : ComposeFull.NoUpstream (flatPlug Mo Mi initOf) := by
  intro s hs i
  obtain ⟨sO, sF, fam, _, _, hm⟩ := flatPlug_inv H s hs
  exact hm.core.src i

theorem flatPlug_noApp : ∀ st l b st' l', (flatPlug Mo Mi initOf).step st l ≠ .call (.app b) st' l' := by
  intro st l b st' l'
  cases l with
  | nil => simp [flatPlug]
  | cons c rest =>
    cases c with
    | outer l1 =>
      simp only [flatPlug]
      cases h1 : Mo.step st.outer l1 with
      | tau => simp
      | ret => simp only []; split <;> simp
      | panic => simp
      | call o s l' =>
        cases o with
        | greet k => cases k <;> simp
        | down k d => cases k <;> simp
        | subSrc i => simp
        | srcUp i u => simp
        | app b' => simp
    | inner j l1 =>
      simp only [flatPlug]
      cases hs : st.innerSt j with
      | none => simp
      | some si =>
        simp only []
        cases h1 : Mi.step si l1 with
        | tau => simp
        | ret => simp only []; split <;> simp
        | panic => simp
        | call o s l' =>
          cases o with
          | greet k => cases k <;> simp
          | down k d => cases k <;> simp
          | subSrc i => simp
          | srcUp i u => simp
          | app b' => simp
    | flat l2 =>
      simp only [flatPlug]
      cases h2 : (Flatten.machine Int).step st.flat l2 with
      | tau => simp
      | ret => simp only []; split <;> simp
      | panic => simp
      | call o s l' =>
        cases o with
        | greet k => simp
        | down k d => simp
        | subSrc i =>
          cases i with
          | zero => simp
          | succ i => simp only []; split <;> simp
        | srcUp i u => cases i <;> simp
        | app b' => exact absurd h2 (Flatten.upSide.noApp _ _ _ _ _)

/-- the network can head a pipeline -/
theorem flatPlug_upSide (H : HypF Mo Mi initOf) : UpSide (flatPlug Mo Mi initOf) := by
  refine ⟨flatPlug_noApp, ?_, flatPlug_basicSafe H⟩
  intro s hs hstk
  obtain ⟨sO, sF, fam, _, hrF, hm⟩ := flatPlug_inv H s hs
  obtain ⟨topI, kI, hsm, _, _, _⟩ := hm.stk
  rw [hm.core.sink 0]
  apply Flatten.upSide.sync sF hrF
  obtain ⟨st, stk, g, tr, p⟩ := s
  obtain ⟨stF, kF, gF, trF, pF⟩ := sF
  obtain ⟨stO, kO, gO, trO, pO⟩ := sO
  simp only at hstk hsm ⊢
  subst hstk
  cases hsm with
  | turn hrel => cases hrel; rfl


/-- … and fully safe (C01–C05, C17): it has no external upstream -/
theorem flatPlug_safe (H : HypF Mo Mi initOf) :
    ∀ s, SReach (flatPlug Mo Mi initOf) s → Safe s ∧ SafeFor 4 s ∧ SafeFor 5 s :=
  fun s hs => ComposeFull.full_of_safe
    (ComposeFull.safe_of_noUpstream (flatPlug_noUpstream H) (flatPlug_basicSafe H) s hs)

/-- `pipe!(flatten(map(g)(outer)), stage₁, …, stageₙ, for_each(f))`: fully safe -/
theorem flatPlug_closed_full {S L : Type} {Mmid : Machine S L Int Int} (H : HypF Mo Mi initOf) (hmid : Pipeable Mmid) :
    ∀ s, SReach (compose (compose (flatPlug Mo Mi initOf) Mmid) (ForEach.machine Int)) s → Safe s ∧ SafeFor 4 s ∧ SafeFor 5 s :=
  ComposeFull.closed_pipeline_full (flatPlug_upSide H) hmid

/-! ## What the network computes: why `HeadOkT Mo ys → (∀ a, HeadOkT (atInit Mi (initOf a)) (g a)) → HeadOkT (flatPlug …) (ys.flatMap g)`
is FALSE

`HeadOkT` quantifies over EVERY conformant sink, and flatten SWITCHES: an outer datum that arrives while an inner source is live
terminates that inner source.  Take `outer = concat!(take(1)(from_iter([1,2])), from_iter([5]))` (a `HeadOkT` head for `[1, 5]` by
`concat2_headOkT`) and `g a = from_iter([a, a+1])`, against a LAZY sink (one `Pull` at a time, from top level only):

1. the sink pulls; flatten (no inner) pulls the outer; `concat` remembers `got_pull`, pulls `take`, `take` pulls its source, gets `1`,
   delivers `1`; flatten subscribes inner 1 `= from_iter([1,2])`, pulls it, inner 1 delivers `1`; the sink receives `1` and returns
   WITHOUT pulling; inner 1 stays live;
2. control unwinds to `take`, which has its one item: `Terminate` upstream and downstream — unsolicited; `concat` subscribes its
   second member and, `got_pull` being sticky, pulls it although no `Pull` is outstanding; the member delivers `5` — an outer datum
   that answers no `Pull` of flatten;
3. flatten, inner 1 still live, terminates inner 1 (switch), subscribes inner 2 `= from_iter([5,6])`, pulls it: the sink receives `5`.

The sink has received `[1, 5]`, not a prefix of `[1, 2, 5, 6]`.  What the statement needs in addition is that the OUTER source delivers
data only in answer to a `Pull` (true of `from_iter` followed by stages; not of `concat!` whose first member ends unsolicited, i.e. ends
with a `take`).  Closed with `for_each` the program above IS correct — `for_each` pulls from inside every data handler, so an inner
source is exhausted before control returns to `take` — but that depends on the eagerness of the sink and cannot be proved through a
guarantee that holds against every conformant sink. -/

end Consequences

end FlatPlugSafe
end Cb

#print axioms Cb.FlatPlugSafe.flatPlug_inv
#print axioms Cb.FlatPlugSafe.flatPlug_basicSafe
#print axioms Cb.FlatPlugSafe.flatPlug_upSide
#print axioms Cb.FlatPlugSafe.flatPlug_noUpstream
#print axioms Cb.FlatPlugSafe.flatPlug_safe
#print axioms Cb.FlatPlugSafe.flatPlug_closed_full
