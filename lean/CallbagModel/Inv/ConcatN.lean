import CallbagModel.Inv.PlugConcat
import CallbagModel.Closed.Exec
import CallbagModel.Closed.Linear
/-!
# n-ary `concat!` as ONE machine: `concatN_headOkT`

`Closed.concatM [A₀, …, Aₙ₋₁]` (Closed/Exec.lean) plugs the members into the n-ary `concat` machine one slot after the other, slot 0
first (innermost).  `PartC n k ys M`: `M` is the n-ary concat machine with the slots `< k` plugged by closed heads of `ys 0, …, ys (k-1)`
and the slots `≥ k` external: every reachable configuration of `M` projects onto a reachable configuration `sC` of
`Concat.machine Int n` (same sink-side events; the source-side events of `M` are those of `sC` at the indices `≥ k`), and the plugged
members are summarised by what `sC`'s trace says at their index (`Mem`): a prefix of `ys i`, all of it once ended, no unserved `Pull`
at top level, no `Error`.  No member configuration is kept, so the members may have different types.

`PartC.plug` adds a slot (by `plug_inv_tr`), `PartC.head` turns `PartC n n` into `HeadOkT … (catN ys n)` with the invariants `K1`–`K3` of
`Inv/PlugConcat.lean` (already for every `n`) and the data equation `KD` for every `n` (generalising `K4`).
-/
namespace Cb
namespace ConcatN
open ComposeSafe ComposeFun ComposeComplete PlugSafe PlugConcat PlugConcat.CK

/-! ## lists -/

/-- `f 0 ++ f 1 ++ … ++ f (m-1)` -/
def catN {α : Type} (f : Nat → List α) : Nat → List α
  | 0 => []
  | m + 1 => catN f m ++ f m

theorem catN_congr {α : Type} {f f' : Nat → List α} {m : Nat} (h : ∀ j, j < m → f j = f' j) : catN f m = catN f' m := by
  induction m with
  | zero => rfl
  | succ m ih => simp only [catN]; rw [ih (fun j hj => h j (by omega)), h m (by omega)]

/-- appending to member `k` when all later members are empty -/
theorem catN_snoc {α : Type} {f f' : Nat → List α} {n k : Nat} {a : α} (hk : k < n) (hz : ∀ j, k < j → j < n → f j = [])
    (h1 : f' k = f k ++ [a]) (h2 : ∀ j, j ≠ k → f' j = f j) : catN f' n = catN f n ++ [a] := by
  induction n with
  | zero => omega
  | succ n ih =>
    simp only [catN]
    by_cases hkn : k = n
    · subst hkn
      rw [catN_congr (f := f') (f' := f) (fun j hj => h2 j (by omega)), h1, List.append_assoc]
    · rw [ih (by omega) (fun j h1 h2 => hz j h1 (by omega)), h2 n (Ne.symm hkn), hz n (by omega) (by omega)]
      simp

theorem catN_prefix {α : Type} {f ys : Nat → List α} {n i0 : Nat} (hfull : ∀ j, j < i0 → j < n → f j = ys j)
    (hpre : i0 < n → f i0 <+: ys i0) (hz : ∀ j, i0 < j → j < n → f j = []) : catN f n <+: catN ys n := by
  induction n with
  | zero => exact List.prefix_refl _
  | succ n ih =>
    simp only [catN]
    rcases Nat.lt_trichotomy n i0 with h | h | h
    · -- everything below is complete
      rw [catN_congr (f := f) (f' := ys) (fun j hj => hfull j (by omega) (by omega)), hfull n h (by omega)]
      exact List.prefix_refl _
    · subst h
      rw [catN_congr (f := f) (f' := ys) (fun j hj => hfull j hj (by omega))]
      exact (List.prefix_append_right_inj _).2 (hpre (by omega))
    · rw [hz n h (by omega), List.append_nil]
      exact (ih (fun j h1 h2 => hfull j h1 (by omega)) (fun h' => hpre (by omega)) (fun j h1 h2 => hz j h1 (by omega))).trans
        (List.prefix_append _ _)

/-! ## the data equation of the n-ary `concat`, at every reachable configuration -/

structure KD {α : Type} (n : Nat) (s : Sys Concat.St (Concat.Loc α) α α) : Prop where
  d : recvData 0 s.tr ++ pend s.stack = catN (fun j => sentData j s.tr) n
  z : ∀ j, s.g.ph.srcPh j = .idle → sentData j s.tr = []

variable {α : Type}

theorem KD.evt {n : Nat} {st st' : Concat.St} {stk stk' : List (Fm α)} {g g' : G} {tr : List (Ev α α)} (ev : Ev α α)
    (h : KD n ⟨st, stk, g, tr, none⟩) (hr : recvData 0 (ev :: tr) = recvData 0 tr) (hs : ∀ j, sentData j (ev :: tr) = sentData j tr)
    (hp : pend stk' = pend stk) (hz : ∀ j, g'.ph.srcPh j = .idle → g.ph.srcPh j = .idle) :
    KD n ⟨st', stk', g', ev :: tr, none⟩ := by
  refine ⟨?_, fun j hj => ?_⟩
  · simp only [hr, hp]
    rw [h.d]; exact catN_congr (fun j _ => (hs j).symm)
  · simp only [hs]; exact h.z j (hz j hj)

theorem KD_reach (n : Nat) (hn : 0 < n) : ∀ s, SReach (Concat.machine α n) s → s.panicked = none → KD n s := by
  apply reach_ind
  · intro _
    refine ⟨?_, fun _ _ => rfl⟩
    simp only [Sys.init, recvData, pend, List.append_nil]
    have : ∀ m, catN (fun j => sentData j ([] : List (Ev α α))) m = [] := by
      intro m; induction m with
      | zero => rfl
      | succ m ih => simp only [catN, ih]; rfl
    exact (this n).symm
  · intro a b ha ih hstep
    cases hstep with
    | @tau st l stk g tr s' l' hst =>
      intro _
      obtain ⟨h1, h2⟩ := ih rfl
      simp only at h1 h2
      refine ⟨?_, h2⟩
      cases l with
      | t0 => simp [Concat.machine, Concat.step] at hst; obtain ⟨rfl, rfl⟩ := hst; simpa [pend] using h1
      | g0 j' => simp [Concat.machine, Concat.step] at hst; obtain ⟨rfl, rfl⟩ := hst; simpa [pend] using h1
      | g1 => simp [Concat.machine, Concat.step] at hst; split at hst <;> simp at hst; obtain ⟨rfl, rfl⟩ := hst; simpa [pend] using h1
      | g2 => simp [Concat.machine, Concat.step] at hst; split at hst <;> simp at hst; obtain ⟨rfl, rfl⟩ := hst; simpa [pend] using h1
      | p0 => simp [Concat.machine, Concat.step] at hst; obtain ⟨rfl, rfl⟩ := hst; simpa [pend] using h1
      | done => cstp hst
      | next => cstp hst
      | g3 => cstp hst
      | fwd d => cstp hst
      | u1 u => cstp hst
    | @call st l stk g tr o s' l' hst =>
      intro _
      have hk := ih rfl
      have hz : ∀ j, ((g.onOut (Concat.machine α n).shape o).ph.srcPh j = .idle) → g.ph.srcPh j = .idle :=
        fun j hj => onOut_srcPh_idle_back _ _ _ (by simpa using hj)
      cases l with
      | next =>
        simp [Concat.machine, Concat.step] at hst
        split at hst <;> simp at hst <;> obtain ⟨rfl, rfl, rfl⟩ := hst <;>
          exact hk.evt _ (by simp [recvData]) (fun j => by simp [sentData]) rfl hz
      | g1 =>
        simp [Concat.machine, Concat.step] at hst
        split at hst <;> simp at hst
        obtain ⟨rfl, rfl, rfl⟩ := hst
        exact hk.evt _ (by simp [recvData]) (fun j => by simp [sentData]) rfl hz
      | g3 =>
        simp [Concat.machine, Concat.step] at hst
        split at hst <;> simp at hst
        obtain ⟨rfl, rfl, rfl⟩ := hst
        exact hk.evt _ (by simp [recvData]) (fun j => by simp [sentData]) rfl hz
      | u1 u =>
        simp [Concat.machine, Concat.step] at hst
        split at hst <;> simp at hst
        obtain ⟨rfl, rfl, rfl⟩ := hst
        exact hk.evt _ (by simp [recvData]) (fun j => by simp [sentData]) rfl hz
      | fwd d =>
        simp [Concat.machine, Concat.step] at hst
        obtain ⟨rfl, rfl, rfl⟩ := hst
        cases d with
        | data x =>
          refine ⟨?_, fun j hj => by simpa [sentData] using hk.z j (hz j hj)⟩
          have := hk.d
          simp only [pend] at this
          simp only [recvData, pend, if_true, List.append_nil, sentData]
          exact this
        | term => exact hk.evt _ (by simp [recvData]) (fun j => by simp [sentData]) rfl hz
        | err e => exact hk.evt _ (by simp [recvData]) (fun j => by simp [sentData]) rfl hz
      | done => cstp hst
      | g0 j' => cstp hst
      | g2 => cstp hst
      | t0 => cstp hst
      | p0 => cstp hst
    | @ret st l stk g tr hst =>
      intro _
      have hk := ih rfl
      have hw := pend_turn (pop_turn _ ha)
      cases l with
      | done => exact hk.evt _ (by simp [recvData]) (fun j => by simp [sentData]) (by rw [hw]; rfl) (fun j hj => by simpa using hj)
      | g2 => exact hk.evt _ (by simp [recvData]) (fun j => by simp [sentData]) (by rw [hw]; rfl) (fun j hj => by simpa using hj)
      | next => cstp hst
      | g0 j' => cstp hst
      | g1 => cstp hst
      | g3 => cstp hst
      | fwd d => cstp hst
      | t0 => cstp hst
      | p0 => cstp hst
      | u1 u => cstp hst
    | panic hst => intro hp; cases hp
  · intro a b m ha ih hstep
    cases hstep with
    | @call st stk g tr c i hc hl =>
      intro _
      have hk := ih rfl
      obtain ⟨hoths, hm⟩ := cinv n hn ha hc
      have hs2 := (K1_reach n hn _ ha rfl).s2
      simp only at hs2
      have hw := pend_turn (turn_all_waits _ ha hc)
      have hz : ∀ j, ((g.onIn stk.length i).ph.srcPh j = .idle) → g.ph.srcPh j = .idle :=
        fun j hj => onIn_srcPh_idle_back _ _ _ (by simpa using hj)
      cases i with
      | subscribe k => exact hk.evt _ (by simp [recvData]) (fun j => by simp [sentData]) (by rw [hw]; rfl) hz
      | sinkUp k u =>
        cases u <;> exact hk.evt _ (by simp [recvData]) (fun j => by simp [sentData]) (by rw [hw]; rfl) hz
      | srcGreet k => exact hk.evt _ (by simp [recvData]) (fun j => by simp [sentData]) (by rw [hw]; rfl) hz
      | srcDown k d =>
        cases d with
        | term => exact hk.evt _ (by simp [recvData]) (fun j => by simp [sentData]) (by rw [hw]; rfl) hz
        | err e => exact hk.evt _ (by simp [recvData]) (fun j => by simp [sentData]) (by rw [hw]; rfl) hz
        | data x =>
          obtain ⟨hki, _, _, hlt⟩ := live_cur hm (legal_srcDown hl)
          refine ⟨?_, fun j hj => ?_⟩
          · have hd := hk.d
            simp only at hd
            rw [hw, List.append_nil] at hd
            simp only [Concat.machine, Concat.enter, pend, recvData]
            rw [hd]
            refine (catN_snoc (k := k) (by omega) (fun j h1 h2 => hk.z j (hs2 j (by omega))) ?_ ?_).symm
            · simp [sentData]
            · intro j hj; simp [sentData, Ne.symm hj]
          · have hj' := hz j hj
            have hne : k ≠ j := by
              rintro rfl
              have := legal_srcDown hl
              rw [hj'] at this; cases this
            simpa [sentData, hne] using hk.z j hj'
    | @ret st stk g tr o l hl =>
      intro _
      have hk := ih rfl
      have hfr := (PlugSafe.ConcatK.K_reach n hn _ ha rfl).2.1
      have : l = .done := hfr _ List.mem_cons_self o l rfl
      subst this
      exact hk.evt _ (by simp [recvData]) (fun j => by simp [sentData]) rfl (fun j hj => hj)


/-! ## partially plugged `concat` machines -/
section Partial
open ComposeFull

/-- the source-side events at the upstreams `≥ k` -/
def srcGe {α : Type} (k : Nat) (l : List (SrcEv α)) : List (SrcEv α) := l.filter (fun e => decide (k ≤ srcIdx e))

theorem srcGe_zero {α : Type} (l : List (SrcEv α)) : srcGe 0 l = l := by simp [srcGe]

theorem srcNe_srcGe {α : Type} (k : Nat) (l : List (SrcEv α)) : srcNe k (srcGe k l) = srcGe (k + 1) l := by
  simp only [srcNe, srcGe, List.filter_filter]
  congr 1
  funext e
  by_cases h : srcIdx e = k
  · simp [h]
  · by_cases h2 : k ≤ srcIdx e
    · have : k + 1 ≤ srcIdx e := by omega
      simp [h, h2, this]
    · have : ¬ k + 1 ≤ srcIdx e := by omega
      simp [h2, this]

theorem srcEq_srcGe {α : Type} (k : Nat) (l : List (SrcEv α)) : srcEq k (srcGe k l) = srcEq k l := by
  simp only [srcEq, srcGe, List.filter_filter]
  congr 1
  funext e
  by_cases h : srcIdx e = k
  · simp [h]
  · simp [h]

abbrev CSys := Sys Concat.St (Concat.Loc Int) Int Int

/-- a configuration of a partially plugged machine and the configuration of the `concat` machine inside it -/
structure View {St Loc : Type} (k : Nat) (s : Sys St Loc Int Int) (sC : CSys) : Prop where
  sink : sinkEvs s.tr = sinkEvs sC.tr
  src : srcEvs s.tr = srcGe k (srcEvs sC.tr)
  sinkPh : ∀ j, s.g.ph.sinkPh j = sC.g.ph.sinkPh j
  srcPh : ∀ i, k ≤ i → s.g.ph.srcPh i = sC.g.ph.srcPh i
  turn : EnvTurn s → EnvTurn sC
  top : s.stack = [] → sC.stack = []

/-- what `concat` sees of the plugged members `i < k` -/
structure Mem {St Loc : Type} (k : Nat) (ys : Nat → List Int) (s : Sys St Loc Int Int) (sC : CSys) : Prop where
  pre : EnvTurn s → ∀ i, i < k → sentData i sC.tr <+: ys i
  full : EnvTurn s → ∀ i, i < k → sC.g.ph.srcPh i = .ended → sentData i sC.tr = ys i
  served : s.stack = [] → ∀ i, i < k → sC.g.ph.srcPh i = .live → lastPullSrc i (srcEvs sC.tr) = false
  noErr : ∀ i, i < k → ∀ e, SrcEv.down i (Down.err e) ∉ srcEvs sC.tr

/-- the n-ary `concat` machine with the slots `< k` plugged by closed heads of `ys 0, …, ys (k-1)` -/
structure PartC {St Loc : Type} (n k : Nat) (ys : Nat → List Int) (M : Machine St Loc Int Int) : Prop where
  up : UpSide M
  slots : OnlySlots (fun i => k ≤ i ∧ i < n) M
  proj : ∀ s, SReach M s → ∃ sC : CSys, SReach (Concat.machine Int n) sC ∧ sC.panicked = none ∧ View k s sC ∧ Mem k ys s sC

theorem PartC.base (n : Nat) (hn : 0 < n) (ys : Nat → List Int) : PartC n 0 ys (Concat.machine Int n) := by
  refine ⟨Concat.upSide n hn, fun s hs i hi => Concat.onlySlots n hn s hs i (fun h => hi ⟨Nat.zero_le _, h⟩), fun s hs => ?_⟩
  refine ⟨s, hs, (Concat.concat_basicSafe n hn s hs).2, ⟨rfl, (srcGe_zero _).symm, fun _ => rfl, fun _ _ => rfl, id, id⟩, ?_⟩
  exact ⟨fun _ i hi => absurd hi (Nat.not_lt_zero _), fun _ i hi => absurd hi (Nat.not_lt_zero _),
    fun _ i hi => absurd hi (Nat.not_lt_zero _), fun i hi => absurd hi (Nat.not_lt_zero _)⟩

/-- **plugging the next slot** -/
theorem PartC.plug {SA LA αA St Loc : Type} {A : Machine SA LA αA Int} {M : Machine St Loc Int Int} {n k : Nat} {ys : Nat → List Int}
    (hM : PartC n k ys M) (hA : HeadOkT A (ys k)) (NA : NoUpstream A) : PartC n (k + 1) ys (Cb.plug k A M) := by
  have H : HypP A M := hypP_of hA.head.up NA hM.up.safe
  refine ⟨UpSide.plug H k hM.up, ?_, ?_⟩
  · intro s hs i hi
    exact OnlySlots.plug H k hM.slots s hs i (fun h => hi ⟨by omega, h.1.2⟩)
  · intro s hs
    obtain ⟨sA, sM, hrA, hrM, hm, ht⟩ := plug_inv_tr H k s hs
    obtain ⟨sC, hrC, hpC, hv, hmem⟩ := hM.proj sM hrM
    have hturns := matchP_turns hm
    have hifc : srcEq k (srcEvs sC.tr) = dualJ k (sinkEvs sA.tr) := by
      rw [← srcEq_srcGe, ← hv.src, ht.ifc]
    have hsent : sentData k sC.tr = recvData 0 sA.tr := by
      rw [sentData_eq, ← sentS_srcEq, hifc, recvData_eq, recvS_dualJ k]
    -- the phase of slot `k` of `concat` is the phase of `A`'s sink
    have hph : sC.g.ph.srcPh k = toSrc (sA.g.ph.sinkPh 0) := (hv.srcPh k (Nat.le_refl _)).symm.trans hm.gh.ifc
    refine ⟨sC, hrC, hpC, ⟨ht.sink.trans hv.sink, ?_, fun j => (hm.gh.sink j).trans (hv.sinkPh j),
      fun i hi => (hm.gh.src i (by omega)).trans (hv.srcPh i (by omega)), fun h => hv.turn (hturns h).2, fun h => hv.top (matchP_top hm h).2⟩, ?_⟩
    · rw [ht.src, hv.src, srcNe_srcGe]
    · refine ⟨?_, ?_, ?_, ?_⟩
      · intro h i hi
        by_cases hik : i = k
        · subst hik; rw [hsent]; exact hA.head.spec sA hrA (hturns h).1
        · exact hmem.pre (hturns h).2 i (by omega)
      · intro h i hi he
        by_cases hik : i = k
        · subst hik
          rw [hsent]
          exact hA.doneT sA hrA (hturns h).1 (toSrc_ended.1 (hph ▸ he))
        · exact hmem.full (hturns h).2 i (by omega) he
      · intro h i hi hl
        by_cases hik : i = k
        · subst hik
          have hkA := (matchP_top hm h).1
          have := hA.head.served sA hrA hkA (toSrc_live.1 (hph ▸ hl))
          rw [← lastPullSrc_srcEq, hifc, ← lastPull_dualJ]
          exact this
        · exact hmem.served (matchP_top hm h).2 i (by omega) hl
      · intro i hi e he
        by_cases hik : i = k
        · subst hik
          have : SrcEv.down i (Down.err e) ∈ srcEq i (srcEvs sC.tr) := by simp [srcEq, srcIdx, he]
          rw [hifc] at this
          exact hA.noErr sA hrA ⟨0, e, mem_dualJ_down this⟩
        · exact hmem.noErr i (by omega) e he

end Partial


/-! ## all slots plugged: a closed head of the concatenation -/
section Head
open ComposeFull

theorem PartC.head {St Loc : Type} {M : Machine St Loc Int Int} {n : Nat} (hn : 0 < n) {ys : Nat → List Int} (hM : PartC n n ys M) :
    HeadOkT M (catN ys n) ∧ NoUpstream M := by
  have NQ : NoUpstream M := hM.slots.noUpstream (fun i h => by omega)
  -- the data equation at an environment turn
  have data : ∀ s, SReach M s → EnvTurn s → ∃ sC : CSys, SReach (Concat.machine Int n) sC ∧ sC.panicked = none ∧ View n s sC ∧
      Mem n ys s sC ∧ recvData 0 s.tr <+: catN ys n ∧ (s.g.ph.sinkPh 0 = .doneBySrc → recvData 0 s.tr = catN ys n) := by
    intro s hs ht
    obtain ⟨sC, hrC, hpC, hv, hmem⟩ := hM.proj s hs
    have htC := hv.turn ht
    have hkd := KD_reach n hn sC hrC hpC
    have hk1 := K1_reach n hn sC hrC hpC
    have hd := hkd.d
    obtain ⟨cc, hcc⟩ := Option.isSome_iff_exists.1 htC.2
    rw [pend_turn (turn_all_waits _ hrC hcc), List.append_nil] at hd
    have hrecv : recvData 0 s.tr = catN (fun j => sentData j sC.tr) n := by
      rw [recvData_eq, hv.sink, ← recvData_eq, hd]
    refine ⟨sC, hrC, hpC, hv, hmem, ?_, ?_⟩
    · rw [hrecv]
      exact catN_prefix (i0 := sC.st.i) (fun j h1 h2 => hmem.full ht j h2 (hk1.s1 j h1)) (fun h => hmem.pre ht _ h)
        (fun j h1 _ => hkd.z j (hk1.s2 j h1))
    · intro hdone
      have hdC : sC.g.ph.sinkPh 0 = .doneBySrc := by rw [← hv.sinkPh 0]; exact hdone
      rcases (K2_reach n hn sC hrC hpC).tout hdC with hi | ⟨i, e, hlt, hi⟩
      · rw [hrecv]
        exact catN_congr (fun j hj => hmem.full ht j hj (hk1.s1 j (by omega)))
      · exact absurd hi (hmem.noErr i hlt e)
  refine ⟨⟨⟨hM.up, ?_, ?_, ?_⟩, ?_, ?_⟩, NQ⟩
  · intro s hs ht
    obtain ⟨sC, _, _, _, _, h1, _⟩ := data s hs ht
    exact h1
  · intro s hs hstk hd
    have ht : EnvTurn s := ⟨(hM.up.safe s hs).2, by simp [hstk, ctxOf]⟩
    obtain ⟨sC, _, _, _, _, _, h2⟩ := data s hs ht
    exact h2 hd
  · -- served (top level)
    intro s hs hstk hl
    obtain ⟨sC, hrC, hpC, hv, hmem⟩ := hM.proj s hs
    have hkC := hv.top hstk
    cases hap : aP s.tr with
    | false => rfl
    | true =>
      exfalso
      have hapC : aP sC.tr = true := by simpa [aP, hv.sink] using hap
      have hlC : sC.g.ph.sinkPh 0 = .live := by rw [← hv.sinkPh 0]; exact hl
      have hrC' : SReach (Concat.machine Int n) ⟨sC.st, [], sC.g, sC.tr, none⟩ := by
        have := hrC; rw [← hkC, ← hpC]; exact this
      obtain ⟨_, hm⟩ := cinv (c := Ctx.top) n hn hrC' rfl
      obtain ⟨_, hcur, hlt⟩ := sinkLive_cur hm hlC (fun j l r h => by cases h)
      have hk3 := (K3_reach n hn sC hrC hpC).dq
      rw [hkC] at hk3
      have hq : lastPullSrc sC.st.i (srcEvs sC.tr) = true := hk3 hapC
      rw [hmem.served hstk _ hlt hcur] at hq
      cases hq
  · intro s hs ht hd
    obtain ⟨sC, _, _, _, _, _, h2⟩ := data s hs ht
    exact h2 hd
  · intro s hs ⟨k, e, hk'⟩
    obtain ⟨sC, hrC, hpC, hv, hmem⟩ := hM.proj s hs
    rw [hv.sink] at hk'
    obtain ⟨i, e', hlt, hi⟩ := (K2_reach n hn sC hrC hpC).ei ⟨k, e, hk'⟩
    exact hmem.noErr i hlt e' hi

end Head

/-! ## the term the driver builds: `Closed.concatM` -/
section Driver
open Closed ComposeFull

theorem fold_partC (n : Nat) (ys : Nat → List Int) :
    ∀ (l : List AnyM) (k : Nat) (acc : AnyM), PartC n k ys acc.M →
      (∀ i (h : i < l.length), HeadOkT l[i].M (ys (k + i)) ∧ NoUpstream l[i].M) →
      PartC n (k + l.length) ys ((l.zipIdx k).foldl (fun acc (p : AnyM × Nat) => plugM p.2 p.1 acc) acc).M := by
  intro l
  induction l with
  | nil => intro k acc h _; exact h
  | cons A t ih =>
    intro k acc h hl
    simp only [List.zipIdx_cons, List.foldl_cons, List.length_cons]
    have hA := hl 0 (by simp)
    simp only [List.getElem_cons_zero, Nat.add_zero] at hA
    have := ih (k + 1) (plugM k A acc) (h.plug hA.1 hA.2) (fun i hi => by
      have := hl (i + 1) (by simp; omega)
      simpa [Nat.add_assoc, Nat.add_comm 1 i] using this)
    rw [show k + (t.length + 1) = k + 1 + t.length by omega]
    exact this

/-- **n-ary `concat!`, the term the driver builds**: `concatM [A₀, …, Aₙ₋₁]` of closed heads of `ys 0, …, ys (n-1)` is a closed head of
`ys 0 ++ … ++ ys (n-1)` -/
theorem concatN_headOkT (As : List AnyM) (hne : 0 < As.length) (ys : Nat → List Int)
    (h : ∀ i (hi : i < As.length), HeadOkT As[i].M (ys i) ∧ NoUpstream As[i].M) :
    HeadOkT (concatM As).M (catN ys As.length) ∧ NoUpstream (concatM As).M := by
  have hb := PartC.base As.length hne ys
  have := fold_partC As.length ys As 0
    { St := Concat.St, Loc := Concat.Loc Int, M := Concat.machine Int As.length, nexts := fun _ => 0 } hb
    (fun i hi => by simpa using h i hi)
  simp only [Nat.zero_add] at this
  exact PartC.head hne this

/-- the expected outputs as a list of lists -/
theorem catN_getD (yss : List (List Int)) : catN (fun i => yss.getD i []) yss.length = yss.flatten := by
  have key : ∀ m, m ≤ yss.length → catN (fun i => yss.getD i []) m = (yss.take m).flatten := by
    intro m
    induction m with
    | zero => intro _; simp [catN]
    | succ m ih =>
      intro hm
      have hlt : m < yss.length := by omega
      simp only [catN]
      rw [ih (by omega), List.take_add_one, List.getElem?_eq_getElem hlt, List.flatten_append]
      simp [List.getD_eq_getElem?_getD, List.getElem?_eq_getElem hlt]
  rw [key _ (Nat.le_refl _), List.take_length]

/-- … with the expected outputs given as a list -/
theorem concatN_headOkT' (As : List AnyM) (hne : 0 < As.length) (yss : List (List Int)) (hlen : yss.length = As.length)
    (h : ∀ i (hi : i < As.length), HeadOkT As[i].M (yss.getD i []) ∧ NoUpstream As[i].M) :
    HeadOkT (concatM As).M yss.flatten ∧ NoUpstream (concatM As).M := by
  rw [← catN_getD, hlen]
  exact concatN_headOkT As hne _ h

/-- closed with `for_each(f)`: the machine the driver builds for `pipe!(concat!(A₀, …, Aₙ₋₁), for_each(f))` -/
theorem concatN_correct (As : List AnyM) (hne : 0 < As.length) (ys : Nat → List Int)
    (h : ∀ i (hi : i < As.length), HeadOkT As[i].M (ys i) ∧ NoUpstream As[i].M) :
    ∀ s, SReach (thenM (concatM As) forEachM).M s →
      BasicSafe s ∧ applied s.tr <+: catN ys As.length ∧ (s.stack = [] → s.tr ≠ [] → applied s.tr = catN ys As.length) :=
  head_forEach_correct (concatN_headOkT As hne ys h).1.head

theorem concatN_safe (As : List AnyM) (hne : 0 < As.length) (ys : Nat → List Int)
    (h : ∀ i (hi : i < As.length), HeadOkT As[i].M (ys i) ∧ NoUpstream As[i].M) :
    ∀ s, SReach (thenM (concatM As) forEachM).M s → Safe s ∧ SafeFor 4 s ∧ SafeFor 5 s :=
  closed_pipeline_full₀ (concatN_headOkT As hne ys h).1.head.up

end Driver

end ConcatN
end Cb

#print axioms Cb.ConcatN.KD_reach
#print axioms Cb.ConcatN.PartC.plug
#print axioms Cb.ConcatN.PartC.head
#print axioms Cb.ConcatN.concatN_headOkT
#print axioms Cb.ConcatN.concatN_headOkT'
#print axioms Cb.ConcatN.concatN_correct
#print axioms Cb.ConcatN.concatN_safe
