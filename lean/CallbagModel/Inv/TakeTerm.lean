import CallbagModel.Inv.ComposeTerm
import CallbagModel.Inv.ComposeFull
/-!
# Termination over an UNBOUNDED iterator: `take` stops the pipeline

`pipe!(from_iter(it), stages₁…, take(n), stages₂…, for_each(f))` for an ARBITRARY iterator `next : ι → Option (α × ι)` (possibly infinite),
the stages above `take` non-dropping (`map`, `scan`): potentials as in `Inv/ComposeTerm.lean`, with a different accounting:

* `FromIterI.pot` — LENGTH-FREE: an iteration of `from_iter`'s loop is paid for by the `Pull` that set `got_pull`
  (`Ψ = I` while `got_pull`, `I = c.data + c.fin + 10`); consuming `got_pull` (`w2`) releases `I`, which pays `next` and the delivery.
  The price: the cost of a `Pull` now contains the cost of a delivery (`I + 10`), so a stage that may answer a delivery with a
  `Pull` (`filter`, `skip`, `for_each`) directly below it would be circular — and `filter(|_| false)` over an unbounded source does diverge;
* `Relay.potND` — a relay that never drops (`∀ s a, (k.xfer s a).2 ≠ none`): its data handler cannot re-pull, so the cost of a delivery to
  it does not contain the cost of a `Pull`;
* `TakeB.pot` — `take(max)` pays every delivery it lets through (and its own end-of-life handling) from its budget
  `Ψ = (max - taken) * R`: the cost of a delivery INTO `take` is the constant 4, whatever is below.  That breaks the circle:
  `HeadPotI.take : HeadPotI M → HeadPot (compose M (Take.machine β max))`, after which the `Pull` cost depends on the terminal cost only
  and everything of `Inv/ComposeTerm.lean` (further stages of any kind, `for_each`) applies unchanged.
-/
namespace Cb
namespace ComposeTerm
open ComposeSafe

/-! ## the three potentials -/
section Pots

/-- **`from_iter`, any iterator**: the loop is paid for by `got_pull` -/
def FromIterI.pot {ι α : Type} (α' : Type) (next : ι → Option (α × ι)) (it0 : ι) (c : Costs) :
    Pot (FromIter.machine α' next it0) (c.of (β := α)) where
  good _ := True
  good_tau _ _ _ _ _ _ := trivial
  good_call _ _ _ _ _ _ _ := trivial
  Ψ st := if st.gotPull then c.data + c.fin + 10 else 0
  ρ st l := match l with
    | .done => 0
    | .sub0 => c.greet + 2
    | .t0 .pull => c.data + c.fin + 19
    | .t0 _ => 2
    | .t1 .pull => c.data + c.fin + 18
    | .t1 _ => 1
    | .pl1 => 7
    | .pl2 => 6
    | .l0 => 5
    | .w0 => if st.gotPull then 4 else 2
    | .w1 => if st.gotPull then 3 else c.data + c.fin + 15
    | .w2 => if st.gotPull then 2 else c.data + c.fin + 14
    | .w3 => c.data + c.fin + 11
    | .w4 => if st.resDone then c.fin + 3 else c.data + c.fin + 10
    | .lend => 1
  ω l := match l with
    | .done => 1
    | .sub0 => c.greet + 3
    | .t0 .pull => c.data + c.fin + 20
    | .t0 _ => 3
    | .t1 .pull => c.data + c.fin + 19
    | .t1 _ => 2
    | .pl1 => 8
    | .pl2 => 7
    | .l0 => 6
    | .w0 => 5
    | .w1 => c.data + c.fin + 16
    | .w2 => c.data + c.fin + 15
    | .w3 => c.data + c.fin + 12
    | .w4 => c.data + c.fin + 11
    | .lend => 2
  le st l := by
    cases l with
    | t0 u => cases u <;> simp
    | t1 u => cases u <;> simp
    | w0 => simp only; split <;> omega
    | w1 => simp only; split <;> omega
    | w2 => simp only; split <;> omega
    | w4 => simp only; split <;> omega
    | _ => simp
  tau st l s' l' h _ := by
    cases l with
    | done => simp [FromIter.machine, FromIter.step] at h
    | sub0 => simp [FromIter.machine, FromIter.step] at h
    | t0 u =>
      simp only [FromIter.machine, FromIter.step] at h
      split at h
      · simp at h
      · simp only [Act.tau.injEq] at h; obtain ⟨rfl, rfl⟩ := h
        cases u <;> simp
    | t1 u =>
      cases u <;> simp only [FromIter.machine, FromIter.step, Act.tau.injEq] at h <;> obtain ⟨rfl, rfl⟩ := h
      · simp only [if_true]; split <;> omega
      · simp
      · simp
    | pl1 =>
      simp only [FromIter.machine, FromIter.step] at h
      split at h
      · simp only [Act.tau.injEq] at h; obtain ⟨rfl, rfl⟩ := h; simp
      · simp at h
    | pl2 =>
      simp only [FromIter.machine, FromIter.step] at h
      split at h
      · simp only [Act.tau.injEq] at h; obtain ⟨rfl, rfl⟩ := h; simp
      · simp at h
    | l0 =>
      simp only [FromIter.machine, FromIter.step, Act.tau.injEq] at h; obtain ⟨rfl, rfl⟩ := h
      simp only; split <;> omega
    | w0 =>
      simp only [FromIter.machine, FromIter.step] at h
      split at h <;> (rename_i hg; simp only [Act.tau.injEq] at h; obtain ⟨rfl, rfl⟩ := h; simp [hg])
    | w1 =>
      simp only [FromIter.machine, FromIter.step] at h
      split at h <;> (simp only [Act.tau.injEq] at h; obtain ⟨rfl, rfl⟩ := h; simp only; split <;> omega)
    | w2 =>
      simp only [FromIter.machine, FromIter.step, Act.tau.injEq] at h; obtain ⟨rfl, rfl⟩ := h
      simp only [Bool.false_eq_true, if_false]; split <;> omega
    | w3 =>
      simp only [FromIter.machine, FromIter.step] at h
      split at h
      · simp only [Act.tau.injEq] at h; obtain ⟨rfl, rfl⟩ := h
        simp only [Bool.false_eq_true, if_false]; omega
      · simp only [Act.tau.injEq] at h; obtain ⟨rfl, rfl⟩ := h
        simp only [if_true]; omega
    | w4 =>
      simp only [FromIter.machine, FromIter.step] at h
      split at h
      · simp at h
      · split at h <;> simp at h
    | lend => simp only [FromIter.machine, FromIter.step, Act.tau.injEq] at h; obtain ⟨rfl, rfl⟩ := h; simp
  call st l o s' l' h _ := by
    cases l with
    | sub0 => simp only [FromIter.machine, FromIter.step, Act.call.injEq] at h; obtain ⟨rfl, rfl, rfl⟩ := h; simp [Costs.of]; omega
    | w4 =>
      simp only [FromIter.machine, FromIter.step] at h
      split at h
      · rename_i hr
        simp only [Act.call.injEq] at h; obtain ⟨rfl, rfl, rfl⟩ := h
        simp [Costs.of, hr]; omega
      · rename_i hr
        split at h
        · simp only [Act.call.injEq] at h; obtain ⟨rfl, rfl, rfl⟩ := h
          simp [Costs.of, hr]; omega
        · simp at h
    | done => simp [FromIter.machine, FromIter.step] at h
    | t0 u => simp only [FromIter.machine, FromIter.step] at h; split at h <;> simp at h
    | t1 u => cases u <;> simp [FromIter.machine, FromIter.step] at h
    | pl1 => simp only [FromIter.machine, FromIter.step] at h; split at h <;> simp at h
    | pl2 => simp only [FromIter.machine, FromIter.step] at h; split at h <;> simp at h
    | l0 => simp [FromIter.machine, FromIter.step] at h
    | w0 => simp only [FromIter.machine, FromIter.step] at h; split at h <;> simp at h
    | w1 => simp only [FromIter.machine, FromIter.step] at h; split at h <;> simp at h
    | w2 => simp [FromIter.machine, FromIter.step] at h
    | w3 => simp only [FromIter.machine, FromIter.step] at h; split at h <;> simp at h
    | lend => simp [FromIter.machine, FromIter.step] at h

theorem FromIterI.pot_upLe {ι α : Type} (α' : Type) (next : ι → Option (α × ι)) (it0 : ι) (c : Costs) :
    (FromIterI.pot α' next it0 c).UpLe (c.greet + 3) (c.data + c.fin + 20) 3 := by
  refine ⟨?_, ?_, ?_, ?_⟩ <;> (try intro x) <;> simp [FromIterI.pot, FromIter.machine, FromIter.enter]


/-- **a relay that never drops** (`map`, `scan`): the data handler cannot re-pull -/
def Relay.potND {σ α β : Type} (k : Relay.Kind σ α β) (hk : ∀ s a, (k.xfer s a).2 ≠ none) (c : Costs) :
    Pot (Relay.machine k) (c.of (β := β)) where
  good _ := True
  good_tau _ _ _ _ _ _ := trivial
  good_call _ _ _ _ _ _ _ := trivial
  Ψ _ := 0
  ρ _ l := match l with
    | .sub0 => c.sub + 2
    | .done => 0
    | .g0 => c.greet + 3
    | .g1 => c.greet + 2
    | .d0 _ => c.data + 3
    | .emit _ => c.data + 2
    | .repull => c.pull + 2
    | .fwd d => c.of (Out.down 0 d : Out β) + 2
    | .u0 u => c.of (Out.srcUp 0 u : Out β) + 2
  ω l := match l with
    | .sub0 => c.sub + 3
    | .done => 1
    | .g0 => c.greet + 4
    | .g1 => c.greet + 3
    | .d0 _ => c.data + 4
    | .emit _ => c.data + 3
    | .repull => c.pull + 3
    | .fwd d => c.of (Out.down 0 d : Out β) + 3
    | .u0 u => c.of (Out.srcUp 0 u : Out β) + 3
  le st l := by cases l <;> simp
  tau st l s' l' h _ := by
    cases l <;> simp only [Relay.machine, Relay.step] at h
    case sub0 => simp at h
    case done => simp at h
    case g0 => split at h <;> (simp only [Act.tau.injEq] at h; obtain ⟨rfl, rfl⟩ := h; simp)
    case g1 => simp at h
    case d0 a =>
      split at h
      · simp only [Act.tau.injEq] at h; obtain ⟨rfl, rfl⟩ := h; simp
      · rename_i hn; exact absurd hn (hk _ _)
    case emit b => simp at h
    case repull => split at h <;> simp at h
    case fwd d => simp at h
    case u0 u => split at h <;> simp at h
  call st l o s' l' h _ := by
    cases l <;> simp only [Relay.machine, Relay.step] at h
    case sub0 => simp only [Act.call.injEq] at h; obtain ⟨rfl, rfl, rfl⟩ := h; simp [Costs.of]; omega
    case done => simp at h
    case g0 => split at h <;> simp at h
    case g1 => simp only [Act.call.injEq] at h; obtain ⟨rfl, rfl, rfl⟩ := h; simp [Costs.of]; omega
    case d0 a => split at h <;> simp at h
    case emit b => simp only [Act.call.injEq] at h; obtain ⟨rfl, rfl, rfl⟩ := h; simp [Costs.of]; omega
    case repull =>
      split at h
      · simp only [Act.call.injEq] at h; obtain ⟨rfl, rfl, rfl⟩ := h; simp [Costs.of]; omega
      · simp at h
    case fwd d => simp only [Act.call.injEq] at h; obtain ⟨rfl, rfl, rfl⟩ := h; simp; omega
    case u0 u =>
      split at h
      · simp at h
      · simp only [Act.call.injEq] at h; obtain ⟨rfl, rfl, rfl⟩ := h; simp; omega

theorem Relay.potND_upLe {σ α β : Type} (k : Relay.Kind σ α β) (hk : ∀ s a, (k.xfer s a).2 ≠ none) (c : Costs) :
    (Relay.potND k hk c).UpLe (c.sub + 3) (c.pull + 3) (c.ufin + 3) := by
  refine ⟨?_, ?_, ?_, ?_⟩ <;> (try intro x) <;> simp [Relay.potND, Relay.machine, Relay.enter, Costs.of]

theorem Relay.potND_downLe {σ α β : Type} (k : Relay.Kind σ α β) (hk : ∀ s a, (k.xfer s a).2 ≠ none) (c : Costs) :
    (Relay.potND k hk c).DownLe (c.greet + 4) (c.data + 4) (c.fin + 3) := by
  refine ⟨?_, ?_, ?_, ?_⟩ <;> (try intro x) <;> simp [Relay.potND, Relay.machine, Relay.enter, Costs.of]

/-- **`take(max)` with a budget**: every delivery it lets through, and its own end-of-life handling, are paid for by
`Ψ = (max - taken) * (c.fin + c.ufin + c.data + 12)`; a delivery INTO it costs 4 -/
def TakeB.pot (α : Type) (max : Nat) (c : Costs) : Pot (Take.machine α max) (c.of (β := α)) where
  good _ := True
  good_tau _ _ _ _ _ _ := trivial
  good_call _ _ _ _ _ _ _ := trivial
  Ψ st := (c.fin + c.ufin + c.data + 12) * (max - st.taken)
  ρ _ l := match l with
    | .sub0 => c.sub + 2
    | .done => 0
    | .greet0 => c.greet + 3
    | .greet1 => c.greet + 2
    | .d0 _ => 3
    | .d1 _ => c.fin + c.ufin + c.data + 10
    | .d2 _ _ => c.fin + c.ufin + c.data + 9
    | .d3 _ => c.fin + c.ufin + 7
    | .d3b => c.fin + c.ufin + 6
    | .d4 => c.fin + c.ufin + 5
    | .d5 => c.fin + c.ufin + 4
    | .d6 => c.fin + 2
    | .fwd d => c.of (Out.down 0 d : Out α) + 2
    | .p0 => c.pull + 3
    | .p1 => c.pull + 2
    | .x0 u => c.of (Out.srcUp 0 u : Out α) + 3
    | .x1 u => c.of (Out.srcUp 0 u : Out α) + 2
  ω l := match l with
    | .sub0 => c.sub + 3
    | .done => 1
    | .greet0 => c.greet + 4
    | .greet1 => c.greet + 3
    | .d0 _ => 4
    | .d1 _ => c.fin + c.ufin + c.data + 11
    | .d2 _ _ => c.fin + c.ufin + c.data + 10
    | .d3 _ => c.fin + c.ufin + 8
    | .d3b => c.fin + c.ufin + 7
    | .d4 => c.fin + c.ufin + 6
    | .d5 => c.fin + c.ufin + 5
    | .d6 => c.fin + 3
    | .fwd d => c.of (Out.down 0 d : Out α) + 3
    | .p0 => c.pull + 4
    | .p1 => c.pull + 3
    | .x0 u => c.of (Out.srcUp 0 u : Out α) + 4
    | .x1 u => c.of (Out.srcUp 0 u : Out α) + 3
  le st l := by cases l <;> simp
  tau st l s' l' h _ := by
    have hmono : ∀ t, (c.fin + c.ufin + c.data + 12) * (max - (t + 1)) ≤ (c.fin + c.ufin + c.data + 12) * (max - t) :=
      fun t => Nat.mul_le_mul_left _ (by omega)
    cases l <;> simp only [Take.machine, Take.step] at h
    case sub0 => simp at h
    case done => simp at h
    case greet0 => simp only [Act.tau.injEq] at h; obtain ⟨rfl, rfl⟩ := h; simp
    case greet1 => simp at h
    case d0 a =>
      split at h
      · rename_i hlt
        simp only [Act.tau.injEq] at h; obtain ⟨rfl, rfl⟩ := h
        have : max - st.taken = (max - (st.taken + 1)) + 1 := by omega
        simp only
        rw [this, Nat.mul_succ]; omega
      · simp at h
    case d1 a =>
      simp only [Act.tau.injEq] at h; obtain ⟨rfl, rfl⟩ := h
      have := hmono st.taken
      simp only; omega
    case d2 a t => simp at h
    case d3 t =>
      split at h
      · simp only [Act.tau.injEq] at h; obtain ⟨rfl, rfl⟩ := h; simp
      · simp at h
    case d3b =>
      split at h
      · simp at h
      · simp only [Act.tau.injEq] at h; obtain ⟨rfl, rfl⟩ := h; simp
    case d4 => simp only [Act.tau.injEq] at h; obtain ⟨rfl, rfl⟩ := h; simp
    case d5 => split at h <;> simp at h
    case d6 => simp at h
    case fwd d => simp at h
    case p0 =>
      split at h
      · simp only [Act.tau.injEq] at h; obtain ⟨rfl, rfl⟩ := h; simp
      · simp at h
    case p1 => split at h <;> simp at h
    case x0 u => simp only [Act.tau.injEq] at h; obtain ⟨rfl, rfl⟩ := h; simp
    case x1 u => split at h <;> simp at h
  call st l o s' l' h _ := by
    cases l <;> simp only [Take.machine, Take.step] at h
    case sub0 => simp only [Act.call.injEq] at h; obtain ⟨rfl, rfl, rfl⟩ := h; simp [Costs.of]; omega
    case done => simp at h
    case greet0 => simp at h
    case greet1 => simp only [Act.call.injEq] at h; obtain ⟨rfl, rfl, rfl⟩ := h; simp [Costs.of]; omega
    case d0 a => split at h <;> simp at h
    case d1 a => simp at h
    case d2 a t => simp only [Act.call.injEq] at h; obtain ⟨rfl, rfl, rfl⟩ := h; simp [Costs.of]; omega
    case d3 t => split at h <;> simp at h
    case d3b => split at h <;> simp at h
    case d4 => simp at h
    case d5 =>
      split at h
      · simp only [Act.call.injEq] at h; obtain ⟨rfl, rfl, rfl⟩ := h; simp [Costs.of]; omega
      · simp at h
    case d6 => simp only [Act.call.injEq] at h; obtain ⟨rfl, rfl, rfl⟩ := h; simp [Costs.of]; omega
    case fwd d => simp only [Act.call.injEq] at h; obtain ⟨rfl, rfl, rfl⟩ := h; simp; omega
    case p0 => split at h <;> simp at h
    case p1 =>
      split at h
      · simp only [Act.call.injEq] at h; obtain ⟨rfl, rfl, rfl⟩ := h; simp [Costs.of]; omega
      · simp at h
    case x0 u => simp at h
    case x1 u =>
      split at h
      · simp only [Act.call.injEq] at h; obtain ⟨rfl, rfl, rfl⟩ := h; simp; omega
      · simp at h

theorem TakeB.pot_upLe (α : Type) (max : Nat) (c : Costs) : (TakeB.pot α max c).UpLe (c.sub + 3) (c.pull + 4) (c.ufin + 4) := by
  refine ⟨?_, ?_, ?_, ?_⟩ <;> (try intro x) <;> simp [TakeB.pot, Take.machine, Take.enter, Costs.of]

theorem TakeB.pot_downLe (α : Type) (max : Nat) (c : Costs) : (TakeB.pot α max c).DownLe (c.greet + 4) 4 (c.fin + 3) := by
  refine ⟨?_, ?_, ?_, ?_⟩ <;> (try intro x) <;> simp [TakeB.pot, Take.machine, Take.enter, Costs.of]

end Pots


/-! ## heads over an arbitrary iterator -/
section HeadsI
variable {St Loc α β : Type}

/-- a closed head whose `Pull` cost depends on the cost of a delivery to its sink (`fp d f`): `from_iter` over any iterator, followed by
non-dropping relays -/
def HeadPotI (M : Machine St Loc α β) : Prop :=
  ∃ (fs : Nat → Nat → Nat) (fp : Nat → Nat → Nat) (fu : Nat), ∀ g d f : Nat,
    ∃ P : Pot M ((⟨0, 0, 0, g, d, f, 0⟩ : Costs).of (β := β)), P.good M.init ∧ P.UpLe (fs g f) (fp d f) fu

theorem HeadPotI.fromIter {ι α : Type} (α' : Type) (next : ι → Option (α × ι)) (it0 : ι) :
    HeadPotI (FromIter.machine α' next it0) :=
  ⟨fun g _ => g + 3, fun d f => d + f + 20, 3, fun g d f => ⟨FromIterI.pot α' next it0 ⟨0, 0, 0, g, d, f, 0⟩, trivial,
    FromIterI.pot_upLe α' next it0 ⟨0, 0, 0, g, d, f, 0⟩⟩⟩

theorem HeadPotI.relayND {σ γ : Type} {M : Machine St Loc α β} (h : HeadPotI M) (k : Relay.Kind σ β γ)
    (hk : ∀ s a, (k.xfer s a).2 ≠ none) : HeadPotI (Cb.compose M (Relay.machine k)) := by
  obtain ⟨fs, fp, fu, h⟩ := h
  refine ⟨fun g f => fs (g + 4) (f + 3) + 3, fun d f => fp (d + 4) (f + 3) + 3, fu + 3, fun g d f => ?_⟩
  obtain ⟨PA, hgA, hA⟩ := h (g + 4) (d + 4) (f + 3)
  exact ⟨PA.compose (Relay.potND k hk ⟨fs (g + 4) (f + 3), fp (d + 4) (f + 3), fu, g, d, f, 0⟩) (Relay.potND_downLe k hk _) hA,
    ⟨hgA, trivial⟩, Pot.compose_upLe _ _ _ _ (Relay.potND_upLe k hk _)⟩

/-- **`take` breaks the circle**: below it the cost of a `Pull` no longer depends on the cost of a delivery -/
theorem HeadPotI.take {M : Machine St Loc α β} (h : HeadPotI M) (max : Nat) : HeadPot (Cb.compose M (Take.machine β max)) := by
  obtain ⟨fs, fp, fu, h⟩ := h
  refine ⟨fun g f => fs (g + 4) (f + 3) + 3, fun f => fp 4 (f + 3) + 4, fu + 4, fun g d f => ?_⟩
  obtain ⟨PA, hgA, hA⟩ := h (g + 4) 4 (f + 3)
  exact ⟨PA.compose (TakeB.pot β max ⟨fs (g + 4) (f + 3), fp 4 (f + 3), fu, g, d, f, 0⟩) (TakeB.pot_downLe β max _) hA,
    ⟨hgA, trivial⟩, Pot.compose_upLe _ _ _ _ (TakeB.pot_upLe β max _)⟩

/-- a head-capable closed source with a potential, closed with `for_each`: progress and return — no functional hypothesis -/
theorem upSide_forEach_term {M : Machine St Loc α β} (U : UpSide M) (hn : ComposeFull.NoUpstream M) (hp : HeadPot M) :
    (∀ s, SReach (Cb.compose M (ForEach.machine β)) s → ∃ n, EnvTurn (advance (Cb.compose M (ForEach.machine β)) n s)) ∧
    (∀ s, SReach (Cb.compose M (ForEach.machine β)) s → ∃ t, SReach (Cb.compose M (ForEach.machine β)) t ∧ t.stack = [] ∧
      (s.tr ≠ [] → t.tr ≠ []) ∧ Drain (Cb.compose M (ForEach.machine β)) s t) := by
  obtain ⟨P, hg⟩ := hp.closed
  have hsafe := compose_safe_of_roles U ForEach.downSide
  have hno := ComposeFull.NoUpstream.compose hn (hyp_of_roles U ForEach.downSide)
  refine ⟨progress_of_pot P hg hsafe, fun s hs => ?_⟩
  obtain ⟨t, h1, h2, h3, _, h5⟩ := returns_of_pot P hg hsafe hno s hs
  exact ⟨t, h2, h3, h5, h1⟩

end HeadsI

end ComposeTerm
end Cb

#print axioms Cb.ComposeTerm.FromIterI.pot
#print axioms Cb.ComposeTerm.TakeB.pot
#print axioms Cb.ComposeTerm.HeadPotI.take
#print axioms Cb.ComposeTerm.upSide_forEach_term
