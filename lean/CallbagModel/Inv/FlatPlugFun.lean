import CallbagModel.Inv.FlatPlugTr
/-!
# What `flatten(map(g)(outer))` computes: `flat_headOkT`

For a closed head `Mo` of `ys` that delivers data only when pulled (`PullOnly`, `Inv/PullOnly.lean`) and closed heads
`atInit Mi (initOf a)` of `g a`, the network `flatPlug Mo Mi initOf` is a closed head of `ys.flatMap g`, in the strengthened sense `HeadOkT`
of `Inv/PlugConcat.lean` (so that it composes with stages, with `concat!`, and is closed by `for_each`).

The proof combines the projection with traces (`Inv/FlatPlugTr.lean`) with the small-step invariants of flatten under the assumption
`Cnd` (`Inv/FlattenK.lean`); `Cnd` holds of flatten's trace because the outer source is `PullOnly` and no component delivers an `Error`.

Is the result `PullOnly` again?  NOT in general: flatten pulls a new inner source as soon as it greets, and re-pulls the outer source
as soon as an inner source ends.  Take `outer = from_iter([1,2])`, `g a = take(1)(from_iter([a, a+1]))`, and a lazy sink (one `Pull`
at a time, from top level): the sink pulls; flatten pulls the outer, gets `1`, subscribes inner 1, pulls it, forwards `1` — the sink's
`Pull` is served, the sink returns without pulling; `take(1)` now ends inner 1 unsolicited; flatten re-pulls the outer (`it2`), which
delivers `2` from its loop; flatten subscribes inner 2, pulls it and forwards `2`: a datum that answers no `Pull` of the sink.
(The data are still `[1, 2] = [1,2].flatMap g`; only `PullOnly` fails.)  It would hold if the inner sources ended only when pulled
(`from_iter` does); this is not proved here, so `flatRep` over `flatRep` is outside `Prog2.ok` (`Closed/Prog2Def.lean`).
-/
namespace Cb
namespace FlatPlugFun
open ComposeSafe ComposeFun ComposeComplete PlugSafe PlugConcat FlatPlugSafe ComposeFull

/-! ### lists -/
section Lists

theorem flatMap_take_succ (as : List Int) (g : Int → List Int) (n : Nat) (hlt : n < as.length) :
    (as.take (n + 1)).flatMap g = (as.take n).flatMap g ++ g as[n] := by
  rw [List.take_add_one, List.getElem?_eq_getElem hlt, List.flatMap_append]
  simp only [Option.toList, List.flatMap_cons, List.flatMap_nil, List.append_nil]

theorem catTo_take (as : List Int) (R : Nat → List Int) (g : Int → List Int) :
    ∀ n, n ≤ as.length → (∀ j a, j < n → as[j]? = some a → R (j + 1) = g a) → FK.catTo R n = (as.take n).flatMap g := by
  intro n
  induction n with
  | zero => intro _ _; simp [FK.catTo]
  | succ n ih =>
    intro hn h
    have hlt : n < as.length := by omega
    simp only [FK.catTo]
    rw [ih (by omega) (fun j a hj => h j a (by omega)), h n as[n] (by omega) (List.getElem?_eq_getElem hlt),
      flatMap_take_succ as g n hlt]

theorem catTo_prefix (as : List Int) (R : Nat → List Int) (g : Int → List Int) (m : Nat) (hm : m = as.length)
    (hpre : ∀ j a, as[j]? = some a → R (j + 1) <+: g a)
    (hfull : ∀ j a, j + 1 < m → as[j]? = some a → R (j + 1) = g a) : FK.catTo R m <+: as.flatMap g := by
  cases m with
  | zero => simp [FK.catTo]
  | succ m =>
    have hlt : m < as.length := by omega
    simp only [FK.catTo]
    rw [catTo_take as R g m (by omega) (fun j a hj => hfull j a (by omega))]
    have has : as.flatMap g = (as.take m).flatMap g ++ g as[m] := by
      rw [← flatMap_take_succ as g m hlt, List.take_of_length_le (by omega)]
    rw [has]
    exact (List.prefix_append_right_inj _).2 (hpre m as[m] (List.getElem?_eq_getElem hlt))

theorem flatMap_prefix {as ys : List Int} (g : Int → List Int) (h : as <+: ys) : as.flatMap g <+: ys.flatMap g := by
  obtain ⟨t, rfl⟩ := h
  rw [List.flatMap_append]
  exact List.prefix_append _ _

end Lists

section Main
variable {So Lo Si Li αo αi : Type} {Mo : Machine So Lo αo Int} {Mi : Machine Si Li αi Int} {initOf : Int → Si}

/-- everything the projection gives, for a reachable configuration `s` of the network -/
structure ProjF (Mo : Machine So Lo αo Int) (Mi : Machine Si Li αi Int) (initOf : Int → Si)
    (s : NSys So Lo Si Li) (sO : Sys So Lo αo Int) (sF : FSys) (fam : Fam Si Li αi) : Prop where
  rO : SReach Mo sO
  rF : SReach (Flatten.machine Int) sF
  m : MatchF Mi initOf s sO sF fam
  t : TrF s.st.pending s.tr sO.tr sF.tr fam
  c : FK.Cnd sF.tr

theorem projF (H : HypF Mo Mi initOf) (PO : PullOnly Mo) (NEO : NoErr Mo) (NEI : ∀ a, NoErr (atInit Mi (initOf a))) :
    ∀ s, SReach (flatPlug Mo Mi initOf) s → ∃ sO sF fam, ProjF Mo Mi initOf s sO sF fam := by
  intro s hs
  obtain ⟨sO, sF, fam, hrO, hrF, hm, htr⟩ := flatPlug_inv_tr H s hs
  refine ⟨sO, sF, fam, hrO, hrF, hm, htr, ?_, ?_⟩
  · apply pOkSrc_of_srcEq
    rw [← htr.ifcO]
    exact pOkSrc_dualJ 0 _ (PO sO hrO)
  · rintro ⟨i, e, hi⟩
    cases i with
    | zero =>
      have : SrcEv.down 0 (Down.err e) ∈ srcEq 0 (srcEvs sF.tr) := by simp [srcEq, srcIdx, hi]
      rw [← htr.ifcO] at this
      exact NEO sO hrO ⟨0, e, mem_dualJ_down this⟩
    | succ j =>
      have : SrcEv.down (j + 1) (Down.err e) ∈ srcEq (j + 1) (srcEvs sF.tr) := by simp [srcEq, srcIdx, hi]
      rw [htr.ifcI j] at this
      cases hf : fam (j + 1) with
      | none => rw [hf] at this; cases this
      | some p =>
        obtain ⟨a, sI⟩ := p
        rw [hf] at this
        exact NEI a sI (hm.inner.rI _ a sI hf) ⟨0, e, mem_dualJ_down this⟩

theorem ctx_proj (j : Nat) {kI : List (Nat × Frame Li Int)} (h : ∀ p ∈ kI, ∃ o l, p.2 = Frame.wait o l ∧ Internal1 o) :
    (ctxOf (proj j kI)).isSome = true := by
  cases hp : proj j kI with
  | nil => simp [ctxOf]
  | cons f r =>
    have : f ∈ proj j kI := by rw [hp]; exact List.mem_cons_self
    simp only [proj, List.mem_map, List.mem_filter] at this
    obtain ⟨p, ⟨hp1, _⟩, rfl⟩ := this
    obtain ⟨o, l, he, _⟩ := h p hp1
    rw [he]; simp [ctxOf]

variable {s : NSys So Lo Si Li} {sO : Sys So Lo αo Int} {sF : FSys} {fam : Fam Si Li αi}

/-- at an environment turn of the network every component is at an environment turn -/
theorem ProjF.turn (h : ProjF Mo Mi initOf s sO sF fam) (ht : EnvTurn s) :
    EnvTurn sO ∧ EnvTurn sF ∧ ∀ j a sI, fam j = some (a, sI) → EnvTurn sI := by
  obtain ⟨topI, kI, hsm, hstk, _, _⟩ := h.m.stk
  have hpO := h.m.outer.pO
  have hpF := h.m.core.pF
  have hpI := h.m.inner.pI
  obtain ⟨st, stk, g, tr, p⟩ := s
  obtain ⟨stO, kO, gO, trO, pO⟩ := sO
  obtain ⟨stF, kF, gF, trF, pF⟩ := sF
  simp only at hsm hpO hpF hstk
  have hctx := ht.2
  simp only at hctx
  cases hsm with
  | turn hrel =>
    obtain ⟨h1, h2, h3⟩ := hrel.turnsF
    refine ⟨⟨hpO, h1⟩, ⟨hpF, h2⟩, fun j a sI hf => ⟨hpI j a sI hf, ?_⟩⟩
    rw [hstk j a sI hf, istack_none]
    exact ctx_proj j h3
  | runO hrel => simp [ctxOf] at hctx
  | runI hrel => simp [ctxOf] at hctx
  | runF hrel => simp [ctxOf] at hctx

/-- at top level of the network every component is at top level -/
theorem ProjF.top (h : ProjF Mo Mi initOf s sO sF fam) (ht : s.stack = []) :
    sO.stack = [] ∧ sF.stack = [] ∧ ∀ j a sI, fam j = some (a, sI) → sI.stack = [] := by
  obtain ⟨topI, kI, hsm, hstk, _, _⟩ := h.m.stk
  obtain ⟨st, stk, g, tr, p⟩ := s
  obtain ⟨stO, kO, gO, trO, pO⟩ := sO
  obtain ⟨stF, kF, gF, trF, pF⟩ := sF
  simp only at hsm hstk ht
  subst ht
  cases hsm with
  | turn hrel =>
    cases hrel with
    | nil => exact ⟨rfl, rfl, fun j a sI hf => by rw [hstk j a sI hf]; rfl⟩

theorem ProjF.recv (h : ProjF Mo Mi initOf s sO sF fam) : recvData 0 s.tr = recvData 0 sF.tr := by
  rw [recvData_eq, recvData_eq, h.t.sink]

/-- the outer data flatten has received are the data the outer source has delivered -/
theorem ProjF.outerData (h : ProjF Mo Mi initOf s sO sF fam) : sentS 0 (srcEvs sF.tr) = recvData 0 sO.tr := by
  rw [recvData_eq, recvS_dualJ 0, h.t.ifcO, sentS_srcEq]

/-- the data flatten has received from upstream `j + 1` are the data inner source `j + 1` has delivered -/
theorem ProjF.innerData (h : ProjF Mo Mi initOf s sO sF fam) (j : Nat) :
    sentData (j + 1) sF.tr = match fam (j + 1) with
      | some (_, sI) => recvData 0 sI.tr
      | none => [] := by
  rw [sentData_eq, ← sentS_srcEq, h.t.ifcI j]
  cases hf : fam (j + 1) with
  | none => rfl
  | some p => obtain ⟨a, sI⟩ := p; simp only; rw [recvData_eq, recvS_dualJ (j + 1)]

/-- the phase of flatten's upstream `j + 1`: created and ended means the inner source has delivered its terminal -/
theorem ProjF.innerEnded (h : ProjF Mo Mi initOf s sO sF fam) (j : Nat) (he : sF.g.ph.srcPh (j + 1) = .ended) :
    ∃ a sI, fam (j + 1) = some (a, sI) ∧ sI.g.ph.sinkPh 0 = .doneBySrc := by
  have := h.m.inner.ifcI j
  cases hf : fam (j + 1) with
  | none => rw [hf, he] at this; cases this
  | some p =>
    obtain ⟨a, sI⟩ := p
    rw [hf, he] at this
    exact ⟨a, sI, rfl, toSrc_ended.1 this.symm⟩


theorem odc_zero {stk : List FK.Fm} (hw : ∀ f ∈ stk, ∃ o l, f = Frame.wait o l) (hnw : FK.NW stk) : FK.odc stk = 0 := by
  induction stk with
  | nil => rfl
  | cons f t ih =>
    obtain ⟨o, l, rfl⟩ := hw _ List.mem_cons_self
    have ht := ih (fun f hf => hw f (List.mem_cons_of_mem _ hf)) hnw.tail
    rcases hnw o l List.mem_cons_self with rfl | rfl <;> simp [FK.odc, locOf, FK.isOdB, ht]

/-- **`flatten(map(g)(outer))`** for an outer head that delivers only when pulled: the network is a head of `ys.flatMap g` -/
theorem flat_headOkT {ys : List Int} {g : Int → List Int} (hO : HeadOkT Mo ys) (NO : NoUpstream Mo) (PO : PullOnly Mo)
    (hI : ∀ a, HeadOkT (atInit Mi (initOf a)) (g a)) (NI : ∀ a, NoUpstream (atInit Mi (initOf a))) :
    HeadOkT (flatPlug Mo Mi initOf) (ys.flatMap g) ∧ NoUpstream (flatPlug Mo Mi initOf) := by
  have H : HypF Mo Mi initOf := ⟨hO.head.up, NO, fun a => (hI a).head.up, NI⟩
  have UQ := flatPlug_upSide H
  have hproj := projF H PO hO.noErr (fun a => (hI a).noErr)
  -- the data equation at an environment turn
  have data : ∀ s, SReach (flatPlug Mo Mi initOf) s → EnvTurn s →
      ∃ (sO : Sys So Lo αo Int) (sF : FSys) (fam : Fam Si Li αi), ProjF Mo Mi initOf s sO sF fam ∧ EnvTurn sO ∧
        recvData 0 s.tr <+: (recvData 0 sO.tr).flatMap g ∧
        (s.g.ph.sinkPh 0 = .doneBySrc → recvData 0 s.tr = (recvData 0 sO.tr).flatMap g ∧ sO.g.ph.sinkPh 0 = .doneBySrc) := by
    intro s hs ht
    obtain ⟨sO, sF, fam, hp⟩ := hproj s hs
    obtain ⟨htO, htF, htI⟩ := hp.turn ht
    obtain ⟨hk, _, hnw⟩ := FK.E1_reach sF hp.rF hp.c
    have h2 := FK.E2_reach sF hp.rF hp.c
    obtain ⟨m, hm, hd⟩ := h2.data
    obtain ⟨cc, hcc⟩ := Option.isSome_iff_exists.1 htF.2
    have hw := turn_all_waits _ hp.rF hcc
    rw [FK.pendD_wait hw, List.append_nil] at hd
    have hcnt := h2.cnt
    rw [odc_zero hw hnw] at hcnt
    have has : sentData 0 sF.tr = recvData 0 sO.tr := by rw [sentData_eq]; exact hp.outerData
    have hlen : m = (recvData 0 sO.tr).length := by rw [← has]; omega
    have hborn : ∀ j a a' sI, (recvData 0 sO.tr)[j]? = some a → fam (j + 1) = some (a', sI) → a' = a := by
      intro j a a' sI ha hf
      have := hp.t.born j a' sI hf
      rw [hp.outerData, ha] at this
      exact (Option.some.inj this).symm
    have hpre : ∀ j a, (recvData 0 sO.tr)[j]? = some a → sentData (j + 1) sF.tr <+: g a := by
      intro j a ha
      rw [hp.innerData j]
      cases hf : fam (j + 1) with
      | none => exact List.nil_prefix
      | some p =>
        obtain ⟨a', sI⟩ := p
        have := hborn j a a' sI ha hf
        subst this
        exact (hI a').head.spec sI (hp.m.inner.rI _ _ _ hf) (htI _ _ _ hf)
    have hfull : ∀ j a, sF.g.ph.srcPh (j + 1) = .ended → (recvData 0 sO.tr)[j]? = some a → sentData (j + 1) sF.tr = g a := by
      intro j a he ha
      obtain ⟨a', sI, hf, hdI⟩ := hp.innerEnded j he
      have := hborn j a a' sI ha hf
      subst this
      rw [hp.innerData j, hf]
      exact (hI a').doneT sI (hp.m.inner.rI _ _ _ hf) (htI _ _ _ hf) hdI
    refine ⟨sO, sF, fam, hp, htO, ?_, ?_⟩
    · rw [hp.recv, hd]
      exact catTo_prefix _ _ g m hlen hpre (fun j a hj ha => hfull j a (hk.ended (j + 1) (by omega) (by omega)) ha)
    · intro hdone
      have hdF : sF.g.ph.sinkPh 0 = .doneBySrc := by rw [← hp.m.core.sink 0]; exact hdone
      obtain ⟨h0, hall⟩ := hk.tc hdF
      refine ⟨?_, toSrc_ended.1 (by rw [← hp.m.outer.ifcO]; exact h0)⟩
      rw [hp.recv, hd, catTo_take _ _ g m (by omega) (fun j a hj ha => hfull j a (hall (j + 1) (by omega) (by omega)) ha),
        List.take_of_length_le (by omega)]
  refine ⟨⟨⟨UQ, ?_, ?_, ?_⟩, ?_, ?_⟩, flatPlug_noUpstream H⟩
  · -- spec
    intro s hs ht
    obtain ⟨sO, sF, fam, hp, htO, h1, _⟩ := data s hs ht
    exact h1.trans (flatMap_prefix g (hO.head.spec sO hp.rO htO))
  · -- done (top level)
    intro s hs hstk hd
    have ht : EnvTurn s := ⟨(UQ.safe s hs).2, by simp [hstk, ctxOf]⟩
    obtain ⟨sO, sF, fam, hp, htO, _, h2⟩ := data s hs ht
    obtain ⟨h3, h4⟩ := h2 hd
    rw [h3, hO.doneT sO hp.rO htO h4]
  · -- served (top level)
    intro s hs hstk hl
    obtain ⟨sO, sF, fam, hp⟩ := hproj s hs
    obtain ⟨hkO, hkF, hkI⟩ := hp.top hstk
    cases hap : aP s.tr with
    | false => rfl
    | true =>
      exfalso
      have hapF : aP sF.tr = true := by simpa [aP, hp.t.sink] using hap
      have hlF : sF.g.ph.sinkPh 0 = .live := by rw [← hp.m.core.sink 0]; exact hl
      obtain ⟨hk, _, _⟩ := FK.E1_reach sF hp.rF hp.c
      obtain ⟨hq, hio, _, _⟩ := FK.D_reach sF hp.rF hp.c
      rw [hkF] at hq
      have hQ := hq.resolve_left (by simp [FK.Exc])
      obtain ⟨hq1, hq2⟩ := hQ hapF
      have htF : EnvTurn sF := ⟨hp.m.core.pF, by simp [hkF, ctxOf]⟩
      obtain ⟨_, _, hpos, hidle, hoths, hm⟩ := FK.inv_turn' hp.rF htF
      have hmode : Flatten.OuterOk sF.st.outer sF.g.ph ∧ (∀ k, sF.st.inner = some k → 0 < k ∧ k < sF.st.nextId ∧ sF.g.ph.srcPh k = .live) := by
        rw [hkF] at hm
        cases hm with
        | live h1 h2 h3 h4 h5 => exact ⟨h2, h3⟩
        | init h1 => rw [h1] at hlF; cases hlF
        | sub h1 => rw [h1] at hlF; cases hlF
        | wgreet j _ _ _ _ _ _ h => obtain ⟨r, h, _⟩ := h; cases h
        | od1 k _ _ _ h => obtain ⟨r, h, _⟩ := h; cases h
        | oe1 k e _ _ h => obtain ⟨r, h, _⟩ := h; cases h
        | ie1 e _ _ h => obtain ⟨r, h, _⟩ := h; cases h
        | x1 k h1 => rw [h1] at hlF; cases hlF
        | fin h1 => rcases h1 with h1 | h1 <;> rw [h1] at hlF <;> cases hlF
      obtain ⟨hoo, h3⟩ := hmode
      cases hin : sF.st.inner with
      | some k =>
        obtain ⟨hk0, _, hkl⟩ := h3 k hin
        obtain ⟨j, rfl⟩ : ∃ j, k = j + 1 := ⟨k - 1, by omega⟩
        have hpull := hq1 _ hin
        have hifc := hp.m.inner.ifcI j
        cases hf : fam (j + 1) with
        | none => rw [hf, hkl] at hifc; cases hifc
        | some p =>
          obtain ⟨a, sI⟩ := p
          rw [hf, hkl] at hifc
          have hlI : sI.g.ph.sinkPh 0 = .live := toSrc_live.1 hifc.symm
          have := hp.t.ifcI j
          rw [hf] at this
          simp only at this
          rw [← lastPullSrc_srcEq, this, ← lastPull_dualJ] at hpull
          have hsv := (hI a).head.served sI (hp.m.inner.rI _ _ _ hf) (hkI _ _ _ hf) hlI
          rw [aP, hpull] at hsv; cases hsv
      | none =>
        have hout : sF.st.outer = true := by
          rcases hio hlF with h | h
          · exact h
          · rw [hin] at h; cases h
        have hpull := hq2 hin hout
        have hl0 : sF.g.ph.srcPh 0 = .live := hoo.1 hout
        have hlO : sO.g.ph.sinkPh 0 = .live := toSrc_live.1 (by rw [← hp.m.outer.ifcO]; exact hl0)
        rw [bP, ← lastPullSrc_srcEq, ← hp.t.ifcO, ← lastPull_dualJ] at hpull
        have hsv := hO.head.served sO hp.rO hkO hlO
        rw [aP, hpull] at hsv; cases hsv
  · -- doneT
    intro s hs ht hd
    obtain ⟨sO, sF, fam, hp, htO, _, h2⟩ := data s hs ht
    obtain ⟨h3, h4⟩ := h2 hd
    rw [h3, hO.doneT sO hp.rO htO h4]
  · -- noErr
    intro s hs ⟨k, e, hk'⟩
    obtain ⟨sO, sF, fam, hp⟩ := hproj s hs
    rw [hp.t.sink] at hk'
    exact (FK.E1_reach sF hp.rF hp.c).1.eo ⟨k, e, hk'⟩

end Main

end FlatPlugFun
end Cb

#print axioms Cb.FlatPlugFun.flat_headOkT
