import CallbagModel.Inv.ComposeFull
import CallbagModel.Ops.Plug
/-!
# Assume–guarantee for `plug j M₁ M₂`: a closed source in upstream slot `j` of an n-ary operator

`plug_inv_tr`: every small-step reachable configuration `s` of `plug j M₁ M₂` projects onto reachable configurations `s₁` of `M₁` and
`s₂` of `M₂` (`MatchP`: states, stacks, phases; `TrRelP`: traces).  Differences to `compose`:

* every EXTERNAL call is `M₂`'s, so every re-entry from outside lands in `M₂`, and `M₂`'s context is literally the composite's;
* the monitor of the composite sees exactly what `M₂`'s monitor sees, except slot `j` (idle for ever for the composite): hence NO
  openness hypothesis (`hopen` of `compose_basicSafe`) is needed, and no restriction on `M₂`'s shape (`lateGreet` may be `true`: merge);
* a late greeting by `M₁` is impossible whatever `M₂.shape.lateGreet` says, because `M₁` is only ever entered through `M₂`; this is the
  invariant `MatchP.up` (while `M₂` has a call `srcUp j _` open, `M₁`'s sink has been greeted).
-/
namespace Cb
namespace PlugSafe
open ComposeSafe ComposeFun ComposeComplete

/-! ## Part 1: the projection -/
section Defs
variable {S1 L1 S2 L2 α β γ : Type}

/-- `M₂`'s calls that go to the environment of `plug j M₁ M₂` -/
def ExtOut {γ : Type} (j : Nat) : Out γ → Prop
  | .subSrc i => i ≠ j
  | .srcUp i _ => i ≠ j
  | _ => True

/-- the waiting part of the composite, as an interleaving of `M₁`'s and `M₂`'s waiting stacks (`sd`: the component directly above).
External calls are `M₂`'s (`ext`); `M₁`'s frames only ever sit on top of an internal call of `M₂` (`intSub`, `intUp`). -/
inductive RelP (j : Nat) : Side → List (CFr L1 L2) → List (Frame (List (CFr L1 L2)) γ) → List (Frame L1 β) → List (Frame L2 γ) → Prop where
  | nil : RelP j .hi [] [] [] []
  | ext {o l cfs stk k1 k2} : ExtOut j o → RelP j .hi cfs stk k1 k2 →
      RelP j .hi [] (.wait o (.hi l :: cfs) :: stk) k1 (.wait o l :: k2)
  | intLo {o l cfs stk k1 k2} : Internal1 o → RelP j .lo cfs stk k1 k2 →
      RelP j .hi (.lo l :: cfs) stk (.wait o l :: k1) k2
  | intSub {l cfs stk k2} : RelP j .hi cfs stk [] k2 →
      RelP j .lo (.hi l :: cfs) stk [] (.wait (.subSrc j) l :: k2)
  | intUp {u l cfs stk k1 k2} : RelP j .hi cfs stk k1 k2 →
      RelP j .lo (.hi l :: cfs) stk k1 (.wait (.srcUp j u) l :: k2)

inductive SMP (j : Nat) : List (Frame (List (CFr L1 L2)) γ) → List (Frame L1 β) → List (Frame L2 γ) → Prop where
  | turn {stk k1 k2} : RelP j .hi [] stk k1 k2 → SMP j stk k1 k2
  | runLo {l cfs stk k1 k2} : RelP j .lo cfs stk k1 k2 → SMP j (.run (.lo l :: cfs) :: stk) (.run l :: k1) k2
  | runHi {l cfs stk k1 k2} : RelP j .hi cfs stk k1 k2 → SMP j (.run (.hi l :: cfs) :: stk) k1 (.run l :: k2)

theorem RelP.turns {j sd cfs} {stk : List (Frame (List (CFr L1 L2)) γ)} {k1 : List (Frame L1 β)} {k2 : List (Frame L2 γ)}
    (h : RelP j sd cfs stk k1 k2) : (ctxOf k1).isSome = true ∧ (ctxOf k2).isSome = true := by
  induction h with
  | nil => simp [ctxOf]
  | ext _ _ ih => exact ⟨ih.1, by simp [ctxOf]⟩
  | intLo _ _ ih => exact ⟨by simp [ctxOf], ih.2⟩
  | intSub _ ih => exact ⟨by simp [ctxOf], by simp [ctxOf]⟩
  | intUp _ ih => exact ⟨ih.1, by simp [ctxOf]⟩

/-- while `M₂` runs, `M₁` is at top level or waiting on a call into `M₂` -/
theorem RelP.hi_k1 {j sd cfs} {stk : List (Frame (List (CFr L1 L2)) γ)} {k1 : List (Frame L1 β)} {k2 : List (Frame L2 γ)}
    (h : RelP j sd cfs stk k1 k2) : sd = .hi → k1 = [] ∨ (∃ o l r, k1 = .wait o l :: r ∧ Internal1 o) := by
  induction h with
  | nil => intro _; exact .inl rfl
  | ext _ _ ih => exact ih
  | intLo ho _ ih => intro _; exact .inr ⟨_, _, _, rfl, ho⟩
  | intSub _ ih => intro h; cases h
  | intUp _ ih => intro h; cases h

/-- at an environment turn of the composite, `M₂`'s context is the composite's -/
theorem RelP.ctx {j} {stk : List (Frame (List (CFr L1 L2)) γ)} {k1 : List (Frame L1 β)} {k2 : List (Frame L2 γ)}
    (h : RelP j .hi [] stk k1 k2) : ctxOf k2 = ctxOf stk := by
  cases h <;> rfl

/-- the sink has been greeted -/
def NotPre (p : SinkPh) : Prop := p ≠ .idle ∧ p ≠ .subscribed

/-- the three phase layers: `g` of the composite, `g1` of `M₁`, `g2` of `M₂` -/
structure PG (j : Nat) (g g1 g2 : Ph) : Prop where
  v : g.viols = []
  sink : ∀ k, g.sinkPh k = g2.sinkPh k
  src : ∀ i, i ≠ j → g.srcPh i = g2.srcPh i
  srcj : g.srcPh j = .idle
  ifc : g2.srcPh j = toSrc (g1.sinkPh 0)
  src1 : ∀ i, g1.srcPh i = .idle
  sink1 : ∀ k, g1.sinkPh (k + 1) = .idle

theorem PG.setIfc {j : Nat} {g g1 g2 : Ph} (h : PG j g g1 g2) (p : SinkPh) :
    PG j g (g1.setSink 0 p) (g2.setSrc j (toSrc p)) :=
  ⟨h.v, fun k => by simp [h.sink], fun i hi => by simp [hi, h.src i hi], h.srcj, by simp, fun i => by simp [h.src1],
    fun k => by simp [h.sink1]⟩

theorem PG.setSinkExt {j : Nat} {g g1 g2 : Ph} (h : PG j g g1 g2) (k : Nat) (p : SinkPh) :
    PG j (g.setSink k p) g1 (g2.setSink k p) :=
  ⟨h.v, fun k' => by simp [h.sink], fun i hi => by simp [h.src i hi], by simp [h.srcj], by simp [h.ifc], h.src1, h.sink1⟩

theorem PG.setSrcExt {j : Nat} {g g1 g2 : Ph} (h : PG j g g1 g2) (i : Nat) (hi : i ≠ j) (p : SrcPh) :
    PG j (g.setSrc i p) g1 (g2.setSrc i p) :=
  ⟨h.v, fun k' => by simp [h.sink], fun i' hi' => by simp only [Ph.srcPh_setSrc]; split; rfl; exact h.src i' hi',
    by simp [Ne.symm hi, h.srcj], by simp [Ne.symm hi, h.ifc], h.src1, h.sink1⟩

/-! ### `NotPre` is stable -/

theorem onOut_sinkPh_subscribed {β : Type} (g : Ph) (o : Out β) (k : Nat) (h : (g.onOut o).sinkPh k = .subscribed) :
    g.sinkPh k = .subscribed := by
  cases o with
  | greet j =>
    simp only [Ph.onOut] at h
    split at h
    · simp only [Ph.sinkPh_setSink] at h; split at h <;> first | cases h | exact h
    · exact h
  | down j d =>
    simp only [Ph.onOut] at h
    split at h
    · split at h
      · simp only [Ph.sinkPh_setSink] at h; split at h <;> first | cases h | exact h
      · exact h
    all_goals exact h
  | subSrc j =>
    simp only [Ph.onOut] at h
    split at h
    · exact h
    · split at h <;> exact h
  | srcUp j u => cases u <;> simp only [Ph.onOut] at h <;> split at h <;> exact h
  | app b => exact h

theorem NotPre.onOut {β : Type} {g : Ph} {k : Nat} (h : NotPre (g.sinkPh k)) (o : Out β) : NotPre ((g.onOut o).sinkPh k) :=
  ⟨fun hi => h.1 (onOut_sinkPh_idle _ _ _ hi), fun hs => h.2 (onOut_sinkPh_subscribed _ _ _ hs)⟩

theorem NotPre.onIn {α β : Type} {sh : Shape} {g : Ph} {c : Ctx β} {m : In α} {k : Nat} (h : NotPre (g.sinkPh k))
    (hl : legalIn sh g c m = true) : NotPre ((g.onIn m).sinkPh k) := by
  cases m with
  | subscribe k' =>
    have hne : k ≠ k' := by rintro rfl; exact h.1 (legal_subscribe hl)
    simpa [Ph.onIn, hne] using h
  | sinkUp k' u =>
    cases u with
    | pull => simpa [Ph.onIn] using h
    | term => simp only [Ph.onIn, Ph.sinkPh_setSink]; split; exact ⟨by decide, by decide⟩; exact h
    | err e => simp only [Ph.onIn, Ph.sinkPh_setSink]; split; exact ⟨by decide, by decide⟩; exact h
  | srcGreet i => simpa [Ph.onIn] using h
  | srcDown i d => cases d <;> simpa [Ph.onIn] using h

/-- a composite configuration and its two projections -/
structure MatchP (j : Nat) (s : Sys (S1 × S2) (List (CFr L1 L2)) β γ) (s1 : Sys S1 L1 α β) (s2 : Sys S2 L2 β γ) : Prop where
  st : s.st = (s1.st, s2.st)
  p : s.panicked = none
  p1 : s1.panicked = none
  p2 : s2.panicked = none
  gh : PG j s.g.ph s1.g.ph s2.g.ph
  stk : SMP j s.stack s1.stack s2.stack
  /-- while `M₂` has a message to upstream `j` in flight, `M₁`'s sink has been greeted -/
  up : ∀ u l, Frame.wait (.srcUp j u) l ∈ s2.stack → NotPre (s1.g.ph.sinkPh 0)

/-- the hypotheses of the assume–guarantee theorem for `plug` -/
structure HypP (M1 : Machine S1 L1 α β) (M2 : Machine S2 L2 β γ) : Prop where
  /-- `M₁` is a closed source: none of its upstreams is ever subscribed to -/
  noUp1 : ComposeFull.NoUpstream M1
  noApp1 : ∀ st l b st' l', M1.step st l ≠ .call (.app b) st' l'
  sync : M2.shape.lateGreet = true ∨ ∀ s, SReach M1 s → s.stack = [] → s.g.ph.sinkPh 0 ≠ .subscribed
  safe1 : ∀ s, SReach M1 s → BasicSafe s
  safe2 : ∀ s, SReach M2 s → BasicSafe s

/-! ### traces -/

def srcIdx {α : Type} : SrcEv α → Nat
  | .greet i => i | .down i _ => i | .sub i => i | .up i _ => i

/-- the source-side events at upstream `j` / at the other upstreams -/
def srcEq {α : Type} (j : Nat) (l : List (SrcEv α)) : List (SrcEv α) := l.filter (fun e => srcIdx e == j)
def srcNe {α : Type} (j : Nat) (l : List (SrcEv α)) : List (SrcEv α) := l.filter (fun e => srcIdx e != j)

/-- a sink-side event of `M₁` (at its sink 0), seen from `M₂` as an event of upstream `j` -/
def dual1 {β : Type} (j : Nat) : SinkEv β → Option (SrcEv β)
  | .subscribe k => if k = 0 then some (.sub j) else none
  | .up k u => if k = 0 then some (.up j u) else none
  | .greet k => if k = 0 then some (.greet j) else none
  | .down k d => if k = 0 then some (.down j d) else none
  | .app _ => none

def dualJ {β : Type} (j : Nat) : List (SinkEv β) → List (SrcEv β)
  | [] => []
  | e :: t => consOpt (dual1 j e) (dualJ j t)

structure TrRelP (j : Nat) (tr : List (Ev β γ)) (tr1 : List (Ev α β)) (tr2 : List (Ev β γ)) : Prop where
  sink : sinkEvs tr = sinkEvs tr2
  src : srcEvs tr = srcNe j (srcEvs tr2)
  ifc : dualJ j (sinkEvs tr1) = srcEq j (srcEvs tr2)

end Defs

/-! ## Part 2: every step of the composite is matched -/
section Steps
variable {S1 L1 S2 L2 α β γ : Type} {M1 : Machine S1 L1 α β} {M2 : Machine S2 L2 β γ} {j : Nat}

/-- re-establish `TrRelP` after a matched step -/
macro "trp" h:ident : tactic =>
  `(tactic| (have h0 := $h
             exact ⟨by simpa [sinkEvs, sinkEv] using h0.sink,
                    by simpa [srcEvs, srcEv, srcNe, srcIdx, *] using h0.src,
                    by simpa [sinkEvs, sinkEv, srcEvs, srcEv, srcEq, srcIdx, dualJ, dual1, *] using h0.ifc⟩))

theorem up_mono {g1 : Ph} {k2 k2' : List (Frame L2 γ)} (h : ∀ u l, Frame.wait (Out.srcUp j u) l ∈ k2 → NotPre (g1.sinkPh 0))
    (hsub : ∀ f ∈ k2', (∃ l, f = Frame.run l) ∨ f ∈ k2) : ∀ u l, Frame.wait (Out.srcUp j u) l ∈ k2' → NotPre (g1.sinkPh 0) := by
  intro u l hm
  rcases hsub _ hm with ⟨l', he⟩ | hm'
  · cases he
  · exact h u l hm'

theorem step_lo (H : HypP M1 M2) {st1 : S1} {st2 : S2} {l : L1} {rest : List (CFr L1 L2)}
    {stk : List (Frame (List (CFr L1 L2)) γ)} {g : G} {tr : List (Ev β γ)}
    {k1 : List (Frame L1 β)} {k2 : List (Frame L2 γ)} {g1 g2 : G} {tr1 : List (Ev α β)} {tr2 : List (Ev β γ)}
    {b : Sys (S1 × S2) (List (CFr L1 L2)) β γ}
    (hr1 : SReach M1 ⟨st1, .run l :: k1, g1, tr1, none⟩) (hr2 : SReach M2 ⟨st2, k2, g2, tr2, none⟩)
    (hrel : RelP j .lo rest stk k1 k2) (hgh : PG j g.ph g1.ph g2.ph)
    (hup : ∀ u l, Frame.wait (.srcUp j u) l ∈ k2 → NotPre (g1.ph.sinkPh 0)) (htr : TrRelP j tr tr1 tr2)
    (hop : opStep (plug j M1 M2) ⟨(st1, st2), .run (.lo l :: rest) :: stk, g, tr, none⟩ = some b) :
    ∃ s1 s2, SReach M1 s1 ∧ SReach M2 s2 ∧ MatchP j b s1 s2 ∧ TrRelP j b.tr s1.tr s2.tr := by
  cases hst : M1.step st1 l with
  | tau s1' l' =>
    simp [opStep, plug, hst] at hop
    subst hop
    exact ⟨_, _, reach_op hr1 (.tau hst), hr2, ⟨rfl, rfl, rfl, rfl, hgh, .runLo hrel, hup⟩, by trp htr⟩
  | panic m =>
    have := (H.safe1 _ (reach_op hr1 (.panic hst))).2
    cases this
  | ret =>
    have hr1' := reach_op hr1 (.ret hst)
    cases hrel with
    | @intSub l2 rest' _ k2' h =>
      simp [opStep, plug, hst] at hop
      subst hop
      have h2 : M2.shape.lateGreet = true ∨ g2.ph.srcPh j ≠ .subscribed := by
        rcases H.sync with hs | hs
        · exact .inl hs
        · right
          have h1 : g1.ph.sinkPh 0 ≠ .subscribed := by simpa using hs _ hr1' rfl
          rw [hgh.ifc]; exact fun h => h1 (toSrc_subscribed.1 h)
      have he := EnvStep.ret (M := M2) (st := st2) (stk := k2') (g := g2) (tr := tr2) (o := .subSrc j) (l := l2)
        (by rcases h2 with h2 | h2 <;> simp [legalRet, h2])
      refine ⟨_, _, hr1', reach_env hr2 he, ⟨rfl, rfl, rfl, rfl, by simpa using hgh, .runHi h, ?_⟩, by trp htr⟩
      simp only [onRetO_ph]
      exact up_mono hup (fun f hf => by
        rcases List.mem_cons.1 hf with rfl | hf
        · exact .inl ⟨_, rfl⟩
        · exact .inr (List.mem_cons_of_mem _ hf))
    | @intUp u l2 rest' _ _ k2' h =>
      simp [opStep, plug, hst] at hop
      subst hop
      have he := EnvStep.ret (M := M2) (st := st2) (stk := k2') (g := g2) (tr := tr2) (o := .srcUp j u) (l := l2)
        (by simp [legalRet])
      refine ⟨_, _, hr1', reach_env hr2 he, ⟨rfl, rfl, rfl, rfl, by simpa using hgh, .runHi h, ?_⟩, by trp htr⟩
      simp only [onRetO_ph]
      exact up_mono hup (fun f hf => by
        rcases List.mem_cons.1 hf with rfl | hf
        · exact .inl ⟨_, rfl⟩
        · exact .inr (List.mem_cons_of_mem _ hf))
  | call o s1' l' =>
    have hr1' := reach_op hr1 (.call hst)
    have hv := (H.safe1 _ hr1').1
    simp only [onOut_ph] at hv
    cases o with
    | greet k =>
      obtain ⟨hsub, heq⟩ := onOut_greet_ok _ _ hv
      cases k with
      | succ k => rw [hgh.sink1 k] at hsub; cases hsub
      | zero =>
        simp [opStep, plug, hst] at hop
        subst hop
        have hsub2 : g2.ph.srcPh j = .subscribed := by rw [hgh.ifc, hsub]; rfl
        cases hrel with
        | @intUp u l2 rest' _ _ k2' h =>
          exact absurd hsub (hup u l2 (List.mem_cons_self)).2
        | @intSub l2 rest' _ k2' h =>
          have he := EnvStep.call (M := M2) (st := st2) (stk := .wait (.subSrc j) l2 :: k2') (g := g2) (tr := tr2)
            (.srcGreet j) rfl (by simp [legalIn, hsub2, inSub])
          refine ⟨_, _, hr1', reach_env hr2 he,
            ⟨rfl, rfl, rfl, rfl, ?_, .runHi (.intLo (by simp [Internal1]) (.intSub h)), ?_⟩, by trp htr⟩
          · simp only [onOut_ph, onIn_ph, heq]
            exact hgh.setIfc .live
          · intro u l hm
            simp only [onOut_ph, heq]
            exact ⟨by simp, by simp⟩
    | down k d =>
      obtain ⟨hlive, heq⟩ := onOut_down_ok _ _ _ hv
      cases k with
      | succ k => rw [hgh.sink1 k] at hlive; cases hlive
      | zero =>
        simp [opStep, plug, hst] at hop
        subst hop
        have hlive2 : g2.ph.srcPh j = .live := by rw [hgh.ifc, hlive]; rfl
        have hctx : ∃ c, ctxOf k2 = some c ∧ legalIn M2.shape g2.ph c (.srcDown j d) = true := by
          cases hrel with
          | @intSub l2 rest' _ k2' h => exact ⟨_, rfl, by simp [legalIn, hlive2, inSub]⟩
          | @intUp u l2 rest' _ _ k2' h =>
            cases u with
            | pull => exact ⟨_, rfl, by simp [legalIn, hlive2, inPull]⟩
            | term =>
              have := wait_srcUp_disposed M2 hr2 (H.safe2 _ hr2).1 j .term l2 (by simp) (by simp)
              simp only at this; rw [hlive2] at this; cases this
            | err e =>
              have := wait_srcUp_disposed M2 hr2 (H.safe2 _ hr2).1 j (.err e) l2 (by simp) (by simp)
              simp only at this; rw [hlive2] at this; cases this
        obtain ⟨c, hc, hl⟩ := hctx
        have he := EnvStep.call (M := M2) (st := st2) (stk := k2) (g := g2) (tr := tr2) (.srcDown j d) hc hl
        refine ⟨_, _, hr1', reach_env hr2 he,
          ⟨rfl, rfl, rfl, rfl, ?_, .runHi (.intLo (by simp [Internal1]) hrel), ?_⟩, by trp htr⟩
        · simp only [onOut_ph, onIn_ph, heq]
          cases d with
          | data x => simpa [isFinal, Ph.onIn] using hgh
          | term => simpa [isFinal, Ph.onIn, toSrc] using hgh.setIfc .doneBySrc
          | err e => simpa [isFinal, Ph.onIn, toSrc] using hgh.setIfc .doneBySrc
        · simp only [onOut_ph]
          intro u l hm
          have : NotPre (g1.ph.sinkPh 0) := ⟨by rw [hlive]; decide, by rw [hlive]; decide⟩
          exact this.onOut _
    | subSrc i =>
      obtain ⟨_, _, heq⟩ := onOut_subSrc_ok _ _ hv
      have := H.noUp1 _ hr1' i
      simp [heq] at this
    | srcUp i u =>
      obtain ⟨hl, _⟩ := onOut_srcUp_ok _ _ _ hv
      rw [hgh.src1 i] at hl; cases hl
    | app b' => exact absurd hst (H.noApp1 _ _ _ _ _)


theorem step_hi (H : HypP M1 M2) {st1 : S1} {st2 : S2} {l : L2} {rest : List (CFr L1 L2)}
    {stk : List (Frame (List (CFr L1 L2)) γ)} {g : G} {tr : List (Ev β γ)}
    {k1 : List (Frame L1 β)} {k2 : List (Frame L2 γ)} {g1 g2 : G} {tr1 : List (Ev α β)} {tr2 : List (Ev β γ)}
    {b : Sys (S1 × S2) (List (CFr L1 L2)) β γ}
    (hr1 : SReach M1 ⟨st1, k1, g1, tr1, none⟩) (hr2 : SReach M2 ⟨st2, .run l :: k2, g2, tr2, none⟩)
    (hrel : RelP j .hi rest stk k1 k2) (hgh : PG j g.ph g1.ph g2.ph)
    (hup : ∀ u l', Frame.wait (.srcUp j u) l' ∈ (Frame.run l :: k2 : List (Frame L2 γ)) → NotPre (g1.ph.sinkPh 0))
    (htr : TrRelP j tr tr1 tr2)
    (hop : opStep (plug j M1 M2) ⟨(st1, st2), .run (.hi l :: rest) :: stk, g, tr, none⟩ = some b) :
    ∃ s1 s2, SReach M1 s1 ∧ SReach M2 s2 ∧ MatchP j b s1 s2 ∧ TrRelP j b.tr s1.tr s2.tr := by
  have hup2 : ∀ u l', Frame.wait (.srcUp j u) l' ∈ k2 → NotPre (g1.ph.sinkPh 0) :=
    fun u l' hm => hup u l' (List.mem_cons_of_mem _ hm)
  have hupRun : ∀ (l0 : L2) u l', Frame.wait (.srcUp j u) l' ∈ (Frame.run l0 :: k2 : List (Frame L2 γ)) → NotPre (g1.ph.sinkPh 0) := by
    intro l0 u l' hm
    rcases List.mem_cons.1 hm with he | hm
    · cases he
    · exact hup2 u l' hm
  cases hst : M2.step st2 l with
  | tau s2' l' =>
    simp [opStep, plug, hst] at hop
    subst hop
    exact ⟨_, _, hr1, reach_op hr2 (.tau hst), ⟨rfl, rfl, rfl, rfl, hgh, .runHi hrel, hupRun l'⟩, by trp htr⟩
  | panic m =>
    have := (H.safe2 _ (reach_op hr2 (.panic hst))).2
    cases this
  | ret =>
    have hr2' := reach_op hr2 (.ret hst)
    cases rest with
    | nil =>
      simp [opStep, plug, hst] at hop
      subst hop
      exact ⟨_, _, hr1, hr2', ⟨rfl, rfl, rfl, rfl, by simpa using hgh, .turn hrel, hup2⟩, by trp htr⟩
    | cons c rest' =>
      simp [opStep, plug, hst] at hop
      subst hop
      cases hrel with
      | @intLo o l1 _ _ k1' _ ho h =>
        have he := EnvStep.ret (M := M1) (st := st1) (stk := k1') (g := g1) (tr := tr1) (o := o) (l := l1)
          (legalRet_internal1 _ _ ho)
        exact ⟨_, _, reach_env hr1 he, hr2', ⟨rfl, rfl, rfl, rfl, by simpa using hgh, .runLo h, hup2⟩, by trp htr⟩
  | call o s2' l' =>
    have hr2' := reach_op hr2 (.call hst)
    have hv := (H.safe2 _ hr2').1
    simp only [onOut_ph] at hv
    have hupWait : ∀ (o' : Out γ) (p : SinkPh → Prop), (∀ u, o' ≠ .srcUp j u) → (NotPre (g1.ph.sinkPh 0) → True) →
        ∀ u l0, Frame.wait (.srcUp j u) l0 ∈ (Frame.wait o' l' :: k2 : List (Frame L2 γ)) → NotPre (g1.ph.sinkPh 0) := by
      intro o' _ hne _ u l0 hm
      rcases List.mem_cons.1 hm with he | hm
      · cases he; exact absurd rfl (hne u)
      · exact hup2 u l0 hm
    cases o with
    | subSrc i =>
      obtain ⟨hidle2, hopen2, heq⟩ := onOut_subSrc_ok _ _ hv
      by_cases hij : i = j
      · subst hij
        simp [opStep, plug, hst] at hop
        subst hop
        have hidle1 : g1.ph.sinkPh 0 = .idle := toSrc_idle.1 (hgh.ifc ▸ hidle2)
        have hall : ∀ k, g1.ph.sinkPh k = .idle := by
          intro k; cases k with
          | zero => exact hidle1
          | succ k => exact hgh.sink1 k
        have hk1 := (idle_empty M1 hr1 hall).1
        simp only at hk1
        subst hk1
        have he := EnvStep.call (M := M1) (st := st1) (stk := []) (g := g1) (tr := tr1)
          (.subscribe 0) rfl (by simp [legalIn, isTop, hidle1])
        refine ⟨_, _, reach_env hr1 he, hr2', ⟨rfl, rfl, rfl, rfl, ?_, .runLo (.intSub hrel), ?_⟩, by trp htr⟩
        · simp only [onOut_ph, onIn_ph, heq]
          exact hgh.setIfc .subscribed
        · intro u l0 hm
          rcases List.mem_cons.1 hm with he | hm
          · cases he
          · exact absurd hidle1 (hup2 u l0 hm).1
      · simp [opStep, plug, hst, hij] at hop
        subst hop
        have hopenC : g.ph.anySinkOpen = true := by
          obtain ⟨k, hk⟩ := (Ph.anySinkOpen_iff _).1 hopen2
          exact (Ph.anySinkOpen_iff _).2 ⟨k, by rw [hgh.sink k]; exact hk⟩
        refine ⟨_, _, hr1, hr2', ⟨rfl, rfl, rfl, rfl, ?_, .turn (.ext (by simpa [ExtOut] using hij) hrel), ?_⟩, by trp htr⟩
        · simp only [onOut_ph, heq, onOut_subSrc_eq ((hgh.src i hij).trans hidle2) hopenC]
          exact hgh.setSrcExt i hij .subscribed
        · exact hupWait _ (fun _ => True) (fun u h => by cases h) (fun _ => trivial)
    | srcUp i u =>
      obtain ⟨hlive2, heq⟩ := onOut_srcUp_ok _ _ _ hv
      by_cases hij : i = j
      · subst hij
        simp [opStep, plug, hst] at hop
        subst hop
        have hlive1 : g1.ph.sinkPh 0 = .live := toSrc_live.1 (hgh.ifc ▸ hlive2)
        have hctx : ∃ c, ctxOf k1 = some c ∧ legalIn M1.shape g1.ph c (.sinkUp 0 u : In α) = true := by
          rcases hrel.hi_k1 rfl with h | ⟨o, l1, r, h, ho⟩
          · subst h; exact ⟨_, rfl, by simp [legalIn, hlive1, isTop]⟩
          · subst h
            cases o with
            | greet k =>
              cases k with
              | zero => exact ⟨_, rfl, by simp [legalIn, hlive1, inGreet]⟩
              | succ k => simp [Internal1] at ho
            | down k d =>
              cases k with
              | succ k => simp [Internal1] at ho
              | zero =>
                cases d with
                | data x => exact ⟨_, rfl, by simp [legalIn, hlive1, inData]⟩
                | term =>
                  have := wait_down_done M1 hr1 (H.safe1 _ hr1).1 0 .term l1 (by simp) rfl
                  simp only at this; rw [hlive1] at this; cases this
                | err e =>
                  have := wait_down_done M1 hr1 (H.safe1 _ hr1).1 0 (.err e) l1 (by simp) rfl
                  simp only at this; rw [hlive1] at this; cases this
            | subSrc i => simp [Internal1] at ho
            | srcUp i u => simp [Internal1] at ho
            | app b => simp [Internal1] at ho
        obtain ⟨c, hc, hl⟩ := hctx
        have he := EnvStep.call (M := M1) (st := st1) (stk := k1) (g := g1) (tr := tr1) (.sinkUp 0 u) hc hl
        have hnp : NotPre (g1.ph.sinkPh 0) := ⟨by rw [hlive1]; decide, by rw [hlive1]; decide⟩
        refine ⟨_, _, reach_env hr1 he, hr2', ⟨rfl, rfl, rfl, rfl, ?_, .runLo (.intUp hrel), ?_⟩, by trp htr⟩
        · simp only [onOut_ph, onIn_ph, heq]
          cases u with
          | pull => simpa [Ph.onIn, afterUp] using hgh
          | term => simpa [Ph.onIn, toSrc, afterUp] using hgh.setIfc .doneBySelf
          | err e => simpa [Ph.onIn, toSrc, afterUp] using hgh.setIfc .doneBySelf
        · intro u' l0 _
          simp only [onIn_ph]
          exact hnp.onIn hl
      · simp [opStep, plug, hst, hij] at hop
        subst hop
        refine ⟨_, _, hr1, hr2', ⟨rfl, rfl, rfl, rfl, ?_, .turn (.ext (by simpa [ExtOut] using hij) hrel), ?_⟩, by trp htr⟩
        · simp only [onOut_ph, heq, onOut_srcUp_eq u ((hgh.src i hij).trans hlive2)]
          cases u with
          | pull => exact hgh
          | term => exact hgh.setSrcExt i hij .disposed
          | err e => exact hgh.setSrcExt i hij .disposed
        · exact hupWait _ (fun _ => True) (fun u' h => by cases h; exact hij rfl) (fun _ => trivial)
    | greet k =>
      obtain ⟨hsub, heq⟩ := onOut_greet_ok _ _ hv
      simp [opStep, plug, hst] at hop
      subst hop
      refine ⟨_, _, hr1, hr2', ⟨rfl, rfl, rfl, rfl, ?_, .turn (.ext (by simp [ExtOut]) hrel), ?_⟩, by trp htr⟩
      · simp only [onOut_ph, heq, onOut_greet_eq ((hgh.sink k).trans hsub)]
        exact hgh.setSinkExt k .live
      · exact hupWait _ (fun _ => True) (fun u' h => by cases h) (fun _ => trivial)
    | down k d =>
      obtain ⟨hlive, heq⟩ := onOut_down_ok _ _ _ hv
      simp [opStep, plug, hst] at hop
      subst hop
      refine ⟨_, _, hr1, hr2', ⟨rfl, rfl, rfl, rfl, ?_, .turn (.ext (by simp [ExtOut]) hrel), ?_⟩, by trp htr⟩
      · simp only [onOut_ph, heq, onOut_down_eq d ((hgh.sink k).trans hlive)]
        cases hf : isFinal d with
        | true => simpa using hgh.setSinkExt k .doneBySrc
        | false => simpa using hgh
      · exact hupWait _ (fun _ => True) (fun u' h => by cases h) (fun _ => trivial)
    | app b' =>
      simp [opStep, plug, hst] at hop
      subst hop
      refine ⟨_, _, hr1, hr2', ⟨rfl, rfl, rfl, rfl, ?_, .turn (.ext (by simp [ExtOut]) hrel), ?_⟩, by trp htr⟩
      · simpa [Ph.onOut] using hgh
      · exact hupWait _ (fun _ => True) (fun u' h => by cases h) (fun _ => trivial)


theorem legalRet_ext {γ : Type} {j : Nat} {sh : Shape} {g g2 : Ph} {o : Out γ} (ho : ExtOut j o)
    (hsrc : ∀ i, i ≠ j → g.srcPh i = g2.srcPh i) (hl : legalRet sh g (.inCall o) = true) :
    legalRet sh g2 (.inCall o) = true := by
  cases o with
  | subSrc i => simp only [ExtOut] at ho; simpa [legalRet, hsrc i ho] using hl
  | _ => simp [legalRet]

theorem step_env {a b : Sys (S1 × S2) (List (CFr L1 L2)) β γ} {s1 : Sys S1 L1 α β} {s2 : Sys S2 L2 β γ}
    {m : Move β} (hr1 : SReach M1 s1) (hr2 : SReach M2 s2) (hm : MatchP j a s1 s2) (htr : TrRelP j a.tr s1.tr s2.tr)
    (he : EnvStep (plug j M1 M2) m a b) :
    ∃ s1' s2', SReach M1 s1' ∧ SReach M2 s2' ∧ MatchP j b s1' s2' ∧ TrRelP j b.tr s1'.tr s2'.tr := by
  obtain ⟨st1, k1, g1, tr1, p1⟩ := s1
  obtain ⟨st2, k2, g2, tr2, p2⟩ := s2
  obtain ⟨hst, _, hp1, hp2, hgh, hsm, hup⟩ := hm
  simp only at hp1 hp2
  subst hp1 hp2
  cases he with
  | @call st stk g tr c i hc hl =>
    simp only at hst hgh hsm htr hup
    subst hst
    cases hsm with
    | runLo h => simp [ctxOf] at hc
    | runHi h => simp [ctxOf] at hc
    | turn hrel =>
      have hc2 : ctxOf k2 = some c := by rw [hrel.ctx]; exact hc
      have hupRun : ∀ (l0 : L2) u l', Frame.wait (.srcUp j u) l' ∈ (Frame.run l0 :: k2 : List (Frame L2 γ)) →
          NotPre (g1.ph.sinkPh 0) := by
        intro l0 u l' hm
        rcases List.mem_cons.1 hm with he | hm
        · cases he
        · exact hup u l' hm
      cases i with
      | subscribe k =>
        have hl2 : legalIn M2.shape g2.ph c (.subscribe k : In β) = true := by
          simpa [legalIn, plug, hgh.sink k] using hl
        have he2 := EnvStep.call (M := M2) (st := st2) (stk := k2) (g := g2) (tr := tr2) (.subscribe k) hc2 hl2
        refine ⟨_, _, hr1, reach_env hr2 he2, ⟨rfl, rfl, rfl, rfl, ?_, .runHi hrel, hupRun _⟩, by trp htr⟩
        simp only [onIn_ph, Ph.onIn]
        exact hgh.setSinkExt k .subscribed
      | sinkUp k u =>
        have hl2 : legalIn M2.shape g2.ph c (.sinkUp k u : In β) = true := by
          simpa [legalIn, plug, hgh.sink k] using hl
        have he2 := EnvStep.call (M := M2) (st := st2) (stk := k2) (g := g2) (tr := tr2) (.sinkUp k u) hc2 hl2
        refine ⟨_, _, hr1, reach_env hr2 he2, ⟨rfl, rfl, rfl, rfl, ?_, .runHi hrel, hupRun _⟩, by trp htr⟩
        simp only [onIn_ph]
        cases u with
        | pull => exact hgh
        | term => exact hgh.setSinkExt k .doneBySelf
        | err e => exact hgh.setSinkExt k .doneBySelf
      | srcGreet i =>
        have hij : i ≠ j := by
          rintro rfl
          have := legal_srcGreet hl
          rw [hgh.srcj] at this; cases this
        have hl2 : legalIn M2.shape g2.ph c (.srcGreet i : In β) = true := by
          simpa [legalIn, plug, hgh.src i hij] using hl
        have he2 := EnvStep.call (M := M2) (st := st2) (stk := k2) (g := g2) (tr := tr2) (.srcGreet i) hc2 hl2
        refine ⟨_, _, hr1, reach_env hr2 he2, ⟨rfl, rfl, rfl, rfl, ?_, .runHi hrel, hupRun _⟩, by trp htr⟩
        simp only [onIn_ph]
        exact hgh.setSrcExt i hij .live
      | srcDown i d =>
        have hij : i ≠ j := by
          rintro rfl
          have := legal_srcDown hl
          rw [hgh.srcj] at this; cases this
        have hl2 : legalIn M2.shape g2.ph c (.srcDown i d) = true := by
          simpa [legalIn, plug, hgh.src i hij] using hl
        have he2 := EnvStep.call (M := M2) (st := st2) (stk := k2) (g := g2) (tr := tr2) (.srcDown i d) hc2 hl2
        refine ⟨_, _, hr1, reach_env hr2 he2, ⟨rfl, rfl, rfl, rfl, ?_, .runHi hrel, hupRun _⟩, by trp htr⟩
        simp only [onIn_ph]
        cases d with
        | data x => exact hgh
        | term => exact hgh.setSrcExt i hij .ended
        | err e => exact hgh.setSrcExt i hij .ended
  | @ret st stk g tr o l hl =>
    simp only at hst hgh hsm htr hup
    subst hst
    cases hsm with
    | turn hrel =>
      cases hrel with
      | @ext _ l2 cfs _ _ k2' ho h =>
        have he2 := EnvStep.ret (M := M2) (st := st2) (stk := k2') (g := g2) (tr := tr2) (o := o) (l := l2)
          (legalRet_ext ho hgh.src (by simpa [plug] using hl))
        refine ⟨_, _, hr1, reach_env hr2 he2, ⟨rfl, rfl, rfl, rfl, hgh, .runHi h, ?_⟩, by trp htr⟩
        intro u l' hm
        rcases List.mem_cons.1 hm with he | hm
        · cases he
        · exact hup u l' (List.mem_cons_of_mem _ hm)

/-- THE INVARIANT for `plug`, with traces -/
theorem plug_inv_tr (H : HypP M1 M2) (j : Nat) :
    ∀ s, SReach (plug j M1 M2) s →
      ∃ s1 s2, SReach M1 s1 ∧ SReach M2 s2 ∧ MatchP j s s1 s2 ∧ TrRelP j s.tr s1.tr s2.tr := by
  intro s hs
  induction hs with
  | init =>
    refine ⟨Sys.init M1, Sys.init M2, .init, .init, ⟨rfl, rfl, rfl, rfl, ?_, .turn .nil, ?_⟩, ⟨rfl, rfl, rfl⟩⟩
    · exact ⟨rfl, fun k => by simp [Sys.init], fun i _ => by simp [Sys.init], by simp [Sys.init], by simp [Sys.init, toSrc],
        fun i => by simp [Sys.init], fun k => by simp [Sys.init]⟩
    · intro u l hm; simp [Sys.init] at hm
  | @step a b ha hab ih =>
    obtain ⟨s1, s2, hr1, hr2, hm, htr⟩ := ih
    cases hab with
    | env he _ => exact step_env hr1 hr2 hm htr he
    | op hop =>
      obtain ⟨st, stk, g, tr, p⟩ := a
      obtain ⟨st1, k1, g1, tr1, p1⟩ := s1
      obtain ⟨st2, k2, g2, tr2, p2⟩ := s2
      obtain ⟨hst, hp, hp1, hp2, hgh, hsm, hup⟩ := hm
      simp only at hst hp hp1 hp2 hgh hsm htr hup
      subst hst hp hp1 hp2
      cases hsm with
      | turn hrel =>
        have hturn : (ctxOf stk).isSome = true := by cases hrel <;> simp [ctxOf]
        have := opStep_none_of_envTurn (M := plug j M1 M2) (s := ⟨(st1, st2), stk, g, tr, none⟩) ⟨rfl, hturn⟩
        rw [this] at hop; cases hop
      | runLo hrel => exact step_lo H hr1 hr2 hrel hgh hup htr hop
      | runHi hrel => exact step_hi H hr1 hr2 hrel hgh hup htr hop

end Steps

/-! ## Part 3: consequences -/
section Consequences
variable {S1 L1 S2 L2 α β γ : Type} {M1 : Machine S1 L1 α β} {M2 : Machine S2 L2 β γ}

/-- **phase-level safety of `plug`** (C01–C03, protocol part of C04, C17) -/
theorem plug_basicSafe (H : HypP M1 M2) (j : Nat) : ∀ s, SReach (plug j M1 M2) s → BasicSafe s := by
  intro s hs
  obtain ⟨s1, s2, _, _, hm, _⟩ := plug_inv_tr H j s hs
  exact ⟨hm.gh.v, hm.p⟩

theorem matchP_turns {j : Nat} {s : Sys (S1 × S2) (List (CFr L1 L2)) β γ} {s1 : Sys S1 L1 α β} {s2 : Sys S2 L2 β γ}
    (hm : MatchP j s s1 s2) (ht : EnvTurn s) : EnvTurn s1 ∧ EnvTurn s2 := by
  obtain ⟨st, stk, g, tr, p⟩ := s
  obtain ⟨st1, k1, g1, tr1, p1⟩ := s1
  obtain ⟨st2, k2, g2, tr2, p2⟩ := s2
  obtain ⟨_, _, hp1, hp2, _, hsm, _⟩ := hm
  simp only at hp1 hp2 hsm
  cases hsm with
  | turn hrel => exact ⟨⟨hp1, hrel.turns.1⟩, ⟨hp2, hrel.turns.2⟩⟩
  | runLo hrel => have := ht.2; simp [ctxOf] at this
  | runHi hrel => have := ht.2; simp [ctxOf] at this

/-- the composite's top level, projected -/
theorem matchP_top {j : Nat} {s : Sys (S1 × S2) (List (CFr L1 L2)) β γ} {s1 : Sys S1 L1 α β} {s2 : Sys S2 L2 β γ}
    (hm : MatchP j s s1 s2) (hstk : s.stack = []) : s1.stack = [] ∧ s2.stack = [] := by
  obtain ⟨st, stk, g, tr, p⟩ := s
  obtain ⟨st1, k1, g1, tr1, p1⟩ := s1
  obtain ⟨st2, k2, g2, tr2, p2⟩ := s2
  obtain ⟨_, _, _, _, _, hsm, _⟩ := hm
  simp only at hstk hsm ⊢
  subst hstk
  cases hsm with
  | turn hrel => cases hrel; exact ⟨rfl, rfl⟩

/-! ### one-sided views restricted to a slot -/

theorem sentS_srcNe {α : Type} (i j : Nat) (hij : i ≠ j) (l : List (SrcEv α)) : sentS i (srcNe j l) = sentS i l := by
  induction l with
  | nil => rfl
  | cons e t ih =>
    cases e with
    | down i' d =>
      by_cases h : i' = j
      · subst h
        have : i' ≠ i := Ne.symm hij
        cases d <;> simp [srcNe, srcIdx, sentS, this] at ih ⊢ <;> exact ih
      · cases d <;> simp [srcNe, srcIdx, sentS, h] at ih ⊢ <;> simp [ih]
    | greet i' => by_cases h : i' = j <;> simp [srcNe, srcIdx, sentS, h] at ih ⊢ <;> exact ih
    | sub i' => by_cases h : i' = j <;> simp [srcNe, srcIdx, sentS, h] at ih ⊢ <;> exact ih
    | up i' u => by_cases h : i' = j <;> simp [srcNe, srcIdx, sentS, h] at ih ⊢ <;> exact ih

theorem sentS_srcEq {α : Type} (j : Nat) (l : List (SrcEv α)) : sentS j (srcEq j l) = sentS j l := by
  induction l with
  | nil => rfl
  | cons e t ih =>
    cases e with
    | down i' d =>
      by_cases h : i' = j
      · cases d <;> simp [srcEq, srcIdx, sentS, h] at ih ⊢ <;> simp [ih]
      · cases d <;> simp [srcEq, srcIdx, sentS, h] at ih ⊢ <;> exact ih
    | greet i' => by_cases h : i' = j <;> simp [srcEq, srcIdx, sentS, h] at ih ⊢ <;> exact ih
    | sub i' => by_cases h : i' = j <;> simp [srcEq, srcIdx, sentS, h] at ih ⊢ <;> exact ih
    | up i' u => by_cases h : i' = j <;> simp [srcEq, srcIdx, sentS, h] at ih ⊢ <;> exact ih

theorem recvS_dualJ {β : Type} (j : Nat) (l : List (SinkEv β)) : recvS 0 l = sentS j (dualJ j l) := by
  induction l with
  | nil => rfl
  | cons e t ih =>
    cases e with
    | down k d =>
      by_cases h : k = 0
      · cases d <;> simp [recvS, dualJ, dual1, sentS, h, ih]
      · cases d <;> simp [recvS, dualJ, dual1, h, ih]
    | subscribe k => by_cases h : k = 0 <;> simp [recvS, dualJ, dual1, sentS, h, ih]
    | up k u => by_cases h : k = 0 <;> simp [recvS, dualJ, dual1, sentS, h, ih]
    | greet k => by_cases h : k = 0 <;> simp [recvS, dualJ, dual1, sentS, h, ih]
    | app b => simp [recvS, dualJ, dual1, ih]

/-- what the projection preserves -/
structure ProjP (j : Nat) (s : Sys (S1 × S2) (List (CFr L1 L2)) β γ) (s1 : Sys S1 L1 α β) (s2 : Sys S2 L2 β γ) : Prop where
  m : MatchP j s s1 s2
  t : TrRelP j s.tr s1.tr s2.tr
  /-- what the composite delivers to its sinks is what `M₂` delivers; likewise terminals, closure applications, Pulls received -/
  recv : ∀ k, recvData k s.tr = recvData k s2.tr
  fin : ∀ k, finalsTo k s.tr = finalsTo k s2.tr
  app : applied s.tr = applied s2.tr
  pullsIn : ∀ k, pullsIn k s.tr = pullsIn k s2.tr
  /-- what the composite receives from an external upstream `i ≠ j` is what `M₂` receives from it -/
  sent : ∀ i, i ≠ j → sentData i s.tr = sentData i s2.tr
  /-- the plugged slot: what `M₁` delivered to its sink is what `M₂` received from upstream `j` -/
  ifc : recvData 0 s1.tr = sentData j s2.tr
  turn : EnvTurn s → EnvTurn s1 ∧ EnvTurn s2

theorem ProjP.of {j : Nat} {s : Sys (S1 × S2) (List (CFr L1 L2)) β γ} {s1 : Sys S1 L1 α β} {s2 : Sys S2 L2 β γ}
    (hm : MatchP j s s1 s2) (ht : TrRelP j s.tr s1.tr s2.tr) : ProjP j s s1 s2 where
  m := hm
  t := ht
  recv k := by rw [recvData_eq, recvData_eq, ht.sink]
  fin k := by rw [finalsTo_eq, finalsTo_eq, ht.sink]
  app := by rw [applied_eq, applied_eq, ht.sink]
  pullsIn k := by rw [pullsIn_eq, pullsIn_eq, ht.sink]
  sent i hij := by rw [sentData_eq, sentData_eq, ht.src, sentS_srcNe i j hij]
  ifc := by rw [recvData_eq, sentData_eq, recvS_dualJ j, ht.ifc, sentS_srcEq]
  turn := matchP_turns hm

theorem plug_proj (H : HypP M1 M2) (j : Nat) :
    ∀ s, SReach (plug j M1 M2) s → ∃ s1 s2, SReach M1 s1 ∧ SReach M2 s2 ∧ ProjP j s s1 s2 := by
  intro s hs
  obtain ⟨s1, s2, hr1, hr2, hm, ht⟩ := plug_inv_tr H j s hs
  exact ⟨s1, s2, hr1, hr2, .of hm ht⟩

/-! ### roles: `plug j M₁ M₂` as the head of further stages -/

theorem plug_noApp (j : Nat) (h : ∀ st l b st' l', M2.step st l ≠ .call (.app b) st' l') :
    ∀ st l b st' l', (plug j M1 M2).step st l ≠ .call (.app b) st' l' := by
  intro st l b st' l'
  cases l with
  | nil => simp [plug]
  | cons c rest =>
    cases c with
    | lo l1 =>
      simp only [plug]
      cases h1 : M1.step st.1 l1 with
      | tau => simp
      | ret => simp only []; split <;> simp
      | panic => simp
      | call o s l' =>
        cases o with
        | greet k => cases k <;> simp
        | down k d => cases k <;> simp
        | subSrc i => simp
        | srcUp i u => simp
        | app b' => simp
    | hi l2 =>
      simp only [plug]
      cases h2 : M2.step st.2 l2 with
      | tau => simp
      | ret => simp only []; split <;> simp
      | panic => simp
      | call o s l' =>
        cases o with
        | greet k => simp
        | down k d => simp
        | subSrc i => simp only []; split <;> simp
        | srcUp i u => simp only []; split <;> simp
        | app b' => exact absurd h2 (h _ _ _ _ _)

/-- if `M₂` can head a pipeline, so can `plug j M₁ M₂` -/
theorem UpSide.plug (H : HypP M1 M2) (j : Nat) (U2 : UpSide M2) : UpSide (Cb.plug j M1 M2) := by
  refine ⟨plug_noApp j U2.noApp, ?_, plug_basicSafe H j⟩
  intro s hs hstk
  obtain ⟨s1, s2, _, hr2, hm, _⟩ := plug_inv_tr H j s hs
  rw [hm.gh.sink 0]
  exact U2.sync s2 hr2 (matchP_top hm hstk).2

/-- only the upstream slots in `P` are ever used -/
def OnlySlots {St Loc α β : Type} (P : Nat → Prop) (M : Machine St Loc α β) : Prop :=
  ∀ s, SReach M s → ∀ i, ¬ P i → s.g.ph.srcPh i = .idle

theorem OnlySlots.plug {P : Nat → Prop} (H : HypP M1 M2) (j : Nat) (h : OnlySlots P M2) :
    OnlySlots (fun i => P i ∧ i ≠ j) (Cb.plug j M1 M2) := by
  intro s hs i hi
  obtain ⟨s1, s2, _, hr2, hm, _⟩ := plug_inv_tr H j s hs
  by_cases hij : i = j
  · subst hij; exact hm.gh.srcj
  · rw [hm.gh.src i hij]
    exact h s2 hr2 i (fun hp => hi ⟨hp, hij⟩)

theorem OnlySlots.noUpstream {St Loc α β : Type} {P : Nat → Prop} {M : Machine St Loc α β} (h : OnlySlots P M)
    (hP : ∀ i, ¬ P i) : ComposeFull.NoUpstream M := fun s hs i => h s hs i (hP i)

/-- the hypotheses of `plug`, from the roles: a closed head-capable source in a slot of a phase-safe operator -/
theorem hypP_of (U1 : UpSide M1) (hN : ComposeFull.NoUpstream M1) (h2 : ∀ s, SReach M2 s → BasicSafe s) : HypP M1 M2 :=
  ⟨hN, U1.noApp, .inr U1.sync, U1.safe, h2⟩

end Consequences

/-! ## Part 4: `concat!` as the operator being plugged into -/
namespace ConcatK
variable {α : Type}

abbrev Fm (α : Type) := Frame (Concat.Loc α) α

def Fr (stk : List (Fm α)) : Prop := ∀ f ∈ stk, ∀ o l, f = Frame.wait o l → l = Concat.Loc.done

def TopA (n : Nat) (st : Concat.St) : List (Fm α) → Prop
  | .run .t0 :: _ => st.i < n
  | .run .next :: _ => st.i ≤ n
  | _ => True

def K (n : Nat) (s : Sys Concat.St (Concat.Loc α) α α) : Prop :=
  s.panicked = none → (∀ i, n ≤ i → s.g.ph.srcPh i = .idle) ∧ Fr s.stack ∧ TopA n s.st s.stack

macro "cnoway" h:ident : tactic =>
  `(tactic| first
      | (simp [Concat.machine, Concat.step] at $h:ident; done)
      | (simp [Concat.machine, Concat.step] at $h:ident; split at $h:ident <;> simp at $h:ident; done))

theorem fr_run {l : Concat.Loc α} {f : Fm α} {stk : List (Fm α)} (h : Fr (f :: stk)) : Fr (.run l :: stk) := by
  intro f' hf o l' he
  rcases List.mem_cons.1 hf with rfl | hf
  · cases he
  · exact h f' (List.mem_cons_of_mem _ hf) o l' he

theorem fr_wait {o : Out α} {f : Fm α} {stk : List (Fm α)} (h : Fr (f :: stk)) : Fr (.wait o .done :: stk) := by
  intro f' hf o' l' he
  rcases List.mem_cons.1 hf with rfl | hf
  · cases he; rfl
  · exact h f' (List.mem_cons_of_mem _ hf) o' l' he

theorem fr_tail {f : Fm α} {stk : List (Fm α)} (h : Fr (f :: stk)) : Fr stk :=
  fun f' hf' => h f' (List.mem_cons_of_mem _ hf')

theorem fr_push {l : Concat.Loc α} {stk : List (Fm α)} (h : Fr stk) : Fr (.run l :: stk) := by
  intro f' hf o l' he
  rcases List.mem_cons.1 hf with rfl | hf
  · cases he
  · exact h f' hf o l' he

theorem K_reach (n : Nat) (hn : 0 < n) : ∀ s, SReach (Concat.machine α n) s → K n s := by
  apply reach_ind
  · intro _; exact ⟨fun i _ => by simp [Sys.init], fun f hf => (by cases hf), trivial⟩
  · intro a b ha ih hstep
    cases hstep with
    | @tau st l stk g tr s' l' hst =>
      intro _
      obtain ⟨h1, h2, h3⟩ := ih rfl
      simp only at h1 h2 h3 ⊢
      refine ⟨h1, fr_run h2, ?_⟩
      cases l with
      | t0 =>
        simp [Concat.machine, Concat.step] at hst
        obtain ⟨rfl, rfl⟩ := hst
        simp only [TopA] at h3 ⊢
        show st.i + 1 ≤ n
        omega
      | g0 j' => simp [Concat.machine, Concat.step] at hst; obtain ⟨rfl, rfl⟩ := hst; trivial
      | g1 => simp [Concat.machine, Concat.step] at hst; split at hst <;> simp at hst; obtain ⟨rfl, rfl⟩ := hst; trivial
      | g2 => simp [Concat.machine, Concat.step] at hst; split at hst <;> simp at hst; obtain ⟨rfl, rfl⟩ := hst; trivial
      | p0 => simp [Concat.machine, Concat.step] at hst; obtain ⟨rfl, rfl⟩ := hst; trivial
      | done => cnoway hst
      | next => cnoway hst
      | g3 => cnoway hst
      | fwd d => cnoway hst
      | u1 u => cnoway hst
    | @call st l stk g tr o s' l' hst =>
      intro _
      obtain ⟨h1, h2, h3⟩ := ih rfl
      simp only at h1 h2 h3 ⊢
      have keep : (∀ i, n ≤ i → o ≠ .subSrc i) → ∀ i, n ≤ i → (g.onOut (Concat.machine α n).shape o).ph.srcPh i = .idle := by
        intro ho i hi
        simp only [onOut_ph]
        exact ComposeFull.onOut_srcPh_idle_ne _ _ _ (h1 i hi) (ho i hi)
      cases l with
      | next =>
        by_cases hin : st.i = n
        · simp [Concat.machine, Concat.step, hin] at hst
          obtain ⟨rfl, rfl, rfl⟩ := hst
          exact ⟨keep (fun i _ h => by cases h), fr_wait h2, trivial⟩
        · have hlt : st.i < n := by simp only [TopA] at h3; omega
          simp [Concat.machine, Concat.step, hin] at hst
          obtain ⟨rfl, rfl, rfl⟩ := hst
          refine ⟨keep (fun i hi h => ?_), fr_wait h2, trivial⟩
          cases h
          omega
      | g1 =>
        simp [Concat.machine, Concat.step] at hst
        split at hst <;> simp at hst
        obtain ⟨rfl, rfl, rfl⟩ := hst
        exact ⟨keep (fun i _ h => by cases h), fr_wait h2, trivial⟩
      | g3 =>
        simp [Concat.machine, Concat.step] at hst
        split at hst <;> simp at hst
        obtain ⟨rfl, rfl, rfl⟩ := hst
        exact ⟨keep (fun i _ h => by cases h), fr_wait h2, trivial⟩
      | fwd d =>
        simp [Concat.machine, Concat.step] at hst
        obtain ⟨rfl, rfl, rfl⟩ := hst
        exact ⟨keep (fun i _ h => by cases h), fr_wait h2, trivial⟩
      | u1 u =>
        simp [Concat.machine, Concat.step] at hst
        split at hst <;> simp at hst
        obtain ⟨rfl, rfl, rfl⟩ := hst
        exact ⟨keep (fun i _ h => by cases h), fr_wait h2, trivial⟩
      | done => cnoway hst
      | g0 j' => cnoway hst
      | g2 => cnoway hst
      | t0 => cnoway hst
      | p0 => cnoway hst
    | @ret st l stk g tr hst =>
      intro _
      obtain ⟨h1, h2, h3⟩ := ih rfl
      simp only at h1 h2 h3 ⊢
      have hw := pop_turn _ ha
      refine ⟨by simpa using h1, fr_tail h2, ?_⟩
      cases stk with
      | nil => trivial
      | cons f r => obtain ⟨o, l0, rfl⟩ := hw f (List.mem_cons_self); trivial
    | panic hst => intro hp; cases hp
  · intro a b m ha ih hstep
    cases hstep with
    | @call st stk g tr c i hc hl =>
      intro _
      obtain ⟨h1, h2, _⟩ := ih rfl
      simp only at h1 h2 ⊢
      obtain ⟨_, _, _, hm⟩ := inv_at_turn (Concat.machine α n) (Concat.Inv n) (Concat.inv_init n)
        (fun s hi => (Concat.inv_turn n s hi).1) (Concat.inv_step n hn) ha ⟨rfl, by simp [hc]⟩
      simp only at hm
      simp only [onIn_ph]
      refine ⟨?_, fr_push h2, ?_⟩
      · intro i' hi'
        cases i with
        | subscribe k => simpa [Ph.onIn] using h1 i' hi'
        | sinkUp k u => cases u <;> simpa [Ph.onIn] using h1 i' hi'
        | srcGreet k =>
          have hk : k < n := by
            have := legal_srcGreet hl
            by_cases hk : k < n
            · exact hk
            · rw [h1 k (by omega)] at this; cases this
          have : i' ≠ k := by omega
          simpa [Ph.onIn, this] using h1 i' hi'
        | srcDown k d =>
          have hk : k < n := by
            have := legal_srcDown hl
            by_cases hk : k < n
            · exact hk
            · rw [h1 k (by omega)] at this; cases this
          have : i' ≠ k := by omega
          cases d <;> simpa [Ph.onIn, this] using h1 i' hi'
      · cases i with
        | subscribe k =>
          have hidle := legal_subscribe hl
          have hk : k = 0 := by
            simp only [legalIn, Bool.and_eq_true, beq_iff_eq, Concat.machine, Bool.or_false] at hl; exact hl.2
          subst hk
          have : st.i = 0 := by
            cases hm with
            | idle _ _ h3 _ => exact h3
            | waiting _ _ _ _ h5 h6 _ =>
              by_cases h0 : st.i = 0
              · exact h0
              · rw [h6 h0] at hidle; cases hidle
            | live _ _ h3 => rw [h3] at hidle; cases hidle
            | over h1' => rcases h1' with h | h <;> rw [h] at hidle <;> cases hidle
          simp [TopA, Concat.machine, Concat.enter, this]
        | sinkUp k u => cases u <;> simp [TopA, Concat.machine, Concat.enter]
        | srcGreet k => simp [TopA, Concat.machine, Concat.enter]
        | srcDown k d =>
          cases d with
          | data x => simp [TopA, Concat.machine, Concat.enter]
          | err e => simp [TopA, Concat.machine, Concat.enter]
          | term =>
            have hlive := legal_srcDown hl
            have : st.i < n := by
              cases hm with
              | live h1' => exact h1'
              | waiting h1' => exact h1'
              | idle _ h2' => rw [h2' k] at hlive; cases hlive
              | over _ h2' => exact absurd hlive (h2' k).1
            simpa [TopA, Concat.machine, Concat.enter] using this
    | @ret st stk g tr o l hl =>
      intro _
      obtain ⟨h1, h2, _⟩ := ih rfl
      simp only at h1 h2 ⊢
      have : l = .done := h2 _ (List.mem_cons_self) o l rfl
      subst this
      exact ⟨h1, fr_run h2, trivial⟩

end ConcatK

/-- `concat!(s_0, …, s_{n-1})` only ever uses the upstream slots `0 … n-1` -/
theorem Concat.onlySlots {α : Type} (n : Nat) (hn : 0 < n) : OnlySlots (· < n) (Concat.machine α n) := by
  intro s hs i hi
  exact (ConcatK.K_reach n hn s hs (Concat.concat_basicSafe n hn s hs).2).1 i (by omega)


/-! ## Part 5: `concat!(A, B)` of two closed sources, and a worked example -/
section Worked
open ComposeFull

/-- `concat!(A, B)` with both members plugged: a closed source that can head a pipeline, and is fully safe -/
theorem concat2_plugged {SA LA SB LB αA αB β : Type} {A : Machine SA LA αA β} {B : Machine SB LB αB β}
    (UA : UpSide A) (NA : NoUpstream A) (UB : UpSide B) (NB : NoUpstream B) :
    UpSide (plug 0 A (plug 1 B (Concat.machine β 2))) ∧ NoUpstream (plug 0 A (plug 1 B (Concat.machine β 2))) ∧
      ∀ s, SReach (plug 0 A (plug 1 B (Concat.machine β 2))) s → Safe s := by
  have HB : HypP B (Concat.machine β 2) := hypP_of UB NB (Concat.concat_basicSafe 2 (by decide))
  have UP : UpSide (plug 1 B (Concat.machine β 2)) := UpSide.plug HB 1 (Concat.upSide 2 (by decide))
  have HA : HypP A (plug 1 B (Concat.machine β 2)) := hypP_of UA NA (plug_basicSafe HB 1)
  have UQ := UpSide.plug HA 0 UP
  have NQ : NoUpstream (plug 0 A (plug 1 B (Concat.machine β 2))) :=
    (OnlySlots.plug HA 0 (OnlySlots.plug HB 1 (Concat.onlySlots 2 (by decide)))).noUpstream (fun i h => by omega)
  exact ⟨UQ, NQ, safe_of_noUpstream NQ UQ.safe⟩

/-- `pipe!(concat!(from_iter(a), pipe!(from_iter(b), map f)), take n, for_each g)`: phase-level safe at every reachable
configuration, and fully safe (C01–C05, C17) -/
theorem concat_fromIter_pipe_take_forEach {ιa ιb α β : Type} (nexta : ιa → Option (β × ιa)) (a0 : ιa)
    (nextb : ιb → Option (α × ιb)) (b0 : ιb) (f : α → β) (n : Nat) :
    ∀ s, SReach (compose (compose
        (plug 0 (FromIter.machine Unit nexta a0)
          (plug 1 (compose (FromIter.machine Unit nextb b0) (Relay.machine (Relay.map f))) (Concat.machine β 2)))
        (Take.machine β n)) (ForEach.machine β)) s → BasicSafe s ∧ Safe s ∧ SafeFor 4 s ∧ SafeFor 5 s := by
  have hmap := Relay.pipeable (Relay.map f) (fun _ _ _ => by simp [Relay.map])
  have UB : UpSide (compose (FromIter.machine Unit nextb b0) (Relay.machine (Relay.map f))) :=
    (FromIter.upSide nextb b0).compose' hmap
  have NB : NoUpstream (compose (FromIter.machine Unit nextb b0) (Relay.machine (Relay.map f))) :=
    (FromIter.noUpstream nextb b0).compose (hyp_of_roles (FromIter.upSide nextb b0) hmap.downSide)
  obtain ⟨UQ, _, _⟩ := concat2_plugged (FromIter.upSide nexta a0) (FromIter.noUpstream nexta a0) UB NB
  intro s hs
  have := closed_pipeline_full UQ (Take.pipeable n) s hs
  exact ⟨this.1.basic, this⟩

end Worked

end PlugSafe
end Cb

#print axioms Cb.PlugSafe.plug_inv_tr
#print axioms Cb.PlugSafe.plug_basicSafe
#print axioms Cb.PlugSafe.plug_proj
#print axioms Cb.PlugSafe.UpSide.plug
#print axioms Cb.PlugSafe.OnlySlots.plug
#print axioms Cb.PlugSafe.Concat.onlySlots
#print axioms Cb.PlugSafe.concat2_plugged
#print axioms Cb.PlugSafe.concat_fromIter_pipe_take_forEach
