import CallbagModel.Inv.ComposeSafe
import CallbagModel.Inv.FromIter
import CallbagModel.Inv.ForEach
import CallbagModel.Inv.Concat
import CallbagModel.Inv.Flatten
import CallbagModel.Inv.Merge
/-!
# Assume–guarantee by ROLE: heads, stages and tails of a pipeline

`Pipeable M` (ComposeSafe.lean) asks of `M` everything `compose_basicSafe` asks of either component.  Operators that qualify in one
role only — a source-like head (`from_iter`, `concat!`, `flatten`), a sink-like tail (`for_each`) — are covered by splitting it:

* `UpSide M`    what is asked of the upstream-side component `M₁`: `noApp`, `sync`, `safe`;
* `DownSide M`  what is asked of the downstream-side component `M₂`: `lg`, `oneSrc`, `opn`, `safe`;
* `Pipeable M ↔ UpSide M ∧ DownSide M` (`pipeable_iff`).

`compose_safe_of_roles : UpSide M₁ → DownSide M₂ → pipeline safe`, and the two closure lemmas that are true:
`UpSide.compose` (head ∘ stage is a head; uses `UpSide M₁`, and BOTH roles of the stage `M₂`), `DownSide.compose` (stage ∘ tail is a
tail; uses BOTH roles of the stage `M₁`, and `DownSide M₂`).  Payoff: `closed_pipeline_safe`, closed pull pipelines
`pipe!(head, stage, …, stage, for_each(f))` of any length.
-/
namespace Cb
open ComposeSafe

variable {St Loc S1 L1 S2 L2 α β γ : Type}

/-- what `compose_basicSafe` asks of the upstream-side component -/
structure UpSide (M : Machine St Loc α β) : Prop where
  noApp : ∀ st l b st' l', M.step st l ≠ .call (.app b) st' l'
  sync : ∀ s, SReach M s → s.stack = [] → s.g.ph.sinkPh 0 ≠ .subscribed
  safe : ∀ s, SReach M s → BasicSafe s

/-- what `compose_basicSafe` asks of the downstream-side component -/
structure DownSide (M : Machine St Loc α β) : Prop where
  lg : M.shape.lateGreet = false
  oneSrc : ∀ st l i st' l', M.step st l ≠ .call (.subSrc (i + 1)) st' l'
  opn : ∀ s, SReach M s → EnvTurn s → (s.g.ph.srcPh 0 = .subscribed ∨ s.g.ph.srcPh 0 = .live) → s.g.ph.anySinkOpen = true
  safe : ∀ s, SReach M s → BasicSafe s

theorem Pipeable.upSide {M : Machine St Loc α β} (P : Pipeable M) : UpSide M := ⟨P.noApp, P.sync, P.safe⟩
theorem Pipeable.downSide {M : Machine St Loc α β} (P : Pipeable M) : DownSide M := ⟨P.lg, P.oneSrc, P.opn, P.safe⟩

theorem pipeable_iff {M : Machine St Loc α β} : Pipeable M ↔ UpSide M ∧ DownSide M :=
  ⟨fun P => ⟨P.upSide, P.downSide⟩, fun ⟨U, D⟩ => ⟨D.lg, U.noApp, D.oneSrc, U.sync, D.opn, U.safe⟩⟩

theorem hyp_of_roles {M1 : Machine S1 L1 α β} {M2 : Machine S2 L2 β γ} (U : UpSide M1) (D : DownSide M2) : Hyp M1 M2 :=
  ⟨D.lg, U.noApp, D.oneSrc, U.sync, D.opn, U.safe, D.safe⟩

/-- **Assume–guarantee by role**: a head-capable operator followed by a tail-capable one -/
theorem compose_safe_of_roles {M1 : Machine S1 L1 α β} {M2 : Machine S2 L2 β γ} (U : UpSide M1) (D : DownSide M2) :
    ∀ s, SReach (compose M1 M2) s → BasicSafe s :=
  compose_basicSafe M1 M2 D.lg U.noApp D.oneSrc U.sync D.opn U.safe D.safe

/-- a head followed by a stage is a head.  Fields used: all of `UpSide M₁`; of `M₂`: `lg`, `oneSrc`, `opn`, `safe` (to compose at all),
`noApp` (the pipeline applies a closure iff `M₂` does) and `sync` (the pipeline's sink is `M₂`'s sink). -/
theorem UpSide.compose {M1 : Machine S1 L1 α β} {M2 : Machine S2 L2 β γ} (U1 : UpSide M1) (D2 : DownSide M2) (U2 : UpSide M2) :
    UpSide (Cb.compose M1 M2) := by
  have H := hyp_of_roles U1 D2
  refine ⟨compose_noApp U2.noApp, ?_, compose_safe_of_roles U1 D2⟩
  intro s hs hstk
  obtain ⟨s1, s2, hr1, hr2, hm⟩ := compose_inv H s hs
  obtain ⟨st, stk, g, tr, p⟩ := s
  obtain ⟨st1, k1, g1, tr1, p1⟩ := s1
  obtain ⟨st2, k2, g2, tr2, p2⟩ := s2
  obtain ⟨_, _, _, _, hgh, hsm⟩ := hm
  simp only at hstk hgh hsm ⊢
  subst hstk
  rw [hgh.sink 0]
  cases hsm with
  | turn hrel =>
    cases hrel with
    | nil => exact U2.sync _ hr2 rfl

theorem UpSide.compose' {M1 : Machine S1 L1 α β} {M2 : Machine S2 L2 β γ} (U1 : UpSide M1) (P2 : Pipeable M2) :
    UpSide (Cb.compose M1 M2) := U1.compose P2.downSide P2.upSide

/-- a stage followed by a tail is a tail.  Fields used: all of `DownSide M₂`; of `M₁`: `noApp`, `sync`, `safe` (to compose at all),
`lg` and `oneSrc` (the pipeline's upstreams are `M₁`'s) and `opn` (chained with `M₂`'s through the internal interface). -/
theorem DownSide.compose {M1 : Machine S1 L1 α β} {M2 : Machine S2 L2 β γ} (U1 : UpSide M1) (D1 : DownSide M1) (D2 : DownSide M2) :
    DownSide (Cb.compose M1 M2) := by
  have H := hyp_of_roles U1 D2
  refine ⟨D1.lg, compose_oneSrc D1.oneSrc, ?_, compose_safe_of_roles U1 D2⟩
  intro s hs ht h
  obtain ⟨s1, s2, hr1, hr2, hm⟩ := compose_inv H s hs
  obtain ⟨st, stk, g, tr, p⟩ := s
  obtain ⟨st1, k1, g1, tr1, p1⟩ := s1
  obtain ⟨st2, k2, g2, tr2, p2⟩ := s2
  obtain ⟨_, _, hp1, hp2, hgh, hsm⟩ := hm
  simp only at h hp1 hp2 hgh hsm ⊢
  have hturns : EnvTurn (⟨st1, k1, g1, tr1, p1⟩ : Sys S1 L1 α β) ∧ EnvTurn (⟨st2, k2, g2, tr2, p2⟩ : Sys S2 L2 β γ) := by
    cases hsm with
    | turn hrel => exact ⟨⟨hp1, hrel.turns.1⟩, ⟨hp2, hrel.turns.2⟩⟩
    | runLo hrel => have := ht.2; simp [ctxOf] at this
    | runHi hrel => have := ht.2; simp [ctxOf] at this
  rw [hgh.src 0] at h
  obtain ⟨k, hk⟩ := (Ph.anySinkOpen_iff _).1 (D1.opn _ hr1 hturns.1 h)
  simp only at hk
  have h2 : g2.ph.srcPh 0 = .subscribed ∨ g2.ph.srcPh 0 = .live := by
    cases k with
    | succ k => rw [hgh.sink1 k] at hk; rcases hk with hk | hk <;> cases hk
    | zero => rw [hgh.ifc]; rcases hk with hk | hk <;> rw [hk] <;> simp [toSrc]
  obtain ⟨k', hk'⟩ := (Ph.anySinkOpen_iff _).1 (D2.opn _ hr2 hturns.2 h2)
  exact (Ph.anySinkOpen_iff _).2 ⟨k', by rw [hgh.sink k']; exact hk'⟩

theorem DownSide.compose' {M1 : Machine S1 L1 α β} {M2 : Machine S2 L2 β γ} (P1 : Pipeable M1) (D2 : DownSide M2) :
    DownSide (Cb.compose M1 M2) := DownSide.compose P1.upSide P1.downSide D2

/-! ## Instances -/

/-- `from_iter`: no upstream at all, so it qualifies in both roles (`opn`, `oneSrc` are vacuous) -/
theorem FromIter.pipeable {ι α α' : Type} (next : ι → Option (α × ι)) (it0 : ι) :
    Pipeable (FromIter.machine α' next it0) := by
  have hinv : ∀ s, SReach (FromIter.machine α' next it0) s → EnvTurn s → FromIter.Inv s := fun s hs ht =>
    inv_at_turn (FromIter.machine α' next it0) FromIter.Inv (FromIter.inv_init next it0)
      (fun s hi => (FromIter.inv_turn s hi).1) (FromIter.inv_step next it0) hs ht
  refine ⟨rfl, ?_, ?_, ?_, ?_, FromIter.fromIter_basicSafe next it0⟩
  · intro st l b st' l'
    cases l <;> simp only [FromIter.machine, FromIter.step] <;> (repeat' split) <;> simp
  · intro st l i st' l'
    cases l <;> simp only [FromIter.machine, FromIter.step] <;> (repeat' split) <;> simp
  · intro s hs hstk
    have ht : EnvTurn s := ⟨(FromIter.fromIter_basicSafe next it0 s hs).2, by simp [hstk, ctxOf]⟩
    obtain ⟨_, _, _, _, hm⟩ := hinv s hs ht
    cases hm with
    | idle h _ _ _ _ _ _ => simp [h]
    | live0 h _ _ _ _ _ => simp [h]
    | live1 h _ _ _ _ _ => simp [h]
    | self0 h _ _ _ _ => simp [h]
    | self1 h _ _ _ _ => simp [h]
    | src0 h _ _ _ _ => simp [h]
    | src1 h _ _ _ _ => simp [h]
  · intro s hs ht h
    obtain ⟨_, _, hsrc, _, _⟩ := hinv s hs ht
    rw [hsrc 0] at h
    rcases h with h | h <;> cases h

theorem FromIter.upSide {ι α α' : Type} (next : ι → Option (α × ι)) (it0 : ι) : UpSide (FromIter.machine α' next it0) :=
  (FromIter.pipeable next it0).upSide

/-- `for_each`: a tail.  Its only sink (the user who applied it) is `subscribed` for ever, which counts as open.  It is NOT an
`UpSide`: it applies the user closure (`app`), and `sync` fails (its sink is never greeted). -/
theorem ForEach.downSide {α : Type} : DownSide (ForEach.machine α) := by
  refine ⟨rfl, ?_, ?_, ForEach.forEach_basicSafe⟩
  · intro st l i st' l'
    cases l <;> simp only [ForEach.machine, ForEach.step] <;> (repeat' split) <;> simp
  · intro s hs ht h
    obtain ⟨_, _, _, _, hm⟩ := inv_at_turn (ForEach.machine α) ForEach.Inv ForEach.inv_init
      (fun s hi => (ForEach.inv_turn s hi).1) ForEach.inv_step hs ht
    apply (Ph.anySinkOpen_iff _).2
    cases hm with
    | m1 _ h2 _ => simp [h2] at h
    | m2 h1 _ _ => exact ⟨0, .inl h1⟩
    | m3 h1 _ _ _ => exact ⟨0, .inl h1⟩
    | m3a h1 _ _ _ => exact ⟨0, .inl h1⟩
    | m4 _ h2 _ => simp [h2] at h

/-- n-ary `concat!` as the head of a pipeline; its members stay external upstreams of the pipeline.  Not a `DownSide` for `n ≥ 2`
(it subscribes to members `1 … n-1`; `compose` wires only upstream 0). -/
theorem Concat.upSide {α : Type} (n : Nat) (hn : 0 < n) : UpSide (Concat.machine α n) := by
  refine ⟨?_, ?_, Concat.concat_basicSafe n hn⟩
  · intro st l b st' l'
    cases l <;> simp only [Concat.machine, Concat.step] <;> (repeat' split) <;> simp
  · intro s hs hstk
    have ht : EnvTurn s := ⟨(Concat.concat_basicSafe n hn s hs).2, by simp [hstk, ctxOf]⟩
    obtain ⟨_, _, _, hm⟩ := inv_at_turn (Concat.machine α n) (Concat.Inv n) (Concat.inv_init n)
      (fun s hi => (Concat.inv_turn n s hi).1) (Concat.inv_step n hn) hs ht
    cases hm with
    | idle h _ _ _ => simp [h]
    | waiting _ _ _ _ _ _ h => obtain ⟨r, h, _⟩ := h; simp [hstk] at h
    | live _ _ h _ _ _ _ => simp [h]
    | over h _ _ => rcases h with h | h <;> simp [h]

/-- `flatten` as the head of a pipeline; the outer and all inner sources stay external.  Not a `DownSide` (it subscribes to the
inner sources `1, 2, …`). -/
theorem Flatten.upSide {α : Type} : UpSide (Flatten.machine α) := by
  refine ⟨?_, ?_, Flatten.flatten_basicSafe⟩
  · intro st l b st' l'
    cases l <;> simp only [Flatten.machine, Flatten.step] <;> (repeat' split) <;> simp
  · intro s hs hstk
    have ht : EnvTurn s := ⟨(Flatten.flatten_basicSafe s hs).2, by simp [hstk, ctxOf]⟩
    obtain ⟨_, _, _, _, _, hm⟩ := inv_at_turn (Flatten.machine α) Flatten.Inv Flatten.inv_init
      (fun s hi => (Flatten.inv_turn s hi).1) Flatten.inv_step hs ht
    cases hm with
    | init h _ _ _ _ _ => simp [h]
    | sub _ _ h _ _ _ => simp [hstk] at h
    | live h _ _ _ _ => simp [h]
    | wgreet _ _ _ _ _ _ _ h => obtain ⟨r, h, _⟩ := h; simp [hstk] at h
    | od1 _ _ _ _ h => obtain ⟨r, h, _⟩ := h; simp [hstk] at h
    | oe1 _ _ _ _ h => obtain ⟨r, h, _⟩ := h; simp [hstk] at h
    | ie1 _ _ _ h => obtain ⟨r, h, _⟩ := h; simp [hstk] at h
    | x1 _ _ _ _ h => obtain ⟨r, h, _⟩ := h; simp [hstk] at h
    | fin h _ _ => rcases h with h | h <;> simp [h]

/-! ## Payoff: closed pull pipelines of any length -/

/-- `pipe!(head, stage, for_each(f))` where `stage` may itself be a pipeline of stages (`Pipeable.compose`): phase-level safe
(C01–C03, protocol part of C04 at the boundary to the head's external upstreams and to the user) and never panics (C17) -/
theorem closed_pipeline_safe {Msrc : Machine S1 L1 α β} {Mmid : Machine S2 L2 β γ} (hsrc : UpSide Msrc) (hmid : Pipeable Mmid) :
    ∀ s, SReach (compose (compose Msrc Mmid) (ForEach.machine γ)) s → BasicSafe s :=
  compose_safe_of_roles (hsrc.compose' hmid) ForEach.downSide

/-- the same, bracketed the other way: `pipe!(head, pipe!(stage, for_each(f)))` -/
theorem closed_pipeline_safe' {Msrc : Machine S1 L1 α β} {Mmid : Machine S2 L2 β γ} (hsrc : UpSide Msrc) (hmid : Pipeable Mmid) :
    ∀ s, SReach (compose Msrc (compose Mmid (ForEach.machine γ))) s → BasicSafe s :=
  compose_safe_of_roles hsrc (DownSide.compose' hmid ForEach.downSide)

/-- no stage at all: `pipe!(head, for_each(f))` -/
theorem closed_pipeline_safe₀ {Msrc : Machine S1 L1 α β} (hsrc : UpSide Msrc) :
    ∀ s, SReach (compose Msrc (ForEach.machine β)) s → BasicSafe s :=
  compose_safe_of_roles hsrc ForEach.downSide

/-- `pipe!(from_iter(it), filter(p), map(f), take(n), for_each(g))` -/
example {ι α β : Type} (next : ι → Option (α × ι)) (it0 : ι) (p : α → Bool) (f : α → β) (n : Nat) :
    ∀ s, SReach (compose (compose (FromIter.machine Unit next it0)
        (compose (compose (Relay.machine (Relay.filter p)) (Relay.machine (Relay.map f))) (Take.machine β n)))
        (ForEach.machine β)) s → BasicSafe s :=
  closed_pipeline_safe (FromIter.upSide next it0)
    (((Relay.pipeable (Relay.filter p) (fun h => by simp [Relay.filter] at h)).compose
      (Relay.pipeable (Relay.map f) (fun _ _ _ => by simp [Relay.map]))).compose (Take.pipeable n))

/-- `pipe!(concat!(a, b), skip(k), for_each(g))`: the two members `a`, `b` are the external upstreams 0, 1 of the pipeline -/
example {α : Type} (k : Nat) :
    ∀ s, SReach (compose (compose (Concat.machine α 2) (Relay.machine (Relay.skip k))) (ForEach.machine α)) s → BasicSafe s :=
  closed_pipeline_safe (Concat.upSide 2 (by decide)) (Relay.pipeable (Relay.skip k) (fun h => by simp [Relay.skip] at h))

/-- `pipe!(flatten(outer), scan(r, seed), take(n), for_each(g))` -/
example {α β : Type} (r : β → α → β) (seed : β) (n : Nat) :
    ∀ s, SReach (compose (compose (Flatten.machine α)
        (compose (Relay.machine (Relay.scan r seed)) (Take.machine β n))) (ForEach.machine β)) s → BasicSafe s :=
  closed_pipeline_safe Flatten.upSide
    ((Relay.pipeable (Relay.scan r seed) (fun _ _ _ => by simp [Relay.scan])).compose (Take.pipeable n))

/-! ## `merge!` is not an instance, in either role -/

/-- as a tail: `merge!` is proved safe (`merge_basicSafe`) for the shape `lateGreet := true` — its members may greet after the
subscribing call has returned — and `compose_basicSafe` needs `lateGreet = false` of the downstream-side component (besides, for
`n ≥ 2` it has more than one upstream) -/
theorem Merge.not_downSide {α : Type} (n : Nat) : ¬ DownSide (Merge.machine α n) := by
  intro D
  have := D.lg
  simp [Merge.machine] at this

/-- as a head: `sync` fails.  Because members may greet late, the subscribing call can return before the sink has been greeted:
`subscribe 0; [subSrc 0; ret]` ends with an empty stack and the sink still `subscribed` -/
theorem Merge.not_sync {α : Type} :
    ¬ (∀ s, SReach (Merge.machine α 1) s → s.stack = [] → s.g.ph.sinkPh 0 ≠ .subscribed) := by
  intro h
  have r0 : SReach (Merge.machine α 1) (Sys.init (Merge.machine α 1)) := .init
  have e1 := EnvStep.call (M := Merge.machine α 1) (st := (Merge.machine α 1).init) (stk := []) (g := {}) (tr := [])
    (.subscribe 0) rfl (by simp [legalIn, isTop])
  have r1 := reach_env r0 e1
  have r2 := reach_op r1 (OStep.tau (s' := (Merge.machine α 1).init) (l' := .subCall 0)
    (by simp [Merge.machine, Merge.step, Merge.enter]))
  have r3 := reach_op r2 (OStep.call (o := .subSrc 0) (s' := (Merge.machine α 1).init) (l' := .subLoop 1)
    (by simp [Merge.machine, Merge.step]))
  have e4 := EnvStep.ret (M := Merge.machine α 1) (st := (Merge.machine α 1).init) (stk := [])
    (g := (({} : G).onIn 0 (.subscribe 0 : In α)).onOut (Merge.machine α 1).shape (.subSrc 0 : Out α))
    (tr := [.out (.subSrc 0), .inp (.subscribe 0)]) (o := .subSrc 0) (l := .subLoop 1) (by simp [legalRet, Merge.machine])
  have r4 := reach_env r3 e4
  have r5 := reach_op r4 (OStep.ret (by simp [Merge.machine, Merge.step]))
  refine h _ r5 rfl ?_
  have hopen : (({} : Ph).setSink 0 .subscribed).anySinkOpen = true := (Ph.anySinkOpen_iff _).2 ⟨0, by simp⟩
  simp [Ph.onIn, Ph.onOut, hopen]

theorem Merge.not_upSide {α : Type} : ¬ UpSide (Merge.machine α 1) := fun U => Merge.not_sync U.sync

/-! ## the other non-instances, for the record -/

/-- `for_each` applies the user's closure: it cannot be the upstream-side component (`compose` has no `app` there) -/
theorem ForEach.not_upSide {α : Type} (a : α) : ¬ UpSide (ForEach.machine α) :=
  fun U => U.noApp {} (.d0 a) a {} .pull rfl

/-- `concat!(a, b)` subscribes to member 1: it cannot be the downstream-side component (only upstream 0 is wired) -/
theorem Concat.not_downSide {α : Type} : ¬ DownSide (Concat.machine α 2) :=
  fun D => D.oneSrc ⟨1, none, false⟩ .next 0 ⟨1, none, false⟩ .done (by simp [Concat.machine, Concat.step])

/-- `flatten` subscribes to the inner sources 1, 2, …: it cannot be the downstream-side component -/
theorem Flatten.not_downSide {α : Type} : ¬ DownSide (Flatten.machine α) :=
  fun D => D.oneSrc {} .od1 0 { nextId := 2 } .done (by simp [Flatten.machine, Flatten.step])

end Cb

#print axioms Cb.compose_safe_of_roles
#print axioms Cb.UpSide.compose
#print axioms Cb.DownSide.compose
#print axioms Cb.FromIter.pipeable
#print axioms Cb.ForEach.downSide
#print axioms Cb.Concat.upSide
#print axioms Cb.Flatten.upSide
#print axioms Cb.closed_pipeline_safe
#print axioms Cb.closed_pipeline_safe'
#print axioms Cb.Merge.not_sync
