import CallbagModel.Inv.FlatPlugSafe
/-!
# `PullOnly`: sources that deliver data only in answer to a `Pull`

`PullOnly M`: at every reachable configuration of `M`, every datum delivered to sink 0 was preceded by an unserved `Pull` of sink 0
(`POk (sinkEvs s.tr)`: before `down 0 (data _)`, the flag `aP` = `lastPull 0` of the trace so far is true).  This is what
`flatten(map(g)(outer))` needs of its OUTER source (`Inv/FlatPlugFun.lean`): flatten switches on every outer datum, so an outer datum that
answers no `Pull` of flatten cuts the current inner source short (the execution in `Inv/FlatPlugSafe.lean`).

* `FromIter.pullOnly`: `from_iter` is `PullOnly` (small-step invariant `FromIterP.K`).
* `StagePull M`: a stage delivers data only in answer to a `Pull` provided its upstream does (`POkSrc 0 (srcEvs s.tr)`);
  `Relay.stagePull` (`map`, `filter`, `scan`, `skip`), `Take.stagePull` (small-step invariants `RelayP.K`, `TakeP.K`, conditional on the
  assumption about the trace, which is closed under taking tails).
* `PullOnly.compose`: `PullOnly M₁ → StagePull M₂ → Hyp M₁ M₂ → PullOnly (compose M₁ M₂)` (by the projection of `Inv/ComposeFun.lean`).
  Hence every linear head `chainM xs ss` is `PullOnly` (`Closed/Prog2.lean`, `chain_pullOnly`).

NOT `PullOnly` in general: `concat!` (its second member is pulled when the first ends, whether or not a `Pull` is outstanding), and
`flatten` itself (see `Inv/FlatPlugFun.lean`).
-/
namespace Cb
namespace FlatPlugFun
open ComposeSafe ComposeFun ComposeComplete PlugSafe PlugConcat FlatPlugSafe

/-! ## Part 1: `PullOnly` -/
section PullOnlyDefs
variable {St Loc α β : Type}

def isData0 {β : Type} : SinkEv β → Bool
  | .down k (.data _) => k == 0
  | _ => false

def isDataJ {α : Type} (j : Nat) : SrcEv α → Bool
  | .down i (.data _) => i == j
  | _ => false

/-- every datum delivered to sink 0 was preceded by an unserved `Pull` of sink 0 (events newest first) -/
def POk {β : Type} : List (SinkEv β) → Prop
  | [] => True
  | e :: t => (isData0 e = true → lastPull 0 t = true) ∧ POk t

/-- every datum received from upstream `j` was preceded by an unserved `Pull` to upstream `j` -/
def POkSrc {α : Type} (j : Nat) : List (SrcEv α) → Prop
  | [] => True
  | e :: t => (isDataJ j e = true → lastPullSrc j t = true) ∧ POkSrc j t

/-- `M` delivers data only in answer to a `Pull` -/
def PullOnly (M : Machine St Loc α β) : Prop := ∀ s, SReach M s → POk (sinkEvs s.tr)

/-- a stage delivers data only in answer to a `Pull`, provided its upstream does -/
def StagePull (M : Machine St Loc α β) : Prop := ∀ s, SReach M s → POkSrc 0 (srcEvs s.tr) → POk (sinkEvs s.tr)

theorem POkSrc.tail {α : Type} {j : Nat} {e : SrcEv α} {t : List (SrcEv α)} (h : POkSrc j (e :: t)) : POkSrc j t := h.2

theorem pOkSrc_dualEvs {β : Type} (l : List (SinkEv β)) (h : POk l) : POkSrc 0 (dualEvs l) := by
  induction l with
  | nil => trivial
  | cons e t ih =>
    obtain ⟨h1, h2⟩ := h
    cases e with
    | down k d =>
      simp only [dualEvs, dual, consOpt_some]
      refine ⟨fun hd => ?_, ih h2⟩
      rw [← lastPull_dual]
      cases d <;> simp [isDataJ] at hd
      subst hd
      exact h1 (by simp [isData0])
    | subscribe k => simp only [dualEvs, dual, consOpt_some]; exact ⟨fun hd => by simp [isDataJ] at hd, ih h2⟩
    | up k u => simp only [dualEvs, dual, consOpt_some]; exact ⟨fun hd => by simp [isDataJ] at hd, ih h2⟩
    | greet k => simp only [dualEvs, dual, consOpt_some]; exact ⟨fun hd => by simp [isDataJ] at hd, ih h2⟩
    | app b => simp only [dualEvs, dual, consOpt_none]; exact ih h2

theorem pOkSrc_dualJ {β : Type} (j : Nat) (l : List (SinkEv β)) (h : POk l) : POkSrc j (dualJ j l) := by
  induction l with
  | nil => trivial
  | cons e t ih =>
    obtain ⟨h1, h2⟩ := h
    simp only [dualJ]
    cases hd : dual1 j e with
    | none => simpa using ih h2
    | some x =>
      simp only [consOpt_some]
      refine ⟨fun hx => ?_, ih h2⟩
      rw [← lastPull_dualJ]
      apply h1
      cases e with
      | down k d =>
        simp only [dual1] at hd
        split at hd
        · rename_i hk; subst hk
          cases hd
          cases d <;> simp [isDataJ] at hx
          simp [isData0]
        · cases hd
      | subscribe k => simp only [dual1] at hd; split at hd <;> cases hd; simp [isDataJ] at hx
      | up k u => simp only [dual1] at hd; split at hd <;> cases hd; simp [isDataJ] at hx
      | greet k => simp only [dual1] at hd; split at hd <;> cases hd; simp [isDataJ] at hx
      | app b => cases hd

theorem pOkSrc_of_srcEq {α : Type} (j : Nat) (l : List (SrcEv α)) (h : POkSrc j (srcEq j l)) : POkSrc j l := by
  induction l with
  | nil => trivial
  | cons e t ih =>
    by_cases hi : srcIdx e = j
    · have he : srcEq j (e :: t) = e :: srcEq j t := by simp [srcEq, hi]
      rw [he] at h
      exact ⟨fun hd => by rw [← lastPullSrc_srcEq]; exact h.1 hd, ih h.2⟩
    · have he : srcEq j (e :: t) = srcEq j t := by simp [srcEq, hi]
      rw [he] at h
      refine ⟨fun hd => ?_, ih h⟩
      exfalso
      cases e with
      | down i d => cases d <;> simp [isDataJ] at hd; exact hi (by simpa [srcIdx] using hd)
      | greet i => simp [isDataJ] at hd
      | sub i => simp [isDataJ] at hd
      | up i u => simp [isDataJ] at hd

/-- a `PullOnly` head followed by a pull-preserving stage is `PullOnly` -/
theorem PullOnly.compose {S1 L1 S2 L2 α β γ : Type} {M1 : Machine S1 L1 α β} {M2 : Machine S2 L2 β γ}
    (h1 : PullOnly M1) (h2 : StagePull M2) (H : Hyp M1 M2) : PullOnly (Cb.compose M1 M2) := by
  intro s hs
  obtain ⟨s1, s2, hr1, hr2, _, htr⟩ := compose_inv_tr H s hs
  rw [htr.sink]
  apply h2 s2 hr2
  rw [← htr.ifc]
  exact pOkSrc_dualEvs _ (h1 s1 hr1)

end PullOnlyDefs

macro "pev" : tactic =>
  `(tactic| simp [POk, POkSrc, isData0, isDataJ, aP, bP, sinkEvs, sinkEv, srcEvs, srcEv, lastPull, lastPullSrc, relS, relSrc] at *)

/-! ### `from_iter` -/
namespace FromIterP
variable {ι α α' : Type}

def Fl (st : FromIter.St ι α) (tr : List (Ev α' α)) : List (Frame FromIter.Loc α) → Prop
  | .run (.t0 .pull) :: _ => aP tr = true
  | .run (.t1 .pull) :: _ => aP tr = true
  | .run .w1 :: _ => st.gotPull = true
  | .run .w2 :: _ => st.gotPull = true
  | .run .w3 :: _ => aP tr = true ∧ st.gotPull = false
  | .run .w4 :: _ => aP tr = true ∧ st.gotPull = false
  | _ => True

structure K (s : Sys (FromIter.St ι α) FromIter.Loc α' α) : Prop where
  pok : POk (sinkEvs s.tr)
  gp : s.st.gotPull = true → aP s.tr = true
  fl : Fl s.st s.tr s.stack

macro "fstp" h:ident : tactic =>
  `(tactic| first
      | (simp [FromIter.machine, FromIter.step] at $h:ident; done)
      | (simp [FromIter.machine, FromIter.step] at $h:ident; split at $h:ident <;> simp at $h:ident; done)
      | (simp [FromIter.machine, FromIter.step] at $h:ident; split at $h:ident <;> (try split at $h:ident) <;> simp at $h:ident; done))

theorem fl_turn {st : FromIter.St ι α} {tr : List (Ev α' α)} {stk : List (Frame FromIter.Loc α)}
    (h : ∀ f ∈ stk, ∃ o l, f = Frame.wait o l) : Fl st tr stk := by
  cases stk with
  | nil => trivial
  | cons f r => obtain ⟨o, l, rfl⟩ := h f List.mem_cons_self; trivial

theorem K_reach (next : ι → Option (α × ι)) (it0 : ι) :
    ∀ s, SReach (FromIter.machine α' next it0) s → s.panicked = none → K s := by
  apply reach_ind
  · intro _; exact ⟨trivial, fun h => by simp [Sys.init, FromIter.machine] at h, trivial⟩
  · intro a b ha ih hstep
    cases hstep with
    | @tau st l stk g tr s' l' hst =>
      intro _
      obtain ⟨h1, h2, h3⟩ := ih rfl
      simp only at h1 h2 h3
      cases l with
      | t0 u =>
        simp [FromIter.machine, FromIter.step] at hst
        split at hst <;> simp at hst
        obtain ⟨rfl, rfl⟩ := hst
        exact ⟨h1, h2, by cases u <;> simpa [Fl] using h3⟩
      | t1 u =>
        cases u with
        | pull =>
          simp [FromIter.machine, FromIter.step] at hst
          obtain ⟨rfl, rfl⟩ := hst
          simp only [Fl] at h3
          exact ⟨h1, fun _ => h3, trivial⟩
        | term => simp [FromIter.machine, FromIter.step] at hst; obtain ⟨rfl, rfl⟩ := hst; exact ⟨h1, h2, trivial⟩
        | err e => simp [FromIter.machine, FromIter.step] at hst; obtain ⟨rfl, rfl⟩ := hst; exact ⟨h1, h2, trivial⟩
      | pl1 =>
        simp [FromIter.machine, FromIter.step] at hst
        split at hst <;> simp at hst
        obtain ⟨rfl, rfl⟩ := hst
        exact ⟨h1, h2, trivial⟩
      | pl2 =>
        simp [FromIter.machine, FromIter.step] at hst
        split at hst <;> simp at hst
        obtain ⟨rfl, rfl⟩ := hst
        exact ⟨h1, h2, trivial⟩
      | l0 => simp [FromIter.machine, FromIter.step] at hst; obtain ⟨rfl, rfl⟩ := hst; exact ⟨h1, h2, trivial⟩
      | w0 =>
        by_cases hg : st.gotPull = true
        · simp [FromIter.machine, FromIter.step, hg] at hst
          obtain ⟨rfl, rfl⟩ := hst
          exact ⟨h1, h2, hg⟩
        · simp [FromIter.machine, FromIter.step, hg] at hst
          obtain ⟨rfl, rfl⟩ := hst
          exact ⟨h1, h2, trivial⟩
      | w1 =>
        simp [FromIter.machine, FromIter.step] at hst
        split at hst <;> simp at hst <;> obtain ⟨rfl, rfl⟩ := hst
        · exact ⟨h1, h2, by simpa [Fl] using h3⟩
        · exact ⟨h1, h2, trivial⟩
      | w2 =>
        simp [FromIter.machine, FromIter.step] at hst
        obtain ⟨rfl, rfl⟩ := hst
        simp only [Fl] at h3
        exact ⟨h1, fun h => by simp at h, ⟨h2 h3, rfl⟩⟩
      | w3 =>
        simp [FromIter.machine, FromIter.step] at hst
        simp only [Fl] at h3
        split at hst <;> simp at hst <;> obtain ⟨rfl, rfl⟩ := hst
        · exact ⟨h1, fun h => by simp [h3.2] at h, by simpa [Fl] using h3⟩
        · exact ⟨h1, fun h => by simp [h3.2] at h, by simpa [Fl] using h3⟩
      | lend => simp [FromIter.machine, FromIter.step] at hst; obtain ⟨rfl, rfl⟩ := hst; exact ⟨h1, h2, trivial⟩
      | done => fstp hst
      | sub0 => fstp hst
      | w4 => fstp hst
    | @call st l stk g tr o s' l' hst =>
      intro _
      obtain ⟨h1, h2, h3⟩ := ih rfl
      simp only at h1 h2 h3
      cases l with
      | sub0 =>
        simp [FromIter.machine, FromIter.step] at hst
        obtain ⟨rfl, rfl, rfl⟩ := hst
        exact ⟨by pev; exact h1, fun h => by have := h2 h; pev; exact this, trivial⟩
      | w4 =>
        simp only [Fl] at h3
        simp [FromIter.machine, FromIter.step] at hst
        split at hst
        · simp at hst
          obtain ⟨rfl, rfl, rfl⟩ := hst
          exact ⟨by pev; exact h1, fun h => by simp [h3.2] at h, trivial⟩
        · split at hst <;> simp at hst
          obtain ⟨rfl, rfl, rfl⟩ := hst
          refine ⟨?_, fun h => by simp [h3.2] at h, trivial⟩
          have := h3.1
          pev
          exact ⟨this, h1⟩
      | done => fstp hst
      | t0 u => fstp hst
      | t1 u => cases u <;> fstp hst
      | pl1 => fstp hst
      | pl2 => fstp hst
      | l0 => fstp hst
      | w0 => fstp hst
      | w1 => fstp hst
      | w2 => fstp hst
      | w3 => fstp hst
      | lend => fstp hst
    | @ret st l stk g tr hst =>
      intro _
      obtain ⟨h1, h2, h3⟩ := ih rfl
      simp only at h1 h2 h3
      exact ⟨by pev; exact h1, fun h => by have := h2 h; pev; exact this, fl_turn (pop_turn _ ha)⟩
    | panic hst => intro hp; cases hp
  · intro a b m ha ih hstep
    cases hstep with
    | @call st stk g tr c i hc hl =>
      intro _
      obtain ⟨h1, h2, h3⟩ := ih rfl
      simp only at h1 h2 h3
      obtain ⟨_, _, hsrc, hoths, hm⟩ := inv_at_turn (FromIter.machine α' next it0) FromIter.Inv (FromIter.inv_init next it0)
        (fun s hi => (FromIter.inv_turn s hi).1) (FromIter.inv_step next it0) ha ⟨rfl, by simp [hc]⟩
      simp only at hsrc hoths
      cases i with
      | subscribe k =>
        exact ⟨by pev; exact h1, fun h => by have := h2 h; pev; exact this, by simp [Fl, FromIter.machine, FromIter.enter]⟩
      | sinkUp k u =>
        have hk : k = 0 := by
          have := legal_sinkUp hl
          by_cases hk : k = 0
          · exact hk
          · rw [hoths k hk] at this; cases this
        subst hk
        cases u with
        | pull => exact ⟨by pev; exact h1, fun _ => by pev, by simp [Fl, FromIter.machine, FromIter.enter]; pev⟩
        | term => exact ⟨by pev; exact h1, fun h => by have := h2 h; pev; exact this, by simp [Fl, FromIter.machine, FromIter.enter]⟩
        | err e => exact ⟨by pev; exact h1, fun h => by have := h2 h; pev; exact this, by simp [Fl, FromIter.machine, FromIter.enter]⟩
      | srcGreet j => have := legal_srcGreet hl; rw [hsrc j] at this; cases this
      | srcDown j d => have := legal_srcDown hl; rw [hsrc j] at this; cases this
    | @ret st stk g tr o l hl =>
      intro _
      obtain ⟨h1, h2, h3⟩ := ih rfl
      simp only at h1 h2 h3
      have hfr := (FromIterK.K_reach next it0 _ ha rfl).1
      refine ⟨by pev; exact h1, fun h => by have := h2 h; pev; exact this, ?_⟩
      rcases hfr _ List.mem_cons_self o l rfl with rfl | rfl | rfl <;> trivial

end FromIterP

/-- `from_iter` delivers data only in answer to a `Pull` -/
theorem FromIter.pullOnly {ι α α' : Type} (next : ι → Option (α × ι)) (it0 : ι) : PullOnly (FromIter.machine α' next it0) :=
  fun s hs => by
    by_cases hp : s.panicked = none
    · exact (FromIterP.K_reach next it0 s hs hp).pok
    · exact absurd (FromIter.fromIter_basicSafe next it0 s hs).2 hp


/-! ### relay stages (`map`, `filter`, `scan`, `skip`) -/
namespace RelayP
variable {σ α β : Type}

def Fl (tr : List (Ev α β)) : List (Frame (Relay.Loc α β) β) → Prop
  | .run (.d0 _) :: _ => aP tr = true ∧ bP tr = false
  | .run (.emit _) :: _ => aP tr = true ∧ bP tr = false
  | .run .repull :: _ => aP tr = true
  | .run (.fwd d) :: _ => bP tr = false ∧ ∀ b, d ≠ .data b
  | .run (.u0 .pull) :: _ => aP tr = true
  | _ => True

def K (s : Sys (Relay.St σ) (Relay.Loc α β) α β) : Prop :=
  s.panicked = none → POkSrc 0 (srcEvs s.tr) →
    POk (sinkEvs s.tr) ∧ (bP s.tr = true → aP s.tr = true) ∧ Fl s.tr s.stack

macro "rnoway" h:ident : tactic =>
  `(tactic| first
      | (simp [Relay.machine, Relay.step] at $h:ident; done)
      | (simp [Relay.machine, Relay.step] at $h:ident; split at $h:ident <;> simp at $h:ident; done))

theorem K_reach (k : Relay.Kind σ α β) (hk : k.slotted = false → ∀ s a, (k.xfer s a).2 ≠ none) :
    ∀ s, SReach (Relay.machine k) s → K s := by
  apply reach_ind
  · intro _ _; exact ⟨trivial, fun h => by simp [bP, srcEvs, lastPullSrc, Sys.init] at h, trivial⟩
  · intro a b ha ih h
    cases h with
    | @tau st l stk g tr s' l' hst =>
      intro _ hC
      obtain ⟨h1, h2, h3⟩ := ih rfl hC
      simp only at h1 h2 h3 ⊢
      refine ⟨h1, h2, ?_⟩
      cases l with
      | g0 =>
        have : l' = .g1 := by
          simp [Relay.machine, Relay.step] at hst; split at hst <;> simp at hst <;> exact hst.2.symm
        subst this; trivial
      | d0 x =>
        have : l' = .repull ∨ ∃ y, l' = .emit y := by
          simp [Relay.machine, Relay.step] at hst
          split at hst <;> simp at hst
          · exact .inr ⟨_, hst.2.symm⟩
          · exact .inl hst.2.symm
        simp only [Fl] at h3
        rcases this with rfl | ⟨y, rfl⟩
        · exact h3.1
        · exact h3
      | sub0 => rnoway hst
      | done => rnoway hst
      | g1 => rnoway hst
      | emit y => rnoway hst
      | repull => rnoway hst
      | fwd d => rnoway hst
      | u0 u => rnoway hst
    | @call st l stk g tr o s' l' hst =>
      intro _ hC
      cases l with
      | sub0 =>
        simp [Relay.machine, Relay.step] at hst
        obtain ⟨rfl, rfl, rfl⟩ := hst
        obtain ⟨h1, h2, h3⟩ := ih rfl (by pev; exact hC)
        refine ⟨?_, ?_, trivial⟩ <;> pev <;> assumption
      | g1 =>
        simp [Relay.machine, Relay.step] at hst
        obtain ⟨rfl, rfl, rfl⟩ := hst
        obtain ⟨h1, h2, h3⟩ := ih rfl (by pev; exact hC)
        refine ⟨?_, ?_, trivial⟩ <;> pev <;> assumption
      | emit y =>
        simp [Relay.machine, Relay.step] at hst
        obtain ⟨rfl, rfl, rfl⟩ := hst
        obtain ⟨h1, h2, h3⟩ := ih rfl (by pev; exact hC)
        simp only [Fl] at h3
        refine ⟨?_, ?_, trivial⟩
        · have := h3.1; pev; exact ⟨this, h1⟩
        · have := h3.2; pev; simp [this]
      | fwd d =>
        simp [Relay.machine, Relay.step] at hst
        obtain ⟨rfl, rfl, rfl⟩ := hst
        obtain ⟨h1, h2, h3⟩ := ih rfl (by pev; exact hC)
        simp only [Fl] at h3
        refine ⟨?_, ?_, trivial⟩
        · cases d with
          | data b => exact absurd rfl (h3.2 b)
          | term => pev; exact h1
          | err e => pev; exact h1
        · pev; simp [h3.1]
      | repull =>
        simp [Relay.machine, Relay.step] at hst
        split at hst <;> simp at hst
        obtain ⟨rfl, rfl, rfl⟩ := hst
        obtain ⟨h1, h2, h3⟩ := ih rfl (by pev; exact hC)
        simp only [Fl] at h3
        refine ⟨?_, ?_, trivial⟩
        · pev; exact h1
        · pev; exact h3
      | u0 u =>
        simp [Relay.machine, Relay.step] at hst
        split at hst <;> simp at hst
        obtain ⟨rfl, rfl, rfl⟩ := hst
        obtain ⟨h1, h2, h3⟩ := ih rfl (by pev; exact hC)
        refine ⟨by pev; exact h1, ?_, trivial⟩
        cases u with
        | pull => simp only [Fl] at h3; pev; exact h3
        | term => pev; exact h2
        | err e => pev; exact h2
      | done => rnoway hst
      | g0 => rnoway hst
      | d0 x => rnoway hst
    | @ret st l stk g tr hst =>
      intro _ hC
      obtain ⟨h1, h2, h3⟩ := ih rfl (by pev; exact hC)
      have : Fl (Ev.retO :: tr) stk := by
        have := pop_turn _ ha
        cases stk with
        | nil => trivial
        | cons f r => obtain ⟨o, l, rfl⟩ := this f List.mem_cons_self; trivial
      refine ⟨?_, ?_, this⟩ <;> pev <;> assumption
    | panic hst => intro hp; cases hp
  · intro a b m ha ih h
    cases h with
    | @call st stk g tr c i hc hl =>
      intro _ hC
      obtain ⟨_, _, hsrc, hsnk, hm⟩ := inv_at_turn (Relay.machine k) (Relay.Inv k) (Relay.inv_init k)
        (fun s hi => (Relay.inv_turn k s hi).1) (Relay.inv_step k hk) ha ⟨rfl, by simp [hc]⟩
      simp only at hsrc hsnk
      cases i with
      | subscribe j =>
        obtain ⟨h1, h2, h3⟩ := ih rfl (by pev; exact hC)
        refine ⟨?_, ?_, trivial⟩ <;> pev <;> assumption
      | sinkUp j u =>
        have hj : j = 0 := by
          have := legal_sinkUp hl
          by_cases hj : j = 0
          · exact hj
          · rw [hsnk j hj] at this; cases this
        subst hj
        obtain ⟨h1, h2, h3⟩ := ih rfl (by pev; exact hC)
        cases u with
        | pull => exact ⟨by pev; exact h1, by pev, by simp [Fl, Relay.machine, Relay.enter]; pev⟩
        | term => refine ⟨?_, ?_, trivial⟩ <;> pev <;> assumption
        | err e => refine ⟨?_, ?_, trivial⟩ <;> pev <;> assumption
      | srcGreet j =>
        obtain ⟨h1, h2, h3⟩ := ih rfl (by pev; exact hC)
        refine ⟨?_, ?_, trivial⟩ <;> pev <;> assumption
      | srcDown j d =>
        have hj : j = 0 := by
          have := legal_srcDown hl
          by_cases hj : j = 0
          · exact hj
          · rw [hsrc j hj] at this; cases this
        subst hj
        cases d with
        | data x =>
          have hb : bP tr = true := by pev; exact hC.1
          obtain ⟨h1, h2, h3⟩ := ih rfl (by pev; exact hC.2)
          have h2 := h2 hb
          exact ⟨by pev; exact h1, by pev, by simp [Fl, Relay.machine, Relay.enter]; pev; exact h2⟩
        | term =>
          obtain ⟨h1, h2, h3⟩ := ih rfl (by pev; exact hC)
          exact ⟨by pev; exact h1, by pev, by simp [Fl, Relay.machine, Relay.enter]; pev⟩
        | err e =>
          obtain ⟨h1, h2, h3⟩ := ih rfl (by pev; exact hC)
          exact ⟨by pev; exact h1, by pev, by simp [Fl, Relay.machine, Relay.enter]; pev⟩
    | @ret st stk g tr o l hl =>
      intro _ hC
      obtain ⟨h1, h2, h3⟩ := ih rfl (by pev; exact hC)
      have hl' : l = .done := (RelayK.K_reach k _ ha rfl).1 _ List.mem_cons_self o l rfl
      subst hl'
      refine ⟨?_, ?_, trivial⟩ <;> pev <;> assumption

end RelayP

theorem Relay.stagePull {σ α β : Type} (k : Relay.Kind σ α β) (hk : k.slotted = false → ∀ s a, (k.xfer s a).2 ≠ none) :
    StagePull (Relay.machine k) :=
  fun s hs hC => (RelayP.K_reach k hk s hs (Relay.relay_basicSafe k hk s hs).2 hC).1


/-! ### `take(max)` -/
namespace TakeP
variable {α : Type}

def Fl (st : Take.St) (tr : List (Ev α α)) : List (Frame (Take.Loc α) α) → Prop
  | .run (.d0 _) :: _ => aP tr = true ∧ bP tr = false
  | .run (.d1 _) :: _ => aP tr = true ∧ bP tr = false
  | .run (.d2 _ _) :: _ => aP tr = true ∧ bP tr = false
  | .run (.fwd d) :: _ => bP tr = false ∧ ∀ b, d ≠ .data b
  | .run .p0 :: _ => aP tr = true
  | .run .p1 :: _ => aP tr = true
  | .run .d6 :: _ => st.fin = true
  | .run (.x1 _) :: _ => st.fin = true
  | _ => True

def K (s : Sys Take.St (Take.Loc α) α α) : Prop :=
  s.panicked = none → POkSrc 0 (srcEvs s.tr) →
    POk (sinkEvs s.tr) ∧ (s.st.fin = false → bP s.tr = true → aP s.tr = true) ∧ Fl s.st s.tr s.stack

macro "tnoway" h:ident : tactic =>
  `(tactic| first
      | (simp [Take.machine, Take.step] at $h:ident; done)
      | (simp [Take.machine, Take.step] at $h:ident; split at $h:ident <;> simp at $h:ident; done))

theorem K_reach (max : Nat) : ∀ s, SReach (Take.machine α max) s → K s := by
  apply reach_ind
  · intro _ _; exact ⟨trivial, fun _ h => by simp [bP, srcEvs, lastPullSrc, Sys.init] at h, trivial⟩
  · intro a b ha ih h
    cases h with
    | @tau st l stk g tr s' l' hst =>
      intro _ hC
      obtain ⟨h1, h2, h3⟩ := ih rfl hC
      simp only at h1 h2 h3 ⊢
      cases l with
      | greet0 =>
        simp [Take.machine, Take.step] at hst
        obtain ⟨rfl, rfl⟩ := hst
        exact ⟨h1, h2, trivial⟩
      | d0 x =>
        simp [Take.machine, Take.step] at hst
        split at hst <;> simp at hst
        obtain ⟨rfl, rfl⟩ := hst
        exact ⟨h1, h2, h3⟩
      | d1 x =>
        simp [Take.machine, Take.step] at hst
        obtain ⟨rfl, rfl⟩ := hst
        exact ⟨h1, h2, h3⟩
      | d3 t =>
        simp [Take.machine, Take.step] at hst
        split at hst <;> simp at hst
        obtain ⟨rfl, rfl⟩ := hst
        exact ⟨h1, h2, trivial⟩
      | d3b =>
        simp [Take.machine, Take.step] at hst
        split at hst <;> simp at hst
        obtain ⟨rfl, rfl⟩ := hst
        exact ⟨h1, h2, trivial⟩
      | d4 =>
        simp [Take.machine, Take.step] at hst
        obtain ⟨rfl, rfl⟩ := hst
        exact ⟨h1, fun h => by simp at h, trivial⟩
      | p0 =>
        simp [Take.machine, Take.step] at hst
        split at hst <;> simp at hst
        obtain ⟨rfl, rfl⟩ := hst
        exact ⟨h1, h2, h3⟩
      | x0 u =>
        simp [Take.machine, Take.step] at hst
        obtain ⟨rfl, rfl⟩ := hst
        exact ⟨h1, fun h => by simp at h, rfl⟩
      | sub0 => tnoway hst
      | done => tnoway hst
      | greet1 => tnoway hst
      | d2 x t => tnoway hst
      | d5 => tnoway hst
      | d6 => tnoway hst
      | fwd d => tnoway hst
      | p1 => tnoway hst
      | x1 u => tnoway hst
    | @call st l stk g tr o s' l' hst =>
      intro _ hC
      cases l with
      | sub0 =>
        simp [Take.machine, Take.step] at hst
        obtain ⟨rfl, rfl, rfl⟩ := hst
        obtain ⟨h1, h2, h3⟩ := ih rfl (by pev; exact hC)
        refine ⟨?_, ?_, trivial⟩ <;> pev <;> assumption
      | greet1 =>
        simp [Take.machine, Take.step] at hst
        obtain ⟨rfl, rfl, rfl⟩ := hst
        obtain ⟨h1, h2, h3⟩ := ih rfl (by pev; exact hC)
        refine ⟨?_, ?_, trivial⟩ <;> pev <;> assumption
      | d2 x t =>
        simp [Take.machine, Take.step] at hst
        obtain ⟨rfl, rfl, rfl⟩ := hst
        obtain ⟨h1, h2, h3⟩ := ih rfl (by pev; exact hC)
        simp only [Fl] at h3
        refine ⟨?_, ?_, trivial⟩
        · have := h3.1; pev; exact ⟨this, h1⟩
        · have := h3.2; pev; simp [this]
      | d5 =>
        simp [Take.machine, Take.step] at hst
        split at hst <;> simp at hst
        obtain ⟨rfl, rfl, rfl⟩ := hst
        obtain ⟨h1, h2, h3⟩ := ih rfl (by pev; exact hC)
        refine ⟨?_, ?_, trivial⟩ <;> pev <;> assumption
      | d6 =>
        simp [Take.machine, Take.step] at hst
        obtain ⟨rfl, rfl, rfl⟩ := hst
        obtain ⟨h1, h2, h3⟩ := ih rfl (by pev; exact hC)
        simp only [Fl] at h3
        exact ⟨by pev; exact h1, fun h => by simp [h3] at h, trivial⟩
      | fwd d =>
        simp [Take.machine, Take.step] at hst
        obtain ⟨rfl, rfl, rfl⟩ := hst
        obtain ⟨h1, h2, h3⟩ := ih rfl (by pev; exact hC)
        simp only [Fl] at h3
        refine ⟨?_, ?_, trivial⟩
        · cases d with
          | data b => exact absurd rfl (h3.2 b)
          | term => pev; exact h1
          | err e => pev; exact h1
        · pev; simp [h3.1]
      | p1 =>
        simp [Take.machine, Take.step] at hst
        split at hst <;> simp at hst
        obtain ⟨rfl, rfl, rfl⟩ := hst
        obtain ⟨h1, h2, h3⟩ := ih rfl (by pev; exact hC)
        simp only [Fl] at h3
        refine ⟨?_, ?_, trivial⟩
        · pev; exact h1
        · pev; simp [h3]
      | x1 u =>
        simp [Take.machine, Take.step] at hst
        split at hst <;> simp at hst
        obtain ⟨rfl, rfl, rfl⟩ := hst
        obtain ⟨h1, h2, h3⟩ := ih rfl (by pev; exact hC)
        simp only [Fl] at h3
        exact ⟨by pev; exact h1, fun h => by simp [h3] at h, trivial⟩
      | done => tnoway hst
      | greet0 => tnoway hst
      | d0 x => tnoway hst
      | d1 x => tnoway hst
      | d3 t => tnoway hst
      | d3b => tnoway hst
      | d4 => tnoway hst
      | p0 => tnoway hst
      | x0 u => tnoway hst
    | @ret st l stk g tr hst =>
      intro _ hC
      obtain ⟨h1, h2, h3⟩ := ih rfl (by pev; exact hC)
      have : Fl st (Ev.retO :: tr) stk := by
        have := pop_turn _ ha
        cases stk with
        | nil => trivial
        | cons f r => obtain ⟨o, l, rfl⟩ := this f List.mem_cons_self; trivial
      refine ⟨?_, ?_, this⟩ <;> pev <;> assumption
    | panic hst => intro hp; cases hp
  · intro a b m ha ih h
    cases h with
    | @call st stk g tr c i hc hl =>
      intro _ hC
      obtain ⟨_, _, _, hsrc, hsnk, hm⟩ := inv_at_turn (Take.machine α max) (Take.Inv max) (Take.inv_init max)
        (fun s hi => (Take.inv_turn max s hi).1) (Take.inv_step max) ha ⟨rfl, by simp [hc]⟩
      simp only at hsrc hsnk hm
      cases i with
      | subscribe j =>
        obtain ⟨h1, h2, h3⟩ := ih rfl (by pev; exact hC)
        refine ⟨?_, ?_, trivial⟩ <;> pev <;> assumption
      | sinkUp j u =>
        have hj : j = 0 := by
          have := legal_sinkUp hl
          by_cases hj : j = 0
          · exact hj
          · rw [hsnk j hj] at this; cases this
        subst hj
        obtain ⟨h1, h2, h3⟩ := ih rfl (by pev; exact hC)
        cases u with
        | pull => exact ⟨by pev; exact h1, by pev, by simp [Fl, Take.machine, Take.enter]; pev⟩
        | term => refine ⟨?_, ?_, trivial⟩ <;> pev <;> assumption
        | err e => refine ⟨?_, ?_, trivial⟩ <;> pev <;> assumption
      | srcGreet j =>
        obtain ⟨h1, h2, h3⟩ := ih rfl (by pev; exact hC)
        refine ⟨?_, ?_, trivial⟩ <;> pev <;> assumption
      | srcDown j d =>
        have hlv := legal_srcDown hl
        have hj : j = 0 := by
          by_cases hj : j = 0
          · exact hj
          · rw [hsrc j hj] at hlv; cases hlv
        subst hj
        cases d with
        | data x =>
          have hfin : st.fin = false := by
            cases hm with
            | m3 _ _ _ h => exact h
            | m1 _ h => rw [h] at hlv; cases hlv
            | m2 _ h => rw [h] at hlv; cases hlv
            | m4 _ h => rw [h] at hlv; cases hlv
            | m5 _ h => rw [h] at hlv; cases hlv
            | m6 _ h => rw [h] at hlv; cases hlv
            | m7 _ h => rw [h] at hlv; cases hlv
          have hb : bP tr = true := by pev; exact hC.1
          obtain ⟨h1, h2, h3⟩ := ih rfl (by pev; exact hC.2)
          have h2 := h2 hfin hb
          exact ⟨by pev; exact h1, by pev, by simp [Fl, Take.machine, Take.enter]; pev; exact h2⟩
        | term =>
          obtain ⟨h1, h2, h3⟩ := ih rfl (by pev; exact hC)
          exact ⟨by pev; exact h1, by pev, by simp [Fl, Take.machine, Take.enter]; pev⟩
        | err e =>
          obtain ⟨h1, h2, h3⟩ := ih rfl (by pev; exact hC)
          exact ⟨by pev; exact h1, by pev, by simp [Fl, Take.machine, Take.enter]; pev⟩
    | @ret st stk g tr o l hl =>
      intro _ hC
      obtain ⟨h1, h2, h3⟩ := ih rfl (by pev; exact hC)
      obtain ⟨_, _, _, hsrc, hsnk, hm⟩ := inv_at_turn (Take.machine α max) (Take.Inv max) (Take.inv_init max)
        (fun s hi => (Take.inv_turn max s hi).1) (Take.inv_step max) ha ⟨rfl, by simp [ctxOf]⟩
      simp only at hm
      have hfl : Fl st (Ev.retE :: tr) (Frame.run l :: stk) := by
        have hb : ∀ t, Take.Benign t (Frame.wait o l : Frame (Take.Loc α) α) → Fl st (Ev.retE :: tr) (Frame.run l :: stk) := by
          intro t hb
          cases l <;> simp [Take.Benign] at hb <;> trivial
        cases hm with
        | m1 _ _ h => cases h
        | m2 _ _ _ _ _ h => cases h; trivial
        | m3 _ _ _ _ _ h => exact hb _ (h _ List.mem_cons_self)
        | m4 _ _ _ h => exact hb _ (h _ List.mem_cons_self)
        | m5 _ _ _ h => exact hb _ (h _ List.mem_cons_self)
        | m7 _ _ _ h => exact hb _ (h _ List.mem_cons_self)
        | m6 _ _ hf _ h => obtain ⟨r, h, _⟩ := h; cases h; exact hf
      refine ⟨?_, ?_, hfl⟩ <;> pev <;> assumption

end TakeP

theorem Take.stagePull {α : Type} (max : Nat) : StagePull (Take.machine α max) :=
  fun s hs hC => (TakeP.K_reach max s hs (Take.take_basicSafe max s hs).2 hC).1

end FlatPlugFun
end Cb

#print axioms Cb.FlatPlugFun.PullOnly.compose
#print axioms Cb.FlatPlugFun.FromIter.pullOnly
#print axioms Cb.FlatPlugFun.Relay.stagePull
#print axioms Cb.FlatPlugFun.Take.stagePull
