import CallbagModel.Inv.Ghost2
import CallbagModel.Inv.Take
/-!
# take: the FULL safety invariant (both ghost layers: C01–C05, C17)

`Mode`, `Benign` and the lemmas about them are those of `Inv/Take.lean`.  New in the invariant: `XOk s.g` (no second-layer
violation recorded; the checks made whenever a handler returns would pass) and `sinkErr = none` unless the sink has disposed
(needed where `take` terminates its upstream by itself: a `Terminate` sent upstream while the sink's `Error` is being relayed
would be flagged).  The case analysis and the step counts are exactly those of `Take.inv_step`; after each `exec n` the
phase-level obligations are discharged as there, and the second-layer ones with the lemmas of `Inv/Ghost2.lean`:
`XOk.of_fields` (second layer untouched), `XOk.onRetO` (a handler returned), `XOk.of_err` (an upstream error was relayed).
-/
namespace Cb.TakeFull
open Cb Cb.Take

variable {α : Type}

def Inv (max : Nat) (s : Sys St (Loc α) α α) : Prop :=
  s.panicked = none ∧ s.g.ph.viols = [] ∧ s.st.taken ≤ max ∧
  (∀ i, i ≠ 0 → s.g.ph.srcPh i = .idle) ∧ (∀ k, k ≠ 0 → s.g.ph.sinkPh k = .idle) ∧
  Mode max s.st s.g.ph s.stack ∧ XOk s.g ∧ (s.g.ph.sinkPh 0 ≠ .doneBySelf → s.g.sinkErr = none)

theorem inv_turn (max : Nat) (s : Sys St (Loc α) α α) (h : Inv max s) : EnvTurn s ∧ Safe s := by
  obtain ⟨hp, hb, hle, ho, hos, hm, hx, hse⟩ := h
  have := (Take.inv_turn max s ⟨hp, hb, hle, ho, hos, hm⟩).1
  exact ⟨this, by simp [G.viols, hb, hx.clean], hp⟩

macro "exec" n:num : tactic =>
  `(tactic| (refine ⟨$n, ?_⟩; simp [advance, opStep, machine, enter, step, Ph.onIn, Ph.onOut, Inv, isFinal, onIn_srcErr, *]))

/-- no upstream other than 0 is ever live -/
theorem noLive_of {g : Ph} (hoth : ∀ i, i ≠ 0 → g.srcPh i = .idle) (h0 : g.srcPh 0 ≠ .live) : ∀ i, g.srcPh i ≠ .live := by
  intro i; by_cases hi : i = 0
  · subst hi; exact h0
  · rw [hoth i hi]; decide

/-- side goals about fields of a structure literal, whichever way `simp` has normalised it -/
macro "fld" : tactic => `(tactic| first | rfl | assumption | exact Or.inl rfl | exact Or.inr rfl | simp)

/-- the second layer is untouched and the phases are as before, while upstream 0 is live -/
theorem xok_live {g g' : G} (hx : XOk g) (h2 : g.ph.srcPh 0 = .live) (hfin : g'.fin = g.fin) (hpend : g'.pend = g.pend ∨ g'.pend = none)
    (hxv : g'.xviols = g.xviols) (ho : NoOrphan g'.ph) : XOk g' :=
  hx.of_fields hfin hpend hxv (Or.inl (hx.pend_none_of_live 0 h2)) ho

theorem inv_step (max : Nat) (s s' : Sys St (Loc α) α α) (m : Move α) (h : Inv max s) (hs : EnvStep (machine α max) m s s') :
    ∃ n, Inv max (advance (machine α max) n s') := by
  obtain ⟨hp, hb, hle, hoth, hoths, hm, hx, hse⟩ := h
  cases hs with
  | @call st stk g tr c i hc hl =>
    simp only at hp hb hle hoth hoths hm hx hse
    cases i with
    | subscribe k =>
      simp only [legalIn, Bool.and_eq_true, beq_iff_eq, machine, Bool.or_false] at hl
      obtain ⟨⟨hc', hidle⟩, rfl⟩ := hl
      cases hm with
      | m1 h1 h2 h3 h4 h5 h6 =>
        subst h3
        have hopen : (g.ph.setSink 0 .subscribed).anySinkOpen = true := (Ph.anySinkOpen_iff _).2 ⟨0, by simp⟩
        have hpn : g.pend = none := hx.pend_none_of_noDone (fun k => by by_cases hk : k = 0 <;> simp [hk, h1, hoths])
        have hse' : g.sinkErr = none := hse (by rw [h1]; decide)
        exec 2
        refine ⟨fun i hi => by simp [hi, hoth i hi], fun k hk => by simp [hk, hoths k hk], Mode.m2 (by simp) (by simp) h4 h5 h6 rfl, ?_⟩
        exact hx.of_fields (by fld) (by fld) (by fld) (Or.inl hpn) (noOrphan_of_open 0 (by simp))
      | _ => simp_all
    | sinkUp k u =>
      simp only [legalIn, Bool.and_eq_true, beq_iff_eq, Bool.or_eq_true] at hl
      obtain ⟨hlive, hctx⟩ := hl
      have hk : k = 0 := by
        by_cases hk : k = 0
        · exact hk
        · rw [hoths k hk] at hlive; cases hlive
      subst hk
      have hse' : g.sinkErr = none := hse (by rw [hlive]; decide)
      cases hm with
      | m3 h1 h2 h3 h4 h5 h6 =>
        have hpn := hx.pend_none_of_live 0 h2
        cases u with
        | pull =>
          by_cases hlt : st.taken < max
          · exec 3
            refine ⟨hoth, hoths, Mode.m3 h1 h2 h3 h4 (by omega) ?_, ?_⟩
            · exact List.forall_mem_cons.2 ⟨by simp [Benign], h6⟩
            · exact xok_live hx h2 (by fld) (by fld) (by fld) (noOrphan_of_open 0 (Or.inr h1))
          · exec 1
            refine ⟨hoth, hoths, Mode.m3 h1 h2 h3 h4 h5 h6, ?_, ?_⟩
            · apply XOk.onRetO; exact xok_live hx h2 (by fld) (by fld) (by fld) (noOrphan_of_open 0 (Or.inr h1))
            · apply onRetO_sinkErr_none
              · exact xok_live hx h2 (by fld) (by fld) (by fld) (noOrphan_of_open 0 (Or.inr h1))
              · fld
        | term =>
          exec 3
          refine ⟨fun i hi => by simp [hi, hoth i hi], fun k hk => by simp [hk, hoths k hk], Mode.m4 (by simp) (by simp) rfl ?_, ?_⟩
          · exact List.forall_mem_cons.2 ⟨by simp [Benign], h6⟩
          · exact hx.of_fields (by fld) (by fld) (by fld) (Or.inl hpn) (noOrphan_of_noLive (noLive_of (by intro i hi; simp [hi, hoth i hi]) (by simp)))
        | err e =>
          exec 3
          refine ⟨fun i hi => by simp [hi, hoth i hi], fun k hk => by simp [hk, hoths k hk], Mode.m4 (by simp) (by simp) rfl ?_, ?_⟩
          · exact List.forall_mem_cons.2 ⟨by simp [Benign], h6⟩
          · exact hx.of_fields (by fld) (by fld) (by fld) (Or.inl hpn) (noOrphan_of_noLive (noLive_of (by intro i hi; simp [hi, hoth i hi]) (by simp)))
      | m6 h1 h2 h3 h4 h5 =>
        obtain ⟨rest, rfl, _⟩ := h5
        simp [ctxOf] at hc; subst hc; simp [isTop, inGreet, inData] at hctx
      | _ => simp_all
    | srcGreet i =>
      simp only [legalIn, Bool.and_eq_true, beq_iff_eq, machine, Bool.false_and, Bool.or_false] at hl
      obtain ⟨hsub, hin⟩ := hl
      by_cases hi : i = 0
      · subst hi
        cases hm with
        | m2 h1 h2 h3 h4 h4' h5 =>
          subst h5
          have hpn : g.pend = none := hx.pend_none_of_noDone (fun k => by by_cases hk : k = 0 <;> simp [hk, h1, hoths])
          have hse' : g.sinkErr = none := hse (by rw [h1]; decide)
          exec 2
          refine ⟨fun i hi => by simp [hi, hoth i hi], fun k hk => by simp [hk, hoths k hk],
            Mode.m3 (by simp) (by simp) rfl (by simp [h4']) (by simp [h4]) (by simp [Benign]), ?_⟩
          exact hx.of_fields (by fld) (by fld) (by fld) (Or.inl hpn) (noOrphan_of_open 0 (by simp))
        | _ => simp_all
      · simp [hoth i hi] at hsub
    | srcDown i d =>
      simp only [legalIn, Bool.and_eq_true, beq_iff_eq, Bool.or_eq_true] at hl
      obtain ⟨hlive, hctx⟩ := hl
      by_cases hi : i = 0
      · subst hi
        cases hm with
        | m3 h1 h2 h3 h4 h5 h6 =>
          have hpn := hx.pend_none_of_live 0 h2
          have hse' : g.sinkErr = none := hse (by rw [h1]; decide)
          have hnotF : ¬ (0 < st.taken ∧ st.taken = max) := by
            rintro ⟨ha, hb⟩
            obtain ⟨a, rest, rfl⟩ := h5 ha hb
            simp [ctxOf] at hc; subst hc; simp [isTop, inSub, inPull] at hctx
          cases d with
          | data a =>
            by_cases hlt : st.taken < max
            · exec 2
              refine ⟨by omega, hoth, hoths, Mode.m3 h1 h2 rfl rfl ?_ ?_, ?_⟩
              · intro _ he; exact ⟨a, stk, by rw [← he]⟩
              · exact List.forall_mem_cons.2 ⟨by simp [Benign], fun f hf => benign_mono (h6 f hf) (by simp)⟩
              · exact xok_live hx h2 (by fld) (by fld) (by fld) (noOrphan_of_open 0 (Or.inr h1))
            · exec 1
              refine ⟨hoth, hoths, Mode.m3 h1 h2 h3 h4 h5 h6, ?_, ?_⟩
              · apply XOk.onRetO; exact xok_live hx h2 (by fld) (by fld) (by fld) (noOrphan_of_open 0 (Or.inr h1))
              · apply onRetO_sinkErr_none
                · exact xok_live hx h2 (by fld) (by fld) (by fld) (noOrphan_of_open 0 (Or.inr h1))
                · fld
          | term =>
            exec 1
            refine ⟨fun i hi => by simp [hi, hoth i hi], fun k hk => by simp [hk, hoths k hk], Mode.m5 (by simp) (by simp) hnotF ?_, ?_⟩
            · exact List.forall_mem_cons.2 ⟨by simp [Benign], h6⟩
            · exact hx.of_noPend hpn (by fld) (by fld) (noOrphan_of_noLive (noLive_of (by intro i hi; simp [hi, hoth i hi]) (by simp)))
          | err e =>
            have hlv : (livesOf g.ph).isEmpty = false := by
              cases hl : livesOf g.ph with
              | nil => exact absurd hl (livesOf_ne_nil 0 h1)
              | cons _ _ => rfl
            exec 1
            refine ⟨fun i hi => by simp [hi, hoth i hi], fun k hk => by simp [hk, hoths k hk], Mode.m5 (by simp) (by simp) hnotF ?_, ?_⟩
            · exact List.forall_mem_cons.2 ⟨by simp [Benign], h6⟩
            · refine hx.of_err e stk.length (livesOf g.ph) (livesOf_ne_nil 0 h1) rfl rfl ?_ (noLive_of (by intro i hi; simp [hi, hoth i hi]) (by simp))
              intro k hk
              have hk0 : k = 0 := by
                by_cases hk0 : k = 0
                · exact hk0
                · have := (mem_livesOf g.ph k).1 hk; rw [hoths k hk0] at this; cases this
              subst hk0; simp [G.finOf, phAt_setAt]
        | _ => simp_all
      · simp [hoth i hi] at hlive
  | @ret st stk g tr o l hl =>
    simp only at hp hb hle hoth hoths hm hx hse
    -- generic: resuming a benign continuation in a mode where `fin` holds or `d3 max` is impossible: the handler just returns
    have resume_quiet : ∀ (_ : Benign st.taken (Frame.wait o l : Frame (Loc α) α))
        (_ : st.fin = true ∨ ¬ (0 < st.taken ∧ st.taken = max)),
        ∃ n tr', (advance (machine α max) n ⟨st, .run l :: stk, g, .retE :: tr, none⟩) = ⟨st, stk, g.onRetO stk.length, tr', none⟩ := by
      intro hben hq
      cases l with
      | done => exact ⟨1, .retO :: .retE :: tr, by simp [advance, opStep, machine, step]⟩
      | d3 t =>
        simp [Benign] at hben
        by_cases ht : t = max
        · rcases hq with hq | hq
          · exact ⟨2, .retO :: .retE :: tr, by simp [advance, opStep, machine, step, ht, hq]⟩
          · exact absurd ⟨by omega, by omega⟩ hq
        · exact ⟨1, .retO :: .retE :: tr, by simp [advance, opStep, machine, step, ht]⟩
      | _ => simp [Benign] at hben
    -- … and then everything is as before, up to `onRetO`
    have quiet_inv : ∀ (_ : Benign st.taken (Frame.wait o l : Frame (Loc α) α))
        (_ : st.fin = true ∨ ¬ (0 < st.taken ∧ st.taken = max)) (_ : Mode max st g.ph stk),
        ∃ n, Inv max (advance (machine α max) n ⟨st, .run l :: stk, g, .retE :: tr, none⟩) := by
      intro hben hq hm'
      obtain ⟨n, tr', hn⟩ := resume_quiet hben hq
      refine ⟨n, ?_⟩
      rw [hn]
      refine ⟨rfl, by simpa using hb, hle, by simpa using hoth, by simpa using hoths, by simpa using hm', hx.onRetO _, ?_⟩
      intro hne
      exact onRetO_sinkErr_none hx (hse (by simpa using hne)) _
    cases hm with
    | m1 _ _ h => simp at h
    | m2 h1 h2 h3 h4 h4' h5 =>
      simp at h5; obtain ⟨⟨rfl, rfl⟩, rfl⟩ := h5
      simp [legalRet, h2, machine] at hl
    | m3 h1 h2 h3 h4 h5 h6 =>
      have hben := h6 _ (List.mem_cons_self)
      have hrest := (List.forall_mem_cons.1 h6).2
      have hse' : g.sinkErr = none := hse (by rw [h1]; decide)
      cases l with
      | done =>
        exec 1
        refine ⟨hoth, hoths, Mode.m3 h1 h2 h3 h4 ?_ hrest, ?_, ?_⟩
        · intro ha hb; obtain ⟨a, rest, he⟩ := h5 ha hb; simp at he
        · apply XOk.onRetO; exact xok_live hx h2 (by fld) (by fld) (by fld) (noOrphan_of_open 0 (Or.inr h1))
        · apply onRetO_sinkErr_none
          · exact xok_live hx h2 (by fld) (by fld) (by fld) (noOrphan_of_open 0 (Or.inr h1))
          · fld
      | d3 t =>
        simp [Benign] at hben
        by_cases ht : t = max
        · subst ht
          exec 5
          refine ⟨fun i hi => by simp [hi, hoth i hi], hoths, Mode.m6 (by simp [h1]) (by simp) rfl rfl ⟨stk, rfl, hrest⟩, ?_⟩
          exact hx.of_fields (by fld) (by fld) (by fld) (Or.inl (hx.pend_none_of_live 0 h2)) (noOrphan_of_open 0 (Or.inr (by simp [h1])))
        · exec 1
          refine ⟨hoth, hoths, Mode.m3 h1 h2 h3 h4 ?_ hrest, ?_, ?_⟩
          · intro ha hb; obtain ⟨a, rest, he⟩ := h5 ha hb; simp at he; exact absurd he.1.2 ht
          · apply XOk.onRetO; exact xok_live hx h2 (by fld) (by fld) (by fld) (noOrphan_of_open 0 (Or.inr h1))
          · apply onRetO_sinkErr_none
            · exact xok_live hx h2 (by fld) (by fld) (by fld) (noOrphan_of_open 0 (Or.inr h1))
            · fld
      | _ => simp [Benign] at hben
    | m4 h1 h2 h3 h6 => exact quiet_inv (h6 _ (List.mem_cons_self)) (Or.inl h3) (Mode.m4 h1 h2 h3 (List.forall_mem_cons.1 h6).2)
    | m5 h1 h2 h3 h6 => exact quiet_inv (h6 _ (List.mem_cons_self)) (Or.inr h3) (Mode.m5 h1 h2 h3 (List.forall_mem_cons.1 h6).2)
    | m6 h1 h2 h3 h4 h5 =>
      obtain ⟨rest, he, hrest⟩ := h5
      simp at he; obtain ⟨⟨rfl, rfl⟩, rfl⟩ := he
      have hse' : g.sinkErr = none := hse (by rw [h1]; decide)
      have hpn : g.pend = none := hx.pend_none_of_noDone (fun k => by by_cases hk : k = 0 <;> simp [hk, h1, hoths])
      exec 1
      refine ⟨hoth, fun k hk => by simp [hk, hoths k hk], Mode.m7 (by simp) h2 h3 (List.forall_mem_cons.2 ⟨by simp [Benign], hrest⟩), ?_⟩
      exact hx.of_noPend hpn (by fld) (by fld) (noOrphan_of_noLive (noLive_of (by simpa using hoth) (by simp [h2])))
    | m7 h1 h2 h3 h6 => exact quiet_inv (h6 _ (List.mem_cons_self)) (Or.inl h3) (Mode.m7 h1 h2 h3 (List.forall_mem_cons.1 h6).2)

theorem inv_init (max : Nat) : Inv max (Sys.init (machine α max)) := by
  obtain ⟨h1, h2, h3, h4, h5, h6⟩ := Take.inv_init (α := α) max
  refine ⟨h1, h2, h3, h4, h5, h6, ⟨rfl, (by intro e h ks hp; cases hp), noOrphan_of_noLive (by intro i; simp [Sys.init])⟩, fun _ => rfl⟩

/-- take: under every conformant environment the operator never violates any clause of C01–C05 and never panics. -/
theorem take_safe (max : Nat) : ∀ s, SReach (machine α max) s → Safe s :=
  safe_of_macro_inv (machine α max) (Inv max) (inv_init max) (inv_turn max) (inv_step max)

end Cb.TakeFull
