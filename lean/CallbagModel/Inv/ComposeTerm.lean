import CallbagModel.Inv.ComposeSafe
import CallbagModel.Ops.Take
import CallbagModel.Ops.FromIter
import CallbagModel.Ops.Relay
import CallbagModel.Ops.ForEach
import CallbagModel.Ops.Plug
import CallbagModel.Ops.Concat
/-!
# Termination: potentials

`Pot M cost`: a potential for the machine `M` — a state part `Ψ`, the potential `ρ st l` of the RUNNING handler at location `l` in
state `st`, and the potential `ω l` of a handler WAITING to be resumed at `l` (`ρ st l < ω l` for every state) — such that every `tau`
decreases `Ψ + ρ`, and a call `o` with continuation `l'` leaves `Ψ + ω l' + cost o` strictly below: `cost o` is what the callee may
spend.  The conditions are asked of every location and every state satisfying `good`, a condition preserved by the steps — `True` for
every operator and for `compose` / `plug` of such (no reachability, no invariants), so potentials compose syntactically: `Pot.compose`,
`Pot.plug` — the callee's cost across the internal interface is the `ω` of its entry location.  (`good` is used by the network `flatPlug`
only, `Inv/FlatPlugTerm.lean`: inner sources are numbered from 1.)

`Pot.Φ` (state part + running/waiting potentials of the stack) decreases with every operator step (also a panic) and with every
environment RETURN.  Hence (`Pot.progress`, `Pot.drain`): from EVERY configuration, the machine runs into a configuration without operator
step, and — if the environment only returns — into one where neither an operator step nor a return is possible.

Loops are paid for by the state part: `from_iter`'s `while` loop by the remaining items of the iterator (`FromIter.pot`, for the list
iterator).  Relays, `take`, `for_each` have loop-free handlers (`Ψ = 0`).  The parameters of a component's potential are the costs of its
neighbours' entry points; for a linear chain they are resolved from the ends (`HeadPot`): the cost of a terminal flows downstream-to-
upstream independently of everything else, the cost of a `Pull` depends on it (a `Pull` may run `from_iter`'s loop up to the delivery of
the terminal), the cost of a greeting and of a datum depend on the cost of a `Pull` (`for_each` pulls, a filter re-pulls).
`concat!` (`Concat.pot`, `HeadPot.concat2`): moving on to the next member is paid for by the state part `K * (n - i)`, so that the cost of
a member's `Terminate` does not depend on the other members (it would be circular otherwise).

`progress_of_pot`, `returns_of_pot`: for a SAFE machine (no panic — from the correctness theorems) with a potential: from every reachable
configuration it runs into an environment turn; and, without external upstream, operator steps and environment returns lead to top level.
-/
namespace Cb
namespace ComposeTerm
open ComposeSafe

/-! ## Part 1: potentials -/
section Framework
variable {St Loc α β : Type}

structure Pot (M : Machine St Loc α β) (cost : Out β → Nat) where
  /-- a condition on the state under which the inequalities are asked; preserved by the steps (`True` for all operators; for the network
  `flatPlug` it says that the inner sources are numbered from 1) -/
  good : St → Prop
  Ψ : St → Nat
  ρ : St → Loc → Nat
  ω : Loc → Nat
  le : ∀ st l, ρ st l < ω l
  tau : ∀ st l s' l', M.step st l = .tau s' l' → good st → Ψ s' + ρ s' l' < Ψ st + ρ st l
  call : ∀ st l o s' l', M.step st l = .call o s' l' → good st → Ψ s' + ω l' + cost o < Ψ st + ρ st l
  good_tau : ∀ st l s' l', M.step st l = .tau s' l' → good st → good s'
  good_call : ∀ st l o s' l', M.step st l = .call o s' l' → good st → good s'

def floc : Frame Loc β → Loc
  | .run l => l
  | .wait _ l => l

variable {M : Machine St Loc α β} {cost : Out β → Nat}

/-- the potential of the frames below the top -/
def Pot.tailW (P : Pot M cost) : List (Frame Loc β) → Nat
  | [] => 0
  | f :: t => P.ω (floc f) + 1 + P.tailW t

def Pot.stackW (P : Pot M cost) (st : St) : List (Frame Loc β) → Nat
  | [] => 0
  | .run l :: t => P.ρ st l + 1 + P.tailW t
  | .wait _ l :: t => P.ω l + 1 + P.tailW t

/-- the potential of a configuration -/
def Pot.Φ (P : Pot M cost) (s : Sys St Loc α β) : Nat := P.Ψ s.st + P.stackW s.st s.stack

theorem Pot.stackW_run (P : Pot M cost) (st : St) (l : Loc) (t : List (Frame Loc β)) :
    P.stackW st (.run l :: t) = P.ρ st l + 1 + P.tailW t := rfl
theorem Pot.stackW_wait (P : Pot M cost) (st : St) (o : Out β) (l : Loc) (t : List (Frame Loc β)) :
    P.stackW st (.wait o l :: t) = P.ω l + 1 + P.tailW t := rfl

theorem Pot.stackW_le (P : Pot M cost) (st : St) (stk : List (Frame Loc β)) : P.stackW st stk ≤ P.tailW stk := by
  cases stk with
  | nil => exact Nat.le_refl _
  | cons f t =>
    cases f with
    | run l => have := P.le st l; simp only [stackW, tailW, floc]; omega
    | wait o l => simp only [stackW, tailW, floc]; omega

theorem Pot.opStep_good (P : Pot M cost) {s s' : Sys St Loc α β} (h : opStep M s = some s') (hg : P.good s.st) : P.good s'.st := by
  cases oStep_of_opStep h with
  | tau hst => exact P.good_tau _ _ _ _ hst hg
  | call hst => exact P.good_call _ _ _ _ _ hst hg
  | ret hst => exact hg
  | panic hst => exact hg

theorem Pot.envRet_good (P : Pot M cost) {s s' : Sys St Loc α β} (h : envMove M s .ret = some s') (hg : P.good s.st) : P.good s'.st := by
  cases (envMove_iff M .ret s s').1 h with
  | ret hl => exact hg

theorem Pot.opStep_lt (P : Pot M cost) {s s' : Sys St Loc α β} (h : opStep M s = some s') (hg : P.good s.st) : P.Φ s' < P.Φ s := by
  cases oStep_of_opStep h with
  | tau hst => have := P.tau _ _ _ _ hst hg; simp only [Φ, stackW_run]; omega
  | call hst => have := P.call _ _ _ _ _ hst hg; simp only [Φ, stackW_run, stackW_wait]; omega
  | @ret st l stk g tr hst => have := P.stackW_le st stk; simp only [Φ, stackW_run]; omega
  | @panic st l stk g tr m hst => have := P.stackW_le st stk; simp only [Φ, stackW_run]; omega

theorem Pot.envRet_lt (P : Pot M cost) {s s' : Sys St Loc α β} (h : envMove M s .ret = some s') : P.Φ s' < P.Φ s := by
  cases (envMove_iff M .ret s s').1 h with
  | @ret st stk g tr o l hl => have := P.le st l; simp only [Φ, stackW_run, stackW_wait]; omega

/-- **no divergence**: from every configuration the machine runs into one without operator step -/
theorem Pot.progress (P : Pot M cost) : ∀ s : Sys St Loc α β, P.good s.st → ∃ n, opStep M (advance M n s) = none := by
  have key : ∀ k, ∀ s : Sys St Loc α β, P.good s.st → P.Φ s ≤ k → ∃ n, opStep M (advance M n s) = none := by
    intro k
    induction k with
    | zero =>
      intro s hg hs
      cases h : opStep M s with
      | none => exact ⟨0, h⟩
      | some s' => have := P.opStep_lt h hg; omega
    | succ k ih =>
      intro s hg hs
      cases h : opStep M s with
      | none => exact ⟨0, h⟩
      | some s' =>
        obtain ⟨n, hn⟩ := ih s' (P.opStep_good h hg) (by have := P.opStep_lt h hg; omega)
        exact ⟨n + 1, by simpa [advance, h] using hn⟩
  exact fun s hg => key _ s hg (Nat.le_refl _)

/-- `t` is reached from `s` by operator steps and environment RETURNS only -/
inductive Drain (M : Machine St Loc α β) : Sys St Loc α β → Sys St Loc α β → Prop
  | refl {s} : Drain M s s
  | op {a b c} : opStep M a = some b → Drain M b c → Drain M a c
  | ret {a b c} : envMove M a .ret = some b → Drain M b c → Drain M a c

/-- **if the environment keeps returning, everything returns**: from every configuration, operator steps and environment returns lead
to a configuration where neither is possible -/
theorem Pot.drain (P : Pot M cost) :
    ∀ s : Sys St Loc α β, P.good s.st → ∃ t, Drain M s t ∧ opStep M t = none ∧ envMove M t .ret = none := by
  have key : ∀ k, ∀ s : Sys St Loc α β, P.good s.st → P.Φ s ≤ k → ∃ t, Drain M s t ∧ opStep M t = none ∧ envMove M t .ret = none := by
    intro k
    induction k with
    | zero =>
      intro s hg hs
      cases h : opStep M s with
      | some s' => have := P.opStep_lt h hg; omega
      | none =>
        cases h' : envMove M s .ret with
        | some s' => have := P.envRet_lt h'; omega
        | none => exact ⟨s, .refl, h, h'⟩
    | succ k ih =>
      intro s hg hs
      cases h : opStep M s with
      | some s' =>
        obtain ⟨t, h1, h2⟩ := ih s' (P.opStep_good h hg) (by have := P.opStep_lt h hg; omega)
        exact ⟨t, .op h h1, h2⟩
      | none =>
        cases h' : envMove M s .ret with
        | some s' =>
          obtain ⟨t, h1, h2⟩ := ih s' (P.envRet_good h' hg) (by have := P.envRet_lt h'; omega)
          exact ⟨t, .ret h' h1, h2⟩
        | none => exact ⟨s, .refl, h, h'⟩
  exact fun s hg => key _ s hg (Nat.le_refl _)

theorem Drain.reach {s t : Sys St Loc α β} (h : Drain M s t) (hs : SReach M s) : SReach M t := by
  induction h with
  | refl => exact hs
  | op h _ ih => exact ih (.step hs (.op h))
  | ret h _ ih => exact ih (reach_env hs ((envMove_iff M .ret _ _).1 h))

/-- the trace only grows along a drain -/
theorem Drain.tr_ne {s t : Sys St Loc α β} (h : Drain M s t) (hs : s.tr ≠ []) : t.tr ≠ [] := by
  induction h with
  | refl => exact hs
  | op h _ ih =>
    apply ih
    cases oStep_of_opStep h <;> simp_all
  | ret h _ ih =>
    apply ih
    cases (envMove_iff M .ret _ _).1 h; simp

end Framework


/-! ## Part 2: costs, and the potential of `compose M₁ M₂` -/
section Compose

/-- what the callee of each kind of call may spend -/
structure Costs where
  sub : Nat := 0     -- `subSrc i`
  pull : Nat := 0    -- `srcUp i Pull`
  ufin : Nat := 0    -- `srcUp i Terminate / Error`
  greet : Nat := 0   -- `greet k`
  data : Nat := 0    -- `down k (Data _)`
  fin : Nat := 0     -- `down k Terminate / Error`
  app : Nat := 0     -- the user's closure

def Costs.of {β : Type} (c : Costs) : Out β → Nat
  | .subSrc _ => c.sub
  | .srcUp _ .pull => c.pull
  | .srcUp _ _ => c.ufin
  | .greet _ => c.greet
  | .down _ (.data _) => c.data
  | .down _ _ => c.fin
  | .app _ => c.app

/-- the upstream-side costs of `c₁`, the sink-side costs of `c₂` -/
def Costs.mix (c1 c2 : Costs) : Costs := ⟨c1.sub, c1.pull, c1.ufin, c2.greet, c2.data, c2.fin, c2.app⟩

variable {S1 L1 S2 L2 α β γ : Type} {M1 : Machine S1 L1 α β} {M2 : Machine S2 L2 β γ}

/-- the potentials of the entry points used from downstream (subscription, talkback) -/
structure Pot.UpLe {St Loc α β : Type} {M : Machine St Loc α β} {cost : Out β → Nat} (P : Pot M cost) (sub pull ufin : Nat) : Prop where
  sub : P.ω (M.enter (.subscribe 0)) ≤ sub
  pull : P.ω (M.enter (.sinkUp 0 .pull)) ≤ pull
  uterm : P.ω (M.enter (.sinkUp 0 .term)) ≤ ufin
  uerr : ∀ x, P.ω (M.enter (.sinkUp 0 (.err x))) ≤ ufin

/-- the potentials of the entry points used from upstream (greeting, deliveries) -/
structure Pot.DownLe {St Loc α β : Type} {M : Machine St Loc α β} {cost : Out β → Nat} (P : Pot M cost) (greet data fin : Nat) : Prop where
  greet : P.ω (M.enter (.srcGreet 0)) ≤ greet
  data : ∀ a, P.ω (M.enter (.srcDown 0 (.data a))) ≤ data
  term : P.ω (M.enter (.srcDown 0 .term)) ≤ fin
  err : ∀ x, P.ω (M.enter (.srcDown 0 (.err x))) ≤ fin

def eρ (P1 : Pot M1 c1) (P2 : Pot M2 c2) (st : S1 × S2) : CFr L1 L2 → Nat
  | .lo l => P1.ρ st.1 l
  | .hi l => P2.ρ st.2 l

def eω (P1 : Pot M1 c1) (P2 : Pot M2 c2) : CFr L1 L2 → Nat
  | .lo l => P1.ω l
  | .hi l => P2.ω l

def sumω (P1 : Pot M1 c1) (P2 : Pot M2 c2) : List (CFr L1 L2) → Nat
  | [] => 0
  | e :: t => eω P1 P2 e + sumω P1 P2 t

theorem eρ_lt (P1 : Pot M1 c1) (P2 : Pot M2 c2) (st : S1 × S2) (e : CFr L1 L2) : eρ P1 P2 st e < eω P1 P2 e := by
  cases e with
  | lo l => exact P1.le _ _
  | hi l => exact P2.le _ _

/-- **potentials compose**: the running component frame counts with its `ρ`, the waiting ones with their `ω` -/
def Pot.compose {c1 c2 : Costs} (P1 : Pot M1 (c1.of (β := β))) (P2 : Pot M2 (c2.of (β := γ)))
    (h1 : P2.DownLe c1.greet c1.data c1.fin) (h2 : P1.UpLe c2.sub c2.pull c2.ufin) : Pot (Cb.compose M1 M2) ((c1.mix c2).of (β := γ)) where
  good st := P1.good st.1 ∧ P2.good st.2
  Ψ st := P1.Ψ st.1 + P2.Ψ st.2
  ρ st cfs := match cfs with
    | [] => 0
    | e :: t => eρ P1 P2 st e + sumω P1 P2 t
  ω cfs := match cfs with
    | [] => 1
    | e :: t => eω P1 P2 e + sumω P1 P2 t
  le st cfs := by
    cases cfs with
    | nil => exact Nat.one_pos
    | cons e t => have := eρ_lt P1 P2 st e; simp only; omega
  tau st cfs s' cfs' h hg := by
    cases cfs with
    | nil => simp [Cb.compose] at h
    | cons e rest =>
      cases e with
      | lo l =>
        simp only [Cb.compose] at h
        cases hst : M1.step st.1 l with
        | tau s1 l' =>
          rw [hst] at h; simp only [Act.tau.injEq] at h; obtain ⟨rfl, rfl⟩ := h
          have := P1.tau _ _ _ _ hst hg.1
          simp only [eρ]; omega
        | ret =>
          rw [hst] at h
          cases rest with
          | nil => simp at h
          | cons e2 r2 =>
            simp only [List.isEmpty_cons, Bool.false_eq_true, if_false, Act.tau.injEq] at h
            obtain ⟨rfl, rfl⟩ := h
            have := eρ_lt P1 P2 st e2
            simp only [sumω]; omega
        | panic m => rw [hst] at h; simp at h
        | call o s1 l' =>
          rw [hst] at h
          have hc := P1.call _ _ _ _ _ hst hg.1
          cases o with
          | greet k =>
            cases k with
            | zero =>
              simp only [Act.tau.injEq] at h; obtain ⟨rfl, rfl⟩ := h
              have := P2.le st.2 (M2.enter (.srcGreet 0))
              have := h1.greet
              simp only [eρ, eω, sumω, Costs.of] at hc ⊢; omega
            | succ k => simp at h
          | down k d =>
            cases k with
            | zero =>
              simp only [Act.tau.injEq] at h; obtain ⟨rfl, rfl⟩ := h
              have := P2.le st.2 (M2.enter (.srcDown 0 d))
              have hd : P2.ω (M2.enter (.srcDown 0 d)) ≤ c1.of (Out.down 0 d : Out β) := by
                cases d with
                | data a => exact h1.data a
                | term => exact h1.term
                | err x => exact h1.err x
              simp only [eρ, eω, sumω] at hc ⊢; omega
            | succ k => simp at h
          | subSrc i => simp at h
          | srcUp i u => simp at h
          | app b => simp at h
      | hi l =>
        simp only [Cb.compose] at h
        cases hst : M2.step st.2 l with
        | tau s2 l' =>
          rw [hst] at h; simp only [Act.tau.injEq] at h; obtain ⟨rfl, rfl⟩ := h
          have := P2.tau _ _ _ _ hst hg.2
          simp only [eρ]; omega
        | ret =>
          rw [hst] at h
          cases rest with
          | nil => simp at h
          | cons e2 r2 =>
            simp only [List.isEmpty_cons, Bool.false_eq_true, if_false, Act.tau.injEq] at h
            obtain ⟨rfl, rfl⟩ := h
            have := eρ_lt P1 P2 st e2
            simp only [sumω]; omega
        | panic m => rw [hst] at h; simp at h
        | call o s2 l' =>
          rw [hst] at h
          have hc := P2.call _ _ _ _ _ hst hg.2
          cases o with
          | subSrc i =>
            cases i with
            | zero =>
              simp only [Act.tau.injEq] at h; obtain ⟨rfl, rfl⟩ := h
              have := P1.le st.1 (M1.enter (.subscribe 0))
              have := h2.sub
              simp only [eρ, eω, sumω, Costs.of] at hc ⊢; omega
            | succ i => simp at h
          | srcUp i u =>
            cases i with
            | zero =>
              simp only [Act.tau.injEq] at h; obtain ⟨rfl, rfl⟩ := h
              have := P1.le st.1 (M1.enter (.sinkUp 0 u))
              have hu : P1.ω (M1.enter (.sinkUp 0 u)) ≤ c2.of (Out.srcUp 0 u : Out γ) := by
                cases u with
                | pull => exact h2.pull
                | term => exact h2.uterm
                | err x => exact h2.uerr x
              simp only [eρ, eω, sumω] at hc ⊢; omega
            | succ i => simp at h
          | greet k => simp at h
          | down k d => simp at h
          | app b => simp at h
  call st cfs o s' cfs' h hg := by
    cases cfs with
    | nil => simp [Cb.compose] at h
    | cons e rest =>
      cases e with
      | lo l =>
        simp only [Cb.compose] at h
        cases hst : M1.step st.1 l with
        | tau s1 l' => rw [hst] at h; simp at h
        | ret => rw [hst] at h; simp only at h; split at h <;> simp at h
        | panic m => rw [hst] at h; simp at h
        | call o1 s1 l' =>
          rw [hst] at h
          have hc := P1.call _ _ _ _ _ hst hg.1
          cases o1 with
          | greet k => cases k <;> simp at h
          | down k d => cases k <;> simp at h
          | subSrc i =>
            simp only [Act.call.injEq] at h; obtain ⟨rfl, rfl, rfl⟩ := h
            simp only [eω, eρ, Costs.of, Costs.mix] at hc ⊢; omega
          | srcUp i u =>
            simp only [Act.call.injEq] at h; obtain ⟨rfl, rfl, rfl⟩ := h
            cases u <;> (simp only [eω, eρ, Costs.of, Costs.mix] at hc ⊢; omega)
          | app b => simp at h
      | hi l =>
        simp only [Cb.compose] at h
        cases hst : M2.step st.2 l with
        | tau s2 l' => rw [hst] at h; simp at h
        | ret => rw [hst] at h; simp only at h; split at h <;> simp at h
        | panic m => rw [hst] at h; simp at h
        | call o2 s2 l' =>
          rw [hst] at h
          have hc := P2.call _ _ _ _ _ hst hg.2
          cases o2 with
          | subSrc i => cases i <;> simp at h
          | srcUp i u => cases i <;> simp at h
          | greet k =>
            simp only [Act.call.injEq] at h; obtain ⟨rfl, rfl, rfl⟩ := h
            simp only [eω, eρ, Costs.of, Costs.mix] at hc ⊢; omega
          | down k d =>
            simp only [Act.call.injEq] at h; obtain ⟨rfl, rfl, rfl⟩ := h
            cases d <;> (simp only [eω, eρ, Costs.of, Costs.mix] at hc ⊢; omega)
          | app b =>
            simp only [Act.call.injEq] at h; obtain ⟨rfl, rfl, rfl⟩ := h
            simp only [eω, eρ, Costs.of, Costs.mix] at hc ⊢; omega

  good_tau st cfs s' cfs' h hg := by
    cases cfs with
    | nil => simp [Cb.compose] at h
    | cons e rest =>
      cases e with
      | lo l =>
        simp only [Cb.compose] at h
        cases hst : M1.step st.1 l with
        | tau s1 l' =>
          rw [hst] at h; simp only [Act.tau.injEq] at h; obtain ⟨rfl, rfl⟩ := h
          exact ⟨P1.good_tau _ _ _ _ hst hg.1, hg.2⟩
        | ret =>
          rw [hst] at h; simp only at h
          split at h
          · simp at h
          · simp only [Act.tau.injEq] at h; obtain ⟨rfl, rfl⟩ := h; exact hg
        | panic m => rw [hst] at h; simp at h
        | call o s1 l' =>
          rw [hst] at h
          have hgc := P1.good_call _ _ _ _ _ hst hg.1
          cases o with
          | greet k =>
            cases k with
            | zero => simp only [Act.tau.injEq] at h; obtain ⟨rfl, rfl⟩ := h; exact ⟨hgc, hg.2⟩
            | succ k => simp at h
          | down k d =>
            cases k with
            | zero => simp only [Act.tau.injEq] at h; obtain ⟨rfl, rfl⟩ := h; exact ⟨hgc, hg.2⟩
            | succ k => simp at h
          | subSrc i => simp at h
          | srcUp i u => simp at h
          | app b => simp at h
      | hi l =>
        simp only [Cb.compose] at h
        cases hst : M2.step st.2 l with
        | tau s2 l' =>
          rw [hst] at h; simp only [Act.tau.injEq] at h; obtain ⟨rfl, rfl⟩ := h
          exact ⟨hg.1, P2.good_tau _ _ _ _ hst hg.2⟩
        | ret =>
          rw [hst] at h; simp only at h
          split at h
          · simp at h
          · simp only [Act.tau.injEq] at h; obtain ⟨rfl, rfl⟩ := h; exact hg
        | panic m => rw [hst] at h; simp at h
        | call o s2 l' =>
          rw [hst] at h
          have hgc := P2.good_call _ _ _ _ _ hst hg.2
          cases o with
          | subSrc i =>
            cases i with
            | zero => simp only [Act.tau.injEq] at h; obtain ⟨rfl, rfl⟩ := h; exact ⟨hg.1, hgc⟩
            | succ i => simp at h
          | srcUp i u =>
            cases i with
            | zero => simp only [Act.tau.injEq] at h; obtain ⟨rfl, rfl⟩ := h; exact ⟨hg.1, hgc⟩
            | succ i => simp at h
          | greet k => simp at h
          | down k d => simp at h
          | app b => simp at h
  good_call st cfs o s' cfs' h hg := by
    cases cfs with
    | nil => simp [Cb.compose] at h
    | cons e rest =>
      cases e with
      | lo l =>
        simp only [Cb.compose] at h
        cases hst : M1.step st.1 l with
        | tau s1 l' => rw [hst] at h; simp at h
        | ret => rw [hst] at h; simp only at h; split at h <;> simp at h
        | panic m => rw [hst] at h; simp at h
        | call o1 s1 l' =>
          rw [hst] at h
          have hgc := P1.good_call _ _ _ _ _ hst hg.1
          cases o1 with
          | greet k => cases k <;> simp at h
          | down k d => cases k <;> simp at h
          | subSrc i => simp only [Act.call.injEq] at h; obtain ⟨rfl, rfl, rfl⟩ := h; exact ⟨hgc, hg.2⟩
          | srcUp i u => simp only [Act.call.injEq] at h; obtain ⟨rfl, rfl, rfl⟩ := h; exact ⟨hgc, hg.2⟩
          | app b => simp at h
      | hi l =>
        simp only [Cb.compose] at h
        cases hst : M2.step st.2 l with
        | tau s2 l' => rw [hst] at h; simp at h
        | ret => rw [hst] at h; simp only at h; split at h <;> simp at h
        | panic m => rw [hst] at h; simp at h
        | call o2 s2 l' =>
          rw [hst] at h
          have hgc := P2.good_call _ _ _ _ _ hst hg.2
          cases o2 with
          | subSrc i => cases i <;> simp at h
          | srcUp i u => cases i <;> simp at h
          | greet k => simp only [Act.call.injEq] at h; obtain ⟨rfl, rfl, rfl⟩ := h; exact ⟨hg.1, hgc⟩
          | down k d => simp only [Act.call.injEq] at h; obtain ⟨rfl, rfl, rfl⟩ := h; exact ⟨hg.1, hgc⟩
          | app b => simp only [Act.call.injEq] at h; obtain ⟨rfl, rfl, rfl⟩ := h; exact ⟨hg.1, hgc⟩

/-- the entry points of the composite are those of its components -/
theorem Pot.compose_upLe {c1 c2 : Costs} (P1 : Pot M1 (c1.of (β := β))) (P2 : Pot M2 (c2.of (β := γ)))
    (h1 : P2.DownLe c1.greet c1.data c1.fin) (h2 : P1.UpLe c2.sub c2.pull c2.ufin) {a b c : Nat} (he : P2.UpLe a b c) :
    (P1.compose P2 h1 h2).UpLe a b c := by
  refine ⟨?_, ?_, ?_, ?_⟩
  · simpa [Pot.compose, Cb.compose, eω, sumω] using he.sub
  · simpa [Pot.compose, Cb.compose, eω, sumω] using he.pull
  · simpa [Pot.compose, Cb.compose, eω, sumω] using he.uterm
  · intro x; simpa [Pot.compose, Cb.compose, eω, sumω] using he.uerr x

theorem Pot.compose_downLe {c1 c2 : Costs} (P1 : Pot M1 (c1.of (β := β))) (P2 : Pot M2 (c2.of (β := γ)))
    (h1 : P2.DownLe c1.greet c1.data c1.fin) (h2 : P1.UpLe c2.sub c2.pull c2.ufin) {a b c : Nat} (he : P1.DownLe a b c) :
    (P1.compose P2 h1 h2).DownLe a b c := by
  refine ⟨?_, ?_, ?_, ?_⟩
  · simpa [Pot.compose, Cb.compose, eω, sumω] using he.greet
  · intro x; simpa [Pot.compose, Cb.compose, eω, sumω] using he.data x
  · simpa [Pot.compose, Cb.compose, eω, sumω] using he.term
  · intro x; simpa [Pot.compose, Cb.compose, eω, sumω] using he.err x

end Compose


/-! ## Part 3: the operators -/
section Operators

/-- **`from_iter`** over an iterator with a measure (`len` decreases with every item): the `while` loop is paid for by the remaining
items, `c.data + 6` each; a `Pull` (which may run the loop up to the delivery of the terminal) costs `c.fin + 13` -/
def FromIter.pot {ι α : Type} (α' : Type) (next : ι → Option (α × ι)) (it0 : ι) (len : ι → Nat)
    (hlen : ∀ it a it', next it = some (a, it') → len it' < len it) (c : Costs) :
    Pot (FromIter.machine α' next it0) (c.of (β := α)) where
  good _ := True
  good_tau _ _ _ _ _ _ := trivial
  good_call _ _ _ _ _ _ _ := trivial
  Ψ st := (c.data + 6) * len st.it
  ρ st l := match l with
    | .done => 0
    | .sub0 => c.greet + 2
    | .t0 .pull => c.fin + 12
    | .t0 _ => 2
    | .t1 .pull => c.fin + 11
    | .t1 _ => 1
    | .pl1 => c.fin + 10
    | .pl2 => c.fin + 9
    | .l0 => c.fin + 8
    | .w0 => c.fin + 7
    | .w1 => c.fin + 6
    | .w2 => c.fin + 5
    | .w3 => c.fin + 4
    | .w4 => if st.resDone then c.fin + 3 else c.fin + c.data + 9
    | .lend => 1
  ω l := match l with
    | .done => 1
    | .sub0 => c.greet + 3
    | .t0 .pull => c.fin + 13
    | .t0 _ => 3
    | .t1 .pull => c.fin + 12
    | .t1 _ => 2
    | .pl1 => c.fin + 11
    | .pl2 => c.fin + 10
    | .l0 => c.fin + 9
    | .w0 => c.fin + 8
    | .w1 => c.fin + 7
    | .w2 => c.fin + 6
    | .w3 => c.fin + 5
    | .w4 => c.fin + c.data + 10
    | .lend => 2
  le st l := by
    cases l with
    | t0 u => cases u <;> simp
    | t1 u => cases u <;> simp
    | w4 => simp only; split <;> omega
    | _ => simp
  tau st l s' l' h _ := by
    cases l with
    | done => simp [FromIter.machine, FromIter.step] at h
    | sub0 => simp [FromIter.machine, FromIter.step] at h
    | t0 u =>
      simp only [FromIter.machine, FromIter.step] at h
      split at h
      · simp at h
      · simp only [Act.tau.injEq] at h; obtain ⟨rfl, rfl⟩ := h
        cases u <;> simp
    | t1 u =>
      cases u <;> simp only [FromIter.machine, FromIter.step, Act.tau.injEq] at h <;> obtain ⟨rfl, rfl⟩ := h <;> simp
    | pl1 =>
      simp only [FromIter.machine, FromIter.step] at h
      split at h
      · simp only [Act.tau.injEq] at h; obtain ⟨rfl, rfl⟩ := h; simp
      · simp at h
    | pl2 =>
      simp only [FromIter.machine, FromIter.step] at h
      split at h
      · simp only [Act.tau.injEq] at h; obtain ⟨rfl, rfl⟩ := h; simp
      · simp at h
    | l0 => simp only [FromIter.machine, FromIter.step, Act.tau.injEq] at h; obtain ⟨rfl, rfl⟩ := h; simp
    | w0 =>
      simp only [FromIter.machine, FromIter.step] at h
      split at h <;> (simp only [Act.tau.injEq] at h; obtain ⟨rfl, rfl⟩ := h; simp)
    | w1 =>
      simp only [FromIter.machine, FromIter.step] at h
      split at h <;> (simp only [Act.tau.injEq] at h; obtain ⟨rfl, rfl⟩ := h; simp)
    | w2 => simp only [FromIter.machine, FromIter.step, Act.tau.injEq] at h; obtain ⟨rfl, rfl⟩ := h; simp
    | w3 =>
      simp only [FromIter.machine, FromIter.step] at h
      split at h
      · rename_i a it' hn
        simp only [Act.tau.injEq] at h; obtain ⟨rfl, rfl⟩ := h
        have h1 := hlen _ _ _ hn
        have h2 : (c.data + 6) * (len it' + 1) ≤ (c.data + 6) * len st.it := Nat.mul_le_mul_left _ h1
        rw [Nat.mul_succ] at h2
        simp only [Bool.false_eq_true, if_false]
        omega
      · simp only [Act.tau.injEq] at h; obtain ⟨rfl, rfl⟩ := h
        simp
    | w4 =>
      simp only [FromIter.machine, FromIter.step] at h
      split at h
      · simp at h
      · split at h <;> simp at h
    | lend => simp only [FromIter.machine, FromIter.step, Act.tau.injEq] at h; obtain ⟨rfl, rfl⟩ := h; simp
  call st l o s' l' h _ := by
    cases l with
    | sub0 => simp only [FromIter.machine, FromIter.step, Act.call.injEq] at h; obtain ⟨rfl, rfl, rfl⟩ := h; simp [Costs.of]; omega
    | w4 =>
      simp only [FromIter.machine, FromIter.step] at h
      split at h
      · rename_i hr
        simp only [Act.call.injEq] at h; obtain ⟨rfl, rfl, rfl⟩ := h
        simp [Costs.of, hr]; omega
      · rename_i hr
        split at h
        · simp only [Act.call.injEq] at h; obtain ⟨rfl, rfl, rfl⟩ := h
          simp [Costs.of, hr]; omega
        · simp at h
    | done => simp [FromIter.machine, FromIter.step] at h
    | t0 u => simp only [FromIter.machine, FromIter.step] at h; split at h <;> simp at h
    | t1 u => cases u <;> simp [FromIter.machine, FromIter.step] at h
    | pl1 => simp only [FromIter.machine, FromIter.step] at h; split at h <;> simp at h
    | pl2 => simp only [FromIter.machine, FromIter.step] at h; split at h <;> simp at h
    | l0 => simp [FromIter.machine, FromIter.step] at h
    | w0 => simp only [FromIter.machine, FromIter.step] at h; split at h <;> simp at h
    | w1 => simp only [FromIter.machine, FromIter.step] at h; split at h <;> simp at h
    | w2 => simp [FromIter.machine, FromIter.step] at h
    | w3 => simp only [FromIter.machine, FromIter.step] at h; split at h <;> simp at h
    | lend => simp [FromIter.machine, FromIter.step] at h

theorem FromIter.pot_upLe {ι α : Type} (α' : Type) (next : ι → Option (α × ι)) (it0 : ι) (len : ι → Nat)
    (hlen : ∀ it a it', next it = some (a, it') → len it' < len it) (c : Costs) :
    (FromIter.pot α' next it0 len hlen c).UpLe (c.greet + 3) (c.fin + 13) 3 := by
  refine ⟨?_, ?_, ?_, ?_⟩ <;> (try intro x) <;> simp [FromIter.pot, FromIter.machine, FromIter.enter]


/-- **`for_each`**: loop-free handlers; a datum costs the closure, a `Pull` and 5 -/
def ForEach.pot (α : Type) (c : Costs) : Pot (ForEach.machine α) (c.of (β := α)) where
  good _ := True
  good_tau _ _ _ _ _ _ := trivial
  good_call _ _ _ _ _ _ _ := trivial
  Ψ _ := 0
  ρ _ l := match l with
    | .done => 0
    | .sub0 => c.sub + 2
    | .g0 => c.pull + 3
    | .pull => c.pull + 2
    | .d0 _ => c.pull + c.app + 4
  ω l := match l with
    | .done => 1
    | .sub0 => c.sub + 3
    | .g0 => c.pull + 4
    | .pull => c.pull + 3
    | .d0 _ => c.pull + c.app + 5
  le st l := by cases l <;> simp
  tau st l s' l' h _ := by
    cases l <;> simp only [ForEach.machine, ForEach.step] at h
    case done => simp at h
    case sub0 => simp at h
    case g0 => simp only [Act.tau.injEq] at h; obtain ⟨rfl, rfl⟩ := h; simp
    case pull => split at h <;> simp at h
    case d0 a => simp at h
  call st l o s' l' h _ := by
    cases l <;> simp only [ForEach.machine, ForEach.step] at h
    case done => simp at h
    case sub0 => simp only [Act.call.injEq] at h; obtain ⟨rfl, rfl, rfl⟩ := h; simp [Costs.of]; omega
    case g0 => simp at h
    case pull =>
      split at h
      · simp only [Act.call.injEq] at h; obtain ⟨rfl, rfl, rfl⟩ := h; simp [Costs.of]; omega
      · simp at h
    case d0 a => simp only [Act.call.injEq] at h; obtain ⟨rfl, rfl, rfl⟩ := h; simp [Costs.of]; omega

theorem ForEach.pot_downLe (α : Type) (c : Costs) : (ForEach.pot α c).DownLe (c.pull + 4) (c.pull + c.app + 5) 1 := by
  refine ⟨?_, ?_, ?_, ?_⟩ <;> (try intro x) <;> simp [ForEach.pot, ForEach.machine, ForEach.enter]

theorem ForEach.pot_upLe (α : Type) (c : Costs) : (ForEach.pot α c).UpLe (c.sub + 3) 1 1 := by
  refine ⟨?_, ?_, ?_, ?_⟩ <;> (try intro x) <;> simp [ForEach.pot, ForEach.machine, ForEach.enter]

/-- **relays** (`map`, `filter`, `scan`, `skip`): loop-free handlers -/
def Relay.pot {σ α β : Type} (k : Relay.Kind σ α β) (c : Costs) : Pot (Relay.machine k) (c.of (β := β)) where
  good _ := True
  good_tau _ _ _ _ _ _ := trivial
  good_call _ _ _ _ _ _ _ := trivial
  Ψ _ := 0
  ρ _ l := match l with
    | .sub0 => c.sub + 2
    | .done => 0
    | .g0 => c.greet + 3
    | .g1 => c.greet + 2
    | .d0 _ => c.data + c.pull + 3
    | .emit _ => c.data + 2
    | .repull => c.pull + 2
    | .fwd d => c.of (Out.down 0 d : Out β) + 2
    | .u0 u => c.of (Out.srcUp 0 u : Out β) + 2
  ω l := match l with
    | .sub0 => c.sub + 3
    | .done => 1
    | .g0 => c.greet + 4
    | .g1 => c.greet + 3
    | .d0 _ => c.data + c.pull + 4
    | .emit _ => c.data + 3
    | .repull => c.pull + 3
    | .fwd d => c.of (Out.down 0 d : Out β) + 3
    | .u0 u => c.of (Out.srcUp 0 u : Out β) + 3
  le st l := by cases l <;> simp
  tau st l s' l' h _ := by
    cases l <;> simp only [Relay.machine, Relay.step] at h
    case sub0 => simp at h
    case done => simp at h
    case g0 => split at h <;> (simp only [Act.tau.injEq] at h; obtain ⟨rfl, rfl⟩ := h; simp)
    case g1 => simp at h
    case d0 a => split at h <;> (simp only [Act.tau.injEq] at h; obtain ⟨rfl, rfl⟩ := h; simp; omega)
    case emit b => simp at h
    case repull => split at h <;> simp at h
    case fwd d => simp at h
    case u0 u => split at h <;> simp at h
  call st l o s' l' h _ := by
    cases l <;> simp only [Relay.machine, Relay.step] at h
    case sub0 => simp only [Act.call.injEq] at h; obtain ⟨rfl, rfl, rfl⟩ := h; simp [Costs.of]; omega
    case done => simp at h
    case g0 => split at h <;> simp at h
    case g1 => simp only [Act.call.injEq] at h; obtain ⟨rfl, rfl, rfl⟩ := h; simp [Costs.of]; omega
    case d0 a => split at h <;> simp at h
    case emit b => simp only [Act.call.injEq] at h; obtain ⟨rfl, rfl, rfl⟩ := h; simp [Costs.of]; omega
    case repull =>
      split at h
      · simp only [Act.call.injEq] at h; obtain ⟨rfl, rfl, rfl⟩ := h; simp [Costs.of]; omega
      · simp at h
    case fwd d => simp only [Act.call.injEq] at h; obtain ⟨rfl, rfl, rfl⟩ := h; simp; omega
    case u0 u =>
      split at h
      · simp at h
      · simp only [Act.call.injEq] at h; obtain ⟨rfl, rfl, rfl⟩ := h; simp; omega

theorem Relay.pot_upLe {σ α β : Type} (k : Relay.Kind σ α β) (c : Costs) :
    (Relay.pot k c).UpLe (c.sub + 3) (c.pull + 3) (c.ufin + 3) := by
  refine ⟨?_, ?_, ?_, ?_⟩ <;> (try intro x) <;> simp [Relay.pot, Relay.machine, Relay.enter, Costs.of]

theorem Relay.pot_downLe {σ α β : Type} (k : Relay.Kind σ α β) (c : Costs) :
    (Relay.pot k c).DownLe (c.greet + 4) (c.data + c.pull + 4) (c.fin + 3) := by
  refine ⟨?_, ?_, ?_, ?_⟩ <;> (try intro x) <;> simp [Relay.pot, Relay.machine, Relay.enter, Costs.of]

/-- **`take(max)`**: loop-free handlers; a datum may cost its delivery, the `Terminate` upstream and the `Terminate` downstream -/
def Take.pot (α : Type) (max : Nat) (c : Costs) : Pot (Take.machine α max) (c.of (β := α)) where
  good _ := True
  good_tau _ _ _ _ _ _ := trivial
  good_call _ _ _ _ _ _ _ := trivial
  Ψ _ := 0
  ρ _ l := match l with
    | .sub0 => c.sub + 2
    | .done => 0
    | .greet0 => c.greet + 3
    | .greet1 => c.greet + 2
    | .d0 _ => c.fin + c.ufin + c.data + 11
    | .d1 _ => c.fin + c.ufin + c.data + 10
    | .d2 _ _ => c.fin + c.ufin + c.data + 9
    | .d3 _ => c.fin + c.ufin + 7
    | .d3b => c.fin + c.ufin + 6
    | .d4 => c.fin + c.ufin + 5
    | .d5 => c.fin + c.ufin + 4
    | .d6 => c.fin + 2
    | .fwd d => c.of (Out.down 0 d : Out α) + 2
    | .p0 => c.pull + 3
    | .p1 => c.pull + 2
    | .x0 u => c.of (Out.srcUp 0 u : Out α) + 3
    | .x1 u => c.of (Out.srcUp 0 u : Out α) + 2
  ω l := match l with
    | .sub0 => c.sub + 3
    | .done => 1
    | .greet0 => c.greet + 4
    | .greet1 => c.greet + 3
    | .d0 _ => c.fin + c.ufin + c.data + 12
    | .d1 _ => c.fin + c.ufin + c.data + 11
    | .d2 _ _ => c.fin + c.ufin + c.data + 10
    | .d3 _ => c.fin + c.ufin + 8
    | .d3b => c.fin + c.ufin + 7
    | .d4 => c.fin + c.ufin + 6
    | .d5 => c.fin + c.ufin + 5
    | .d6 => c.fin + 3
    | .fwd d => c.of (Out.down 0 d : Out α) + 3
    | .p0 => c.pull + 4
    | .p1 => c.pull + 3
    | .x0 u => c.of (Out.srcUp 0 u : Out α) + 4
    | .x1 u => c.of (Out.srcUp 0 u : Out α) + 3
  le st l := by cases l <;> simp
  tau st l s' l' h _ := by
    cases l <;> simp only [Take.machine, Take.step] at h
    case sub0 => simp at h
    case done => simp at h
    case greet0 => simp only [Act.tau.injEq] at h; obtain ⟨rfl, rfl⟩ := h; simp
    case greet1 => simp at h
    case d0 a =>
      split at h
      · simp only [Act.tau.injEq] at h; obtain ⟨rfl, rfl⟩ := h; simp
      · simp at h
    case d1 a => simp only [Act.tau.injEq] at h; obtain ⟨rfl, rfl⟩ := h; simp
    case d2 a t => simp at h
    case d3 t =>
      split at h
      · simp only [Act.tau.injEq] at h; obtain ⟨rfl, rfl⟩ := h; simp
      · simp at h
    case d3b =>
      split at h
      · simp at h
      · simp only [Act.tau.injEq] at h; obtain ⟨rfl, rfl⟩ := h; simp
    case d4 => simp only [Act.tau.injEq] at h; obtain ⟨rfl, rfl⟩ := h; simp
    case d5 => split at h <;> simp at h
    case d6 => simp at h
    case fwd d => simp at h
    case p0 =>
      split at h
      · simp only [Act.tau.injEq] at h; obtain ⟨rfl, rfl⟩ := h; simp
      · simp at h
    case p1 => split at h <;> simp at h
    case x0 u => simp only [Act.tau.injEq] at h; obtain ⟨rfl, rfl⟩ := h; simp
    case x1 u => split at h <;> simp at h
  call st l o s' l' h _ := by
    cases l <;> simp only [Take.machine, Take.step] at h
    case sub0 => simp only [Act.call.injEq] at h; obtain ⟨rfl, rfl, rfl⟩ := h; simp [Costs.of]; omega
    case done => simp at h
    case greet0 => simp at h
    case greet1 => simp only [Act.call.injEq] at h; obtain ⟨rfl, rfl, rfl⟩ := h; simp [Costs.of]; omega
    case d0 a => split at h <;> simp at h
    case d1 a => simp at h
    case d2 a t => simp only [Act.call.injEq] at h; obtain ⟨rfl, rfl, rfl⟩ := h; simp [Costs.of]; omega
    case d3 t => split at h <;> simp at h
    case d3b => split at h <;> simp at h
    case d4 => simp at h
    case d5 =>
      split at h
      · simp only [Act.call.injEq] at h; obtain ⟨rfl, rfl, rfl⟩ := h; simp [Costs.of]; omega
      · simp at h
    case d6 => simp only [Act.call.injEq] at h; obtain ⟨rfl, rfl, rfl⟩ := h; simp [Costs.of]; omega
    case fwd d => simp only [Act.call.injEq] at h; obtain ⟨rfl, rfl, rfl⟩ := h; simp; omega
    case p0 => split at h <;> simp at h
    case p1 =>
      split at h
      · simp only [Act.call.injEq] at h; obtain ⟨rfl, rfl, rfl⟩ := h; simp [Costs.of]; omega
      · simp at h
    case x0 u => simp at h
    case x1 u =>
      split at h
      · simp only [Act.call.injEq] at h; obtain ⟨rfl, rfl, rfl⟩ := h; simp; omega
      · simp at h

theorem Take.pot_upLe (α : Type) (max : Nat) (c : Costs) : (Take.pot α max c).UpLe (c.sub + 3) (c.pull + 4) (c.ufin + 4) := by
  refine ⟨?_, ?_, ?_, ?_⟩ <;> (try intro x) <;> simp [Take.pot, Take.machine, Take.enter, Costs.of]

theorem Take.pot_downLe (α : Type) (max : Nat) (c : Costs) :
    (Take.pot α max c).DownLe (c.greet + 4) (c.fin + c.ufin + c.data + 12) (c.fin + 3) := by
  refine ⟨?_, ?_, ?_, ?_⟩ <;> (try intro x) <;> simp [Take.pot, Take.machine, Take.enter, Costs.of]

end Operators


/-! ## Part 4: heads of linear chains -/
section Heads
variable {St Loc α β : Type}

/-- a closed head has a potential for every cost of its sink's entry points (greeting `g`, datum `d`, terminal `f`); the costs of its own
entry points: subscription `fs g f`, `Pull` `fp f` (it depends on the cost of the terminal only), `Terminate`/`Error` `fu` -/
def HeadPot (M : Machine St Loc α β) : Prop :=
  ∃ (fs : Nat → Nat → Nat) (fp : Nat → Nat) (fu : Nat), ∀ g d f : Nat,
    ∃ P : Pot M ((⟨0, 0, 0, g, d, f, 0⟩ : Costs).of (β := β)), P.good M.init ∧ P.UpLe (fs g f) (fp f) fu

theorem HeadPot.fromIter {ι α : Type} (α' : Type) (next : ι → Option (α × ι)) (it0 : ι) (len : ι → Nat)
    (hlen : ∀ it a it', next it = some (a, it') → len it' < len it) : HeadPot (FromIter.machine α' next it0) :=
  ⟨fun g _ => g + 3, fun f => f + 13, 3, fun g d f => ⟨FromIter.pot α' next it0 len hlen ⟨0, 0, 0, g, d, f, 0⟩, trivial,
    FromIter.pot_upLe α' next it0 len hlen ⟨0, 0, 0, g, d, f, 0⟩⟩⟩

theorem HeadPot.relay {σ γ : Type} {M : Machine St Loc α β} (h : HeadPot M) (k : Relay.Kind σ β γ) :
    HeadPot (Cb.compose M (Relay.machine k)) := by
  obtain ⟨fs, fp, fu, h⟩ := h
  refine ⟨fun g f => fs (g + 4) (f + 3) + 3, fun f => fp (f + 3) + 3, fu + 3, fun g d f => ?_⟩
  obtain ⟨PA, hgA, hA⟩ := h (g + 4) (d + fp (f + 3) + 4) (f + 3)
  exact ⟨PA.compose (Relay.pot k ⟨fs (g + 4) (f + 3), fp (f + 3), fu, g, d, f, 0⟩) (Relay.pot_downLe k _) hA, ⟨hgA, trivial⟩,
    Pot.compose_upLe _ _ _ _ (Relay.pot_upLe k _)⟩

theorem HeadPot.take {M : Machine St Loc α β} (h : HeadPot M) (max : Nat) : HeadPot (Cb.compose M (Take.machine β max)) := by
  obtain ⟨fs, fp, fu, h⟩ := h
  refine ⟨fun g f => fs (g + 4) (f + 3) + 3, fun f => fp (f + 3) + 4, fu + 4, fun g d f => ?_⟩
  obtain ⟨PA, hgA, hA⟩ := h (g + 4) (f + fu + d + 12) (f + 3)
  exact ⟨PA.compose (Take.pot β max ⟨fs (g + 4) (f + 3), fp (f + 3), fu, g, d, f, 0⟩) (Take.pot_downLe β max _) hA, ⟨hgA, trivial⟩,
    Pot.compose_upLe _ _ _ _ (Take.pot_upLe β max _)⟩

/-- closed with `for_each`: a potential for the whole program -/
theorem HeadPot.closed {M : Machine St Loc α β} (h : HeadPot M) :
    ∃ P : Pot (Cb.compose M (ForEach.machine β)) ((⟨0, 0, 0, 0, 0, 0, 0⟩ : Costs).of (β := β)),
      P.good (Cb.compose M (ForEach.machine β)).init := by
  obtain ⟨fs, fp, fu, h⟩ := h
  obtain ⟨PA, hgA, hA⟩ := h (fp 1 + 4) (fp 1 + 0 + 5) 1
  exact ⟨PA.compose (ForEach.pot β ⟨fs (fp 1 + 4) 1, fp 1, fu, 0, 0, 0, 0⟩) (ForEach.pot_downLe β _) hA, hgA, trivial⟩

end Heads



/-! ## Part 6: `plug j M₁ M₂`, and `concat!` -/
section Plug
variable {S1 L1 S2 L2 α β γ : Type} {M1 : Machine S1 L1 α β} {M2 : Machine S2 L2 β γ}

/-- a potential for a cost is one for every smaller cost -/
def Pot.weaken {St Loc α β : Type} {M : Machine St Loc α β} {cost cost' : Out β → Nat} (P : Pot M cost) (h : ∀ o, cost' o ≤ cost o) :
    Pot M cost' where
  good := P.good
  Ψ := P.Ψ
  ρ := P.ρ
  ω := P.ω
  le := P.le
  tau := P.tau
  call st l o s' l' hs hg := by have := P.call st l o s' l' hs hg; have := h o; omega
  good_tau := P.good_tau
  good_call := P.good_call

theorem Pot.weaken_ω {St Loc α β : Type} {M : Machine St Loc α β} {cost cost' : Out β → Nat} (P : Pot M cost)
    (h : ∀ o, cost' o ≤ cost o) : (P.weaken h).ω = P.ω := rfl

/-- the potentials of the entry points used by upstream `j` -/
structure Pot.DownLeAt {St Loc α β : Type} {M : Machine St Loc α β} {cost : Out β → Nat} (P : Pot M cost) (j : Nat)
    (greet data fin : Nat) : Prop where
  greet : P.ω (M.enter (.srcGreet j)) ≤ greet
  data : ∀ a, P.ω (M.enter (.srcDown j (.data a))) ≤ data
  term : P.ω (M.enter (.srcDown j .term)) ≤ fin
  err : ∀ x, P.ω (M.enter (.srcDown j (.err x))) ≤ fin

/-- **potentials of plugged machines**: as for `compose`; the external calls are those of `M₂` -/
def Pot.plug {c1 : Costs} {cost2 : Out γ → Nat} (j : Nat) (P1 : Pot M1 (c1.of (β := β))) (P2 : Pot M2 cost2)
    (h1 : P2.DownLeAt j c1.greet c1.data c1.fin) (h2s : P1.ω (M1.enter (.subscribe 0)) ≤ cost2 (.subSrc j))
    (h2u : ∀ u, P1.ω (M1.enter (.sinkUp 0 u)) ≤ cost2 (.srcUp j u)) : Pot (Cb.plug j M1 M2) cost2 where
  good st := P1.good st.1 ∧ P2.good st.2
  Ψ st := P1.Ψ st.1 + P2.Ψ st.2
  ρ st cfs := match cfs with
    | [] => 0
    | e :: t => eρ P1 P2 st e + sumω P1 P2 t
  ω cfs := match cfs with
    | [] => 1
    | e :: t => eω P1 P2 e + sumω P1 P2 t
  le st cfs := by
    cases cfs with
    | nil => exact Nat.one_pos
    | cons e t => have := eρ_lt P1 P2 st e; simp only; omega
  tau st cfs s' cfs' h hg := by
    cases cfs with
    | nil => simp [Cb.plug] at h
    | cons e rest =>
      cases e with
      | lo l =>
        simp only [Cb.plug] at h
        cases hst : M1.step st.1 l with
        | tau s1 l' =>
          rw [hst] at h; simp only [Act.tau.injEq] at h; obtain ⟨rfl, rfl⟩ := h
          have := P1.tau _ _ _ _ hst hg.1
          simp only [eρ]; omega
        | ret =>
          rw [hst] at h
          cases rest with
          | nil => simp at h
          | cons e2 r2 =>
            simp only [List.isEmpty_cons, Bool.false_eq_true, if_false, Act.tau.injEq] at h
            obtain ⟨rfl, rfl⟩ := h
            have := eρ_lt P1 P2 st e2
            simp only [sumω]; omega
        | panic m => rw [hst] at h; simp at h
        | call o s1 l' =>
          rw [hst] at h
          have hc := P1.call _ _ _ _ _ hst hg.1
          cases o with
          | greet k =>
            cases k with
            | zero =>
              simp only [Act.tau.injEq] at h; obtain ⟨rfl, rfl⟩ := h
              have := P2.le st.2 (M2.enter (.srcGreet j))
              have := h1.greet
              simp only [eρ, eω, sumω, Costs.of] at hc ⊢; omega
            | succ k => simp at h
          | down k d =>
            cases k with
            | zero =>
              simp only [Act.tau.injEq] at h; obtain ⟨rfl, rfl⟩ := h
              have := P2.le st.2 (M2.enter (.srcDown j d))
              have hd : P2.ω (M2.enter (.srcDown j d)) ≤ c1.of (Out.down 0 d : Out β) := by
                cases d with
                | data a => exact h1.data a
                | term => exact h1.term
                | err x => exact h1.err x
              simp only [eρ, eω, sumω] at hc ⊢; omega
            | succ k => simp at h
          | subSrc i => simp at h
          | srcUp i u => simp at h
          | app b => simp at h
      | hi l =>
        simp only [Cb.plug] at h
        cases hst : M2.step st.2 l with
        | tau s2 l' =>
          rw [hst] at h; simp only [Act.tau.injEq] at h; obtain ⟨rfl, rfl⟩ := h
          have := P2.tau _ _ _ _ hst hg.2
          simp only [eρ]; omega
        | ret =>
          rw [hst] at h
          cases rest with
          | nil => simp at h
          | cons e2 r2 =>
            simp only [List.isEmpty_cons, Bool.false_eq_true, if_false, Act.tau.injEq] at h
            obtain ⟨rfl, rfl⟩ := h
            have := eρ_lt P1 P2 st e2
            simp only [sumω]; omega
        | panic m => rw [hst] at h; simp at h
        | call o s2 l' =>
          rw [hst] at h
          have hc := P2.call _ _ _ _ _ hst hg.2
          cases o with
          | subSrc i =>
            simp only at h
            split at h
            · rename_i hij
              simp only [beq_iff_eq] at hij; subst hij
              simp only [Act.tau.injEq] at h; obtain ⟨rfl, rfl⟩ := h
              have := P1.le st.1 (M1.enter (.subscribe 0))
              simp only [eρ, eω, sumω] at hc ⊢; omega
            · simp at h
          | srcUp i u =>
            simp only at h
            split at h
            · rename_i hij
              simp only [beq_iff_eq] at hij; subst hij
              simp only [Act.tau.injEq] at h; obtain ⟨rfl, rfl⟩ := h
              have := P1.le st.1 (M1.enter (.sinkUp 0 u))
              have := h2u u
              simp only [eρ, eω, sumω] at hc ⊢; omega
            · simp at h
          | greet k => simp at h
          | down k d => simp at h
          | app b => simp at h
  call st cfs o s' cfs' h hg := by
    cases cfs with
    | nil => simp [Cb.plug] at h
    | cons e rest =>
      cases e with
      | lo l =>
        simp only [Cb.plug] at h
        cases hst : M1.step st.1 l with
        | tau s1 l' => rw [hst] at h; simp at h
        | ret => rw [hst] at h; simp only at h; split at h <;> simp at h
        | panic m => rw [hst] at h; simp at h
        | call o1 s1 l' =>
          rw [hst] at h
          cases o1 with
          | greet k => cases k <;> simp at h
          | down k d => cases k <;> simp at h
          | subSrc i => simp at h
          | srcUp i u => simp at h
          | app b => simp at h
      | hi l =>
        simp only [Cb.plug] at h
        cases hst : M2.step st.2 l with
        | tau s2 l' => rw [hst] at h; simp at h
        | ret => rw [hst] at h; simp only at h; split at h <;> simp at h
        | panic m => rw [hst] at h; simp at h
        | call o2 s2 l' =>
          rw [hst] at h
          have hc := P2.call _ _ _ _ _ hst hg.2
          cases o2 with
          | subSrc i =>
            simp only at h
            split at h
            · simp at h
            · simp only [Act.call.injEq] at h; obtain ⟨rfl, rfl, rfl⟩ := h
              simp only [eω, eρ] at hc ⊢; omega
          | srcUp i u =>
            simp only at h
            split at h
            · simp at h
            · simp only [Act.call.injEq] at h; obtain ⟨rfl, rfl, rfl⟩ := h
              simp only [eω, eρ] at hc ⊢; omega
          | greet k =>
            simp only [Act.call.injEq] at h; obtain ⟨rfl, rfl, rfl⟩ := h
            simp only [eω, eρ] at hc ⊢; omega
          | down k d =>
            simp only [Act.call.injEq] at h; obtain ⟨rfl, rfl, rfl⟩ := h
            simp only [eω, eρ] at hc ⊢; omega
          | app b =>
            simp only [Act.call.injEq] at h; obtain ⟨rfl, rfl, rfl⟩ := h
            simp only [eω, eρ] at hc ⊢; omega

  good_tau st cfs s' cfs' h hg := by
    cases cfs with
    | nil => simp [Cb.plug] at h
    | cons e rest =>
      cases e with
      | lo l =>
        simp only [Cb.plug] at h
        cases hst : M1.step st.1 l with
        | tau s1 l' =>
          rw [hst] at h; simp only [Act.tau.injEq] at h; obtain ⟨rfl, rfl⟩ := h
          exact ⟨P1.good_tau _ _ _ _ hst hg.1, hg.2⟩
        | ret =>
          rw [hst] at h; simp only at h
          split at h
          · simp at h
          · simp only [Act.tau.injEq] at h; obtain ⟨rfl, rfl⟩ := h; exact hg
        | panic m => rw [hst] at h; simp at h
        | call o s1 l' =>
          rw [hst] at h
          have hgc := P1.good_call _ _ _ _ _ hst hg.1
          cases o with
          | greet k =>
            cases k with
            | zero => simp only [Act.tau.injEq] at h; obtain ⟨rfl, rfl⟩ := h; exact ⟨hgc, hg.2⟩
            | succ k => simp at h
          | down k d =>
            cases k with
            | zero => simp only [Act.tau.injEq] at h; obtain ⟨rfl, rfl⟩ := h; exact ⟨hgc, hg.2⟩
            | succ k => simp at h
          | subSrc i => simp at h
          | srcUp i u => simp at h
          | app b => simp at h
      | hi l =>
        simp only [Cb.plug] at h
        cases hst : M2.step st.2 l with
        | tau s2 l' =>
          rw [hst] at h; simp only [Act.tau.injEq] at h; obtain ⟨rfl, rfl⟩ := h
          exact ⟨hg.1, P2.good_tau _ _ _ _ hst hg.2⟩
        | ret =>
          rw [hst] at h; simp only at h
          split at h
          · simp at h
          · simp only [Act.tau.injEq] at h; obtain ⟨rfl, rfl⟩ := h; exact hg
        | panic m => rw [hst] at h; simp at h
        | call o s2 l' =>
          rw [hst] at h
          have hgc := P2.good_call _ _ _ _ _ hst hg.2
          cases o with
          | subSrc i =>
            simp only at h
            split at h
            · simp only [Act.tau.injEq] at h; obtain ⟨rfl, rfl⟩ := h; exact ⟨hg.1, hgc⟩
            · simp at h
          | srcUp i u =>
            simp only at h
            split at h
            · simp only [Act.tau.injEq] at h; obtain ⟨rfl, rfl⟩ := h; exact ⟨hg.1, hgc⟩
            · simp at h
          | greet k => simp at h
          | down k d => simp at h
          | app b => simp at h
  good_call st cfs o s' cfs' h hg := by
    cases cfs with
    | nil => simp [Cb.plug] at h
    | cons e rest =>
      cases e with
      | lo l =>
        simp only [Cb.plug] at h
        cases hst : M1.step st.1 l with
        | tau s1 l' => rw [hst] at h; simp at h
        | ret => rw [hst] at h; simp only at h; split at h <;> simp at h
        | panic m => rw [hst] at h; simp at h
        | call o1 s1 l' =>
          rw [hst] at h
          have hgc := P1.good_call _ _ _ _ _ hst hg.1
          cases o1 with
          | greet k => cases k <;> simp at h
          | down k d => cases k <;> simp at h
          | subSrc i => simp at h
          | srcUp i u => simp at h
          | app b => simp at h
      | hi l =>
        simp only [Cb.plug] at h
        cases hst : M2.step st.2 l with
        | tau s2 l' => rw [hst] at h; simp at h
        | ret => rw [hst] at h; simp only at h; split at h <;> simp at h
        | panic m => rw [hst] at h; simp at h
        | call o2 s2 l' =>
          rw [hst] at h
          have hgc := P2.good_call _ _ _ _ _ hst hg.2
          cases o2 with
          | subSrc i =>
            simp only at h
            split at h
            · simp at h
            · simp only [Act.call.injEq] at h; obtain ⟨rfl, rfl, rfl⟩ := h; exact ⟨hg.1, hgc⟩
          | srcUp i u =>
            simp only at h
            split at h
            · simp at h
            · simp only [Act.call.injEq] at h; obtain ⟨rfl, rfl, rfl⟩ := h; exact ⟨hg.1, hgc⟩
          | greet k => simp only [Act.call.injEq] at h; obtain ⟨rfl, rfl, rfl⟩ := h; exact ⟨hg.1, hgc⟩
          | down k d => simp only [Act.call.injEq] at h; obtain ⟨rfl, rfl, rfl⟩ := h; exact ⟨hg.1, hgc⟩
          | app b => simp only [Act.call.injEq] at h; obtain ⟨rfl, rfl, rfl⟩ := h; exact ⟨hg.1, hgc⟩

/-- the entry points of the plugged machine are those of `M₂` -/
theorem Pot.plug_enter {c1 : Costs} {cost2 : Out γ → Nat} (j : Nat) (P1 : Pot M1 (c1.of (β := β))) (P2 : Pot M2 cost2)
    (h1 : P2.DownLeAt j c1.greet c1.data c1.fin) (h2s : P1.ω (M1.enter (.subscribe 0)) ≤ cost2 (.subSrc j))
    (h2u : ∀ u, P1.ω (M1.enter (.sinkUp 0 u)) ≤ cost2 (.srcUp j u)) (i : In β) :
    (P1.plug j P2 h1 h2s h2u).ω ((Cb.plug j M1 M2).enter i) = P2.ω (M2.enter i) := by
  cases i <;> simp [Pot.plug, Cb.plug, eω, sumω]

end Plug


section ConcatPot

/-- the costs of `concat`'s calls: a subscription to a member that does not exist costs nothing -/
def costC {α : Type} (n : Nat) (c : Costs) : Out α → Nat
  | .subSrc i => if i < n then c.sub else 0
  | o => c.of o

/-- **`concat!`** of `n` members: the handlers are loop-free; moving on to the next member (`t0`, then `next`: a subscription, inside
which that member may run) is paid for by the state part `(c.fin + c.sub + 3) * (n - i)`, so that the delivery of a member's
`Terminate` has a cost that does not depend on the other members -/
def Concat.pot (α : Type) (n : Nat) (c : Costs) : Pot (Concat.machine α n) (costC (α := α) n c) where
  good _ := True
  good_tau _ _ _ _ _ _ := trivial
  good_call _ _ _ _ _ _ _ := trivial
  Ψ st := (c.fin + c.sub + 3) * (n - st.i)
  ρ st l := match l with
    | .done => 0
    | .next => (if st.i = n then c.fin else if st.i < n then c.sub else 0) + 2
    | .g0 _ => c.greet + c.pull + 6
    | .g1 => c.greet + c.pull + 5
    | .g2 => c.pull + 3
    | .g3 => c.pull + 2
    | .fwd d => c.of (Out.down 0 d : Out α) + 2
    | .t0 => 3
    | .p0 => c.pull + 3
    | .u1 u => c.of (Out.srcUp 0 u : Out α) + 2
  ω l := match l with
    | .done => 1
    | .next => c.fin + c.sub + 3
    | .g0 _ => c.greet + c.pull + 7
    | .g1 => c.greet + c.pull + 6
    | .g2 => c.pull + 4
    | .g3 => c.pull + 3
    | .fwd d => c.of (Out.down 0 d : Out α) + 3
    | .t0 => 4
    | .p0 => c.pull + 4
    | .u1 u => c.of (Out.srcUp 0 u : Out α) + 3
  le st l := by
    cases l with
    | next => simp only; split <;> (try split) <;> omega
    | _ => simp
  tau st l s' l' h _ := by
    cases l <;> simp only [Concat.machine, Concat.step] at h
    case done => simp at h
    case next => split at h <;> simp at h
    case g0 j => simp only [Act.tau.injEq] at h; obtain ⟨rfl, rfl⟩ := h; simp
    case g1 =>
      split at h
      · simp at h
      · simp only [Act.tau.injEq] at h; obtain ⟨rfl, rfl⟩ := h; simp; omega
    case g2 =>
      split at h
      · simp only [Act.tau.injEq] at h; obtain ⟨rfl, rfl⟩ := h; simp
      · simp at h
    case g3 => split at h <;> simp at h
    case fwd d => simp at h
    case t0 =>
      simp only [Act.tau.injEq] at h; obtain ⟨rfl, rfl⟩ := h
      simp only
      by_cases h1 : st.i + 1 = n
      · have : n - st.i = 1 := by omega
        have h0 : n - (st.i + 1) = 0 := by omega
        rw [this, h0]; simp [h1]; omega
      · by_cases h2 : st.i + 1 < n
        · have : n - st.i = (n - (st.i + 1)) + 1 := by omega
          rw [this, Nat.mul_succ]; simp [h1, h2]; omega
        · have : n - st.i = 0 := by omega
          have h0 : n - (st.i + 1) = 0 := by omega
          rw [this, h0]; simp [h1, h2]
    case p0 => simp only [Act.tau.injEq] at h; obtain ⟨rfl, rfl⟩ := h; simp [Costs.of]
    case u1 u => split at h <;> simp at h
  call st l o s' l' h _ := by
    cases l <;> simp only [Concat.machine, Concat.step] at h
    case done => simp at h
    case next =>
      split at h
      · rename_i hi
        simp only [beq_iff_eq] at hi
        simp only [Act.call.injEq] at h; obtain ⟨rfl, rfl, rfl⟩ := h
        simp [costC, Costs.of, hi]; omega
      · rename_i hi
        simp only [beq_iff_eq] at hi
        simp only [Act.call.injEq] at h; obtain ⟨rfl, rfl, rfl⟩ := h
        simp only [costC, hi, if_false]
        split <;> omega
    case g0 j => simp at h
    case g1 =>
      split at h
      · simp only [Act.call.injEq] at h; obtain ⟨rfl, rfl, rfl⟩ := h; simp [costC, Costs.of]; omega
      · simp at h
    case g2 => split at h <;> simp at h
    case g3 =>
      split at h
      · simp only [Act.call.injEq] at h; obtain ⟨rfl, rfl, rfl⟩ := h; simp [costC, Costs.of]; omega
      · simp at h
    case fwd d => simp only [Act.call.injEq] at h; obtain ⟨rfl, rfl, rfl⟩ := h; cases d <;> simp [costC, Costs.of] <;> omega
    case t0 => simp at h
    case p0 => simp at h
    case u1 u =>
      split at h
      · simp only [Act.call.injEq] at h; obtain ⟨rfl, rfl, rfl⟩ := h; cases u <;> simp [costC, Costs.of] <;> omega
      · simp at h

theorem Concat.pot_upLe (α : Type) (n : Nat) (c : Costs) : (Concat.pot α n c).UpLe (c.fin + c.sub + 3) (c.pull + 4) (c.ufin + 3) := by
  refine ⟨?_, ?_, ?_, ?_⟩ <;> (try intro x) <;> simp [Concat.pot, Concat.machine, Concat.enter, Costs.of]

theorem Concat.pot_downLeAt (α : Type) (n : Nat) (c : Costs) (j : Nat) :
    (Concat.pot α n c).DownLeAt j (c.greet + c.pull + 7) (c.data + 3) (c.fin + 4) := by
  refine ⟨?_, ?_, ?_, ?_⟩ <;> (try intro x) <;> simp [Concat.pot, Concat.machine, Concat.enter, Costs.of]

end ConcatPot


section ConcatHead
variable {SA LA SB LB αA αB β : Type} {A : Machine SA LA αA β} {B : Machine SB LB αB β}

/-- **`concat!(A, B)`** of two closed heads is a closed head with a potential -/
theorem HeadPot.concat2 (hA : HeadPot A) (hB : HeadPot B) : HeadPot (Cb.plug 0 A (Cb.plug 1 B (Concat.machine β 2))) := by
  obtain ⟨fsA, fpA, fuA, hA⟩ := hA
  obtain ⟨fsB, fpB, fuB, hB⟩ := hB
  refine ⟨fun g f => f + max (fsA (g + max (fpA (f + 4)) (fpB (f + 4)) + 7) (f + 4)) (fsB (g + max (fpA (f + 4)) (fpB (f + 4)) + 7) (f + 4)) + 3,
    fun f => max (fpA (f + 4)) (fpB (f + 4)) + 4, max fuA fuB + 3, fun g d f => ?_⟩
  obtain ⟨PA, gA, uA⟩ := hA (g + max (fpA (f + 4)) (fpB (f + 4)) + 7) (d + 3) (f + 4)
  obtain ⟨PB, gB, uB⟩ := hB (g + max (fpA (f + 4)) (fpB (f + 4)) + 7) (d + 3) (f + 4)
  let c : Costs := ⟨max (fsA (g + max (fpA (f + 4)) (fpB (f + 4)) + 7) (f + 4)) (fsB (g + max (fpA (f + 4)) (fpB (f + 4)) + 7) (f + 4)),
    max (fpA (f + 4)) (fpB (f + 4)), max fuA fuB, g, d, f, 0⟩
  have hB2u : ∀ u, PB.ω (B.enter (.sinkUp 0 u)) ≤ costC (α := β) 2 c (.srcUp 1 u) := by
    intro u
    cases u with
    | pull => exact Nat.le_trans uB.pull (Nat.le_max_right _ _)
    | term => exact Nat.le_trans uB.uterm (Nat.le_max_right _ _)
    | err x => exact Nat.le_trans (uB.uerr x) (Nat.le_max_right _ _)
  obtain ⟨P', hP', gP'⟩ : ∃ P' : Pot (Cb.plug 1 B (Concat.machine β 2)) (costC (α := β) 2 c),
      (∀ i, P'.ω ((Cb.plug 1 B (Concat.machine β 2)).enter i) = (Concat.pot β 2 c).ω ((Concat.machine β 2).enter i)) ∧
      P'.good (Cb.plug 1 B (Concat.machine β 2)).init :=
    ⟨PB.plug 1 (Concat.pot β 2 c) (Concat.pot_downLeAt β 2 c 1)
      (Nat.le_trans uB.sub (by simp [costC, c]; exact Nat.le_max_right _ _)) hB2u, fun i => Pot.plug_enter _ _ _ _ _ _ i, gB, trivial⟩
  have hd' : P'.DownLeAt 0 (g + max (fpA (f + 4)) (fpB (f + 4)) + 7) (d + 3) (f + 4) := by
    have h0 := Concat.pot_downLeAt β 2 c 0
    refine ⟨?_, ?_, ?_, ?_⟩
    · rw [hP']; exact h0.greet
    · intro a; rw [hP']; exact h0.data a
    · rw [hP']; exact h0.term
    · intro x; rw [hP']; exact h0.err x
  have hA2u : ∀ u, PA.ω (A.enter (.sinkUp 0 u)) ≤ costC (α := β) 2 c (.srcUp 0 u) := by
    intro u
    cases u with
    | pull => exact Nat.le_trans uA.pull (Nat.le_max_left _ _)
    | term => exact Nat.le_trans uA.uterm (Nat.le_max_left _ _)
    | err x => exact Nat.le_trans (uA.uerr x) (Nat.le_max_left _ _)
  obtain ⟨P'', hP'', gP''⟩ : ∃ P'' : Pot (Cb.plug 0 A (Cb.plug 1 B (Concat.machine β 2))) (costC (α := β) 2 c),
      (∀ i, P''.ω ((Cb.plug 0 A (Cb.plug 1 B (Concat.machine β 2))).enter i) = P'.ω ((Cb.plug 1 B (Concat.machine β 2)).enter i)) ∧
      P''.good (Cb.plug 0 A (Cb.plug 1 B (Concat.machine β 2))).init :=
    ⟨PA.plug 0 P' hd' (Nat.le_trans uA.sub (by simp [costC, c]; exact Nat.le_max_left _ _)) hA2u,
      fun i => Pot.plug_enter _ _ _ _ _ _ i, gA, gP'⟩
  have hle : ∀ o : Out β, (⟨0, 0, 0, g, d, f, 0⟩ : Costs).of o ≤ costC (α := β) 2 c o := by
    intro o
    cases o with
    | subSrc i => simp [Costs.of]
    | srcUp i u => cases u <;> simp [Costs.of]
    | greet k => simp [costC, Costs.of, c]
    | down k d' => cases d' <;> simp [costC, Costs.of, c]
    | app b => simp [costC, Costs.of, c]
  have h0 := Concat.pot_upLe β 2 c
  refine ⟨P''.weaken hle, gP'', ?_, ?_, ?_, ?_⟩
  · rw [Pot.weaken_ω, hP'', hP']; exact h0.sub
  · rw [Pot.weaken_ω, hP'', hP']; exact h0.pull
  · rw [Pot.weaken_ω, hP'', hP']; exact h0.uterm
  · intro x; rw [Pot.weaken_ω, hP'', hP']; exact h0.uerr x

end ConcatHead

/-! ## Part 5: what a potential gives for a safe machine -/
section Consequences
variable {St Loc α β : Type} {M : Machine St Loc α β} {cost : Out β → Nat}

theorem sReach_advance (n : Nat) {s : Sys St Loc α β} (h : SReach M s) : SReach M (advance M n s) := by
  induction n generalizing s with
  | zero => exact h
  | succ n ih =>
    simp only [advance]
    cases ho : opStep M s with
    | none => exact h
    | some s' => exact ih (.step h (.op ho))

theorem envTurn_of_stuck {s : Sys St Loc α β} (h : opStep M s = none) (hp : s.panicked = none) : EnvTurn s := by
  refine ⟨hp, ?_⟩
  obtain ⟨st, stk, g, tr, p⟩ := s
  simp only at hp; subst hp
  cases stk with
  | nil => simp [ctxOf]
  | cons f r =>
    cases f with
    | wait o l => simp [ctxOf]
    | run l =>
      exfalso
      simp only [opStep, Option.isSome_none, Bool.false_eq_true, if_false] at h
      cases hs : M.step st l <;> simp [hs] at h

/-- **progress**: a safe machine with a potential runs, from every reachable configuration, into an environment turn -/
theorem Pot.reach_good (P : Pot M cost) (h0 : P.good M.init) : ∀ s, SReach M s → P.good s.st := by
  intro s hs
  induction hs with
  | init => exact h0
  | step ha hab ih =>
    cases hab with
    | op h => exact P.opStep_good h ih
    | env he _ => cases he <;> exact ih

theorem progress_of_pot (P : Pot M cost) (h0 : P.good M.init) (hsafe : ∀ s, SReach M s → BasicSafe s) :
    ∀ s, SReach M s → ∃ n, EnvTurn (advance M n s) := by
  intro s hs
  obtain ⟨n, hn⟩ := P.progress s (P.reach_good h0 s hs)
  exact ⟨n, envTurn_of_stuck hn (hsafe _ (sReach_advance n hs)).2⟩

/-- **the application returns**: a safe machine with a potential and without external upstream: from every reachable configuration,
operator steps and environment RETURNS lead back to top level -/
theorem returns_of_pot (P : Pot M cost) (h0 : P.good M.init) (hsafe : ∀ s, SReach M s → BasicSafe s)
    (hno : ∀ s, SReach M s → ∀ i, s.g.ph.srcPh i = .idle) :
    ∀ s, SReach M s → ∃ t, Drain M s t ∧ SReach M t ∧ t.stack = [] ∧ t.panicked = none ∧ (s.tr ≠ [] → t.tr ≠ []) := by
  intro s hs
  obtain ⟨t, hd, h1, h2⟩ := P.drain s (P.reach_good h0 s hs)
  have ht := hd.reach hs
  have hp := (hsafe t ht).2
  refine ⟨t, hd, ht, ?_, hp, hd.tr_ne⟩
  have hsrc := hno t ht
  obtain ⟨st, stk, g, tr, p⟩ := t
  simp only at hp hsrc ⊢; subst hp
  cases stk with
  | nil => rfl
  | cons f r =>
    exfalso
    cases f with
    | run l =>
      simp only [opStep, Option.isSome_none, Bool.false_eq_true, if_false] at h1
      cases hs' : M.step st l <;> simp [hs'] at h1
    | wait o l =>
      have hl : legalRet M.shape g.ph (.inCall o : Ctx β) = true := by
        cases o <;> simp [legalRet, hsrc]
      simp [envMove, hl] at h2

end Consequences

end ComposeTerm
end Cb

#print axioms Cb.ComposeTerm.Pot.progress
#print axioms Cb.ComposeTerm.Pot.drain
#print axioms Cb.ComposeTerm.Pot.compose
#print axioms Cb.ComposeTerm.HeadPot.relay
#print axioms Cb.ComposeTerm.HeadPot.take
#print axioms Cb.ComposeTerm.HeadPot.closed
#print axioms Cb.ComposeTerm.progress_of_pot
#print axioms Cb.ComposeTerm.returns_of_pot
