import CallbagModel.Inv.PullOnly
/-!
# Small-step invariants of `flatten` under an outer source that delivers only when pulled

All statements are about reachable configurations of `Flatten.machine Int` alone.  The assumption on its environment is a predicate on
the trace, closed under taking tails: `Cnd tr := POkSrc 0 (srcEvs tr) ∧ ¬ ErrIn tr` — every datum of upstream 0 (the outer source)
answers a `Pull`, and no upstream has sent an `Error`.

* `E1` (control): while an inner source is current, flatten has no unserved `Pull` at the outer source (`bp`); every inner source created
  before the last one has ended (`ended`); the live inner source is the last one created (`last`); no upstream is ever disposed unless
  the sink has terminated the stream (`nd`); the terminal is delivered only when the outer and every inner source have ended (`tc`);
  no `Error` is delivered (`eo`).
* `E2` (data): the sink has received the concatenation, in creation order, of what the inner sources have sent (`data`); the number of
  inner sources created is the number of data of the outer source (`cnt`).
* `D` (demand): an unserved `Pull` of the sink is an unserved `Pull` at the current inner source, or at the outer source if there is none.
-/
namespace Cb
namespace FlatPlugFun
open ComposeSafe ComposeFun ComposeComplete PlugSafe PlugConcat FlatPlugSafe

namespace FK

abbrev Fm := Frame FL Int

/-! ### the program text of `flatten`, as relations -/

inductive FTau : Flatten.St → FL → Flatten.St → FL → Prop
  | og0 {st} : FTau st .og0 { st with outer := true } .og1
  | od0 {st} : st.inner = none → FTau st .od0 st .od1
  | oe0 {st e} : st.inner = none → FTau st (.oe0 e) st (.oe1 e)
  | ot0 {st} : st.inner ≠ none → FTau st .ot0 { st with outer := false } .done
  | ig0 {st j} : FTau st (.ig0 j) { st with inner := some j } .ig1
  | ie0 {st e} : st.outer = false → FTau st (.ie0 e) st (.ie1 e)
  | it0 {st} : st.outer = true → FTau st .it0 st .it1
  | it1 {st} : FTau st .it1 { st with inner := none } .it2
  | p0 {st} : st.inner = none → FTau st .p0 st .p1
  | x0 {st} : st.inner = none → FTau st .x0 st .x1

inductive FCall : Flatten.St → FL → Out Int → Flatten.St → FL → Prop
  | sub0 {st} : FCall st .sub0 (.subSrc 0) st .done
  | og1 {st} : FCall st .og1 (.greet 0) st .done
  | od0 {st k} : st.inner = some k → FCall st .od0 (.srcUp k .term) st .od1
  | od1 {st} : FCall st .od1 (.subSrc st.nextId) { st with nextId := st.nextId + 1 } .done
  | oe0 {st e k} : st.inner = some k → FCall st (.oe0 e) (.srcUp k .term) st (.oe1 e)
  | oe1 {st e} : FCall st (.oe1 e) (.down 0 (.err e)) st .done
  | ot0 {st} : st.inner = none → FCall st .ot0 (.down 0 .term) st .done
  | ig1 {st k} : st.inner = some k → FCall st .ig1 (.srcUp k .pull) st .done
  | fwd {st a} : FCall st (.fwd a) (.down 0 (.data a)) st .done
  | ie0 {st e} : st.outer = true → FCall st (.ie0 e) (.srcUp 0 .term) st (.ie1 e)
  | ie1 {st e} : FCall st (.ie1 e) (.down 0 (.err e)) st .done
  | it0 {st} : st.outer = false → FCall st .it0 (.down 0 .term) st .done
  | it2 {st} : st.outer = true → FCall st .it2 (.srcUp 0 .pull) st .done
  | p0 {st k} : st.inner = some k → FCall st .p0 (.srcUp k .pull) st .done
  | p1 {st} : st.outer = true → FCall st .p1 (.srcUp 0 .pull) st .done
  | x0 {st k} : st.inner = some k → FCall st .x0 (.srcUp k .term) st .x1
  | x1 {st} : st.outer = true → FCall st .x1 (.srcUp 0 .term) st .done

inductive FRet : Flatten.St → FL → Prop
  | done {st} : FRet st .done
  | p1 {st} : st.outer = false → FRet st .p1
  | x1 {st} : st.outer = false → FRet st .x1

theorem ftau_of {st s' : Flatten.St} {l l' : FL} (h : (Flatten.machine Int).step st l = .tau s' l') : FTau st l s' l' := by
  cases l <;> simp only [Flatten.machine, Flatten.step] at h
  case done => cases h
  case sub0 => cases h
  case og0 => cases h; exact .og0
  case og1 => cases h
  case od0 =>
    split at h
    · cases h
    · cases h; exact .od0 ‹_›
  case od1 => cases h
  case oe0 e =>
    split at h
    · cases h
    · cases h; exact .oe0 ‹_›
  case oe1 e => cases h
  case ot0 =>
    split at h
    · cases h
    · cases h; exact .ot0 (by rename_i hh; simpa using hh)
  case ig0 j => cases h; exact .ig0
  case ig1 => split at h <;> cases h
  case fwd a => cases h
  case ie0 e =>
    split at h
    · cases h
    · cases h; exact .ie0 (by rename_i hh; simpa using hh)
  case ie1 e => cases h
  case it0 =>
    split at h
    · cases h
    · cases h; exact .it0 (by rename_i hh; simpa using hh)
  case it1 => cases h; exact .it1
  case it2 => split at h <;> cases h
  case p0 =>
    split at h
    · cases h
    · cases h; exact .p0 ‹_›
  case p1 => split at h <;> cases h
  case x0 =>
    split at h
    · cases h
    · cases h; exact .x0 ‹_›
  case x1 => split at h <;> cases h

theorem fcall_of {st s' : Flatten.St} {l l' : FL} {o : Out Int} (h : (Flatten.machine Int).step st l = .call o s' l') :
    FCall st l o s' l' := by
  cases l <;> simp only [Flatten.machine, Flatten.step] at h
  case done => cases h
  case sub0 => cases h; exact .sub0
  case og0 => cases h
  case og1 => cases h; exact .og1
  case od0 =>
    split at h
    · cases h; exact .od0 ‹_›
    · cases h
  case od1 => cases h; exact .od1
  case oe0 e =>
    split at h
    · cases h; exact .oe0 ‹_›
    · cases h
  case oe1 e => cases h; exact .oe1
  case ot0 =>
    split at h
    · cases h; exact .ot0 (by rename_i hh; simpa using hh)
    · cases h
  case ig0 j => cases h
  case ig1 =>
    split at h
    · cases h; exact .ig1 ‹_›
    · cases h
  case fwd a => cases h; exact .fwd
  case ie0 e =>
    split at h
    · cases h; exact .ie0 ‹_›
    · cases h
  case ie1 e => cases h; exact .ie1
  case it0 =>
    split at h
    · cases h; exact .it0 (by rename_i hh; simpa using hh)
    · cases h
  case it1 => cases h
  case it2 =>
    split at h
    · cases h; exact .it2 ‹_›
    · cases h
  case p0 =>
    split at h
    · cases h; exact .p0 ‹_›
    · cases h
  case p1 =>
    split at h
    · cases h; exact .p1 ‹_›
    · cases h
  case x0 =>
    split at h
    · cases h; exact .x0 ‹_›
    · cases h
  case x1 =>
    split at h
    · cases h; exact .x1 ‹_›
    · cases h

theorem fret_of {st : Flatten.St} {l : FL} (h : (Flatten.machine Int).step st l = .ret) : FRet st l := by
  cases l <;> simp only [Flatten.machine, Flatten.step] at h
  case done => exact .done
  case sub0 => cases h
  case og0 => cases h
  case og1 => cases h
  case od0 => split at h <;> cases h
  case od1 => cases h
  case oe0 e => split at h <;> cases h
  case oe1 e => cases h
  case ot0 => split at h <;> cases h
  case ig0 j => cases h
  case ig1 => split at h <;> cases h
  case fwd a => cases h
  case ie0 e => split at h <;> cases h
  case ie1 e => cases h
  case it0 => split at h <;> cases h
  case it1 => cases h
  case it2 => split at h <;> cases h
  case p0 => split at h <;> cases h
  case p1 =>
    split at h
    · cases h
    · exact .p1 (by rename_i hh; simpa using hh)
  case x0 => split at h <;> cases h
  case x1 =>
    split at h
    · cases h
    · exact .x1 (by rename_i hh; simpa using hh)


/-! ### the assumption on the environment -/

/-- the outer source delivers data only when pulled, and no upstream has sent an `Error` -/
def Cnd (tr : List (Ev Int Int)) : Prop := POkSrc 0 (srcEvs tr) ∧ ¬ ErrIn tr

theorem Cnd.tail {e : Ev Int Int} {tr : List (Ev Int Int)} (h : Cnd (e :: tr)) : Cnd tr := by
  refine ⟨?_, fun h' => h.2 (errIn_cons e h')⟩
  have := h.1
  simp only [srcEvs] at this
  cases hs : srcEv e with
  | none => rw [hs] at this; exact this
  | some x => rw [hs] at this; exact this.2

theorem Cnd.nil : Cnd [] := ⟨trivial, by rintro ⟨i, e, h⟩; simp [srcEvs] at h⟩

/-- flatten's view of the environment at an environment turn -/
theorem inv_turn' {a : FSys} (ha : SReach (Flatten.machine Int) a) (ht : EnvTurn a) : Flatten.Inv a :=
  inv_at_turn (Flatten.machine Int) Flatten.Inv Flatten.inv_init (fun s hi => (Flatten.inv_turn s hi).1) Flatten.inv_step ha ht

section ModeLemmas
variable {st : Flatten.St} {g : Ph} {stk : List Fm} {c : Ctx Int}

set_option hygiene false in
macro "noctx'" h:ident hc:ident hctx:ident : tactic =>
  `(tactic| (exfalso; obtain ⟨rest, rfl, _⟩ := $h; simp [ctxOf] at $hc:ident; subst $hc:ident
             simp [isTop, inGreet, inData, inSub, inPull] at $hctx:ident))

theorem mode_sinkUp {k : Nat} {u : Up} (hm : Flatten.Mode st g stk) (hoths : ∀ k, k ≠ 0 → g.sinkPh k = .idle)
    (hc : ctxOf stk = some c) (hl : legalIn (Flatten.machine Int).shape g c (.sinkUp k u : In Int) = true) :
    k = 0 ∧ g.sinkPh 0 = .live ∧ Flatten.OuterOk st.outer g ∧
      (∀ i, 0 < i → i < st.nextId → st.inner ≠ some i → Flatten.Dead g i) := by
  simp only [legalIn, Bool.and_eq_true, beq_iff_eq, Bool.or_eq_true] at hl
  obtain ⟨hlive, hctx⟩ := hl
  have hk : k = 0 := by
    by_cases hk : k = 0
    · exact hk
    · rw [hoths k hk] at hlive; cases hlive
  subst hk
  cases hm with
  | live h1 h2 h3 h4 h5 => exact ⟨rfl, h1, h2, h4⟩
  | wgreet j _ _ _ _ _ _ h => noctx' h hc hctx
  | od1 k _ _ _ h => noctx' h hc hctx
  | oe1 k e _ _ h => noctx' h hc hctx
  | ie1 e _ _ h => noctx' h hc hctx
  | init h1 => rw [h1] at hlive; cases hlive
  | sub h1 => rw [h1] at hlive; cases hlive
  | x1 k h1 => rw [h1] at hlive; cases hlive
  | fin h1 => rcases h1 with h1 | h1 <;> rw [h1] at hlive <;> cases hlive

theorem mode_srcGreet {i : Nat} (hm : Flatten.Mode st g stk) (hidle : ∀ i, st.nextId ≤ i → g.srcPh i = .idle)
    (hc : ctxOf stk = some c) (hl : legalIn (Flatten.machine Int).shape g c (.srcGreet i : In Int) = true) :
    g.srcPh i = .subscribed ∧ (i = 0 ∨ i + 1 = st.nextId) := by
  simp only [legalIn, Bool.and_eq_true, beq_iff_eq, Flatten.machine, Bool.false_and, Bool.or_false] at hl
  obtain ⟨hsub, hctx⟩ := hl
  refine ⟨hsub, ?_⟩
  cases hm with
  | init h1 h2 h3 h4 h5 h6 =>
    by_cases hi : i = 0
    · exact .inl hi
    · simp [hidle i (by omega)] at hsub
  | sub h1 h2 h3 h4 h5 h6 =>
    subst h3
    simp [ctxOf] at hc; subst hc; simp [inSub] at hctx; exact .inl hctx
  | live h1 h2 h3 h4 h5 => exact absurd hsub (Flatten.live_not_subscribed h2 hidle h3 h4 i)
  | wgreet j h1 h2 h3 h4 h5 h6 h7 =>
    obtain ⟨rest, rfl, hrest⟩ := h7
    simp [ctxOf] at hc; subst hc; simp [inSub] at hctx; subst hctx
    exact .inr h4.symm
  | od1 k _ _ _ h => obtain ⟨rest, rfl, _⟩ := h; simp [ctxOf] at hc; subst hc; simp [inSub] at hctx
  | oe1 k e _ _ h => obtain ⟨rest, rfl, _⟩ := h; simp [ctxOf] at hc; subst hc; simp [inSub] at hctx
  | ie1 e _ _ h => obtain ⟨rest, rfl, _⟩ := h; simp [ctxOf] at hc; subst hc; simp [inSub] at hctx
  | x1 k _ _ _ h => obtain ⟨rest, rfl, _⟩ := h; simp [ctxOf] at hc; subst hc; simp [inSub] at hctx
  | fin _ h2 _ => exact absurd hsub (h2 i).2

theorem mode_srcDown {i : Nat} {d : Down Int} (hm : Flatten.Mode st g stk) (hidle : ∀ i, st.nextId ≤ i → g.srcPh i = .idle)
    (hc : ctxOf stk = some c) (hl : legalIn (Flatten.machine Int).shape g c (.srcDown i d : In Int) = true) :
    g.srcPh i = .live ∧ g.sinkPh 0 = .live ∧ Flatten.OuterOk st.outer g ∧
      (∀ k, st.inner = some k → 0 < k ∧ k < st.nextId ∧ g.srcPh k = .live) ∧
      (∀ i, 0 < i → i < st.nextId → st.inner ≠ some i → Flatten.Dead g i) := by
  simp only [legalIn, Bool.and_eq_true, beq_iff_eq, Bool.or_eq_true] at hl
  obtain ⟨hlive, hctx⟩ := hl
  have hoff : Flatten.Off g i → False := fun h => h.1 hlive
  cases hm with
  | live h1 h2 h3 h4 h5 => exact ⟨hlive, h1, h2, h3, h4⟩
  | init h1 h2 h3 h4 h5 h6 =>
    exfalso
    by_cases hi : i = 0
    · subst hi; rw [h2] at hlive; cases hlive
    · rw [hidle i (by omega)] at hlive; cases hlive
  | sub h1 h2 h3 h4 h5 h6 =>
    exfalso
    by_cases hi : i = 0
    · subst hi; rw [h2] at hlive; cases hlive
    · rw [hidle i (by omega)] at hlive; cases hlive
  | wgreet j h1 h2 h3 h4 h5 h6 h7 =>
    exfalso
    obtain ⟨rest, rfl, hrest⟩ := h7
    simp [ctxOf] at hc; subst hc; simp [isTop, inSub, inPull] at hctx; subst hctx
    rw [h5] at hlive; cases hlive
  | od1 k _ _ _ h => noctx' h hc hctx
  | oe1 k e _ h2 h => exact (hoff (h2 i)).elim
  | ie1 e _ h2 h => exact (hoff (h2 i)).elim
  | x1 k _ _ _ h => noctx' h hc hctx
  | fin _ h2 _ => exact (hoff (h2 i)).elim

/-- the continuation the environment returns to -/
theorem mode_ret {o : Out Int} {l : FL} (hm : Flatten.Mode st g (.wait o l :: stk)) :
    l = .done ∨ (l = .x1 ∧ g.sinkPh 0 = .doneBySelf) ∨ l = .od1 ∨ (∃ e, l = .oe1 e) ∨ (∃ e, l = .ie1 e) := by
  have hb : Flatten.Benign (Frame.wait o l : Fm) → l = .done := by
    intro h; cases l <;> simp [Flatten.Benign] at h; rfl
  cases hm with
  | init _ _ h => cases h
  | sub _ _ h => cases h; exact .inl rfl
  | live _ _ _ _ h => exact .inl (hb (h _ List.mem_cons_self))
  | wgreet j _ _ _ _ _ _ h => obtain ⟨r, h, _⟩ := h; cases h; exact .inl rfl
  | od1 k _ _ _ h => obtain ⟨r, h, _⟩ := h; cases h; exact .inr (.inr (.inl rfl))
  | oe1 k e _ _ h => obtain ⟨r, h, _⟩ := h; cases h; exact .inr (.inr (.inr (.inl ⟨_, rfl⟩)))
  | ie1 e _ _ h => obtain ⟨r, h, _⟩ := h; cases h; exact .inr (.inr (.inr (.inr ⟨_, rfl⟩)))
  | x1 k h1 _ _ h => obtain ⟨r, h, _⟩ := h; cases h; exact .inr (.inl ⟨rfl, h1⟩)
  | fin _ _ h => exact .inl (hb (h _ List.mem_cons_self))

end ModeLemmas


/-! ### E1: control -/

def AllEnded (n : Nat) (ph : Ph) : Prop := ∀ j, 1 ≤ j → j < n → ph.srcPh j = .ended

structure Core1 (inner : Option Nat) (n : Nat) (ph : Ph) (tr : List (Ev Int Int)) : Prop where
  /-- no upstream is disposed unless the sink has terminated the stream -/
  nd : ph.sinkPh 0 = .doneBySelf ∨ ∀ i, ph.srcPh i ≠ .disposed
  ipos : ∀ k, inner = some k → 1 ≤ k
  /-- the live inner source is the last one created -/
  last : ∀ k, inner = some k → ph.srcPh k = .live → k + 1 = n
  /-- every inner source but the last one has ended -/
  ended : ∀ j, 1 ≤ j → j + 1 < n → ph.srcPh j = .ended
  /-- an unserved `Pull` at the outer source: no current inner source, and all of them have ended -/
  bp : bP tr = true → inner = none ∧ AllEnded n ph
  sb : ∀ j, ph.srcPh (j + 1) = .subscribed → bP tr = false
  /-- the terminal has been delivered: everything has ended -/
  tc : ph.sinkPh 0 = .doneBySrc → ph.srcPh 0 = .ended ∧ AllEnded n ph
  eo : ¬ ErrOut tr
  pos : 0 < n

def Fl1 (st : Flatten.St) (ph : Ph) (tr : List (Ev Int Int)) : List Fm → Prop
  | .run .od0 :: _ => st.inner = none ∧ AllEnded st.nextId ph ∧ bP tr = false ∧ ph.srcPh 0 = .live
  | .run .od1 :: _ => st.inner = none ∧ AllEnded st.nextId ph ∧ bP tr = false ∧ ph.srcPh 0 = .live
  | .run (.ig0 j) :: _ => j + 1 = st.nextId ∧ bP tr = false ∧ 1 ≤ j
  | .run .it0 :: _ => AllEnded st.nextId ph ∧ (st.outer = false → ph.srcPh 0 = .ended)
  | .run .it1 :: _ => AllEnded st.nextId ph
  | .run .it2 :: _ => AllEnded st.nextId ph ∧ st.inner = none
  | .run .ot0 :: _ => ph.srcPh 0 = .ended ∧ (st.inner = none → AllEnded st.nextId ph)
  | .run .p0 :: _ => st.inner = none → AllEnded st.nextId ph
  | .run .p1 :: _ => st.inner = none ∧ AllEnded st.nextId ph
  | .run .x0 :: _ => ph.sinkPh 0 = .doneBySelf
  | .run .x1 :: _ => ph.sinkPh 0 = .doneBySelf
  | .run (.oe0 _) :: _ => False
  | .run (.oe1 _) :: _ => False
  | .run (.ie0 _) :: _ => False
  | .run (.ie1 _) :: _ => False
  | _ => True

/-- continuations are `done` or `x1` -/
def NW (stk : List Fm) : Prop := ∀ o l, Frame.wait o l ∈ stk → l = .done ∨ l = .x1

theorem NW.tail {f : Fm} {stk : List Fm} (h : NW (f :: stk)) : NW stk := fun o l hm => h o l (List.mem_cons_of_mem _ hm)
theorem NW.run {l : FL} {stk : List Fm} (h : NW stk) : NW (.run l :: stk) := by
  intro o l' hm
  rcases List.mem_cons.1 hm with he | hm
  · cases he
  · exact h o l' hm
theorem NW.wait {o : Out Int} {l : FL} {stk : List Fm} (h : NW stk) (hl : l = .done ∨ l = .x1) : NW (.wait o l :: stk) := by
  intro o' l' hm
  rcases List.mem_cons.1 hm with he | hm
  · cases he; exact hl
  · exact h o' l' hm

theorem fl1_wait {st : Flatten.St} {ph : Ph} {tr : List (Ev Int Int)} {stk : List Fm}
    (h : ∀ f ∈ stk, ∃ o l, f = Frame.wait o l) : Fl1 st ph tr stk := by
  cases stk with
  | nil => simp [Fl1]
  | cons f r => obtain ⟨o, l, rfl⟩ := h f List.mem_cons_self; simp [Fl1]

theorem eo_cons {tr : List (Ev Int Int)} {ev : Ev Int Int} (h : ¬ ErrOut tr) (hev : ∀ k e, ev ≠ .out (.down k (.err e))) :
    ¬ ErrOut (ev :: tr) := by
  intro h'
  rcases errOut_cons h' with h' | ⟨k, e, h'⟩
  · exact h h'
  · exact hev k e h'

theorem Core1.congr {inner : Option Nat} {n : Nat} {ph ph' : Ph} {tr tr' : List (Ev Int Int)} (h : Core1 inner n ph tr)
    (hsrc : ∀ i, ph'.srcPh i = ph.srcPh i) (hsnk : ph'.sinkPh 0 = ph.sinkPh 0) (hb : bP tr' = bP tr)
    (he : ¬ ErrOut tr → ¬ ErrOut tr') : Core1 inner n ph' tr' := by
  have hae : AllEnded n ph → AllEnded n ph' := fun ha j h1 h2 => by rw [hsrc]; exact ha j h1 h2
  refine ⟨?_, h.ipos, ?_, ?_, ?_, ?_, ?_, he h.eo, h.pos⟩
  · rcases h.nd with h1 | h1
    · exact .inl (by rw [hsnk]; exact h1)
    · exact .inr (fun i => by rw [hsrc]; exact h1 i)
  · intro k hk hl; rw [hsrc] at hl; exact h.last k hk hl
  · intro j h1 h2; rw [hsrc]; exact h.ended j h1 h2
  · intro hbp; rw [hb] at hbp; exact ⟨(h.bp hbp).1, hae (h.bp hbp).2⟩
  · intro j hj; rw [hsrc] at hj; rw [hb]; exact h.sb j hj
  · intro hd; rw [hsnk] at hd; rw [hsrc]; exact ⟨(h.tc hd).1, hae (h.tc hd).2⟩

def E1 (s : FSys) : Prop := Cnd s.tr → Core1 s.st.inner s.st.nextId s.g.ph s.tr ∧ Fl1 s.st s.g.ph s.tr s.stack ∧ NW s.stack


macro "tev" : tactic =>
  `(tactic| simp [bP, aP, srcEvs, srcEv, sinkEvs, sinkEv, lastPullSrc, lastPull, relSrc, relS])

theorem allEnded_congr {n : Nat} {ph ph' : Ph} (hsrc : ∀ i, 1 ≤ i → ph'.srcPh i = ph.srcPh i) (h : AllEnded n ph) : AllEnded n ph' :=
  fun j h1 h2 => by rw [hsrc j h1]; exact h j h1 h2

theorem Core1.upd {inner : Option Nat} {n : Nat} {ph ph' : Ph} {tr tr' : List (Ev Int Int)} (h : Core1 inner n ph tr)
    (hsrc : ∀ i, 1 ≤ i → ph'.srcPh i = ph.srcPh i)
    (hnd : ph.sinkPh 0 = .doneBySelf → ph'.sinkPh 0 = .doneBySelf)
    (h0 : ph'.sinkPh 0 = .doneBySelf ∨ ph'.srcPh 0 ≠ .disposed)
    (hb : bP tr' = true → bP tr = true)
    (htc : ph'.sinkPh 0 = .doneBySrc → ph'.srcPh 0 = .ended ∧ AllEnded n ph)
    (he : ¬ ErrOut tr → ¬ ErrOut tr') : Core1 inner n ph' tr' := by
  refine ⟨?_, h.ipos, ?_, ?_, ?_, ?_, ?_, he h.eo, h.pos⟩
  · rcases h.nd with h1 | h1
    · exact .inl (hnd h1)
    · rcases h0 with h0 | h0
      · exact .inl h0
      · refine .inr (fun i => ?_)
        by_cases hi : i = 0
        · subst hi; exact h0
        · rw [hsrc i (by omega)]; exact h1 i
  · intro k hk hl; rw [hsrc k (h.ipos k hk)] at hl; exact h.last k hk hl
  · intro j h1 h2; rw [hsrc j h1]; exact h.ended j h1 h2
  · intro hbp; exact ⟨(h.bp (hb hbp)).1, allEnded_congr hsrc (h.bp (hb hbp)).2⟩
  · intro j hj
    rw [hsrc (j + 1) (by omega)] at hj
    cases hb' : bP tr' with
    | false => rfl
    | true => have := h.sb j hj; rw [hb hb'] at this; cases this
  · intro hd; exact ⟨(htc hd).1, allEnded_congr hsrc (htc hd).2⟩

/-- phases unchanged -/
theorem Core1.same {inner : Option Nat} {n : Nat} {ph : Ph} {tr tr' : List (Ev Int Int)} (h : Core1 inner n ph tr)
    (hb : bP tr' = true → bP tr = true) (he : ¬ ErrOut tr → ¬ ErrOut tr') : Core1 inner n ph tr' :=
  h.upd (fun _ _ => rfl) id (h.nd.elim .inl (fun h1 => .inr (h1 0))) hb h.tc he

/-- phases unchanged, a `Pull` is sent to the outer source -/
theorem Core1.pull0 {inner : Option Nat} {n : Nat} {ph : Ph} {tr tr' : List (Ev Int Int)} (h : Core1 inner n ph tr)
    (hbp : inner = none ∧ AllEnded n ph) (hsb : ∀ j, ph.srcPh (j + 1) ≠ .subscribed) (he : ¬ ErrOut tr → ¬ ErrOut tr') :
    Core1 inner n ph tr' :=
  ⟨h.nd, h.ipos, h.last, h.ended, fun _ => hbp, fun j hj => absurd hj (hsb j), h.tc, he h.eo, h.pos⟩

theorem dead_ended {ph : Ph} {i : Nat} (hnd : ph.sinkPh 0 = .doneBySelf ∨ ∀ i, ph.srcPh i ≠ .disposed) (hl : ph.sinkPh 0 = .live)
    (hd : Flatten.Dead ph i) : ph.srcPh i = .ended := by
  rcases hnd with h | h
  · rw [hl] at h; cases h
  · rcases hd with hd | hd
    · exact hd
    · exact absurd hd (h i)

theorem E1_reach : ∀ s, SReach (Flatten.machine Int) s → E1 s := by
  apply reach_ind
  · intro _
    refine ⟨⟨.inr (fun i => by simp [Sys.init]), fun k h => by simp [Sys.init, Flatten.machine] at h,
      fun k h => by simp [Sys.init, Flatten.machine] at h, fun j h1 h2 => by simp [Sys.init, Flatten.machine] at h2,
      fun h => by simp [Sys.init, bP, srcEvs, lastPullSrc] at h, fun j h => by simp [Sys.init] at h,
      fun h => by simp [Sys.init] at h, by rintro ⟨k, e, h⟩; simp [Sys.init, sinkEvs] at h, by simp [Sys.init, Flatten.machine]⟩,
      by simp [Sys.init, Fl1], fun o l h => by simp [Sys.init] at h⟩
  · intro a b ha ih hstep
    cases hstep with
    | @tau st l stk g tr s' l' hst =>
      intro hC
      obtain ⟨hk, hfl, hnw⟩ := ih hC
      simp only at hk hfl hnw ⊢
      have hnw' : ∀ l0 : FL, NW (.run l0 :: stk) := fun l0 => hnw.tail.run
      cases ftau_of hst with
      | og0 => exact ⟨hk, by simp [Fl1], hnw' _⟩
      | od0 h => exact ⟨hk, by simpa [Fl1] using hfl, hnw' _⟩
      | oe0 h => simp [Fl1] at hfl
      | ot0 h => exact ⟨hk, by simp [Fl1], hnw' _⟩
      | @ig0 j =>
        simp only [Fl1] at hfl
        obtain ⟨h1, h2, h3⟩ := hfl
        refine ⟨⟨hk.nd, ?_, ?_, hk.ended, ?_, hk.sb, hk.tc, hk.eo, hk.pos⟩, by simp [Fl1], hnw' _⟩
        · intro k hk'; simp at hk'; omega
        · intro k hk' _; simp at hk'; subst hk'; exact h1
        · intro hb; rw [h2] at hb; cases hb
      | ie0 h => simp [Fl1] at hfl
      | it0 h => exact ⟨hk, by simp only [Fl1] at hfl ⊢; exact hfl.1, hnw' _⟩
      | it1 =>
        simp only [Fl1] at hfl
        refine ⟨⟨hk.nd, ?_, ?_, hk.ended, fun _ => ⟨rfl, hfl⟩, hk.sb, hk.tc, hk.eo, hk.pos⟩, by simp only [Fl1]; exact ⟨hfl, trivial⟩, hnw' _⟩
        · intro k hk'; simp at hk'
        · intro k hk'; simp at hk'
      | p0 h => exact ⟨hk, by simp only [Fl1] at hfl ⊢; exact ⟨h, hfl h⟩, hnw' _⟩
      | x0 h => exact ⟨hk, by simpa [Fl1] using hfl, hnw' _⟩
    | @call st l stk g tr o s' l' hst =>
      intro hC
      obtain ⟨hk, hfl, hnw⟩ := ih hC.tail
      simp only at hk hfl hnw ⊢
      have hv := (Flatten.flatten_basicSafe _ (reach_op ha (.call hst))).1
      simp only [onOut_ph] at hv ⊢
      have hnw' : ∀ (o' : Out Int) (l0 : FL), (l0 = .done ∨ l0 = .x1) → NW (.wait o' l0 :: stk) := fun o' l0 h => hnw.tail.wait h
      have hnsub : ∀ j, g.ph.srcPh (j + 1) ≠ .subscribed := by
        intro j hj
        obtain ⟨l0, r, h⟩ := subscribed_top _ flatten_lg ha (j + 1) hj
        simp at h
      cases fcall_of hst with
      | sub0 =>
        obtain ⟨hidle, _, heq⟩ := onOut_subSrc_ok _ _ hv
        rw [heq]
        refine ⟨hk.upd (fun i hi => by simp [show i ≠ 0 by omega]) (by simp) (.inr (by simp)) (fun h => by simpa [bP, srcEvs, srcEv, lastPullSrc, relSrc] using h)
          (fun hd => ?_) (fun h => eo_cons h (fun k e h' => by cases h')), by simp [Fl1], hnw' _ _ (.inl rfl)⟩
        have := (hk.tc (by simpa using hd)).1
        rw [hidle] at this; cases this
      | og1 =>
        obtain ⟨hsub, heq⟩ := onOut_greet_ok _ _ hv
        rw [heq]
        refine ⟨hk.upd (fun i hi => by simp) (fun h => by rw [hsub] at h; cases h) ?_ (fun h => by simpa [bP, srcEvs, srcEv] using h)
          (fun hd => by simp at hd) (fun h => eo_cons h (fun k e h' => by cases h')), by simp [Fl1], hnw' _ _ (.inl rfl)⟩
        rcases hk.nd with h | h
        · rw [hsub] at h; cases h
        · exact .inr (by simpa using h 0)
      | od0 hin => simp only [Fl1] at hfl; rw [hfl.1] at hin; cases hin
      | od1 =>
        obtain ⟨hidle, _, heq⟩ := onOut_subSrc_ok _ _ hv
        rw [heq]
        simp only [Fl1] at hfl
        obtain ⟨f1, f2, f3, f4⟩ := hfl
        have hb' : bP (Ev.out (Out.subSrc st.nextId) :: tr : List (Ev Int Int)) = false := by
          simpa [bP, srcEvs, srcEv, lastPullSrc, relSrc] using f3
        refine ⟨⟨?_, ?_, ?_, ?_, ?_, ?_, ?_, eo_cons hk.eo (fun k e h' => by cases h'), by simp⟩, by simp [Fl1], hnw' _ _ (.inl rfl)⟩
        · rcases hk.nd with h | h
          · exact .inl (by simpa using h)
          · refine .inr (fun i => ?_)
            by_cases hi : i = st.nextId
            · subst hi; simp
            · simpa [hi] using h i
        · intro k hk'; simp only at hk'; rw [f1] at hk'; cases hk'
        · intro k hk'; simp only at hk'; rw [f1] at hk'; cases hk'
        · intro j h1 h2
          have : j ≠ st.nextId := by simp only at h2; omega
          simp only [Ph.srcPh_setSrc, this, if_false]
          exact f2 j h1 (by simp only at h2; omega)
        · intro hb; rw [hb'] at hb; cases hb
        · intro j _; exact hb'
        · intro hd
          have := (hk.tc (by simpa using hd)).1
          rw [f4] at this; cases this
      | oe0 hin => simp [Fl1] at hfl
      | oe1 => simp [Fl1] at hfl
      | ot0 hin =>
        obtain ⟨hlive, heq⟩ := onOut_down_ok _ _ _ hv
        rw [heq]
        simp only [Fl1] at hfl
        simp only [isFinal, if_true]
        refine ⟨hk.upd (fun i hi => by simp) (fun h => by rw [hlive] at h; cases h) ?_ (fun h => by simpa [bP, srcEvs, srcEv] using h)
          (fun _ => ⟨by simpa using hfl.1, hfl.2 hin⟩) (fun h => eo_cons h (fun k e h' => by cases h')), by simp [Fl1], hnw' _ _ (.inl rfl)⟩
        rcases hk.nd with h | h
        · rw [hlive] at h; cases h
        · exact .inr (by simpa using h 0)
      | @ig1 k hin =>
        obtain ⟨hlive, heq⟩ := onOut_srcUp_ok _ _ _ hv
        rw [heq]
        have hk1 := hk.ipos _ hin
        exact ⟨hk.same (fun h => by simpa [bP, srcEvs, srcEv, lastPullSrc, relSrc, show ¬ (k = 0) by omega] using h)
          (fun h => eo_cons h (fun k e h' => by cases h')), by simp [Fl1], hnw' _ _ (.inl rfl)⟩
      | fwd =>
        obtain ⟨hlive, heq⟩ := onOut_down_ok _ _ _ hv
        rw [heq]
        simp only [isFinal]
        exact ⟨hk.same (fun h => by simpa [bP, srcEvs, srcEv] using h)
          (fun h => eo_cons h (fun k e h' => by cases h')), by simp [Fl1], hnw' _ _ (.inl rfl)⟩
      | ie0 hin => simp [Fl1] at hfl
      | ie1 => simp [Fl1] at hfl
      | it0 hout =>
        obtain ⟨hlive, heq⟩ := onOut_down_ok _ _ _ hv
        rw [heq]
        simp only [Fl1] at hfl
        simp only [isFinal, if_true]
        refine ⟨hk.upd (fun i hi => by simp) (fun h => by rw [hlive] at h; cases h) ?_ (fun h => by simpa [bP, srcEvs, srcEv] using h)
          (fun _ => ⟨by simpa using hfl.2 hout, hfl.1⟩) (fun h => eo_cons h (fun k e h' => by cases h')), by simp [Fl1], hnw' _ _ (.inl rfl)⟩
        rcases hk.nd with h | h
        · rw [hlive] at h; cases h
        · exact .inr (by simpa using h 0)
      | it2 hout =>
        obtain ⟨hlive, heq⟩ := onOut_srcUp_ok _ _ _ hv
        rw [heq]
        simp only [Fl1] at hfl
        exact ⟨hk.pull0 ⟨hfl.2, hfl.1⟩ hnsub (fun h => eo_cons h (fun k e h' => by cases h')), by simp [Fl1], hnw' _ _ (.inl rfl)⟩
      | @p0 k hin =>
        obtain ⟨hlive, heq⟩ := onOut_srcUp_ok _ _ _ hv
        rw [heq]
        have hk1 := hk.ipos _ hin
        exact ⟨hk.same (fun h => by simpa [bP, srcEvs, srcEv, lastPullSrc, relSrc, show ¬ (k = 0) by omega] using h)
          (fun h => eo_cons h (fun k e h' => by cases h')), by simp [Fl1], hnw' _ _ (.inl rfl)⟩
      | p1 hout =>
        obtain ⟨hlive, heq⟩ := onOut_srcUp_ok _ _ _ hv
        rw [heq]
        simp only [Fl1] at hfl
        exact ⟨hk.pull0 hfl hnsub (fun h => eo_cons h (fun k e h' => by cases h')), by simp [Fl1], hnw' _ _ (.inl rfl)⟩
      | @x0 k hin =>
        obtain ⟨hlive, heq⟩ := onOut_srcUp_ok _ _ _ hv
        rw [heq]
        simp only [Fl1] at hfl
        simp only [afterUp]
        have hb' : bP (Ev.out (Out.srcUp k Up.term) :: tr : List (Ev Int Int)) = bP tr := by
          simp [bP, srcEvs, srcEv, lastPullSrc, relSrc]
        have hbf : bP tr = false := by
          cases hb : bP tr with
          | false => rfl
          | true => have := (hk.bp hb).1; rw [hin] at this; cases this
        refine ⟨⟨.inl (by simpa using hfl), hk.ipos, ?_, ?_, ?_, ?_, ?_, eo_cons hk.eo (fun k e h' => by cases h'), hk.pos⟩,
          by simp [Fl1], hnw' _ _ (.inr rfl)⟩
        · intro k' hk' hl
          rw [hin] at hk'; cases hk'
          simp at hl
        · intro j h1 h2
          by_cases hj : j = k
          · subst hj; have := hk.ended j h1 h2; rw [hlive] at this; cases this
          · simpa [hj] using hk.ended j h1 h2
        · intro hb; rw [hb', hbf] at hb; cases hb
        · intro j _; rw [hb']; exact hbf
        · intro hd; simp at hd; rw [hfl] at hd; cases hd
      | x1 hout =>
        obtain ⟨hlive, heq⟩ := onOut_srcUp_ok _ _ _ hv
        rw [heq]
        simp only [Fl1] at hfl
        simp only [afterUp]
        exact ⟨hk.upd (fun i hi => by simp [show i ≠ 0 by omega]) (by simp) (.inl (by simpa using hfl))
          (fun h => by simpa [bP, srcEvs, srcEv, lastPullSrc, relSrc] using h)
          (fun hd => by simp at hd; rw [hfl] at hd; cases hd) (fun h => eo_cons h (fun k e h' => by cases h')),
          by simp [Fl1], hnw' _ _ (.inl rfl)⟩
    | @ret st l stk g tr hst =>
      intro hC
      obtain ⟨hk, hfl, hnw⟩ := ih hC.tail
      simp only at hk hfl hnw ⊢
      simp only [onRetO_ph]
      exact ⟨hk.same (fun h => by simpa [bP, srcEvs, srcEv] using h) (fun h => eo_cons h (fun k e h' => by cases h')),
        fl1_wait (pop_turn _ ha), hnw.tail⟩
    | panic hst =>
      have := (Flatten.flatten_basicSafe _ (reach_op ha (.panic hst))).2
      cases this
  · intro a b m ha ih hstep
    cases hstep with
    | @call st stk g tr c i hc hl =>
      intro hC
      obtain ⟨hk, hfl, hnw⟩ := ih hC.tail
      simp only at hk hfl hnw ⊢
      obtain ⟨_, _, hpos, hidle, hoths, hm⟩ := inv_turn' ha ⟨rfl, by simp [hc]⟩
      simp only at hpos hidle hoths hm
      simp only [onIn_ph]
      have hin : ∀ ev : Ev Int Int, (∀ o, ev ≠ .out o) → ¬ ErrOut tr → ¬ ErrOut (ev :: tr) :=
        fun ev h1 h2 => eo_cons h2 (fun k e h' => h1 _ h')
      cases i with
      | subscribe k =>
        have hl' := hl
        simp only [legalIn, Bool.and_eq_true, beq_iff_eq, Flatten.machine, Bool.or_false] at hl'
        obtain ⟨⟨_, hidle0⟩, rfl⟩ := hl'
        refine ⟨hk.upd (fun i hi => by simp [Ph.onIn]) (fun h => by rw [hidle0] at h; cases h) ?_
          (fun h => by simpa [bP, srcEvs, srcEv] using h) (fun hd => by simp [Ph.onIn] at hd) (hin _ (fun o h => by cases h)),
          by simp [Fl1, Flatten.machine, Flatten.enter], hnw.run⟩
        rcases hk.nd with h | h
        · rw [hidle0] at h; cases h
        · exact .inr (by simpa [Ph.onIn] using h 0)
      | sinkUp k u =>
        obtain ⟨rfl, hlive, hoo, h4⟩ := mode_sinkUp hm hoths hc hl
        cases u with
        | pull =>
          refine ⟨hk.same (fun h => by simpa [bP, srcEvs, srcEv] using h) (hin _ (fun o h => by cases h)), ?_, hnw.run⟩
          simp only [Fl1, Flatten.machine, Flatten.enter, Ph.onIn]
          intro hinn j h1 h2
          exact dead_ended hk.nd hlive (h4 j h1 h2 (by rw [hinn]; simp))
        | term =>
          exact ⟨hk.upd (fun i hi => by simp [Ph.onIn]) (fun _ => by simp [Ph.onIn]) (.inl (by simp [Ph.onIn]))
            (fun h => by simpa [bP, srcEvs, srcEv] using h) (fun hd => by simp [Ph.onIn] at hd) (hin _ (fun o h => by cases h)),
            by simp [Fl1, Flatten.machine, Flatten.enter, Ph.onIn], hnw.run⟩
        | err e =>
          exact ⟨hk.upd (fun i hi => by simp [Ph.onIn]) (fun _ => by simp [Ph.onIn]) (.inl (by simp [Ph.onIn]))
            (fun h => by simpa [bP, srcEvs, srcEv] using h) (fun hd => by simp [Ph.onIn] at hd) (hin _ (fun o h => by cases h)),
            by simp [Fl1, Flatten.machine, Flatten.enter, Ph.onIn], hnw.run⟩
      | srcGreet i =>
        obtain ⟨hsub, hi⟩ := mode_srcGreet hm hidle hc hl
        cases i with
        | zero =>
          refine ⟨hk.upd (fun i hi => by simp [Ph.onIn, show i ≠ 0 by omega]) (by simp [Ph.onIn]) (.inr (by simp [Ph.onIn]))
            (fun h => by simpa [bP, srcEvs, srcEv, lastPullSrc, relSrc] using h) (fun hd => ?_) (hin _ (fun o h => by cases h)),
            by simp [Fl1, Flatten.machine, Flatten.enter], hnw.run⟩
          have := (hk.tc (by simpa [Ph.onIn] using hd)).1
          rw [hsub] at this; cases this
        | succ j =>
          have hn : j + 1 + 1 = st.nextId := by rcases hi with hi | hi; cases hi; exact hi
          have hbf : bP tr = false := hk.sb j hsub
          have hb' : bP (Ev.inp (In.srcGreet (j + 1)) :: tr : List (Ev Int Int)) = false := by
            simpa [bP, srcEvs, srcEv, lastPullSrc, relSrc] using hbf
          refine ⟨⟨?_, hk.ipos, ?_, ?_, ?_, ?_, ?_, hin _ (fun o h => by cases h) hk.eo, hk.pos⟩, ?_, hnw.run⟩
          · rcases hk.nd with h | h
            · exact .inl (by simpa [Ph.onIn] using h)
            · refine .inr (fun i => ?_)
              by_cases hi' : i = j + 1
              · subst hi'; simp [Ph.onIn]
              · simpa [Ph.onIn, hi'] using h i
          · intro k hk' hl'
            by_cases hkj : k = j + 1
            · subst hkj; exact hn
            · exact hk.last k hk' (by simpa [Ph.onIn, hkj] using hl')
          · intro j' h1 h2
            have : j' ≠ j + 1 := by omega
            simpa [Ph.onIn, this] using hk.ended j' h1 h2
          · intro hb; rw [hb'] at hb; cases hb
          · intro _ _; exact hb'
          · intro hd
            have := (hk.tc (by simpa [Ph.onIn] using hd)).2 (j + 1) (by omega) (by omega)
            rw [hsub] at this; cases this
          · simp only [Fl1, Flatten.machine, Flatten.enter]
            exact ⟨hn, hb', by omega⟩
      | srcDown i d =>
        obtain ⟨hlv, hsl, hoo, h3, h4⟩ := mode_srcDown hm hidle hc hl
        cases i with
        | zero =>
          cases d with
          | data x =>
            have hb : bP tr = true := by
              have := hC.1
              simp only [srcEvs, srcEv, consOpt_some, POkSrc] at this
              exact this.1 (by simp [isDataJ])
            obtain ⟨hinn, hae⟩ := hk.bp hb
            exact ⟨hk.same (fun h => by simp [bP, srcEvs, srcEv, lastPullSrc, relSrc] at h) (hin _ (fun o h => by cases h)),
              by simp only [Fl1, Flatten.machine, Flatten.enter, Ph.onIn]; exact ⟨hinn, hae, by simp [bP, srcEvs, srcEv, lastPullSrc, relSrc], hlv⟩,
              hnw.run⟩
          | term =>
            refine ⟨hk.upd (fun i hi => by simp [Ph.onIn, show i ≠ 0 by omega]) (by simp [Ph.onIn]) (.inr (by simp [Ph.onIn]))
              (fun h => by simp [bP, srcEvs, srcEv, lastPullSrc, relSrc] at h) (fun hd => by simp [Ph.onIn] at hd; rw [hsl] at hd; cases hd)
              (hin _ (fun o h => by cases h)), ?_, hnw.run⟩
            simp only [Fl1, Flatten.machine, Flatten.enter]
            refine ⟨by simp [Ph.onIn], fun hinn j h1 h2 => ?_⟩
            have := dead_ended hk.nd hsl (h4 j h1 h2 (by rw [hinn]; simp))
            simpa [Ph.onIn, show j ≠ 0 by omega] using this
          | err e => exact absurd (errIn_srcDown 0 e) hC.2
        | succ j =>
          cases d with
          | data x =>
            exact ⟨hk.same (fun h => by simpa [bP, srcEvs, srcEv, lastPullSrc, relSrc] using h) (hin _ (fun o h => by cases h)),
              by simp [Fl1, Flatten.machine, Flatten.enter], hnw.run⟩
          | term =>
            have hlt : j + 1 < st.nextId := by
              by_cases h : j + 1 < st.nextId
              · exact h
              · rw [hidle (j + 1) (by omega)] at hlv; cases hlv
            have hinn : st.inner = some (j + 1) := by
              by_cases h : st.inner = some (j + 1)
              · exact h
              · rcases h4 (j + 1) (by omega) hlt h with hd | hd <;> rw [hlv] at hd <;> cases hd
            have hn : j + 1 + 1 = st.nextId := hk.last _ hinn hlv
            have hb' : bP (Ev.inp (In.srcDown (j + 1) Down.term) :: tr : List (Ev Int Int)) = bP tr := by
              simp [bP, srcEvs, srcEv, lastPullSrc, relSrc]
            have hbf : bP tr = false := by
              cases hb : bP tr with
              | false => rfl
              | true => have := (hk.bp hb).1; rw [hinn] at this; cases this
            refine ⟨⟨?_, hk.ipos, ?_, ?_, ?_, ?_, ?_, hin _ (fun o h => by cases h) hk.eo, hk.pos⟩, ?_, hnw.run⟩
            · rcases hk.nd with h | h
              · exact .inl (by simpa [Ph.onIn] using h)
              · refine .inr (fun i => ?_)
                by_cases hi' : i = j + 1
                · subst hi'; simp [Ph.onIn]
                · simpa [Ph.onIn, hi'] using h i
            · intro k hk' hl'
              rw [hinn] at hk'; cases hk'
              simp [Ph.onIn] at hl'
            · intro j' h1 h2
              have : j' ≠ j + 1 := by omega
              simpa [Ph.onIn, this] using hk.ended j' h1 h2
            · intro hb; rw [hb', hbf] at hb; cases hb
            · intro _ _; rw [hb']; exact hbf
            · intro hd; simp [Ph.onIn] at hd; rw [hsl] at hd; cases hd
            · simp only [Fl1, Flatten.machine, Flatten.enter]
              refine ⟨fun j' h1 h2 => ?_, fun hout => ?_⟩
              · by_cases hj : j' = j + 1
                · subst hj; simp [Ph.onIn]
                · simpa [Ph.onIn, hj] using hk.ended j' h1 (by omega)
              · have := dead_ended hk.nd hsl (hoo.2 hout)
                simpa [Ph.onIn] using this
          | err e => exact absurd (errIn_srcDown (j + 1) e) hC.2
    | @ret st stk g tr o l hl =>
      intro hC
      obtain ⟨hk, hfl, hnw⟩ := ih hC.tail
      simp only at hk hfl hnw ⊢
      obtain ⟨_, _, hpos, hidle, hoths, hm⟩ := inv_turn' ha ⟨rfl, by simp [ctxOf]⟩
      simp only at hm
      refine ⟨hk.same (fun h => by simpa [bP, srcEvs, srcEv] using h) (fun h => eo_cons h (fun k e h' => by cases h')), ?_, hnw.tail.run⟩
      rcases hnw o l List.mem_cons_self with rfl | rfl
      · simp [Fl1]
      · simp only [Fl1]
        rcases mode_ret hm with h | ⟨_, h⟩ | h | ⟨e, h⟩ | ⟨e, h⟩
        · cases h
        · exact h
        · cases h
        · cases h
        · cases h


/-! ### E2: data -/

/-- `f 1 ++ f 2 ++ … ++ f m` -/
def catTo (f : Nat → List Int) : Nat → List Int
  | 0 => []
  | m + 1 => catTo f m ++ f (m + 1)

theorem catTo_congr {f f' : Nat → List Int} {m : Nat} (h : ∀ j, 1 ≤ j → j ≤ m → f j = f' j) : catTo f m = catTo f' m := by
  induction m with
  | zero => rfl
  | succ m ih =>
    simp only [catTo]
    rw [ih (fun j h1 h2 => h j h1 (by omega)), h (m + 1) (by omega) (by omega)]

def pendD : List Fm → List Int
  | .run (.fwd a) :: _ => [a]
  | _ => []

def isOdB : FL → Bool
  | .od0 => true
  | .od1 => true
  | _ => false

/-- number of handlers of an outer datum in progress (0 or 1) -/
def odc : List Fm → Nat
  | [] => 0
  | f :: t => (if isOdB (locOf f) then 1 else 0) + odc t

structure Core2 (st : Flatten.St) (tr : List (Ev Int Int)) (stk : List Fm) : Prop where
  /-- the sink has received what the inner sources have sent, in creation order -/
  data : ∃ m, st.nextId = m + 1 ∧ recvData 0 tr ++ pendD stk = catTo (fun j => sentData j tr) m
  /-- one inner source per outer datum -/
  cnt : st.nextId + odc stk = (sentData 0 tr).length + 1
  zero : ∀ j, st.nextId ≤ j → sentData j tr = []

def E2 (s : FSys) : Prop := Cnd s.tr → Core2 s.st s.tr s.stack

theorem pendD_wait {stk : List Fm} (h : ∀ f ∈ stk, ∃ o l, f = Frame.wait o l) : pendD stk = [] := by
  cases stk with
  | nil => rfl
  | cons f r => obtain ⟨o, l, rfl⟩ := h f List.mem_cons_self; rfl

theorem Core2.evt {st : Flatten.St} {tr : List (Ev Int Int)} {stk stk' : List Fm} (h : Core2 st tr stk) (ev : Ev Int Int)
    (hr : recvData 0 (ev :: tr) = recvData 0 tr) (hs : ∀ j, sentData j (ev :: tr) = sentData j tr)
    (hp : pendD stk' = pendD stk) (ho : odc stk' = odc stk) : Core2 st (ev :: tr) stk' := by
  obtain ⟨m, hm, hd⟩ := h.data
  refine ⟨⟨m, hm, ?_⟩, ?_, ?_⟩
  · rw [hr, hp, hd]; exact catTo_congr (fun j _ _ => (hs j).symm)
  · rw [ho, hs]; exact h.cnt
  · intro j hj; rw [hs]; exact h.zero j hj

theorem Core2.stk {st : Flatten.St} {tr : List (Ev Int Int)} {stk stk' : List Fm} (h : Core2 st tr stk)
    (hp : pendD stk' = pendD stk) (ho : odc stk' = odc stk) : Core2 st tr stk' := by
  obtain ⟨m, hm, hd⟩ := h.data
  exact ⟨⟨m, hm, by rw [hp, hd]⟩, by rw [ho]; exact h.cnt, h.zero⟩

theorem E2_reach : ∀ s, SReach (Flatten.machine Int) s → E2 s := by
  apply reach_ind
  · intro _
    exact ⟨⟨0, rfl, rfl⟩, rfl, fun j _ => rfl⟩
  · intro a b ha ih hstep
    cases hstep with
    | @tau st l stk g tr s' l' hst =>
      intro hC
      have h2 := ih hC
      simp only at h2 ⊢
      obtain ⟨m, hm, hd⟩ := h2.data
      cases ftau_of hst with
      | og0 => exact ⟨⟨m, hm, hd⟩, h2.cnt, h2.zero⟩
      | od0 h => exact h2.stk rfl rfl
      | oe0 h => exact h2.stk rfl rfl
      | ot0 h => exact ⟨⟨m, hm, hd⟩, h2.cnt, h2.zero⟩
      | ig0 => exact ⟨⟨m, hm, hd⟩, h2.cnt, h2.zero⟩
      | ie0 h => exact h2.stk rfl rfl
      | it0 h => exact h2.stk rfl rfl
      | it1 => exact ⟨⟨m, hm, hd⟩, h2.cnt, h2.zero⟩
      | p0 h => exact h2.stk rfl rfl
      | x0 h => exact h2.stk rfl rfl
    | @call st l stk g tr o s' l' hst =>
      intro hC
      have h2 := ih hC.tail
      simp only at h2 ⊢
      cases fcall_of hst with
      | sub0 => exact h2.evt _ rfl (fun _ => rfl) rfl rfl
      | og1 => exact h2.evt _ rfl (fun _ => rfl) rfl rfl
      | od0 h => exact h2.evt _ rfl (fun _ => rfl) rfl rfl
      | od1 =>
        obtain ⟨m, hm, hd⟩ := h2.data
        refine ⟨⟨m + 1, by simp [hm], ?_⟩, ?_, ?_⟩
        · simp only [catTo]
          have hz : sentData (m + 1) tr = [] := h2.zero (m + 1) (by omega)
          have hd' : recvData 0 tr = catTo (fun j => sentData j tr) m := by simpa [pendD] using hd
          simp [recvData, sentData, pendD, hz, hd']
        · have := h2.cnt
          simp only [odc, locOf, isOdB, if_true] at this ⊢
          simp [sentData]
          omega
        · intro j hj
          simp only at hj
          simp only [sentData]
          exact h2.zero j (by omega)
      | oe0 h => exact h2.evt _ rfl (fun _ => rfl) rfl rfl
      | oe1 => exact h2.evt _ rfl (fun _ => rfl) rfl rfl
      | ot0 h => exact h2.evt _ rfl (fun _ => rfl) rfl rfl
      | ig1 h => exact h2.evt _ rfl (fun _ => rfl) rfl rfl
      | @fwd x =>
        obtain ⟨m, hm, hd⟩ := h2.data
        refine ⟨⟨m, hm, ?_⟩, ?_, ?_⟩
        · simp only [pendD] at hd
          simp only [recvData, pendD, if_true, List.append_nil, sentData]
          exact hd
        · have := h2.cnt
          simp only [odc, locOf, isOdB] at this ⊢
          simpa [sentData] using this
        · intro j hj; simp only [sentData]; exact h2.zero j hj
      | ie0 h => exact h2.evt _ rfl (fun _ => rfl) rfl rfl
      | ie1 => exact h2.evt _ rfl (fun _ => rfl) rfl rfl
      | it0 h => exact h2.evt _ rfl (fun _ => rfl) rfl rfl
      | it2 h => exact h2.evt _ rfl (fun _ => rfl) rfl rfl
      | p0 h => exact h2.evt _ rfl (fun _ => rfl) rfl rfl
      | p1 h => exact h2.evt _ rfl (fun _ => rfl) rfl rfl
      | x0 h => exact h2.evt _ rfl (fun _ => rfl) rfl rfl
      | x1 h => exact h2.evt _ rfl (fun _ => rfl) rfl rfl
    | @ret st l stk g tr hst =>
      intro hC
      have h2 := ih hC.tail
      simp only at h2 ⊢
      have hw := pendD_wait (pop_turn _ ha)
      cases fret_of hst with
      | done => exact h2.evt _ rfl (fun _ => rfl) (by rw [hw]; rfl) (by simp [odc, locOf, isOdB])
      | p1 h => exact h2.evt _ rfl (fun _ => rfl) (by rw [hw]; rfl) (by simp [odc, locOf, isOdB])
      | x1 h => exact h2.evt _ rfl (fun _ => rfl) (by rw [hw]; rfl) (by simp [odc, locOf, isOdB])
    | panic hst =>
      have := (Flatten.flatten_basicSafe _ (reach_op ha (.panic hst))).2
      cases this
  · intro a b m ha ih hstep
    cases hstep with
    | @call st stk g tr c i hc hl =>
      intro hC
      have h2 := ih hC.tail
      obtain ⟨hk, _, _⟩ := E1_reach _ ha hC.tail
      simp only at h2 hk ⊢
      obtain ⟨_, _, hpos, hidle, hoths, hm⟩ := inv_turn' ha ⟨rfl, by simp [hc]⟩
      simp only at hpos hidle hoths hm
      have hw := pendD_wait (turn_all_waits _ ha hc)
      cases i with
      | subscribe k => exact h2.evt _ rfl (fun _ => rfl) (by rw [hw]; rfl) (by simp [odc, locOf, isOdB, Flatten.machine, Flatten.enter])
      | sinkUp k u =>
        cases u <;> exact h2.evt _ rfl (fun _ => rfl) (by rw [hw]; rfl) (by simp [odc, locOf, isOdB, Flatten.machine, Flatten.enter])
      | srcGreet i =>
        cases i <;> exact h2.evt _ rfl (fun _ => rfl) (by rw [hw]; rfl) (by simp [odc, locOf, isOdB, Flatten.machine, Flatten.enter])
      | srcDown i d =>
        obtain ⟨hlv, hsl, hoo, h3, h4⟩ := mode_srcDown hm hidle hc hl
        obtain ⟨m, hmm, hd⟩ := h2.data
        cases i with
        | zero =>
          cases d with
          | data x =>
            refine ⟨⟨m, hmm, ?_⟩, ?_, ?_⟩
            · simp only [Flatten.machine, Flatten.enter, pendD, recvData]
              rw [hw] at hd; rw [hd]
              exact catTo_congr (fun j h1 _ => by simp [sentData, show ¬ (0 = j) by omega])
            · have := h2.cnt
              simp only [Flatten.machine, Flatten.enter, odc, locOf, isOdB, if_true]
              simp [sentData]
              omega
            · intro j hj
              simp only [sentData, show ¬ (0 = j) by omega, if_false]
              exact h2.zero j hj
          | term => exact h2.evt _ rfl (fun _ => rfl) (by rw [hw]; rfl) (by simp [odc, locOf, isOdB, Flatten.machine, Flatten.enter])
          | err e => exact h2.evt _ rfl (fun _ => rfl) (by rw [hw]; rfl) (by simp [odc, locOf, isOdB, Flatten.machine, Flatten.enter])
        | succ j =>
          cases d with
          | data x =>
            have hlt : j + 1 < st.nextId := by
              by_cases h : j + 1 < st.nextId
              · exact h
              · rw [hidle (j + 1) (by omega)] at hlv; cases hlv
            have hinn : st.inner = some (j + 1) := by
              by_cases h : st.inner = some (j + 1)
              · exact h
              · rcases h4 (j + 1) (by omega) hlt h with hd' | hd' <;> rw [hlv] at hd' <;> cases hd'
            have hn : j + 1 + 1 = st.nextId := hk.last _ hinn hlv
            have hmj : m = j + 1 := by omega
            subst hmj
            refine ⟨⟨j + 1, hmm, ?_⟩, ?_, ?_⟩
            · simp only [Flatten.machine, Flatten.enter, pendD, recvData]
              rw [hw, List.append_nil] at hd; rw [hd]
              simp only [catTo]
              rw [catTo_congr (f' := fun j' => sentData j' (Ev.inp (In.srcDown (j + 1) (Down.data x)) :: tr))
                (fun j' h1 h2' => by simp [sentData, show ¬ (j + 1 = j') by omega])]
              simp [sentData]
            · have := h2.cnt
              simp only [Flatten.machine, Flatten.enter, odc, locOf, isOdB]
              simpa [sentData] using this
            · intro j' hj
              simp only [sentData, show ¬ (j + 1 = j') by omega, if_false]
              exact h2.zero j' hj
          | term => exact h2.evt _ rfl (fun _ => rfl) (by rw [hw]; rfl) (by simp [odc, locOf, isOdB, Flatten.machine, Flatten.enter])
          | err e => exact h2.evt _ rfl (fun _ => rfl) (by rw [hw]; rfl) (by simp [odc, locOf, isOdB, Flatten.machine, Flatten.enter])
    | @ret st stk g tr o l hl =>
      intro hC
      have h2 := ih hC.tail
      obtain ⟨_, _, hnw⟩ := E1_reach _ ha hC.tail
      simp only at h2 hnw ⊢
      rcases hnw o l List.mem_cons_self with rfl | rfl
      · exact h2.evt _ rfl (fun _ => rfl) rfl rfl
      · exact h2.evt _ rfl (fun _ => rfl) rfl rfl


/-! ### D: demand -/

/-- an unserved `Pull` of the sink is an unserved `Pull` at the current inner source, or at the outer source if there is none -/
def Q (st : Flatten.St) (tr : List (Ev Int Int)) : Prop :=
  aP tr = true → (∀ k, st.inner = some k → lastPullSrc k (srcEvs tr) = true) ∧ (st.inner = none → st.outer = true → bP tr = true)

/-- a handler that has consumed a `Pull` or a delivery and has not yet passed it on -/
def Exc (st : Flatten.St) (ph : Ph) : List Fm → Prop
  | .run .p0 :: _ => True
  | .run .p1 :: _ => True
  | .run (.fwd _) :: _ => True
  | .run .it0 :: _ => True
  | .run .it1 :: _ => True
  | .run .it2 :: _ => True
  | .run .od0 :: _ => True
  | .run .od1 :: _ => True
  | .run (.ig0 _) :: _ => True
  | .run .ig1 :: _ => True
  | .run .og0 :: _ => True
  | .run .og1 :: _ => True
  | .run .ot0 :: _ => st.inner = none
  | .wait (.subSrc (j + 1)) _ :: _ => ph.srcPh (j + 1) = .subscribed
  | _ => False

def FlD (st : Flatten.St) : List Fm → Prop
  | .run .og1 :: _ => st.outer = true
  | .run .it1 :: _ => st.outer = true
  | _ => True

structure CoreD (st : Flatten.St) (ph : Ph) (tr : List (Ev Int Int)) (stk : List Fm) : Prop where
  q : Exc st ph stk ∨ Q st tr
  io : ph.sinkPh 0 = .live → st.outer = true ∨ st.inner.isSome = true
  a0 : (ph.sinkPh 0 = .idle ∨ ph.sinkPh 0 = .subscribed) → aP tr = false
  fl : FlD st stk

def D (s : FSys) : Prop := Cnd s.tr → CoreD s.st s.g.ph s.tr s.stack

theorem Q.evt {st : Flatten.St} {tr tr' : List (Ev Int Int)} (h : Q st tr) (ha : aP tr' = true → aP tr = true)
    (hs : ∀ k, lastPullSrc k (srcEvs tr) = true → lastPullSrc k (srcEvs tr') = true) : Q st tr' := by
  intro hap
  obtain ⟨h1, h2⟩ := h (ha hap)
  exact ⟨fun k hk => hs k (h1 k hk), fun hi ho => hs 0 (h2 hi ho)⟩

theorem fld_wait {st : Flatten.St} {stk : List Fm} (h : ∀ f ∈ stk, ∃ o l, f = Frame.wait o l) : FlD st stk := by
  cases stk with
  | nil => simp [FlD]
  | cons f r => obtain ⟨o, l, rfl⟩ := h f List.mem_cons_self; simp [FlD]

/-- at an environment turn inside the subscription of an inner source that has not greeted yet, the environment can only greet -/
theorem exc_turn {st : Flatten.St} {ph : Ph} {stk : List Fm} {c : Ctx Int} {i : In Int} (he : Exc st ph stk) (hc : ctxOf stk = some c)
    (hl : legalIn (Flatten.machine Int).shape ph c i = true) : ∃ i', i = .srcGreet i' := by
  cases stk with
  | nil => simp [Exc] at he
  | cons f r =>
    cases f with
    | run l => simp [ctxOf] at hc
    | wait o l =>
      cases o with
      | subSrc n =>
        cases n with
        | zero => simp [Exc] at he
        | succ j =>
          simp only [Exc] at he
          simp [ctxOf] at hc; subst hc
          cases i with
          | subscribe k => simp [legalIn, isTop] at hl
          | sinkUp k u => simp [legalIn, isTop, inGreet, inData] at hl
          | srcGreet i' => exact ⟨i', rfl⟩
          | srcDown i' d =>
            simp [legalIn, isTop, inSub, inPull] at hl
            obtain ⟨h1, h2⟩ := hl
            subst h2; rw [he] at h1; cases h1
      | greet k => simp [Exc] at he
      | down k d => simp [Exc] at he
      | srcUp k u => simp [Exc] at he
      | app b => simp [Exc] at he

theorem D_reach : ∀ s, SReach (Flatten.machine Int) s → D s := by
  apply reach_ind
  · intro _
    exact ⟨.inr (fun h => by simp [aP, sinkEvs, lastPull, Sys.init] at h), fun h => by simp [Sys.init] at h,
      fun _ => by simp [aP, sinkEvs, lastPull, Sys.init], by simp [FlD, Sys.init]⟩
  · intro a b ha ih hstep
    cases hstep with
    | @tau st l stk g tr s' l' hst =>
      intro hC
      obtain ⟨hq, hio, ha0, hfd⟩ := ih hC
      obtain ⟨hk, hfl, hnw⟩ := E1_reach _ ha hC
      simp only at hq hio ha0 hfd hk hfl hnw ⊢
      cases ftau_of hst with
      | og0 => exact ⟨.inl (by simp [Exc]), fun _ => .inl rfl, ha0, by simp [FlD]⟩
      | od0 h => exact ⟨.inl (by simp [Exc]), hio, ha0, by simp [FlD]⟩
      | oe0 h => simp [Fl1] at hfl
      | ot0 h =>
        have hQ : Q st tr := hq.resolve_left (by simpa [Exc] using h)
        refine ⟨.inr (fun hap => ⟨(hQ hap).1, fun hi => absurd hi h⟩), fun _ => .inr ?_, ha0, by simp [FlD]⟩
        cases hi : st.inner with
        | none => exact absurd hi h
        | some k => rfl
      | ig0 => exact ⟨.inl (by simp [Exc]), fun _ => .inr rfl, ha0, by simp [FlD]⟩
      | ie0 h => simp [Fl1] at hfl
      | it0 h => exact ⟨.inl (by simp [Exc]), hio, ha0, by simpa [FlD] using h⟩
      | it1 =>
        simp only [FlD] at hfd
        exact ⟨.inl (by simp [Exc]), fun _ => .inl hfd, ha0, by simp [FlD]⟩
      | p0 h => exact ⟨.inl (by simp [Exc]), hio, ha0, by simp [FlD]⟩
      | x0 h => exact ⟨.inr (hq.resolve_left (by simp [Exc])), hio, ha0, by simp [FlD]⟩
    | @call st l stk g tr o s' l' hst =>
      intro hC
      obtain ⟨hq, hio, ha0, hfd⟩ := ih hC.tail
      obtain ⟨hk, hfl, hnw⟩ := E1_reach _ ha hC.tail
      simp only at hq hio ha0 hfd hk hfl hnw ⊢
      have hv := (Flatten.flatten_basicSafe _ (reach_op ha (.call hst))).1
      simp only [onOut_ph] at hv ⊢
      cases fcall_of hst with
      | sub0 =>
        obtain ⟨hidle, _, heq⟩ := onOut_subSrc_ok _ _ hv
        rw [heq]
        have hQ : Q st tr := hq.resolve_left (by simp [Exc])
        exact ⟨.inr (hQ.evt (fun h => by simpa [aP, sinkEvs, sinkEv] using h) (fun k h => by simpa [srcEvs, srcEv, lastPullSrc, relSrc] using h)),
          by simpa using hio, by simpa [aP, sinkEvs, sinkEv] using ha0, by simp [FlD]⟩
      | og1 =>
        obtain ⟨hsub, heq⟩ := onOut_greet_ok _ _ hv
        rw [heq]
        have haf : aP tr = false := ha0 (.inr hsub)
        simp only [FlD] at hfd
        exact ⟨.inr (fun h => by simp [aP, sinkEvs, sinkEv, lastPull, relS] at h; rw [aP] at haf; rw [haf] at h; cases h),
          fun _ => .inl hfd, by simp, by simp [FlD]⟩
      | od0 hin => simp only [Fl1] at hfl; rw [hfl.1] at hin; cases hin
      | od1 =>
        obtain ⟨hidle, _, heq⟩ := onOut_subSrc_ok _ _ hv
        rw [heq]
        obtain ⟨m, hm⟩ : ∃ m, st.nextId = m + 1 := ⟨st.nextId - 1, by have := hk.pos; omega⟩
        refine ⟨.inl ?_, by simpa using hio, by simpa [aP, sinkEvs, sinkEv] using ha0, by simp [FlD]⟩
        rw [hm]; simp [Exc]
      | oe0 hin => simp [Fl1] at hfl
      | oe1 => simp [Fl1] at hfl
      | ot0 hin =>
        obtain ⟨hlive, heq⟩ := onOut_down_ok _ _ _ hv
        rw [heq]
        simp only [isFinal, if_true]
        exact ⟨.inr (fun h => by simp [aP, sinkEvs, sinkEv, lastPull, relS] at h), by simp, by simp, by simp [FlD]⟩
      | @ig1 k hin =>
        obtain ⟨hlive, heq⟩ := onOut_srcUp_ok _ _ _ hv
        rw [heq]
        refine ⟨.inr (fun _ => ⟨fun k' hk' => ?_, fun hi => by rw [hin] at hi; cases hi⟩), by simpa [afterUp] using hio,
          by simpa [aP, sinkEvs, sinkEv, afterUp] using ha0, by simp [FlD]⟩
        rw [hin] at hk'; cases hk'
        simp [srcEvs, srcEv, lastPullSrc, relSrc]
      | fwd =>
        obtain ⟨hlive, heq⟩ := onOut_down_ok _ _ _ hv
        rw [heq]
        simp only [isFinal]
        exact ⟨.inr (fun h => by simp [aP, sinkEvs, sinkEv, lastPull, relS] at h), hio,
          fun h => by simp [aP, sinkEvs, sinkEv, lastPull, relS], by simp [FlD]⟩
      | ie0 hin => simp [Fl1] at hfl
      | ie1 => simp [Fl1] at hfl
      | it0 hout =>
        obtain ⟨hlive, heq⟩ := onOut_down_ok _ _ _ hv
        rw [heq]
        simp only [isFinal, if_true]
        exact ⟨.inr (fun h => by simp [aP, sinkEvs, sinkEv, lastPull, relS] at h), by simp, by simp, by simp [FlD]⟩
      | it2 hout =>
        obtain ⟨hlive, heq⟩ := onOut_srcUp_ok _ _ _ hv
        rw [heq]
        simp only [Fl1] at hfl
        exact ⟨.inr (fun _ => ⟨fun k' hk' => (by rw [hfl.2] at hk'; cases hk'), fun _ _ => by simp [bP, srcEvs, srcEv, lastPullSrc, relSrc]⟩), by simpa [afterUp] using hio,
          by simpa [aP, sinkEvs, sinkEv, afterUp] using ha0, by simp [FlD]⟩
      | @p0 k hin =>
        obtain ⟨hlive, heq⟩ := onOut_srcUp_ok _ _ _ hv
        rw [heq]
        refine ⟨.inr (fun _ => ⟨fun k' hk' => ?_, fun hi => by rw [hin] at hi; cases hi⟩), by simpa [afterUp] using hio,
          by simpa [aP, sinkEvs, sinkEv, afterUp] using ha0, by simp [FlD]⟩
        rw [hin] at hk'; cases hk'
        simp [srcEvs, srcEv, lastPullSrc, relSrc]
      | p1 hout =>
        obtain ⟨hlive, heq⟩ := onOut_srcUp_ok _ _ _ hv
        rw [heq]
        simp only [Fl1] at hfl
        exact ⟨.inr (fun _ => ⟨fun k' hk' => (by rw [hfl.1] at hk'; cases hk'), fun _ _ => by simp [bP, srcEvs, srcEv, lastPullSrc, relSrc]⟩), by simpa [afterUp] using hio,
          by simpa [aP, sinkEvs, sinkEv, afterUp] using ha0, by simp [FlD]⟩
      | @x0 k hin =>
        obtain ⟨hlive, heq⟩ := onOut_srcUp_ok _ _ _ hv
        rw [heq]
        have hQ : Q st tr := hq.resolve_left (by simp [Exc])
        exact ⟨.inr (hQ.evt (fun h => by simpa [aP, sinkEvs, sinkEv] using h) (fun k h => by simpa [srcEvs, srcEv, lastPullSrc, relSrc] using h)),
          by simpa [afterUp] using hio, by simpa [aP, sinkEvs, sinkEv, afterUp] using ha0, by simp [FlD]⟩
      | x1 hout =>
        obtain ⟨hlive, heq⟩ := onOut_srcUp_ok _ _ _ hv
        rw [heq]
        have hQ : Q st tr := hq.resolve_left (by simp [Exc])
        exact ⟨.inr (hQ.evt (fun h => by simpa [aP, sinkEvs, sinkEv] using h) (fun k h => by simpa [srcEvs, srcEv, lastPullSrc, relSrc] using h)),
          by simpa [afterUp] using hio, by simpa [aP, sinkEvs, sinkEv, afterUp] using ha0, by simp [FlD]⟩
    | @ret st l stk g tr hst =>
      intro hC
      obtain ⟨hq, hio, ha0, hfd⟩ := ih hC.tail
      obtain ⟨hk, hfl, hnw⟩ := E1_reach _ ha hC.tail
      simp only at hq hio ha0 hfd hk hfl hnw ⊢
      simp only [onRetO_ph]
      have hQ : Q st tr := by
        cases fret_of hst with
        | done => exact hq.resolve_left (by simp [Exc])
        | p1 hout =>
          simp only [Fl1] at hfl
          exact fun _ => ⟨fun k' hk' => (by rw [hfl.1] at hk'; cases hk'), fun _ ho => by rw [hout] at ho; cases ho⟩
        | x1 hout => exact hq.resolve_left (by simp [Exc])
      exact ⟨.inr (hQ.evt (fun h => by simpa [aP, sinkEvs, sinkEv] using h) (fun k h => by simpa [srcEvs, srcEv] using h)),
        hio, by simpa [aP, sinkEvs, sinkEv] using ha0, fld_wait (pop_turn _ ha)⟩
    | panic hst =>
      have := (Flatten.flatten_basicSafe _ (reach_op ha (.panic hst))).2
      cases this
  · intro a b m ha ih hstep
    cases hstep with
    | @call st stk g tr c i hc hl =>
      intro hC
      obtain ⟨hq, hio, ha0, hfd⟩ := ih hC.tail
      obtain ⟨hk, hfl, hnw⟩ := E1_reach _ ha hC.tail
      simp only at hq hio ha0 hfd hk hfl hnw ⊢
      simp only [onIn_ph]
      have hQ : (∀ i', i ≠ .srcGreet i') → Q st tr := by
        intro hne
        rcases hq with he | hQ
        · obtain ⟨i', rfl⟩ := exc_turn he hc hl
          exact absurd rfl (hne i')
        · exact hQ
      cases i with
      | subscribe k =>
        have hl' := hl
        simp only [legalIn, Bool.and_eq_true, beq_iff_eq, Flatten.machine, Bool.or_false] at hl'
        obtain ⟨⟨_, hidle0⟩, rfl⟩ := hl'
        exact ⟨.inr ((hQ (fun _ h => by cases h)).evt (fun h => by simpa [aP, sinkEvs, sinkEv, lastPull, relS] using h) (fun k h => by simpa [srcEvs, srcEv] using h)),
          by simp [Ph.onIn], fun _ => by simpa [aP, sinkEvs, sinkEv, lastPull, relS] using ha0 (.inl hidle0),
          by simp [FlD, Flatten.machine, Flatten.enter]⟩
      | sinkUp k u =>
        obtain ⟨_, _, hpos, hidle, hoths, hm⟩ := inv_turn' ha ⟨rfl, by simp [hc]⟩
        simp only at hoths hm
        obtain ⟨rfl, hlive, _, _⟩ := mode_sinkUp hm hoths hc hl
        cases u with
        | pull =>
          exact ⟨.inl (by simp [Exc, Flatten.machine, Flatten.enter]), by simpa [Ph.onIn] using hio,
            fun h => by simp [Ph.onIn, hlive] at h, by simp [FlD, Flatten.machine, Flatten.enter]⟩
        | term =>
          exact ⟨.inr ((hQ (fun _ h => by cases h)).evt (fun h => by simpa [aP, sinkEvs, sinkEv, lastPull, relS] using h) (fun k h => by simpa [srcEvs, srcEv] using h)),
            by simp [Ph.onIn], fun h => by simp [Ph.onIn] at h, by simp [FlD, Flatten.machine, Flatten.enter]⟩
        | err e =>
          exact ⟨.inr ((hQ (fun _ h => by cases h)).evt (fun h => by simpa [aP, sinkEvs, sinkEv, lastPull, relS] using h) (fun k h => by simpa [srcEvs, srcEv] using h)),
            by simp [Ph.onIn], fun h => by simp [Ph.onIn] at h, by simp [FlD, Flatten.machine, Flatten.enter]⟩
      | srcGreet i' =>
        cases i' with
        | zero =>
          exact ⟨.inl (by simp [Exc, Flatten.machine, Flatten.enter]), by simpa [Ph.onIn] using hio,
            by simpa [Ph.onIn, aP, sinkEvs, sinkEv] using ha0, by simp [FlD, Flatten.machine, Flatten.enter]⟩
        | succ j =>
          exact ⟨.inl (by simp [Exc, Flatten.machine, Flatten.enter]), by simpa [Ph.onIn] using hio,
            by simpa [Ph.onIn, aP, sinkEvs, sinkEv] using ha0, by simp [FlD, Flatten.machine, Flatten.enter]⟩
      | srcDown i' d =>
        have hio' : (g.ph.onIn (In.srcDown i' d : In Int)).sinkPh 0 = .live → st.outer = true ∨ st.inner.isSome = true := by
          cases d <;> simpa [Ph.onIn] using hio
        have ha0' : ((g.ph.onIn (In.srcDown i' d : In Int)).sinkPh 0 = .idle ∨ (g.ph.onIn (In.srcDown i' d : In Int)).sinkPh 0 = .subscribed) →
            aP (Ev.inp (In.srcDown i' d) :: tr : List (Ev Int Int)) = false := by
          cases d <;> simpa [Ph.onIn, aP, sinkEvs, sinkEv] using ha0
        cases i' with
        | zero =>
          cases d with
          | data x => exact ⟨.inl (by simp [Exc, Flatten.machine, Flatten.enter]), hio', ha0', by simp [FlD, Flatten.machine, Flatten.enter]⟩
          | term =>
            refine ⟨?_, hio', ha0', by simp [FlD, Flatten.machine, Flatten.enter]⟩
            by_cases hin : st.inner = none
            · exact .inl (by simpa [Exc, Flatten.machine, Flatten.enter] using hin)
            · have hQ' := hQ (fun _ h => by cases h)
              refine .inr (fun hap => ⟨fun k hk' => ?_, fun hi => absurd hi hin⟩)
              have h1 := (hQ' (by simpa [aP, sinkEvs, sinkEv] using hap)).1 k hk'
              have hk1 := hk.ipos k hk'
              simpa [srcEvs, srcEv, lastPullSrc, relSrc, show ¬ (0 = k) by omega] using h1
          | err e => exact absurd (errIn_srcDown 0 e) hC.2
        | succ j =>
          cases d with
          | data x => exact ⟨.inl (by simp [Exc, Flatten.machine, Flatten.enter]), hio', ha0', by simp [FlD, Flatten.machine, Flatten.enter]⟩
          | term => exact ⟨.inl (by simp [Exc, Flatten.machine, Flatten.enter]), hio', ha0', by simp [FlD, Flatten.machine, Flatten.enter]⟩
          | err e => exact absurd (errIn_srcDown (j + 1) e) hC.2
    | @ret st stk g tr o l hl =>
      intro hC
      obtain ⟨hq, hio, ha0, hfd⟩ := ih hC.tail
      obtain ⟨hk, hfl, hnw⟩ := E1_reach _ ha hC.tail
      simp only at hq hio ha0 hfd hk hfl hnw ⊢
      have hQ : Q st tr := by
        rcases hq with he | hQ
        · exfalso
          cases o with
          | subSrc n =>
            cases n with
            | zero => simp [Exc] at he
            | succ j =>
              simp only [Exc] at he
              simp [legalRet, Flatten.machine, he] at hl
          | greet k => simp [Exc] at he
          | down k d => simp [Exc] at he
          | srcUp k u => simp [Exc] at he
          | app b => simp [Exc] at he
        · exact hQ
      refine ⟨.inr (hQ.evt (fun h => by simpa [aP, sinkEvs, sinkEv] using h) (fun k h => by simpa [srcEvs, srcEv] using h)),
        hio, by simpa [aP, sinkEvs, sinkEv] using ha0, ?_⟩
      rcases hnw o l List.mem_cons_self with rfl | rfl <;> simp [FlD]


/-! ### CN: counting, with no assumption on the environment -/

/-- every continuation below the top of the stack is `done` -/
def TD (stk : List Fm) : Prop := ∀ o l, Frame.wait o l ∈ stk.tail → l = .done

structure CoreN (st : Flatten.St) (tr : List (Ev Int Int)) (stk : List Fm) : Prop where
  cnt : st.nextId + odc stk = (sentData 0 tr).length + 1
  td : TD stk

theorem mode_call_top {st : Flatten.St} {g : Ph} {o : Out Int} {l : FL} {r : List Fm} {c : Ctx Int} {i : In Int}
    (hm : Flatten.Mode st g (.wait o l :: r)) (hc : ctxOf (Frame.wait o l :: r : List Fm) = some c)
    (hl : legalIn (Flatten.machine Int).shape g c i = true) : l = .done := by
  have hb : Flatten.Benign (Frame.wait o l : Fm) → l = .done := by
    intro h; cases l <;> simp [Flatten.Benign] at h; rfl
  simp [ctxOf] at hc; subst hc
  cases hm with
  | init _ _ h => cases h
  | sub _ _ h => cases h; rfl
  | live _ _ _ _ h => exact hb (h _ List.mem_cons_self)
  | wgreet j _ _ _ _ _ _ h => obtain ⟨r', h, _⟩ := h; cases h; rfl
  | od1 k _ _ _ h =>
    obtain ⟨r', h, _⟩ := h; cases h
    cases i <;> simp [legalIn, isTop, inGreet, inData, inSub, inPull, Flatten.machine] at hl
  | oe1 k e _ _ h =>
    obtain ⟨r', h, _⟩ := h; cases h
    cases i <;> simp [legalIn, isTop, inGreet, inData, inSub, inPull, Flatten.machine] at hl
  | ie1 e _ _ h =>
    obtain ⟨r', h, _⟩ := h; cases h
    cases i <;> simp [legalIn, isTop, inGreet, inData, inSub, inPull, Flatten.machine] at hl
  | x1 k _ _ _ h =>
    obtain ⟨r', h, _⟩ := h; cases h
    cases i <;> simp [legalIn, isTop, inGreet, inData, inSub, inPull, Flatten.machine] at hl
  | fin _ _ h => exact hb (h _ List.mem_cons_self)

theorem CN_reach : ∀ s, SReach (Flatten.machine Int) s → CoreN s.st s.tr s.stack := by
  apply reach_ind
  · exact ⟨rfl, fun o l h => by simp [Sys.init] at h⟩
  · intro a b ha ih hstep
    cases hstep with
    | @tau st l stk g tr s' l' hst =>
      obtain ⟨h1, h2⟩ := ih
      simp only at h1 h2 ⊢
      refine ⟨?_, h2⟩
      cases ftau_of hst <;> simpa [odc, locOf, isOdB] using h1
    | @call st l stk g tr o s' l' hst =>
      obtain ⟨h1, h2⟩ := ih
      simp only at h1 h2 ⊢
      refine ⟨?_, h2⟩
      cases fcall_of hst <;> simp [odc, locOf, isOdB, sentData] at h1 ⊢ <;> omega
    | @ret st l stk g tr hst =>
      obtain ⟨h1, h2⟩ := ih
      simp only at h1 h2 ⊢
      refine ⟨?_, fun o l hm => h2 o l (List.mem_of_mem_tail hm)⟩
      cases fret_of hst <;> simpa [odc, locOf, isOdB, sentData] using h1
    | panic hst =>
      have := (Flatten.flatten_basicSafe _ (reach_op ha (.panic hst))).2
      cases this
  · intro a b m ha ih hstep
    cases hstep with
    | @call st stk g tr c i hc hl =>
      obtain ⟨h1, h2⟩ := ih
      simp only at h1 h2 ⊢
      obtain ⟨_, _, hpos, hidle, hoths, hm⟩ := inv_turn' ha ⟨rfl, by simp [hc]⟩
      simp only at hm
      refine ⟨?_, ?_⟩
      · cases i with
        | subscribe k => simpa [odc, locOf, isOdB, sentData, Flatten.machine, Flatten.enter] using h1
        | sinkUp k u => cases u <;> simpa [odc, locOf, isOdB, sentData, Flatten.machine, Flatten.enter] using h1
        | srcGreet i => cases i <;> simpa [odc, locOf, isOdB, sentData, Flatten.machine, Flatten.enter] using h1
        | srcDown i d =>
          cases i <;> cases d <;> simp [odc, locOf, isOdB, sentData, Flatten.machine, Flatten.enter] at h1 ⊢ <;> omega
      · intro o l hmem
        simp only [List.tail_cons] at hmem
        cases stk with
        | nil => cases hmem
        | cons f r =>
          rcases List.mem_cons.1 hmem with he | hmem
          · subst he; exact mode_call_top hm hc hl
          · exact h2 o l hmem
    | @ret st stk g tr o l hl =>
      obtain ⟨h1, h2⟩ := ih
      simp only at h1 h2 ⊢
      exact ⟨by simp only [odc, locOf, sentData] at h1 ⊢; exact h1, h2⟩

/-- when flatten subscribes to a new inner source, its number is the number of outer data received so far -/
theorem od1_count {st : Flatten.St} {stk : List Fm} {g : G} {tr : List (Ev Int Int)}
    (h : SReach (Flatten.machine Int) ⟨st, .run .od1 :: stk, g, tr, none⟩) : (sentData 0 tr).length = st.nextId := by
  obtain ⟨h1, h2⟩ := CN_reach _ h
  simp only at h1 h2
  have hw := pop_turn _ h
  have h0 : ∀ r : List Fm, (∀ f ∈ r, ∃ o l, f = Frame.wait o l) → (∀ o l, Frame.wait o l ∈ r → l = .done) → odc r = 0 := by
    intro r
    induction r with
    | nil => intro _ _; rfl
    | cons f t ih =>
      intro hw' hd
      obtain ⟨o, l, rfl⟩ := hw' _ List.mem_cons_self
      have := hd o l List.mem_cons_self
      subst this
      simp [odc, locOf, isOdB, ih (fun f hf => hw' f (List.mem_cons_of_mem _ hf)) (fun o l hm => hd o l (List.mem_cons_of_mem _ hm))]
  have := h0 stk hw (fun o l hm => h2 o l (by simpa using hm))
  simp [odc, locOf, isOdB, this] at h1
  omega

end FK

end FlatPlugFun
end Cb

#print axioms Cb.FlatPlugFun.FK.E1_reach
#print axioms Cb.FlatPlugFun.FK.E2_reach
#print axioms Cb.FlatPlugFun.FK.D_reach
#print axioms Cb.FlatPlugFun.FK.CN_reach
#print axioms Cb.FlatPlugFun.FK.od1_count
