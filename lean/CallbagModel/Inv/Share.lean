import CallbagModel.Inv.Ghost
import CallbagModel.Env
import CallbagModel.Ops.Share
/-!
# share: the phase-level safety invariant, for any number of sinks, under `noNestedFanout`

Stated at environment turns only.  Three modes:

* `core`    — `k ∈ st.sinks ↔ sink k is live`, no sink/upstream is `subscribed`, `st.sinks ≠ [] →` upstream `gen-1` is live
              and `slot` points to it, only upstream `gen-1` can be live and only if `st.sinks ≠ []`.  The stack is
              either made of tail frames `wait _ .done` only, or it is `pre ++ [fan-out frame] ++ post` with `pre`
              made of `wait (srcUp _ _) .done` frames, `post` of tail frames, and the fan-out frame
              `wait (down s (data a)) (fLoop r (data a))` satisfies `(s :: r).Nodup` and `r ⊆ st.sinks`
              (so every sink of `r` is live when the frame resumes).  There is at most one fan-out frame: a second
              one needs an upstream delivery while the first is open, which `noNestedFanout` forbids.
* `waiting` — the first sink `k` of upstream subscription `gen-1` has subscribed, the upstream has been subscribed
              and has not greeted yet: stack `[wait (subSrc (gen-1)) .done]`; the only legal move is that greeting.
* `tfan`    — terminal fan-out in progress: the top frame is `wait (down s d) (fLoop r d)` with `d` terminal, no upstream
              is live, the live sinks are exactly those of `r`; nobody can call, only return.
-/
namespace Cb.Share
open Cb

variable {α : Type}

abbrev Fr (α : Type) := Frame (Loc α) α
abbrev Cfg (α : Type) := Sys St (Loc α) α α

/-- tail frame: nothing left to do but return -/
def TailF (f : Fr α) : Prop := ∃ o, f = .wait o .done
/-- tail frame of a call to the upstream talkback -/
def UpF (f : Fr α) : Prop := ∃ i u, f = .wait (.srcUp i u) .done

def StackOK (sinks : List Nat) (stk : List (Fr α)) : Prop :=
  (∀ f ∈ stk, TailF f) ∨
  ∃ pre s a r post, stk = pre ++ .wait (.down s (.data a)) (.fLoop r (.data a)) :: post ∧
    (∀ f ∈ pre, UpF f) ∧ (∀ f ∈ post, TailF f) ∧ (s :: r).Nodup ∧ ∀ x ∈ r, x ∈ sinks

structure Core (st : St) (g : Ph) : Prop where
  mem : ∀ k, k ∈ st.sinks ↔ g.sinkPh k = .live
  nosub : ∀ k, g.sinkPh k ≠ .subscribed
  nodup : st.sinks.Nodup
  up : st.sinks ≠ [] → g.srcPh (st.gen - 1) = .live ∧ st.slot = some (st.gen - 1)
  live : ∀ i, g.srcPh i = .live → i = st.gen - 1 ∧ st.sinks ≠ []
  nosrcsub : ∀ i, g.srcPh i ≠ .subscribed

inductive Mode (st : St) (g : Ph) (stk : List (Fr α)) : Prop where
  | core : Core st g → StackOK st.sinks stk → Mode st g stk
  | waiting (k : Nat) : stk = [.wait (.subSrc (st.gen - 1)) .done] → st.sinks = [k] → phAt st.first (st.gen - 1) = k →
      g.sinkPh k = .subscribed → (∀ k', k' ≠ k → g.sinkPh k' ≠ .live ∧ g.sinkPh k' ≠ .subscribed) →
      g.srcPh (st.gen - 1) = .subscribed → (∀ i, i ≠ st.gen - 1 → g.srcPh i ≠ .live ∧ g.srcPh i ≠ .subscribed) →
      Mode st g stk
  | tfan (s : Nat) (d : Down α) (r : List Nat) (rest : List (Fr α)) :
      stk = .wait (.down s d) (.fLoop r d) :: rest → isEndD d = true → (∀ f ∈ rest, TailF f) → r.Nodup →
      (∀ k, g.sinkPh k = .live ↔ k ∈ r) → (∀ k, g.sinkPh k ≠ .subscribed) →
      (∀ i, g.srcPh i ≠ .live ∧ g.srcPh i ≠ .subscribed) → Mode st g stk

def Inv' (st : St) (stk : List (Fr α)) (ph : Ph) : Prop :=
  ph.viols = [] ∧ st.first.length = st.gen ∧ (∀ i, st.gen ≤ i → ph.srcPh i = .idle) ∧ Mode st ph stk

def Inv (s : Cfg α) : Prop := s.panicked = none ∧ Inv' s.st s.stack s.g.ph

/-! ## operational lemmas: where each handler gets to, given what it needs -/

def Reaches (s : Cfg α) (st : St) (stk : List (Fr α)) (ph : Ph) : Prop :=
  ∃ n, (advance (machine α) n s).st = st ∧ (advance (machine α) n s).stack = stk ∧
    (advance (machine α) n s).g.ph = ph ∧ (advance (machine α) n s).panicked = none

theorem inv_of_reaches {s : Cfg α} {st stk ph} (h : Reaches s st stk ph) (hi : Inv' st stk ph) :
    ∃ n, Inv (advance (machine α) n s) := by
  obtain ⟨n, h1, h2, h3, h4⟩ := h
  exact ⟨n, h4, by rw [h1, h2, h3]; exact hi⟩

theorem run_done (st : St) (stk : List (Fr α)) (g : G) (tr : List (Ev α α)) :
    Reaches ⟨st, .run .done :: stk, g, tr, none⟩ st stk g.ph :=
  ⟨1, by simp [advance, opStep, machine, step]⟩

theorem run_sub_first (k : Nat) (st : St) (stk : List (Fr α)) (g : G) (tr : List (Ev α α))
    (he : st.sinks = []) (hi : g.ph.srcPh st.gen = .idle) (ho : g.ph.anySinkOpen = true) :
    Reaches ⟨st, .run (.s0 k) :: stk, g, tr, none⟩
      { st with sinks := [k], gen := st.gen + 1, first := st.first ++ [k] }
      (.wait (.subSrc st.gen) .done :: stk) (g.ph.setSrc st.gen .subscribed) :=
  ⟨3, by simp [advance, opStep, machine, step, Ph.onOut, he, hi, ho]⟩

theorem run_sub_more (k : Nat) (st : St) (stk : List (Fr α)) (g : G) (tr : List (Ev α α))
    (he : st.sinks ≠ []) (hk : g.ph.sinkPh k = .subscribed) :
    Reaches ⟨st, .run (.s0 k) :: stk, g, tr, none⟩
      { st with sinks := st.sinks ++ [k] } (.wait (.greet k) .done :: stk) (g.ph.setSink k .live) := by
  obtain ⟨x, xs, hx⟩ := List.exists_cons_of_ne_nil he
  exact ⟨2, by simp [advance, opStep, machine, step, Ph.onOut, hx, hk]⟩

theorem run_g0 (i : Nat) (st : St) (stk : List (Fr α)) (g : G) (tr : List (Ev α α))
    (hk : g.ph.sinkPh (phAt st.first i) = .subscribed) :
    Reaches ⟨st, .run (.g0 i) :: stk, g, tr, none⟩
      { st with slot := some i } (.wait (.greet (phAt st.first i)) .done :: stk)
      (g.ph.setSink (phAt st.first i) .live) :=
  ⟨2, by simp [advance, opStep, machine, step, Ph.onOut, hk]⟩

theorem run_fLoop_data (s : Nat) (r : List Nat) (a : α) (st : St) (stk : List (Fr α)) (g : G) (tr : List (Ev α α))
    (hk : g.ph.sinkPh s = .live) :
    Reaches ⟨st, .run (.fLoop (s :: r) (.data a)) :: stk, g, tr, none⟩
      st (.wait (.down s (.data a)) (.fLoop r (.data a)) :: stk) g.ph :=
  ⟨1, by simp [advance, opStep, machine, step, Ph.onOut, hk, isFinal]⟩

theorem run_fLoop_end (s : Nat) (r : List Nat) (d : Down α) (hd : isEndD d = true) (st : St) (stk : List (Fr α)) (g : G)
    (tr : List (Ev α α)) (hk : g.ph.sinkPh s = .live) :
    Reaches ⟨st, .run (.fLoop (s :: r) d) :: stk, g, tr, none⟩
      st (.wait (.down s d) (.fLoop r d) :: stk) (g.ph.setSink s .doneBySrc) := by
  cases d with
  | data a => simp [isEndD] at hd
  | term => exact ⟨1, by simp [advance, opStep, machine, step, Ph.onOut, hk, isFinal]⟩
  | err e => exact ⟨1, by simp [advance, opStep, machine, step, Ph.onOut, hk, isFinal]⟩

theorem run_f0_data (s : Nat) (r : List Nat) (a : α) (st : St) (stk : List (Fr α)) (g : G) (tr : List (Ev α α))
    (hs : st.sinks = s :: r) (hk : g.ph.sinkPh s = .live) :
    Reaches ⟨st, .run (.f0 (.data a)) :: stk, g, tr, none⟩
      st (.wait (.down s (.data a)) (.fLoop r (.data a)) :: stk) g.ph :=
  ⟨2, by simp [advance, opStep, machine, step, Ph.onOut, hk, hs, isFinal]⟩

theorem run_f0_end (s : Nat) (r : List Nat) (d : Down α) (hd : isEndD d = true) (st : St) (stk : List (Fr α)) (g : G)
    (tr : List (Ev α α)) (hs : st.sinks = s :: r) (hk : g.ph.sinkPh s = .live) :
    Reaches ⟨st, .run (.f0 d) :: stk, g, tr, none⟩
      st (.wait (.down s d) (.fLoop r d) :: stk) (g.ph.setSink s .doneBySrc) := by
  cases d with
  | data a => simp [isEndD] at hd
  | term => exact ⟨2, by simp [advance, opStep, machine, step, Ph.onOut, hk, hs, isFinal]⟩
  | err e => exact ⟨2, by simp [advance, opStep, machine, step, Ph.onOut, hk, hs, isFinal]⟩

theorem run_fLoop_nil_data (a : α) (st : St) (stk : List (Fr α)) (g : G) (tr : List (Ev α α)) :
    Reaches ⟨st, .run (.fLoop [] (.data a)) :: stk, g, tr, none⟩ st stk g.ph :=
  ⟨2, by simp [advance, opStep, machine, step, isEndD]⟩

theorem run_fLoop_nil_end (d : Down α) (hd : isEndD d = true) (st : St) (stk : List (Fr α)) (g : G) (tr : List (Ev α α)) :
    Reaches ⟨st, .run (.fLoop [] d) :: stk, g, tr, none⟩ { st with sinks := [] } stk g.ph :=
  ⟨3, by simp [advance, opStep, machine, step, hd]⟩

theorem run_p0 (i : Nat) (st : St) (stk : List (Fr α)) (g : G) (tr : List (Ev α α))
    (hs : st.slot = some i) (hl : g.ph.srcPh i = .live) :
    Reaches ⟨st, .run .p0 :: stk, g, tr, none⟩ st (.wait (.srcUp i .pull) .done :: stk) g.ph :=
  ⟨1, by simp [advance, opStep, machine, step, Ph.onOut, hs, hl]⟩

theorem run_x0_some (k : Nat) (st : St) (stk : List (Fr α)) (g : G) (tr : List (Ev α α))
    (he : st.sinks.erase k ≠ []) :
    Reaches ⟨st, .run (.x0 k) :: stk, g, tr, none⟩ { st with sinks := st.sinks.erase k } stk g.ph :=
  ⟨2, by simp [advance, opStep, machine, step, he]⟩

theorem run_x0_last (k i : Nat) (st : St) (stk : List (Fr α)) (g : G) (tr : List (Ev α α))
    (he : st.sinks.erase k = []) (hs : st.slot = some i) (hl : g.ph.srcPh i = .live) :
    Reaches ⟨st, .run (.x0 k) :: stk, g, tr, none⟩ { st with sinks := [] }
      (.wait (.srcUp i .term) .done :: stk) (g.ph.setSrc i .disposed) :=
  ⟨3, by simp [advance, opStep, machine, step, Ph.onOut, he, hs, hl]⟩

/-! ## who has control -/

theorem stk_nil_of_top {stk : List (Fr α)} {c : Ctx α} (hc : ctxOf stk = some c) (ht : isTop c = true) : stk = [] := by
  cases stk with
  | nil => rfl
  | cons f r => cases f with
    | run l => simp [ctxOf] at hc
    | wait o l => simp [ctxOf] at hc; subst hc; simp [isTop] at ht

theorem deliveryOpen_fan (pre : List (Fr α)) (s : Nat) (d : Down α) (l : Loc α) (post : List (Fr α)) :
    deliveryOpen (pre ++ .wait (.down s d) l :: post) = true := by
  induction pre with
  | nil => simp [deliveryOpen]
  | cons f pre ih => cases f with
    | run l' => simpa [deliveryOpen] using ih
    | wait o l' => cases o <;> simp [deliveryOpen, ih]

/-- a sink that has control while a fan-out frame is on the stack is the sink being served, and the frame is on top -/
theorem fan_ctx {pre : List (Fr α)} {s : Nat} {d : Down α} {l : Loc α} {post : List (Fr α)} {c : Ctx α} {k : Nat}
    (hc : ctxOf (pre ++ .wait (.down s d) l :: post) = some c) (hpre : ∀ f ∈ pre, UpF f)
    (hctx : isTop c = true ∨ inGreet k c = true ∨ inData k c = true) : pre = [] ∧ k = s := by
  cases pre with
  | nil =>
    simp [ctxOf] at hc; subst hc
    cases d <;> simp [isTop, inGreet, inData] at hctx
    exact ⟨rfl, hctx⟩
  | cons f pre =>
    obtain ⟨i, u, rfl⟩ := hpre f (by simp)
    simp [ctxOf] at hc; subst hc
    simp [isTop, inGreet, inData] at hctx

theorem ctx_isSome_of_tails {stk : List (Fr α)} (h : ∀ f ∈ stk, TailF f) : (ctxOf stk).isSome := by
  cases stk with
  | nil => simp [ctxOf]
  | cons f r => obtain ⟨o, rfl⟩ := h f (by simp); simp [ctxOf]

theorem inv_turn (s : Cfg α) (h : Inv s) : EnvTurn s ∧ BasicSafe s := by
  obtain ⟨hp, hv, _, _, hm⟩ := h
  refine ⟨⟨hp, ?_⟩, hv, hp⟩
  cases hm with
  | core _ hs =>
    rcases hs with ht | ⟨pre, s0, a, r, post, he, hpre, _⟩
    · exact ctx_isSome_of_tails ht
    · rw [he]
      cases pre with
      | nil => simp [ctxOf]
      | cons f pre => obtain ⟨i, u, rfl⟩ := hpre f (by simp); simp [ctxOf]
  | waiting k he => simp [he, ctxOf]
  | tfan s0 d r rest he => simp [he, ctxOf]

theorem inv_init : Inv (Sys.init (machine α)) := by
  refine ⟨rfl, rfl, rfl, fun i _ => by simp [Sys.init], Mode.core ?_ (Or.inl (by simp [Sys.init]))⟩
  exact ⟨fun k => by simp [Sys.init, machine], fun k => by simp [Sys.init], by simp [Sys.init, machine],
    fun h => by simp [Sys.init, machine] at h, fun i h => by simp [Sys.init] at h, fun i => by simp [Sys.init]⟩

/-! ## the environment moves -/

theorem step_subscribe {st : St} {stk : List (Fr α)} {g : G} {tr : List (Ev α α)} {c : Ctx α} {k : Nat}
    (hI : Inv' st stk g.ph) (hc : ctxOf stk = some c) (hl : legalIn (machine α).shape g.ph c (In.subscribe k : In α) = true) :
    ∃ n, Inv (advance (machine α) n
      ⟨st, .run (enter (In.subscribe k : In α)) :: stk, g.onIn stk.length (In.subscribe k : In α), .inp (.subscribe k) :: tr, none⟩) := by
  obtain ⟨hv, hlen, hidle, hm⟩ := hI
  simp only [legalIn, Bool.and_eq_true, beq_iff_eq, machine, Bool.or_true] at hl
  obtain ⟨⟨htop, hki⟩, _⟩ := hl
  have := stk_nil_of_top hc htop; subst this
  rcases hm with ⟨hcore, _⟩ | ⟨k0, hs, _⟩ | ⟨s, d, r, rest, hs, _⟩
  · by_cases he : st.sinks = []
    · have hnl : ∀ k', g.ph.sinkPh k' ≠ .live := fun k' h => by
        have := (hcore.mem k').2 h; rw [he] at this; cases this
      have hnls : ∀ i, g.ph.srcPh i ≠ .live := fun i h => (hcore.live i h).2 he
      refine inv_of_reaches (run_sub_first k st [] _ _ he (by simpa [Ph.onIn] using hidle _ (Nat.le_refl _))
        ((Ph.anySinkOpen_iff _).2 ⟨k, by simp [Ph.onIn]⟩)) ?_
      refine ⟨by simpa [Ph.onIn] using hv, by simp [hlen], fun i hi => ?_, Mode.waiting k (by simp) rfl ?_ (by simp [Ph.onIn]) ?_ (by simp) ?_⟩
      · have : i ≠ st.gen := by simp at hi; omega
        simp [Ph.onIn, this]; exact hidle i (by simp at hi; omega)
      · simp [phAt, ← hlen]
      · intro k' hk'; simp [Ph.onIn, hk']; exact ⟨hnl k', hcore.nosub k'⟩
      · intro i hi; simp at hi; simp [Ph.onIn, hi]; exact ⟨hnls i, hcore.nosrcsub i⟩
    · have hkn : k ∉ st.sinks := fun h => by have := (hcore.mem k).1 h; rw [hki] at this; cases this
      refine inv_of_reaches (run_sub_more k st [] _ _ he (by simp [Ph.onIn])) ?_
      refine ⟨by simpa [Ph.onIn] using hv, hlen, fun i hi => by simpa [Ph.onIn] using hidle i hi, Mode.core ?_ (Or.inl (by simp [TailF]))⟩
      refine ⟨fun k' => ?_, fun k' => ?_, ?_, fun _ => ?_, fun i hi => ?_, fun i => by simpa [Ph.onIn] using hcore.nosrcsub i⟩
      · by_cases hk' : k' = k
        · simp [hk']
        · simp [Ph.onIn, hk']; exact hcore.mem k'
      · by_cases hk' : k' = k
        · simp [hk']
        · simp [Ph.onIn, hk']; exact hcore.nosub k'
      · exact List.nodup_append.2 ⟨hcore.nodup, by simp, fun a ha b hb => by simp at hb; subst hb; rintro rfl; exact hkn ha⟩
      · simpa [Ph.onIn] using hcore.up he
      · have := hcore.live i (by simpa [Ph.onIn] using hi)
        exact ⟨this.1, by simp⟩
  · simp at hs
  · simp at hs

theorem StackOK.push_up {sinks : List Nat} {stk : List (Fr α)} (hs : StackOK sinks stk) (i : Nat) (u : Up) :
    StackOK sinks (.wait (.srcUp i u) .done :: stk) := by
  rcases hs with ht | ⟨pre, s0, a, r, post, rfl, hpre, hpost, hnd, hr⟩
  · exact Or.inl (List.forall_mem_cons.2 ⟨⟨_, rfl⟩, ht⟩)
  · exact Or.inr ⟨_ :: pre, s0, a, r, post, rfl, List.forall_mem_cons.2 ⟨⟨_, _, rfl⟩, hpre⟩, hpost, hnd, hr⟩

/-- facts shared by the sink-side moves: a live sink exists only in `core` mode, or in `tfan` where it has no control -/
theorem sink_has_control {st : St} {stk : List (Fr α)} {ph : Ph} {c : Ctx α} {k : Nat}
    (hm : Mode st ph stk) (hc : ctxOf stk = some c) (hlive : ph.sinkPh k = .live)
    (hctx : isTop c = true ∨ inGreet k c = true ∨ inData k c = true) : Core st ph ∧ StackOK st.sinks stk := by
  rcases hm with ⟨hcore, hs⟩ | ⟨k0, hs, _, _, hk0, hoth, _⟩ | ⟨s, d, r, rest, hs, hd, _⟩
  · exact ⟨hcore, hs⟩
  · by_cases hk : k = k0
    · subst hk; rw [hk0] at hlive; cases hlive
    · exact absurd hlive (hoth k hk).1
  · subst hs
    simp [ctxOf] at hc; subst hc
    cases d <;> simp [isEndD, isTop, inGreet, inData] at hd hctx

theorem step_pull {st : St} {stk : List (Fr α)} {g : G} {tr : List (Ev α α)} {c : Ctx α} {k : Nat}
    (hI : Inv' st stk g.ph) (hc : ctxOf stk = some c) (hl : legalIn (machine α).shape g.ph c (In.sinkUp k .pull : In α) = true) :
    ∃ n, Inv (advance (machine α) n
      ⟨st, .run (enter (In.sinkUp k .pull : In α)) :: stk, g.onIn stk.length (In.sinkUp k .pull : In α), .inp (.sinkUp k .pull) :: tr, none⟩) := by
  obtain ⟨hv, hlen, hidle, hm⟩ := hI
  simp only [legalIn, Bool.and_eq_true, beq_iff_eq, Bool.or_eq_true] at hl
  obtain ⟨hlive, hctx⟩ := hl
  obtain ⟨hcore, hs⟩ := sink_has_control hm hc hlive (by simpa [or_assoc] using hctx)
  have hne : st.sinks ≠ [] := List.ne_nil_of_mem ((hcore.mem k).2 hlive)
  obtain ⟨hup, hslot⟩ := hcore.up hne
  refine inv_of_reaches (run_p0 (st.gen - 1) st stk _ _ hslot (by simpa [Ph.onIn] using hup)) ?_
  refine ⟨by simpa [Ph.onIn] using hv, hlen, by simpa [Ph.onIn] using hidle, Mode.core (by simpa [Ph.onIn] using hcore) (hs.push_up _ _)⟩

/-- sink `k` disposes (`Terminate` or `Error`): stated for any ghost whose phases are those after the call -/
theorem step_dispose_aux {st : St} {stk : List (Fr α)} {g g1 : G} {tr : List (Ev α α)} {c : Ctx α} {k : Nat}
    (hI : Inv' st stk g.ph) (hc : ctxOf stk = some c) (hlive : g.ph.sinkPh k = .live)
    (hctx : isTop c = true ∨ inGreet k c = true ∨ inData k c = true) (hg1 : g1.ph = g.ph.setSink k .doneBySelf) :
    ∃ n, Inv (advance (machine α) n ⟨st, .run (.x0 k) :: stk, g1, tr, none⟩) := by
  obtain ⟨hv, hlen, hidle, hm⟩ := hI
  obtain ⟨hcore, hs⟩ := sink_has_control hm hc hlive hctx
  have hk : k ∈ st.sinks := (hcore.mem k).2 hlive
  have hne : st.sinks ≠ [] := List.ne_nil_of_mem hk
  obtain ⟨hup, hslot⟩ := hcore.up hne
  have hs' : StackOK (st.sinks.erase k) stk := by
    rcases hs with ht | ⟨pre, s0, a, r, post, rfl, hpre, hpost, hnd, hr⟩
    · exact Or.inl ht
    · obtain ⟨rfl, rfl⟩ := fan_ctx hc hpre hctx
      refine Or.inr ⟨[], k, a, r, post, rfl, hpre, hpost, hnd, fun x hx => ?_⟩
      have hxk : x ≠ k := by rintro rfl; exact (List.nodup_cons.1 hnd).1 hx
      exact (List.mem_erase_of_ne hxk).2 (hr x hx)
  have hmem : ∀ k', k' ∈ st.sinks.erase k ↔ (g.ph.setSink k .doneBySelf).sinkPh k' = .live := by
    intro k'
    by_cases hk' : k' = k
    · subst hk'; simp [hcore.nodup.mem_erase_iff]
    · simp [hk', List.mem_erase_of_ne hk']; exact hcore.mem k'
  have hnosub : ∀ k', (g.ph.setSink k .doneBySelf).sinkPh k' ≠ .subscribed := by
    intro k'
    by_cases hk' : k' = k
    · simp [hk']
    · simp [hk']; exact hcore.nosub k'
  by_cases he : st.sinks.erase k = []
  · refine inv_of_reaches (run_x0_last k (st.gen - 1) st stk g1 tr he hslot (by simpa [hg1] using hup)) ?_
    rw [hg1]
    refine ⟨by simpa using hv, hlen, fun i hi => ?_, Mode.core ?_ ?_⟩
    · have hi' : i ≠ st.gen - 1 := by simp at hi; have := hidle (st.gen - 1); intro h; rw [← h, hidle i hi] at hup; cases hup
      simp [hi']; exact hidle i hi
    · refine ⟨fun k' => ?_, ?_, List.nodup_nil, fun h => absurd rfl h, fun i hi => ?_, fun i => ?_⟩
      · have := hmem k'; rw [he] at this; simpa using this
      · simpa using hnosub
      · exfalso
        by_cases hi' : i = st.gen - 1
        · simp [hi'] at hi
        · simp [hi'] at hi; exact hi' (hcore.live i hi).1
      · by_cases hi' : i = st.gen - 1
        · simp [hi']
        · simp [hi']; exact hcore.nosrcsub i
    · have := hs'.push_up (st.gen - 1) .term; rw [he] at this; exact this
  · refine inv_of_reaches (run_x0_some k st stk g1 tr he) ?_
    rw [hg1]
    refine ⟨by simpa using hv, hlen, by simpa using hidle, Mode.core ?_ hs'⟩
    exact ⟨hmem, hnosub, hcore.nodup.erase k, fun _ => by simpa using hcore.up hne,
      fun i hi => ⟨(hcore.live i (by simpa using hi)).1, he⟩, fun i => by simpa using hcore.nosrcsub i⟩

theorem step_greet {st : St} {stk : List (Fr α)} {g : G} {tr : List (Ev α α)} {c : Ctx α} {i : Nat}
    (hI : Inv' st stk g.ph) (hl : legalIn (machine α).shape g.ph c (In.srcGreet i : In α) = true) :
    ∃ n, Inv (advance (machine α) n
      ⟨st, .run (.g0 i) :: stk, g.onIn stk.length (In.srcGreet i : In α), .inp (.srcGreet i) :: tr, none⟩) := by
  obtain ⟨hv, hlen, hidle, hm⟩ := hI
  simp only [legalIn, Bool.and_eq_true, beq_iff_eq] at hl
  obtain ⟨hsub, _⟩ := hl
  rcases hm with ⟨hcore, _⟩ | ⟨k, hs, hsinks, hfirst, hk, hoth, hsrc, hoths⟩ | ⟨s, d, r, rest, _, _, _, _, _, _, hsrcs⟩
  · exact absurd hsub (hcore.nosrcsub i)
  · have hi : i = st.gen - 1 := by
      by_cases hi : i = st.gen - 1
      · exact hi
      · exact absurd hsub (hoths i hi).2
    subst hi
    have hgen : 0 < st.gen := by
      rcases Nat.eq_zero_or_pos st.gen with h0 | h0
      · have := hidle (st.gen - 1) (by omega); rw [this] at hsrc; cases hsrc
      · exact h0
    refine inv_of_reaches (run_g0 (st.gen - 1) st stk _ _ (by simpa [Ph.onIn, hfirst] using hk)) ?_
    rw [hfirst, hs]
    refine ⟨by simpa [Ph.onIn] using hv, hlen, fun i hi => ?_, Mode.core ?_ (Or.inl (by simp [TailF]))⟩
    · have hi' : i ≠ st.gen - 1 := by simp at hi; omega
      simp [Ph.onIn, hi']; exact hidle i hi
    · refine ⟨fun k' => ?_, fun k' => ?_, by simp [hsinks], fun _ => by simp [Ph.onIn], fun i hi => ?_, fun i => ?_⟩
      · by_cases hk' : k' = k
        · simp [hk', hsinks]
        · simp [hk', hsinks, Ph.onIn]; exact (hoth k' hk').1
      · by_cases hk' : k' = k
        · simp [hk']
        · simp [hk', Ph.onIn]; exact (hoth k' hk').2
      · refine ⟨?_, by simp [hsinks]⟩
        by_cases hi' : i = st.gen - 1
        · exact hi'
        · simp [Ph.onIn, hi'] at hi; exact absurd hi (hoths i hi').1
      · by_cases hi' : i = st.gen - 1
        · simp [Ph.onIn, hi']
        · simp [Ph.onIn, hi']; exact (hoths i hi').2
  · exact absurd hsub (hsrcs i).2

theorem step_down_data {st : St} {stk : List (Fr α)} {g : G} {tr : List (Ev α α)} {c : Ctx α} {i : Nat} {a : α}
    (hI : Inv' st stk g.ph) (hl : legalIn (machine α).shape g.ph c (In.srcDown i (.data a) : In α) = true)
    (hr : deliveryOpen stk = false) :
    ∃ n, Inv (advance (machine α) n
      ⟨st, .run (.f0 (.data a)) :: stk, g.onIn stk.length (In.srcDown i (.data a) : In α), .inp (.srcDown i (.data a)) :: tr, none⟩) := by
  obtain ⟨hv, hlen, hidle, hm⟩ := hI
  simp only [legalIn, Bool.and_eq_true, beq_iff_eq] at hl
  obtain ⟨hlive, _⟩ := hl
  rcases hm with ⟨hcore, hs⟩ | ⟨k, _, _, _, _, _, hsrc, hoths⟩ | ⟨s, d, r, rest, _, _, _, _, _, _, hsrcs⟩
  · rcases hs with ht | ⟨pre, s0, a0, r, post, rfl, _⟩
    · obtain ⟨_, hne⟩ := hcore.live i hlive
      obtain ⟨s0, r, hsr⟩ := List.exists_cons_of_ne_nil hne
      have hs0 : g.ph.sinkPh s0 = .live := (hcore.mem s0).1 (by simp [hsr])
      refine inv_of_reaches (run_f0_data s0 r a st stk _ _ hsr (by simpa [Ph.onIn] using hs0)) ?_
      refine ⟨by simpa [Ph.onIn] using hv, hlen, by simpa [Ph.onIn] using hidle,
        Mode.core (by simpa [Ph.onIn] using hcore) (Or.inr ⟨[], s0, a, r, stk, rfl, by simp, ht, hsr ▸ hcore.nodup, fun x hx => by simp [hsr, hx]⟩)⟩
    · rw [deliveryOpen_fan] at hr; cases hr
  · by_cases hi : i = st.gen - 1
    · subst hi; rw [hsrc] at hlive; cases hlive
    · exact absurd hlive (hoths i hi).1
  · exact absurd hlive (hsrcs i).1

theorem step_down_end {st : St} {stk : List (Fr α)} {g g1 : G} {tr : List (Ev α α)} {i : Nat} {d : Down α}
    (hI : Inv' st stk g.ph) (hlive : g.ph.srcPh i = .live) (hr : deliveryOpen stk = false) (hd : isEndD d = true)
    (hg1 : g1.ph = g.ph.setSrc i .ended) :
    ∃ n, Inv (advance (machine α) n ⟨st, .run (.f0 d) :: stk, g1, tr, none⟩) := by
  obtain ⟨hv, hlen, hidle, hm⟩ := hI
  rcases hm with ⟨hcore, hs⟩ | ⟨k, _, _, _, _, _, hsrc, hoths⟩ | ⟨s, d, r, rest, _, _, _, _, _, _, hsrcs⟩
  · rcases hs with ht | ⟨pre, s0, a0, r, post, rfl, _⟩
    · obtain ⟨hi, hne⟩ := hcore.live i hlive
      obtain ⟨s0, r, hsr⟩ := List.exists_cons_of_ne_nil hne
      have hs0 : g.ph.sinkPh s0 = .live := (hcore.mem s0).1 (by simp [hsr])
      have hnd : (s0 :: r).Nodup := hsr ▸ hcore.nodup
      refine inv_of_reaches (run_f0_end s0 r d hd st stk g1 tr hsr (by simpa [hg1] using hs0)) ?_
      rw [hg1]
      refine ⟨by simpa using hv, hlen, fun i' hi' => ?_, Mode.tfan s0 d r stk rfl hd ht (List.nodup_cons.1 hnd).2
        (fun k => ?_) (fun k => ?_) (fun i' => ?_)⟩
      · have : i' ≠ i := by rintro rfl; rw [hidle _ hi'] at hlive; cases hlive
        simp [this]; exact hidle i' hi'
      · by_cases hk : k = s0
        · subst hk; simp; exact (List.nodup_cons.1 hnd).1
        · simp [hk, ← hcore.mem k, hsr]
      · by_cases hk : k = s0
        · simp [hk]
        · simp [hk]; exact hcore.nosub k
      · by_cases hi' : i' = i
        · simp [hi']
        · simp [hi']; exact ⟨fun h => hi' ((hcore.live i' h).1.trans hi.symm), hcore.nosrcsub i'⟩
    · rw [deliveryOpen_fan] at hr; cases hr
  · by_cases hi : i = st.gen - 1
    · subst hi; rw [hsrc] at hlive; cases hlive
    · exact absurd hlive (hoths i hi).1
  · exact absurd hlive (hsrcs i).1

theorem step_ret {st : St} {stk : List (Fr α)} {g : G} {tr : List (Ev α α)} {o : Out α} {l : Loc α}
    (hI : Inv' st (.wait o l :: stk) g.ph) (hl : legalRet (machine α).shape g.ph (.inCall o : Ctx α) = true) :
    ∃ n, Inv (advance (machine α) n ⟨st, .run l :: stk, g, .retE :: tr, none⟩) := by
  obtain ⟨hv, hlen, hidle, hm⟩ := hI
  rcases hm with ⟨hcore, hs⟩ | ⟨k, hs, _, _, _, _, hsrc, _⟩ | ⟨s, d, r, rest, hs, hd, hrest, hnd, hlv, hnosub, hsrcs⟩
  · rcases hs with ht | ⟨pre, s0, a, r, post, he, hpre, hpost, hnd, hr⟩
    · obtain ⟨o', ho'⟩ := ht _ List.mem_cons_self
      simp at ho'; obtain ⟨rfl, rfl⟩ := ho'
      exact inv_of_reaches (run_done st stk g _) ⟨hv, hlen, hidle, Mode.core hcore (Or.inl (List.forall_mem_cons.1 ht).2)⟩
    · cases pre with
      | nil =>
        simp at he; obtain ⟨⟨rfl, rfl⟩, rfl⟩ := he
        cases r with
        | nil => exact inv_of_reaches (run_fLoop_nil_data a st stk g _) ⟨hv, hlen, hidle, Mode.core hcore (Or.inl hpost)⟩
        | cons s1 r1 =>
          have hs1 : g.ph.sinkPh s1 = .live := (hcore.mem s1).1 (hr s1 (by simp))
          exact inv_of_reaches (run_fLoop_data s1 r1 a st stk g _ hs1) ⟨hv, hlen, hidle,
            Mode.core hcore (Or.inr ⟨[], s1, a, r1, stk, rfl, by simp, hpost, (List.nodup_cons.1 hnd).2,
              fun x hx => hr x (by simp [hx])⟩)⟩
      | cons f pre =>
        obtain ⟨i, u, rfl⟩ := hpre f (by simp)
        simp at he; obtain ⟨⟨rfl, rfl⟩, rfl⟩ := he
        exact inv_of_reaches (run_done st _ g _) ⟨hv, hlen, hidle,
          Mode.core hcore (Or.inr ⟨pre, s0, a, r, post, rfl, (List.forall_mem_cons.1 hpre).2, hpost, hnd, hr⟩)⟩
  · simp at hs; obtain ⟨⟨rfl, rfl⟩, rfl⟩ := hs
    simp [legalRet, machine, hsrc] at hl
  · simp at hs; obtain ⟨⟨rfl, rfl⟩, rfl⟩ := hs
    cases r with
    | nil =>
      refine inv_of_reaches (run_fLoop_nil_end d hd st stk g _) ⟨hv, hlen, hidle, Mode.core ?_ (Or.inl hrest)⟩
      exact ⟨fun k => by simpa using (hlv k).symm, hnosub, List.nodup_nil, fun h => absurd rfl h,
        fun i hi => absurd hi (hsrcs i).1, fun i => (hsrcs i).2⟩
    | cons s1 r1 =>
      have hs1 : g.ph.sinkPh s1 = .live := (hlv s1).2 (by simp)
      refine inv_of_reaches (run_fLoop_end s1 r1 d hd st stk g _ hs1) ⟨by simpa using hv, hlen, by simpa using hidle,
        Mode.tfan s1 d r1 stk rfl hd hrest (List.nodup_cons.1 hnd).2 (fun k => ?_) (fun k => ?_) (by simpa using hsrcs)⟩
      · by_cases hk : k = s1
        · subst hk; simp; exact (List.nodup_cons.1 hnd).1
        · simp [hk, hlv k]
      · by_cases hk : k = s1
        · simp [hk]
        · simp [hk]; exact hnosub k

theorem inv_step (s s' : Cfg α) (m : Move α) (h : Inv s) (hs : EnvStep (machine α) m s s') (hr : noNestedFanout s m) :
    ∃ n, Inv (advance (machine α) n s') := by
  obtain ⟨hp, hI⟩ := h
  cases hs with
  | @call st stk g tr c i hc hl =>
    simp only at hI
    cases i with
    | subscribe k => exact step_subscribe hI hc hl
    | sinkUp k u =>
      cases u with
      | pull => exact step_pull hI hc hl
      | term =>
        simp only [legalIn, Bool.and_eq_true, beq_iff_eq, Bool.or_eq_true] at hl
        exact step_dispose_aux hI hc hl.1 (by simpa [or_assoc] using hl.2) (by simp [Ph.onIn])
      | err e =>
        simp only [legalIn, Bool.and_eq_true, beq_iff_eq, Bool.or_eq_true] at hl
        exact step_dispose_aux hI hc hl.1 (by simpa [or_assoc] using hl.2) (by simp [Ph.onIn])
    | srcGreet i => exact step_greet hI hl
    | srcDown i d =>
      have hr' : deliveryOpen stk = false := hr
      cases d with
      | data a => exact step_down_data hI hl hr'
      | term =>
        simp only [legalIn, Bool.and_eq_true, beq_iff_eq] at hl
        exact step_down_end hI hl.1 hr' rfl (by simp [Ph.onIn])
      | err e =>
        simp only [legalIn, Bool.and_eq_true, beq_iff_eq] at hl
        exact step_down_end hI hl.1 hr' rfl (by simp [Ph.onIn])
  | @ret st stk g tr o l hl => exact step_ret hI hl

/-- share, any number of sinks: under every conformant environment in which no upstream delivers while one of the
operator's own deliveries to a sink is in progress, the operator never violates the sink- or source-side protocol
(C01, C02, C03, protocol part of C04) and never panics (C17). -/
theorem share_basicSafe_partial {α : Type} : ∀ s, SReachR (machine α) noNestedFanout s → BasicSafe s :=
  reach_of_macro_inv (machine α) noNestedFanout BasicSafe Inv inv_init inv_turn inv_step (basicSafe_mono (machine α))

end Cb.Share

#print axioms Cb.Share.share_basicSafe_partial
