import CallbagModel.Inv.Ghost
import CallbagModel.Props
/-!
# The trace and the ghost phases agree (generic: every machine, every restriction of the environment)

`Sys.tr` and `Sys.g` are extended in lock-step by `opStep` and by the environment moves.  The chronological projections of
`Props.lean` (`srcEnded`, `sinkDisposed`, `finalsTo`, `openCalls`, …) can therefore be read off the phase layer of the ghost
monitor and off the call stack.  One invariant `TGp ph tr` (phases vs. trace) is shown to be preserved by every event; the
stated lemmas are projections.
-/
namespace Cb

variable {St Loc α β : Type}

/-! ### what a legal environment call says about the phases -/

theorem legal_subscribe {sh : Shape} {g : Ph} {c : Ctx β} {k : Nat}
    (h : legalIn sh g c (.subscribe k : In α) = true) : g.sinkPh k = .idle := by
  simp only [legalIn, Bool.and_eq_true, beq_iff_eq] at h; exact h.1.2

theorem legal_sinkUp {sh : Shape} {g : Ph} {c : Ctx β} {k : Nat} {u : Up}
    (h : legalIn sh g c (.sinkUp k u : In α) = true) : g.sinkPh k = .live := by
  simp only [legalIn, Bool.and_eq_true, beq_iff_eq] at h; exact h.1

theorem legal_srcGreet {sh : Shape} {g : Ph} {c : Ctx β} {i : Nat}
    (h : legalIn sh g c (.srcGreet i : In α) = true) : g.srcPh i = .subscribed := by
  simp only [legalIn, Bool.and_eq_true, beq_iff_eq] at h; exact h.1

theorem legal_srcDown {sh : Shape} {g : Ph} {c : Ctx β} {i : Nat} {d : Down α}
    (h : legalIn sh g c (.srcDown i d : In α) = true) : g.srcPh i = .live := by
  simp only [legalIn, Bool.and_eq_true, beq_iff_eq] at h; exact h.1

/-! ### the invariant relating phases and trace -/

/-- the phases `ph` are what the trace `tr` (newest first) says they are -/
structure TGp (ph : Ph) (tr : List (Ev α β)) : Prop where
  ended : ∀ i, srcEnded i tr = true ↔ ph.srcPh i = .ended
  compl : ∀ i, srcCompleted i tr = true → ph.srcPh i = .ended
  disp : ∀ k, sinkDisposed k tr = true ↔ ph.sinkPh k = .doneBySelf
  greeted : ∀ i, srcGreeted i tr = true ↔ (ph.srcPh i = .live ∨ ph.srcPh i = .ended ∨ ph.srcPh i = .disposed)
  fin : ph.viols = [] → ∀ k, finalsTo k tr = if ph.sinkPh k = .doneBySrc then 1 else 0
  up : ph.viols = [] → ∀ i, upFinals i tr = if ph.srcPh i = .disposed then 1 else 0

theorem TGp.init : TGp ({} : Ph) ([] : List (Ev α β)) := by
  constructor <;> simp [srcEnded, srcCompleted, sinkDisposed, srcGreeted, finalsTo, upFinals]

/-- events that no projection looks at -/
theorem TGp.skip {ph : Ph} {tr : List (Ev α β)} (h : TGp ph tr) (e : Ev α β)
    (he : e = .retE ∨ e = .retO ∨ e = .panic) : TGp ph (e :: tr) := by
  obtain ⟨h1, h2, h3, h4, h5, h6⟩ := h
  rcases he with rfl | rfl | rfl <;>
    exact ⟨by simpa [srcEnded] using h1, by simpa [srcCompleted] using h2, by simpa [sinkDisposed] using h3,
      by simpa [srcGreeted] using h4, by simpa [finalsTo] using h5, by simpa [upFinals] using h6⟩

/-- a legal call of the environment -/
theorem TGp.inp {sh : Shape} {ph : Ph} {c : Ctx β} {tr : List (Ev α β)} (h : TGp ph tr) (i : In α)
    (hl : legalIn sh ph c i = true) : TGp (ph.onIn i) (.inp i :: tr) := by
  obtain ⟨h1, h2, h3, h4, h5, h6⟩ := h
  cases i with
  | subscribe k =>
    have hk := legal_subscribe hl
    refine ⟨h1, h2, ?_, h4, ?_, h6⟩
    · intro k'
      have := h3 k'
      simp only [sinkDisposed, Ph.onIn, Ph.sinkPh_setSink]
      split
      · subst_vars; simp_all
      · exact this
    · intro hv k'
      have := h5 hv k'
      simp only [finalsTo, Ph.onIn, Ph.sinkPh_setSink]
      split
      · subst_vars; simp_all
      · exact this
  | sinkUp k u =>
    have hk := legal_sinkUp hl
    cases u with
    | pull => exact ⟨h1, h2, h3, h4, h5, h6⟩
    | term =>
      refine ⟨h1, h2, ?_, h4, ?_, h6⟩
      · intro j
        have := h3 j
        simp only [sinkDisposed, Ph.onIn, Ph.sinkPh_setSink]
        by_cases hj : j = k
        · subst hj; simp
        · have hj' : ¬ k = j := fun e => hj e.symm
          simpa [hj, hj'] using this
      · intro hv j
        have := h5 hv j
        simp only [finalsTo, Ph.onIn, Ph.sinkPh_setSink]
        by_cases hj : j = k
        · subst hj; simpa [hk] using this
        · simpa [hj] using this
    | err e =>
      refine ⟨h1, h2, ?_, h4, ?_, h6⟩
      · intro j
        have := h3 j
        simp only [sinkDisposed, Ph.onIn, Ph.sinkPh_setSink]
        by_cases hj : j = k
        · subst hj; simp
        · have hj' : ¬ k = j := fun e => hj e.symm
          simpa [hj, hj'] using this
      · intro hv j
        have := h5 hv j
        simp only [finalsTo, Ph.onIn, Ph.sinkPh_setSink]
        by_cases hj : j = k
        · subst hj; simpa [hk] using this
        · simpa [hj] using this
  | srcGreet i =>
    have hi := legal_srcGreet hl
    refine ⟨?_, ?_, h3, ?_, h5, ?_⟩
    · intro j
      have := h1 j
      simp only [srcEnded, Ph.onIn, Ph.srcPh_setSrc]
      by_cases hj : j = i
      · subst hj; simpa [hi] using this
      · simpa [hj] using this
    · intro j
      have := h2 j
      simp only [srcCompleted, Ph.onIn, Ph.srcPh_setSrc]
      by_cases hj : j = i
      · subst hj; simpa [hi] using this
      · simpa [hj] using this
    · intro j
      have := h4 j
      simp only [srcGreeted, Ph.onIn, Ph.srcPh_setSrc]
      by_cases hj : j = i
      · subst hj; simp
      · have hj' : ¬ i = j := fun e => hj e.symm
        simpa [hj, hj'] using this
    · intro hv j
      have := h6 hv j
      simp only [upFinals, Ph.onIn, Ph.srcPh_setSrc]
      by_cases hj : j = i
      · subst hj; simpa [hi] using this
      · simpa [hj] using this
  | srcDown i d =>
    have hi := legal_srcDown hl
    cases d with
    | data a => exact ⟨h1, h2, h3, h4, h5, h6⟩
    | term =>
      refine ⟨?_, ?_, h3, ?_, h5, ?_⟩
      · intro j
        have := h1 j
        simp only [srcEnded, Ph.onIn, Ph.srcPh_setSrc]
        by_cases hj : j = i
        · subst hj; simp
        · have hj' : ¬ i = j := fun e => hj e.symm
          simpa [hj, hj'] using this
      · intro j
        have := h2 j
        simp only [srcCompleted, Ph.onIn, Ph.srcPh_setSrc]
        by_cases hj : j = i
        · subst hj; simp
        · have hj' : ¬ i = j := fun e => hj e.symm
          simpa [hj, hj'] using this
      · intro j
        have := h4 j
        simp only [srcGreeted, Ph.onIn, Ph.srcPh_setSrc]
        by_cases hj : j = i
        · subst hj; simpa [hi] using this
        · simpa [hj] using this
      · intro hv j
        have := h6 hv j
        simp only [upFinals, Ph.onIn, Ph.srcPh_setSrc]
        by_cases hj : j = i
        · subst hj; simpa [hi] using this
        · simpa [hj] using this
    | err e =>
      refine ⟨?_, ?_, h3, ?_, h5, ?_⟩
      · intro j
        have := h1 j
        simp only [srcEnded, Ph.onIn, Ph.srcPh_setSrc]
        by_cases hj : j = i
        · subst hj; simp
        · have hj' : ¬ i = j := fun e => hj e.symm
          simpa [hj, hj'] using this
      · intro j
        have := h2 j
        simp only [srcCompleted, Ph.onIn, Ph.srcPh_setSrc]
        by_cases hj : j = i
        · subst hj; simp
        · simpa [hj] using this
      · intro j
        have := h4 j
        simp only [srcGreeted, Ph.onIn, Ph.srcPh_setSrc]
        by_cases hj : j = i
        · subst hj; simpa [hi] using this
        · simpa [hj] using this
      · intro hv j
        have := h6 hv j
        simp only [upFinals, Ph.onIn, Ph.srcPh_setSrc]
        by_cases hj : j = i
        · subst hj; simpa [hi] using this
        · simpa [hj] using this

/-- a call made by the operator -/
theorem TGp.out {ph : Ph} {tr : List (Ev α β)} (h : TGp ph tr) (o : Out β) : TGp (ph.onOut o) (.out o :: tr) := by
  obtain ⟨h1, h2, h3, h4, h5, h6⟩ := h
  cases o with
  | greet k =>
    simp only [Ph.onOut]
    split
    · rename_i hk
      refine ⟨h1, h2, ?_, h4, ?_, h6⟩
      · intro j
        have := h3 j
        simp only [sinkDisposed, Ph.sinkPh_setSink]
        by_cases hj : j = k
        · subst hj; simpa [hk] using this
        · simpa [hj] using this
      · intro hv j
        have := h5 hv j
        simp only [finalsTo, Ph.sinkPh_setSink]
        by_cases hj : j = k
        · subst hj; simpa [hk] using this
        · simpa [hj] using this
    · exact ⟨h1, h2, h3, h4, fun hv => by simp at hv, fun hv => by simp at hv⟩
  | down k d =>
    cases hp : ph.sinkPh k with
    | live =>
      cases d with
      | data b =>
        simp only [Ph.onOut, hp, isFinal]
        exact ⟨h1, h2, h3, h4, h5, h6⟩
      | term =>
        simp only [Ph.onOut, hp, isFinal, ↓reduceIte]
        refine ⟨h1, h2, ?_, h4, ?_, h6⟩
        · intro j
          have := h3 j
          simp only [sinkDisposed, Ph.sinkPh_setSink]
          by_cases hj : j = k
          · subst hj; simpa [hp] using this
          · simpa [hj] using this
        · intro hv j
          have := h5 hv j
          simp only [finalsTo, Ph.sinkPh_setSink]
          by_cases hj : j = k
          · subst hj; simpa [hp] using this
          · have hj' : ¬ k = j := fun e => hj e.symm
            simpa [hj, hj'] using this
      | err e =>
        simp only [Ph.onOut, hp, isFinal, ↓reduceIte]
        refine ⟨h1, h2, ?_, h4, ?_, h6⟩
        · intro j
          have := h3 j
          simp only [sinkDisposed, Ph.sinkPh_setSink]
          by_cases hj : j = k
          · subst hj; simpa [hp] using this
          · simpa [hj] using this
        · intro hv j
          have := h5 hv j
          simp only [finalsTo, Ph.sinkPh_setSink]
          by_cases hj : j = k
          · subst hj; simpa [hp] using this
          · have hj' : ¬ k = j := fun e => hj e.symm
            simpa [hj, hj'] using this
    | idle | subscribed | doneBySrc | doneBySelf =>
      simp only [Ph.onOut, hp]
      exact ⟨h1, h2, h3, h4, fun hv => by simp at hv, fun hv => by simp at hv⟩
  | subSrc i =>
    simp only [Ph.onOut]
    split
    · exact ⟨h1, h2, h3, h4, fun hv => by simp at hv, fun hv => by simp at hv⟩
    · rename_i hi
      have hi : ph.srcPh i = .idle := Decidable.not_not.1 hi
      split
      · exact ⟨h1, h2, h3, h4, fun hv => by simp at hv, fun hv => by simp at hv⟩
      · refine ⟨?_, ?_, h3, ?_, h5, ?_⟩
        · intro j
          have := h1 j
          simp only [srcEnded, Ph.srcPh_setSrc]
          by_cases hj : j = i
          · subst hj; simpa [hi] using this
          · simpa [hj] using this
        · intro j
          have := h2 j
          simp only [srcCompleted, Ph.srcPh_setSrc]
          by_cases hj : j = i
          · subst hj; simpa [hi] using this
          · simpa [hj] using this
        · intro j
          have := h4 j
          simp only [srcGreeted, Ph.srcPh_setSrc]
          by_cases hj : j = i
          · subst hj; simpa [hi] using this
          · simpa [hj] using this
        · intro hv j
          have := h6 hv j
          simp only [upFinals, Ph.srcPh_setSrc]
          by_cases hj : j = i
          · subst hj; simpa [hi] using this
          · simpa [hj] using this
  | srcUp i u =>
    cases u with
    | pull =>
      simp only [Ph.onOut]
      split
      · exact ⟨h1, h2, h3, h4, h5, h6⟩
      · exact ⟨h1, h2, h3, h4, fun hv => by simp at hv, fun hv => by simp at hv⟩
    | term =>
      simp only [Ph.onOut]
      split
      · rename_i hi
        refine ⟨?_, ?_, h3, ?_, h5, ?_⟩
        · intro j
          have := h1 j
          simp only [srcEnded, Ph.srcPh_setSrc]
          by_cases hj : j = i
          · subst hj; simpa [hi] using this
          · simpa [hj] using this
        · intro j
          have := h2 j
          simp only [srcCompleted, Ph.srcPh_setSrc]
          by_cases hj : j = i
          · subst hj; simpa [hi] using this
          · simpa [hj] using this
        · intro j
          have := h4 j
          simp only [srcGreeted, Ph.srcPh_setSrc]
          by_cases hj : j = i
          · subst hj; simpa [hi] using this
          · simpa [hj] using this
        · intro hv j
          have := h6 hv j
          simp only [upFinals, Ph.srcPh_setSrc]
          by_cases hj : j = i
          · subst hj; simpa [hi] using this
          · have hj' : ¬ i = j := fun e => hj e.symm
            simpa [hj, hj'] using this
      · exact ⟨h1, h2, h3, h4, fun hv => by simp at hv, fun hv => by simp at hv⟩
    | err e =>
      simp only [Ph.onOut]
      split
      · rename_i hi
        refine ⟨?_, ?_, h3, ?_, h5, ?_⟩
        · intro j
          have := h1 j
          simp only [srcEnded, Ph.srcPh_setSrc]
          by_cases hj : j = i
          · subst hj; simpa [hi] using this
          · simpa [hj] using this
        · intro j
          have := h2 j
          simp only [srcCompleted, Ph.srcPh_setSrc]
          by_cases hj : j = i
          · subst hj; simpa [hi] using this
          · simpa [hj] using this
        · intro j
          have := h4 j
          simp only [srcGreeted, Ph.srcPh_setSrc]
          by_cases hj : j = i
          · subst hj; simpa [hi] using this
          · simpa [hj] using this
        · intro hv j
          have := h6 hv j
          simp only [upFinals, Ph.srcPh_setSrc]
          by_cases hj : j = i
          · subst hj; simpa [hi] using this
          · have hj' : ¬ i = j := fun e => hj e.symm
            simpa [hj, hj'] using this
      · exact ⟨h1, h2, h3, h4, fun hv => by simp at hv, fun hv => by simp at hv⟩
  | app b => exact ⟨h1, h2, h3, h4, h5, h6⟩

/-! ### the open calls and the stack -/

/-- the open calls computed from the trace are the stack -/
def framesOf {Loc β} : List (Frame Loc β) → List (Option (Out β))
  | [] => []
  | .run _ :: r => none :: framesOf r
  | .wait o _ :: r => some o :: none :: framesOf r

/-! ### the invariant of configurations -/

/-- phases and trace agree; while no panic happened, stack and trace agree -/
structure TG (s : Sys St Loc α β) : Prop where
  ph : TGp s.g.ph s.tr
  stk : s.panicked = none → openCalls s.tr = framesOf s.stack

theorem TG.init (M : Machine St Loc α β) : TG (Sys.init M) :=
  ⟨TGp.init, fun _ => rfl⟩

theorem TG.opStep {M : Machine St Loc α β} {a b : Sys St Loc α β} (ha : TG a) (h : opStep M a = some b) : TG b := by
  obtain ⟨hph, hstk⟩ := ha
  unfold Cb.opStep at h
  cases hp : a.panicked with
  | some m => simp [hp] at h
  | none =>
    simp only [hp, Option.isSome_none, Bool.false_eq_true, ↓reduceIte] at h
    have hstk := hstk hp
    cases hs : a.stack with
    | nil => simp [hs] at h
    | cons f r =>
      cases f with
      | wait o l => simp [hs] at h
      | run l =>
        simp only [hs] at h
        rw [hs] at hstk
        cases hst : M.step a.st l with
        | ret =>
          simp only [hst, Option.some.injEq] at h; subst h
          refine ⟨?_, fun _ => ?_⟩
          · simpa using hph.skip .retO (.inr (.inl rfl))
          · simp [openCalls, hstk, framesOf]
        | tau s' l' =>
          simp only [hst, Option.some.injEq] at h; subst h
          exact ⟨hph, fun _ => by simpa [framesOf] using hstk⟩
        | call o s' l' =>
          simp only [hst, Option.some.injEq] at h; subst h
          refine ⟨?_, fun _ => ?_⟩
          · simpa using hph.out o
          · simp [openCalls, hstk, framesOf]
        | panic m =>
          simp only [hst, Option.some.injEq] at h; subst h
          refine ⟨hph.skip .panic (.inr (.inr rfl)), fun hp' => ?_⟩
          simp at hp'

theorem TG.envStep {M : Machine St Loc α β} {m : Move α} {a b : Sys St Loc α β} (ha : TG a) (h : EnvStep M m a b) : TG b := by
  obtain ⟨hph, hstk⟩ := ha
  cases h with
  | call i hc hl =>
    refine ⟨?_, fun _ => ?_⟩
    · simpa using hph.inp i hl
    · have := hstk rfl
      simp only at this
      simp [openCalls, this, framesOf]
  | ret hl =>
    refine ⟨hph.skip .retE (.inl rfl), fun _ => ?_⟩
    have := hstk rfl
    simp only at this
    simp [openCalls, this, framesOf]

theorem TG.of_reach {M : Machine St Loc α β} {R : Restr St Loc α β} {s : Sys St Loc α β} (hs : SReachR M R s) : TG s := by
  induction hs with
  | init => exact TG.init M
  | step _ hab ih =>
    cases hab with
    | op h => exact ih.opStep h
    | env h _ => exact ih.envStep h

/-! ### the lemmas -/

variable {M : Machine St Loc α β} {R : Restr St Loc α β} {s : Sys St Loc α β}

/-- an upstream that ended stays ended, and the trace knows it -/
theorem srcEnded_iff (hs : SReachR M R s) (i : Nat) : srcEnded i s.tr = true ↔ s.g.ph.srcPh i = .ended :=
  (TG.of_reach hs).ph.ended i

theorem srcCompleted_imp (hs : SReachR M R s) (i : Nat) : srcCompleted i s.tr = true → s.g.ph.srcPh i = .ended :=
  (TG.of_reach hs).ph.compl i

theorem sinkDisposed_iff (hs : SReachR M R s) (k : Nat) : sinkDisposed k s.tr = true ↔ s.g.ph.sinkPh k = .doneBySelf :=
  (TG.of_reach hs).ph.disp k

theorem srcGreeted_iff (hs : SReachR M R s) (i : Nat) :
    srcGreeted i s.tr = true ↔ (s.g.ph.srcPh i = .live ∨ s.g.ph.srcPh i = .ended ∨ s.g.ph.srcPh i = .disposed) :=
  (TG.of_reach hs).ph.greeted i

/-- while no phase-level violation has been recorded: terminals to sinks and to upstreams are counted by the phases -/
theorem finalsTo_iff (hs : SReachR M R s) (hv : s.g.ph.viols = []) (k : Nat) :
    (finalsTo k s.tr = 1 ↔ s.g.ph.sinkPh k = .doneBySrc) ∧ finalsTo k s.tr ≤ 1 := by
  rw [(TG.of_reach hs).ph.fin hv k]
  split <;> simp [*]

theorem upFinals_iff (hs : SReachR M R s) (hv : s.g.ph.viols = []) (i : Nat) :
    (upFinals i s.tr = 1 ↔ s.g.ph.srcPh i = .disposed) ∧ upFinals i s.tr ≤ 1 := by
  rw [(TG.of_reach hs).ph.up hv i]
  split <;> simp [*]

/-- the open calls computed from the trace are the stack -/
theorem openCalls_eq (hs : SReachR M R s) (hp : s.panicked = none) : openCalls s.tr = framesOf s.stack :=
  (TG.of_reach hs).stk hp

end Cb

#print axioms Cb.srcEnded_iff
#print axioms Cb.srcCompleted_imp
#print axioms Cb.sinkDisposed_iff
#print axioms Cb.srcGreeted_iff
#print axioms Cb.finalsTo_iff
#print axioms Cb.upFinals_iff
#print axioms Cb.openCalls_eq
