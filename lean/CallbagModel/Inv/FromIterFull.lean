import CallbagModel.Inv.Ghost2
import CallbagModel.Inv.FromIter
/-!
# from_iter: the FULL safety invariant (both ghost layers: C01–C05, C17)

`Mode`, `Tail` are those of `Inv/FromIter.lean`.  `from_iter` has no upstream: every `srcPh i` is idle for ever, so there are
no orphans, no `srcDown` is ever legal (the pending upstream-error check `pend` stays `none`) and no `srcUp` is ever performed
(`sinkErr` is irrelevant).  New in the invariant: `X2 s.g` := `XOk s.g ∧ s.g.pend = none` (kept folded, so that `simp` does
not rewrite with `pend = none` and the structure literals after `exec` keep a predictable shape).  The case analysis and the
step counts are exactly those of `FromIter.inv_step`.
-/
namespace Cb.FromIterFull
open Cb Cb.FromIter

variable {ι α α' : Type}

/-- second layer of the invariant: `XOk`, and no upstream-error check is pending -/
def X2 (g : G) : Prop := XOk g ∧ g.pend = none

def Inv (s : Sys (St ι α) Loc α' α) : Prop :=
  s.panicked = none ∧ s.g.ph.viols = [] ∧
  (∀ i, s.g.ph.srcPh i = .idle) ∧ (∀ k, k ≠ 0 → s.g.ph.sinkPh k = .idle) ∧
  Mode s.st s.g.ph s.stack ∧ X2 s.g

theorem inv_turn (s : Sys (St ι α) Loc α' α) (h : Inv s) : EnvTurn s ∧ Safe s := by
  obtain ⟨hp, hb, ho, hos, hm, hx, _⟩ := h
  have := (FromIter.inv_turn s ⟨hp, hb, ho, hos, hm⟩).1
  exact ⟨this, by simp [G.viols, hb, hx.clean], hp⟩

/-- side goals about fields of a structure literal, whichever way `simp` has normalised it -/
macro "fld2" : tactic => `(tactic| first | rfl | assumption | exact Or.inl rfl | exact Or.inr rfl | simp)

/-- whatever happens to `ph.sink`, `fin`, `sinkErr`: with no upstream and nothing pending the second layer stays fine -/
theorem X2.step {g g' : G} (h : X2 g) (hpend : g'.pend = g.pend ∨ g'.pend = none) (hxv : g'.xviols = g.xviols)
    (hsrc : ∀ i, g'.ph.srcPh i = .idle) : X2 g' := by
  obtain ⟨hx, hpn⟩ := h
  refine ⟨hx.of_noPend hpn hpend hxv (noOrphan_of_noLive (fun i => by rw [hsrc i]; decide)), ?_⟩
  rcases hpend with hp | hp
  · rw [hp]; exact hpn
  · exact hp

theorem onRetO_pend_none {g : G} (hx : XOk g) (hp : g.pend = none) (h : Nat) : (g.onRetO h).pend = none := by
  unfold G.onRetO
  have h1 := hx.clearSinkErr h
  have h2 := h1.checkPend h
  rw [h2.1.checkOrphans h]
  have h3 : (g.clearSinkErr h).pend = none := by rw [(clearSinkErr_fields g h).2.2.1]; exact hp
  simp only [G.checkPend, h3]

theorem X2.onRetO {g : G} (h : X2 g) (n : Nat) : X2 (g.onRetO n) :=
  ⟨h.1.onRetO n, onRetO_pend_none h.1 h.2 n⟩

macro "exec" n:num : tactic =>
  `(tactic| (refine ⟨$n, ?_⟩; simp [advance, opStep, machine, enter, step, Ph.onIn, Ph.onOut, Inv, isFinal, *]))

theorem inv_step (next : ι → Option (α × ι)) (it0 : ι) (s s' : Sys (St ι α) Loc α' α) (m : Move α') (h : Inv s)
    (hs : EnvStep (machine α' next it0) m s s') : ∃ n, Inv (advance (machine α' next it0) n s') := by
  obtain ⟨hp, hb, hsrc, hoths, hm, hx⟩ := h
  cases hs with
  | @call st stk g tr c i hc hl =>
    simp only at hp hb hsrc hoths hm hx
    cases i with
    | subscribe k =>
      simp only [legalIn, Bool.and_eq_true, beq_iff_eq, machine, Bool.or_false] at hl
      obtain ⟨⟨hc', hidle⟩, rfl⟩ := hl
      cases hm with
      | idle h1 h2 h3 h4 h5 h6 h7 =>
        subst h2
        exec 1
        refine ⟨fun k hk => by simp [hk, hoths k hk], Mode.live0 (by simp) ‹_› ‹_› ‹_› ‹_› ?_, ?_⟩
        · exact tail_cons (fun _ h => by cases h)
        · exact hx.step (by fld2) (by fld2) (by intro i; simp [hsrc i])
      | _ => simp_all
    | sinkUp k u =>
      simp only [legalIn, Bool.and_eq_true, beq_iff_eq, Bool.or_eq_true] at hl
      obtain ⟨hlive, hctx⟩ := hl
      have hk : k = 0 := by
        by_cases hk : k = 0
        · exact hk
        · rw [hoths k hk] at hlive; cases hlive
      subst hk
      cases hm with
      | live0 h1 h2 h3 h4 h5 h6 =>
        cases u with
        | pull =>
          cases hn : next st.it with
          | none =>
            exec 10
            refine ⟨fun k hk => by simp [hk, hoths k hk], Mode.src1 (by simp) (by fld) (by fld) (by fld) ⟨stk, rfl, h6⟩, ?_⟩
            exact hx.step (by fld2) (by fld2) (by intro i; simp [hsrc i])
          | some p =>
            obtain ⟨a, it'⟩ := p
            exec 10
            exact ⟨hoths, Mode.live1 h1 (by fld) (by fld) (by fld) (by fld) ⟨a, stk, rfl, h6⟩⟩
        | term =>
          exec 3
          refine ⟨fun k hk => by simp [hk, hoths k hk], Mode.self0 (by simp) (by fld) (by fld) (by fld) h6, ?_⟩
          exact (hx.step (by fld2) (by fld2) (by intro i; simp [hsrc i])).onRetO _
        | err e =>
          exec 3
          refine ⟨fun k hk => by simp [hk, hoths k hk], Mode.self0 (by simp) (by fld) (by fld) (by fld) h6, ?_⟩
          exact (hx.step (by fld2) (by fld2) (by intro i; simp [hsrc i])).onRetO _
      | live1 h1 h2 h3 h4 h5 h6 =>
        cases u with
        | pull =>
          exec 3
          refine ⟨hoths, Mode.live1 h1 (by fld) (by fld) (by fld) (by fld) h6, ?_⟩
          exact (hx.step (by fld2) (by fld2) (by intro i; simp [hsrc i])).onRetO _
        | term =>
          exec 3
          refine ⟨fun k hk => by simp [hk, hoths k hk], Mode.self1 (by simp) (by fld) (by fld) (by fld) h6, ?_⟩
          exact (hx.step (by fld2) (by fld2) (by intro i; simp [hsrc i])).onRetO _
        | err e =>
          exec 3
          refine ⟨fun k hk => by simp [hk, hoths k hk], Mode.self1 (by simp) (by fld) (by fld) (by fld) h6, ?_⟩
          exact (hx.step (by fld2) (by fld2) (by intro i; simp [hsrc i])).onRetO _
      | _ => simp_all
    | srcGreet i =>
      simp only [legalIn, Bool.and_eq_true, beq_iff_eq, Bool.or_eq_true] at hl
      simp [hsrc i] at hl
    | srcDown i d =>
      simp only [legalIn, Bool.and_eq_true, beq_iff_eq, Bool.or_eq_true] at hl
      simp [hsrc i] at hl
  | @ret st stk g tr o l hl =>
    simp only at hp hb hsrc hoths hm hx
    -- resuming a tail continuation: one step, nothing changes
    have resume_tail : Tail (Frame.wait o l :: stk) → Mode st g.ph stk → ∃ n, Inv (advance (machine α' next it0) n ⟨st, .run l :: stk, g, .retE :: tr, none⟩) := by
      intro ht hmode
      obtain ⟨o', he⟩ := ht _ List.mem_cons_self
      simp at he; obtain ⟨rfl, rfl⟩ := he
      exec 1
      exact ⟨hoths, hx.onRetO _⟩
    cases hm with
    | idle _ h => simp at h
    | live0 h1 h2 h3 h4 h5 h6 => exact resume_tail h6 (Mode.live0 h1 h2 h3 h4 h5 (tail_of_cons h6))
    | self0 h1 h2 h3 h4 h6 => exact resume_tail h6 (Mode.self0 h1 h2 h3 h4 (tail_of_cons h6))
    | src0 h1 h2 h3 h4 h6 => exact resume_tail h6 (Mode.src0 h1 h2 h3 h4 (tail_of_cons h6))
    | live1 h1 h2 h3 h4 h5 h6 =>
      obtain ⟨a, rest, he, hrest⟩ := h6
      simp at he; obtain ⟨⟨rfl, rfl⟩, rfl⟩ := he
      cases hgp : st.gotPull with
      | false =>
        exec 3
        exact ⟨hoths, Mode.live0 h1 (by fld) (by fld) (by fld) (by fld) hrest, hx.onRetO _⟩
      | true =>
        cases hn : next st.it with
        | none =>
          exec 5
          refine ⟨fun k hk => by simp [hk, hoths k hk], Mode.src1 (by simp) (by fld) (by fld) (by fld) ⟨stk, rfl, hrest⟩, ?_⟩
          exact hx.step (by fld2) (by fld2) (by intro i; simp [hsrc i])
        | some p =>
          obtain ⟨b, it'⟩ := p
          exec 5
          exact ⟨hoths, Mode.live1 h1 (by fld) (by fld) (by fld) (by fld) ⟨b, stk, rfl, hrest⟩⟩
    | self1 h1 h2 h3 h4 h6 =>
      obtain ⟨a, rest, he, hrest⟩ := h6
      simp at he; obtain ⟨⟨rfl, rfl⟩, rfl⟩ := he
      cases hgp : st.gotPull with
      | false =>
        exec 3
        exact ⟨hoths, Mode.self0 h1 (by fld) (by fld) (by fld) hrest, hx.onRetO _⟩
      | true =>
        exec 4
        exact ⟨hoths, Mode.self0 h1 (by fld) (by fld) (by fld) hrest, hx.onRetO _⟩
    | src1 h1 h2 h3 h4 h6 =>
      obtain ⟨rest, he, hrest⟩ := h6
      simp at he; obtain ⟨⟨rfl, rfl⟩, rfl⟩ := he
      exec 2
      exact ⟨hoths, Mode.src0 h1 (by fld) (by fld) (by fld) hrest, hx.onRetO _⟩

theorem inv_init (next : ι → Option (α × ι)) (it0 : ι) : Inv (Sys.init (machine α' next it0)) := by
  obtain ⟨h1, h2, h3, h4, h5⟩ := FromIter.inv_init (α' := α') next it0
  exact ⟨h1, h2, h3, h4, h5,
    ⟨rfl, (by intro e h ks hp; cases hp), noOrphan_of_noLive (by intro i; simp [Sys.init])⟩, rfl⟩

/-- from_iter: under every conformant environment the source never violates any clause of C01–C05 and never panics. -/
theorem fromIter_safe {ι α α' : Type} (next : ι → Option (α × ι)) (it0 : ι) :
    ∀ s, SReach (machine α' next it0) s → Safe s :=
  safe_of_macro_inv (machine α' next it0) Inv (inv_init next it0) inv_turn (inv_step next it0)

end Cb.FromIterFull

#print axioms Cb.FromIterFull.fromIter_safe
