import CallbagModel.Inv.PullOnly
import CallbagModel.Inv.Pipeline
/-!
# The COST of a pipeline: the iterator is advanced only on demand

`nexts` (the ghost counter of `Iterator::next` calls) of a head `A`, against the demand semantics `sem` of `Ops/Pipeline.lean`.

* `DemOk dem` — an assumption on the SINK of a head, as a predicate on its sink-side trace (closed under taking tails): the sink pulls
  only while it has received fewer than `d` items (`dem = some d`; no restriction for `none`).
* `HeadUp M nx c` (upper bound, every reachable configuration): under `DemOk dem`, `nx s.st ≤ c dem`.
* `HeadLow M nx c` (lower bound, at top level): `c (some k) ≤ nx s.st` once `k` items have been delivered, `c none ≤ nx s.st` once the
  terminal has been delivered.
* `StageDem S up ys` — the rule of a stage for the upper bound: if its sink obeys `DemOk dem`, its upstream delivers data only when pulled
  (`POkSrc 0`) and has delivered a prefix of `ys`, then the stage obeys `DemOkSrc (up dem)` towards its upstream — it pulls only while it
  has received fewer items than the demand `up dem` it passes on (`up` mirrors `sem`: `needFor` for `filter`, `+ n` for `skip`, `min n` for
  `take`).  `HeadUp.compose`, by the projection of `Inv/ComposeFun.lean`.
* `StageLow S up ys` — the rule for the lower bound (`HeadLow.compose`).
-/
namespace Cb
namespace ComposeCost
open ComposeSafe ComposeFun ComposeComplete FlatPlugFun

/-! ## Part 1: demands on traces -/
section Dem
variable {α β γ : Type}

/-- the sink still wants items after `c` of them -/
def wants : Demand → Nat → Prop
  | none, _ => True
  | some d, c => c < d

/-- the sink pulls only while it wants more (events newest first) -/
def DemOk (dem : Demand) : List (SinkEv β) → Prop
  | [] => True
  | e :: t => (e = .up 0 .pull → wants dem (recvS 0 t).length) ∧ DemOk dem t

/-- the operator pulls upstream 0 only while it wants more -/
def DemOkSrc (dem : Demand) : List (SrcEv α) → Prop
  | [] => True
  | e :: t => (e = .up 0 .pull → wants dem (sentS 0 t).length) ∧ DemOkSrc dem t

theorem demOk_none (l : List (SinkEv β)) : DemOk none l := by
  induction l with
  | nil => trivial
  | cons e t ih => exact ⟨fun _ => trivial, ih⟩

theorem DemOk.tail {dem : Demand} {e : Ev α β} {tr : List (Ev α β)} (h : DemOk dem (sinkEvs (e :: tr))) : DemOk dem (sinkEvs tr) := by
  simp only [sinkEvs] at h
  cases hs : sinkEv e with
  | none => rw [hs] at h; exact h
  | some x => rw [hs] at h; exact h.2

theorem demOk_of_dual {dem : Demand} {l : List (SinkEv β)} (h : DemOkSrc dem (dualEvs l)) : DemOk dem l := by
  induction l with
  | nil => trivial
  | cons e t ih =>
    cases e with
    | app b => simp only [dualEvs, dual, consOpt_none] at h; exact ⟨fun he => (by cases he), ih h⟩
    | up k u =>
      simp only [dualEvs, dual, consOpt_some] at h
      refine ⟨fun he => ?_, ih h.2⟩
      cases he
      rw [recvS_dual]; exact h.1 rfl
    | subscribe k => simp only [dualEvs, dual, consOpt_some] at h; exact ⟨fun he => (by cases he), ih h.2⟩
    | greet k => simp only [dualEvs, dual, consOpt_some] at h; exact ⟨fun he => (by cases he), ih h.2⟩
    | down k d => simp only [dualEvs, dual, consOpt_some] at h; exact ⟨fun he => (by cases he), ih h.2⟩

/-- an unserved `Pull` was sent while the sink wanted more, and nothing has been delivered since -/
theorem wants_of_lastPull {dem : Demand} {l : List (SinkEv β)} (h : DemOk dem l) (hp : lastPull 0 l = true) :
    wants dem (recvS 0 l).length := by
  induction l with
  | nil => simp [lastPull] at hp
  | cons e t ih =>
    cases e with
    | up k u =>
      by_cases hk : u = .pull ∧ k = 0
      · obtain ⟨rfl, rfl⟩ := hk
        simpa [recvS] using h.1 rfl
      · have : lastPull 0 t = true := by simpa [lastPull, relS, hk] using hp
        simpa [recvS] using ih h.2 this
    | down k d =>
      by_cases hk : k = 0
      · subst hk; simp [lastPull, relS] at hp
      · have : lastPull 0 t = true := by simpa [lastPull, relS, hk] using hp
        have := ih h.2 this
        cases d <;> simpa [recvS, hk] using this
    | subscribe k => have : lastPull 0 t = true := by simpa [lastPull, relS] using hp
                     simpa [recvS] using ih h.2 this
    | greet k => have : lastPull 0 t = true := by simpa [lastPull, relS] using hp
                 simpa [recvS] using ih h.2 this
    | app b => have : lastPull 0 t = true := by simpa [lastPull, relS] using hp
               simpa [recvS] using ih h.2 this

end Dem

/-! ## Part 2: heads, stages, and their composition -/
section Compose
variable {S1 L1 S2 L2 St Loc α β γ : Type}

/-- upper bound: under a sink that obeys `dem`, the iterators have been advanced at most `c dem` times -/
def HeadUp (M : Machine St Loc α β) (nx : St → Nat) (c : Demand → Nat) : Prop :=
  ∀ dem s, SReach M s → DemOk dem (sinkEvs s.tr) → nx s.st ≤ c dem

/-- lower bound, at top level: delivering `k` items costs at least `c (some k)`, delivering the terminal at least `c none` -/
def HeadLow (M : Machine St Loc α β) (nx : St → Nat) (c : Demand → Nat) : Prop :=
  ∀ s, SReach M s → s.stack = [] →
    c (some (recvData 0 s.tr).length) ≤ nx s.st ∧ (s.g.ph.sinkPh 0 = .doneBySrc → c none ≤ nx s.st)

/-- the rule of a stage for the upper bound -/
def StageDem (M : Machine St Loc α β) (up : Demand → Demand) (ys : List α) : Prop :=
  ∀ dem s, SReach M s → DemOk dem (sinkEvs s.tr) → POkSrc 0 (srcEvs s.tr) → sentData 0 s.tr <+: ys →
    DemOkSrc (up dem) (srcEvs s.tr)

/-- the rule of a stage for the lower bound, at top level: the demand passed on for the `k` items delivered is within what has been
received; and if the terminal has been delivered, either the upstream has ended or the demand passed on for "everything" is within what
has been received -/
def StageLow (M : Machine St Loc α β) (up : Demand → Demand) (ys : List α) : Prop :=
  ∀ s, SReach M s → s.stack = [] → sentData 0 s.tr <+: ys →
    Dle (up (some (recvData 0 s.tr).length)) (some (sentData 0 s.tr).length) ∧
    (s.g.ph.sinkPh 0 = .doneBySrc → s.g.ph.srcPh 0 = .ended ∨ Dle (up none) (some (sentData 0 s.tr).length))

/-- what a head has delivered is a prefix of its list at EVERY reachable configuration -/
theorem recv_prefix_all {M : Machine St Loc α β} {ys : List β} (h : SrcSpec M ys) : ∀ s, SReach M s → recvData 0 s.tr <+: ys := by
  apply reach_ind
  · simp [Sys.init, recvData]
  · intro a b ha ih hstep
    cases hstep with
    | tau _ => exact ih
    | @call st l stk g tr o s' l' hst =>
      exact h _ (reach_op ha (.call hst)) ⟨rfl, by simp [ctxOf]⟩
    | ret _ => simpa [recvData] using ih
    | panic _ => simpa [recvData] using ih
  · intro a b m ha ih hstep
    cases hstep with
    | call i hc hl => simpa [recvData] using ih
    | ret hl => simpa [recvData] using ih

theorem HeadUp.compose {M1 : Machine S1 L1 α β} {M2 : Machine S2 L2 β γ} {nx : S1 → Nat} {c : Demand → Nat} {up : Demand → Demand}
    {ys : List β} (h1 : HeadUp M1 nx c) (H : Hyp M1 M2) (hspec : SrcSpec M1 ys) (hp : PullOnly M1) (h2 : StageDem M2 up ys) :
    HeadUp (Cb.compose M1 M2) (fun st => nx st.1) (fun dem => c (up dem)) := by
  intro dem s hs hd
  obtain ⟨s1, s2, hr1, hr2, hm, ht⟩ := compose_inv_tr H s hs
  have hst : s.st = (s1.st, s2.st) := hm.st
  rw [hst]
  apply h1 (up dem) s1 hr1
  apply demOk_of_dual
  rw [ht.ifc]
  refine h2 dem s2 hr2 (by rw [← ht.sink]; exact hd) ?_ ?_
  · rw [← ht.ifc]; exact pOkSrc_dualEvs _ (hp s1 hr1)
  · rw [sentData_eq, ← ht.ifc, ← recvS_dual, ← recvData_eq]; exact recv_prefix_all hspec s1 hr1

theorem HeadLow.compose {M1 : Machine S1 L1 α β} {M2 : Machine S2 L2 β γ} {nx : S1 → Nat} {c : Demand → Nat} {up : Demand → Demand}
    {ys : List β} (h1 : HeadLow M1 nx c) (hmono : ∀ d1 d2, Dle d1 d2 → c d1 ≤ c d2) (H : Hyp M1 M2) (hspec : SrcSpec M1 ys)
    (h2 : StageLow M2 up ys) : HeadLow (Cb.compose M1 M2) (fun st => nx st.1) (fun dem => c (up dem)) := by
  intro s hs hstk
  obtain ⟨s1, s2, hr1, hr2, hk1, hk2, ht1, ht2, hgh, htr, hp⟩ := proj_top H hs hstk
  have hst : s.st = (s1.st, s2.st) := hp.m.st
  rw [hst]
  have hpre : sentData 0 s2.tr <+: ys := by rw [← hp.ifc 0]; exact hspec s1 hr1 ht1
  obtain ⟨l1, l2⟩ := h2 s2 hr2 hk2 hpre
  obtain ⟨a1, a2⟩ := h1 s1 hr1 hk1
  rw [hp.ifc 0] at a1
  refine ⟨?_, fun hd => ?_⟩
  · rw [hp.recv 0]
    exact Nat.le_trans (hmono _ _ l1) a1
  · have hd2 : s2.g.ph.sinkPh 0 = .doneBySrc := by rw [← hgh.sink 0]; exact hd
    rcases l2 hd2 with he | hle
    · exact Nat.le_trans (hmono _ _ (Dle.to_none _)) (a2 (toSrc_ended.1 (hgh.ifc ▸ he)))
    · exact Nat.le_trans (hmono _ _ hle) a1

end Compose


/-! ## Part 3: `from_iter` -/
section FromIterCost
variable {ι α' : Type}

theorem fi_nexts_mono {next : ι → Option (Int × ι)} {it0 : ι} {a b : Sys (FromIter.St ι Int) FromIter.Loc α' Int}
    (h : OStep (FromIter.machine α' next it0) a b) : a.st.nexts ≤ b.st.nexts := by
  cases h with
  | @tau st l stk g tr s' l' hst =>
    cases l <;> simp only [FromIter.machine, FromIter.step] at hst
    case done => simp at hst
    case sub0 => simp at hst
    case t0 u => split at hst <;> simp at hst; obtain ⟨rfl, _⟩ := hst; exact Nat.le_refl _
    case t1 u => cases u <;> simp at hst <;> obtain ⟨rfl, _⟩ := hst <;> exact Nat.le_refl _
    case pl1 => split at hst <;> simp at hst; obtain ⟨rfl, _⟩ := hst; exact Nat.le_refl _
    case pl2 => split at hst <;> simp at hst; obtain ⟨rfl, _⟩ := hst; exact Nat.le_refl _
    case l0 => simp at hst; obtain ⟨rfl, _⟩ := hst; exact Nat.le_refl _
    case w0 => split at hst <;> simp at hst <;> obtain ⟨rfl, _⟩ := hst <;> exact Nat.le_refl _
    case w1 => split at hst <;> simp at hst <;> obtain ⟨rfl, _⟩ := hst <;> exact Nat.le_refl _
    case w2 => simp at hst; obtain ⟨rfl, _⟩ := hst; exact Nat.le_refl _
    case w3 => split at hst <;> simp at hst <;> obtain ⟨rfl, _⟩ := hst <;> exact Nat.le_succ _
    case w4 => split at hst; simp at hst; split at hst <;> simp at hst
    case lend => simp at hst; obtain ⟨rfl, _⟩ := hst; exact Nat.le_refl _
  | @call st l stk g tr o s' l' hst =>
    cases l <;> simp only [FromIter.machine, FromIter.step] at hst
    case sub0 => simp at hst; obtain ⟨_, rfl, _⟩ := hst; exact Nat.le_refl _
    case w4 =>
      split at hst
      · simp at hst; obtain ⟨_, rfl, _⟩ := hst; exact Nat.le_refl _
      · split at hst <;> simp at hst
        obtain ⟨_, rfl, _⟩ := hst; exact Nat.le_refl _
    all_goals first | (simp at hst; done) | (split at hst <;> simp at hst; done) | (cases ‹Up› <;> simp at hst; done)
  | ret _ => exact Nat.le_refl _
  | panic _ => exact Nat.le_refl _

theorem fi_nexts_advance (next : ι → Option (Int × ι)) (it0 : ι) (n : Nat) (s : Sys (FromIter.St ι Int) FromIter.Loc α' Int) :
    s.st.nexts ≤ (advance (FromIter.machine α' next it0) n s).st.nexts := by
  induction n generalizing s with
  | zero => exact Nat.le_refl _
  | succ n ih =>
    simp only [advance]
    cases h : opStep (FromIter.machine α' next it0) s with
    | none => exact Nat.le_refl _
    | some s' => exact Nat.le_trans (fi_nexts_mono (oStep_of_opStep h)) (ih s')

/-- `from_iter` never advances the iterator more than `xs.length + 1` times -/
theorem fi_nexts_le (next : ι → Option (Int × ι)) (it0 : ι) (xs : List Int) (hx : Closed.Unfolds next it0 xs) :
    ∀ s, SReach (FromIter.machine α' next it0) s → s.st.nexts ≤ xs.length + 1 := by
  intro s hs
  obtain ⟨n, hn⟩ := reach_runs_into_inv (FromIter.machine α' next it0) anyEnv (FromIterFun.FInv next it0) FromIterFun.finv_init
    FromIterFun.finv_turn (fun s s' m h he _ => FromIterFun.finv_step next it0 s s' m h he) s hs
  refine Nat.le_trans (fi_nexts_advance next it0 n s) ?_
  obtain ⟨_, hT⟩ := hn
  rw [hT.nexts]
  have h1 : (recvData 0 (advance (FromIter.machine α' next it0) n s).tr).length ≤ xs.length := by
    have := iterList_prefix hx (recvData 0 (advance (FromIter.machine α' next it0) n s).tr).length
    rw [← hT.items] at this
    exact this.length_le
  have h2 := hT.fin
  split at h2 <;> omega

end FromIterCost


namespace FromIterJ
variable {ι α' : Type}

def Fl (d : Nat) (st : FromIter.St ι Int) : List (Frame FromIter.Loc Int) → Prop
  | .run (.t0 .pull) :: _ => st.gotPull = true ∨ st.nexts + 1 ≤ d
  | .run (.t1 .pull) :: _ => st.gotPull = true ∨ st.nexts + 1 ≤ d
  | .run .w1 :: _ => st.gotPull = true
  | .run .w2 :: _ => st.gotPull = true
  | .run .w3 :: _ => st.nexts + 1 ≤ d ∧ st.gotPull = false
  | _ => True

structure K (d : Nat) (s : Sys (FromIter.St ι Int) FromIter.Loc α' Int) : Prop where
  le : s.st.nexts + (if s.st.gotPull then 1 else 0) ≤ d
  fl : Fl d s.st s.stack

theorem fl_turn {d : Nat} {st : FromIter.St ι Int} {stk : List (Frame FromIter.Loc Int)}
    (h : ∀ f ∈ stk, ∃ o l, f = Frame.wait o l) : Fl d st stk := by
  cases stk with
  | nil => trivial
  | cons f r => obtain ⟨o, l, rfl⟩ := h f List.mem_cons_self; trivial

macro "jstp" h:ident : tactic =>
  `(tactic| first
      | (simp [FromIter.machine, FromIter.step] at $h:ident; done)
      | (simp [FromIter.machine, FromIter.step] at $h:ident; split at $h:ident <;> simp at $h:ident; done)
      | (simp [FromIter.machine, FromIter.step] at $h:ident; split at $h:ident <;> (try split at $h:ident) <;> simp at $h:ident; done))

/-- under a sink that obeys the demand `some d`: the iterator has been advanced at most `d` times, counting a `Pull` not yet used -/
theorem K_reach (next : ι → Option (Int × ι)) (it0 : ι) (d : Nat) :
    ∀ s, SReach (FromIter.machine α' next it0) s → DemOk (some d) (sinkEvs s.tr) → K d s := by
  apply reach_ind
  · intro _; exact ⟨by simp [Sys.init, FromIter.machine], trivial⟩
  · intro a b ha ih hstep
    cases hstep with
    | @tau st l stk g tr s' l' hst =>
      intro hC
      obtain ⟨h1, h2⟩ := ih hC
      simp only at h1 h2 ⊢
      cases l with
      | t0 u =>
        simp [FromIter.machine, FromIter.step] at hst
        split at hst <;> simp at hst
        obtain ⟨rfl, rfl⟩ := hst
        exact ⟨h1, by cases u <;> first | exact h2 | trivial⟩
      | t1 u =>
        cases u with
        | pull =>
          simp [FromIter.machine, FromIter.step] at hst
          obtain ⟨rfl, rfl⟩ := hst
          simp only [Fl] at h2
          refine ⟨?_, trivial⟩
          simp only [if_true]
          rcases h2 with h2 | h2
          · simpa [h2] using h1
          · exact h2
        | term => simp [FromIter.machine, FromIter.step] at hst; obtain ⟨rfl, rfl⟩ := hst; exact ⟨h1, trivial⟩
        | err e => simp [FromIter.machine, FromIter.step] at hst; obtain ⟨rfl, rfl⟩ := hst; exact ⟨h1, trivial⟩
      | pl1 =>
        simp [FromIter.machine, FromIter.step] at hst
        split at hst <;> simp at hst
        obtain ⟨rfl, rfl⟩ := hst
        exact ⟨h1, trivial⟩
      | pl2 =>
        simp [FromIter.machine, FromIter.step] at hst
        split at hst <;> simp at hst
        obtain ⟨rfl, rfl⟩ := hst
        exact ⟨h1, trivial⟩
      | l0 => simp [FromIter.machine, FromIter.step] at hst; obtain ⟨rfl, rfl⟩ := hst; exact ⟨h1, trivial⟩
      | w0 =>
        by_cases hg : st.gotPull = true
        · simp [FromIter.machine, FromIter.step, hg] at hst
          obtain ⟨rfl, rfl⟩ := hst
          exact ⟨h1, hg⟩
        · simp [FromIter.machine, FromIter.step, hg] at hst
          obtain ⟨rfl, rfl⟩ := hst
          exact ⟨h1, trivial⟩
      | w1 =>
        simp [FromIter.machine, FromIter.step] at hst
        split at hst <;> simp at hst <;> obtain ⟨rfl, rfl⟩ := hst
        · exact ⟨h1, by simpa [Fl] using h2⟩
        · exact ⟨h1, trivial⟩
      | w2 =>
        simp [FromIter.machine, FromIter.step] at hst
        obtain ⟨rfl, rfl⟩ := hst
        simp only [Fl] at h2
        simp only [h2, if_true] at h1
        exact ⟨by simp; exact Nat.le_of_succ_le h1, h1, rfl⟩
      | w3 =>
        simp only [Fl] at h2
        simp [FromIter.machine, FromIter.step] at hst
        split at hst <;> simp at hst <;> obtain ⟨rfl, rfl⟩ := hst
        · refine ⟨?_, trivial⟩
          simp only [h2.2, Bool.false_eq_true, if_false]; exact h2.1
        · refine ⟨?_, trivial⟩
          simp only [h2.2, Bool.false_eq_true, if_false]; exact h2.1
      | lend => simp [FromIter.machine, FromIter.step] at hst; obtain ⟨rfl, rfl⟩ := hst; exact ⟨h1, trivial⟩
      | done => jstp hst
      | sub0 => jstp hst
      | w4 => jstp hst
    | @call st l stk g tr o s' l' hst =>
      intro hC
      obtain ⟨h1, h2⟩ := ih hC.tail
      simp only at h1 h2 ⊢
      cases l with
      | sub0 =>
        simp [FromIter.machine, FromIter.step] at hst
        obtain ⟨rfl, rfl, rfl⟩ := hst
        exact ⟨h1, trivial⟩
      | w4 =>
        simp [FromIter.machine, FromIter.step] at hst
        split at hst
        · simp at hst
          obtain ⟨rfl, rfl, rfl⟩ := hst
          exact ⟨h1, trivial⟩
        · split at hst <;> simp at hst
          obtain ⟨rfl, rfl, rfl⟩ := hst
          exact ⟨h1, trivial⟩
      | done => jstp hst
      | t0 u => jstp hst
      | t1 u => cases u <;> jstp hst
      | pl1 => jstp hst
      | pl2 => jstp hst
      | l0 => jstp hst
      | w0 => jstp hst
      | w1 => jstp hst
      | w2 => jstp hst
      | w3 => jstp hst
      | lend => jstp hst
    | @ret st l stk g tr hst =>
      intro hC
      obtain ⟨h1, h2⟩ := ih hC.tail
      exact ⟨h1, fl_turn (pop_turn _ ha)⟩
    | panic hst =>
      intro hC
      obtain ⟨h1, h2⟩ := ih hC.tail
      exact ⟨h1, fl_turn (pop_turn _ ha)⟩
  · intro a b m ha ih hstep
    cases hstep with
    | @call st stk g tr c i hc hl =>
      intro hC
      obtain ⟨h1, h2⟩ := ih hC.tail
      simp only at h1 h2 ⊢
      obtain ⟨⟨_, _, hsrc, hoths, hm⟩, hT⟩ := FromIterFun.finv_of_reach next it0 _ ha ⟨rfl, by simp [hc]⟩
      simp only at hsrc hoths hm hT
      cases i with
      | subscribe k => exact ⟨h1, by simp [Fl, FromIter.machine, FromIter.enter]⟩
      | sinkUp k u =>
        have hlv := legal_sinkUp hl
        have hk : k = 0 := by
          by_cases hk : k = 0
          · exact hk
          · rw [hoths k hk] at hlv; cases hlv
        subst hk
        cases u with
        | pull =>
          refine ⟨h1, ?_⟩
          simp only [Fl, FromIter.machine, FromIter.enter]
          right
          have hw : (recvData 0 tr).length < d := by
            have h0 : DemOk (some d) (SinkEv.up 0 Up.pull :: sinkEvs tr) := hC
            have := h0.1 rfl
            simpa [wants, ← recvData_eq] using this
          have hrd : st.resDone = false := by
            cases hm with
            | live0 _ _ h => exact h
            | live1 _ _ h => exact h
            | idle h => rw [h] at hlv; cases hlv
            | self0 h => rw [h] at hlv; cases hlv
            | self1 h => rw [h] at hlv; cases hlv
            | src0 h => rw [h] at hlv; cases hlv
            | src1 h => rw [h] at hlv; cases hlv
          have hf := hT.fin
          rw [hrd] at hf
          have hn := hT.nexts
          simp at hf
          omega
        | term => exact ⟨h1, by simp [Fl, FromIter.machine, FromIter.enter]⟩
        | err e => exact ⟨h1, by simp [Fl, FromIter.machine, FromIter.enter]⟩
      | srcGreet j => have := legal_srcGreet hl; rw [hsrc j] at this; cases this
      | srcDown j dd => have := legal_srcDown hl; rw [hsrc j] at this; cases this
    | @ret st stk g tr o l hl =>
      intro hC
      obtain ⟨h1, h2⟩ := ih hC.tail
      simp only at h1 h2 ⊢
      have hfr := (FromIterK.K_reach next it0 _ ha rfl).1
      refine ⟨h1, ?_⟩
      rcases hfr _ List.mem_cons_self o l rfl with rfl | rfl | rfl <;> trivial

end FromIterJ

section FromIterHead
variable {ι α' : Type}

/-- **`from_iter`, upper bound**: under a sink that obeys `dem`, at most `(sem (.src xs) dem).2` advances -/
theorem FromIter.headUp (next : ι → Option (Int × ι)) (it0 : ι) (xs : List Int) (hx : Closed.Unfolds next it0 xs) :
    HeadUp (FromIter.machine α' next it0) (fun st => st.nexts) (fun dem => (sem (.src xs) dem).2) := by
  intro dem s hs hd
  have h1 := fi_nexts_le next it0 xs hx s hs
  cases dem with
  | none => simpa [sem] using h1
  | some d =>
    have h2 := (FromIterJ.K_reach next it0 d s hs hd).le
    simp only [sem]
    split
    · simp only; split at h2 <;> omega
    · exact h1

/-- **`from_iter`, lower bound**: one advance per item delivered, one more for the terminal -/
theorem FromIter.headLow (next : ι → Option (Int × ι)) (it0 : ι) (xs : List Int) (hx : Closed.Unfolds next it0 xs) :
    HeadLow (FromIter.machine α' next it0) (fun st => st.nexts) (fun dem => (sem (.src xs) dem).2) := by
  intro s hs hstk
  have ht : EnvTurn s := ⟨(FromIter.fromIter_basicSafe next it0 s hs).2, by simp [hstk, ctxOf]⟩
  obtain ⟨⟨_, _, _, _, hm⟩, hT⟩ := FromIterFun.finv_of_reach next it0 s hs ht
  have hlen : (recvData 0 s.tr).length ≤ xs.length := by
    have := iterList_prefix hx (recvData 0 s.tr).length
    rw [← hT.items] at this
    exact this.length_le
  refine ⟨?_, fun hd => ?_⟩
  · simp only [sem, hlen, if_true]
    rw [hT.nexts]; exact Nat.le_add_right _ _
  · have hrd : s.st.resDone = true := by
      cases hm with
      | src0 _ _ h => exact h
      | src1 _ _ h => exact h
      | idle h => rw [h] at hd; cases hd
      | live0 h => rw [h] at hd; cases hd
      | live1 h => rw [h] at hd; cases hd
      | self0 h => rw [h] at hd; cases hd
      | self1 h => rw [h] at hd; cases hd
    have hall : recvData 0 s.tr = xs := by
      rw [hT.items]; exact iterList_complete hx _ _ hT.iter (hT.exh hrd)
    have hf := hT.fin
    simp only [hrd, if_true] at hf
    simp only [sem]
    rw [hT.nexts, hf, hall]; exact Nat.le_refl _

end FromIterHead


/-! ## Part 4: relays -/
section TraceTails
variable {α β : Type}

theorem pOkSrc_tail_ev {e : Ev α β} {tr : List (Ev α β)} (h : POkSrc 0 (srcEvs (e :: tr))) : POkSrc 0 (srcEvs tr) := by
  simp only [srcEvs] at h
  cases hs : srcEv e with
  | none => rw [hs] at h; exact h
  | some x => rw [hs] at h; exact h.2

theorem sentData_cons_prefix (e : Ev α β) (tr : List (Ev α β)) : sentData 0 tr <+: sentData 0 (e :: tr) := by
  cases e with
  | inp m =>
    cases m with
    | srcDown i d =>
      cases d with
      | data a =>
        by_cases hi : i = 0
        · subst hi; simp [sentData]
        · simp [sentData, hi]
      | term => simp [sentData]
      | err x => simp [sentData]
    | subscribe k => simp [sentData]
    | sinkUp k u => simp [sentData]
    | srcGreet i => simp [sentData]
  | out o => simp [sentData]
  | retE => simp [sentData]
  | retO => simp [sentData]
  | panic => simp [sentData]

/-- appending an event whose source-side view is not a `Pull` to upstream 0 -/
theorem demOkSrc_cons {dem : Demand} {e : Ev α β} {tr : List (Ev α β)} (h : DemOkSrc dem (srcEvs tr))
    (he : srcEv e = some (.up 0 .pull) → wants dem (sentData 0 tr).length) : DemOkSrc dem (srcEvs (e :: tr)) := by
  simp only [srcEvs]
  cases hs : srcEv e with
  | none => exact h
  | some x =>
    refine ⟨fun hx => ?_, h⟩
    subst hx
    rw [← sentData_eq]; exact he hs

end TraceTails

namespace RelayF
open RelayFun
variable {σ α β : Type}

/-- the input/output relation of a relay at EVERY reachable configuration: the datum being processed (`d0`) is not yet accounted for, the
datum about to be delivered (`emit`) is -/
def Fn (k : Relay.Kind σ α β) (st : Relay.St σ) (tr : List (Ev α β)) : List (Frame (Relay.Loc α β) β) → Prop
  | .run (.d0 a) :: _ => ∃ ins, sentData 0 tr = ins ++ [a] ∧ recvData 0 tr = xferOut k.xfer k.seed ins ∧
      st.priv = xferSt k.xfer k.seed ins
  | .run (.emit b) :: _ => recvData 0 tr ++ [b] = xferOut k.xfer k.seed (sentData 0 tr) ∧
      st.priv = xferSt k.xfer k.seed (sentData 0 tr)
  | .run (.fwd (.data _)) :: _ => False
  | _ => recvData 0 tr = xferOut k.xfer k.seed (sentData 0 tr) ∧ st.priv = xferSt k.xfer k.seed (sentData 0 tr)

theorem fn_generic {k : Relay.Kind σ α β} {st : Relay.St σ} {tr : List (Ev α β)} {stk : List (Frame (Relay.Loc α β) β)}
    (h : recvData 0 tr = xferOut k.xfer k.seed (sentData 0 tr) ∧ st.priv = xferSt k.xfer k.seed (sentData 0 tr))
    (hw : ∀ f ∈ stk, ∃ o l, f = Frame.wait o l) : Fn k st tr stk := by
  cases stk with
  | nil => exact h
  | cons f r => obtain ⟨o, l, rfl⟩ := hw f List.mem_cons_self; exact h

theorem fn_of_wait {k : Relay.Kind σ α β} {st : Relay.St σ} {tr : List (Ev α β)} {stk : List (Frame (Relay.Loc α β) β)}
    (h : Fn k st tr stk) (hw : ∀ f ∈ stk, ∃ o l, f = Frame.wait o l) :
    recvData 0 tr = xferOut k.xfer k.seed (sentData 0 tr) ∧ st.priv = xferSt k.xfer k.seed (sentData 0 tr) := by
  cases stk with
  | nil => exact h
  | cons f r => obtain ⟨o, l, rfl⟩ := hw f List.mem_cons_self; exact h

macro "rstp" h:ident : tactic =>
  `(tactic| first
      | (simp [Relay.machine, Relay.step] at $h:ident; done)
      | (simp [Relay.machine, Relay.step] at $h:ident; split at $h:ident <;> simp at $h:ident; done))

theorem Fn_reach (k : Relay.Kind σ α β) (hk : k.slotted = false → ∀ s a, (k.xfer s a).2 ≠ none) :
    ∀ s, SReach (Relay.machine k) s → Fn k s.st s.tr s.stack := by
  apply reach_ind
  · exact ⟨rfl, rfl⟩
  · intro a b ha ih hstep
    cases hstep with
    | @tau st l stk g tr s' l' hst =>
      simp only at ih ⊢
      cases l with
      | g0 =>
        simp [Relay.machine, Relay.step] at hst
        split at hst <;> simp at hst <;> obtain ⟨rfl, rfl⟩ := hst <;> exact ih
      | d0 x =>
        obtain ⟨ins, h1, h2, h3⟩ := ih
        simp only [Relay.machine, Relay.step] at hst
        split at hst
        · rename_i b hb
          simp only [Act.tau.injEq] at hst; obtain ⟨rfl, rfl⟩ := hst
          refine ⟨?_, ?_⟩
          · rw [h1, xferOut_append, ← h3, hb, h2]
          · rw [h1, xferSt_append, ← h3]
        · rename_i hb
          simp only [Act.tau.injEq] at hst; obtain ⟨rfl, rfl⟩ := hst
          refine ⟨?_, ?_⟩
          · rw [h1, xferOut_append, ← h3, hb, h2]; simp
          · rw [h1, xferSt_append, ← h3]
      | sub0 => rstp hst
      | done => rstp hst
      | g1 => rstp hst
      | emit y => rstp hst
      | repull => rstp hst
      | fwd d => rstp hst
      | u0 u => rstp hst
    | @call st l stk g tr o s' l' hst =>
      simp only at ih ⊢
      cases l with
      | sub0 => simp [Relay.machine, Relay.step] at hst; obtain ⟨rfl, rfl, rfl⟩ := hst; simpa [Fn, sentData, recvData] using ih
      | g1 => simp [Relay.machine, Relay.step] at hst; obtain ⟨rfl, rfl, rfl⟩ := hst; simpa [Fn, sentData, recvData] using ih
      | emit y =>
        simp [Relay.machine, Relay.step] at hst; obtain ⟨rfl, rfl, rfl⟩ := hst
        simpa [Fn, sentData, recvData] using ih
      | fwd d =>
        simp [Relay.machine, Relay.step] at hst; obtain ⟨rfl, rfl, rfl⟩ := hst
        cases d with
        | data x => exact ih.elim
        | term => simpa [Fn, sentData, recvData] using ih
        | err e => simpa [Fn, sentData, recvData] using ih
      | repull =>
        simp [Relay.machine, Relay.step] at hst
        split at hst <;> simp at hst
        obtain ⟨rfl, rfl, rfl⟩ := hst
        simpa [Fn, sentData, recvData] using ih
      | u0 u =>
        simp [Relay.machine, Relay.step] at hst
        split at hst <;> simp at hst
        obtain ⟨rfl, rfl, rfl⟩ := hst
        simpa [Fn, sentData, recvData] using ih
      | done => rstp hst
      | g0 => rstp hst
      | d0 x => rstp hst
    | @ret st l stk g tr hst =>
      simp only at ih ⊢
      have hw := pop_turn _ ha
      cases l with
      | done =>
        have : recvData 0 tr = xferOut k.xfer k.seed (sentData 0 tr) ∧ st.priv = xferSt k.xfer k.seed (sentData 0 tr) := ih
        exact fn_generic (by simpa [sentData, recvData] using this) hw
      | sub0 => rstp hst
      | g0 => rstp hst
      | g1 => rstp hst
      | d0 x => rstp hst
      | emit y => rstp hst
      | repull => rstp hst
      | fwd d => rstp hst
      | u0 u => rstp hst
    | @panic st l stk g tr m hst =>
      have := (Relay.relay_basicSafe k hk _ (reach_op ha (.panic hst))).2
      cases this
  · intro a b m ha ih hstep
    cases hstep with
    | @call st stk g tr c i hc hl =>
      simp only at ih ⊢
      have hgen := fn_of_wait ih (turn_all_waits _ ha hc)
      obtain ⟨_, _, hsrc, _, _⟩ := inv_at_turn (Relay.machine k) (Relay.Inv k) (Relay.inv_init k)
        (fun s hi => (Relay.inv_turn k s hi).1) (Relay.inv_step k hk) ha ⟨rfl, by simp [hc]⟩
      simp only at hsrc
      cases i with
      | subscribe j => simpa [Fn, Relay.machine, Relay.enter, sentData, recvData] using hgen
      | sinkUp j u => simpa [Fn, Relay.machine, Relay.enter, sentData, recvData] using hgen
      | srcGreet j => simpa [Fn, Relay.machine, Relay.enter, sentData, recvData] using hgen
      | srcDown j d =>
        have hj : j = 0 := by
          have := legal_srcDown hl
          by_cases hj : j = 0
          · exact hj
          · rw [hsrc j hj] at this; cases this
        subst hj
        cases d with
        | data x =>
          simp only [Fn, Relay.machine, Relay.enter]
          exact ⟨sentData 0 tr, by simp [sentData], by simpa [recvData] using hgen.1, hgen.2⟩
        | term => simpa [Fn, Relay.machine, Relay.enter, sentData, recvData] using hgen
        | err e => simpa [Fn, Relay.machine, Relay.enter, sentData, recvData] using hgen
    | @ret st stk g tr o l hl =>
      simp only at ih ⊢
      have hl' : l = .done := (RelayK.K_reach k _ ha rfl).1 _ List.mem_cons_self o l rfl
      subst hl'
      have : recvData 0 tr = xferOut k.xfer k.seed (sentData 0 tr) ∧ st.priv = xferSt k.xfer k.seed (sentData 0 tr) := ih
      simpa [Fn, sentData, recvData] using this

end RelayF


section RelayStage
open RelayFun
variable {σ α β : Type}

/-- **a relay pulls upstream only while it wants more**: once per `Pull` it receives, once per item it drops -/
theorem Relay.stageDem (k : Relay.Kind σ α β) (hk : k.slotted = false → ∀ s a, (k.xfer s a).2 ≠ none) (up : Demand → Demand)
    (ys : List α) (hnone : up none = none)
    (hup : ∀ d ins, ins <+: ys → (xferOut k.xfer k.seed ins).length < d → wants (up (some d)) ins.length) :
    StageDem (Relay.machine k) up ys := by
  intro dem
  apply reach_ind
  · intro _ _ _; trivial
  · intro a b ha ih hstep
    cases hstep with
    | tau hst => exact ih
    | @call st l stk g tr o s' l' hst =>
      intro hD hP hS
      have hD' := hD.tail
      have hP' := pOkSrc_tail_ev hP
      have hS' := (sentData_cons_prefix _ _).trans hS
      refine demOkSrc_cons (ih hD' hP' hS') (fun he => ?_)
      -- the event is a `Pull` to upstream 0: the handler is `u0 pull` or `repull`
      have ho : o = .srcUp 0 .pull := by
        cases o with
        | srcUp i u => simp [srcEv] at he; obtain ⟨rfl, rfl⟩ := he; rfl
        | subSrc i => simp [srcEv] at he
        | greet k' => simp [srcEv] at he
        | down k' d => simp [srcEv] at he
        | app b' => simp [srcEv] at he
      subst ho
      obtain ⟨_, _, hfl⟩ := RelayP.K_reach k hk _ ha rfl hP'
      have hfn := RelayF.Fn_reach k hk _ ha
      simp only at hfl hfn hD' hS'
      have hio : recvData 0 tr = xferOut k.xfer k.seed (sentData 0 tr) ∧ aP tr = true := by
        cases l with
        | repull => exact ⟨hfn.1, hfl⟩
        | u0 u =>
          simp [Relay.machine, Relay.step] at hst
          split at hst <;> simp at hst
          obtain ⟨rfl, _, _⟩ := hst
          exact ⟨hfn.1, hfl⟩
        | sub0 => simp [Relay.machine, Relay.step] at hst
        | done => simp [Relay.machine, Relay.step] at hst
        | g0 => simp [Relay.machine, Relay.step] at hst; split at hst <;> simp at hst
        | g1 => simp [Relay.machine, Relay.step] at hst
        | d0 x => simp [Relay.machine, Relay.step] at hst; split at hst <;> simp at hst
        | emit y => simp [Relay.machine, Relay.step] at hst
        | fwd d => simp [Relay.machine, Relay.step] at hst
      have hw := wants_of_lastPull hD' hio.2
      rw [← recvData_eq, hio.1] at hw
      cases dem with
      | none => rw [hnone]; trivial
      | some d => exact hup d _ hS' hw
    | @ret st l stk g tr hst =>
      intro hD hP hS
      exact demOkSrc_cons (ih hD.tail (pOkSrc_tail_ev hP) ((sentData_cons_prefix _ _).trans hS)) (fun he => by simp [srcEv] at he)
    | @panic st l stk g tr m hst =>
      intro hD hP hS
      exact demOkSrc_cons (ih hD.tail (pOkSrc_tail_ev hP) ((sentData_cons_prefix _ _).trans hS)) (fun he => by simp [srcEv] at he)
  · intro a b m ha ih hstep
    cases hstep with
    | @call st stk g tr c i hc hl =>
      intro hD hP hS
      exact demOkSrc_cons (ih hD.tail (pOkSrc_tail_ev hP) ((sentData_cons_prefix _ _).trans hS))
        (fun he => by cases i <;> simp [srcEv] at he)
    | @ret st stk g tr o l hl =>
      intro hD hP hS
      exact demOkSrc_cons (ih hD.tail (pOkSrc_tail_ev hP) ((sentData_cons_prefix _ _).trans hS)) (fun he => by simp [srcEv] at he)

/-- the lower-bound rule of a relay -/
theorem Relay.stageLow (k : Relay.Kind σ α β) (hk : k.slotted = false → ∀ s a, (k.xfer s a).2 ≠ none) (up : Demand → Demand)
    (ys : List α)
    (hlow : ∀ ins, ins <+: ys → Dle (up (some (xferOut k.xfer k.seed ins).length)) (some ins.length)) :
    StageLow (Relay.machine k) up ys := by
  intro s hs hstk hpre
  have ht : EnvTurn s := ⟨(Relay.relay_basicSafe k hk s hs).2, by simp [hstk, ctxOf]⟩
  refine ⟨?_, fun hd => .inl ?_⟩
  · rw [relay_io k hk s hs ht]; exact hlow _ hpre
  · obtain ⟨_, _, _, _, hm⟩ := inv_at_turn (Relay.machine k) (Relay.Inv k) (Relay.inv_init k)
      (fun s hi => (Relay.inv_turn k s hi).1) (Relay.inv_step k hk) hs ht
    cases hm with
    | m5 _ h2 => exact h2
    | m1 h1 => rw [h1] at hd; cases hd
    | m2 h1 => rw [h1] at hd; cases hd
    | m3 h1 => rw [h1] at hd; cases hd
    | m4 h1 => rw [h1] at hd; cases hd

end RelayStage


/-! ## Part 5: `take` -/
namespace TakeF
variable {α : Type}

abbrev Fm (α : Type) := Frame (Take.Loc α) α

/-- an item received and not yet counted -/
def inflight : List (Fm α) → Nat
  | .run (.d0 _) :: _ => 1
  | _ => 0

/-- an item counted and not yet delivered -/
def pendOut : List (Fm α) → Nat
  | .run (.d2 _ _) :: _ => 1
  | _ => 0

def Fl (max : Nat) (st : Take.St) (tr : List (Ev α α)) : List (Fm α) → Prop
  | .run (.d0 _) :: _ => 1 ≤ (sentData 0 tr).length
  | .run (.d1 _) :: _ => False
  | .run (.fwd (.data _)) :: _ => False
  | .run .p1 :: _ => st.taken < max
  | .run (.x0 u) :: _ => u ≠ .pull
  | .run (.x1 u) :: _ => u ≠ .pull
  | _ => True

/-- counting, at every reachable configuration: `taken` is `min max` of the items received, and the items delivered -/
structure K (max : Nat) (s : Sys Take.St (Take.Loc α) α α) : Prop where
  c2 : s.st.taken = min max ((sentData 0 s.tr).length - inflight s.stack)
  c3 : (recvData 0 s.tr).length + pendOut s.stack = s.st.taken
  fl : Fl max s.st s.tr s.stack

theorem fl_wait {max : Nat} {st : Take.St} {tr : List (Ev α α)} {stk : List (Fm α)} (h : ∀ f ∈ stk, ∃ o l, f = Frame.wait o l) :
    Fl max st tr stk ∧ inflight stk = 0 ∧ pendOut stk = 0 := by
  cases stk with
  | nil => exact ⟨trivial, rfl, rfl⟩
  | cons f r => obtain ⟨o, l, rfl⟩ := h f List.mem_cons_self; exact ⟨trivial, rfl, rfl⟩

macro "tstp" h:ident : tactic =>
  `(tactic| first
      | (simp [Take.machine, Take.step] at $h:ident; done)
      | (simp [Take.machine, Take.step] at $h:ident; split at $h:ident <;> simp at $h:ident; done))

theorem K_reach (max : Nat) : ∀ s, SReach (Take.machine α max) s → K max s := by
  apply reach_ind
  · exact ⟨by simp [Sys.init, Take.machine, inflight, sentData], rfl, trivial⟩
  · intro a b ha ih hstep
    cases hstep with
    | @tau st l stk g tr s' l' hst =>
      obtain ⟨h2, h3, hf⟩ := ih
      simp only at h2 h3 hf ⊢
      cases l with
      | greet0 =>
        simp [Take.machine, Take.step] at hst; obtain ⟨rfl, rfl⟩ := hst
        exact ⟨by simpa [inflight] using h2, by simpa [pendOut] using h3, trivial⟩
      | d0 x =>
        simp [Take.machine, Take.step] at hst
        split at hst <;> simp at hst
        obtain ⟨rfl, rfl⟩ := hst
        rename_i hlt
        simp only [Fl] at hf
        simp only [inflight, pendOut] at h2 h3
        refine ⟨?_, ?_, trivial⟩
        · show st.taken + 1 = min max ((sentData 0 tr).length - 0)
          omega
        · show (recvData 0 tr).length + 1 = st.taken + 1
          omega
      | d1 x => exact hf.elim
      | d3 t =>
        simp [Take.machine, Take.step] at hst
        split at hst <;> simp at hst
        obtain ⟨rfl, rfl⟩ := hst
        exact ⟨by simpa [inflight] using h2, by simpa [pendOut] using h3, trivial⟩
      | d3b =>
        simp [Take.machine, Take.step] at hst
        split at hst <;> simp at hst
        obtain ⟨rfl, rfl⟩ := hst
        exact ⟨by simpa [inflight] using h2, by simpa [pendOut] using h3, trivial⟩
      | d4 =>
        simp [Take.machine, Take.step] at hst; obtain ⟨rfl, rfl⟩ := hst
        exact ⟨by simpa [inflight] using h2, by simpa [pendOut] using h3, trivial⟩
      | p0 =>
        simp [Take.machine, Take.step] at hst
        split at hst <;> simp at hst
        obtain ⟨rfl, rfl⟩ := hst
        rename_i hlt
        exact ⟨by simpa [inflight] using h2, by simpa [pendOut] using h3, hlt⟩
      | x0 u =>
        simp [Take.machine, Take.step] at hst; obtain ⟨rfl, rfl⟩ := hst
        exact ⟨by simpa [inflight] using h2, by simpa [pendOut] using h3, hf⟩
      | sub0 => tstp hst
      | done => tstp hst
      | greet1 => tstp hst
      | d2 x t => tstp hst
      | d5 => tstp hst
      | d6 => tstp hst
      | fwd d => tstp hst
      | p1 => tstp hst
      | x1 u => tstp hst
    | @call st l stk g tr o s' l' hst =>
      obtain ⟨h2, h3, hf⟩ := ih
      simp only at h2 h3 hf ⊢
      cases l with
      | sub0 =>
        simp [Take.machine, Take.step] at hst; obtain ⟨rfl, rfl, rfl⟩ := hst
        exact ⟨by simpa [inflight, sentData] using h2, by simpa [pendOut, recvData] using h3, trivial⟩
      | greet1 =>
        simp [Take.machine, Take.step] at hst; obtain ⟨rfl, rfl, rfl⟩ := hst
        exact ⟨by simpa [inflight, sentData] using h2, by simpa [pendOut, recvData] using h3, trivial⟩
      | d2 x t =>
        simp [Take.machine, Take.step] at hst; obtain ⟨rfl, rfl, rfl⟩ := hst
        exact ⟨by simpa [inflight, sentData] using h2, by simpa [pendOut, recvData] using h3, trivial⟩
      | d5 =>
        simp [Take.machine, Take.step] at hst
        split at hst <;> simp at hst
        obtain ⟨rfl, rfl, rfl⟩ := hst
        exact ⟨by simpa [inflight, sentData] using h2, by simpa [pendOut, recvData] using h3, trivial⟩
      | d6 =>
        simp [Take.machine, Take.step] at hst; obtain ⟨rfl, rfl, rfl⟩ := hst
        exact ⟨by simpa [inflight, sentData] using h2, by simpa [pendOut, recvData] using h3, trivial⟩
      | fwd d =>
        simp [Take.machine, Take.step] at hst; obtain ⟨rfl, rfl, rfl⟩ := hst
        cases d with
        | data x => exact hf.elim
        | term => exact ⟨by simpa [inflight, sentData] using h2, by simpa [pendOut, recvData] using h3, trivial⟩
        | err e => exact ⟨by simpa [inflight, sentData] using h2, by simpa [pendOut, recvData] using h3, trivial⟩
      | p1 =>
        simp [Take.machine, Take.step] at hst
        split at hst <;> simp at hst
        obtain ⟨rfl, rfl, rfl⟩ := hst
        exact ⟨by simpa [inflight, sentData] using h2, by simpa [pendOut, recvData] using h3, trivial⟩
      | x1 u =>
        simp [Take.machine, Take.step] at hst
        split at hst <;> simp at hst
        obtain ⟨rfl, rfl, rfl⟩ := hst
        exact ⟨by simpa [inflight, sentData] using h2, by simpa [pendOut, recvData] using h3, trivial⟩
      | done => tstp hst
      | greet0 => tstp hst
      | d0 x => tstp hst
      | d1 x => tstp hst
      | d3 t => tstp hst
      | d3b => tstp hst
      | d4 => tstp hst
      | p0 => tstp hst
      | x0 u => tstp hst
    | @ret st l stk g tr hst =>
      obtain ⟨h2, h3, hf⟩ := ih
      simp only at h2 h3 hf ⊢
      obtain ⟨hw1, hw2, hw3⟩ := fl_wait (max := max) (st := st) (tr := Ev.retO :: tr) (pop_turn _ ha)
      refine ⟨?_, ?_, hw1⟩
      · show st.taken = min max ((sentData 0 (Ev.retO :: tr)).length - inflight stk)
        rw [hw2]
        cases l with
        | d0 x =>
          simp [Take.machine, Take.step] at hst
          simp only [Fl] at hf
          simp only [inflight] at h2
          simp only [sentData]; omega
        | done => simpa [inflight, sentData] using h2
        | d3 t => simpa [inflight, sentData] using h2
        | d3b => simpa [inflight, sentData] using h2
        | p0 => simpa [inflight, sentData] using h2
        | sub0 => tstp hst
        | greet0 => tstp hst
        | greet1 => tstp hst
        | d1 x => tstp hst
        | d2 x t => tstp hst
        | d4 => tstp hst
        | d5 => tstp hst
        | d6 => tstp hst
        | fwd d => tstp hst
        | p1 => tstp hst
        | x0 u => tstp hst
        | x1 u => tstp hst
      · show (recvData 0 (Ev.retO :: tr)).length + pendOut stk = st.taken
        rw [hw3]
        cases l with
        | d2 x t => tstp hst
        | _ => simpa [pendOut, recvData] using h3
    | @panic st l stk g tr m hst =>
      have := (Take.take_basicSafe max _ (reach_op ha (.panic hst))).2
      cases this
  · intro a b m ha ih hstep
    cases hstep with
    | @call st stk g tr c i hc hl =>
      obtain ⟨h2, h3, hf⟩ := ih
      simp only at h2 h3 hf ⊢
      obtain ⟨_, hw2, hw3⟩ := fl_wait (max := max) (st := st) (tr := tr) (turn_all_waits _ ha hc)
      rw [hw2] at h2; rw [hw3] at h3
      obtain ⟨_, _, _, hsrc, _, _⟩ := inv_at_turn (Take.machine α max) (Take.Inv max) (Take.inv_init max)
        (fun s hi => (Take.inv_turn max s hi).1) (Take.inv_step max) ha ⟨rfl, by simp [hc]⟩
      simp only at hsrc
      cases i with
      | subscribe k =>
        exact ⟨by simpa [inflight, sentData, Take.machine, Take.enter] using h2,
          by simpa [pendOut, recvData, Take.machine, Take.enter] using h3, by simp [Fl, Take.machine, Take.enter]⟩
      | sinkUp k u =>
        cases u <;> exact ⟨by simpa [inflight, sentData, Take.machine, Take.enter] using h2,
          by simpa [pendOut, recvData, Take.machine, Take.enter] using h3, by simp [Fl, Take.machine, Take.enter]⟩
      | srcGreet j =>
        exact ⟨by simpa [inflight, sentData, Take.machine, Take.enter] using h2,
          by simpa [pendOut, recvData, Take.machine, Take.enter] using h3, by simp [Fl, Take.machine, Take.enter]⟩
      | srcDown j d =>
        have hj : j = 0 := by
          have := legal_srcDown hl
          by_cases hj : j = 0
          · exact hj
          · rw [hsrc j hj] at this; cases this
        subst hj
        cases d with
        | data x =>
          exact ⟨by simpa [inflight, sentData, Take.machine, Take.enter] using h2,
            by simpa [pendOut, recvData, Take.machine, Take.enter] using h3, by simp [Fl, Take.machine, Take.enter, sentData]⟩
        | term =>
          exact ⟨by simpa [inflight, sentData, Take.machine, Take.enter] using h2,
            by simpa [pendOut, recvData, Take.machine, Take.enter] using h3, by simp [Fl, Take.machine, Take.enter]⟩
        | err e =>
          exact ⟨by simpa [inflight, sentData, Take.machine, Take.enter] using h2,
            by simpa [pendOut, recvData, Take.machine, Take.enter] using h3, by simp [Fl, Take.machine, Take.enter]⟩
    | @ret st stk g tr o l hl =>
      obtain ⟨h2, h3, hf⟩ := ih
      simp only at h2 h3 hf ⊢
      have hc := (TakeK.K_reach max _ ha rfl).2.2.1 _ List.mem_cons_self
      simp only [TakeK.FrOk] at hc
      cases l <;> simp [TakeK.ContOk] at hc <;>
        exact ⟨by simpa [inflight, sentData] using h2, by simpa [pendOut, recvData] using h3, trivial⟩

end TakeF


section TakeStage
variable {α : Type}

/-- the demand `take(max)` passes on -/
def takeUp (max : Nat) : Demand → Demand
  | none => some max
  | some d => some (min max d)

/-- **`take` forwards a `Pull` only while it has let fewer than `max` items through** (and the sink wants more) -/
theorem Take.stageDem (max : Nat) (ys : List α) : StageDem (Take.machine α max) (takeUp max) ys := by
  intro dem
  apply reach_ind
  · intro _ _ _; trivial
  · intro a b ha ih hstep
    cases hstep with
    | tau hst => exact ih
    | @call st l stk g tr o s' l' hst =>
      intro hD hP hS
      have hD' := hD.tail
      have hP' := pOkSrc_tail_ev hP
      have hS' := (sentData_cons_prefix _ _).trans hS
      refine demOkSrc_cons (ih hD' hP' hS') (fun he => ?_)
      have ho : o = .srcUp 0 .pull := by
        cases o with
        | srcUp i u => simp [srcEv] at he; obtain ⟨rfl, rfl⟩ := he; rfl
        | subSrc i => simp [srcEv] at he
        | greet k' => simp [srcEv] at he
        | down k' d => simp [srcEv] at he
        | app b' => simp [srcEv] at he
      subst ho
      obtain ⟨_, _, hfl⟩ := TakeP.K_reach max _ ha rfl hP'
      obtain ⟨h2, h3, hf⟩ := TakeF.K_reach max _ ha
      simp only at hfl h2 h3 hf hD'
      have hl : l = .p1 := by
        cases l with
        | p1 => rfl
        | x1 u =>
          simp [Take.machine, Take.step] at hst
          split at hst <;> simp at hst
          obtain ⟨rfl, _, _⟩ := hst
          exact absurd rfl hf
        | d5 => simp [Take.machine, Take.step] at hst; split at hst <;> simp at hst
        | sub0 => simp [Take.machine, Take.step] at hst
        | done => simp [Take.machine, Take.step] at hst
        | greet0 => simp [Take.machine, Take.step] at hst
        | greet1 => simp [Take.machine, Take.step] at hst
        | d0 x => simp [Take.machine, Take.step] at hst; split at hst <;> simp at hst
        | d1 x => simp [Take.machine, Take.step] at hst
        | d2 x t => simp [Take.machine, Take.step] at hst
        | d3 t => simp [Take.machine, Take.step] at hst; split at hst <;> simp at hst
        | d3b => simp [Take.machine, Take.step] at hst; split at hst <;> simp at hst
        | d4 => simp [Take.machine, Take.step] at hst
        | d6 => simp [Take.machine, Take.step] at hst
        | fwd d => simp [Take.machine, Take.step] at hst
        | p0 => simp [Take.machine, Take.step] at hst; split at hst <;> simp at hst
        | x0 u => simp [Take.machine, Take.step] at hst
      subst hl
      simp only [TakeF.Fl, TakeF.inflight, TakeF.pendOut, TakeP.Fl] at hf h2 h3 hfl
      have hw := wants_of_lastPull hD' hfl
      rw [← recvData_eq] at hw
      cases dem with
      | none => simp only [takeUp, wants]; omega
      | some d => simp only [takeUp, wants] at hw ⊢; omega
    | @ret st l stk g tr hst =>
      intro hD hP hS
      exact demOkSrc_cons (ih hD.tail (pOkSrc_tail_ev hP) ((sentData_cons_prefix _ _).trans hS)) (fun he => by simp [srcEv] at he)
    | @panic st l stk g tr m hst =>
      intro hD hP hS
      exact demOkSrc_cons (ih hD.tail (pOkSrc_tail_ev hP) ((sentData_cons_prefix _ _).trans hS)) (fun he => by simp [srcEv] at he)
  · intro a b m ha ih hstep
    cases hstep with
    | @call st stk g tr c i hc hl =>
      intro hD hP hS
      exact demOkSrc_cons (ih hD.tail (pOkSrc_tail_ev hP) ((sentData_cons_prefix _ _).trans hS))
        (fun he => by cases i <;> simp [srcEv] at he)
    | @ret st stk g tr o l hl =>
      intro hD hP hS
      exact demOkSrc_cons (ih hD.tail (pOkSrc_tail_ev hP) ((sentData_cons_prefix _ _).trans hS)) (fun he => by simp [srcEv] at he)

/-- the lower-bound rule of `take` -/
theorem Take.stageLow (max : Nat) (ys : List α) : StageLow (Take.machine α max) (takeUp max) ys := by
  intro s hs hstk hpre
  have ht : EnvTurn s := ⟨(Take.take_basicSafe max s hs).2, by simp [hstk, ctxOf]⟩
  obtain ⟨h2, h3, _⟩ := TakeF.K_reach max s hs
  rw [hstk] at h2 h3
  simp only [TakeF.inflight, TakeF.pendOut] at h2 h3
  refine ⟨?_, fun hd => ?_⟩
  · simp only [takeUp, Dle]; omega
  · obtain ⟨_, _, _, _, _, hm⟩ := inv_at_turn (Take.machine α max) (Take.Inv max) (Take.inv_init max)
      (fun s hi => (Take.inv_turn max s hi).1) (Take.inv_step max) hs ht
    cases hm with
    | m5 _ h => exact .inl h
    | m7 _ _ hfin =>
      right
      obtain ⟨_, hf, _, _⟩ := TakeK.K_reach max s hs ht.1
      rcases hf hfin with h | h
      · simp only [takeUp, Dle]; omega
      · rw [hd] at h; cases h
    | m1 h => rw [h] at hd; cases hd
    | m2 h => rw [h] at hd; cases hd
    | m3 h => rw [h] at hd; cases hd
    | m4 h => rw [h] at hd; cases hd
    | m6 h => rw [h] at hd; cases hd

end TakeStage

end ComposeCost
end Cb

#print axioms Cb.ComposeCost.HeadUp.compose
#print axioms Cb.ComposeCost.HeadLow.compose
#print axioms Cb.ComposeCost.FromIter.headUp
#print axioms Cb.ComposeCost.FromIter.headLow
#print axioms Cb.ComposeCost.Relay.stageDem
#print axioms Cb.ComposeCost.Relay.stageLow
#print axioms Cb.ComposeCost.Take.stageDem
#print axioms Cb.ComposeCost.Take.stageLow
