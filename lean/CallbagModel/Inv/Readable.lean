import CallbagModel.Inv.TraceGhost
/-!
# Readable, monitor-free forms of C01, C02, C03 (generic: every machine, every restriction of the environment)

The project states C01–C03 through the ghost monitor: "no violation with `Viol.prop = 1 / 2 / 3` is recorded".  Here the
monitor is connected to statements about the boundary trace alone, by positions in chronological order:

* `GreetFirstOnce k tr`     (C01) sink `k` is greeted at most once and every delivery to it comes after its greeting
* `TerminalFinal k tr`      (C02) nothing is delivered to sink `k` after a terminal message
* `DisposalRespected k tr`  (C03) no delivery to sink `k` begins after it sent Terminate / Error on its talkback

`GreetFirstOnce` follows from "no prop-1 violation" alone and `DisposalRespected` from "no prop-3 violation" alone.
`TerminalFinal` does NOT follow from "no prop-2 violation" alone: the monitor classifies a delivery by the phase of the sink,
so a terminal sent to a sink that is not greeted yet (prop 1) or that has disposed (prop 3) leaves the phase unchanged and
later deliveries are again classified as prop 1 / prop 3, never as prop 2 (`terminalFinal_needs_C01`,
`terminalFinal_needs_C03` are machine-checked counterexamples).  The corrected statement `terminalFinal_of_clean` asks for
no violation of props 1, 2 and 3.

Method: one invariant `RDp k ph tr` relating the phase of sink `k` to the (newest-first) trace, in a recursion-friendly
"every suffix" form, preserved by every event (`RDp.step`); the positional statements are then read off by general list
lemmas about `reverse` and `getElem?`.
-/
namespace Cb

variable {St Loc α β : Type}

/-! ## the readable statements -/

/-- chronological position-based reading: `tr.reverse[p]` is the `p`-th event -/
def chronAt (tr : List (Ev α β)) (p : Nat) : Option (Ev α β) := tr.reverse[p]?

/-- C01: a sink is greeted at most once, and every delivery to it comes after its greeting -/
def GreetFirstOnce (k : Nat) (tr : List (Ev α β)) : Prop :=
  (∀ p q, chronAt tr p = some (.out (.greet k)) → chronAt tr q = some (.out (.greet k)) → p = q) ∧
  (∀ p d, chronAt tr p = some (.out (.down k d)) → ∃ q, q < p ∧ chronAt tr q = some (.out (.greet k)))

/-- C02: at most one terminal message per sink, and nothing is delivered to it afterwards -/
def TerminalFinal (k : Nat) (tr : List (Ev α β)) : Prop :=
  ∀ p d, chronAt tr p = some (.out (.down k d)) → isFinal d = true →
    ∀ q d', p < q → chronAt tr q ≠ some (.out (.down k d'))

/-- C03: once sink `k` has sent Terminate / Error on its talkback, no further delivery to it BEGINS -/
def DisposalRespected (k : Nat) (tr : List (Ev α β)) : Prop :=
  ∀ p u, chronAt tr p = some (.inp (.sinkUp k u)) → u ≠ .pull →
    ∀ q d, p < q → chronAt tr q ≠ some (.out (.down k d))

/-! ## event classifiers -/

def isGreetOut (k : Nat) : Ev α β → Bool
  | .out (.greet k') => k' == k
  | _ => false

def isDownOut (k : Nat) : Ev α β → Bool
  | .out (.down k' _) => k' == k
  | _ => false

def isDisposeIn (k : Nat) : Ev α β → Bool
  | .inp (.sinkUp k' .term) => k' == k
  | .inp (.sinkUp k' (.err _)) => k' == k
  | _ => false

theorem isGreetOut_eq {k : Nat} {e : Ev α β} (h : isGreetOut k e = true) : e = .out (.greet k) := by
  unfold isGreetOut at h
  split at h
  · simp only [beq_iff_eq] at h; rw [h]
  · cases h

/-! ## "every suffix" predicates on newest-first traces -/

/-- `P e t` holds for every suffix `e :: t` of the trace -/
def AllSuf (P : Ev α β → List (Ev α β) → Prop) : List (Ev α β) → Prop
  | [] => True
  | e :: t => P e t ∧ AllSuf P t

theorem AllSuf.of_append {P : Ev α β → List (Ev α β) → Prop} :
    ∀ (l : List (Ev α β)) {t : List (Ev α β)}, AllSuf P (l ++ t) → AllSuf P t
  | [], _, h => h
  | _ :: l, _, h => AllSuf.of_append l h.2

theorem AllSuf.at {P : Ev α β → List (Ev α β) → Prop} {l : List (Ev α β)} {e : Ev α β} {t : List (Ev α β)}
    (h : AllSuf P (l ++ e :: t)) : P e t := (AllSuf.of_append l h).1

/-! ## cleanliness of the monitor, per property -/

def C1 (ph : Ph) : Prop := ∀ v ∈ ph.viols, v.prop ≠ 1
def C3 (ph : Ph) : Prop := ∀ v ∈ ph.viols, v.prop ≠ 3
def C123 (ph : Ph) : Prop := ∀ v ∈ ph.viols, v.prop ≠ 1 ∧ v.prop ≠ 2 ∧ v.prop ≠ 3

@[simp] theorem Ph.sinkPh_flag (ph : Ph) (v : Viol) (k : Nat) : (ph.flag v).sinkPh k = ph.sinkPh k := rfl
theorem C1_flag (ph : Ph) (v : Viol) : C1 (ph.flag v) ↔ v.prop ≠ 1 ∧ C1 ph := by simp [C1]
theorem C3_flag (ph : Ph) (v : Viol) : C3 (ph.flag v) ↔ v.prop ≠ 3 ∧ C3 ph := by simp [C3]
theorem C123_flag (ph : Ph) (v : Viol) : C123 (ph.flag v) ↔ (v.prop ≠ 1 ∧ v.prop ≠ 2 ∧ v.prop ≠ 3) ∧ C123 ph := by simp [C123]

theorem C1.mono {ph ph' : Ph} (hv : ∀ v ∈ ph.viols, v ∈ ph'.viols) (h : C1 ph') : C1 ph := fun v hm => h v (hv v hm)
theorem C3.mono {ph ph' : Ph} (hv : ∀ v ∈ ph.viols, v ∈ ph'.viols) (h : C3 ph') : C3 ph := fun v hm => h v (hv v hm)
theorem C123.mono {ph ph' : Ph} (hv : ∀ v ∈ ph.viols, v ∈ ph'.viols) (h : C123 ph') : C123 ph := fun v hm => h v (hv v hm)

/-! ## the invariant: the phase of sink `k` against the trace -/

/-- the phase of sink `k` is what the trace (newest first) says, and every delivery to `k` found the trace before it in order.
Every clause that depends on the operator behaving is guarded by the cleanliness of the monitor NOW (violations are never
removed, so nothing has to be threaded backwards). -/
structure RDp (k : Nat) (ph : Ph) (tr : List (Ev α β)) : Prop where
  g1 : C1 ph → tr.countP (isGreetOut k) = if ph.sinkPh k = .idle ∨ ph.sinkPh k = .subscribed then 0 else 1
  s1 : C1 ph → AllSuf (fun e t => isDownOut k e = true → 1 ≤ t.countP (isGreetOut k)) tr
  g2 : C123 ph → ∀ e ∈ tr, isFinalOut k e = true → ph.sinkPh k = .doneBySrc
  s2 : C123 ph → AllSuf (fun e t => isDownOut k e = true → ∀ e' ∈ t, isFinalOut k e' = false) tr
  g3 : ∀ e ∈ tr, isDisposeIn k e = true → ph.sinkPh k = .doneBySelf
  s3 : C3 ph → AllSuf (fun e t => isDownOut k e = true → ∀ e' ∈ t, isDisposeIn k e' = false) tr

theorem RDp.init (k : Nat) : RDp k ({} : Ph) ([] : List (Ev α β)) := by
  constructor <;> simp [AllSuf]

/-- one event: the obligations are propositional facts about the old phase, the new phase and the event -/
theorem RDp.step {k : Nat} {ph ph' : Ph} {tr : List (Ev α β)} (h : RDp k ph tr) (e : Ev α β)
    (hv : ∀ v ∈ ph.viols, v ∈ ph'.viols)
    (o1 : C1 ph' → (if isGreetOut k e = true then 1 else 0) + (if ph.sinkPh k = .idle ∨ ph.sinkPh k = .subscribed then 0 else 1)
        = (if ph'.sinkPh k = .idle ∨ ph'.sinkPh k = .subscribed then 0 else 1))
    (o1' : C1 ph' → isDownOut k e = true → ¬ (ph.sinkPh k = .idle ∨ ph.sinkPh k = .subscribed))
    (o2 : C123 ph' → (isFinalOut k e = true ∨ ph.sinkPh k = .doneBySrc) → ph'.sinkPh k = .doneBySrc)
    (o2' : C123 ph' → isDownOut k e = true → ph.sinkPh k ≠ .doneBySrc)
    (o3 : (isDisposeIn k e = true ∨ ph.sinkPh k = .doneBySelf) → ph'.sinkPh k = .doneBySelf)
    (o3' : C3 ph' → isDownOut k e = true → ph.sinkPh k ≠ .doneBySelf) :
    RDp k ph' (e :: tr) := by
  refine ⟨?_, ?_, ?_, ?_, ?_, ?_⟩
  · intro c
    have ih := h.g1 (c.mono hv)
    rw [List.countP_cons, ih, ← o1 c]; exact Nat.add_comm _ _
  · intro c
    refine ⟨fun hd => ?_, h.s1 (c.mono hv)⟩
    have ih := h.g1 (c.mono hv)
    rw [ih, if_neg (o1' c hd)]; exact Nat.le_refl _
  · intro c e' he' hf
    rcases List.mem_cons.1 he' with rfl | he'
    · exact o2 c (.inl hf)
    · exact o2 c (.inr (h.g2 (c.mono hv) e' he' hf))
  · intro c
    refine ⟨fun hd e' he' => ?_, h.s2 (c.mono hv)⟩
    cases hf : isFinalOut k e' with
    | false => rfl
    | true => exact absurd (h.g2 (c.mono hv) e' he' hf) (o2' c hd)
  · intro e' he' hf
    rcases List.mem_cons.1 he' with rfl | he'
    · exact o3 (.inl hf)
    · exact o3 (.inr (h.g3 e' he' hf))
  · intro c
    refine ⟨fun hd e' he' => ?_, h.s3 (c.mono hv)⟩
    cases hf : isDisposeIn k e' with
    | false => rfl
    | true => exact absurd (h.g3 e' he' hf) (o3' c hd)

/-- an event that does not concern sink `k` -/
theorem RDp.frame {k : Nat} {ph ph' : Ph} {tr : List (Ev α β)} (h : RDp k ph tr) (e : Ev α β)
    (hv : ∀ v ∈ ph.viols, v ∈ ph'.viols) (hph : ph'.sinkPh k = ph.sinkPh k)
    (h1 : isGreetOut k e = false) (h2 : isFinalOut k e = false) (h3 : isDisposeIn k e = false) (h4 : isDownOut k e = false) :
    RDp k ph' (e :: tr) := by
  apply h.step e hv <;> simp [h1, h2, h3, h4, hph]

theorem RDp.skip {k : Nat} {ph : Ph} {tr : List (Ev α β)} (h : RDp k ph tr) (e : Ev α β)
    (he : e = .retE ∨ e = .retO ∨ e = .panic) : RDp k ph (e :: tr) := by
  rcases he with rfl | rfl | rfl <;>
    exact h.frame _ (fun _ hm => hm) rfl (by simp [isGreetOut]) (by simp [isFinalOut]) (by simp [isDisposeIn]) (by simp [isDownOut])

/-- a legal call of the environment -/
theorem RDp.inp {sh : Shape} {k : Nat} {ph : Ph} {c : Ctx β} {tr : List (Ev α β)} (h : RDp k ph tr) (i : In α)
    (hl : legalIn sh ph c i = true) : RDp k (ph.onIn i) (.inp i :: tr) := by
  cases i with
  | subscribe k' =>
    have hk := legal_subscribe hl
    by_cases hkk : k = k'
    · subst hkk
      apply h.step (ph' := ph.onIn (.subscribe k)) _ (fun _ hm => hm) <;> simp [Ph.onIn, isGreetOut, isFinalOut, isDisposeIn, isDownOut, hk]
    · exact h.frame _ (fun _ hm => hm) (by simp [Ph.onIn, hkk]) (by simp [isGreetOut]) (by simp [isFinalOut])
        (by simp [isDisposeIn]) (by simp [isDownOut])
  | sinkUp k' u =>
    have hk := legal_sinkUp hl
    cases u with
    | pull =>
      exact h.frame _ (fun _ hm => hm) rfl (by simp [isGreetOut]) (by simp [isFinalOut]) (by simp [isDisposeIn]) (by simp [isDownOut])
    | term =>
      by_cases hkk : k = k'
      · subst hkk
        apply h.step (ph' := ph.onIn (.sinkUp k .term)) _ (fun _ hm => hm) <;> simp [Ph.onIn, isGreetOut, isFinalOut, isDisposeIn, isDownOut, hk]
      · have hkk' : ¬ k' = k := fun e => hkk e.symm
        exact h.frame _ (fun _ hm => hm) (by simp [Ph.onIn, hkk]) (by simp [isGreetOut]) (by simp [isFinalOut])
          (by simp [isDisposeIn, hkk']) (by simp [isDownOut])
    | err x =>
      by_cases hkk : k = k'
      · subst hkk
        apply h.step (ph' := ph.onIn (.sinkUp k (.err x))) _ (fun _ hm => hm) <;> simp [Ph.onIn, isGreetOut, isFinalOut, isDisposeIn, isDownOut, hk]
      · have hkk' : ¬ k' = k := fun e => hkk e.symm
        exact h.frame _ (fun _ hm => hm) (by simp [Ph.onIn, hkk]) (by simp [isGreetOut]) (by simp [isFinalOut])
          (by simp [isDisposeIn, hkk']) (by simp [isDownOut])
  | srcGreet j =>
    exact h.frame _ (fun _ hm => hm) rfl (by simp [isGreetOut]) (by simp [isFinalOut]) (by simp [isDisposeIn]) (by simp [isDownOut])
  | srcDown j d =>
    cases d <;>
      exact h.frame _ (fun _ hm => hm) rfl (by simp [isGreetOut]) (by simp [isFinalOut]) (by simp [isDisposeIn]) (by simp [isDownOut])

theorem mem_onOut_viols {ph : Ph} (o : Out β) : ∀ v ∈ ph.viols, v ∈ (ph.onOut o).viols := by
  obtain ⟨l, hl⟩ := ph_onOut_viols_suffix ph o
  intro v hm; rw [hl]; exact List.mem_append_right _ hm

/-- `onOut` does not touch the phase of sink `k` when the call is not to sink `k` -/
theorem sinkPh_onOut_other {ph : Ph} {k : Nat} (o : Out β) (h1 : isGreetOut (α := α) k (.out o) = false)
    (h4 : isDownOut (α := α) k (.out o) = false) : (ph.onOut o).sinkPh k = ph.sinkPh k := by
  cases o with
  | greet k' =>
    have hkk : ¬ k = k' := by intro e; subst e; simp [isGreetOut] at h1
    simp only [Ph.onOut]; split
    · simp [hkk]
    · rfl
  | down k' d =>
    have hkk : ¬ k = k' := by intro e; subst e; simp [isDownOut] at h4
    simp only [Ph.onOut]; split
    · split
      · simp [hkk]
      · rfl
    all_goals rfl
  | subSrc i =>
    simp only [Ph.onOut]; split
    · rfl
    · split <;> rfl
  | srcUp i u => cases u <;> (simp only [Ph.onOut]; split <;> rfl)
  | app b => rfl

/-- a call made by the operator -/
theorem RDp.out {k : Nat} {ph : Ph} {tr : List (Ev α β)} (h : RDp k ph tr) (o : Out β) :
    RDp k (ph.onOut o) (.out o :: tr) := by
  by_cases hg : isGreetOut (α := α) k (.out o) = true
  · -- greeting of sink `k`
    cases o with
    | greet k' =>
      have hkk : k' = k := by simpa [isGreetOut] using hg
      subst hkk
      by_cases hp : ph.sinkPh k' = .subscribed
      · apply h.step _ (mem_onOut_viols _) <;> simp [Ph.onOut, isGreetOut, isFinalOut, isDisposeIn, isDownOut, hp]
      · apply h.step _ (mem_onOut_viols _) <;>
          simp [Ph.onOut, isGreetOut, isFinalOut, isDisposeIn, isDownOut, hp, C1_flag, C123_flag, Viol.prop]
    | _ => simp [isGreetOut] at hg
  · by_cases hd : isDownOut (α := α) k (.out o) = true
    · -- delivery to sink `k`
      cases o with
      | down k' d =>
        have hkk : k' = k := by simpa [isDownOut] using hd
        subst hkk
        cases hp : ph.sinkPh k' with
        | live =>
          cases d <;>
            (apply h.step _ (mem_onOut_viols _) <;>
              simp [Ph.onOut, isGreetOut, isFinalOut, isDisposeIn, isDownOut, hp, isFinal])
        | idle | subscribed | doneBySrc | doneBySelf =>
          cases d <;>
            (apply h.step _ (mem_onOut_viols _) <;>
              simp [Ph.onOut, isGreetOut, isFinalOut, isDisposeIn, isDownOut, hp, C1_flag, C3_flag, C123_flag, Viol.prop])
      | _ => simp [isDownOut] at hd
    · -- anything else
      have hg' : isGreetOut (α := α) k (.out o) = false := by simpa using hg
      have hd' : isDownOut (α := α) k (.out o) = false := by simpa using hd
      refine h.frame _ (mem_onOut_viols _) (sinkPh_onOut_other (α := α) o hg' hd') hg' ?_ (by simp [isDisposeIn]) hd'
      cases o with
      | down k' d =>
        have hkk : ¬ k' = k := by simpa [isDownOut] using hd'
        cases d <;> simp [isFinalOut, hkk]
      | _ => simp [isFinalOut]

/-! ## the invariant along reachability -/

theorem RDp.opStep {M : Machine St Loc α β} {k : Nat} {a b : Sys St Loc α β} (ha : RDp k a.g.ph a.tr)
    (h : opStep M a = some b) : RDp k b.g.ph b.tr := by
  unfold Cb.opStep at h
  cases hp : a.panicked with
  | some m => simp [hp] at h
  | none =>
    simp only [hp, Option.isSome_none, Bool.false_eq_true, ↓reduceIte] at h
    cases hs : a.stack with
    | nil => simp [hs] at h
    | cons f r =>
      cases f with
      | wait o l => simp [hs] at h
      | run l =>
        simp only [hs] at h
        cases hst : M.step a.st l with
        | ret =>
          simp only [hst, Option.some.injEq] at h; subst h
          simpa using ha.skip .retO (.inr (.inl rfl))
        | tau s' l' =>
          simp only [hst, Option.some.injEq] at h; subst h
          exact ha
        | call o s' l' =>
          simp only [hst, Option.some.injEq] at h; subst h
          simpa using ha.out o
        | panic m =>
          simp only [hst, Option.some.injEq] at h; subst h
          exact ha.skip .panic (.inr (.inr rfl))

theorem RDp.envStep {M : Machine St Loc α β} {k : Nat} {m : Move α} {a b : Sys St Loc α β} (ha : RDp k a.g.ph a.tr)
    (h : EnvStep M m a b) : RDp k b.g.ph b.tr := by
  cases h with
  | call i hc hl => simpa using ha.inp i hl
  | ret hl => exact ha.skip .retE (.inl rfl)

theorem RDp.of_reach {M : Machine St Loc α β} {R : Restr St Loc α β} {s : Sys St Loc α β} (hs : SReachR M R s) (k : Nat) :
    RDp k s.g.ph s.tr := by
  induction hs with
  | init => exact RDp.init k
  | step _ hab ih =>
    cases hab with
    | op h => exact ih.opStep h
    | env h _ => exact ih.envStep h

/-! ## from suffixes of the newest-first trace to chronological positions -/

theorem getElem?_split {γ : Type} : ∀ {l : List γ} {p : Nat} {e : γ}, l[p]? = some e → ∃ a b, l = a ++ e :: b ∧ a.length = p
  | [], _, _, h => by simp at h
  | x :: l, 0, e, h => by
    simp only [List.getElem?_cons_zero, Option.some.injEq] at h
    exact ⟨[], l, by simp [h], rfl⟩
  | x :: l, p+1, e, h => by
    simp only [List.getElem?_cons_succ] at h
    obtain ⟨a, b, hab, hlen⟩ := getElem?_split h
    exact ⟨x :: a, b, by simp [hab], by simp [hlen]⟩

/-- the `p`-th event splits the newest-first trace: what follows it in the list are the `p` events before it in time -/
theorem chronAt_split {tr : List (Ev α β)} {p : Nat} {e : Ev α β} (h : chronAt tr p = some e) :
    ∃ l t, tr = l ++ e :: t ∧ t.length = p := by
  obtain ⟨a, b, hab, hlen⟩ := getElem?_split h
  refine ⟨b.reverse, a.reverse, ?_, by simpa using hlen⟩
  have := congrArg List.reverse hab
  simpa using this

/-- positions inside a suffix are the same positions of the whole trace -/
theorem chronAt_append_lt (l : List (Ev α β)) {t : List (Ev α β)} {q : Nat} (h : q < t.length) :
    chronAt (l ++ t) q = chronAt t q := by
  unfold chronAt
  rw [List.reverse_append, List.getElem?_append_left (by simpa using h)]

theorem chronAt_cons_lt (e : Ev α β) {t : List (Ev α β)} {q : Nat} (h : q < t.length) :
    chronAt (e :: t) q = chronAt t q := chronAt_append_lt [e] h

theorem chronAt_lt {tr : List (Ev α β)} {p : Nat} {e : Ev α β} (h : chronAt tr p = some e) : p < tr.length := by
  unfold chronAt at h
  have := (List.getElem?_eq_some_iff.1 h).1
  simpa using this

theorem chronAt_mem {tr : List (Ev α β)} {p : Nat} {e : Ev α β} (h : chronAt tr p = some e) : e ∈ tr :=
  List.mem_reverse.1 (List.mem_of_getElem? h)

theorem chronAt_of_mem {tr : List (Ev α β)} {e : Ev α β} (h : e ∈ tr) : ∃ q, q < tr.length ∧ chronAt tr q = some e := by
  obtain ⟨q, hq, he⟩ := List.getElem_of_mem (List.mem_reverse.2 h)
  exact ⟨q, by simpa using hq, by unfold chronAt; rw [List.getElem?_eq_getElem hq, he]⟩

/-- two different positions holding events selected by `f` make the count at least two -/
theorem two_le_countP {tr : List (Ev α β)} {f : Ev α β → Bool} {p q : Nat} {a b : Ev α β} (hpq : p < q)
    (hp : chronAt tr p = some a) (hq : chronAt tr q = some b) (ha : f a = true) (hb : f b = true) : 2 ≤ tr.countP f := by
  obtain ⟨l, t, rfl, hlen⟩ := chronAt_split hq
  rw [chronAt_append_lt l (t := b :: t) (by simp [hlen]; omega)] at hp
  rw [chronAt_cons_lt b (by omega)] at hp
  have h1 : 0 < t.countP f := List.countP_pos_iff.2 ⟨a, chronAt_mem hp, ha⟩
  rw [List.countP_append, List.countP_cons, if_pos hb]
  omega

/-! ## the theorems -/

variable {M : Machine St Loc α β} {R : Restr St Loc α β} {s : Sys St Loc α β}

/-- C01, readable: no prop-1 violation recorded ⇒ every sink is greeted at most once and before anything is delivered to it -/
theorem greetFirstOnce_of_clean (hs : SReachR M R s) (hv : ∀ v ∈ s.g.ph.viols, v.prop ≠ 1) (k : Nat) :
    GreetFirstOnce k s.tr := by
  have inv := RDp.of_reach hs k
  have hcount : s.tr.countP (isGreetOut k) ≤ 1 := by rw [inv.g1 hv]; split <;> simp
  have hsuf := inv.s1 hv
  refine ⟨fun p q hp hq => ?_, fun p d hp => ?_⟩
  · rcases Nat.lt_trichotomy p q with hlt | heq | hgt
    · have := two_le_countP (f := isGreetOut k) hlt hp hq (by simp [isGreetOut]) (by simp [isGreetOut]); omega
    · exact heq
    · have := two_le_countP (f := isGreetOut k) hgt hq hp (by simp [isGreetOut]) (by simp [isGreetOut]); omega
  · obtain ⟨l, t, htr, hlen⟩ := chronAt_split hp
    rw [htr] at hsuf
    have h1 : 0 < t.countP (isGreetOut k) := hsuf.at (by simp [isDownOut])
    obtain ⟨e, he, hg⟩ := List.countP_pos_iff.1 h1
    obtain ⟨q, hq, hqe⟩ := chronAt_of_mem he
    refine ⟨q, by omega, ?_⟩
    rw [htr, chronAt_append_lt l (t := _ :: t) (by simp; omega)]
    rw [chronAt_cons_lt _ hq, ← isGreetOut_eq hg]
    exact hqe

/-- C02, readable — CORRECTED hypothesis: no violation of props 1, 2, 3 recorded ⇒ nothing is delivered to a sink after its
terminal.  (With "no prop-2 violation" alone the statement is false: `terminalFinal_needs_C01`, `terminalFinal_needs_C03`.) -/
theorem terminalFinal_of_clean (hs : SReachR M R s) (hv : ∀ v ∈ s.g.ph.viols, v.prop ≠ 1 ∧ v.prop ≠ 2 ∧ v.prop ≠ 3) (k : Nat) :
    TerminalFinal k s.tr := by
  have hsuf := (RDp.of_reach hs k).s2 hv
  intro p d hp hfin q d' hpq hq
  obtain ⟨l, t, htr, hlen⟩ := chronAt_split hq
  rw [htr] at hsuf
  have hno := hsuf.at (by simp [isDownOut])
  rw [htr, chronAt_append_lt l (t := _ :: t) (by simp; omega)] at hp
  rw [chronAt_cons_lt _ (by omega)] at hp
  have := hno _ (chronAt_mem hp)
  cases d <;> simp [isFinalOut, isFinal] at this hfin

/-- C03, readable: no prop-3 violation recorded ⇒ no delivery to a sink begins after it disposed -/
theorem disposalRespected_of_clean (hs : SReachR M R s) (hv : ∀ v ∈ s.g.ph.viols, v.prop ≠ 3) (k : Nat) :
    DisposalRespected k s.tr := by
  have hsuf := (RDp.of_reach hs k).s3 hv
  intro p u hp hu q d hpq hq
  obtain ⟨l, t, htr, hlen⟩ := chronAt_split hq
  rw [htr] at hsuf
  have hno := hsuf.at (by simp [isDownOut])
  rw [htr, chronAt_append_lt l (t := _ :: t) (by simp; omega)] at hp
  rw [chronAt_cons_lt _ (by omega)] at hp
  have := hno _ (chronAt_mem hp)
  cases u <;> simp [isDisposeIn] at this hu

end Cb

#print axioms Cb.greetFirstOnce_of_clean
#print axioms Cb.terminalFinal_of_clean
#print axioms Cb.disposalRespected_of_clean
