import CallbagModel.Inv.TraceGhost
/-!
# Readable, monitor-free forms of C01, C02, C03 (generic: every machine, every restriction of the environment)

The project states C01–C03 through the ghost monitor: "no violation with `Viol.prop = 1 / 2 / 3` is recorded".  Here the
monitor is connected to statements about the boundary trace alone, by positions in chronological order:

* `GreetFirstOnce k tr`     (C01) sink `k` is greeted at most once and every delivery to it comes after its greeting
* `TerminalFinal k tr`      (C02) nothing is delivered to sink `k` after a terminal message
* `DisposalRespected k tr`  (C03) no delivery to sink `k` begins after it sent Terminate / Error on its talkback

`GreetFirstOnce` follows from "no prop-1 violation" alone and `DisposalRespected` from "no prop-3 violation" alone.
`TerminalFinal` does NOT follow from "no prop-2 violation" alone: the monitor classifies a delivery by the phase of the sink,
so a terminal sent to a sink that is not greeted yet (prop 1) or that has disposed (prop 3) leaves the phase unchanged and
later deliveries are again classified as prop 1 / prop 3, never as prop 2 (`terminalFinal_needs_C01`,
`terminalFinal_needs_C03` are machine-checked counterexamples).  The corrected statement `terminalFinal_of_clean` asks for
no violation of props 1, 2 and 3.

Method: one invariant `RDp k ph tr` relating the phase of sink `k` to the (newest-first) trace, in a recursion-friendly
"every suffix" form, preserved by every event (`RDp.step`); the positional statements are then read off by general list
lemmas about `reverse` and `getElem?`.
-/
namespace Cb

variable {St Loc α β : Type}

/-! ## the readable statements -/

/-- chronological position-based reading: `tr.reverse[p]` is the `p`-th event -/
def chronAt (tr : List (Ev α β)) (p : Nat) : Option (Ev α β) := tr.reverse[p]?

/-- C01: a sink is greeted at most once, and every delivery to it comes after its greeting -/
def GreetFirstOnce (k : Nat) (tr : List (Ev α β)) : Prop :=
  (∀ p q, chronAt tr p = some (.out (.greet k)) → chronAt tr q = some (.out (.greet k)) → p = q) ∧
  (∀ p d, chronAt tr p = some (.out (.down k d)) → ∃ q, q < p ∧ chronAt tr q = some (.out (.greet k)))

/-- C02: at most one terminal message per sink, and nothing is delivered to it afterwards -/
def TerminalFinal (k : Nat) (tr : List (Ev α β)) : Prop :=
  ∀ p d, chronAt tr p = some (.out (.down k d)) → isFinal d = true →
    ∀ q d', p < q → chronAt tr q ≠ some (.out (.down k d'))

/-- C03: once sink `k` has sent Terminate / Error on its talkback, no further delivery to it BEGINS -/
def DisposalRespected (k : Nat) (tr : List (Ev α β)) : Prop :=
  ∀ p u, chronAt tr p = some (.inp (.sinkUp k u)) → u ≠ .pull →
    ∀ q d, p < q → chronAt tr q ≠ some (.out (.down k d))

end Cb

namespace Cb.Rd

variable {St Loc α β : Type}

/-! ## event classifiers -/

def isGreetTo (k : Nat) : Ev α β → Bool
  | .out (.greet k') => k' == k
  | _ => false

def isDownTo (k : Nat) : Ev α β → Bool
  | .out (.down k' _) => k' == k
  | _ => false

def isDisposeOf (k : Nat) : Ev α β → Bool
  | .inp (.sinkUp k' .term) => k' == k
  | .inp (.sinkUp k' (.err _)) => k' == k
  | _ => false

theorem isGreetTo_eq {k : Nat} {e : Ev α β} (h : isGreetTo k e = true) : e = .out (.greet k) := by
  unfold isGreetTo at h
  split at h
  · simp only [beq_iff_eq] at h; rw [h]
  · cases h

/-! ## "every suffix" predicates on newest-first traces -/

/-- `P e t` holds for every suffix `e :: t` of the trace -/
def AllSuf (P : Ev α β → List (Ev α β) → Prop) : List (Ev α β) → Prop
  | [] => True
  | e :: t => P e t ∧ AllSuf P t

theorem AllSuf.of_append {P : Ev α β → List (Ev α β) → Prop} :
    ∀ (l : List (Ev α β)) {t : List (Ev α β)}, AllSuf P (l ++ t) → AllSuf P t
  | [], _, h => h
  | _ :: l, _, h => AllSuf.of_append l h.2

theorem AllSuf.at {P : Ev α β → List (Ev α β) → Prop} {l : List (Ev α β)} {e : Ev α β} {t : List (Ev α β)}
    (h : AllSuf P (l ++ e :: t)) : P e t := (AllSuf.of_append l h).1

/-! ## cleanliness of the monitor, per property -/

def C1 (ph : Ph) : Prop := ∀ v ∈ ph.viols, v.prop ≠ 1
def C3 (ph : Ph) : Prop := ∀ v ∈ ph.viols, v.prop ≠ 3
def C123 (ph : Ph) : Prop := ∀ v ∈ ph.viols, v.prop ≠ 1 ∧ v.prop ≠ 2 ∧ v.prop ≠ 3

@[simp] theorem Ph.sinkPh_flag (ph : Ph) (v : Viol) (k : Nat) : (ph.flag v).sinkPh k = ph.sinkPh k := rfl
theorem C1_flag (ph : Ph) (v : Viol) : C1 (ph.flag v) ↔ v.prop ≠ 1 ∧ C1 ph := by simp [C1]
theorem C3_flag (ph : Ph) (v : Viol) : C3 (ph.flag v) ↔ v.prop ≠ 3 ∧ C3 ph := by simp [C3]
theorem C123_flag (ph : Ph) (v : Viol) : C123 (ph.flag v) ↔ (v.prop ≠ 1 ∧ v.prop ≠ 2 ∧ v.prop ≠ 3) ∧ C123 ph := by simp [C123]

theorem C1.mono {ph ph' : Ph} (hv : ∀ v ∈ ph.viols, v ∈ ph'.viols) (h : C1 ph') : C1 ph := fun v hm => h v (hv v hm)
theorem C3.mono {ph ph' : Ph} (hv : ∀ v ∈ ph.viols, v ∈ ph'.viols) (h : C3 ph') : C3 ph := fun v hm => h v (hv v hm)
theorem C123.mono {ph ph' : Ph} (hv : ∀ v ∈ ph.viols, v ∈ ph'.viols) (h : C123 ph') : C123 ph := fun v hm => h v (hv v hm)

/-! ## the invariant: the phase of sink `k` against the trace -/

/-- the phase of sink `k` is what the trace (newest first) says, and every delivery to `k` found the trace before it in order.
Every clause that depends on the operator behaving is guarded by the cleanliness of the monitor NOW (violations are never
removed, so nothing has to be threaded backwards). -/
structure RDp (k : Nat) (ph : Ph) (tr : List (Ev α β)) : Prop where
  g1 : C1 ph → tr.countP (isGreetTo k) = if ph.sinkPh k = .idle ∨ ph.sinkPh k = .subscribed then 0 else 1
  s1 : C1 ph → AllSuf (fun e t => isDownTo k e = true → 1 ≤ t.countP (isGreetTo k)) tr
  g2 : C123 ph → ∀ e ∈ tr, isFinalOut k e = true → ph.sinkPh k = .doneBySrc
  s2 : C123 ph → AllSuf (fun e t => isDownTo k e = true → ∀ e' ∈ t, isFinalOut k e' = false) tr
  g3 : ∀ e ∈ tr, isDisposeOf k e = true → ph.sinkPh k = .doneBySelf
  s3 : C3 ph → AllSuf (fun e t => isDownTo k e = true → ∀ e' ∈ t, isDisposeOf k e' = false) tr

theorem RDp.init (k : Nat) : RDp k ({} : Ph) ([] : List (Ev α β)) := by
  constructor <;> simp [AllSuf]

/-- one event: the obligations are propositional facts about the old phase, the new phase and the event -/
theorem RDp.step {k : Nat} {ph ph' : Ph} {tr : List (Ev α β)} (h : RDp k ph tr) (e : Ev α β)
    (hv : ∀ v ∈ ph.viols, v ∈ ph'.viols)
    (o1 : C1 ph' → (if isGreetTo k e = true then 1 else 0) + (if ph.sinkPh k = .idle ∨ ph.sinkPh k = .subscribed then 0 else 1)
        = (if ph'.sinkPh k = .idle ∨ ph'.sinkPh k = .subscribed then 0 else 1))
    (o1' : C1 ph' → isDownTo k e = true → ¬ (ph.sinkPh k = .idle ∨ ph.sinkPh k = .subscribed))
    (o2 : C123 ph' → (isFinalOut k e = true ∨ ph.sinkPh k = .doneBySrc) → ph'.sinkPh k = .doneBySrc)
    (o2' : C123 ph' → isDownTo k e = true → ph.sinkPh k ≠ .doneBySrc)
    (o3 : (isDisposeOf k e = true ∨ ph.sinkPh k = .doneBySelf) → ph'.sinkPh k = .doneBySelf)
    (o3' : C3 ph' → isDownTo k e = true → ph.sinkPh k ≠ .doneBySelf) :
    RDp k ph' (e :: tr) := by
  refine ⟨?_, ?_, ?_, ?_, ?_, ?_⟩
  · intro c
    have ih := h.g1 (c.mono hv)
    rw [List.countP_cons, ih, ← o1 c]; exact Nat.add_comm _ _
  · intro c
    refine ⟨fun hd => ?_, h.s1 (c.mono hv)⟩
    have ih := h.g1 (c.mono hv)
    rw [ih, if_neg (o1' c hd)]; exact Nat.le_refl _
  · intro c e' he' hf
    rcases List.mem_cons.1 he' with rfl | he'
    · exact o2 c (.inl hf)
    · exact o2 c (.inr (h.g2 (c.mono hv) e' he' hf))
  · intro c
    refine ⟨fun hd e' he' => ?_, h.s2 (c.mono hv)⟩
    cases hf : isFinalOut k e' with
    | false => rfl
    | true => exact absurd (h.g2 (c.mono hv) e' he' hf) (o2' c hd)
  · intro e' he' hf
    rcases List.mem_cons.1 he' with rfl | he'
    · exact o3 (.inl hf)
    · exact o3 (.inr (h.g3 e' he' hf))
  · intro c
    refine ⟨fun hd e' he' => ?_, h.s3 (c.mono hv)⟩
    cases hf : isDisposeOf k e' with
    | false => rfl
    | true => exact absurd (h.g3 e' he' hf) (o3' c hd)

/-- an event that does not concern sink `k` -/
theorem RDp.frame {k : Nat} {ph ph' : Ph} {tr : List (Ev α β)} (h : RDp k ph tr) (e : Ev α β)
    (hv : ∀ v ∈ ph.viols, v ∈ ph'.viols) (hph : ph'.sinkPh k = ph.sinkPh k)
    (h1 : isGreetTo k e = false) (h2 : isFinalOut k e = false) (h3 : isDisposeOf k e = false) (h4 : isDownTo k e = false) :
    RDp k ph' (e :: tr) := by
  apply h.step e hv <;> simp [h1, h2, h3, h4, hph]

theorem RDp.skip {k : Nat} {ph : Ph} {tr : List (Ev α β)} (h : RDp k ph tr) (e : Ev α β)
    (he : e = .retE ∨ e = .retO ∨ e = .panic) : RDp k ph (e :: tr) := by
  rcases he with rfl | rfl | rfl <;>
    exact h.frame _ (fun _ hm => hm) rfl (by simp [isGreetTo]) (by simp [isFinalOut]) (by simp [isDisposeOf]) (by simp [isDownTo])

/-- a legal call of the environment -/
theorem RDp.inp {sh : Shape} {k : Nat} {ph : Ph} {c : Ctx β} {tr : List (Ev α β)} (h : RDp k ph tr) (i : In α)
    (hl : legalIn sh ph c i = true) : RDp k (ph.onIn i) (.inp i :: tr) := by
  cases i with
  | subscribe k' =>
    have hk := legal_subscribe hl
    by_cases hkk : k = k'
    · subst hkk
      apply h.step (ph' := ph.onIn (.subscribe k)) _ (fun _ hm => hm) <;> simp [Ph.onIn, isGreetTo, isFinalOut, isDisposeOf, isDownTo, hk]
    · exact h.frame _ (fun _ hm => hm) (by simp [Ph.onIn, hkk]) (by simp [isGreetTo]) (by simp [isFinalOut])
        (by simp [isDisposeOf]) (by simp [isDownTo])
  | sinkUp k' u =>
    have hk := legal_sinkUp hl
    cases u with
    | pull =>
      exact h.frame _ (fun _ hm => hm) rfl (by simp [isGreetTo]) (by simp [isFinalOut]) (by simp [isDisposeOf]) (by simp [isDownTo])
    | term =>
      by_cases hkk : k = k'
      · subst hkk
        apply h.step (ph' := ph.onIn (.sinkUp k .term)) _ (fun _ hm => hm) <;> simp [Ph.onIn, isGreetTo, isFinalOut, isDisposeOf, isDownTo, hk]
      · have hkk' : ¬ k' = k := fun e => hkk e.symm
        exact h.frame _ (fun _ hm => hm) (by simp [Ph.onIn, hkk]) (by simp [isGreetTo]) (by simp [isFinalOut])
          (by simp [isDisposeOf, hkk']) (by simp [isDownTo])
    | err x =>
      by_cases hkk : k = k'
      · subst hkk
        apply h.step (ph' := ph.onIn (.sinkUp k (.err x))) _ (fun _ hm => hm) <;> simp [Ph.onIn, isGreetTo, isFinalOut, isDisposeOf, isDownTo, hk]
      · have hkk' : ¬ k' = k := fun e => hkk e.symm
        exact h.frame _ (fun _ hm => hm) (by simp [Ph.onIn, hkk]) (by simp [isGreetTo]) (by simp [isFinalOut])
          (by simp [isDisposeOf, hkk']) (by simp [isDownTo])
  | srcGreet j =>
    exact h.frame _ (fun _ hm => hm) rfl (by simp [isGreetTo]) (by simp [isFinalOut]) (by simp [isDisposeOf]) (by simp [isDownTo])
  | srcDown j d =>
    cases d <;>
      exact h.frame _ (fun _ hm => hm) rfl (by simp [isGreetTo]) (by simp [isFinalOut]) (by simp [isDisposeOf]) (by simp [isDownTo])

theorem mem_onOut_viols {ph : Ph} (o : Out β) : ∀ v ∈ ph.viols, v ∈ (ph.onOut o).viols := by
  obtain ⟨l, hl⟩ := ph_onOut_viols_suffix ph o
  intro v hm; rw [hl]; exact List.mem_append_right _ hm

/-- `onOut` does not touch the phase of sink `k` when the call is not to sink `k` -/
theorem sinkPh_onOut_other {ph : Ph} {k : Nat} (o : Out β) (h1 : isGreetTo (α := α) k (.out o) = false)
    (h4 : isDownTo (α := α) k (.out o) = false) : (ph.onOut o).sinkPh k = ph.sinkPh k := by
  cases o with
  | greet k' =>
    have hkk : ¬ k = k' := by intro e; subst e; simp [isGreetTo] at h1
    simp only [Ph.onOut]; split
    · simp [hkk]
    · rfl
  | down k' d =>
    have hkk : ¬ k = k' := by intro e; subst e; simp [isDownTo] at h4
    simp only [Ph.onOut]; split
    · split
      · simp [hkk]
      · rfl
    all_goals rfl
  | subSrc i =>
    simp only [Ph.onOut]; split
    · rfl
    · split <;> rfl
  | srcUp i u => cases u <;> (simp only [Ph.onOut]; split <;> rfl)
  | app b => rfl

/-- a call made by the operator -/
theorem RDp.out {k : Nat} {ph : Ph} {tr : List (Ev α β)} (h : RDp k ph tr) (o : Out β) :
    RDp k (ph.onOut o) (.out o :: tr) := by
  by_cases hg : isGreetTo (α := α) k (.out o) = true
  · -- greeting of sink `k`
    cases o with
    | greet k' =>
      have hkk : k' = k := by simpa [isGreetTo] using hg
      subst hkk
      by_cases hp : ph.sinkPh k' = .subscribed
      · apply h.step _ (mem_onOut_viols _) <;> simp [Ph.onOut, isGreetTo, isFinalOut, isDisposeOf, isDownTo, hp]
      · apply h.step _ (mem_onOut_viols _) <;>
          simp [Ph.onOut, isGreetTo, isFinalOut, isDisposeOf, isDownTo, hp, C1_flag, C123_flag, Viol.prop]
    | _ => simp [isGreetTo] at hg
  · by_cases hd : isDownTo (α := α) k (.out o) = true
    · -- delivery to sink `k`
      cases o with
      | down k' d =>
        have hkk : k' = k := by simpa [isDownTo] using hd
        subst hkk
        cases hp : ph.sinkPh k' with
        | live =>
          cases d <;>
            (apply h.step _ (mem_onOut_viols _) <;>
              simp [Ph.onOut, isGreetTo, isFinalOut, isDisposeOf, isDownTo, hp, isFinal])
        | idle | subscribed | doneBySrc | doneBySelf =>
          cases d <;>
            (apply h.step _ (mem_onOut_viols _) <;>
              simp [Ph.onOut, isGreetTo, isFinalOut, isDisposeOf, isDownTo, hp, C1_flag, C3_flag, C123_flag, Viol.prop])
      | _ => simp [isDownTo] at hd
    · -- anything else
      have hg' : isGreetTo (α := α) k (.out o) = false := by simpa using hg
      have hd' : isDownTo (α := α) k (.out o) = false := by simpa using hd
      refine h.frame _ (mem_onOut_viols _) (sinkPh_onOut_other (α := α) o hg' hd') hg' ?_ (by simp [isDisposeOf]) hd'
      cases o with
      | down k' d =>
        have hkk : ¬ k' = k := by simpa [isDownTo] using hd'
        cases d <;> simp [isFinalOut, hkk]
      | _ => simp [isFinalOut]

/-! ## the invariant along reachability -/

theorem RDp.opStep {M : Machine St Loc α β} {k : Nat} {a b : Sys St Loc α β} (ha : RDp k a.g.ph a.tr)
    (h : opStep M a = some b) : RDp k b.g.ph b.tr := by
  unfold Cb.opStep at h
  cases hp : a.panicked with
  | some m => simp [hp] at h
  | none =>
    simp only [hp, Option.isSome_none, Bool.false_eq_true, ↓reduceIte] at h
    cases hs : a.stack with
    | nil => simp [hs] at h
    | cons f r =>
      cases f with
      | wait o l => simp [hs] at h
      | run l =>
        simp only [hs] at h
        cases hst : M.step a.st l with
        | ret =>
          simp only [hst, Option.some.injEq] at h; subst h
          simpa using ha.skip .retO (.inr (.inl rfl))
        | tau s' l' =>
          simp only [hst, Option.some.injEq] at h; subst h
          exact ha
        | call o s' l' =>
          simp only [hst, Option.some.injEq] at h; subst h
          simpa using ha.out o
        | panic m =>
          simp only [hst, Option.some.injEq] at h; subst h
          exact ha.skip .panic (.inr (.inr rfl))

theorem RDp.envStep {M : Machine St Loc α β} {k : Nat} {m : Move α} {a b : Sys St Loc α β} (ha : RDp k a.g.ph a.tr)
    (h : EnvStep M m a b) : RDp k b.g.ph b.tr := by
  cases h with
  | call i hc hl => simpa using ha.inp i hl
  | ret hl => exact ha.skip .retE (.inl rfl)

theorem RDp.of_reach {M : Machine St Loc α β} {R : Restr St Loc α β} {s : Sys St Loc α β} (hs : SReachR M R s) (k : Nat) :
    RDp k s.g.ph s.tr := by
  induction hs with
  | init => exact RDp.init k
  | step _ hab ih =>
    cases hab with
    | op h => exact ih.opStep h
    | env h _ => exact ih.envStep h

/-! ## from suffixes of the newest-first trace to chronological positions -/

theorem getElem?_split {γ : Type} : ∀ {l : List γ} {p : Nat} {e : γ}, l[p]? = some e → ∃ a b, l = a ++ e :: b ∧ a.length = p
  | [], _, _, h => by simp at h
  | x :: l, 0, e, h => by
    simp only [List.getElem?_cons_zero, Option.some.injEq] at h
    exact ⟨[], l, by simp [h], rfl⟩
  | x :: l, p+1, e, h => by
    simp only [List.getElem?_cons_succ] at h
    obtain ⟨a, b, hab, hlen⟩ := getElem?_split h
    exact ⟨x :: a, b, by simp [hab], by simp [hlen]⟩

/-- the `p`-th event splits the newest-first trace: what follows it in the list are the `p` events before it in time -/
theorem chronAt_split {tr : List (Ev α β)} {p : Nat} {e : Ev α β} (h : chronAt tr p = some e) :
    ∃ l t, tr = l ++ e :: t ∧ t.length = p := by
  obtain ⟨a, b, hab, hlen⟩ := getElem?_split h
  refine ⟨b.reverse, a.reverse, ?_, by simpa using hlen⟩
  have := congrArg List.reverse hab
  simpa using this

/-- positions inside a suffix are the same positions of the whole trace -/
theorem chronAt_append_lt (l : List (Ev α β)) {t : List (Ev α β)} {q : Nat} (h : q < t.length) :
    chronAt (l ++ t) q = chronAt t q := by
  unfold chronAt
  rw [List.reverse_append, List.getElem?_append_left (by simpa using h)]

theorem chronAt_cons_lt (e : Ev α β) {t : List (Ev α β)} {q : Nat} (h : q < t.length) :
    chronAt (e :: t) q = chronAt t q := chronAt_append_lt [e] h

theorem chronAt_lt {tr : List (Ev α β)} {p : Nat} {e : Ev α β} (h : chronAt tr p = some e) : p < tr.length := by
  unfold chronAt at h
  have := (List.getElem?_eq_some_iff.1 h).1
  simpa using this

theorem chronAt_mem {tr : List (Ev α β)} {p : Nat} {e : Ev α β} (h : chronAt tr p = some e) : e ∈ tr :=
  List.mem_reverse.1 (List.mem_of_getElem? h)

theorem chronAt_of_mem {tr : List (Ev α β)} {e : Ev α β} (h : e ∈ tr) : ∃ q, q < tr.length ∧ chronAt tr q = some e := by
  obtain ⟨q, hq, he⟩ := List.getElem_of_mem (List.mem_reverse.2 h)
  exact ⟨q, by simpa using hq, by unfold chronAt; rw [List.getElem?_eq_getElem hq, he]⟩

/-- two different positions holding events selected by `f` make the count at least two -/
theorem two_le_countP {tr : List (Ev α β)} {f : Ev α β → Bool} {p q : Nat} {a b : Ev α β} (hpq : p < q)
    (hp : chronAt tr p = some a) (hq : chronAt tr q = some b) (ha : f a = true) (hb : f b = true) : 2 ≤ tr.countP f := by
  obtain ⟨l, t, rfl, hlen⟩ := chronAt_split hq
  rw [chronAt_append_lt l (t := b :: t) (by simp [hlen]; omega)] at hp
  rw [chronAt_cons_lt b (by omega)] at hp
  have h1 : 0 < t.countP f := List.countP_pos_iff.2 ⟨a, chronAt_mem hp, ha⟩
  rw [List.countP_append, List.countP_cons, if_pos hb]
  omega

/-- replay of a schedule: `none` = one operator micro-step, `some m` = environment move `m` -/
def replay (M : Machine St Loc α β) : Sys St Loc α β → List (Option (Move α)) → Option (Sys St Loc α β)
  | s, [] => some s
  | s, none :: r => match opStep M s with
    | some s' => replay M s' r
    | none => none
  | s, some m :: r => match envMove M s m with
    | some s' => replay M s' r
    | none => none

theorem reach_replay {M : Machine St Loc α β} : ∀ (sc : List (Option (Move α))) {a b : Sys St Loc α β},
    SReach M a → replay M a sc = some b → SReach M b
  | [], a, b, ha, h => by simp only [replay, Option.some.injEq] at h; exact h ▸ ha
  | none :: r, a, b, ha, h => by
    simp only [replay] at h
    cases ho : opStep M a with
    | none => simp [ho] at h
    | some a' => rw [ho] at h; exact reach_replay r (.step ha (.op ho)) h
  | some m :: r, a, b, ha, h => by
    simp only [replay] at h
    cases ho : envMove M a m with
    | none => simp [ho] at h
    | some a' => rw [ho] at h; exact reach_replay r (.step ha (.env ((envMove_iff M m a a').1 ho) trivial)) h

end Cb.Rd

namespace Cb
open Rd

variable {St Loc α β : Type}

/-! ## the theorems -/

variable {M : Machine St Loc α β} {R : Restr St Loc α β} {s : Sys St Loc α β}

/-- C01, readable: no prop-1 violation recorded ⇒ every sink is greeted at most once and before anything is delivered to it -/
theorem greetFirstOnce_of_clean (hs : SReachR M R s) (hv : ∀ v ∈ s.g.ph.viols, v.prop ≠ 1) (k : Nat) :
    GreetFirstOnce k s.tr := by
  have inv := RDp.of_reach hs k
  have hcount : s.tr.countP (isGreetTo k) ≤ 1 := by rw [inv.g1 hv]; split <;> simp
  have hsuf := inv.s1 hv
  refine ⟨fun p q hp hq => ?_, fun p d hp => ?_⟩
  · rcases Nat.lt_trichotomy p q with hlt | heq | hgt
    · have := two_le_countP (f := isGreetTo k) hlt hp hq (by simp [isGreetTo]) (by simp [isGreetTo]); omega
    · exact heq
    · have := two_le_countP (f := isGreetTo k) hgt hq hp (by simp [isGreetTo]) (by simp [isGreetTo]); omega
  · obtain ⟨l, t, htr, hlen⟩ := chronAt_split hp
    rw [htr] at hsuf
    have h1 : 0 < t.countP (isGreetTo k) := hsuf.at (by simp [isDownTo])
    obtain ⟨e, he, hg⟩ := List.countP_pos_iff.1 h1
    obtain ⟨q, hq, hqe⟩ := chronAt_of_mem he
    refine ⟨q, by omega, ?_⟩
    rw [htr, chronAt_append_lt l (t := _ :: t) (by simp; omega)]
    rw [chronAt_cons_lt _ hq, ← isGreetTo_eq hg]
    exact hqe

/-- C02, readable — CORRECTED hypothesis: no violation of props 1, 2, 3 recorded ⇒ nothing is delivered to a sink after its
terminal.  (With "no prop-2 violation" alone the statement is false: `terminalFinal_needs_C01`, `terminalFinal_needs_C03`.) -/
theorem terminalFinal_of_clean (hs : SReachR M R s) (hv : ∀ v ∈ s.g.ph.viols, v.prop ≠ 1 ∧ v.prop ≠ 2 ∧ v.prop ≠ 3) (k : Nat) :
    TerminalFinal k s.tr := by
  have hsuf := (RDp.of_reach hs k).s2 hv
  intro p d hp hfin q d' hpq hq
  obtain ⟨l, t, htr, hlen⟩ := chronAt_split hq
  rw [htr] at hsuf
  have hno := hsuf.at (by simp [isDownTo])
  rw [htr, chronAt_append_lt l (t := _ :: t) (by simp; omega)] at hp
  rw [chronAt_cons_lt _ (by omega)] at hp
  have := hno _ (chronAt_mem hp)
  cases d <;> simp [isFinalOut, isFinal] at this hfin

/-- C03, readable: no prop-3 violation recorded ⇒ no delivery to a sink begins after it disposed -/
theorem disposalRespected_of_clean (hs : SReachR M R s) (hv : ∀ v ∈ s.g.ph.viols, v.prop ≠ 3) (k : Nat) :
    DisposalRespected k s.tr := by
  have hsuf := (RDp.of_reach hs k).s3 hv
  intro p u hp hu q d hpq hq
  obtain ⟨l, t, htr, hlen⟩ := chronAt_split hq
  rw [htr] at hsuf
  have hno := hsuf.at (by simp [isDownTo])
  rw [htr, chronAt_append_lt l (t := _ :: t) (by simp; omega)] at hp
  rw [chronAt_cons_lt _ (by omega)] at hp
  have := hno _ (chronAt_mem hp)
  cases u <;> simp [isDisposeOf] at this hu

/-- all three at once, from the hypothesis the safety theorems of the operators provide (`BasicSafe`, `Safe`) -/
theorem readable_of_noViols (hs : SReachR M R s) (hv : s.g.ph.viols = []) (k : Nat) :
    GreetFirstOnce k s.tr ∧ TerminalFinal k s.tr ∧ DisposalRespected k s.tr := by
  refine ⟨greetFirstOnce_of_clean hs ?_ k, terminalFinal_of_clean hs ?_ k, disposalRespected_of_clean hs ?_ k⟩ <;>
    (rw [hv]; intro v hm; cases hm)

/-! ## `TerminalFinal` needs C01 and C03: machine-checked counterexamples to the statement with "no prop-2 violation" alone

The monitor files a delivery under the property of the phase the sink is in.  A terminal sent to a sink that is not greeted
yet is a prop-1 violation and leaves the phase `subscribed`; after the greeting, a later `Data` is perfectly legal for the
monitor.  A terminal sent to a sink that has disposed is a prop-3 violation and so is every later delivery.  In both traces
something is delivered after a terminal although no prop-2 violation is recorded. -/

/-- on `subscribe`: Terminate, then the greeting, then Data -/
def cexM1 : Machine Unit Nat Unit Unit where
  shape := {}
  init := ()
  enter := fun _ => 0
  step := fun _ l => match l with
    | 0 => .call (.down 0 .term) () 1
    | 1 => .call (.greet 0) () 2
    | 2 => .call (.down 0 (.data ())) () 3
    | _ => .ret

def cexSched1 : List (Option (Move Unit)) := [some (.call (.subscribe 0)), none, some .ret, none, some .ret, none]
def cexS1 : Sys Unit Nat Unit Unit := (replay cexM1 (Sys.init cexM1) cexSched1).getD (Sys.init cexM1)

/-- only prop-1 violations recorded, yet `Data` follows `Terminate` -/
theorem terminalFinal_needs_C01 :
    SReach cexM1 cexS1 ∧ (∀ v ∈ cexS1.g.ph.viols, v.prop ≠ 2 ∧ v.prop ≠ 3) ∧ ¬ TerminalFinal 0 cexS1.tr := by
  have htr : cexS1.tr = [.out (.down 0 (.data ())), .retE, .out (.greet 0), .retE, .out (.down 0 .term), .inp (.subscribe 0)] := rfl
  have hvi : cexS1.g.ph.viols = [.ungreeted 0] := rfl
  refine ⟨reach_replay cexSched1 .init (b := cexS1) rfl, ?_, fun h => ?_⟩
  · rw [hvi]; intro v hm; simp only [List.mem_singleton] at hm; subst hm; simp [Viol.prop]
  · rw [htr] at h
    exact h 1 .term rfl rfl 5 (.data ()) (by omega) rfl

/-- on `subscribe`: the greeting; on anything the sink sends: Terminate, then Data -/
def cexM3 : Machine Unit Nat Unit Unit where
  shape := {}
  init := ()
  enter := fun i => match i with
    | .subscribe _ => 0
    | _ => 10
  step := fun _ l => match l with
    | 0 => .call (.greet 0) () 1
    | 10 => .call (.down 0 .term) () 11
    | 11 => .call (.down 0 (.data ())) () 12
    | _ => .ret

def cexSched3 : List (Option (Move Unit)) :=
  [some (.call (.subscribe 0)), none, some (.call (.sinkUp 0 .term)), none, some .ret, none]
def cexS3 : Sys Unit Nat Unit Unit := (replay cexM3 (Sys.init cexM3) cexSched3).getD (Sys.init cexM3)

/-- only prop-3 violations recorded, yet `Data` follows `Terminate` -/
theorem terminalFinal_needs_C03 :
    SReach cexM3 cexS3 ∧ (∀ v ∈ cexS3.g.ph.viols, v.prop ≠ 1 ∧ v.prop ≠ 2) ∧ ¬ TerminalFinal 0 cexS3.tr := by
  have htr : cexS3.tr = [.out (.down 0 (.data ())), .retE, .out (.down 0 .term), .inp (.sinkUp 0 .term), .out (.greet 0),
      .inp (.subscribe 0)] := rfl
  have hvi : cexS3.g.ph.viols = [.afterDispose 0, .afterDispose 0] := rfl
  refine ⟨reach_replay cexSched3 .init (b := cexS3) rfl, ?_, fun h => ?_⟩
  · rw [hvi]; intro v hm; simp only [List.mem_cons, List.not_mem_nil, or_false, or_self] at hm; subst hm; simp [Viol.prop]
  · rw [htr] at h
    exact h 3 .term rfl rfl 5 (.data ()) (by omega) rfl

end Cb

#print axioms Cb.greetFirstOnce_of_clean
#print axioms Cb.terminalFinal_of_clean
#print axioms Cb.disposalRespected_of_clean
#print axioms Cb.readable_of_noViols
#print axioms Cb.terminalFinal_needs_C01
#print axioms Cb.terminalFinal_needs_C03
