import CallbagModel.Inv.ComposeClosed
/-!
# Closed pull pipelines of any length: the COMPLETENESS half

When the application `for_each(f)(pipe!(from_iter(it), stage₁, …, stageₙ))` has returned, `f` has been applied to exactly `F xs`.

The per-component guarantees are UNCONDITIONAL (they hold under every conformant environment, no `pullable` restriction) because they
do not count: they look at the LAST relevant event at an interface.

* `lastPull k (sinkEvs tr)`     the last of {Pull from sink `k`, delivery to sink `k`} is a Pull: sink `k` has an unserved Pull;
* `lastPullSrc i (srcEvs tr)`   the last of {Pull to upstream `i`, delivery from upstream `i`} is a Pull: upstream `i` owes an answer.

A HEAD (`HeadOk M ys`) guarantees, when control is back at its top level (`s.stack = []`): a live sink has no unserved Pull; a sink
that received the terminal received all of `ys`.  A STAGE (`DemandStage M F`) guarantees at its top level: sink live ⇒ upstream live;
an unserved Pull of the sink has been passed on (upstream owes an answer); terminal delivered ⇒ upstream ended or the output is
final.  `for_each` guarantees at its top level: while the upstream is live, it owes an answer.  The chain closes by contradiction:
at the pipeline's top level after the application all projected stacks are empty, so if `for_each`'s upstream were still live it
would both owe an answer and have served every Pull.
-/
namespace Cb
namespace ComposeComplete
open ComposeSafe ComposeFun

/-! ## Part 1: the last relevant event at an interface -/
section Last
variable {α β γ : Type}

def relS (k : Nat) : SinkEv γ → Option Bool
  | .subscribe _ => none
  | .greet _ => none
  | .app _ => none
  | .up k' u => if u = .pull ∧ k' = k then some true else none
  | .down k' _ => if k' = k then some false else none

def relSrc (i : Nat) : SrcEv α → Option Bool
  | .sub _ => none
  | .greet _ => none
  | .up i' u => if u = .pull ∧ i' = i then some true else none
  | .down i' _ => if i' = i then some false else none

/-- sink `k` has an unserved Pull -/
def lastPull (k : Nat) : List (SinkEv γ) → Bool
  | [] => false
  | e :: t => (relS k e).getD (lastPull k t)

/-- upstream `i` owes an answer -/
def lastPullSrc (i : Nat) : List (SrcEv α) → Bool
  | [] => false
  | e :: t => (relSrc i e).getD (lastPullSrc i t)

theorem lastPull_dual (k : Nat) (l : List (SinkEv β)) : lastPull k l = lastPullSrc k (dualEvs l) := by
  induction l with
  | nil => rfl
  | cons e t ih => cases e <;> simp [lastPull, dualEvs, dual, lastPullSrc, relS, relSrc, ih]

/-- the pipeline-facing abbreviations used in the operator invariants -/
def aP (tr : List (Ev α γ)) : Bool := lastPull 0 (sinkEvs tr)
def bP (tr : List (Ev α γ)) : Bool := lastPullSrc 0 (srcEvs tr)

end Last

/-! ## Part 2: generic facts -/
section Generic
variable {St Loc α β : Type}

/-- small-step induction over `SReach`, with reachability of the source of each step available -/
theorem reach_ind (M : Machine St Loc α β) (K : Sys St Loc α β → Prop) (h0 : K (Sys.init M))
    (hop : ∀ a b, SReach M a → K a → OStep M a b → K b)
    (henv : ∀ a b m, SReach M a → K a → EnvStep M m a b → K b) : ∀ s, SReach M s → K s := by
  intro s hs
  induction hs with
  | init => exact h0
  | step ha hab ih =>
    cases hab with
    | op hop' => exact hop _ _ ha ih (oStep_of_opStep hop')
    | env he _ => exact henv _ _ _ ha ih he

/-- only the top frame can be running -/
theorem tail_waits (M : Machine St Loc α β) : ∀ s, SReach M s → ∀ f ∈ s.stack.tail, ∃ o l, f = Frame.wait o l := by
  have allw : ∀ {stk : List (Frame Loc β)} {c : Ctx β}, ctxOf stk = some c →
      (∀ f ∈ stk.tail, ∃ o l, f = Frame.wait o l) → ∀ f ∈ stk, ∃ o l, f = Frame.wait o l := by
    intro stk c hc h
    cases stk with
    | nil => intro f hf; cases hf
    | cons f r =>
      cases f with
      | run l => simp [ctxOf] at hc
      | wait o l => exact List.forall_mem_cons.2 ⟨⟨o, l, rfl⟩, h⟩
  apply reach_ind M (fun s => ∀ f ∈ s.stack.tail, ∃ o l, f = Frame.wait o l)
  · intro f hf; cases hf
  · intro a b _ ih h
    cases h with
    | tau _ => exact ih
    | call _ => exact ih
    | ret _ => intro f hf; exact ih f (List.mem_of_mem_tail hf)
    | panic _ => intro f hf; exact ih f (List.mem_of_mem_tail hf)
  · intro a b m _ ih h
    cases h with
    | call i hc hl => exact allw hc ih
    | ret hl => exact ih

/-- at an environment turn every frame is waiting -/
theorem turn_all_waits (M : Machine St Loc α β) {s : Sys St Loc α β} (hs : SReach M s) {c : Ctx β}
    (hc : ctxOf s.stack = some c) : ∀ f ∈ s.stack, ∃ o l, f = Frame.wait o l := by
  have h := tail_waits M s hs
  cases hstk : s.stack with
  | nil => intro f hf; cases hf
  | cons f r =>
    rw [hstk] at hc h
    cases f with
    | run l => simp [ctxOf] at hc
    | wait o l => exact List.forall_mem_cons.2 ⟨⟨o, l, rfl⟩, h⟩

/-- after a pop the new top is waiting (or the stack is empty) -/
theorem pop_turn (M : Machine St Loc α β) {st : St} {l : Loc} {stk : List (Frame Loc β)} {g : G} {tr : List (Ev α β)}
    {p : Option String} (h : SReach M ⟨st, .run l :: stk, g, tr, p⟩) : ∀ f ∈ stk, ∃ o l, f = Frame.wait o l :=
  tail_waits M _ h

/-- as long as no sink has subscribed the trace is empty -/
theorem idle_tr (M : Machine St Loc α β) : ∀ s, SReach M s → (∀ k, s.g.ph.sinkPh k = .idle) → s.tr = [] := by
  intro s hs
  cases hs with
  | init => intro _; rfl
  | @step a b ha hab =>
    intro hk
    have hb : SReach M s := .step ha hab
    have hstk := (idle_empty M hb hk).1
    exfalso
    cases hab with
    | op hop =>
      cases oStep_of_opStep hop with
      | tau _ => simp at hstk
      | call _ => simp at hstk
      | ret _ =>
        have := (idle_empty M ha (by simpa using hk)).1
        simp at this
      | panic _ =>
        have := (idle_empty M ha hk).1
        simp at this
    | env he _ =>
      cases he with
      | call i hc hl => simp at hstk
      | ret hl => simp at hstk

theorem onOut_srcPh_live {β : Type} (g : Ph) (o : Out β) (i : Nat) (h : (g.onOut o).srcPh i = .live) : g.srcPh i = .live := by
  cases o with
  | greet k => simp only [Ph.onOut] at h; split at h <;> simpa using h
  | down k d =>
    simp only [Ph.onOut] at h
    split at h
    · split at h <;> simpa using h
    all_goals simpa using h
  | subSrc j =>
    simp only [Ph.onOut] at h
    split at h
    · simpa using h
    · split at h
      · simpa using h
      · simp only [Ph.srcPh_setSrc] at h
        split at h
        · cases h
        · exact h
  | srcUp j u =>
    cases u <;> simp only [Ph.onOut] at h <;> split at h <;> (try simp only [srcPh_flag, Ph.srcPh_setSrc] at h) <;>
      first
      | exact h
      | (split at h <;> first | cases h | exact h)
  | app b => exact h

end Generic

/-! ## Part 3: the tail `for_each`: while its upstream is live and control is not inside a handler that is about to pull, the
upstream owes an answer -/
namespace ForEachK
variable {α : Type}

/-- the handler on top of the stack is about to send a Pull -/
def Pending : List (Frame (ForEach.Loc α) α) → Prop
  | .run .g0 :: _ => True
  | .run .pull :: _ => True
  | .run (.d0 _) :: _ => True
  | .wait _ .pull :: _ => True
  | _ => False

def K (s : Sys ForEach.St (ForEach.Loc α) α α) : Prop :=
  s.panicked = none → Pending s.stack ∨ s.g.ph.srcPh 0 ≠ .live ∨ bP s.tr = true

theorem K_reach : ∀ s, SReach (ForEach.machine α) s → K s := by
  apply reach_ind
  · intro _; exact .inr (.inl (by simp [Sys.init]))
  · intro a b ha ih h
    cases h with
    | @tau st l stk g tr s' l' hst =>
      intro _
      cases l <;> simp [ForEach.machine, ForEach.step] at hst
      · obtain ⟨rfl, rfl⟩ := hst; exact .inl (by simp [Pending])
      · split at hst <;> cases hst
    | @call st l stk g tr o s' l' hst =>
      intro _
      have ih := ih rfl
      cases l <;> simp [ForEach.machine, ForEach.step] at hst
      · obtain ⟨rfl, rfl, rfl⟩ := hst
        simp only [Pending, false_or] at ih
        rcases ih with h | h
        · exact .inr (.inl (fun hl => h (onOut_srcPh_live _ _ _ (by simpa using hl))))
        · exact .inr (.inr (by simpa [bP, srcEvs, srcEv, lastPullSrc, relSrc] using h))
      · split at hst
        · simp at hst
          obtain ⟨rfl, rfl, rfl⟩ := hst
          exact .inr (.inr (by simp [bP, srcEvs, srcEv, lastPullSrc, relSrc]))
        · cases hst
      · obtain ⟨rfl, rfl, rfl⟩ := hst
        exact .inl (by simp [Pending])
    | @ret st l stk g tr hst =>
      intro _
      have ih := ih rfl
      cases l <;> simp [ForEach.machine, ForEach.step] at hst
      · simp only [Pending, false_or] at ih
        rcases ih with h | h
        · exact .inr (.inl (by simpa using h))
        · exact .inr (.inr (by simpa [bP, srcEvs, srcEv] using h))
      · split at hst <;> cases hst
    | panic hst => intro hp; cases hp
  · intro a b m ha ih h
    cases h with
    | @call st stk g tr c i hc hl =>
      intro _
      have ih := ih rfl
      have hinv := inv_at_turn (ForEach.machine α) ForEach.Inv ForEach.inv_init
        (fun s hi => (ForEach.inv_turn s hi).1) ForEach.inv_step ha ⟨rfl, by simp [hc]⟩
      obtain ⟨_, _, hoth, hoths, hm⟩ := hinv
      simp only at hoth hoths hm
      cases i with
      | subscribe k =>
        simp only [legalIn, Bool.and_eq_true, beq_iff_eq] at hl
        have hstk : stk = [] := by
          cases stk with
          | nil => rfl
          | cons f r => cases f <;> simp [ctxOf] at hc <;> (subst hc; simp [isTop] at hl)
        subst hstk
        simp only [Pending, false_or] at ih
        rcases ih with h | h
        · exact .inr (.inl (by simpa [Ph.onIn] using h))
        · exact .inr (.inr (by simpa [bP, srcEvs, srcEv] using h))
      | sinkUp k u =>
        simp only [legalIn, Bool.and_eq_true, beq_iff_eq] at hl
        exfalso
        by_cases hk : k = 0
        · subst hk; cases hm <;> simp_all
        · rw [hoths k hk] at hl; cases hl.1
      | srcGreet j => exact .inl (by simp [Pending, ForEach.machine, ForEach.enter])
      | srcDown j d =>
        simp only [legalIn, Bool.and_eq_true, beq_iff_eq] at hl
        have hj : j = 0 := by
          by_cases hj : j = 0
          · exact hj
          · rw [hoth j hj] at hl; cases hl.1
        subst hj
        cases d with
        | data x => exact .inl (by simp [Pending, ForEach.machine, ForEach.enter])
        | term => exact .inr (.inl (by simp [Ph.onIn]))
        | err e => exact .inr (.inl (by simp [Ph.onIn]))
    | @ret st stk g tr o l hl =>
      intro _
      have ih := ih rfl
      have keep : ¬ Pending (Frame.wait o l :: stk) →
          (g.ph.srcPh 0 ≠ .live ∨ bP (Ev.retE :: tr : List (Ev α α)) = true) := by
        intro hn
        rcases ih with h | h | h
        · exact absurd h hn
        · exact .inl h
        · exact .inr (by simpa [bP, srcEvs, srcEv] using h)
      cases l with
      | done => exact .inr (keep (by simp [Pending]))
      | sub0 => exact .inr (keep (by simp [Pending]))
      | g0 => exact .inl (by simp [Pending])
      | pull => exact .inl (by simp [Pending])
      | d0 a => exact .inl (by simp [Pending])

end ForEachK

/-- `for_each` at its top level: while the upstream is live it owes an answer (a Pull was sent at the greeting and after every
datum) -/
theorem ForEach.owes {α : Type} : ∀ s, SReach (ForEach.machine α) s → s.stack = [] → s.panicked = none →
    s.g.ph.srcPh 0 = .live → bP s.tr = true := by
  intro s hs hstk hp hl
  rcases ForEachK.K_reach s hs hp with h | h | h
  · rw [hstk] at h; simp [ForEachK.Pending] at h
  · exact absurd hl h
  · exact h


/-! ## Part 4: relays pass an unserved Pull on -/
namespace RelayK
variable {σ α β : Type}

/-- a handler that has consumed a Pull or a delivery and has not yet produced its answer -/
def Exc : List (Frame (Relay.Loc α β) β) → Prop
  | .run (.d0 _) :: _ => True
  | .run (.emit _) :: _ => True
  | .run .repull :: _ => True
  | .run (.fwd _) :: _ => True
  | .run (.u0 .pull) :: _ => True
  | _ => False

/-- every continuation is `done` -/
def Fr (stk : List (Frame (Relay.Loc α β) β)) : Prop := ∀ f ∈ stk, ∀ o l, f = Frame.wait o l → l = Relay.Loc.done

theorem Fr.run {l : Relay.Loc α β} {stk : List (Frame (Relay.Loc α β) β)} (h : Fr stk) : Fr (.run l :: stk) := by
  intro f hf o l' he
  rcases List.mem_cons.1 hf with rfl | hf
  · cases he
  · exact h f hf o l' he

theorem Fr.wait {o : Out β} {stk : List (Frame (Relay.Loc α β) β)} (h : Fr stk) : Fr (.wait o .done :: stk) := by
  intro f hf o' l' he
  rcases List.mem_cons.1 hf with rfl | hf
  · cases he; rfl
  · exact h f hf o' l' he

theorem Fr.tail {f : Frame (Relay.Loc α β) β} {stk : List (Frame (Relay.Loc α β) β)} (h : Fr (f :: stk)) : Fr stk :=
  fun f' hf' => h f' (List.mem_cons_of_mem _ hf')

def Q (tr : List (Ev α β)) : Prop := aP tr = true → bP tr = true

def K (s : Sys (Relay.St σ) (Relay.Loc α β) α β) : Prop :=
  s.panicked = none → Fr s.stack ∧ (Exc s.stack ∨ Q s.tr)

macro "evs" : tactic =>
  `(tactic| simp [Q, aP, bP, sinkEvs, sinkEv, srcEvs, srcEv, lastPull, lastPullSrc, relS, relSrc] at *)

macro "noway" h:ident : tactic =>
  `(tactic| first
      | (simp [Relay.machine, Relay.step] at $h:ident; done)
      | (simp [Relay.machine, Relay.step] at $h:ident; split at $h:ident <;> simp at $h:ident; done))

theorem K_reach (k : Relay.Kind σ α β) : ∀ s, SReach (Relay.machine k) s → K s := by
  apply reach_ind
  · intro _; exact ⟨fun f hf => (by cases hf), .inr (by intro h; simp [aP, sinkEvs, lastPull, Sys.init] at h)⟩
  · intro a b ha ih h
    cases h with
    | @tau st l stk g tr s' l' hst =>
      intro _
      obtain ⟨hf, hq⟩ := ih rfl
      simp only at hf hq ⊢
      refine ⟨hf.tail.run, ?_⟩
      cases l with
      | g0 =>
        have : l' = .g1 := by
          simp [Relay.machine, Relay.step] at hst; split at hst <;> simp at hst <;> exact hst.2.symm
        subst this
        simpa [Exc] using hq
      | d0 x =>
        have : l' = .repull ∨ ∃ y, l' = .emit y := by
          simp [Relay.machine, Relay.step] at hst
          split at hst <;> simp at hst
          · exact .inr ⟨_, hst.2.symm⟩
          · exact .inl hst.2.symm
        rcases this with rfl | ⟨y, rfl⟩ <;> exact .inl (by simp [Exc])
      | sub0 => noway hst
      | done => noway hst
      | g1 => noway hst
      | emit y => noway hst
      | repull => noway hst
      | fwd d => noway hst
      | u0 u => noway hst
    | @call st l stk g tr o s' l' hst =>
      intro _
      obtain ⟨hf, hq⟩ := ih rfl
      simp only at hf hq ⊢
      cases l with
      | sub0 =>
        simp [Relay.machine, Relay.step] at hst
        obtain ⟨rfl, rfl, rfl⟩ := hst
        refine ⟨hf.tail.wait, .inr ?_⟩
        simp only [Exc, false_or] at hq
        evs; exact hq
      | g1 =>
        simp [Relay.machine, Relay.step] at hst
        obtain ⟨rfl, rfl, rfl⟩ := hst
        refine ⟨hf.tail.wait, .inr ?_⟩
        simp only [Exc, false_or] at hq
        evs; exact hq
      | emit y =>
        simp [Relay.machine, Relay.step] at hst
        obtain ⟨rfl, rfl, rfl⟩ := hst
        exact ⟨hf.tail.wait, .inr (by evs)⟩
      | fwd d =>
        simp [Relay.machine, Relay.step] at hst
        obtain ⟨rfl, rfl, rfl⟩ := hst
        exact ⟨hf.tail.wait, .inr (by evs)⟩
      | repull =>
        simp [Relay.machine, Relay.step] at hst
        split at hst <;> simp at hst
        obtain ⟨rfl, rfl, rfl⟩ := hst
        exact ⟨hf.tail.wait, .inr (by evs)⟩
      | u0 u =>
        simp [Relay.machine, Relay.step] at hst
        split at hst <;> simp at hst
        obtain ⟨rfl, rfl, rfl⟩ := hst
        refine ⟨hf.tail.wait, .inr ?_⟩
        cases u with
        | pull => evs
        | term => simp only [Exc, false_or] at hq; evs; exact hq
        | err e => simp only [Exc, false_or] at hq; evs; exact hq
      | done => noway hst
      | g0 => noway hst
      | d0 x => noway hst
    | @ret st l stk g tr hst =>
      intro _
      obtain ⟨hf, hq⟩ := ih rfl
      simp only at hf hq ⊢
      cases l with
      | done =>
        refine ⟨hf.tail, .inr ?_⟩
        simp only [Exc, false_or] at hq
        evs; exact hq
      | sub0 => noway hst
      | g0 => noway hst
      | g1 => noway hst
      | d0 x => noway hst
      | emit y => noway hst
      | repull => noway hst
      | fwd d => noway hst
      | u0 u => noway hst
    | panic hst => intro hp; cases hp
  · intro a b m ha ih h
    cases h with
    | @call st stk g tr c i hc hl =>
      intro _
      obtain ⟨hf, hq⟩ := ih rfl
      simp only at hf hq ⊢
      have hne : ¬ Exc stk := by
        cases stk with
        | nil => simp [Exc]
        | cons f r => cases f <;> simp [ctxOf] at hc <;> simp [Exc]
      have hq : Q tr := hq.resolve_left hne
      refine ⟨hf.run, ?_⟩
      cases i with
      | subscribe j => exact .inr (by evs; exact hq)
      | sinkUp j u =>
        cases u with
        | pull => exact .inl (by simp [Exc, Relay.machine, Relay.enter])
        | term => exact .inr (by evs; exact hq)
        | err e => exact .inr (by evs; exact hq)
      | srcGreet j => exact .inr (by evs; exact hq)
      | srcDown j d => cases d <;> exact .inl (by simp [Exc, Relay.machine, Relay.enter])
    | @ret st stk g tr o l hl =>
      intro _
      obtain ⟨hf, hq⟩ := ih rfl
      simp only at hf hq ⊢
      have hl' : l = .done := hf _ (List.mem_cons_self) o l rfl
      subst hl'
      refine ⟨hf.tail.run, .inr ?_⟩
      simp only [Exc, false_or] at hq
      evs; exact hq

end RelayK


/-! ## Part 5: the guarantees, and their closure under `compose` -/
section Packaging
variable {S1 L1 S2 L2 St Loc α β γ : Type}

/-- a stage with its demand guarantees, all at ITS top level (`s.stack = []`) -/
structure DemandStage (M : Machine St Loc α β) (F : List α → List β) : Prop where
  mono : MonoStage M F
  /-- a live sink has a live upstream -/
  liveUp : ∀ s, SReach M s → s.stack = [] → s.g.ph.sinkPh 0 = .live → s.g.ph.srcPh 0 = .live
  /-- an unserved Pull of the sink has been passed on: the upstream owes an answer -/
  fwdPull : ∀ s, SReach M s → s.stack = [] → s.g.ph.sinkPh 0 = .live → aP s.tr = true → bP s.tr = true
  /-- the terminal is delivered only when the upstream has ended or the output is final -/
  fin : ∀ s, SReach M s → s.stack = [] → s.g.ph.sinkPh 0 = .doneBySrc →
    s.g.ph.srcPh 0 = .ended ∨ ∀ ys, sentData 0 s.tr <+: ys → F ys = F (sentData 0 s.tr)

/-- a head with its guarantees, all at ITS top level -/
structure HeadOk (M : Machine St Loc α β) (ys : List β) : Prop where
  up : UpSide M
  spec : SrcSpec M ys
  /-- a sink that received the terminal received everything -/
  done : ∀ s, SReach M s → s.stack = [] → s.g.ph.sinkPh 0 = .doneBySrc → recvData 0 s.tr = ys
  /-- a live sink has no unserved Pull -/
  served : ∀ s, SReach M s → s.stack = [] → s.g.ph.sinkPh 0 = .live → aP s.tr = false

/-- the pipeline's top level, projected: both components are at THEIR top level -/
theorem proj_top {M1 : Machine S1 L1 α β} {M2 : Machine S2 L2 β γ} (H : Hyp M1 M2)
    {s : Sys (S1 × S2) (List (CFr L1 L2)) α γ} (hs : SReach (compose M1 M2) s) (hstk : s.stack = []) :
    ∃ s1 s2, SReach M1 s1 ∧ SReach M2 s2 ∧ s1.stack = [] ∧ s2.stack = [] ∧ EnvTurn s1 ∧ EnvTurn s2 ∧
      GhostRel s.g.ph s1.g.ph s2.g.ph ∧ TrRel s.tr s1.tr s2.tr ∧ Proj s s1 s2 := by
  obtain ⟨s1, s2, hr1, hr2, hm, htr⟩ := compose_inv_tr H s hs
  have hp := Proj.of hm htr
  obtain ⟨st, stk, g, tr, p⟩ := s
  obtain ⟨st1, k1, g1, tr1, p1⟩ := s1
  obtain ⟨st2, k2, g2, tr2, p2⟩ := s2
  obtain ⟨_, _, hp1, hp2, hgh, hsm⟩ := hm
  simp only at hstk hp1 hp2 hgh hsm htr
  subst hstk hp1 hp2
  cases hsm with
  | turn hrel =>
    cases hrel with
    | nil => exact ⟨_, _, hr1, hr2, rfl, rfl, ⟨rfl, rfl⟩, ⟨rfl, rfl⟩, hgh, htr, hp⟩

theorem toSrc_ended {p : SinkPh} : toSrc p = .ended ↔ p = .doneBySrc := by cases p <;> simp [toSrc]

theorem DemandStage.compose {M1 : Machine S1 L1 α β} {M2 : Machine S2 L2 β γ} {F1 : List α → List β} {F2 : List β → List γ}
    (d1 : DemandStage M1 F1) (d2 : DemandStage M2 F2) : DemandStage (Cb.compose M1 M2) (F2 ∘ F1) := by
  have H : Hyp M1 M2 := hyp_of_roles d1.mono.stage.pipe.upSide d2.mono.stage.pipe.downSide
  refine ⟨d1.mono.compose d2.mono, ?_, ?_, ?_⟩
  · intro s hs hstk hl
    obtain ⟨s1, s2, hr1, hr2, hk1, hk2, _, _, hgh, htr, _⟩ := proj_top H hs hstk
    rw [hgh.src 0]
    apply d1.liveUp s1 hr1 hk1
    have := d2.liveUp s2 hr2 hk2 (by rw [← hgh.sink 0]; exact hl)
    exact toSrc_live.1 (hgh.ifc ▸ this)
  · intro s hs hstk hl ha
    obtain ⟨s1, s2, hr1, hr2, hk1, hk2, _, _, hgh, htr, _⟩ := proj_top H hs hstk
    have hl2 : s2.g.ph.sinkPh 0 = .live := by rw [← hgh.sink 0]; exact hl
    have hl1 : s1.g.ph.sinkPh 0 = .live := toSrc_live.1 (hgh.ifc ▸ d2.liveUp s2 hr2 hk2 hl2)
    have hb2 := d2.fwdPull s2 hr2 hk2 hl2 (by simpa [aP, htr.sink] using ha)
    have ha1 : aP s1.tr = true := by simpa [aP, bP, lastPull_dual, htr.ifc] using hb2
    have hb1 := d1.fwdPull s1 hr1 hk1 hl1 ha1
    simpa [bP, htr.src] using hb1
  · intro s hs hstk hd
    obtain ⟨s1, s2, hr1, hr2, hk1, hk2, ht1, ht2, hgh, htr, hp⟩ := proj_top H hs hstk
    have hd2 : s2.g.ph.sinkPh 0 = .doneBySrc := by rw [← hgh.sink 0]; exact hd
    have hio1 := d1.mono.stage.io s1 hr1 ht1
    have hsent2 : sentData 0 s2.tr = F1 (sentData 0 s.tr) := by rw [← hp.ifc 0, hio1, hp.sent 0]
    rcases d2.fin s2 hr2 hk2 hd2 with he | hfin
    · have hd1 : s1.g.ph.sinkPh 0 = .doneBySrc := toSrc_ended.1 (hgh.ifc ▸ he)
      rcases d1.fin s1 hr1 hk1 hd1 with he1 | hfin1
      · exact .inl (by rw [hgh.src 0]; exact he1)
      · right
        intro ys hys
        rw [hp.sent 0] at hys
        simp only [Function.comp, hp.sent 0, hfin1 ys hys]
    · right
      intro ys hys
      have := hfin (F1 ys) (by rw [hsent2]; exact d1.mono.mono _ _ hys)
      simp only [Function.comp, this, hsent2]

/-- a head followed by a stage is a head -/
theorem HeadOk.compose {M1 : Machine S1 L1 α β} {M2 : Machine S2 L2 β γ} {ys : List β} {F : List β → List γ}
    (h : HeadOk M1 ys) (d : DemandStage M2 F) : HeadOk (Cb.compose M1 M2) (F ys) := by
  have H : Hyp M1 M2 := hyp_of_roles h.up d.mono.stage.pipe.downSide
  refine ⟨h.up.compose' d.mono.stage.pipe, SrcSpec.compose h.up h.spec d.mono.stage d.mono.mono, ?_, ?_⟩
  · intro s hs hstk hd
    obtain ⟨s1, s2, hr1, hr2, hk1, hk2, ht1, ht2, hgh, htr, hp⟩ := proj_top H hs hstk
    have hd2 : s2.g.ph.sinkPh 0 = .doneBySrc := by rw [← hgh.sink 0]; exact hd
    have hio2 := d.mono.stage.io s2 hr2 ht2
    rw [hp.recv 0, hio2]
    rcases d.fin s2 hr2 hk2 hd2 with he | hfin
    · have hd1 : s1.g.ph.sinkPh 0 = .doneBySrc := toSrc_ended.1 (hgh.ifc ▸ he)
      rw [← hp.ifc 0, h.done s1 hr1 hk1 hd1]
    · exact (hfin ys (by rw [← hp.ifc 0]; exact h.spec s1 hr1 ht1)).symm
  · intro s hs hstk hl
    obtain ⟨s1, s2, hr1, hr2, hk1, hk2, _, _, hgh, htr, _⟩ := proj_top H hs hstk
    have hl2 : s2.g.ph.sinkPh 0 = .live := by rw [← hgh.sink 0]; exact hl
    have hl1 : s1.g.ph.sinkPh 0 = .live := toSrc_live.1 (hgh.ifc ▸ d.liveUp s2 hr2 hk2 hl2)
    have hserved := h.served s1 hr1 hk1 hl1
    cases ha : aP s.tr with
    | false => rfl
    | true =>
      have hb2 := d.fwdPull s2 hr2 hk2 hl2 (by simpa [aP, htr.sink] using ha)
      have ha1 : aP s1.tr = true := by simpa [aP, bP, lastPull_dual, htr.ifc] using hb2
      rw [hserved] at ha1; cases ha1

/-- **completeness, general form**: when `for_each(f)(head)` has returned, `f` has been applied to everything -/
theorem closed_complete {M : Machine S1 L1 α β} {ys : List β} (h : HeadOk M ys) :
    ∀ s, SReach (compose M (ForEach.machine β)) s → s.stack = [] → s.tr ≠ [] → applied s.tr = ys := by
  intro s hs hstk hne
  have H : Hyp M (ForEach.machine β) := hyp_of_roles h.up ForEach.downSide
  obtain ⟨s1, s2, hr1, hr2, hk1, hk2, ht1, ht2, hgh, htr, hp⟩ := proj_top H hs hstk
  obtain ⟨_, _, hoth, hoths, hm⟩ := inv_at_turn (ForEach.machine β) ForEach.Inv ForEach.inv_init
    (fun s hi => (ForEach.inv_turn s hi).1) ForEach.inv_step hr2 ht2
  rw [hp.app, ForEach.applied_eq_sent s2 hr2 ht2, ← hp.ifc 0]
  cases hm with
  | m1 h1 _ _ =>
    exfalso
    apply hne
    apply idle_tr _ s hs
    intro k
    rw [hgh.sink k]
    by_cases hk : k = 0
    · subst hk; exact h1
    · exact hoths k hk
  | m2 _ _ h5 => rw [hk2] at h5; cases h5
  | m3 _ h2 _ _ =>
    exfalso
    have hb := ForEach.owes s2 hr2 hk2 ht2.1 h2
    have hl1 : s1.g.ph.sinkPh 0 = .live := toSrc_live.1 (hgh.ifc ▸ h2)
    have ha1 : aP s1.tr = true := by simpa [aP, bP, lastPull_dual, htr.ifc] using hb
    rw [h.served s1 hr1 hk1 hl1] at ha1; cases ha1
  | m3a _ _ _ h5 => obtain ⟨a, r, h5, _⟩ := h5; rw [hk2] at h5; cases h5
  | m4 _ h2 _ =>
    exact h.done s1 hr1 hk1 (toSrc_ended.1 (hgh.ifc ▸ h2))

end Packaging

/-! ## Part 6: instances -/

theorem Relay.demandStage {σ α β : Type} (k : Relay.Kind σ α β) (hk : k.slotted = false → ∀ s a, (k.xfer s a).2 ≠ none) :
    DemandStage (Relay.machine k) (xferOut k.xfer k.seed) := by
  have hinv : ∀ s, SReach (Relay.machine k) s → s.stack = [] → Relay.Inv k s := fun s hs hstk =>
    inv_at_turn (Relay.machine k) (Relay.Inv k) (Relay.inv_init k) (fun s hi => (Relay.inv_turn k s hi).1)
      (Relay.inv_step k hk) hs ⟨(Relay.relay_basicSafe k hk s hs).2, by simp [hstk, ctxOf]⟩
  refine ⟨Relay.monoStage k hk, ?_, ?_, ?_⟩
  · intro s hs hstk hl
    obtain ⟨_, _, _, _, hm⟩ := hinv s hs hstk
    cases hm <;> simp_all
  · intro s hs hstk hl ha
    obtain ⟨_, hq⟩ := RelayK.K_reach k s hs (Relay.relay_basicSafe k hk s hs).2
    rw [hstk] at hq
    rcases hq with hq | hq
    · simp [RelayK.Exc] at hq
    · exact hq ha
  · intro s hs hstk hd
    obtain ⟨_, _, _, _, hm⟩ := hinv s hs hstk
    left
    cases hm <;> simp_all


/-! ## Part 7: the head `from_iter`: a live sink has no unserved Pull once control is back at top level -/
namespace FromIterK
variable {ι α α' : Type}

abbrev Fm (α : Type) := Frame FromIter.Loc α

/-- continuations of `from_iter` -/
def Fr (stk : List (Fm α)) : Prop :=
  ∀ f ∈ stk, ∀ o l, f = Frame.wait o l → l = FromIter.Loc.done ∨ l = FromIter.Loc.w0 ∨ l = FromIter.Loc.lend

/-- the terminal is being delivered -/
def LendIn (stk : List (Fm α)) : Prop := ∃ o, Frame.wait o FromIter.Loc.lend ∈ stk

/-- Floyd-style assertion on the top of the stack; `a` = the sink has an unserved Pull -/
def TopA (st : FromIter.St ι α) (a : Bool) : List (Fm α) → Prop
  | .run (.t0 .pull) :: _ => st.resDone = false
  | .run (.t1 .pull) :: _ => st.resDone = false
  | .run .pl1 :: _ => st.resDone = false ∧ st.gotPull = true
  | .run .pl2 :: _ => st.resDone = false ∧ st.gotPull = true
  | .run .l0 :: _ => st.gotPull = true
  | .run .w3 :: _ => True
  | .run .w4 :: _ => True
  | .run .lend :: _ => a = false
  | _ => a = true → st.gotPull = true ∧ st.inLoop = true

def K (s : Sys (FromIter.St ι α) FromIter.Loc α' α) : Prop :=
  s.panicked = none → Fr s.stack ∧
    (s.st.completed = true ∨ ((LendIn s.stack → aP s.tr = false) ∧ TopA s.st (aP s.tr) s.stack))

theorem Fr.run {l : FromIter.Loc} {stk : List (Fm α)} (h : Fr stk) : Fr (.run l :: stk) := by
  intro f hf o l' he
  rcases List.mem_cons.1 hf with rfl | hf
  · cases he
  · exact h f hf o l' he

theorem Fr.tail {f : Fm α} {stk : List (Fm α)} (h : Fr (f :: stk)) : Fr stk :=
  fun f' hf' => h f' (List.mem_cons_of_mem _ hf')

theorem Fr.wait {o : Out α} {l : FromIter.Loc} {stk : List (Fm α)} (h : Fr stk)
    (hl : l = .done ∨ l = .w0 ∨ l = .lend) : Fr (.wait o l :: stk) := by
  intro f hf o' l' he
  rcases List.mem_cons.1 hf with rfl | hf
  · cases he; exact hl
  · exact h f hf o' l' he

theorem topA_turn {st : FromIter.St ι α} {a : Bool} {stk : List (Fm α)} (h : ∀ f ∈ stk, ∃ o l, f = Frame.wait o l) :
    TopA st a stk ↔ (a = true → st.gotPull = true ∧ st.inLoop = true) := by
  cases stk with
  | nil => simp [TopA]
  | cons f r =>
    obtain ⟨o, l, rfl⟩ := h f (List.mem_cons_self)
    simp [TopA]

theorem turn_waits {stk : List (Fm α)} {c : Ctx α} (hc : ctxOf stk = some c)
    (h : ∀ f ∈ stk.tail, ∃ o l, f = Frame.wait o l) : ∀ f ∈ stk, ∃ o l, f = Frame.wait o l := by
  cases stk with
  | nil => intro f hf; cases hf
  | cons f r =>
    cases f with
    | run l => simp [ctxOf] at hc
    | wait o l => exact List.forall_mem_cons.2 ⟨⟨o, l, rfl⟩, h⟩

macro "fnoway" h:ident : tactic =>
  `(tactic| first
      | (simp [FromIter.machine, FromIter.step] at $h:ident; done)
      | (simp [FromIter.machine, FromIter.step] at $h:ident; split at $h:ident <;> simp at $h:ident; done)
      | (simp [FromIter.machine, FromIter.step] at $h:ident; split at $h:ident <;> (try split at $h:ident) <;> simp at $h:ident; done))

macro "aps" : tactic => `(tactic| simp [aP, sinkEvs, sinkEv, lastPull, relS] at *)

theorem K_reach (next : ι → Option (α × ι)) (it0 : ι) : ∀ s, SReach (FromIter.machine α' next it0) s → K s := by
  apply reach_ind
  · intro _
    exact ⟨fun f hf => (by cases hf), .inr ⟨fun _ => by simp [aP, sinkEvs, lastPull, Sys.init],
      by simp [TopA, aP, sinkEvs, lastPull, Sys.init]⟩⟩
  · intro a b ha ih h
    cases h with
    | @tau st l stk g tr s' l' hst =>
      intro _
      obtain ⟨hf, hq⟩ := ih rfl
      simp only at hf hq ⊢
      refine ⟨hf.tail.run, ?_⟩
      have hLrun : ∀ l1 l2 : FromIter.Loc, LendIn (Frame.run l1 :: stk : List (Fm α)) → LendIn (Frame.run l2 :: stk) := by
        intro l1 l2 ⟨o, ho⟩; exact ⟨o, by simpa using ho⟩
      cases l with
      | t0 u =>
        simp [FromIter.machine, FromIter.step] at hst
        split at hst <;> simp at hst
        obtain ⟨rfl, rfl⟩ := hst
        rcases hq with hq | ⟨hL, hT⟩
        · exact .inl hq
        · refine .inr ⟨fun h => hL (hLrun _ _ h), ?_⟩
          cases u <;> simpa [TopA] using hT
      | t1 u =>
        cases u with
        | pull =>
          simp [FromIter.machine, FromIter.step] at hst
          obtain ⟨rfl, rfl⟩ := hst
          rcases hq with hq | ⟨hL, hT⟩
          · exact .inl hq
          · exact .inr ⟨fun h => hL (hLrun _ _ h), by simp [TopA] at hT ⊢; exact hT⟩
        | term => simp [FromIter.machine, FromIter.step] at hst; obtain ⟨rfl, rfl⟩ := hst; exact .inl rfl
        | err e => simp [FromIter.machine, FromIter.step] at hst; obtain ⟨rfl, rfl⟩ := hst; exact .inl rfl
      | pl1 =>
        simp [FromIter.machine, FromIter.step] at hst
        split at hst <;> simp at hst
        obtain ⟨rfl, rfl⟩ := hst
        rcases hq with hq | ⟨hL, hT⟩
        · exact .inl hq
        · exact .inr ⟨fun h => hL (hLrun _ _ h), by simpa [TopA] using hT⟩
      | pl2 =>
        simp [FromIter.machine, FromIter.step] at hst
        split at hst <;> simp at hst
        obtain ⟨rfl, rfl⟩ := hst
        rcases hq with hq | ⟨hL, hT⟩
        · exact .inl hq
        · exact .inr ⟨fun h => hL (hLrun _ _ h), by simp [TopA] at hT ⊢; exact hT.2⟩
      | l0 =>
        simp [FromIter.machine, FromIter.step] at hst
        obtain ⟨rfl, rfl⟩ := hst
        rcases hq with hq | ⟨hL, hT⟩
        · exact .inl hq
        · exact .inr ⟨fun h => hL (hLrun _ _ h), by simp [TopA] at hT ⊢; exact fun _ => hT⟩
      | w0 =>
        simp [FromIter.machine, FromIter.step] at hst
        split at hst <;> simp at hst <;> obtain ⟨rfl, rfl⟩ := hst
        · rcases hq with hq | ⟨hL, hT⟩
          · exact .inl hq
          · exact .inr ⟨fun h => hL (hLrun _ _ h), by simpa [TopA] using hT⟩
        · rcases hq with hq | ⟨hL, hT⟩
          · exact .inl hq
          · refine .inr ⟨fun h => hL (hLrun _ _ h), ?_⟩
            simp [TopA] at hT ⊢
            cases ha' : aP tr with
            | false => rfl
            | true => exact absurd (hT ha').1 ‹¬ st.gotPull = true›
      | w1 =>
        simp [FromIter.machine, FromIter.step] at hst
        split at hst <;> simp at hst <;> obtain ⟨rfl, rfl⟩ := hst
        · rcases hq with hq | ⟨hL, hT⟩
          · exact .inl hq
          · exact .inr ⟨fun h => hL (hLrun _ _ h), by simpa [TopA] using hT⟩
        · exact .inl (by simp_all)
      | w2 =>
        simp [FromIter.machine, FromIter.step] at hst
        obtain ⟨rfl, rfl⟩ := hst
        rcases hq with hq | ⟨hL, hT⟩
        · exact .inl hq
        · exact .inr ⟨fun h => hL (hLrun _ _ h), by simp [TopA]⟩
      | w3 =>
        simp [FromIter.machine, FromIter.step] at hst
        split at hst <;> simp at hst <;> obtain ⟨rfl, rfl⟩ := hst
        all_goals
          rcases hq with hq | ⟨hL, hT⟩
          · exact .inl hq
          · exact .inr ⟨fun h => hL (hLrun _ _ h), by simp [TopA]⟩
      | lend =>
        simp [FromIter.machine, FromIter.step] at hst
        obtain ⟨rfl, rfl⟩ := hst
        rcases hq with hq | ⟨hL, hT⟩
        · exact .inl hq
        · refine .inr ⟨fun h => hL (hLrun _ _ h), ?_⟩
          simp [TopA] at hT ⊢
          exact hT
      | done => fnoway hst
      | sub0 => fnoway hst
      | w4 => fnoway hst
    | @call st l stk g tr o s' l' hst =>
      intro _
      obtain ⟨hf, hq⟩ := ih rfl
      simp only at hf hq ⊢
      cases l with
      | sub0 =>
        simp [FromIter.machine, FromIter.step] at hst
        obtain ⟨rfl, rfl, rfl⟩ := hst
        refine ⟨hf.tail.wait (.inl rfl), ?_⟩
        rcases hq with hq | ⟨hL, hT⟩
        · exact .inl hq
        · refine .inr ⟨?_, ?_⟩
          · intro ⟨o, ho⟩
            have : LendIn (Frame.run FromIter.Loc.sub0 :: stk : List (Fm α)) := ⟨o, by simpa using ho⟩
            have := hL this; aps; exact this
          · simp [TopA] at hT ⊢; aps; exact hT
      | w4 =>
        simp [FromIter.machine, FromIter.step] at hst
        split at hst
        · simp at hst
          obtain ⟨rfl, rfl, rfl⟩ := hst
          refine ⟨hf.tail.wait (.inr (.inr rfl)), ?_⟩
          rcases hq with hq | ⟨hL, hT⟩
          · exact .inl hq
          · exact .inr ⟨fun _ => by aps, by simp [TopA]; aps⟩
        · split at hst <;> simp at hst
          obtain ⟨rfl, rfl, rfl⟩ := hst
          refine ⟨hf.tail.wait (.inr (.inl rfl)), ?_⟩
          rcases hq with hq | ⟨hL, hT⟩
          · exact .inl hq
          · exact .inr ⟨fun _ => by aps, by simp [TopA]; aps⟩
      | done => fnoway hst
      | t0 u => fnoway hst
      | t1 u => cases u <;> fnoway hst
      | pl1 => fnoway hst
      | pl2 => fnoway hst
      | l0 => fnoway hst
      | w0 => fnoway hst
      | w1 => fnoway hst
      | w2 => fnoway hst
      | w3 => fnoway hst
      | lend => fnoway hst
    | @ret st l stk g tr hst =>
      intro _
      obtain ⟨hf, hq⟩ := ih rfl
      simp only at hf hq ⊢
      have hw := pop_turn _ ha
      refine ⟨hf.tail, ?_⟩
      have hLpop : LendIn stk → LendIn (Frame.run l :: stk : List (Fm α)) := by
        intro ⟨o, ho⟩; exact ⟨o, List.mem_cons_of_mem _ ho⟩
      have hap : aP (Ev.retO :: tr : List (Ev α' α)) = aP tr := by simp [aP, sinkEvs, sinkEv]
      rw [hap, topA_turn hw]
      cases l with
      | done =>
        rcases hq with hq | ⟨hL, hT⟩
        · exact .inl hq
        · exact .inr ⟨fun h => hL (hLpop h), by simpa [TopA] using hT⟩
      | t0 u =>
        simp [FromIter.machine, FromIter.step] at hst
        exact .inl hst
      | pl1 =>
        simp [FromIter.machine, FromIter.step] at hst
        rcases hq with hq | ⟨hL, hT⟩
        · exact .inl hq
        · refine .inr ⟨fun h => hL (hLpop h), ?_⟩
          simp [TopA] at hT
          intro _; exact ⟨hT.2, hst⟩
      | pl2 =>
        simp [FromIter.machine, FromIter.step] at hst
        rcases hq with hq | ⟨hL, hT⟩
        · exact .inl hq
        · simp [TopA] at hT; rw [hT.1] at hst; cases hst
      | sub0 => fnoway hst
      | t1 u => cases u <;> fnoway hst
      | l0 => fnoway hst
      | w0 => fnoway hst
      | w1 => fnoway hst
      | w2 => fnoway hst
      | w3 => fnoway hst
      | w4 => fnoway hst
      | lend => fnoway hst
    | panic hst => intro hp; cases hp
  · intro a b m ha ih h
    cases h with
    | @call st stk g tr c i hc hl =>
      intro _
      obtain ⟨hf, hq⟩ := ih rfl
      simp only at hf hq ⊢
      have hw := turn_waits hc (tail_waits _ _ ha)
      rw [topA_turn hw] at hq
      obtain ⟨_, _, hsrc, hoths, hm⟩ := inv_at_turn (FromIter.machine α' next it0) FromIter.Inv (FromIter.inv_init next it0)
        (fun s hi => (FromIter.inv_turn s hi).1) (FromIter.inv_step next it0) ha ⟨rfl, by simp [hc]⟩
      simp only at hsrc hoths hm
      refine ⟨hf.run, ?_⟩
      have hLrun : ∀ l1 : FromIter.Loc, LendIn (Frame.run l1 :: stk : List (Fm α)) → LendIn stk := by
        intro l1 ⟨o, ho⟩; exact ⟨o, by simpa using ho⟩
      cases i with
      | subscribe k =>
        rcases hq with hq | ⟨hL, hT⟩
        · exact .inl hq
        · refine .inr ⟨fun h => by have := hL (hLrun _ h); aps; exact this, ?_⟩
          simp [TopA, FromIter.machine, FromIter.enter]; aps; exact hT
      | sinkUp k u =>
        simp only [legalIn, Bool.and_eq_true, beq_iff_eq] at hl
        have hk : k = 0 := by
          by_cases hk : k = 0
          · exact hk
          · rw [hoths k hk] at hl; cases hl.1
        subst hk
        cases u with
        | pull =>
          have hfacts : st.resDone = false ∧ ¬ LendIn stk := by
            have tailNo : ∀ {r : List (Fm α)}, FromIter.Tail r → ¬ LendIn r := by
              intro r hr ⟨o, ho⟩
              obtain ⟨o', he⟩ := hr _ ho
              cases he
            cases hm with
            | live0 _ _ h3 _ _ h6 => exact ⟨h3, tailNo h6⟩
            | live1 _ _ h3 _ _ h6 =>
              obtain ⟨x, rest, rfl, hrest⟩ := h6
              refine ⟨h3, ?_⟩
              rintro ⟨o, ho⟩
              rcases List.mem_cons.1 ho with he | ho
              · cases he
              · exact tailNo hrest ⟨o, ho⟩
            | idle h1 => rw [h1] at hl; cases hl.1
            | self0 h1 => rw [h1] at hl; cases hl.1
            | self1 h1 => rw [h1] at hl; cases hl.1
            | src0 h1 => rw [h1] at hl; cases hl.1
            | src1 h1 => rw [h1] at hl; cases hl.1
          rcases hq with hq | ⟨hL, hT⟩
          · exact .inl hq
          · exact .inr ⟨fun h => absurd (hLrun _ h) hfacts.2, by simp [TopA, FromIter.machine, FromIter.enter, hfacts.1]⟩
        | term =>
          rcases hq with hq | ⟨hL, hT⟩
          · exact .inl hq
          · refine .inr ⟨fun h => by have := hL (hLrun _ h); aps; exact this, ?_⟩
            simp [TopA, FromIter.machine, FromIter.enter]; aps; exact hT
        | err e =>
          rcases hq with hq | ⟨hL, hT⟩
          · exact .inl hq
          · refine .inr ⟨fun h => by have := hL (hLrun _ h); aps; exact this, ?_⟩
            simp [TopA, FromIter.machine, FromIter.enter]; aps; exact hT
      | srcGreet j =>
        simp only [legalIn, Bool.and_eq_true, beq_iff_eq] at hl
        rw [hsrc j] at hl; cases hl.1
      | srcDown j d =>
        simp only [legalIn, Bool.and_eq_true, beq_iff_eq] at hl
        rw [hsrc j] at hl; cases hl.1
    | @ret st stk g tr o l hl =>
      intro _
      obtain ⟨hf, hq⟩ := ih rfl
      simp only at hf hq ⊢
      refine ⟨hf.tail.run, ?_⟩
      have hap : aP (Ev.retE :: tr : List (Ev α' α)) = aP tr := by simp [aP, sinkEvs, sinkEv]
      rw [hap]
      rcases hq with hq | ⟨hL, hT⟩
      · exact .inl hq
      · right
        rcases hf _ (List.mem_cons_self) o l rfl with rfl | rfl | rfl
        · refine ⟨fun ⟨o', ho'⟩ => hL ⟨o', List.mem_cons_of_mem _ (by simpa using ho')⟩, by simpa [TopA] using hT⟩
        · refine ⟨fun ⟨o', ho'⟩ => hL ⟨o', List.mem_cons_of_mem _ (by simpa using ho')⟩, by simpa [TopA] using hT⟩
        · have := hL ⟨o, List.mem_cons_self⟩
          exact ⟨fun _ => this, by simpa [TopA] using this⟩

end FromIterK

theorem iterList_complete {ι α : Type} {next : ι → Option (α × ι)} {it0 : ι} {xs : List α} (hx : Closed.Unfolds next it0 xs) :
    ∀ n it, iterAfter next n it0 = some it → next it = none → iterList next n it0 = xs := by
  induction hx with
  | nil h =>
    intro n it ha hn
    cases n with
    | zero => rfl
    | succ n => simp [iterAfter, h] at ha
  | cons h _ ih =>
    intro n it ha hn
    cases n with
    | zero => simp [iterAfter] at ha; subst ha; rw [h] at hn; cases hn
    | succ n =>
      simp only [iterAfter, h] at ha
      simp only [iterList, h, ih n it ha hn]

theorem FromIter.headOk {ι α α' : Type} (next : ι → Option (α × ι)) (it0 : ι) (xs : List α) (hx : Closed.Unfolds next it0 xs) :
    HeadOk (FromIter.machine α' next it0) xs := by
  have hturn : ∀ s, SReach (FromIter.machine α' next it0) s → s.stack = [] → EnvTurn s := fun s hs hstk =>
    ⟨(FromIter.fromIter_basicSafe next it0 s hs).2, by simp [hstk, ctxOf]⟩
  refine ⟨FromIter.upSide next it0, FromIter.srcSpec next it0 xs hx, ?_, ?_⟩
  · intro s hs hstk hd
    obtain ⟨⟨_, _, _, _, hm⟩, hT⟩ := FromIterFun.finv_of_reach next it0 s hs (hturn s hs hstk)
    have hrd : s.st.resDone = true := by cases hm <;> simp_all
    rw [hT.items]
    exact iterList_complete hx _ _ hT.iter (hT.exh hrd)
  · intro s hs hstk hl
    obtain ⟨_, _, _, _, hm⟩ := (FromIterFun.finv_of_reach next it0 s hs (hturn s hs hstk)).1
    obtain ⟨_, hq⟩ := FromIterK.K_reach next it0 s hs (hturn s hs hstk).1
    have hfacts : s.st.completed = false ∧ s.st.inLoop = false := by
      cases hm with
      | live0 _ h2 _ _ h5 _ => exact ⟨h2, h5⟩
      | live1 _ _ _ _ _ h6 => obtain ⟨x, r, h6, _⟩ := h6; rw [hstk] at h6; cases h6
      | idle h1 => rw [h1] at hl; cases hl
      | self0 h1 => rw [h1] at hl; cases hl
      | self1 h1 => rw [h1] at hl; cases hl
      | src0 h1 => rw [h1] at hl; cases hl
      | src1 h1 => rw [h1] at hl; cases hl
    rcases hq with hq | ⟨_, hT⟩
    · rw [hfacts.1] at hq; cases hq
    · rw [hstk] at hT
      simp only [FromIterK.TopA] at hT
      cases ha : aP s.tr with
      | false => rfl
      | true => have := (hT ha).2; rw [hfacts.2] at this; cases this


/-! ## Part 8: `take(max)` passes an unserved Pull on while it still takes; it completes by itself only with `max` items -/

theorem onOut_sinkPh_doneBySelf {β : Type} (g : Ph) (o : Out β) (k : Nat) (h : g.sinkPh k = .doneBySelf) :
    (g.onOut o).sinkPh k = .doneBySelf := by
  cases o with
  | greet j =>
    simp only [Ph.onOut]
    split
    · rename_i h1
      have : k ≠ j := by rintro rfl; rw [h1] at h; cases h
      simp [this, h]
    · simp [h]
  | down j d =>
    simp only [Ph.onOut]
    split
    · rename_i h1
      have : k ≠ j := by rintro rfl; rw [h1] at h; cases h
      split <;> simp [this, h]
    all_goals simp [h]
  | subSrc j =>
    simp only [Ph.onOut]
    split
    · simp [h]
    · split <;> simp [h]
  | srcUp j u => cases u <;> simp only [Ph.onOut] <;> split <;> simp [h]
  | app b => exact h

theorem onIn_sinkPh_doneBySelf {α β : Type} (sh : Shape) (g : Ph) (c : Ctx β) (m : In α) (k : Nat)
    (hl : legalIn sh g c m = true) (h : g.sinkPh k = .doneBySelf) : (g.onIn m).sinkPh k = .doneBySelf := by
  cases m with
  | subscribe j =>
    simp only [legalIn, Bool.and_eq_true, beq_iff_eq] at hl
    have : k ≠ j := by rintro rfl; rw [hl.1.2] at h; cases h
    simp [Ph.onIn, this, h]
  | sinkUp j u =>
    simp only [legalIn, Bool.and_eq_true, beq_iff_eq] at hl
    have : k ≠ j := by rintro rfl; rw [hl.1] at h; cases h
    cases u <;> simp [Ph.onIn, this, h]
  | srcGreet j => simpa [Ph.onIn] using h
  | srcDown j d => cases d <;> simpa [Ph.onIn] using h

namespace TakeK
variable {α : Type}

abbrev Fm (α : Type) := Frame (Take.Loc α) α

def Exc : List (Fm α) → Prop
  | .run .p0 :: _ => True
  | .run .p1 :: _ => True
  | .run (.d0 _) :: _ => True
  | .run (.d2 _ _) :: _ => True
  | .run (.fwd _) :: _ => True
  | _ => False

/-- continuations -/
def ContOk (taken max : Nat) : Take.Loc α → Prop
  | .done => True
  | .d3 t => t ≤ taken
  | .d6 => taken = max
  | _ => False

/-- the running handler -/
def RunOk (taken max : Nat) (p : SinkPh) : Take.Loc α → Prop
  | .d1 _ => False
  | .d2 _ t => t ≤ taken
  | .d3 t => t ≤ taken
  | .d3b => taken = max
  | .d4 => taken = max
  | .d5 => taken = max
  | .d6 => taken = max
  | .x0 _ => p = .doneBySelf
  | _ => True

def FrOk (taken max : Nat) (p : SinkPh) : Fm α → Prop
  | .wait _ l => ContOk taken max l
  | .run l => RunOk taken max p l

def Q (tr : List (Ev α α)) (taken max : Nat) : Prop := aP tr = true → bP tr = true ∨ max ≤ taken

def K (max : Nat) (s : Sys Take.St (Take.Loc α) α α) : Prop :=
  s.panicked = none →
    s.st.taken ≤ max ∧ (s.st.fin = true → s.st.taken = max ∨ s.g.ph.sinkPh 0 = .doneBySelf) ∧
    (∀ f ∈ s.stack, FrOk s.st.taken max (s.g.ph.sinkPh 0) f) ∧ (Exc s.stack ∨ Q s.tr s.st.taken max)

theorem cont_mono {t t' max : Nat} {l : Take.Loc α} (h : ContOk t max l) (h1 : t ≤ t') (h2 : t' ≤ max) : ContOk t' max l := by
  cases l <;> simp [ContOk] at h ⊢ <;> omega

theorem waits_ok {t t' max : Nat} {p p' : SinkPh} {stk : List (Fm α)} (hw : ∀ f ∈ stk, ∃ o l, f = Frame.wait o l)
    (h : ∀ f ∈ stk, FrOk t max p f) (h1 : t ≤ t') (h2 : t' ≤ max) : ∀ f ∈ stk, FrOk t' max p' f := by
  intro f hf
  obtain ⟨o, l, rfl⟩ := hw f hf
  exact cont_mono (h _ hf) h1 h2

theorem cons_ok {t max : Nat} {p : SinkPh} {f : Fm α} {stk : List (Fm α)} (hf : FrOk t max p f)
    (h : ∀ f ∈ stk, FrOk t max p f) : ∀ f' ∈ f :: stk, FrOk t max p f' :=
  List.forall_mem_cons.2 ⟨hf, h⟩

macro "tnoway" h:ident : tactic =>
  `(tactic| first
      | (simp [Take.machine, Take.step] at $h:ident; done)
      | (simp [Take.machine, Take.step] at $h:ident; split at $h:ident <;> simp at $h:ident; done))

macro "tevs" : tactic =>
  `(tactic| simp [Q, aP, bP, sinkEvs, sinkEv, srcEvs, srcEv, lastPull, lastPullSrc, relS, relSrc] at *)

theorem K_reach (max : Nat) : ∀ s, SReach (Take.machine α max) s → K max s := by
  apply reach_ind
  · intro _
    refine ⟨Nat.zero_le _, fun h => by simp [Sys.init, Take.machine] at h, fun f hf => (by cases hf), .inr ?_⟩
    intro h; simp [aP, sinkEvs, lastPull, Sys.init] at h
  · intro a b ha ih h
    cases h with
    | @tau st l stk g tr s' l' hst =>
      intro _
      obtain ⟨hle, hfin, hfr, hq⟩ := ih rfl
      simp only at hle hfin hfr hq ⊢
      have hw := pop_turn _ ha
      have htop := hfr _ (List.mem_cons_self)
      have htl : ∀ f ∈ stk, FrOk st.taken max (g.ph.sinkPh 0) f := fun f hf => hfr f (List.mem_cons_of_mem _ hf)
      cases l with
      | greet0 =>
        simp [Take.machine, Take.step] at hst
        obtain ⟨rfl, rfl⟩ := hst
        exact ⟨hle, hfin, cons_ok (by simp [FrOk, RunOk]) htl, by simpa [Exc] using hq⟩
      | d0 x =>
        simp [Take.machine, Take.step] at hst
        split at hst <;> simp at hst
        obtain ⟨rfl, rfl⟩ := hst
        rename_i hlt
        refine ⟨by simp; omega, ?_, cons_ok (by simp [FrOk, RunOk]) (waits_ok hw htl (by simp) (by simp; omega)),
          .inl (by simp [Exc])⟩
        intro hf
        rcases hfin hf with h | h
        · omega
        · exact .inr h
      | d1 x => simp [FrOk, RunOk] at htop
      | d3 t =>
        simp [Take.machine, Take.step] at hst
        split at hst <;> simp at hst
        obtain ⟨rfl, rfl⟩ := hst
        rename_i ht
        simp [FrOk, RunOk] at htop
        exact ⟨hle, hfin, cons_ok (by simp [FrOk, RunOk]; omega) htl, by simpa [Exc] using hq⟩
      | d3b =>
        simp [Take.machine, Take.step] at hst
        split at hst <;> simp at hst
        obtain ⟨rfl, rfl⟩ := hst
        exact ⟨hle, hfin, cons_ok (by simpa [FrOk, RunOk] using htop) htl, by simpa [Exc] using hq⟩
      | d4 =>
        simp [Take.machine, Take.step] at hst
        obtain ⟨rfl, rfl⟩ := hst
        simp [FrOk, RunOk] at htop
        exact ⟨hle, fun _ => .inl htop, cons_ok (by simpa [FrOk, RunOk] using htop) htl, by simpa [Exc] using hq⟩
      | p0 =>
        simp [Take.machine, Take.step] at hst
        split at hst <;> simp at hst
        obtain ⟨rfl, rfl⟩ := hst
        exact ⟨hle, hfin, cons_ok (by simp [FrOk, RunOk]) htl, .inl (by simp [Exc])⟩
      | x0 u =>
        simp [Take.machine, Take.step] at hst
        obtain ⟨rfl, rfl⟩ := hst
        simp [FrOk, RunOk] at htop
        exact ⟨hle, fun _ => .inr htop, cons_ok (by simp [FrOk, RunOk]) htl, by simpa [Exc] using hq⟩
      | sub0 => tnoway hst
      | done => tnoway hst
      | greet1 => tnoway hst
      | d2 x t => tnoway hst
      | d5 => tnoway hst
      | d6 => tnoway hst
      | fwd d => tnoway hst
      | p1 => tnoway hst
      | x1 u => tnoway hst
    | @call st l stk g tr o s' l' hst =>
      intro _
      obtain ⟨hle, hfin, hfr, hq⟩ := ih rfl
      simp only at hle hfin hfr hq ⊢
      have hw := pop_turn _ ha
      have htop := hfr _ (List.mem_cons_self)
      have htl : ∀ f ∈ stk, FrOk st.taken max (g.ph.sinkPh 0) f := fun f hf => hfr f (List.mem_cons_of_mem _ hf)
      have hfin' : ∀ o' : Out α, st.fin = true → st.taken = max ∨ ((g.onOut (Take.machine α max).shape o').ph.sinkPh 0 = .doneBySelf) := by
        intro o' hf
        rcases hfin hf with h | h
        · exact .inl h
        · exact .inr (by simpa using onOut_sinkPh_doneBySelf _ o' _ h)
      have hfr' : ∀ (o' : Out α) (l0 : Take.Loc α), ContOk st.taken max l0 →
          ∀ f ∈ (Frame.wait o' l0 :: stk : List (Fm α)), FrOk st.taken max
            ((g.onOut (Take.machine α max).shape o').ph.sinkPh 0) f :=
        fun o' l0 h0 => cons_ok (by simpa [FrOk] using h0) (waits_ok hw htl (Nat.le_refl _) hle)
      cases l with
      | sub0 =>
        simp [Take.machine, Take.step] at hst
        obtain ⟨rfl, rfl, rfl⟩ := hst
        refine ⟨hle, hfin' _, hfr' _ _ (by simp [ContOk]), .inr ?_⟩
        simp only [Exc, false_or] at hq
        tevs; exact hq
      | greet1 =>
        simp [Take.machine, Take.step] at hst
        obtain ⟨rfl, rfl, rfl⟩ := hst
        refine ⟨hle, hfin' _, hfr' _ _ (by simp [ContOk]), .inr ?_⟩
        simp only [Exc, false_or] at hq
        tevs; exact hq
      | d2 x t =>
        simp [Take.machine, Take.step] at hst
        obtain ⟨rfl, rfl, rfl⟩ := hst
        simp [FrOk, RunOk] at htop
        exact ⟨hle, hfin' _, hfr' _ _ (by simpa [ContOk] using htop), .inr (by tevs)⟩
      | d5 =>
        simp [Take.machine, Take.step] at hst
        split at hst <;> simp at hst
        obtain ⟨rfl, rfl, rfl⟩ := hst
        simp [FrOk, RunOk] at htop
        refine ⟨hle, hfin' _, hfr' _ _ (by simpa [ContOk] using htop), .inr ?_⟩
        simp only [Exc, false_or] at hq
        tevs; exact hq
      | d6 =>
        simp [Take.machine, Take.step] at hst
        obtain ⟨rfl, rfl, rfl⟩ := hst
        exact ⟨hle, hfin' _, hfr' _ _ (by simp [ContOk]), .inr (by tevs)⟩
      | fwd d =>
        simp [Take.machine, Take.step] at hst
        obtain ⟨rfl, rfl, rfl⟩ := hst
        exact ⟨hle, hfin' _, hfr' _ _ (by simp [ContOk]), .inr (by tevs)⟩
      | p1 =>
        simp [Take.machine, Take.step] at hst
        split at hst <;> simp at hst
        obtain ⟨rfl, rfl, rfl⟩ := hst
        exact ⟨hle, hfin' _, hfr' _ _ (by simp [ContOk]), .inr (by tevs)⟩
      | x1 u =>
        simp [Take.machine, Take.step] at hst
        split at hst <;> simp at hst
        obtain ⟨rfl, rfl, rfl⟩ := hst
        refine ⟨hle, hfin' _, hfr' _ _ (by simp [ContOk]), .inr ?_⟩
        simp only [Exc, false_or] at hq
        cases u with
        | pull => tevs
        | term => tevs; exact hq
        | err e => tevs; exact hq
      | done => tnoway hst
      | greet0 => tnoway hst
      | d0 x => tnoway hst
      | d1 x => tnoway hst
      | d3 t => tnoway hst
      | d3b => tnoway hst
      | d4 => tnoway hst
      | p0 => tnoway hst
      | x0 u => tnoway hst
    | @ret st l stk g tr hst =>
      intro _
      obtain ⟨hle, hfin, hfr, hq⟩ := ih rfl
      simp only at hle hfin hfr hq ⊢
      have hw := pop_turn _ ha
      have htl : ∀ f ∈ stk, FrOk st.taken max (g.ph.sinkPh 0) f := fun f hf => hfr f (List.mem_cons_of_mem _ hf)
      refine ⟨hle, by simpa using hfin, by simpa using htl, .inr ?_⟩
      cases l with
      | done =>
        simp only [Exc, false_or] at hq
        tevs; exact hq
      | d0 x =>
        simp [Take.machine, Take.step] at hst
        intro _; exact .inr hst
      | d3 t =>
        simp only [Exc, false_or] at hq
        tevs; exact hq
      | d3b =>
        simp only [Exc, false_or] at hq
        tevs; exact hq
      | p0 =>
        simp [Take.machine, Take.step] at hst
        intro _; exact .inr hst
      | sub0 => tnoway hst
      | greet0 => tnoway hst
      | greet1 => tnoway hst
      | d1 x => tnoway hst
      | d2 x t => tnoway hst
      | d4 => tnoway hst
      | d5 => tnoway hst
      | d6 => tnoway hst
      | fwd d => tnoway hst
      | p1 => tnoway hst
      | x0 u => tnoway hst
      | x1 u => tnoway hst
    | panic hst => intro hp; cases hp
  · intro a b m ha ih h
    cases h with
    | @call st stk g tr c i hc hl =>
      intro _
      obtain ⟨hle, hfin, hfr, hq⟩ := ih rfl
      simp only at hle hfin hfr hq ⊢
      have hw := turn_all_waits _ ha hc
      have hne : ¬ Exc stk := by
        cases stk with
        | nil => simp [Exc]
        | cons f r => cases f <;> simp [ctxOf] at hc <;> simp [Exc]
      have hq : Q tr st.taken max := hq.resolve_left hne
      obtain ⟨_, _, _, _, hoths, _⟩ := inv_at_turn (Take.machine α max) (Take.Inv max) (Take.inv_init max)
        (fun s hi => (Take.inv_turn max s hi).1) (Take.inv_step max) ha ⟨rfl, by simp [hc]⟩
      simp only at hoths
      have hfin' : st.fin = true → st.taken = max ∨ (g.ph.onIn i).sinkPh 0 = .doneBySelf := by
        intro hf
        rcases hfin hf with h | h
        · exact .inl h
        · exact .inr (onIn_sinkPh_doneBySelf _ _ _ _ _ hl h)
      have hfr' : ∀ l0 : Take.Loc α, RunOk st.taken max ((g.ph.onIn i).sinkPh 0) l0 →
          ∀ f ∈ (Frame.run l0 :: stk : List (Fm α)), FrOk st.taken max ((g.ph.onIn i).sinkPh 0) f :=
        fun l0 h0 => cons_ok (by simpa [FrOk] using h0) (waits_ok hw hfr (Nat.le_refl _) hle)
      simp only [onIn_ph]
      cases i with
      | subscribe k =>
        exact ⟨hle, hfin', hfr' _ (by simp [Take.machine, Take.enter, RunOk]), .inr (by tevs; exact hq)⟩
      | sinkUp k u =>
        simp only [legalIn, Bool.and_eq_true, beq_iff_eq] at hl
        have hk : k = 0 := by
          by_cases hk : k = 0
          · exact hk
          · rw [hoths k hk] at hl; cases hl.1
        subst hk
        cases u with
        | pull => exact ⟨hle, hfin', hfr' _ (by simp [Take.machine, Take.enter, RunOk]), .inl (by simp [Exc, Take.machine, Take.enter])⟩
        | term =>
          exact ⟨hle, fun _ => .inr (by simp [Ph.onIn]), hfr' _ (by simp [Take.machine, Take.enter, RunOk, Ph.onIn]),
            .inr (by tevs; exact hq)⟩
        | err e =>
          exact ⟨hle, fun _ => .inr (by simp [Ph.onIn]), hfr' _ (by simp [Take.machine, Take.enter, RunOk, Ph.onIn]),
            .inr (by tevs; exact hq)⟩
      | srcGreet j =>
        exact ⟨hle, hfin', hfr' _ (by simp [Take.machine, Take.enter, RunOk]), .inr (by tevs; exact hq)⟩
      | srcDown j d =>
        cases d <;>
          exact ⟨hle, hfin', hfr' _ (by simp [Take.machine, Take.enter, RunOk]), .inl (by simp [Exc, Take.machine, Take.enter])⟩
    | @ret st stk g tr o l hl =>
      intro _
      obtain ⟨hle, hfin, hfr, hq⟩ := ih rfl
      simp only at hle hfin hfr hq ⊢
      have htop := hfr _ (List.mem_cons_self)
      have htl : ∀ f ∈ stk, FrOk st.taken max (g.ph.sinkPh 0) f := fun f hf => hfr f (List.mem_cons_of_mem _ hf)
      simp only [Exc, false_or] at hq
      have hq' : Q (Ev.retE :: tr) st.taken max := by tevs; exact hq
      refine ⟨hle, hfin, cons_ok ?_ htl, ?_⟩
      · cases l <;> simp [FrOk, ContOk, RunOk] at htop ⊢ <;> exact htop
      · cases l <;> simp [FrOk, ContOk] at htop <;> exact .inr hq'

end TakeK


theorem Take.demandStage {α : Type} (max : Nat) (hmax : 0 < max) : DemandStage (Take.machine α max) (List.take max) := by
  have hturn : ∀ s, SReach (Take.machine α max) s → s.stack = [] → EnvTurn s := fun s hs hstk =>
    ⟨(Take.take_basicSafe max s hs).2, by simp [hstk, ctxOf]⟩
  refine ⟨Take.monoStage max, ?_, ?_, ?_⟩
  · intro s hs hstk hl
    obtain ⟨⟨_, _, _, _, _, hm⟩, _⟩ := TakeFun.finv_of_reach max s hs (hturn s hs hstk)
    cases hm with
    | m3 _ h2 => exact h2
    | m6 _ _ _ _ h5 => obtain ⟨r, h5, _⟩ := h5; rw [hstk] at h5; cases h5
    | m1 h1 => rw [h1] at hl; cases hl
    | m2 h1 => rw [h1] at hl; cases hl
    | m4 h1 => rw [h1] at hl; cases hl
    | m5 h1 => rw [h1] at hl; cases hl
    | m7 h1 => rw [h1] at hl; cases hl
  · intro s hs hstk hl ha
    obtain ⟨⟨_, _, hle, _, _, hm⟩, _⟩ := TakeFun.finv_of_reach max s hs (hturn s hs hstk)
    obtain ⟨_, _, _, hq⟩ := TakeK.K_reach max s hs (hturn s hs hstk).1
    rw [hstk] at hq
    rcases hq with hq | hq
    · simp [TakeK.Exc] at hq
    · rcases hq ha with hb | hge
      · exact hb
      · exfalso
        cases hm with
        | m3 _ _ _ _ h5 =>
          have heq : s.st.taken = max := by omega
          obtain ⟨x, r, h5⟩ := h5 (by omega) heq
          rw [hstk] at h5; cases h5
        | m6 _ _ _ _ h5 => obtain ⟨r, h5, _⟩ := h5; rw [hstk] at h5; cases h5
        | m1 h1 => rw [h1] at hl; cases hl
        | m2 h1 => rw [h1] at hl; cases hl
        | m4 h1 => rw [h1] at hl; cases hl
        | m5 h1 => rw [h1] at hl; cases hl
        | m7 h1 => rw [h1] at hl; cases hl
  · intro s hs hstk hd
    obtain ⟨⟨_, _, hle, _, _, hm⟩, hT⟩ := TakeFun.finv_of_reach max s hs (hturn s hs hstk)
    obtain ⟨_, hfin, _, _⟩ := TakeK.K_reach max s hs (hturn s hs hstk).1
    cases hm with
    | m5 _ h2 => exact .inl h2
    | m7 _ _ h3 =>
      right
      rcases hfin h3 with h | h
      · intro ys ⟨t, hys⟩
        have hlen : max ≤ (sentData 0 s.tr).length := by
          have := hT.cnt; rw [h] at this; omega
        rw [← hys, List.take_append]
        have : max - (sentData 0 s.tr).length = 0 := by omega
        simp [this]
      · rw [hd] at h; cases h
    | m1 h1 => rw [h1] at hd; cases hd
    | m2 h1 => rw [h1] at hd; cases hd
    | m3 h1 => rw [h1] at hd; cases hd
    | m4 h1 => rw [h1] at hd; cases hd
    | m6 h1 => rw [h1] at hd; cases hd

theorem DemandStage.congr {St Loc α β : Type} {M : Machine St Loc α β} {F G : List α → List β} (h : DemandStage M F)
    (hFG : ∀ l, F l = G l) : DemandStage M G :=
  ⟨⟨h.mono.stage.congr hFG, h.mono.mono.congr hFG⟩, h.liveUp, h.fwdPull, fun s hs hk hd => by
    rcases h.fin s hs hk hd with h1 | h1
    · exact .inl h1
    · exact .inr (fun ys hys => by rw [← hFG, ← hFG]; exact h1 ys hys)⟩

theorem Relay.map_demandStage {α β : Type} (f : α → β) : DemandStage (Relay.machine (Relay.map f)) (List.map f) :=
  (Relay.demandStage (Relay.map f) (fun _ _ _ => by simp [Relay.map])).congr (fun l => RelayFun.xferOut_map f _ l)

theorem Relay.filter_demandStage {α : Type} (p : α → Bool) : DemandStage (Relay.machine (Relay.filter p)) (List.filter p) :=
  (Relay.demandStage (Relay.filter p) (fun h => by simp [Relay.filter] at h)).congr (fun l => RelayFun.xferOut_filter p _ l)

theorem Relay.scan_demandStage {α β : Type} (r : β → α → β) (seed : β) :
    DemandStage (Relay.machine (Relay.scan r seed)) (scanF r seed) :=
  (Relay.demandStage (Relay.scan r seed) (fun _ _ _ => by simp [Relay.scan])).congr (fun l => RelayFun.xferOut_scan r seed _ l)

theorem Relay.skip_demandStage {α : Type} (n : Nat) : DemandStage (Relay.machine (Relay.skip (α := α) n)) (List.drop n) :=
  (Relay.demandStage (Relay.skip n) (fun h => by simp [Relay.skip] at h)).congr
    (fun l => by have := RelayFun.xferOut_skip (α := α) n 0 l; simpa [Relay.skip] using this)

end ComposeComplete

open ComposeComplete in
/-- **the completeness half of iterable programming**: when the application `for_each(f)(pipe!(from_iter(it), stage₁, …, stageₙ))`
has returned (control is back at top level and something has happened), `f` has been applied to exactly `F xs` -/
theorem closed_pipeline_complete {ι α α' β S L : Type} (next : ι → Option (α × ι)) (it0 : ι) (xs : List α)
    (hx : Closed.Unfolds next it0 xs) {Mmid : Machine S L α β} {F : List α → List β} (hmid : DemandStage Mmid F) :
    ∀ s, SReach (compose (compose (FromIter.machine α' next it0) Mmid) (ForEach.machine β)) s → s.stack = [] → s.tr ≠ [] →
      applied s.tr = F xs :=
  closed_complete ((FromIter.headOk next it0 xs hx).compose hmid)

open ComposeComplete in
/-- no stage at all: `for_each(f)(from_iter(it))` -/
theorem closed_pipeline_complete₀ {ι α α' : Type} (next : ι → Option (α × ι)) (it0 : ι) (xs : List α)
    (hx : Closed.Unfolds next it0 xs) :
    ∀ s, SReach (compose (FromIter.machine α' next it0) (ForEach.machine α)) s → s.stack = [] → s.tr ≠ [] →
      applied s.tr = xs :=
  closed_complete (FromIter.headOk next it0 xs hx)

open ComposeComplete in
/-- safety and completeness together: never a protocol violation or a panic, never anything but a prefix of `F xs` applied (in
order), and all of `F xs` applied once the application has returned -/
theorem closed_pipeline_correct {ι α α' β S L : Type} (next : ι → Option (α × ι)) (it0 : ι) (xs : List α)
    (hx : Closed.Unfolds next it0 xs) {Mmid : Machine S L α β} {F : List α → List β} (hmid : DemandStage Mmid F) :
    ∀ s, SReach (compose (compose (FromIter.machine α' next it0) Mmid) (ForEach.machine β)) s →
      BasicSafe s ∧ applied s.tr <+: F xs ∧ (s.stack = [] → s.tr ≠ [] → applied s.tr = F xs) := by
  intro s hs
  obtain ⟨h1, h2⟩ := closed_pipeline_prefix_all (FromIter.upSide next it0) (FromIter.srcSpec next it0 xs hx) hmid.mono s hs
  exact ⟨h1, h2, closed_pipeline_complete next it0 xs hx hmid s hs⟩

open ComposeComplete in
/-- `pipe!(from_iter(it), filter(p), map(f), take(n), for_each(g))`, `n ≥ 1`: when the application returns, `g` has been applied to
exactly `((xs.filter p).map f).take n` -/
theorem fromIter_filter_map_take_forEach_complete {ι α β : Type} (next : ι → Option (α × ι)) (it0 : ι) (xs : List α)
    (hx : Closed.Unfolds next it0 xs) (p : α → Bool) (f : α → β) (n : Nat) (hn : 0 < n) :
    ∀ s, SReach (compose (compose (FromIter.machine Unit next it0)
        (compose (compose (Relay.machine (Relay.filter p)) (Relay.machine (Relay.map f))) (Take.machine β n)))
        (ForEach.machine β)) s →
      BasicSafe s ∧ applied s.tr <+: ((xs.filter p).map f).take n ∧
        (s.stack = [] → s.tr ≠ [] → applied s.tr = ((xs.filter p).map f).take n) :=
  closed_pipeline_correct next it0 xs hx
    (((Relay.filter_demandStage p).compose (Relay.map_demandStage f)).compose (Take.demandStage n hn))

open ComposeComplete in
/-- a list as the iterator, five stages bracketed to the right -/
example {α β γ : Type} (xs : List α) (k : Nat) (r : β → α → β) (seed : β) (f : β → γ) (p : γ → Bool) (n : Nat) (hn : 0 < n) :
    ∀ s, SReach (compose (compose (FromIter.machine Unit Closed.listNext xs)
        (compose (Relay.machine (Relay.skip (α := α) k)) (compose (Relay.machine (Relay.scan r seed))
          (compose (Relay.machine (Relay.map f)) (compose (Relay.machine (Relay.filter p)) (Take.machine γ n))))))
        (ForEach.machine γ)) s → s.stack = [] → s.tr ≠ [] →
      applied s.tr = (((scanF r seed (xs.drop k)).map f).filter p).take n :=
  closed_pipeline_complete Closed.listNext xs xs (Closed.unfolds_list xs)
    ((Relay.skip_demandStage k).compose ((Relay.scan_demandStage r seed).compose ((Relay.map_demandStage f).compose
      ((Relay.filter_demandStage p).compose (Take.demandStage n hn)))))

end Cb

#print axioms Cb.ComposeComplete.DemandStage.compose
#print axioms Cb.ComposeComplete.HeadOk.compose
#print axioms Cb.ComposeComplete.closed_complete
#print axioms Cb.ComposeComplete.FromIter.headOk
#print axioms Cb.ComposeComplete.Relay.demandStage
#print axioms Cb.ComposeComplete.Take.demandStage
#print axioms Cb.closed_pipeline_complete
#print axioms Cb.closed_pipeline_correct
#print axioms Cb.fromIter_filter_map_take_forEach_complete
