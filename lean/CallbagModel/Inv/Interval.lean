import CallbagModel.Ops.Interval
/-!
# interval: counting, independence, silence after disposal, spawn failure, greeting  (C16, C01)

Everything is proved for ALL event sequences.  Structure of the proof:

* `getSub_setSub`: the state is a finite map.
* `lstep b e`: what event `e` does to the one subscription it concerns (`idx e`); `step_fst`, `step_snd`: `step` is `lstep` on
  that subscription and the identity on all others.
* `lrun j b es`: the trajectory of subscription `j` alone (events that do not concern `j` are skipped); `proj`: the `j`-part
  of `run s es` (its sub-state and the observations of sink `j`) is `lrun j (getSub s j) es`.
* `Inv j b o`: the per-subscription invariant relating the program counter, the counter `i`, the flag and the observations `o`
  of sink `j` so far; `inv_lstep`, `inv_lrun`.
-/
namespace Cb.Interval

/-! ## the state as a finite map -/

theorem getSub_nil (j : Nat) : getSub [] j = {} := by simp [getSub]

theorem getSub_setSub (s : State) (j : Nat) (x : Sub) (j' : Nat) :
    getSub (setSub s j x) j' = if j' = j then x else getSub s j' := by
  induction s generalizing j j' with
  | nil =>
    induction j generalizing j' with
    | zero => cases j' <;> simp [setSub, getSub]
    | succ j ih =>
      cases j' with
      | zero => simp [setSub, getSub]
      | succ j' => have := ih j'; simp [setSub, getSub] at this ⊢; exact this
  | cons y r ih =>
    cases j with
    | zero => cases j' <;> simp [setSub, getSub]
    | succ j =>
      cases j' with
      | zero => simp [setSub, getSub]
      | succ j' => have := ih j j'; simp [setSub, getSub] at this ⊢; exact this

/-! ## `run`, `dataOf`, `obsOf` over cons / append -/

theorem run_nil (s : State) : run s [] = (s, []) := rfl

theorem run_cons (s : State) (e : Ev) (es : List Ev) :
    run s (e :: es) = ((run (step s e).1 es).1, (step s e).2 ++ (run (step s e).1 es).2) := rfl

theorem run_append (s : State) (es es' : List Ev) :
    run s (es ++ es') = ((run (run s es).1 es').1, (run s es).2 ++ (run (run s es).1 es').2) := by
  induction es generalizing s with
  | nil => simp [run_nil]
  | cons e es ih => simp [run_cons, ih, List.append_assoc]

theorem dataOf_append (j : Nat) (a b : List Obs) : dataOf j (a ++ b) = dataOf j a ++ dataOf j b := by
  induction a with
  | nil => simp [dataOf]
  | cons o a ih =>
    cases o with
    | greet j' => simpa [dataOf] using ih
    | error j' r => simpa [dataOf] using ih
    | data j' v => by_cases h : j' = j <;> simp [dataOf, h, ih]

/-- the observations of sink `j` -/
def obsOf (j : Nat) : List Obs → List Obs :=
  List.filter (fun o => match o with | .greet j' => j' == j | .data j' _ => j' == j | .error j' _ => j' == j)

theorem obsOf_append (j : Nat) (a b : List Obs) : obsOf j (a ++ b) = obsOf j a ++ obsOf j b := by
  simp [obsOf]

theorem dataOf_obsOf (j : Nat) (a : List Obs) : dataOf j (obsOf j a) = dataOf j a := by
  induction a with
  | nil => simp [obsOf, dataOf]
  | cons o a ih =>
    cases o with
    | greet j' => by_cases h : j' = j <;> simpa [obsOf, dataOf, List.filter_cons, h] using ih
    | error j' r => by_cases h : j' = j <;> simpa [obsOf, dataOf, List.filter_cons, h] using ih
    | data j' v => by_cases h : j' = j <;> simpa [obsOf, dataOf, List.filter_cons, h] using ih

theorem dataOf_map_data (j : Nat) (vs : List Nat) : dataOf j (vs.map (Obs.data j)) = vs := by
  induction vs with
  | nil => simp [dataOf]
  | cons v vs ih => simp [dataOf, ih]

theorem dataOf_greet_map (j : Nat) (vs : List Nat) : dataOf j (.greet j :: vs.map (Obs.data j)) = vs := by
  simp [dataOf, dataOf_map_data]

/-! ## one subscription at a time -/

/-- the subscription an event concerns -/
def idx : Ev → Nat
  | .subscribe j _ => j | .expire j => j | .bump j => j | .deliver j => j | .dispose j => j

def about (j : Nat) : Ev → Bool
  | .subscribe j' _ => j' == j | .expire j' => j' == j | .bump j' => j' == j | .deliver j' => j' == j | .dispose j' => j' == j

theorem about_eq (j : Nat) (e : Ev) : about j e = (idx e == j) := by cases e <;> rfl

/-- what an event does to the subscription it concerns -/
def lstep (b : Sub) : Ev → Sub × List Obs
  | .subscribe j r =>
    if b.pc ≠ .none then (b, []) else
    match r with
    | .ok => ({ pc := .sleeping, i := 0, cleared := false }, [.greet j])
    | r => ({ pc := .failed }, [.error j r])
  | .expire _ =>
    if b.pc = .sleeping then ({ b with pc := if b.cleared then .exited else .checked }, []) else (b, [])
  | .bump _ =>
    if b.pc = .checked then ({ b with pc := .emitting b.i, i := b.i + 1 }, []) else (b, [])
  | .deliver j =>
    match b.pc with
    | .emitting v => ({ b with pc := .sleeping }, [.data j v])
    | _ => (b, [])
  | .dispose _ =>
    if b.pc = .none ∨ b.pc = .failed then (b, []) else ({ b with cleared := true }, [])

theorem step_snd (s : State) (e : Ev) : (step s e).2 = (lstep (getSub s (idx e)) e).2 := by
  cases e with
  | subscribe j r =>
    by_cases h : (getSub s j).pc = .none
    · cases r <;> simp [step, lstep, idx, h]
    · simp [step, lstep, idx, h]
  | expire j => by_cases h : (getSub s j).pc = .sleeping <;> simp [step, lstep, idx, h]
  | bump j => by_cases h : (getSub s j).pc = .checked <;> simp [step, lstep, idx, h]
  | deliver j => cases h : (getSub s j).pc <;> simp [step, lstep, idx, h]
  | dispose j => by_cases h : (getSub s j).pc = .none ∨ (getSub s j).pc = .failed <;> simp [step, lstep, idx, h]

theorem step_fst (s : State) (e : Ev) (j : Nat) :
    getSub (step s e).1 j = if j = idx e then (lstep (getSub s (idx e)) e).1 else getSub s j := by
  have keep : ∀ j', getSub s j = if j = j' then getSub s j' else getSub s j := by
    intro j'; split
    · next h => rw [h]
    · rfl
  cases e with
  | subscribe j' r =>
    by_cases h : (getSub s j').pc = .none
    · cases r <;> simp [step, lstep, idx, h, getSub_setSub]
    · simpa [step, lstep, idx, h] using keep j'
  | expire j' =>
    by_cases h : (getSub s j').pc = .sleeping
    · simp [step, lstep, idx, h, getSub_setSub]
      split <;> rfl
    · simpa [step, lstep, idx, h] using keep j'
  | bump j' =>
    by_cases h : (getSub s j').pc = .checked
    · simp [step, lstep, idx, h, getSub_setSub]
    · simpa [step, lstep, idx, h] using keep j'
  | deliver j' =>
    cases h : (getSub s j').pc
    case emitting v => simp [step, lstep, idx, h, getSub_setSub]
    all_goals simpa [step, lstep, idx, h] using keep j'
  | dispose j' =>
    by_cases h : (getSub s j').pc = .none ∨ (getSub s j').pc = .failed
    · simpa [step, lstep, idx, h] using keep j'
    · simp [step, lstep, idx, h, getSub_setSub]

/-- an event's observations all go to the sink it concerns -/
theorem obsOf_lstep_self (b : Sub) (e : Ev) : obsOf (idx e) (lstep b e).2 = (lstep b e).2 := by
  rcases b with ⟨pc, i, c⟩
  cases e with
  | subscribe j r => cases pc <;> cases r <;> simp [lstep, idx, obsOf]
  | expire j => cases pc <;> simp [lstep, idx, obsOf]
  | bump j => cases pc <;> simp [lstep, idx, obsOf]
  | deliver j => cases pc <;> simp [lstep, idx, obsOf]
  | dispose j => cases pc <;> simp [lstep, idx, obsOf]

theorem obsOf_lstep_other (b : Sub) (e : Ev) (j : Nat) (h : idx e ≠ j) : obsOf j (lstep b e).2 = [] := by
  rcases b with ⟨pc, i, c⟩
  cases e with
  | subscribe j' r => cases pc <;> cases r <;> simp_all [lstep, idx, obsOf]
  | expire j' => cases pc <;> simp [lstep, obsOf]
  | bump j' => cases pc <;> simp [lstep, obsOf]
  | deliver j' => cases pc <;> simp_all [lstep, idx, obsOf]
  | dispose j' => cases pc <;> simp [lstep, obsOf]

/-- the trajectory of subscription `j` alone: its sub-state, and what its sink observes -/
def lrun (j : Nat) : Sub → List Ev → Sub × List Obs
  | b, [] => (b, [])
  | b, e :: es =>
    if idx e = j then ((lrun j (lstep b e).1 es).1, (lstep b e).2 ++ (lrun j (lstep b e).1 es).2) else lrun j b es

theorem lrun_cons_self (j : Nat) (b : Sub) (e : Ev) (es : List Ev) (h : idx e = j) :
    lrun j b (e :: es) = ((lrun j (lstep b e).1 es).1, (lstep b e).2 ++ (lrun j (lstep b e).1 es).2) := by
  simp [lrun, h]

theorem lrun_cons_other (j : Nat) (b : Sub) (e : Ev) (es : List Ev) (h : idx e ≠ j) :
    lrun j b (e :: es) = lrun j b es := by
  simp [lrun, h]

/-- projection: the `j`-part of a run of the whole system is the run of subscription `j` alone -/
theorem proj (j : Nat) (es : List Ev) (s : State) :
    getSub (run s es).1 j = (lrun j (getSub s j) es).1 ∧ obsOf j (run s es).2 = (lrun j (getSub s j) es).2 := by
  induction es generalizing s with
  | nil => simp [run_nil, lrun, obsOf]
  | cons e es ih =>
    have ⟨ih1, ih2⟩ := ih (step s e).1
    rw [run_cons]
    by_cases h : idx e = j
    · have hs : getSub (step s e).1 j = (lstep (getSub s j) e).1 := by rw [step_fst]; simp [h]
      have ho : obsOf j (step s e).2 = (lstep (getSub s j) e).2 := by
        rw [step_snd, h]; have := obsOf_lstep_self (getSub s j) e; rw [h] at this; exact this
      rw [lrun_cons_self j _ e es h]
      simp only [obsOf_append, ih1, ih2, hs, ho, and_self]
    · have hs : getSub (step s e).1 j = getSub s j := by
        rw [step_fst]; exact if_neg (fun h' => h h'.symm)
      have ho : obsOf j (step s e).2 = [] := by rw [step_snd]; exact obsOf_lstep_other _ e j h
      rw [lrun_cons_other j _ e es h]
      simp only [obsOf_append, ih1, ih2, hs, ho, List.nil_append, and_self]

theorem proj_data (j : Nat) (es : List Ev) (s : State) :
    dataOf j (run s es).2 = dataOf j (lrun j (getSub s j) es).2 := by
  rw [← (proj j es s).2, dataOf_obsOf]

theorem lrun_filter (j : Nat) (es : List Ev) (b : Sub) : lrun j b (es.filter (about j)) = lrun j b es := by
  induction es generalizing b with
  | nil => rfl
  | cons e es ih =>
    by_cases h : idx e = j
    · have : about j e = true := by simp [about_eq, h]
      rw [List.filter_cons_of_pos this, lrun_cons_self j b e _ h, lrun_cons_self j b e _ h, ih]
    · have : ¬ about j e = true := by simp [about_eq, h]
      rw [List.filter_cons_of_neg this, lrun_cons_other j b e _ h, ih]

/-- proof rule: an invariant of one subscription and its sink's observations so far -/
theorem lrun_inv (j : Nat) (P : Sub → List Obs → Prop)
    (hstep : ∀ b o e, idx e = j → P b o → P (lstep b e).1 (o ++ (lstep b e).2))
    (es : List Ev) (b : Sub) (o : List Obs) (h : P b o) : P (lrun j b es).1 (o ++ (lrun j b es).2) := by
  induction es generalizing b o with
  | nil => simpa [lrun] using h
  | cons e es ih =>
    by_cases he : idx e = j
    · rw [lrun_cons_self j b e es he]
      have := ih _ _ (hstep b o e he h)
      simpa [List.append_assoc] using this
    · rw [lrun_cons_other j b e es he]; exact ih b o h

/-! ## the per-subscription invariant -/

/-- `o` = everything sink `j` has observed so far -/
def Inv (j : Nat) (b : Sub) (o : List Obs) : Prop :=
  match b.pc with
  | .none => o = [] ∧ b.i = 0 ∧ b.cleared = false
  | .failed => (∃ r, r ≠ SpawnRes.ok ∧ o = [.error j r]) ∧ b.i = 0
  | .emitting v => v + 1 = b.i ∧ o = .greet j :: (List.range v).map (Obs.data j)
  | _ => o = .greet j :: (List.range b.i).map (Obs.data j)

theorem inv_init (j : Nat) : Inv j {} [] := by simp [Inv]

theorem inv_lstep (j : Nat) (b : Sub) (o : List Obs) (e : Ev) (he : idx e = j) (h : Inv j b o) :
    Inv j (lstep b e).1 (o ++ (lstep b e).2) := by
  rcases b with ⟨pc, i, c⟩
  cases e with
  | subscribe j' r =>
    cases pc <;> cases r <;> simp_all [lstep, idx, Inv]
  | expire j' =>
    cases pc <;> cases c <;> simp_all [lstep, idx, Inv]
  | bump j' =>
    cases pc <;> simp_all [lstep, idx, Inv]
  | deliver j' =>
    cases pc
    case emitting v =>
      obtain ⟨h1, h2⟩ : v + 1 = i ∧ o = Obs.greet j :: List.map (Obs.data j) (List.range v) := by simpa [Inv] using h
      subst h1 h2
      have he' : j' = j := he
      simp [lstep, Inv, List.range_succ, he']
    all_goals simp_all [lstep, idx, Inv]
  | dispose j' =>
    cases pc <;> simp_all [lstep, idx, Inv]

theorem inv_lrun (j : Nat) (es : List Ev) : Inv j (lrun j {} es).1 (lrun j {} es).2 := by
  have := lrun_inv j (Inv j) (fun b o e => inv_lstep j b o e) es {} [] (inv_init j)
  simpa using this

theorem inv_run (j : Nat) (es : List Ev) : Inv j (getSub (run [] es).1 j) (obsOf j (run [] es).2) := by
  have ⟨h1, h2⟩ := proj j es []
  rw [h1, h2, getSub_nil]; exact inv_lrun j es

/-- the data part of the invariant -/
theorem inv_data (j : Nat) (b : Sub) (o : List Obs) (h : Inv j b o) :
    dataOf j o = List.range (b.i - match b.pc with | .emitting _ => 1 | _ => 0) ∧
    (match b.pc with | .emitting _ => 1 | _ => 0) ≤ b.i := by
  rcases b with ⟨pc, i, c⟩
  cases pc
  case emitting v =>
    obtain ⟨h1, h2⟩ : v + 1 = i ∧ o = Obs.greet j :: List.map (Obs.data j) (List.range v) := by simpa [Inv] using h
    subst h1 h2
    simp [dataOf_greet_map]
  case none => simp_all [Inv, dataOf]
  case failed =>
    obtain ⟨⟨r, _, h2⟩, h3⟩ : (∃ r, r ≠ SpawnRes.ok ∧ o = [Obs.error j r]) ∧ i = 0 := by simpa [Inv] using h
    subst h2 h3
    simp [dataOf]
  all_goals
    have h2 : o = Obs.greet j :: List.map (Obs.data j) (List.range i) := by simpa [Inv] using h
    subst h2
    simp [dataOf_greet_map]

/-! ## the theorems -/

/-- C16 (counting): every subscription receives 0, 1, 2, …, k-1 — exactly the numbers below the count of its completed
emissions -/
theorem data_is_range (es : List Ev) (j : Nat) :
    ∃ k, dataOf j (run [] es).2 = List.range k := by
  have h := (inv_data j _ _ (inv_run j es)).1
  rw [dataOf_obsOf] at h
  exact ⟨_, h⟩

/-- … one number per processed expiry: the count of data received equals the task's counter, minus one if an emission is in
flight -/
theorem data_count (es : List Ev) (j : Nat) :
    (dataOf j (run [] es).2).length + (match (getSub (run [] es).1 j).pc with | .emitting _ => 1 | _ => 0)
      = (getSub (run [] es).1 j).i := by
  have ⟨h, hle⟩ := inv_data j _ _ (inv_run j es)
  rw [dataOf_obsOf] at h
  rw [h, List.length_range]
  omega

/-- C16 (independence): what subscription `j` receives depends only on the events that concern `j` -/
theorem independent (es : List Ev) (j : Nat) :
    dataOf j (run [] es).2 = dataOf j (run [] (es.filter (about j))).2 := by
  rw [proj_data, proj_data, lrun_filter]

/-- the same for everything sink `j` observes (greeting, data, error) and for its sub-state -/
theorem independent_obs (es : List Ev) (j : Nat) :
    obsOf j (run [] es).2 = obsOf j (run [] (es.filter (about j))).2 ∧
    getSub (run [] es).1 j = getSub (run [] (es.filter (about j))).1 j := by
  rw [(proj j es []).1, (proj j es []).2, (proj j _ []).1, (proj j _ []).2, lrun_filter]
  exact ⟨rfl, rfl⟩

/-- a task that has exited stays exited and silent -/
theorem lrun_exited (j : Nat) (es : List Ev) (b : Sub) (h : b.pc = .exited) :
    (lrun j b es).2 = [] ∧ (lrun j b es).1.pc = .exited := by
  induction es generalizing b with
  | nil => simp [lrun, h]
  | cons e es ih =>
    by_cases he : idx e = j
    · have hs : (lstep b e).2 = [] ∧ (lstep b e).1.pc = .exited := by
        rcases b with ⟨pc, i, c⟩
        cases h
        cases e <;> simp [lstep]
      rw [lrun_cons_self j b e es he, hs.1]
      simpa using ih _ hs.2
    · rw [lrun_cons_other j b e es he]; exact ih b h

/-- C16 (silence): once a tick has observed the disposal (the task exited), nothing is ever delivered to that subscription
again (in fact the sink observes nothing at all: `silent_after_exit_obs`) -/
theorem silent_after_exit (s : State) (es : List Ev) (j : Nat) (h : (getSub s j).pc = .exited) :
    dataOf j (run s es).2 = [] ∧ (getSub (run s es).1 j).pc = .exited := by
  have ⟨h1, h2⟩ := lrun_exited j es _ h
  rw [proj_data, (proj j es s).1, h1]
  exact ⟨rfl, h2⟩

theorem silent_after_exit_obs (s : State) (es : List Ev) (j : Nat) (h : (getSub s j).pc = .exited) :
    obsOf j (run s es).2 = [] := by
  rw [(proj j es s).2]; exact (lrun_exited j es _ h).1

/-- how many more emissions can arrive once `interval_cleared` is set -/
def bd : PC → Nat
  | .checked => 1 | .emitting _ => 1 | _ => 0

theorem lrun_cleared (j : Nat) (es : List Ev) (b : Sub) (h : b.cleared = true) (hn : b.pc ≠ .none) :
    (dataOf j (lrun j b es).2).length ≤ bd b.pc := by
  induction es generalizing b with
  | nil => simp [lrun, dataOf]
  | cons e es ih =>
    by_cases he : idx e = j
    · have hs : (lstep b e).1.cleared = true ∧ (lstep b e).1.pc ≠ .none ∧
          (dataOf j (lstep b e).2).length + bd (lstep b e).1.pc ≤ bd b.pc := by
        rcases b with ⟨pc, i, c⟩
        cases h
        have he' : idx e = j := he
        cases e <;> cases pc <;> simp_all [lstep, bd, dataOf, idx]
      rw [lrun_cons_self j b e es he, dataOf_append, List.length_append]
      have := ih _ hs.1 hs.2.1
      omega
    · rw [lrun_cons_other j b e es he]; exact ih b h hn

/-- … and from the moment the disposal is requested, at most the one emission already past its check can still arrive.

ADJUSTED: the hypothesis `hn : (getSub s j).pc ≠ .none` is added.  Without it the statement is false for arbitrary (unreachable)
`s`: see `at_most_one_after_dispose_needs_subscribed`.  For reachable states the hypothesis is implied by `cleared = true`:
`at_most_one_after_dispose_reachable`. -/
theorem at_most_one_after_dispose (s : State) (es : List Ev) (j : Nat) (h : (getSub s j).cleared = true)
    (hn : (getSub s j).pc ≠ .none) :
    (dataOf j (run s es).2).length ≤ (match (getSub s j).pc with | .checked => 1 | .emitting _ => 1 | _ => 0) := by
  rw [proj_data]
  exact lrun_cleared j es _ h hn

/-- the version for reachable states, with exactly the originally requested hypothesis -/
theorem at_most_one_after_dispose_reachable (es0 es : List Ev) (j : Nat)
    (h : (getSub (run [] es0).1 j).cleared = true) :
    (dataOf j (run (run [] es0).1 es).2).length ≤
      (match (getSub (run [] es0).1 j).pc with | .checked => 1 | .emitting _ => 1 | _ => 0) := by
  refine at_most_one_after_dispose _ es j h ?_
  intro hpc
  have hi := inv_run j es0
  generalize getSub (run [] es0).1 j = b at h hpc hi
  rcases b with ⟨pc, i, c⟩
  cases hpc
  simp_all [Inv]

/-- the statement as originally written (no `pc ≠ .none`) fails on an unreachable state: flag set but not subscribed; the
subscription then resets the flag -/
theorem at_most_one_after_dispose_needs_subscribed :
    ¬ ∀ (s : State) (es : List Ev) (j : Nat), (getSub s j).cleared = true →
      (dataOf j (run s es).2).length ≤ (match (getSub s j).pc with | .checked => 1 | .emitting _ => 1 | _ => 0) := by
  intro h
  have := h [{ pc := .none, i := 0, cleared := true }] [.subscribe 0 .ok, .expire 0, .bump 0, .deliver 0] 0 rfl
  revert this
  decide

/-- a subscription whose spawn failed stays failed and silent -/
theorem lrun_failed (j : Nat) (es : List Ev) (b : Sub) (h : b.pc = .failed) :
    (lrun j b es).2 = [] ∧ (lrun j b es).1.pc = .failed := by
  induction es generalizing b with
  | nil => simp [lrun, h]
  | cons e es ih =>
    by_cases he : idx e = j
    · have hs : (lstep b e).2 = [] ∧ (lstep b e).1.pc = .failed := by
        rcases b with ⟨pc, i, c⟩
        cases h
        cases e <;> simp [lstep]
      rw [lrun_cons_self j b e es he, hs.1]
      simpa using ih _ hs.2
    · rw [lrun_cons_other j b e es he]; exact ih b h

/-- C16 (spawn failure): a subscription whose task cannot be spawned receives exactly one Error and nothing else, ever -/
theorem spawn_failure (s : State) (es : List Ev) (j : Nat) (r : SpawnRes) (hr : r ≠ .ok) (h : (getSub s j).pc = .none) :
    obsOf j (run s (.subscribe j r :: es)).2 = [.error j r] := by
  rw [(proj j _ s).2, lrun_cons_self j _ _ es rfl]
  have hs : lstep (getSub s j) (.subscribe j r) = ({ pc := .failed }, [.error j r]) := by
    cases r <;> simp_all [lstep]
  rw [hs]
  simp [(lrun_failed j es { pc := .failed } rfl).1]

/-- C01 for interval: a subscription is greeted at most once, and before any of its data -/
theorem greet_first (es : List Ev) (j : Nat) :
    obsOf j (run [] es).2 = [] ∨ (∃ r, r ≠ SpawnRes.ok ∧ obsOf j (run [] es).2 = [.error j r]) ∨
    (∃ vs : List Nat, obsOf j (run [] es).2 = .greet j :: vs.map (Obs.data j)) := by
  have hi := inv_run j es
  generalize getSub (run [] es).1 j = b at hi
  generalize obsOf j (run [] es).2 = o at hi
  rcases b with ⟨pc, i, c⟩
  cases pc
  case none => left; simp_all [Inv]
  case failed => right; left; exact hi.1
  case emitting v => right; right; exact ⟨_, hi.2⟩
  all_goals right; right; exact ⟨_, hi⟩

end Cb.Interval

#print axioms Cb.Interval.data_is_range
#print axioms Cb.Interval.data_count
#print axioms Cb.Interval.independent
#print axioms Cb.Interval.independent_obs
#print axioms Cb.Interval.silent_after_exit
#print axioms Cb.Interval.silent_after_exit_obs
#print axioms Cb.Interval.at_most_one_after_dispose
#print axioms Cb.Interval.at_most_one_after_dispose_reachable
#print axioms Cb.Interval.at_most_one_after_dispose_needs_subscribed
#print axioms Cb.Interval.spawn_failure
#print axioms Cb.Interval.greet_first
