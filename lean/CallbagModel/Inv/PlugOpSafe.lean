import CallbagModel.Inv.PlugConcat
import CallbagModel.Ops.PlugOp
/-!
# Assume–guarantee for `plugOp j M₁ M₂`: a unary OPERATOR in upstream slot `j` of an n-ary operator

`plugOp_inv`: every small-step reachable configuration `s` of `plugOp j M₁ M₂` projects onto reachable configurations `s₁` of `M₁` and
`s₂` of `M₂` (`MatchO`: states, stacks, phases).  It is the common generalisation of `compose` (there `M₂` is unary, `j = 0`) and of
`plug` (there `M₁` has no upstream):

* the composite's sinks are `M₂`'s; its upstream `i ≠ j` is `M₂`'s upstream `i`; its upstream `j` is `M₁`'s upstream 0; the interface is
  `g₂.srcPh j = toSrc (g₁.sinkPh 0)` (`PGO`);
* external calls are `M₂`'s (`extHi`, all but those to slot `j`) and `M₁`'s calls to its upstream 0, seen from outside as calls to
  upstream `j` (`extSub`, `extUp`); a re-entry from outside lands in the component that made the call, or — upstream `j` delivering
  from top level — in `M₁`;
* the composite has `M₂`'s shape.  If `M₂` admits late greetings (`merge`), the environment may greet upstream `j` late, i.e. greet `M₁`
  late: hypothesis `lg` (`M₂.shape.lateGreet = true → M₁.shape.lateGreet = true`).  `plugOp` does not look at `M₁.shape`, so a relay can
  be given a late-greeting shape provided it is safe under it;
* as for `compose`, `M₁` subscribes to its upstream only while its sink (`M₂`) is open, and the composite's monitor asks that one of
  the composite's sinks (`M₂`'s) be open then: hypothesis `open2` (slot `j` of `M₂` subscribed or live ⟹ a sink of `M₂` is open), asked
  only of the configurations of `M₂` in which `M₁` can run (top level, or inside a call to slot `j`).  For `merge` it is FALSE at other
  environment turns: while the sink's `Terminate` is being broadcast (`uLoop`) the members not yet told are still live; and with late
  greetings a member can stay `subscribed` after the sink has gone (members 0 and 1 subscribed, 0 greets, the sink is greeted and
  terminates: member 1 is still `subscribed`, no sink is open);
* as for `plug`, `up`: while `M₂` has a message to slot `j` in flight, `M₁`'s sink has been greeted.
-/
namespace Cb
namespace PlugOpSafe
open ComposeSafe ComposeFun ComposeComplete PlugSafe

/-! ## Part 1: the projection -/
section Defs
variable {S1 L1 S2 L2 β γ : Type}

inductive RelO (j : Nat) : Side → List (CFr L1 L2) → List (Frame (List (CFr L1 L2)) γ) → List (Frame L1 β) → List (Frame L2 γ) → Prop where
  | nil {sd} : RelO j sd [] [] [] []
  | extSub {l cfs stk k1 k2} : RelO j .lo cfs stk k1 k2 →
      RelO j .lo [] (.wait (.subSrc j) (.lo l :: cfs) :: stk) (.wait (.subSrc 0) l :: k1) k2
  | extUp {u l cfs stk k1 k2} : RelO j .lo cfs stk k1 k2 →
      RelO j .lo [] (.wait (.srcUp j u) (.lo l :: cfs) :: stk) (.wait (.srcUp 0 u) l :: k1) k2
  | extHi {o l cfs stk k1 k2} : ExtOut j o → RelO j .hi cfs stk k1 k2 →
      RelO j .hi [] (.wait o (.hi l :: cfs) :: stk) k1 (.wait o l :: k2)
  | intLo {o l cfs stk k1 k2} : Internal1 o → RelO j .lo cfs stk k1 k2 →
      RelO j .hi (.lo l :: cfs) stk (.wait o l :: k1) k2
  | intSub {l cfs stk k2} : RelO j .hi cfs stk [] k2 →
      RelO j .lo (.hi l :: cfs) stk [] (.wait (.subSrc j) l :: k2)
  | intUp {u l cfs stk k1 k2} : RelO j .hi cfs stk k1 k2 →
      RelO j .lo (.hi l :: cfs) stk k1 (.wait (.srcUp j u) l :: k2)

inductive SMO (j : Nat) : List (Frame (List (CFr L1 L2)) γ) → List (Frame L1 β) → List (Frame L2 γ) → Prop where
  | turn {sd stk k1 k2} : RelO j sd [] stk k1 k2 → SMO j stk k1 k2
  | runLo {l cfs stk k1 k2} : RelO j .lo cfs stk k1 k2 → SMO j (.run (.lo l :: cfs) :: stk) (.run l :: k1) k2
  | runHi {l cfs stk k1 k2} : RelO j .hi cfs stk k1 k2 → SMO j (.run (.hi l :: cfs) :: stk) k1 (.run l :: k2)

theorem RelO.turns {j sd cfs} {stk : List (Frame (List (CFr L1 L2)) γ)} {k1 : List (Frame L1 β)} {k2 : List (Frame L2 γ)}
    (h : RelO j sd cfs stk k1 k2) : (ctxOf k1).isSome = true ∧ (ctxOf k2).isSome = true := by
  induction h with
  | nil => simp [ctxOf]
  | extSub _ ih => exact ⟨by simp [ctxOf], ih.2⟩
  | extUp _ ih => exact ⟨by simp [ctxOf], ih.2⟩
  | extHi _ _ ih => exact ⟨ih.1, by simp [ctxOf]⟩
  | intLo _ _ ih => exact ⟨by simp [ctxOf], ih.2⟩
  | intSub _ ih => exact ⟨by simp [ctxOf], by simp [ctxOf]⟩
  | intUp _ ih => exact ⟨ih.1, by simp [ctxOf]⟩

/-- while `M₁` runs (or waits on a call to its upstream), `M₂` is at top level or waiting on a call into `M₁` -/
theorem RelO.lo_k2 {j sd cfs} {stk : List (Frame (List (CFr L1 L2)) γ)} {k1 : List (Frame L1 β)} {k2 : List (Frame L2 γ)}
    (h : RelO j sd cfs stk k1 k2) : sd = .lo →
    k2 = [] ∨ (∃ l r, k2 = .wait (.subSrc j) l :: r) ∨ (∃ u l r, k2 = .wait (.srcUp j u) l :: r) := by
  induction h with
  | nil => intro _; exact .inl rfl
  | extSub _ ih => exact ih
  | extUp _ ih => exact ih
  | extHi _ _ ih => intro h; cases h
  | intLo _ _ ih => intro h; cases h
  | intSub _ ih => intro _; exact .inr (.inl ⟨_, _, rfl⟩)
  | intUp _ ih => intro _; exact .inr (.inr ⟨_, _, _, rfl⟩)

/-- while `M₂` runs (or waits on one of its external calls), `M₁` is at top level or waiting on a call into `M₂` -/
theorem RelO.hi_k1 {j sd cfs} {stk : List (Frame (List (CFr L1 L2)) γ)} {k1 : List (Frame L1 β)} {k2 : List (Frame L2 γ)}
    (h : RelO j sd cfs stk k1 k2) : sd = .hi → k1 = [] ∨ (∃ o l r, k1 = .wait o l :: r ∧ Internal1 o) := by
  induction h with
  | nil => intro _; exact .inl rfl
  | extSub _ ih => intro h; cases h
  | extUp _ ih => intro h; cases h
  | extHi _ _ ih => exact ih
  | intLo ho _ ih => intro _; exact .inr ⟨_, _, _, rfl, ho⟩
  | intSub _ ih => intro h; cases h
  | intUp _ ih => intro h; cases h

/-- the three phase layers: `g` of the composite, `g1` of `M₁`, `g2` of `M₂` -/
structure PGO (j : Nat) (g g1 g2 : Ph) : Prop where
  v : g.viols = []
  sink : ∀ k, g.sinkPh k = g2.sinkPh k
  src : ∀ i, i ≠ j → g.srcPh i = g2.srcPh i
  srcj : g.srcPh j = g1.srcPh 0
  ifc : g2.srcPh j = toSrc (g1.sinkPh 0)
  src1 : ∀ i, g1.srcPh (i + 1) = .idle
  sink1 : ∀ k, g1.sinkPh (k + 1) = .idle

theorem PGO.setIfc {j : Nat} {g g1 g2 : Ph} (h : PGO j g g1 g2) (p : SinkPh) :
    PGO j g (g1.setSink 0 p) (g2.setSrc j (toSrc p)) :=
  ⟨h.v, fun k => by simp [h.sink], fun i hi => by simp [hi, h.src i hi], by simp [h.srcj], by simp, fun i => by simp [h.src1],
    fun k => by simp [h.sink1]⟩

theorem PGO.setSinkExt {j : Nat} {g g1 g2 : Ph} (h : PGO j g g1 g2) (k : Nat) (p : SinkPh) :
    PGO j (g.setSink k p) g1 (g2.setSink k p) :=
  ⟨h.v, fun k' => by simp [h.sink], fun i hi => by simp [h.src i hi], by simp [h.srcj], by simp [h.ifc], h.src1, h.sink1⟩

theorem PGO.setSrcExt {j : Nat} {g g1 g2 : Ph} (h : PGO j g g1 g2) (i : Nat) (hi : i ≠ j) (p : SrcPh) :
    PGO j (g.setSrc i p) g1 (g2.setSrc i p) :=
  ⟨h.v, fun k' => by simp [h.sink], fun i' hi' => by simp only [Ph.srcPh_setSrc]; split; rfl; exact h.src i' hi',
    by simp [Ne.symm hi, h.srcj], by simp [Ne.symm hi, h.ifc], h.src1, h.sink1⟩

theorem PGO.setSrcJ {j : Nat} {g g1 g2 : Ph} (h : PGO j g g1 g2) (p : SrcPh) :
    PGO j (g.setSrc j p) (g1.setSrc 0 p) g2 :=
  ⟨h.v, fun k' => by simp [h.sink], fun i hi => by simp [hi, h.src i hi], by simp, by simp [h.ifc], fun i => by simp [h.src1],
    fun k => by simp [h.sink1]⟩

/-- a composite configuration and its two projections -/
structure MatchO (j : Nat) (s : Sys (S1 × S2) (List (CFr L1 L2)) β γ) (s1 : Sys S1 L1 β β) (s2 : Sys S2 L2 β γ) : Prop where
  st : s.st = (s1.st, s2.st)
  p : s.panicked = none
  p1 : s1.panicked = none
  p2 : s2.panicked = none
  gh : PGO j s.g.ph s1.g.ph s2.g.ph
  stk : SMO j s.stack s1.stack s2.stack
  /-- while `M₂` has a message to upstream `j` in flight, `M₁`'s sink has been greeted -/
  up : ∀ u l, Frame.wait (.srcUp j u) l ∈ s2.stack → NotPre (s1.g.ph.sinkPh 0)

/-- the hypotheses of the assume–guarantee theorem for `plugOp` -/
structure HypO (j : Nat) (M1 : Machine S1 L1 β β) (M2 : Machine S2 L2 β γ) : Prop where
  /-- the environment of the composite may greet (upstream `j`, hence `M₁`) late only if `M₁` admits it -/
  lg : M2.shape.lateGreet = true → M1.shape.lateGreet = true
  noApp1 : ∀ st l b st' l', M1.step st l ≠ .call (.app b) st' l'
  oneSrc1 : ∀ st l i st' l', M1.step st l ≠ .call (.subSrc (i + 1)) st' l'
  sync : M2.shape.lateGreet = true ∨ ∀ s, SReach M1 s → s.stack = [] → s.g.ph.sinkPh 0 ≠ .subscribed
  /-- while slot `j` of `M₂` is subscribed or live, one of `M₂`'s sinks is open — asked only where `M₁` can run: `M₂` at top level or
  inside a call to slot `j` -/
  open2 : ∀ s, SReach M2 s → s.panicked = none →
    (s.stack = [] ∨ (∃ l r, s.stack = .wait (.subSrc j) l :: r) ∨ (∃ u l r, s.stack = .wait (.srcUp j u) l :: r)) →
    (s.g.ph.srcPh j = .subscribed ∨ s.g.ph.srcPh j = .live) → s.g.ph.anySinkOpen = true
  safe1 : ∀ s, SReach M1 s → BasicSafe s
  safe2 : ∀ s, SReach M2 s → BasicSafe s

end Defs

/-! ## Part 2: every step of the composite is matched -/
section Steps
variable {S1 L1 S2 L2 β γ : Type} {M1 : Machine S1 L1 β β} {M2 : Machine S2 L2 β γ} {j : Nat}

theorem step_lo (H : HypO j M1 M2) {st1 : S1} {st2 : S2} {l : L1} {rest : List (CFr L1 L2)}
    {stk : List (Frame (List (CFr L1 L2)) γ)} {g : G} {tr : List (Ev β γ)}
    {k1 : List (Frame L1 β)} {k2 : List (Frame L2 γ)} {g1 g2 : G} {tr1 : List (Ev β β)} {tr2 : List (Ev β γ)}
    {b : Sys (S1 × S2) (List (CFr L1 L2)) β γ}
    (hr1 : SReach M1 ⟨st1, .run l :: k1, g1, tr1, none⟩) (hr2 : SReach M2 ⟨st2, k2, g2, tr2, none⟩)
    (hrel : RelO j .lo rest stk k1 k2) (hgh : PGO j g.ph g1.ph g2.ph)
    (hup : ∀ u l, Frame.wait (.srcUp j u) l ∈ k2 → NotPre (g1.ph.sinkPh 0))
    (hop : opStep (plugOp j M1 M2) ⟨(st1, st2), .run (.lo l :: rest) :: stk, g, tr, none⟩ = some b) :
    ∃ s1 s2, SReach M1 s1 ∧ SReach M2 s2 ∧ MatchO j b s1 s2 := by
  cases hst : M1.step st1 l with
  | tau s1' l' =>
    simp [opStep, plugOp, hst] at hop
    subst hop
    exact ⟨_, _, reach_op hr1 (.tau hst), hr2, ⟨rfl, rfl, rfl, rfl, hgh, .runLo hrel, hup⟩⟩
  | panic m =>
    have := (H.safe1 _ (reach_op hr1 (.panic hst))).2
    cases this
  | ret =>
    have hr1' := reach_op hr1 (.ret hst)
    cases rest with
    | nil =>
      simp [opStep, plugOp, hst] at hop
      subst hop
      exact ⟨_, _, hr1', hr2, ⟨rfl, rfl, rfl, rfl, by simpa using hgh, .turn hrel, by simpa using hup⟩⟩
    | cons c rest' =>
      simp [opStep, plugOp, hst] at hop
      subst hop
      cases hrel with
      | @intSub l2 _ _ k2' h =>
        have h2 : M2.shape.lateGreet = true ∨ g2.ph.srcPh j ≠ .subscribed := by
          rcases H.sync with hs | hs
          · exact .inl hs
          · right
            have h1 : g1.ph.sinkPh 0 ≠ .subscribed := by simpa using hs _ hr1' rfl
            rw [hgh.ifc]; exact fun h => h1 (toSrc_subscribed.1 h)
        have he := EnvStep.ret (M := M2) (st := st2) (stk := k2') (g := g2) (tr := tr2) (o := .subSrc j) (l := l2)
          (by rcases h2 with h2 | h2 <;> simp [legalRet, h2])
        refine ⟨_, _, hr1', reach_env hr2 he, ⟨rfl, rfl, rfl, rfl, by simpa using hgh, .runHi h, ?_⟩⟩
        simp only [onRetO_ph]
        exact up_mono hup (fun f hf => by
          rcases List.mem_cons.1 hf with rfl | hf
          · exact .inl ⟨_, rfl⟩
          · exact .inr (List.mem_cons_of_mem _ hf))
      | @intUp u l2 _ _ _ k2' h =>
        have he := EnvStep.ret (M := M2) (st := st2) (stk := k2') (g := g2) (tr := tr2) (o := .srcUp j u) (l := l2)
          (by simp [legalRet])
        refine ⟨_, _, hr1', reach_env hr2 he, ⟨rfl, rfl, rfl, rfl, by simpa using hgh, .runHi h, ?_⟩⟩
        simp only [onRetO_ph]
        exact up_mono hup (fun f hf => by
          rcases List.mem_cons.1 hf with rfl | hf
          · exact .inl ⟨_, rfl⟩
          · exact .inr (List.mem_cons_of_mem _ hf))
  | call o s1' l' =>
    have hr1' := reach_op hr1 (.call hst)
    have hv := (H.safe1 _ hr1').1
    simp only [onOut_ph] at hv
    have hupOut : ∀ o' : Out β, ∀ u l, Frame.wait (.srcUp j u) l ∈ k2 → NotPre ((g1.ph.onOut o').sinkPh 0) :=
      fun o' u l hm => (hup u l hm).onOut o'
    cases o with
    | greet k =>
      obtain ⟨hsub, heq⟩ := onOut_greet_ok _ _ hv
      cases k with
      | succ k => rw [hgh.sink1 k] at hsub; cases hsub
      | zero =>
        simp [opStep, plugOp, hst] at hop
        subst hop
        have hsub2 : g2.ph.srcPh j = .subscribed := by rw [hgh.ifc, hsub]; rfl
        have hctx : ∃ c, ctxOf k2 = some c ∧ legalIn M2.shape g2.ph c (.srcGreet j : In β) = true := by
          rcases hrel.lo_k2 rfl with h | ⟨l2, r, h⟩ | ⟨u, l2, r, h⟩
          · subst h
            cases hlg : M2.shape.lateGreet with
            | true => exact ⟨_, rfl, by simp [legalIn, hsub2, isTop, hlg]⟩
            | false =>
              obtain ⟨l0, r, hk⟩ := subscribed_top M2 hlg hr2 j hsub2
              cases hk
          · subst h; exact ⟨_, rfl, by simp [legalIn, hsub2, inSub]⟩
          · subst h; exact absurd hsub (hup u l2 List.mem_cons_self).2
        obtain ⟨c, hc, hl⟩ := hctx
        have he := EnvStep.call (M := M2) (st := st2) (stk := k2) (g := g2) (tr := tr2) (.srcGreet j) hc hl
        refine ⟨_, _, hr1', reach_env hr2 he,
          ⟨rfl, rfl, rfl, rfl, ?_, .runHi (.intLo (by simp [Internal1]) hrel), ?_⟩⟩
        · simp only [onOut_ph, onIn_ph, heq]
          exact hgh.setIfc .live
        · intro u l hm
          simp only [onOut_ph, heq]
          exact ⟨by simp, by simp⟩
    | down k d =>
      obtain ⟨hlive, heq⟩ := onOut_down_ok _ _ _ hv
      cases k with
      | succ k => rw [hgh.sink1 k] at hlive; cases hlive
      | zero =>
        simp [opStep, plugOp, hst] at hop
        subst hop
        have hlive2 : g2.ph.srcPh j = .live := by rw [hgh.ifc, hlive]; rfl
        have hctx : ∃ c, ctxOf k2 = some c ∧ legalIn M2.shape g2.ph c (.srcDown j d) = true := by
          rcases hrel.lo_k2 rfl with h | ⟨l2, r, h⟩ | ⟨u, l2, r, h⟩
          · subst h; exact ⟨_, rfl, by simp [legalIn, hlive2, isTop]⟩
          · subst h; exact ⟨_, rfl, by simp [legalIn, hlive2, inSub]⟩
          · subst h
            cases u with
            | pull => exact ⟨_, rfl, by simp [legalIn, hlive2, inPull]⟩
            | term =>
              have := wait_srcUp_disposed M2 hr2 (H.safe2 _ hr2).1 j .term l2 (by simp) (by simp)
              simp only at this; rw [hlive2] at this; cases this
            | err e =>
              have := wait_srcUp_disposed M2 hr2 (H.safe2 _ hr2).1 j (.err e) l2 (by simp) (by simp)
              simp only at this; rw [hlive2] at this; cases this
        obtain ⟨c, hc, hl⟩ := hctx
        have he := EnvStep.call (M := M2) (st := st2) (stk := k2) (g := g2) (tr := tr2) (.srcDown j d) hc hl
        refine ⟨_, _, hr1', reach_env hr2 he,
          ⟨rfl, rfl, rfl, rfl, ?_, .runHi (.intLo (by simp [Internal1]) hrel), ?_⟩⟩
        · simp only [onOut_ph, onIn_ph, heq]
          cases d with
          | data x => simpa [isFinal, Ph.onIn] using hgh
          | term => simpa [isFinal, Ph.onIn, toSrc] using hgh.setIfc .doneBySrc
          | err e => simpa [isFinal, Ph.onIn, toSrc] using hgh.setIfc .doneBySrc
        · simp only [onOut_ph]
          intro u l hm
          have : NotPre (g1.ph.sinkPh 0) := ⟨by rw [hlive]; decide, by rw [hlive]; decide⟩
          exact this.onOut _
    | subSrc i =>
      obtain ⟨hidle1, hopen1, heq⟩ := onOut_subSrc_ok _ _ hv
      cases i with
      | succ i => exact absurd hst (H.oneSrc1 _ _ _ _ _)
      | zero =>
        simp [opStep, plugOp, hst] at hop
        subst hop
        have hopenC : g.ph.anySinkOpen = true := by
          obtain ⟨k, hk⟩ := (Ph.anySinkOpen_iff _).1 hopen1
          have hk0 : k = 0 := by
            cases k with
            | zero => rfl
            | succ k => rw [hgh.sink1 k] at hk; rcases hk with hk | hk <;> cases hk
          subst hk0
          have h2 : g2.ph.srcPh j = .subscribed ∨ g2.ph.srcPh j = .live := by
            rw [hgh.ifc]; rcases hk with hk | hk <;> rw [hk] <;> simp [toSrc]
          obtain ⟨k', hk'⟩ := (Ph.anySinkOpen_iff _).1 (H.open2 _ hr2 rfl (hrel.lo_k2 rfl) h2)
          exact (Ph.anySinkOpen_iff _).2 ⟨k', by rw [hgh.sink k']; exact hk'⟩
        refine ⟨_, _, hr1', hr2, ⟨rfl, rfl, rfl, rfl, ?_, .turn (.extSub hrel), fun u' l0 hm => by simp only [onOut_ph]; exact hupOut _ u' l0 hm⟩⟩
        simp only [onOut_ph, heq, onOut_subSrc_eq (hgh.srcj.trans hidle1) hopenC]
        exact hgh.setSrcJ .subscribed
    | srcUp i u =>
      obtain ⟨hlive1, heq⟩ := onOut_srcUp_ok _ _ _ hv
      cases i with
      | succ i => rw [hgh.src1 i] at hlive1; cases hlive1
      | zero =>
        simp [opStep, plugOp, hst] at hop
        subst hop
        refine ⟨_, _, hr1', hr2, ⟨rfl, rfl, rfl, rfl, ?_, .turn (.extUp hrel), fun u' l0 hm => by simp only [onOut_ph]; exact hupOut _ u' l0 hm⟩⟩
        simp only [onOut_ph, heq, onOut_srcUp_eq u (hgh.srcj.trans hlive1)]
        cases u with
        | pull => exact hgh
        | term => exact hgh.setSrcJ .disposed
        | err e => exact hgh.setSrcJ .disposed
    | app b' => exact absurd hst (H.noApp1 _ _ _ _ _)


theorem step_hi (H : HypO j M1 M2) {st1 : S1} {st2 : S2} {l : L2} {rest : List (CFr L1 L2)}
    {stk : List (Frame (List (CFr L1 L2)) γ)} {g : G} {tr : List (Ev β γ)}
    {k1 : List (Frame L1 β)} {k2 : List (Frame L2 γ)} {g1 g2 : G} {tr1 : List (Ev β β)} {tr2 : List (Ev β γ)}
    {b : Sys (S1 × S2) (List (CFr L1 L2)) β γ}
    (hr1 : SReach M1 ⟨st1, k1, g1, tr1, none⟩) (hr2 : SReach M2 ⟨st2, .run l :: k2, g2, tr2, none⟩)
    (hrel : RelO j .hi rest stk k1 k2) (hgh : PGO j g.ph g1.ph g2.ph)
    (hup : ∀ u l', Frame.wait (.srcUp j u) l' ∈ (Frame.run l :: k2 : List (Frame L2 γ)) → NotPre (g1.ph.sinkPh 0))
    (hop : opStep (plugOp j M1 M2) ⟨(st1, st2), .run (.hi l :: rest) :: stk, g, tr, none⟩ = some b) :
    ∃ s1 s2, SReach M1 s1 ∧ SReach M2 s2 ∧ MatchO j b s1 s2 := by
  have hup2 : ∀ u l', Frame.wait (.srcUp j u) l' ∈ k2 → NotPre (g1.ph.sinkPh 0) :=
    fun u l' hm => hup u l' (List.mem_cons_of_mem _ hm)
  have hupRun : ∀ (l0 : L2) u l', Frame.wait (.srcUp j u) l' ∈ (Frame.run l0 :: k2 : List (Frame L2 γ)) → NotPre (g1.ph.sinkPh 0) := by
    intro l0 u l' hm
    rcases List.mem_cons.1 hm with he | hm
    · cases he
    · exact hup2 u l' hm
  cases hst : M2.step st2 l with
  | tau s2' l' =>
    simp [opStep, plugOp, hst] at hop
    subst hop
    exact ⟨_, _, hr1, reach_op hr2 (.tau hst), ⟨rfl, rfl, rfl, rfl, hgh, .runHi hrel, hupRun l'⟩⟩
  | panic m =>
    have := (H.safe2 _ (reach_op hr2 (.panic hst))).2
    cases this
  | ret =>
    have hr2' := reach_op hr2 (.ret hst)
    cases rest with
    | nil =>
      simp [opStep, plugOp, hst] at hop
      subst hop
      exact ⟨_, _, hr1, hr2', ⟨rfl, rfl, rfl, rfl, by simpa using hgh, .turn hrel, hup2⟩⟩
    | cons c rest' =>
      simp [opStep, plugOp, hst] at hop
      subst hop
      cases hrel with
      | @intLo o l1 _ _ k1' _ ho h =>
        have he := EnvStep.ret (M := M1) (st := st1) (stk := k1') (g := g1) (tr := tr1) (o := o) (l := l1)
          (legalRet_internal1 _ _ ho)
        exact ⟨_, _, reach_env hr1 he, hr2', ⟨rfl, rfl, rfl, rfl, by simpa using hgh, .runLo h, hup2⟩⟩
  | call o s2' l' =>
    have hr2' := reach_op hr2 (.call hst)
    have hv := (H.safe2 _ hr2').1
    simp only [onOut_ph] at hv
    have hupWait : ∀ (o' : Out γ), (∀ u, o' ≠ .srcUp j u) →
        ∀ u l0, Frame.wait (.srcUp j u) l0 ∈ (Frame.wait o' l' :: k2 : List (Frame L2 γ)) → NotPre (g1.ph.sinkPh 0) := by
      intro o' hne u l0 hm
      rcases List.mem_cons.1 hm with he | hm
      · cases he; exact absurd rfl (hne u)
      · exact hup2 u l0 hm
    cases o with
    | subSrc i =>
      obtain ⟨hidle2, hopen2, heq⟩ := onOut_subSrc_ok _ _ hv
      by_cases hij : i = j
      · subst hij
        simp [opStep, plugOp, hst] at hop
        subst hop
        have hidle1 : g1.ph.sinkPh 0 = .idle := toSrc_idle.1 (hgh.ifc ▸ hidle2)
        have hall : ∀ k, g1.ph.sinkPh k = .idle := by
          intro k; cases k with
          | zero => exact hidle1
          | succ k => exact hgh.sink1 k
        have hk1 := (idle_empty M1 hr1 hall).1
        simp only at hk1
        subst hk1
        have he := EnvStep.call (M := M1) (st := st1) (stk := []) (g := g1) (tr := tr1)
          (.subscribe 0) rfl (by simp [legalIn, isTop, hidle1])
        refine ⟨_, _, reach_env hr1 he, hr2', ⟨rfl, rfl, rfl, rfl, ?_, .runLo (.intSub hrel), ?_⟩⟩
        · simp only [onOut_ph, onIn_ph, heq]
          exact hgh.setIfc .subscribed
        · intro u l0 hm
          rcases List.mem_cons.1 hm with he | hm
          · cases he
          · exact absurd hidle1 (hup2 u l0 hm).1
      · simp [opStep, plugOp, hst, hij] at hop
        subst hop
        have hopenC : g.ph.anySinkOpen = true := by
          obtain ⟨k, hk⟩ := (Ph.anySinkOpen_iff _).1 hopen2
          exact (Ph.anySinkOpen_iff _).2 ⟨k, by rw [hgh.sink k]; exact hk⟩
        refine ⟨_, _, hr1, hr2', ⟨rfl, rfl, rfl, rfl, ?_, .turn (.extHi (by simpa [ExtOut] using hij) hrel), ?_⟩⟩
        · simp only [onOut_ph, heq, onOut_subSrc_eq ((hgh.src i hij).trans hidle2) hopenC]
          exact hgh.setSrcExt i hij .subscribed
        · exact hupWait _ (fun u h => by cases h)
    | srcUp i u =>
      obtain ⟨hlive2, heq⟩ := onOut_srcUp_ok _ _ _ hv
      by_cases hij : i = j
      · subst hij
        simp [opStep, plugOp, hst] at hop
        subst hop
        have hlive1 : g1.ph.sinkPh 0 = .live := toSrc_live.1 (hgh.ifc ▸ hlive2)
        have hctx : ∃ c, ctxOf k1 = some c ∧ legalIn M1.shape g1.ph c (.sinkUp 0 u : In β) = true := by
          rcases hrel.hi_k1 rfl with h | ⟨o, l1, r, h, ho⟩
          · subst h; exact ⟨_, rfl, by simp [legalIn, hlive1, isTop]⟩
          · subst h
            cases o with
            | greet k =>
              cases k with
              | zero => exact ⟨_, rfl, by simp [legalIn, hlive1, inGreet]⟩
              | succ k => simp [Internal1] at ho
            | down k d =>
              cases k with
              | succ k => simp [Internal1] at ho
              | zero =>
                cases d with
                | data x => exact ⟨_, rfl, by simp [legalIn, hlive1, inData]⟩
                | term =>
                  have := wait_down_done M1 hr1 (H.safe1 _ hr1).1 0 .term l1 (by simp) rfl
                  simp only at this; rw [hlive1] at this; cases this
                | err e =>
                  have := wait_down_done M1 hr1 (H.safe1 _ hr1).1 0 (.err e) l1 (by simp) rfl
                  simp only at this; rw [hlive1] at this; cases this
            | subSrc i => simp [Internal1] at ho
            | srcUp i u => simp [Internal1] at ho
            | app b => simp [Internal1] at ho
        obtain ⟨c, hc, hl⟩ := hctx
        have he := EnvStep.call (M := M1) (st := st1) (stk := k1) (g := g1) (tr := tr1) (.sinkUp 0 u) hc hl
        have hnp : NotPre (g1.ph.sinkPh 0) := ⟨by rw [hlive1]; decide, by rw [hlive1]; decide⟩
        refine ⟨_, _, reach_env hr1 he, hr2', ⟨rfl, rfl, rfl, rfl, ?_, .runLo (.intUp hrel), ?_⟩⟩
        · simp only [onOut_ph, onIn_ph, heq]
          cases u with
          | pull => simpa [Ph.onIn, afterUp] using hgh
          | term => simpa [Ph.onIn, toSrc, afterUp] using hgh.setIfc .doneBySelf
          | err e => simpa [Ph.onIn, toSrc, afterUp] using hgh.setIfc .doneBySelf
        · intro u' l0 _
          simp only [onIn_ph]
          exact hnp.onIn hl
      · simp [opStep, plugOp, hst, hij] at hop
        subst hop
        refine ⟨_, _, hr1, hr2', ⟨rfl, rfl, rfl, rfl, ?_, .turn (.extHi (by simpa [ExtOut] using hij) hrel), ?_⟩⟩
        · simp only [onOut_ph, heq, onOut_srcUp_eq u ((hgh.src i hij).trans hlive2)]
          cases u with
          | pull => exact hgh
          | term => exact hgh.setSrcExt i hij .disposed
          | err e => exact hgh.setSrcExt i hij .disposed
        · exact hupWait _ (fun u' h => by cases h; exact hij rfl)
    | greet k =>
      obtain ⟨hsub, heq⟩ := onOut_greet_ok _ _ hv
      simp [opStep, plugOp, hst] at hop
      subst hop
      refine ⟨_, _, hr1, hr2', ⟨rfl, rfl, rfl, rfl, ?_, .turn (.extHi (by simp [ExtOut]) hrel), ?_⟩⟩
      · simp only [onOut_ph, heq, onOut_greet_eq ((hgh.sink k).trans hsub)]
        exact hgh.setSinkExt k .live
      · exact hupWait _ (fun u' h => by cases h)
    | down k d =>
      obtain ⟨hlive, heq⟩ := onOut_down_ok _ _ _ hv
      simp [opStep, plugOp, hst] at hop
      subst hop
      refine ⟨_, _, hr1, hr2', ⟨rfl, rfl, rfl, rfl, ?_, .turn (.extHi (by simp [ExtOut]) hrel), ?_⟩⟩
      · simp only [onOut_ph, heq, onOut_down_eq d ((hgh.sink k).trans hlive)]
        cases hf : isFinal d with
        | true => simpa using hgh.setSinkExt k .doneBySrc
        | false => simpa using hgh
      · exact hupWait _ (fun u' h => by cases h)
    | app b' =>
      simp [opStep, plugOp, hst] at hop
      subst hop
      refine ⟨_, _, hr1, hr2', ⟨rfl, rfl, rfl, rfl, ?_, .turn (.extHi (by simp [ExtOut]) hrel), ?_⟩⟩
      · simpa [Ph.onOut] using hgh
      · exact hupWait _ (fun u' h => by cases h)


/-- an environment call that lands in `M₂` -/
theorem env_hi {st1 : S1} {st2 : S2} {stk : List (Frame (List (CFr L1 L2)) γ)} {g : G} {tr : List (Ev β γ)}
    {k1 : List (Frame L1 β)} {k2 : List (Frame L2 γ)} {g1 g2 : G} {tr1 : List (Ev β β)} {tr2 : List (Ev β γ)} {c : Ctx γ} {i : In β}
    (hr1 : SReach M1 ⟨st1, k1, g1, tr1, none⟩) (hr2 : SReach M2 ⟨st2, k2, g2, tr2, none⟩)
    (hrel : RelO j .hi [] stk k1 k2) (_hgh : PGO j g.ph g1.ph g2.ph)
    (hup : ∀ u l, Frame.wait (.srcUp j u) l ∈ k2 → NotPre (g1.ph.sinkPh 0))
    (hc2 : ctxOf k2 = some c) (hl2 : legalIn M2.shape g2.ph c i = true)
    (hent : (plugOp j M1 M2).enter i = [.hi (M2.enter i)])
    (hgh' : PGO j (g.ph.onIn i) g1.ph (g2.ph.onIn i)) :
    ∃ s1 s2, SReach M1 s1 ∧ SReach M2 s2 ∧
      MatchO j (⟨(st1, st2), .run ((plugOp j M1 M2).enter i) :: stk, g.onIn stk.length i, .inp i :: tr, none⟩ :
        Sys (S1 × S2) (List (CFr L1 L2)) β γ) s1 s2 := by
  have he2 := EnvStep.call (M := M2) (st := st2) (stk := k2) (g := g2) (tr := tr2) i hc2 hl2
  refine ⟨_, _, hr1, reach_env hr2 he2, ⟨rfl, rfl, rfl, rfl, by simpa using hgh', by rw [hent]; exact .runHi hrel, ?_⟩⟩
  intro u l' hm
  rcases List.mem_cons.1 hm with he | hm
  · cases he
  · exact hup u l' hm

/-- an environment call that lands in `M₁` (upstream `j` of the composite is upstream 0 of `M₁`) -/
theorem env_lo {st1 : S1} {st2 : S2} {stk : List (Frame (List (CFr L1 L2)) γ)} {g : G} {tr : List (Ev β γ)}
    {k1 : List (Frame L1 β)} {k2 : List (Frame L2 γ)} {g1 g2 : G} {tr1 : List (Ev β β)} {tr2 : List (Ev β γ)} {c1 : Ctx β}
    {i : In β} (i1 : In β)
    (hr1 : SReach M1 ⟨st1, k1, g1, tr1, none⟩) (hr2 : SReach M2 ⟨st2, k2, g2, tr2, none⟩)
    (hrel : RelO j .lo [] stk k1 k2) (hup : ∀ u l, Frame.wait (.srcUp j u) l ∈ k2 → NotPre (g1.ph.sinkPh 0))
    (hc1 : ctxOf k1 = some c1) (hl1 : legalIn M1.shape g1.ph c1 i1 = true)
    (hent : (plugOp j M1 M2).enter i = [.lo (M1.enter i1)])
    (hgh' : PGO j (g.ph.onIn i) (g1.ph.onIn i1) g2.ph) :
    ∃ s1 s2, SReach M1 s1 ∧ SReach M2 s2 ∧
      MatchO j (⟨(st1, st2), .run ((plugOp j M1 M2).enter i) :: stk, g.onIn stk.length i, .inp i :: tr, none⟩ :
        Sys (S1 × S2) (List (CFr L1 L2)) β γ) s1 s2 := by
  have he1 := EnvStep.call (M := M1) (st := st1) (stk := k1) (g := g1) (tr := tr1) i1 hc1 hl1
  refine ⟨_, _, reach_env hr1 he1, hr2, ⟨rfl, rfl, rfl, rfl, by simpa using hgh', by rw [hent]; exact .runLo hrel, ?_⟩⟩
  intro u l' hm
  simp only [onIn_ph]
  exact (hup u l' hm).onIn hl1

theorem step_env (H : HypO j M1 M2) {a b : Sys (S1 × S2) (List (CFr L1 L2)) β γ} {s1 : Sys S1 L1 β β} {s2 : Sys S2 L2 β γ}
    {m : Move β} (hr1 : SReach M1 s1) (hr2 : SReach M2 s2) (hm : MatchO j a s1 s2)
    (he : EnvStep (plugOp j M1 M2) m a b) :
    ∃ s1' s2', SReach M1 s1' ∧ SReach M2 s2' ∧ MatchO j b s1' s2' := by
  obtain ⟨st1, k1, g1, tr1, p1⟩ := s1
  obtain ⟨st2, k2, g2, tr2, p2⟩ := s2
  obtain ⟨hst, _, hp1, hp2, hgh, hsm, hup⟩ := hm
  simp only at hp1 hp2
  subst hp1 hp2
  cases he with
  | @call st stk g tr c i hc hl =>
    simp only at hst hgh hsm hup
    subst hst
    have hsh : (plugOp j M1 M2).shape = M2.shape := rfl
    rw [hsh] at hl
    cases hsm with
    | runLo h => simp [ctxOf] at hc
    | runHi h => simp [ctxOf] at hc
    | turn hrel =>
      -- the four shapes of an environment turn
      cases hrel with
      | nil =>
        simp [ctxOf] at hc; subst hc
        cases i with
        | subscribe k =>
          exact env_hi hr1 hr2 .nil hgh hup rfl (by simpa [legalIn, hgh.sink k] using hl) rfl
            (by simpa [Ph.onIn] using hgh.setSinkExt k .subscribed)
        | sinkUp k u =>
          refine env_hi hr1 hr2 .nil hgh hup rfl (by simpa [legalIn, hgh.sink k] using hl) rfl ?_
          cases u with
          | pull => exact hgh
          | term => exact hgh.setSinkExt k .doneBySelf
          | err e => exact hgh.setSinkExt k .doneBySelf
        | srcGreet i =>
          by_cases hij : i = j
          · subst hij
            have hlg : M2.shape.lateGreet = true := by
              cases h : M2.shape.lateGreet with
              | true => rfl
              | false => simp [legalIn, inSub, h] at hl
            refine env_lo (.srcGreet 0) hr1 hr2 .nil hup rfl
              (by simp [legalIn, isTop, H.lg hlg, ← hgh.srcj, legal_srcGreet hl]) (by simp [plugOp]) ?_
            simpa [Ph.onIn] using hgh.setSrcJ .live
          · exact env_hi hr1 hr2 .nil hgh hup rfl (by simpa [legalIn, hgh.src i hij] using hl) (by simp [plugOp, hij])
              (by simpa [Ph.onIn] using hgh.setSrcExt i hij .live)
        | srcDown i d =>
          by_cases hij : i = j
          · subst hij
            refine env_lo (.srcDown 0 d) hr1 hr2 .nil hup rfl
              (by simp [legalIn, isTop, ← hgh.srcj, legal_srcDown hl]) (by simp [plugOp]) ?_
            cases d with
            | data x => exact hgh
            | term => exact hgh.setSrcJ .ended
            | err e => exact hgh.setSrcJ .ended
          · refine env_hi hr1 hr2 .nil hgh hup rfl (by simpa [legalIn, hgh.src i hij] using hl) (by simp [plugOp, hij]) ?_
            cases d with
            | data x => exact hgh
            | term => exact hgh.setSrcExt i hij .ended
            | err e => exact hgh.setSrcExt i hij .ended
      | @extSub l1 cfs _ k1' _ h =>
        simp [ctxOf] at hc; subst hc
        cases i with
        | subscribe k => simp [legalIn, isTop] at hl
        | sinkUp k u => simp [legalIn, isTop, inGreet, inData] at hl
        | srcGreet i =>
          have hij : i = j := by
            simp only [legalIn, inSub, isTop, Bool.and_false, Bool.or_false, Bool.and_eq_true, beq_iff_eq] at hl
            exact hl.2
          subst hij
          refine env_lo (.srcGreet 0) hr1 hr2 (.extSub h) hup rfl
            (by simp [legalIn, inSub, ← hgh.srcj, legal_srcGreet hl]) (by simp [plugOp]) ?_
          simpa [Ph.onIn] using hgh.setSrcJ .live
        | srcDown i d =>
          have hij : i = j := by
            simp only [legalIn, inSub, isTop, inPull, Bool.false_or, Bool.or_false, Bool.and_eq_true, beq_iff_eq] at hl
            exact hl.2
          subst hij
          refine env_lo (.srcDown 0 d) hr1 hr2 (.extSub h) hup rfl
            (by simp [legalIn, inSub, ← hgh.srcj, legal_srcDown hl]) (by simp [plugOp]) ?_
          cases d with
          | data x => exact hgh
          | term => exact hgh.setSrcJ .ended
          | err e => exact hgh.setSrcJ .ended
      | @extUp u l1 cfs _ k1' _ h =>
        simp [ctxOf] at hc; subst hc
        cases i with
        | subscribe k => simp [legalIn, isTop] at hl
        | sinkUp k u' => simp [legalIn, isTop, inGreet, inData] at hl
        | srcGreet i => simp [legalIn, isTop, inSub] at hl
        | srcDown i d =>
          cases u with
          | pull =>
            have hij : i = j := by
              simp only [legalIn, inSub, isTop, inPull, Bool.false_or, Bool.and_eq_true, beq_iff_eq] at hl
              exact hl.2
            subst hij
            refine env_lo (.srcDown 0 d) hr1 hr2 (.extUp h) hup rfl
              (by simp [legalIn, inPull, ← hgh.srcj, legal_srcDown hl]) (by simp [plugOp]) ?_
            cases d with
            | data x => exact hgh
            | term => exact hgh.setSrcJ .ended
            | err e => exact hgh.setSrcJ .ended
          | term => simp [legalIn, isTop, inSub, inPull] at hl
          | err e => simp [legalIn, isTop, inSub, inPull] at hl
      | @extHi o l2 cfs _ _ k2' ho h =>
        simp [ctxOf] at hc; subst hc
        have hrel' : RelO j .hi [] (Frame.wait o (CFr.hi l2 :: cfs) :: _) k1 (Frame.wait o l2 :: k2') := .extHi ho h
        cases i with
        | subscribe k => simp [legalIn, isTop] at hl
        | sinkUp k u =>
          refine env_hi hr1 hr2 hrel' hgh hup rfl (by simpa [legalIn, hgh.sink k] using hl) rfl ?_
          cases u with
          | pull => exact hgh
          | term => exact hgh.setSinkExt k .doneBySelf
          | err e => exact hgh.setSinkExt k .doneBySelf
        | srcGreet i =>
          have hij : i ≠ j := by
            rintro rfl
            cases o <;> simp [legalIn, isTop, inSub, ExtOut] at hl ho
            exact ho hl.2.symm
          exact env_hi hr1 hr2 hrel' hgh hup rfl (by simpa [legalIn, hgh.src i hij] using hl) (by simp [plugOp, hij])
            (by simpa [Ph.onIn] using hgh.setSrcExt i hij .live)
        | srcDown i d =>
          have hij : i ≠ j := by
            rintro rfl
            cases o with
            | subSrc i' => simp [legalIn, isTop, inSub, inPull, ExtOut] at hl ho; exact ho hl.2.symm
            | srcUp i' u' => cases u' <;> simp [legalIn, isTop, inSub, inPull, ExtOut] at hl ho; exact ho hl.2.symm
            | greet k => simp [legalIn, isTop, inSub, inPull] at hl
            | down k d' => simp [legalIn, isTop, inSub, inPull] at hl
            | app b' => simp [legalIn, isTop, inSub, inPull] at hl
          refine env_hi hr1 hr2 hrel' hgh hup rfl (by simpa [legalIn, hgh.src i hij] using hl) (by simp [plugOp, hij]) ?_
          cases d with
          | data x => exact hgh
          | term => exact hgh.setSrcExt i hij .ended
          | err e => exact hgh.setSrcExt i hij .ended
  | @ret st stk g tr o l hl =>
    simp only at hst hgh hsm hup
    subst hst
    have hsh : (plugOp j M1 M2).shape = M2.shape := rfl
    rw [hsh] at hl
    cases hsm with
    | turn hrel =>
      cases hrel with
      | @extSub l1 cfs _ k1' _ h =>
        have hl1 : legalRet M1.shape g1.ph (.inCall (.subSrc 0) : Ctx β) = true := by
          cases hlg : M2.shape.lateGreet with
          | true => simp [legalRet, H.lg hlg]
          | false =>
            simp only [legalRet, hlg, Bool.false_or, bne_iff_ne, ne_eq] at hl
            simp [legalRet, ← hgh.srcj, hl]
        have he1 := EnvStep.ret (M := M1) (st := st1) (stk := k1') (g := g1) (tr := tr1) (o := .subSrc 0) (l := l1) hl1
        exact ⟨_, _, reach_env hr1 he1, hr2, ⟨rfl, rfl, rfl, rfl, hgh, .runLo h, hup⟩⟩
      | @extUp u l1 cfs _ k1' _ h =>
        have he1 := EnvStep.ret (M := M1) (st := st1) (stk := k1') (g := g1) (tr := tr1) (o := .srcUp 0 u) (l := l1)
          (by simp [legalRet])
        exact ⟨_, _, reach_env hr1 he1, hr2, ⟨rfl, rfl, rfl, rfl, hgh, .runLo h, hup⟩⟩
      | @extHi _ l2 cfs _ _ k2' ho h =>
        have he2 := EnvStep.ret (M := M2) (st := st2) (stk := k2') (g := g2) (tr := tr2) (o := o) (l := l2)
          (legalRet_ext ho hgh.src hl)
        refine ⟨_, _, hr1, reach_env hr2 he2, ⟨rfl, rfl, rfl, rfl, hgh, .runHi h, ?_⟩⟩
        intro u l' hm
        rcases List.mem_cons.1 hm with he | hm
        · cases he
        · exact hup u l' (List.mem_cons_of_mem _ hm)

/-- **THE INVARIANT** for `plugOp` -/
theorem plugOp_inv (H : HypO j M1 M2) :
    ∀ s, SReach (plugOp j M1 M2) s → ∃ s1 s2, SReach M1 s1 ∧ SReach M2 s2 ∧ MatchO j s s1 s2 := by
  intro s hs
  induction hs with
  | init =>
    refine ⟨Sys.init M1, Sys.init M2, .init, .init, ⟨rfl, rfl, rfl, rfl, ?_, .turn (sd := .hi) .nil, ?_⟩⟩
    · exact ⟨rfl, fun k => by simp [Sys.init], fun i _ => by simp [Sys.init], by simp [Sys.init], by simp [Sys.init, toSrc],
        fun i => by simp [Sys.init], fun k => by simp [Sys.init]⟩
    · intro u l hm; simp [Sys.init] at hm
  | @step a b ha hab ih =>
    obtain ⟨s1, s2, hr1, hr2, hm⟩ := ih
    cases hab with
    | env he _ => exact step_env H hr1 hr2 hm he
    | op hop =>
      obtain ⟨st, stk, g, tr, p⟩ := a
      obtain ⟨st1, k1, g1, tr1, p1⟩ := s1
      obtain ⟨st2, k2, g2, tr2, p2⟩ := s2
      obtain ⟨hst, hp, hp1, hp2, hgh, hsm, hup⟩ := hm
      simp only at hst hp hp1 hp2 hgh hsm hup
      subst hst hp hp1 hp2
      cases hsm with
      | turn hrel =>
        have hturn : (ctxOf stk).isSome = true := by cases hrel <;> simp [ctxOf]
        have := opStep_none_of_envTurn (M := plugOp j M1 M2) (s := ⟨(st1, st2), stk, g, tr, none⟩) ⟨rfl, hturn⟩
        rw [this] at hop; cases hop
      | runLo hrel => exact step_lo H hr1 hr2 hrel hgh hup hop
      | runHi hrel => exact step_hi H hr1 hr2 hrel hgh hup hop

end Steps


/-! ## Part 3: consequences and instances -/
section Consequences
variable {S1 L1 S2 L2 β γ : Type} {M1 : Machine S1 L1 β β} {M2 : Machine S2 L2 β γ} {j : Nat}

/-- **phase-level safety of `plugOp`** (C01–C03, protocol part of C04, C17) -/
theorem plugOp_basicSafe (H : HypO j M1 M2) : ∀ s, SReach (plugOp j M1 M2) s → BasicSafe s := by
  intro s hs
  obtain ⟨s1, s2, _, _, hm⟩ := plugOp_inv H s hs
  exact ⟨hm.gh.v, hm.p⟩

/-- the phases of the composite: its sinks are `M₂`'s, its upstream `i ≠ j` is `M₂`'s, its upstream `j` is `M₁`'s upstream 0 -/
theorem plugOp_phases (H : HypO j M1 M2) : ∀ s, SReach (plugOp j M1 M2) s →
    ∃ s1 s2, SReach M1 s1 ∧ SReach M2 s2 ∧ (∀ k, s.g.ph.sinkPh k = s2.g.ph.sinkPh k) ∧
      (∀ i, i ≠ j → s.g.ph.srcPh i = s2.g.ph.srcPh i) ∧ s.g.ph.srcPh j = s1.g.ph.srcPh 0 ∧
      s2.g.ph.srcPh j = toSrc (s1.g.ph.sinkPh 0) := by
  intro s hs
  obtain ⟨s1, s2, h1, h2, hm⟩ := plugOp_inv H s hs
  exact ⟨s1, s2, h1, h2, hm.gh.sink, hm.gh.src, hm.gh.srcj, hm.gh.ifc⟩

/-- the hypotheses from the role conditions, for an n-ary operator that does not admit late greetings -/
theorem hypO_of (h1 : Pipeable M1) (hlg2 : M2.shape.lateGreet = false)
    (hopen : ∀ s, SReach M2 s → EnvTurn s → (s.g.ph.srcPh j = .subscribed ∨ s.g.ph.srcPh j = .live) → s.g.ph.anySinkOpen = true)
    (hs2 : ∀ s, SReach M2 s → BasicSafe s) : HypO j M1 M2 :=
  ⟨fun h => (by rw [hlg2] at h; cases h), h1.noApp, h1.oneSrc, .inr h1.sync,
    fun s hs hp hk h => hopen s hs ⟨hp, by rcases hk with hk | ⟨l, r, hk⟩ | ⟨u, l, r, hk⟩ <;> simp [hk, ctxOf]⟩ h, h1.safe, hs2⟩

/-- `concat!`: while a member is subscribed or live, the sink is open -/
theorem Concat.open_slot {α : Type} (n : Nat) (hn : 0 < n) (j : Nat) :
    ∀ s, SReach (Concat.machine α n) s → EnvTurn s → (s.g.ph.srcPh j = .subscribed ∨ s.g.ph.srcPh j = .live) →
      s.g.ph.anySinkOpen = true := by
  intro s hs ht h
  obtain ⟨st, stk, g, tr, p⟩ := s
  obtain ⟨hp, hc⟩ := ht
  simp only at hp hc h ⊢; subst hp
  obtain ⟨c, hcc⟩ := Option.isSome_iff_exists.1 hc
  obtain ⟨_, hm⟩ := PlugConcat.CK.cinv n hn hs hcc
  apply (Ph.anySinkOpen_iff _).2
  cases hm with
  | idle _ h2 => rw [h2 j] at h; rcases h with h | h <;> cases h
  | waiting _ _ _ _ h5 h6 _ =>
    by_cases hi : st.i = 0
    · exact ⟨0, .inl (h5 hi)⟩
    · exact ⟨0, .inr (h6 hi)⟩
  | live _ _ h3 => exact ⟨0, .inr h3⟩
  | over _ h2 => rcases h with h | h
                 · exact absurd h (h2 j).2
                 · exact absurd h (h2 j).1

/-- **a unary operator as a member of `concat!`**: `concat!(…, op(sⱼ), …)` -/
theorem plugOp_concat_basicSafe (h1 : Pipeable M1) (n : Nat) (hn : 0 < n) (j : Nat) :
    ∀ s, SReach (plugOp j M1 (Concat.machine β n)) s → BasicSafe s :=
  plugOp_basicSafe (hypO_of h1 rfl (Concat.open_slot n hn j) (Concat.concat_basicSafe n hn))

/-- `concat!(a, skip(1)(b))` -/
example : ∀ s, SReach (plugOp 1 (Relay.machine (Relay.skip (α := Int) 1)) (Concat.machine Int 2)) s → BasicSafe s :=
  plugOp_concat_basicSafe (Relay.pipeable _ (fun h => by simp [Relay.skip] at h)) 2 (by decide) 1

/-- `concat!(take(2)(a), b)` -/
example : ∀ s, SReach (plugOp 0 (Take.machine Int 2) (Concat.machine Int 2)) s → BasicSafe s :=
  plugOp_concat_basicSafe (Take.pipeable 2) 2 (by decide) 0

end Consequences

end PlugOpSafe
end Cb

#print axioms Cb.PlugOpSafe.plugOp_inv
#print axioms Cb.PlugOpSafe.plugOp_basicSafe
#print axioms Cb.PlugOpSafe.plugOp_concat_basicSafe
