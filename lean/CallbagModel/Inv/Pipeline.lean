import CallbagModel.Ops.Pipeline
/-!
# Pull pipelines: the demand-driven semantics `sem` against the list function `listSem`, and laziness

* `sem_none` / `sem_some`: a consumer that pulls to the end receives `listSem p`; one that pulls `d` times receives
  `(listSem p).take d` — for every pipeline, every closure, every parameter.
* `cost_mono'`: the number of iterator advances is monotone in the demand (`some d₁ ≤ some d₂ ≤ none`), hence `cost_mono`.
* `take_stops`, `take_map_stops`: `take n` over a source does not look beyond the `n`-th element.
-/
namespace Cb

/-! ## `needFor` -/

theorem needFor_some (q : Int → Bool) : ∀ (d : Nat) (ys : List Int) (k : Nat), needFor q d ys = some k →
    (ys.take k).filter q = (ys.filter q).take d
  | 0, ys, k, h => by
    simp only [needFor, Option.some.injEq] at h
    subst h; simp
  | d + 1, [], k, h => by simp [needFor] at h
  | d + 1, y :: ys, k, h => by
    simp only [needFor] at h
    by_cases hq : q y = true
    · simp only [hq, if_true, Option.map_eq_some_iff] at h
      obtain ⟨k', hk', rfl⟩ := h
      have := needFor_some q d ys k' hk'
      simp [List.take_succ_cons, hq, this]
    · have hq' : q y = false := by simpa using hq
      simp only [hq', Bool.false_eq_true, if_false, Option.map_eq_some_iff] at h
      obtain ⟨k', hk', rfl⟩ := h
      have := needFor_some q (d + 1) ys k' hk'
      simp [List.take_succ_cons, hq', this]

theorem needFor_none (q : Int → Bool) : ∀ (d : Nat) (ys : List Int), needFor q d ys = none →
    (ys.filter q).length < d
  | 0, ys, h => by simp [needFor] at h
  | d + 1, [], _ => by simp
  | d + 1, y :: ys, h => by
    simp only [needFor] at h
    by_cases hq : q y = true
    · simp only [hq, if_true, Option.map_eq_none_iff] at h
      have := needFor_none q d ys h
      simp [hq]; omega
    · have hq' : q y = false := by simpa using hq
      simp only [hq', Bool.false_eq_true, if_false, Option.map_eq_none_iff] at h
      have := needFor_none q (d + 1) ys h
      simp [hq']; omega

/-- `filter` in one equation: the demand passed upstream is `needFor …`, read as a `Demand` -/
theorem sem_filter_some (q : Int → Bool) (p : Pipe) (d : Nat) :
    sem (.filter q p) (some d) =
      ((sem p (needFor q d (listSem p))).1.filter q, (sem p (needFor q d (listSem p))).2) := by
  simp only [sem]
  cases needFor q d (listSem p) <;> rfl

/-! ## `scanl'` -/

theorem scanl'_take (r : Int → Int → Int) : ∀ (s : Int) (ys : List Int) (d : Nat),
    scanl' r s (ys.take d) = (scanl' r s ys).take d
  | _, _, 0 => by simp [scanl']
  | _, [], _ + 1 => by simp [scanl']
  | s, y :: ys, d + 1 => by simp [scanl', scanl'_take r (r s y) ys d]

/-! ## `flatGo`: unfolding equations -/

section FlatGo
variable (semG : Int → Demand → List Int × Nat)

theorem flatGo_zero (rest acc : List Int) (c s : Nat) :
    flatGo semG rest (some 0) acc c s = (acc, c, s, false) := by
  cases rest <;> simp [flatGo]

theorem flatGo_nil_none (acc : List Int) (c s : Nat) :
    flatGo semG [] none acc c s = (acc, c, s, true) := by
  simp [flatGo]

theorem flatGo_nil_succ (d : Nat) (acc : List Int) (c s : Nat) :
    flatGo semG [] (some (d + 1)) acc c s = (acc, c, s, true) := by
  simp [flatGo]

theorem flatGo_cons_none (a : Int) (rest acc : List Int) (c s : Nat) :
    flatGo semG (a :: rest) none acc c s =
      flatGo semG rest none (acc ++ (semG a none).1) (c + (semG a none).2) (s + 1) := by
  simp [flatGo]

theorem flatGo_cons_succ (a : Int) (rest acc : List Int) (c s d : Nat) :
    flatGo semG (a :: rest) (some (d + 1)) acc c s =
      if d + 1 ≤ (semG a (some (d + 1))).1.length then
        (acc ++ (semG a (some (d + 1))).1, c + (semG a (some (d + 1))).2, s + 1, false)
      else
        flatGo semG rest (some (d + 1 - (semG a (some (d + 1))).1.length))
          (acc ++ (semG a (some (d + 1))).1) (c + (semG a (some (d + 1))).2) (s + 1) := by
  simp only [flatGo]
  by_cases h : d + 1 ≤ (semG a (some (d + 1))).1.length
  · have h1 : d + 1 - (semG a (some (d + 1))).1.length = 0 := by omega
    have h2 : 0 < (semG a (some (d + 1))).1.length := by omega
    simp [h, h1, h2]
  · have h1 : ¬ d + 1 - (semG a (some (d + 1))).1.length = 0 := by omega
    simp [h, h1]

/-- the items `flatten` delivers -/
theorem flatGo_fst (L : Int → List Int) (hn : ∀ a, (semG a none).1 = L a)
    (hs : ∀ a d, (semG a (some d)).1 = (L a).take d) :
    ∀ (rest acc : List Int) (c s : Nat),
      (flatGo semG rest none acc c s).1 = acc ++ rest.flatMap L ∧
      ∀ d, (flatGo semG rest (some d) acc c s).1 = acc ++ (rest.flatMap L).take d
  | [], acc, c, s => by
    refine ⟨by simp [flatGo_nil_none], fun d => ?_⟩
    cases d <;> simp [flatGo_zero, flatGo_nil_succ]
  | a :: rest, acc, c, s => by
    constructor
    · rw [flatGo_cons_none, (flatGo_fst L hn hs rest _ _ _).1, hn]
      simp
    · intro d
      cases d with
      | zero => simp [flatGo_zero]
      | succ d =>
        rw [flatGo_cons_succ, hs]
        simp only [List.flatMap_cons, List.take_append, List.length_take]
        split
        · next h =>
          have : d + 1 - (L a).length = 0 := by omega
          simp [this]
        · next h =>
          have h1 : min (d + 1) (L a).length = (L a).length := by omega
          rw [(flatGo_fst L hn hs rest _ _ _).2, h1]
          simp
end FlatGo

/-! ## the delivered items -/

theorem sem_spec (p : Pipe) :
    (sem p none).1 = listSem p ∧ ∀ d, (sem p (some d)).1 = (listSem p).take d := by
  induction p with
  | src xs =>
    refine ⟨by simp [sem, listSem], fun d => ?_⟩
    simp only [sem, listSem]
    split
    · rfl
    · next h => simp [List.take_of_length_le (Nat.le_of_not_le h)]
  | map f p ih =>
    refine ⟨by simp [sem, listSem, ih.1], fun d => ?_⟩
    simp [sem, listSem, ih.2, List.map_take]
  | filter q p ih =>
    refine ⟨by simp [sem, listSem, ih.1], fun d => ?_⟩
    rw [sem_filter_some]
    simp only [listSem]
    cases hk : needFor q d (listSem p) with
    | none =>
      have := needFor_none q d _ hk
      rw [ih.1, List.take_of_length_le (Nat.le_of_lt this)]
    | some k => rw [ih.2, needFor_some q d _ k hk]
  | scan r s p ih =>
    refine ⟨by simp [sem, listSem, ih.1], fun d => ?_⟩
    simp [sem, listSem, ih.2, scanl'_take]
  | take n p ih =>
    refine ⟨by simp [sem, listSem, ih.2], fun d => ?_⟩
    simp [sem, listSem, ih.2, List.take_take, Nat.min_comm]
  | skip n p ih =>
    refine ⟨by simp [sem, listSem, ih.1], fun d => ?_⟩
    simp only [sem, listSem]
    split
    · next h => subst h; simp
    · simp [ih.2, List.drop_take]
  | concat p q ihp ihq =>
    refine ⟨by simp [sem, listSem, ihp.1, ihq.1], fun d => ?_⟩
    simp only [sem, listSem, ihp.2, ihq.2, List.length_take, List.take_append]
    split
    · next h =>
      have : min d (listSem p).length = (listSem p).length := by omega
      rw [this]
    · next h =>
      have : d - (listSem p).length = 0 := by omega
      simp [this, ihp.2]
  | flatMap g p ihg _ =>
    have key := flatGo_fst (fun a d => sem (g a) d) (fun a => listSem (g a))
      (fun a => (ihg a).1) (fun a d => (ihg a).2 d) (listSem p) [] 0 0
    refine ⟨?_, fun d => ?_⟩
    · simp only [sem, listSem]; rw [key.1]; simp
    · simp only [sem, listSem]; rw [key.2]; simp

/-- a consumer that pulls until the end receives exactly the list function -/
theorem sem_none (p : Pipe) : (sem p none).1 = listSem p := (sem_spec p).1

/-- a consumer that pulls `d` times receives exactly the first `d` elements of the list function (laziness yields a prefix) -/
theorem sem_some (p : Pipe) (d : Nat) : (sem p (some d)).1 = (listSem p).take d := (sem_spec p).2 d

/-! ## the number of iterator advances is monotone in the demand -/

/-- the order on demands: `some d₁ ≤ some d₂` iff `d₁ ≤ d₂`, and everything is `≤ none` (pull to the end) -/
def Dle : Demand → Demand → Prop
  | _, none => True
  | none, some _ => False
  | some a, some b => a ≤ b

theorem Dle.refl : ∀ d : Demand, Dle d d
  | none => trivial
  | some _ => Nat.le_refl _

theorem Dle.to_none (d : Demand) : Dle d none := by cases d <;> trivial

theorem Dle.zero : ∀ d : Demand, Dle (some 0) d
  | none => trivial
  | some _ => Nat.zero_le _

theorem Dle.map_succ : ∀ {d₁ d₂ : Demand}, Dle d₁ d₂ → Dle (d₁.map (· + 1)) (d₂.map (· + 1))
  | _, none, _ => by simp [Dle]
  | none, some _, h => by simp [Dle] at h
  | some a, some b, h => by simp only [Dle] at h; simp only [Option.map_some, Dle]; omega

theorem needFor_mono (q : Int → Bool) : ∀ (ys : List Int) (d₁ d₂ : Nat), d₁ ≤ d₂ →
    Dle (needFor q d₁ ys) (needFor q d₂ ys)
  | _, 0, _, _ => by simp only [needFor]; exact Dle.zero _
  | _, _ + 1, 0, h => by omega
  | [], _ + 1, _ + 1, _ => by simp [needFor, Dle]
  | y :: ys, d₁ + 1, d₂ + 1, h => by
    simp only [needFor]
    split
    · exact Dle.map_succ (needFor_mono q ys d₁ d₂ (by omega))
    · exact Dle.map_succ (needFor_mono q ys (d₁ + 1) (d₂ + 1) h)

section FlatCost
variable (semG : Int → Demand → List Int × Nat) (oc : Demand → Nat)

/-- total cost of `flatten(map(g)(p))` over the remaining outer items: inner advances plus the advances `oc` of the outer, which is
asked for as many items as inners were started (`s` of them before), or run to its end -/
def flatCost : List Int → Demand → Nat → Nat
  | _, some 0, s => oc (some s)
  | [], _, _ => oc none
  | a :: rest, none, s => (semG a none).2 + flatCost rest none (s + 1)
  | a :: rest, some (d + 1), s =>
    if d + 1 ≤ (semG a (some (d + 1))).1.length then (semG a (some (d + 1))).2 + oc (some (s + 1))
    else (semG a (some (d + 1))).2 + flatCost rest (some (d + 1 - (semG a (some (d + 1))).1.length)) (s + 1)

theorem flatGo_cost : ∀ (rest : List Int) (dem : Demand) (acc : List Int) (c s : Nat),
    (flatGo semG rest dem acc c s).2.1 +
        oc (if (flatGo semG rest dem acc c s).2.2.2 then none else some (flatGo semG rest dem acc c s).2.2.1) =
      c + flatCost semG oc rest dem s
  | rest, some 0, acc, c, s => by simp [flatGo_zero, flatCost]
  | [], none, acc, c, s => by simp [flatGo_nil_none, flatCost]
  | [], some (d + 1), acc, c, s => by simp [flatGo_nil_succ, flatCost]
  | a :: rest, none, acc, c, s => by
    rw [flatGo_cons_none, flatGo_cost rest none]
    simp only [flatCost]; omega
  | a :: rest, some (d + 1), acc, c, s => by
    rw [flatGo_cons_succ]
    simp only [flatCost]
    split
    · simp; omega
    · rw [flatGo_cost rest]; omega

variable (hoc : ∀ d₁ d₂, Dle d₁ d₂ → oc d₁ ≤ oc d₂)
include hoc

theorem flatCost_lb : ∀ (rest : List Int) (dem : Demand) (s : Nat), oc (some s) ≤ flatCost semG oc rest dem s
  | _, some 0, _ => by simp only [flatCost]; exact Nat.le_refl _
  | [], none, _ => by simp only [flatCost]; exact hoc _ _ trivial
  | [], some (_ + 1), _ => by simp only [flatCost]; exact hoc _ _ trivial
  | a :: rest, none, s => by
    simp only [flatCost]
    have h1 := flatCost_lb rest none (s + 1)
    have h2 : oc (some s) ≤ oc (some (s + 1)) := hoc _ _ (Nat.le_succ s)
    omega
  | a :: rest, some (d + 1), s => by
    simp only [flatCost]
    have h2 : oc (some s) ≤ oc (some (s + 1)) := hoc _ _ (Nat.le_succ s)
    split
    · omega
    · have h1 := flatCost_lb rest (some (d + 1 - (semG a (some (d + 1))).1.length)) (s + 1)
      omega

theorem flatCost_mono (L : Int → List Int) (hlen : ∀ a d, (semG a (some d)).1.length = min d (L a).length)
    (hm : ∀ a d₁ d₂, Dle d₁ d₂ → (semG a d₁).2 ≤ (semG a d₂).2) :
    ∀ (rest : List Int) (d₁ d₂ : Demand) (s : Nat), Dle d₁ d₂ →
      flatCost semG oc rest d₁ s ≤ flatCost semG oc rest d₂ s
  | _, some 0, d₂, s, _ => by
    simp only [flatCost]; exact flatCost_lb semG oc hoc _ _ _
  | _, none, none, _, _ => Nat.le_refl _
  | _, none, some _, _, h => by simp [Dle] at h
  | _, some (d₁ + 1), some 0, s, h => by simp [Dle] at h
  | [], some (_ + 1), none, _, _ => by simp only [flatCost]; exact Nat.le_refl _
  | [], some (_ + 1), some (_ + 1), _, _ => by simp only [flatCost]; exact Nat.le_refl _
  | a :: rest, some (d₁ + 1), none, s, _ => by
    simp only [flatCost]
    have h1 := hm a (some (d₁ + 1)) none trivial
    split
    · have := flatCost_lb semG oc hoc rest none (s + 1)
      omega
    · have := flatCost_mono L hlen hm rest (some (d₁ + 1 - (semG a (some (d₁ + 1))).1.length)) none (s + 1) trivial
      omega
  | a :: rest, some (d₁ + 1), some (d₂ + 1), s, h => by
    have h : d₁ + 1 ≤ d₂ + 1 := h
    simp only [flatCost, hlen]
    have h1 := hm a (some (d₁ + 1)) (some (d₂ + 1)) h
    split
    · split
      · omega
      · have := flatCost_lb semG oc hoc rest (some (d₂ + 1 - min (d₂ + 1) (L a).length)) (s + 1)
        omega
    · split
      · omega
      · have := flatCost_mono L hlen hm rest (some (d₁ + 1 - min (d₁ + 1) (L a).length))
          (some (d₂ + 1 - min (d₂ + 1) (L a).length)) (s + 1) (by show _ ≤ _; omega)
        omega
end FlatCost

theorem sem_flatMap_cost (g : Int → Pipe) (p : Pipe) (dem : Demand) :
    (sem (.flatMap g p) dem).2 =
      flatCost (fun a d => sem (g a) d) (fun d => (sem p d).2) (listSem p) dem 0 := by
  have := flatGo_cost (fun a d => sem (g a) d) (fun d => (sem p d).2) (listSem p) dem [] 0 0
  simp only [Nat.zero_add] at this
  simp only [sem]
  exact this

theorem length_sem_some (p : Pipe) (d : Nat) : (sem p (some d)).1.length = min d (listSem p).length := by
  rw [sem_some, List.length_take]

/-- the number of iterator advances is monotone in the demand -/
theorem cost_mono' (p : Pipe) : ∀ d₁ d₂ : Demand, Dle d₁ d₂ → (sem p d₁).2 ≤ (sem p d₂).2 := by
  induction p with
  | src xs =>
    intro d₁ d₂ h
    match d₁, d₂, h with
    | none, none, _ => exact Nat.le_refl _
    | some a, none, _ => simp only [sem]; split <;> simp <;> omega
    | some a, some b, h =>
      have h : a ≤ b := h
      simp only [sem]; split <;> split <;> simp <;> omega
  | map f p ih => intro d₁ d₂ h; simpa [sem] using ih d₁ d₂ h
  | filter q p ih =>
    intro d₁ d₂ h
    match d₁, d₂, h with
    | none, none, _ => exact Nat.le_refl _
    | some a, none, _ => rw [sem_filter_some]; simpa [sem] using ih _ none (Dle.to_none _)
    | some a, some b, h =>
      rw [sem_filter_some, sem_filter_some]
      exact ih _ _ (needFor_mono q _ a b h)
  | scan r s p ih => intro d₁ d₂ h; simpa [sem] using ih d₁ d₂ h
  | take n p ih =>
    intro d₁ d₂ h
    match d₁, d₂, h with
    | none, none, _ => exact Nat.le_refl _
    | some a, none, _ => simp only [sem]; exact ih _ _ (Nat.min_le_left n a)
    | some a, some b, h =>
      have h : a ≤ b := h
      simp only [sem]; exact ih _ _ (by show _ ≤ _; omega)
  | skip n p ih =>
    intro d₁ d₂ h
    match d₁, d₂, h with
    | none, none, _ => exact Nat.le_refl _
    | some a, none, _ =>
      simp only [sem]; split
      · exact Nat.zero_le _
      · exact ih _ none trivial
    | some a, some b, h =>
      have h : a ≤ b := h
      simp only [sem]; split
      · exact Nat.zero_le _
      · split
        · omega
        · exact ih _ _ (by show _ ≤ _; omega)
  | concat p q ihp ihq =>
    intro d₁ d₂ h
    match d₁, d₂, h with
    | none, none, _ => exact Nat.le_refl _
    | some a, none, _ =>
      simp only [sem]
      have h1 := ihp (some a) none trivial
      split
      · have h2 := ihq (some (a - (sem p (some a)).1.length)) none trivial
        simp only; omega
      · omega
    | some a, some b, h =>
      have h : a ≤ b := h
      simp only [sem, length_sem_some]
      have h1 := ihp (some a) (some b) h
      split
      · split
        · have h2 := ihq (some (a - min a (listSem p).length)) (some (b - min b (listSem p).length))
            (by show _ ≤ _; omega)
          simp only; omega
        · omega
      · split
        · simp only; omega
        · exact h1
  | flatMap g p ihg ihp =>
    intro d₁ d₂ h
    rw [sem_flatMap_cost, sem_flatMap_cost]
    exact flatCost_mono _ _ ihp (fun a => listSem (g a)) (fun a d => length_sem_some (g a) d)
      (fun a => ihg a) _ _ _ _ h

/-- the iterator is advanced only on demand: pulling `d` times never costs more than pulling to the end -/
theorem cost_mono (p : Pipe) (d : Nat) : (sem p (some d)).2 ≤ (sem p none).2 := cost_mono' p _ _ trivial

/-- a consumer that never pulls advances no iterator -/
theorem cost_zero (p : Pipe) : (sem p (some 0)).2 = 0 := by
  induction p with
  | src xs => simp [sem]
  | map f p ih => simpa [sem] using ih
  | filter q p ih => rw [sem_filter_some]; simpa [needFor] using ih
  | scan r s p ih => simpa [sem] using ih
  | take n p ih => simpa [sem] using ih
  | skip n p ih => simp [sem]
  | concat p q ihp ihq => simp [sem, ihp]
  | flatMap g p _ ihp => rw [sem_flatMap_cost]; simpa [flatCost] using ihp

/-- a source is advanced once per element delivered, plus once to discover exhaustion -/
theorem cost_src (xs : List Int) : (sem (.src xs) none).2 = xs.length + 1 := by simp [sem]

theorem cost_src_some (xs : List Int) (d : Nat) (h : d ≤ xs.length) : (sem (.src xs) (some d)).2 = d := by
  simp [sem, h]

/-- take over an arbitrarily long (in the limit: unbounded) iterator stops: the number of iterator advances of `take n` over a
unary chain does not depend on how long the input is beyond what is needed -/
theorem take_stops (n : Nat) (xs ys : List Int) (h : n ≤ xs.length) :
    sem (.take n (.src (xs ++ ys))) none = sem (.take n (.src xs)) none ∧ (sem (.take n (.src xs)) none).2 = n := by
  have h' : n ≤ xs.length + ys.length := by omega
  simp [sem, h, h', List.take_append_of_le_length h]

theorem take_map_stops (n : Nat) (f : Int → Int) (xs ys : List Int) (h : n ≤ xs.length) :
    sem (.take n (.map f (.src (xs ++ ys)))) none = sem (.take n (.map f (.src xs))) none := by
  have h' : n ≤ xs.length + ys.length := by omega
  simp [sem, h, h', List.take_append_of_le_length h]

end Cb

#print axioms Cb.sem_none
#print axioms Cb.sem_some
#print axioms Cb.cost_mono'
#print axioms Cb.cost_mono
#print axioms Cb.cost_zero
#print axioms Cb.cost_src
#print axioms Cb.cost_src_some
#print axioms Cb.take_stops
#print axioms Cb.take_map_stops
