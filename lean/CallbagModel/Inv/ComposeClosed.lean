import CallbagModel.Inv.ComposeFun
import CallbagModel.Fun.FromIter
import CallbagModel.Closed.RelayPipe
/-!
# Closed pull pipelines of any length: the SAFETY half of "iterable programming"

`pipe!(from_iter(it), stage₁, …, stageₙ, for_each(f))` applies `f` only ever to a PREFIX of `F xs`, in order, where `xs` are the
iterator's items and `F = Fₙ ∘ … ∘ F₁` — under EVERY conformant environment of the pipeline (the user who applies it, the closure `f`
that may take its time), at every reachable configuration.

* `SrcGen M P` / `SrcSpec M xs`  head specifications for sources without upstream: what has been delivered so far satisfies `P` /
  is a prefix of `xs`; closed under appending a stage (`SrcGen.compose`, `SrcSpec.compose`);
* `PrefixMono F`, `MonoStage M F`  stages whose list function is prefix-monotone (all relays, `take`), closed under `compose`;
* `ForEach.applied_eq_sent`  the tail: at its environment turns `for_each` has applied the closure to exactly what it received;
* `closed_pipeline_prefix`, `closed_pipeline_prefix_all`, `closed_pipeline_gen`  the theorems.
-/
namespace Cb
open ComposeSafe ComposeFun

/-! ## heads -/

/-- what `M` has delivered to its sink 0 so far satisfies `P`, whenever the environment has control -/
def SrcGen {St Loc α β : Type} (M : Machine St Loc α β) (P : List β → Prop) : Prop :=
  ∀ s, SReach M s → EnvTurn s → P (recvData 0 s.tr)

/-- what `M` has delivered to its sink 0 so far is a prefix of `xs` -/
def SrcSpec {St Loc α β : Type} (M : Machine St Loc α β) (xs : List β) : Prop := SrcGen M (· <+: xs)

/-- a list function that maps prefixes to prefixes: an incremental (online) computation -/
def PrefixMono {α β : Type} (F : List α → List β) : Prop := ∀ l l', l <+: l' → F l <+: F l'

/-- a head followed by a stage: it has delivered `F` of what the head has delivered (no monotonicity needed) -/
theorem SrcGen.compose {S1 L1 S2 L2 α β γ : Type} {M1 : Machine S1 L1 α β} {M2 : Machine S2 L2 β γ}
    {P : List β → Prop} {F : List β → List γ} (U1 : UpSide M1) (h1 : SrcGen M1 P) (h2 : Stage M2 F) :
    SrcGen (Cb.compose M1 M2) (fun ys => ∃ l, P l ∧ ys = F l) := by
  intro s hs ht
  obtain ⟨s1, s2, hr1, hr2, hp⟩ := compose_proj (hyp_of_roles U1 h2.pipe.downSide) s hs
  obtain ⟨ht1, ht2⟩ := hp.turn ht
  exact ⟨recvData 0 s1.tr, h1 s1 hr1 ht1, by rw [hp.recv 0, h2.io s2 hr2 ht2, hp.ifc 0]⟩

theorem SrcSpec.compose {S1 L1 S2 L2 α β γ : Type} {M1 : Machine S1 L1 α β} {M2 : Machine S2 L2 β γ}
    {xs : List β} {F : List β → List γ} (U1 : UpSide M1) (h1 : SrcSpec M1 xs) (h2 : Stage M2 F) (hmono : PrefixMono F) :
    SrcSpec (Cb.compose M1 M2) (F xs) := by
  intro s hs ht
  obtain ⟨l, hl, he⟩ := SrcGen.compose U1 h1 h2 s hs ht
  rw [he]; exact hmono _ _ hl

/-! ## prefix-monotone stage functions -/

theorem xferOut_append' {σ α β : Type} (xfer : σ → α → σ × Option β) (s : σ) (l t : List α) :
    xferOut xfer s (l ++ t) = xferOut xfer s l ++ xferOut xfer (RelayFun.xferSt xfer s l) t := by
  induction l generalizing s with
  | nil => simp [xferOut, RelayFun.xferSt]
  | cons a l ih =>
    simp only [List.cons_append, xferOut, RelayFun.xferSt]
    split <;> simp [ih]

theorem PrefixMono.xferOut {σ α β : Type} (xfer : σ → α → σ × Option β) (s : σ) : PrefixMono (xferOut xfer s) := by
  rintro l _ ⟨t, rfl⟩
  exact ⟨_, (xferOut_append' xfer s l t).symm⟩

theorem PrefixMono.congr {α β : Type} {F G : List α → List β} (h : PrefixMono F) (hFG : ∀ l, F l = G l) : PrefixMono G := by
  intro l l' hl; rw [← hFG, ← hFG]; exact h l l' hl

theorem PrefixMono.comp {α β γ : Type} {F : List α → List β} {G : List β → List γ} (hF : PrefixMono F) (hG : PrefixMono G) :
    PrefixMono (G ∘ F) := fun l l' hl => hG _ _ (hF l l' hl)

theorem PrefixMono.map {α β : Type} (f : α → β) : PrefixMono (List.map f) :=
  (PrefixMono.xferOut (Relay.map f).xfer ()).congr (fun l => RelayFun.xferOut_map f _ l)

theorem PrefixMono.filter {α : Type} (p : α → Bool) : PrefixMono (List.filter p) :=
  (PrefixMono.xferOut (Relay.filter p).xfer ()).congr (fun l => RelayFun.xferOut_filter p _ l)

theorem PrefixMono.scan {α β : Type} (r : β → α → β) (seed : β) : PrefixMono (scanF r seed) :=
  (PrefixMono.xferOut (Relay.scan r seed).xfer seed).congr (fun l => RelayFun.xferOut_scan r seed _ l)

theorem PrefixMono.drop {α : Type} (n : Nat) : PrefixMono (List.drop (α := α) n) :=
  (PrefixMono.xferOut (Relay.skip (α := α) n).xfer 0).congr
    (fun l => by have := RelayFun.xferOut_skip (α := α) n 0 l; simpa using this)

theorem PrefixMono.take {α : Type} (n : Nat) : PrefixMono (List.take (α := α) n) := by
  rintro l _ ⟨t, rfl⟩
  exact ⟨t.take (n - l.length), by rw [List.take_append]⟩

/-- a stage whose list function is prefix-monotone -/
structure MonoStage {St Loc α β : Type} (M : Machine St Loc α β) (F : List α → List β) : Prop where
  stage : Stage M F
  mono : PrefixMono F

theorem MonoStage.compose {S1 L1 S2 L2 α β γ : Type} {M1 : Machine S1 L1 α β} {M2 : Machine S2 L2 β γ}
    {F1 : List α → List β} {F2 : List β → List γ} (h1 : MonoStage M1 F1) (h2 : MonoStage M2 F2) :
    MonoStage (Cb.compose M1 M2) (F2 ∘ F1) :=
  ⟨h1.stage.compose h2.stage, h1.mono.comp h2.mono⟩

theorem Relay.monoStage {σ α β : Type} (k : Relay.Kind σ α β) (hk : k.slotted = false → ∀ s a, (k.xfer s a).2 ≠ none) :
    MonoStage (Relay.machine k) (xferOut k.xfer k.seed) := ⟨Relay.stage k hk, .xferOut _ _⟩
theorem Relay.map_monoStage {α β : Type} (f : α → β) : MonoStage (Relay.machine (Relay.map f)) (List.map f) :=
  ⟨Relay.map_stage f, .map f⟩
theorem Relay.filter_monoStage {α : Type} (p : α → Bool) : MonoStage (Relay.machine (Relay.filter p)) (List.filter p) :=
  ⟨Relay.filter_stage p, .filter p⟩
theorem Relay.scan_monoStage {α β : Type} (r : β → α → β) (seed : β) :
    MonoStage (Relay.machine (Relay.scan r seed)) (scanF r seed) := ⟨Relay.scan_stage r seed, .scan r seed⟩
theorem Relay.skip_monoStage {α : Type} (n : Nat) : MonoStage (Relay.machine (Relay.skip (α := α) n)) (List.drop n) :=
  ⟨Relay.skip_stage n, .drop n⟩
theorem Take.monoStage {α : Type} (max : Nat) : MonoStage (Take.machine α max) (List.take max) :=
  ⟨Take.stage max, .take max⟩

/-! ## the head `from_iter` -/

theorem iterList_prefix {ι α : Type} {next : ι → Option (α × ι)} {it : ι} {xs : List α} (hx : Closed.Unfolds next it xs) :
    ∀ n, iterList next n it <+: xs := by
  induction hx with
  | nil h => intro n; cases n <;> simp [iterList, h]
  | cons h _ ih =>
    intro n
    cases n with
    | zero => simp [iterList]
    | succ n => simp only [iterList, h]; exact (List.cons_prefix_cons).2 ⟨rfl, ih n⟩

/-- finite or infinite iterators: what `from_iter` has delivered is an initial segment of the iterator's stream -/
theorem FromIter.srcGen {ι α α' : Type} (next : ι → Option (α × ι)) (it0 : ι) :
    SrcGen (FromIter.machine α' next it0) (fun l => ∃ n, l = iterList next n it0) :=
  fun s hs ht => ⟨_, (FromIterFun.finv_of_reach next it0 s hs ht).2.items⟩

/-- a finite iterator that unfolds to `xs` -/
theorem FromIter.srcSpec {ι α α' : Type} (next : ι → Option (α × ι)) (it0 : ι) (xs : List α)
    (hx : Closed.Unfolds next it0 xs) : SrcSpec (FromIter.machine α' next it0) xs := by
  intro s hs ht
  obtain ⟨n, hn⟩ := FromIter.srcGen next it0 s hs ht
  simp only [hn]; exact iterList_prefix hx n

/-! ## the tail `for_each`: it applies the closure to exactly what it receives -/
namespace ForEachTail
variable {α : Type}

/-- the datum a handler is about to apply the closure to -/
def pend : ForEach.Loc α → List α
  | .d0 a => [a]
  | _ => []

def pendStk : List (Frame (ForEach.Loc α) α) → List α
  | .run l :: _ => pend l
  | _ => []

/-- continuations of `for_each`: `done` and `pull` -/
def Okf : Frame (ForEach.Loc α) α → Prop
  | .wait _ .done => True
  | .wait _ .pull => True
  | _ => False

def Shape : List (Frame (ForEach.Loc α) α) → Prop
  | [] => True
  | .run _ :: r => ∀ f ∈ r, Okf f
  | .wait o l :: r => ∀ f ∈ Frame.wait o l :: r, Okf f

/-- small-step invariant: received = applied ++ (the datum in flight, if a data handler has just been entered) -/
def J (s : Sys ForEach.St (ForEach.Loc α) α α) : Prop :=
  sentData 0 s.tr = applied s.tr ++ pendStk s.stack ∧ Shape s.stack

theorem allOk {stk : List (Frame (ForEach.Loc α) α)} (h : ∀ f ∈ stk, Okf f) : Shape stk ∧ pendStk stk = [] := by
  cases stk with
  | nil => exact ⟨trivial, rfl⟩
  | cons f r =>
    cases f with
    | run l => exact absurd (h _ (List.mem_cons_self)) (by simp [Okf])
    | wait o l => exact ⟨h, rfl⟩

theorem turn_allOk {stk : List (Frame (ForEach.Loc α) α)} {c : Ctx α} (hc : ctxOf stk = some c) (h : Shape stk) :
    ∀ f ∈ stk, Okf f := by
  cases stk with
  | nil => intro f hf; cases hf
  | cons f r =>
    cases f with
    | run l => simp [ctxOf] at hc
    | wait o l => exact h

theorem J_reach : ∀ s, SReach (ForEach.machine α) s → J s := by
  intro s hs
  induction hs with
  | init => exact ⟨rfl, trivial⟩
  | @step a b ha hab ih =>
    cases hab with
    | op hop =>
      cases oStep_of_opStep hop with
      | @tau st l stk g tr s' l' hst =>
        obtain ⟨h1, h2⟩ := ih
        cases l <;> simp [ForEach.machine, ForEach.step] at hst
        · obtain ⟨rfl, rfl⟩ := hst; exact ⟨h1, h2⟩
        · split at hst <;> cases hst
      | @call st l stk g tr o s' l' hst =>
        obtain ⟨h1, h2⟩ := ih
        simp only [pendStk, Shape] at h1 h2
        cases l <;> simp [ForEach.machine, ForEach.step] at hst
        · obtain ⟨rfl, rfl, rfl⟩ := hst
          refine ⟨by simpa [sentData, applied, pendStk, pend] using h1, ?_⟩
          exact List.forall_mem_cons.2 ⟨by simp [Okf], h2⟩
        · split at hst
          · simp at hst
            obtain ⟨rfl, rfl, rfl⟩ := hst
            refine ⟨by simpa [sentData, applied, pendStk, pend] using h1, ?_⟩
            exact List.forall_mem_cons.2 ⟨by simp [Okf], h2⟩
          · cases hst
        · obtain ⟨rfl, rfl, rfl⟩ := hst
          refine ⟨by simpa [sentData, applied, pendStk, pend] using h1, ?_⟩
          exact List.forall_mem_cons.2 ⟨by simp [Okf], h2⟩
      | @ret st l stk g tr hst =>
        obtain ⟨h1, h2⟩ := ih
        simp only [pendStk, Shape] at h1 h2
        obtain ⟨h3, h4⟩ := allOk h2
        cases l <;> simp [ForEach.machine, ForEach.step] at hst
        · exact ⟨by simpa [sentData, applied, pend, h4] using h1, h3⟩
        · split at hst <;> cases hst
      | @panic st l stk g tr m hst =>
        obtain ⟨h1, h2⟩ := ih
        simp only [pendStk, Shape] at h1 h2
        obtain ⟨h3, h4⟩ := allOk h2
        cases l <;> simp [ForEach.machine, ForEach.step] at hst
        exact ⟨by simpa [sentData, applied, pend, h4] using h1, h3⟩
    | env henv _ =>
      cases henv with
      | @call st stk g tr c i hc hl =>
        obtain ⟨h1, h2⟩ := ih
        simp only at h1 h2
        have hok := turn_allOk hc h2
        obtain ⟨_, h4⟩ := allOk hok
        rw [h4, List.append_nil] at h1
        refine ⟨?_, hok⟩
        cases i with
        | subscribe k => simpa [sentData, applied, pendStk, pend, ForEach.machine, ForEach.enter] using h1
        | sinkUp k u => simpa [sentData, applied, pendStk, pend, ForEach.machine, ForEach.enter] using h1
        | srcGreet j => simpa [sentData, applied, pendStk, pend, ForEach.machine, ForEach.enter] using h1
        | srcDown j d =>
          cases d with
          | term => simpa [sentData, applied, pendStk, pend, ForEach.machine, ForEach.enter] using h1
          | err e => simpa [sentData, applied, pendStk, pend, ForEach.machine, ForEach.enter] using h1
          | data x =>
            have hinv := inv_at_turn (ForEach.machine α) ForEach.Inv ForEach.inv_init
              (fun s hi => (ForEach.inv_turn s hi).1) ForEach.inv_step ha ⟨rfl, by simp [hc]⟩
            obtain ⟨_, _, hoth, _, _⟩ := hinv
            simp only [legalIn, Bool.and_eq_true, beq_iff_eq] at hl
            have hj : j = 0 := by
              by_cases hj : j = 0
              · exact hj
              · have := hoth j hj; simp only at this; rw [this] at hl; cases hl.1
            subst hj
            simpa [sentData, applied, pendStk, pend, ForEach.machine, ForEach.enter] using h1
      | @ret st stk g tr o l hl =>
        obtain ⟨h1, h2⟩ := ih
        simp only [pendStk, Shape] at h1 h2
        have hf := h2 _ (List.mem_cons_self)
        have hr := (List.forall_mem_cons.1 h2).2
        cases l <;> simp [Okf] at hf
        · exact ⟨by simpa [sentData, applied, pendStk, pend] using h1, hr⟩
        · exact ⟨by simpa [sentData, applied, pendStk, pend] using h1, hr⟩

end ForEachTail

/-- `for_each` has applied the closure to exactly what it has received, in order, whenever the environment has control (inside the
closure call the datum being applied is already counted on both sides) -/
theorem ForEach.applied_eq_sent {α : Type} :
    ∀ s, SReach (ForEach.machine α) s → EnvTurn s → applied s.tr = sentData 0 s.tr := by
  intro s hs ht
  obtain ⟨h1, h2⟩ := ForEachTail.J_reach s hs
  obtain ⟨st, stk, g, tr, p⟩ := s
  cases hc : ctxOf stk with
  | none => have := ht.2; simp [hc] at this
  | some c =>
    have := (ForEachTail.allOk (ForEachTail.turn_allOk hc h2)).2
    simp only at h1 this
    rw [this, List.append_nil] at h1
    exact h1.symm

/-- at EVERY reachable configuration: applied is received, possibly minus the datum in flight -/
theorem ForEach.applied_prefix_sent {α : Type} :
    ∀ s, SReach (ForEach.machine α) s → applied s.tr <+: sentData 0 s.tr :=
  fun s hs => ⟨_, (ForEachTail.J_reach s hs).1.symm⟩

/-! ## the theorems -/
section Closed
variable {S1 L1 S2 L2 α β γ : Type} {Msrc : Machine S1 L1 α β} {Mmid : Machine S2 L2 β γ}

/-- general form (finite or infinite sources, any stage function): whenever the environment has control, the closure has been
applied to exactly `F l`, where `l` is what the head has delivered so far (and satisfies the head's specification `P`) -/
theorem closed_pipeline_gen {P : List β → Prop} {F : List β → List γ}
    (hsrc : UpSide Msrc) (hgen : SrcGen Msrc P) (hmid : Stage Mmid F) :
    ∀ s, SReach (compose (compose Msrc Mmid) (ForEach.machine γ)) s → EnvTurn s → ∃ l, P l ∧ applied s.tr = F l := by
  intro s hs ht
  obtain ⟨s1, s2, hr1, hr2, hp⟩ := compose_proj (hyp_of_roles (hsrc.compose' hmid.pipe) ForEach.downSide) s hs
  obtain ⟨ht1, ht2⟩ := hp.turn ht
  obtain ⟨l, hl, he⟩ := SrcGen.compose hsrc hgen hmid s1 hr1 ht1
  exact ⟨l, hl, by rw [hp.app, ForEach.applied_eq_sent s2 hr2 ht2, ← hp.ifc 0, he]⟩

/-- **the safety half of iterable programming**: `pipe!(head, stage₁, …, stageₙ, for_each(f))` has applied `f`, in order, to a
prefix of `F xs`, whenever the environment has control -/
theorem closed_pipeline_prefix {xs : List β} {F : List β → List γ}
    (hsrc : UpSide Msrc) (hspec : SrcSpec Msrc xs) (hmid : MonoStage Mmid F) :
    ∀ s, SReach (compose (compose Msrc Mmid) (ForEach.machine γ)) s → EnvTurn s → applied s.tr <+: F xs := by
  intro s hs ht
  obtain ⟨l, hl, he⟩ := closed_pipeline_gen hsrc hspec hmid.stage s hs ht
  rw [he]; exact hmid.mono _ _ hl

/-- `applied` only changes at a closure call, and a closure call is an environment turn -/
theorem applied_at_turn {St Loc α β : Type} (M : Machine St Loc α β) :
    ∀ s, SReach M s → ∃ t, SReach M t ∧ EnvTurn t ∧ applied s.tr = applied t.tr := by
  intro s hs
  induction hs with
  | init => exact ⟨_, .init, ⟨rfl, rfl⟩, rfl⟩
  | @step a b ha hab ih =>
    obtain ⟨t, hrt, htt, he⟩ := ih
    cases hab with
    | op hop =>
      have hb : SReach M b := .step ha (.op hop)
      cases oStep_of_opStep hop with
      | tau hst => exact ⟨t, hrt, htt, he⟩
      | call hst => exact ⟨_, hb, ⟨rfl, rfl⟩, rfl⟩
      | ret hst => exact ⟨t, hrt, htt, by simpa [applied] using he⟩
      | panic hst => exact ⟨t, hrt, htt, by simpa [applied] using he⟩
    | env henv _ =>
      cases henv with
      | call i hc hl => exact ⟨t, hrt, htt, by simpa [applied] using he⟩
      | ret hl => exact ⟨t, hrt, htt, by simpa [applied] using he⟩

/-- … and therefore at EVERY reachable configuration, whoever has control -/
theorem closed_pipeline_prefix_all {xs : List β} {F : List β → List γ}
    (hsrc : UpSide Msrc) (hspec : SrcSpec Msrc xs) (hmid : MonoStage Mmid F) :
    ∀ s, SReach (compose (compose Msrc Mmid) (ForEach.machine γ)) s → BasicSafe s ∧ applied s.tr <+: F xs := by
  intro s hs
  refine ⟨closed_pipeline_safe hsrc hmid.stage.pipe s hs, ?_⟩
  obtain ⟨t, hrt, htt, he⟩ := applied_at_turn _ s hs
  rw [he]; exact closed_pipeline_prefix hsrc hspec hmid t hrt htt

end Closed

/-- `pipe!(from_iter(it), filter(p), map(f), take(n), for_each(g))`: `g` is applied, in order, to a prefix of
`((xs.filter p).map f).take n`, where `xs` are the iterator's items; the pipeline never violates the protocol and never panics -/
theorem fromIter_filter_map_take_forEach {ι α β : Type} (next : ι → Option (α × ι)) (it0 : ι) (xs : List α)
    (hx : Closed.Unfolds next it0 xs) (p : α → Bool) (f : α → β) (n : Nat) :
    ∀ s, SReach (compose (compose (FromIter.machine Unit next it0)
        (compose (compose (Relay.machine (Relay.filter p)) (Relay.machine (Relay.map f))) (Take.machine β n)))
        (ForEach.machine β)) s → BasicSafe s ∧ applied s.tr <+: ((xs.filter p).map f).take n :=
  closed_pipeline_prefix_all (FromIter.upSide next it0) (FromIter.srcSpec next it0 xs hx)
    (((Relay.filter_monoStage p).compose (Relay.map_monoStage f)).compose (Take.monoStage n))

/-- an infinite iterator: `pipe!(from_iter(it), scan(r, seed), for_each(g))` has applied `g` to `scanF r seed` of the first `m` items
of the stream, for some `m` -/
example {ι α β : Type} (next : ι → Option (α × ι)) (it0 : ι) (r : β → α → β) (seed : β) :
    ∀ s, SReach (compose (compose (FromIter.machine Unit next it0) (Relay.machine (Relay.scan r seed))) (ForEach.machine β)) s →
      EnvTurn s → ∃ m, applied s.tr = scanF r seed (iterList next m it0) := by
  intro s hs ht
  obtain ⟨l, ⟨m, hm⟩, he⟩ := closed_pipeline_gen (FromIter.upSide next it0) (FromIter.srcGen next it0)
    (Relay.scan_stage r seed) s hs ht
  exact ⟨m, by rw [he, hm]⟩

/-- a list as the iterator -/
example {α β : Type} (xs : List α) (p : α → Bool) (f : α → β) (n : Nat) :
    ∀ s, SReach (compose (compose (FromIter.machine Unit Closed.listNext xs)
        (compose (compose (Relay.machine (Relay.filter p)) (Relay.machine (Relay.map f))) (Take.machine β n)))
        (ForEach.machine β)) s → BasicSafe s ∧ applied s.tr <+: ((xs.filter p).map f).take n :=
  fromIter_filter_map_take_forEach Closed.listNext xs xs (Closed.unfolds_list xs) p f n

end Cb

#print axioms Cb.SrcSpec.compose
#print axioms Cb.FromIter.srcSpec
#print axioms Cb.ForEach.applied_eq_sent
#print axioms Cb.closed_pipeline_gen
#print axioms Cb.closed_pipeline_prefix
#print axioms Cb.closed_pipeline_prefix_all
#print axioms Cb.fromIter_filter_map_take_forEach
