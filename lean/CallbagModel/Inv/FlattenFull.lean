import CallbagModel.Inv.Ghost2
import CallbagModel.Inv.Flatten
/-!
# flatten (switch): the FULL safety invariant (both ghost layers: C01–C05, C17)

`Mode`, `Benign` and the phase lemmas are those of `Inv/Flatten.lean`; the case analysis and the step counts are exactly
those of `Flatten.inv_step`.  New in the invariant: `X s.g s.stack`, which is `XOk s.g` in every mode except the three
transient ones, where the operator has sent the first `Terminate` of a two-call sequence and the environment can only return:

* `oe1 e` / `ie1 e` (an upstream `Error e` arrived, the other level has just been disposed, the error has not been delivered
  yet): the check recorded by `onIn` is pending but not yet satisfiable — `TransErr`: nothing flagged, the pending check is for
  `e` and for sink 0 only.  `XOk` is re-established by the macro-step that performs `down 0 (err e)`.
* `x1` (the sink disposed, the inner has just been disposed, the outer is still live): `NoOrphan` is false here —
  `TransX`: nothing flagged, nothing pending.  `XOk` is re-established by the macro-step that runs `x1`.

`flatten` has `relayErr = false`, so `errNotRelayed` is never flagged and nothing needs to be known about `sinkErr`.
-/
namespace Cb.FlattenFull
open Cb Cb.Flatten

variable {α : Type}

/-- an upstream `Error e` has arrived and is about to be delivered to sink 0 -/
def TransErr (g : G) (e : Nat) : Prop :=
  g.xviols = [] ∧ ∃ h ks, g.pend = some (e, h, ks) ∧ ks ≠ [] ∧ ∀ k ∈ ks, k = 0

/-- the sink has disposed, the outer source is about to be disposed -/
def TransX (g : G) : Prop := g.xviols = [] ∧ g.pend = none

/-- the second-layer invariant, by the continuation on top of the stack -/
def X (g : G) : List (Frame (Loc α) α) → Prop
  | .wait _ (.oe1 e) :: _ => TransErr g e
  | .wait _ (.ie1 e) :: _ => TransErr g e
  | .wait _ .x1 :: _ => TransX g
  | _ => XOk g

@[simp] theorem X_nil (g : G) : X g ([] : List (Frame (Loc α) α)) = XOk g := rfl
@[simp] theorem X_done (g : G) (o : Out α) (r : List (Frame (Loc α) α)) : X g (.wait o .done :: r) = XOk g := rfl
@[simp] theorem X_od1 (g : G) (o : Out α) (r : List (Frame (Loc α) α)) : X g (.wait o .od1 :: r) = XOk g := rfl
@[simp] theorem X_oe1 (g : G) (o : Out α) (e : Nat) (r : List (Frame (Loc α) α)) : X g (.wait o (.oe1 e) :: r) = TransErr g e := rfl
@[simp] theorem X_ie1 (g : G) (o : Out α) (e : Nat) (r : List (Frame (Loc α) α)) : X g (.wait o (.ie1 e) :: r) = TransErr g e := rfl
@[simp] theorem X_x1 (g : G) (o : Out α) (r : List (Frame (Loc α) α)) : X g (.wait o .x1 :: r) = TransX g := rfl

theorem X_benign {g : G} {stk : List (Frame (Loc α) α)} (h : ∀ f ∈ stk, Benign f) : X g stk ↔ XOk g := by
  cases stk with
  | nil => exact Iff.rfl
  | cons f r =>
    have := h f (by simp)
    cases f with
    | run l => simp [Benign] at this
    | wait o l => cases l <;> first | exact Iff.rfl | simp [Benign] at this

def Inv (s : Sys St (Loc α) α α) : Prop :=
  s.panicked = none ∧ s.g.ph.viols = [] ∧ 0 < s.st.nextId ∧
  (∀ i, s.st.nextId ≤ i → s.g.ph.srcPh i = .idle) ∧ (∀ k, k ≠ 0 → s.g.ph.sinkPh k = .idle) ∧
  Mode s.st s.g.ph s.stack ∧ X s.g s.stack

theorem X_clean {g : G} {stk : List (Frame (Loc α) α)} (h : X g stk) : g.xviols = [] := by
  cases stk with
  | nil => exact h.clean
  | cons f r =>
    cases f with
    | run l => exact h.clean
    | wait o l => cases l <;> first | exact XOk.clean h | exact h.1

theorem inv_turn (s : Sys St (Loc α) α α) (h : Inv s) : EnvTurn s ∧ Safe s := by
  obtain ⟨hp, hb, hpos, hidle, hoths, hm, hx⟩ := h
  have := (Flatten.inv_turn s ⟨hp, hb, hpos, hidle, hoths, hm⟩).1
  exact ⟨this, by simp [G.viols, hb, X_clean hx], hp⟩

theorem inv_init : Inv (Sys.init (machine α)) := by
  obtain ⟨h1, h2, h3, h4, h5, h6⟩ := Flatten.inv_init (α := α)
  exact ⟨h1, h2, h3, h4, h5, h6, ⟨rfl, (by intro e h ks hp; cases hp), noOrphan_of_noLive (by intro i; simp [Sys.init])⟩⟩

/-- side goals about fields of a structure literal, whichever way `simp` has normalised it -/
macro "fld" : tactic => `(tactic| first | rfl | assumption | exact Or.inl rfl | exact Or.inr rfl | simp)

macro "execx" n:num : tactic =>
  `(tactic| (refine ⟨$n, ?_⟩; simp [advance, opStep, machine, enter, step, Ph.onIn, Ph.onOut, Inv, isFinal, onIn_srcErr, *]))

/-- while sink 0 has not received its terminal nothing is pending -/
theorem pend_none_of_sink0 {g : G} (hx : XOk g) (hoths : ∀ k, k ≠ 0 → g.ph.sinkPh k = .idle) (h0 : g.ph.sinkPh 0 ≠ .doneBySrc) :
    g.pend = none :=
  hx.pend_none_of_noDone (fun k => by
    by_cases hk : k = 0
    · subst hk; exact h0
    · rw [hoths k hk]; decide)

theorem noLive_of_quiet {g : Ph} (h : Quiet g) : ∀ i, g.srcPh i ≠ .live := fun i => (h i).1

/-- nothing flagged, nothing pending, no upstream can move: `XOk` -/
theorem xok_quiet {g : G} (hxv : g.xviols = []) (hp : g.pend = none) (hq : Quiet g.ph) : XOk g :=
  ⟨hxv, (by intro e h ks hp'; rw [hp] at hp'; cases hp'), noOrphan_of_noLive (noLive_of_quiet hq)⟩

/-- the macro-step that delivers the upstream error re-establishes `XOk` -/
theorem xok_of_transErr {g g' : G} {e : Nat} (ht : TransErr g e) (hxv : g'.xviols = g.xviols) (hpend : g'.pend = g.pend)
    (h0 : g'.ph.sinkPh 0 = .doneBySrc) (hf : g'.finOf 0 = some (Fin.err e)) (hq : Quiet g'.ph) : XOk g' := by
  obtain ⟨hc, h, ks, hp, hne, hks⟩ := ht
  refine ⟨by rw [hxv]; exact hc, ?_, noOrphan_of_noLive (noLive_of_quiet hq)⟩
  intro e' h' ks' hp'
  rw [hpend, hp] at hp'; cases hp'
  exact ⟨hne, fun k hk => by rw [hks k hk]; exact ⟨h0, hf⟩, noLive_of_quiet hq⟩

/-- the arrival of an upstream error while sink 0 is live and nothing is pending -/
theorem transErr_arrival {g g' : G} {e h : Nat} (hx : XOk g) (hoths : ∀ k, k ≠ 0 → g.ph.sinkPh k = .idle) (h1 : g.ph.sinkPh 0 = .live)
    (hxv : g'.xviols = g.xviols) (hpend : g'.pend = some (e, h, livesOf g.ph)) : TransErr g' e := by
  refine ⟨by rw [hxv]; exact hx.clean, h, livesOf g.ph, hpend, livesOf_ne_nil 0 h1, ?_⟩
  intro k hk
  by_cases hk0 : k = 0
  · exact hk0
  · have := (mem_livesOf g.ph k).1 hk; rw [hoths k hk0] at this; cases this

theorem livesOf_isEmpty_false {g : Ph} (h1 : g.sinkPh 0 = .live) : (livesOf g).isEmpty = false := by
  cases hl : livesOf g with
  | nil => exact absurd hl (livesOf_ne_nil 0 h1)
  | cons _ _ => rfl

theorem inv_step (s s' : Sys St (Loc α) α α) (m : Move α) (h : Inv s) (hs : EnvStep (machine α) m s s') :
    ∃ n, Inv (advance (machine α) n s') := by
  obtain ⟨hp, hb, hpos, hidle, hoths, hm, hX⟩ := h
  cases hs with
  | @call st stk g tr c i hc hl =>
    simp only at hp hb hpos hidle hoths hm hX
    cases i with
    | subscribe k =>
      simp only [legalIn, Bool.and_eq_true, beq_iff_eq, machine, Bool.or_false] at hl
      obtain ⟨⟨hc', hidle0⟩, rfl⟩ := hl
      cases hm with
      | init h1 h2 h3 h4 h5 h6 =>
        subst h3
        have hx : XOk g := hX
        have hpn : g.pend = none := pend_none_of_sink0 hx hoths (by rw [h1]; decide)
        have hopen : (g.ph.setSink 0 .subscribed).anySinkOpen = true := (Ph.anySinkOpen_iff _).2 ⟨0, by simp⟩
        execx 1
        refine ⟨fun i hi => by simp [show i ≠ 0 by omega, hidle i (by omega)], fun k hk => by simp [hk, hoths k hk],
          Mode.sub (by simp) (by simp) rfl h4 h5 h6, ?_⟩
        exact hx.of_fields (by fld) (by fld) (by fld) (Or.inl hpn) (noOrphan_of_open 0 (by simp))
      | _ => simp_all
    | sinkUp k u =>
      simp only [legalIn, Bool.and_eq_true, beq_iff_eq, Bool.or_eq_true] at hl
      obtain ⟨hlive, hctx⟩ := hl
      have hk : k = 0 := by
        by_cases hk : k = 0
        · exact hk
        · rw [hoths k hk] at hlive; cases hlive
      subst hk
      cases hm with
      | live h1 h2 h3 h4 h5 =>
        have hben : ∀ o, ∀ f ∈ (Frame.wait o Loc.done :: stk : List (Frame (Loc α) α)), Benign f :=
          fun o => List.forall_mem_cons.2 ⟨by simp [Benign], h5⟩
        have hx : XOk g := (X_benign h5).1 hX
        have hpn : g.pend = none := pend_none_of_sink0 hx hoths (by rw [h1]; decide)
        have hno : NoOrphan g.ph := noOrphan_of_open 0 (Or.inr h1)
        cases u with
        | pull =>
          cases hin : st.inner with
          | some k =>
            obtain ⟨hk0, hkn, hkl⟩ := h3 k hin
            execx 1
            refine ⟨hidle, hoths, Mode.live h1 h2 h3 h4 (hben _), ?_⟩
            exact hx.of_fields (by fld) (by fld) (by fld) (Or.inl hpn) hno
          | none =>
            cases hout : st.outer with
            | true =>
              have h0 := h2.1 hout
              execx 2
              refine ⟨hidle, hoths, Mode.live h1 h2 h3 h4 (hben _), ?_⟩
              exact hx.of_fields (by fld) (by fld) (by fld) (Or.inl hpn) hno
            | false =>
              execx 2
              refine ⟨hidle, hoths, Mode.live h1 h2 h3 h4 h5, (X_benign h5).2 ?_⟩
              apply XOk.onRetO
              exact hx.of_fields (by fld) (by fld) (by fld) (Or.inl hpn) hno
        | term | err _ =>
          cases hin : st.inner with
          | some k =>
            obtain ⟨hk0, hkn, hkl⟩ := h3 k hin
            execx 1
            refine ⟨idle_setSrc hidle hkn _, sinks_setSink hoths _, Mode.x1 k (by simp) (h2.setSrc hk0 _) ?_ ⟨stk, rfl, h5⟩, ?_⟩
            · intro i hi; rw [off_setSrc]; split
              · simp
              · exact off_inner hidle h4 i hi (by rw [hin]; simpa using Ne.symm ‹_›)
            · exact ⟨hx.clean, by fld⟩
          | none =>
            have hoff : ∀ i, 0 < i → Off g.ph i := fun i hi => off_inner hidle h4 i hi (by simp [hin])
            cases hout : st.outer with
            | true =>
              have h0 := h2.1 hout
              execx 2
              suffices hq : Quiet _ from
                ⟨idle_setSrc hidle hpos _, sinks_setSink hoths _, Mode.fin (by simp) hq (hben _),
                  hx.of_noPend hpn (by fld) (by fld) (noOrphan_of_noLive (noLive_of_quiet hq))⟩
              intro i; rw [off_setSrc]; split
              · simp
              · exact hoff i (by omega)
            | false =>
              execx 2
              suffices hq : Quiet _ from
                ⟨hidle, sinks_setSink hoths _, Mode.fin (by simp) hq h5,
                  (X_benign h5).2 (by apply XOk.onRetO; exact hx.of_noPend hpn (by fld) (by fld) (noOrphan_of_noLive (noLive_of_quiet hq)))⟩
              intro i
              by_cases hi : i = 0
              · subst hi; exact (h2.2 hout).off
              · exact hoff i (by omega)
      | wgreet j _ _ _ _ _ _ h => noctx h
      | od1 k _ _ _ h => noctx h
      | oe1 k e _ _ h => noctx h
      | ie1 e _ _ h => noctx h
      | _ => simp_all
    | srcGreet i =>
      simp only [legalIn, Bool.and_eq_true, beq_iff_eq, machine, Bool.false_and, Bool.or_false] at hl
      obtain ⟨hsub, hctx⟩ := hl
      cases hm with
      | init h1 h2 h3 h4 h5 h6 =>
        by_cases hi : i = 0
        · subst hi; simp [h2] at hsub
        · simp [hidle i (by omega)] at hsub
      | sub h1 h2 h3 h4 h5 h6 =>
        subst h3
        have hx : XOk g := hX
        have hpn : g.pend = none := pend_none_of_sink0 hx hoths (by rw [h1]; decide)
        simp [ctxOf] at hc; subst hc; simp [inSub] at hctx; subst hctx
        execx 2
        refine ⟨fun i hi => by simp [show i ≠ 0 by omega, hidle i (by omega)], sinks_setSink hoths _,
          Mode.live (by simp) ⟨fun _ => by simp, fun h => by simp at h⟩ (fun k h => by simp at h)
            (fun i h1 h2 => by simp at h2; omega) (by simp [Benign]), ?_⟩
        exact hx.of_fields (by fld) (by fld) (by fld) (Or.inl hpn) (noOrphan_of_open 0 (by simp))
      | live h1 h2 h3 h4 h5 => exact absurd hsub (live_not_subscribed h2 hidle h3 h4 i)
      | wgreet j h1 h2 h3 h4 h5 h6 h7 =>
        obtain ⟨rest, rfl, hrest⟩ := h7
        have hx : XOk g := hX
        have hpn : g.pend = none := pend_none_of_sink0 hx hoths (by rw [h1]; decide)
        simp [ctxOf] at hc; subst hc; simp [inSub] at hctx; subst hctx
        obtain ⟨j, rfl⟩ : ∃ j, i = j + 1 := ⟨i - 1, by omega⟩
        have hidle' : ∀ i, j + 1 + 1 ≤ i → g.ph.srcPh i = .idle := h4 ▸ hidle
        execx 2
        refine ⟨idle_setSrc hidle' (by omega) _, hoths, Mode.live (by simpa using h1) (h2.setSrc (by omega) _)
          (fun k hk => by simp at hk; subst hk; simp) ?_ (by simpa [Benign] using hrest), ?_⟩
        · intro i hi hlt hne
          have : i ≠ j + 1 := fun h => hne (by rw [h])
          rw [dead_setSrc, if_neg this]; exact h6 i hi (by simp at hlt; omega)
        · exact hx.of_fields (by fld) (by fld) (by fld) (Or.inl hpn) (noOrphan_of_open 0 (Or.inr (by simpa using h1)))
      | od1 k _ _ _ h => noctx h
      | oe1 k e _ _ h => noctx h
      | ie1 e _ _ h => noctx h
      | x1 k _ _ _ h => noctx h
      | fin _ h _ => exact absurd hsub (h i).2
    | srcDown i d =>
      simp only [legalIn, Bool.and_eq_true, beq_iff_eq, Bool.or_eq_true] at hl
      obtain ⟨hlive, hctx⟩ := hl
      cases hm with
      | init h1 h2 h3 h4 h5 h6 =>
        by_cases hi : i = 0
        · subst hi; simp [h2] at hlive
        · simp [hidle i (by omega)] at hlive
      | sub h1 h2 h3 h4 h5 h6 =>
        by_cases hi : i = 0
        · subst hi; simp [h2] at hlive
        · simp [hidle i (by omega)] at hlive
      | live h1 h2 h3 h4 h5 =>
        have hben : ∀ o, ∀ f ∈ (Frame.wait o Loc.done :: stk : List (Frame (Loc α) α)), Benign f :=
          fun o => List.forall_mem_cons.2 ⟨by simp [Benign], h5⟩
        have hoff : ∀ i, 0 < i → st.inner ≠ some i → Off g.ph i := off_inner hidle h4
        have hx : XOk g := (X_benign h5).1 hX
        have hpn : g.pend = none := pend_none_of_sink0 hx hoths (by rw [h1]; decide)
        have hno : NoOrphan g.ph := noOrphan_of_open 0 (Or.inr h1)
        have hlv : (livesOf g.ph).isEmpty = false := livesOf_isEmpty_false h1
        by_cases hi : i = 0
        · subst hi
          have hout : st.outer = true := by
            cases hout : st.outer with
            | true => rfl
            | false => exact absurd hlive (h2.2 hout).off.1
          cases d with
          | data a =>
            cases hin : st.inner with
            | some k =>
              obtain ⟨hk0, hkn, hkl⟩ := h3 k hin
              execx 1
              refine ⟨idle_setSrc hidle hkn _, hoths, Mode.od1 k h1 (h2.setSrc hk0 _) ?_ ⟨stk, rfl, h5⟩, ?_⟩
              · intro i hi hlt; rw [dead_setSrc]; split
                · simp
                · exact h4 i hi hlt (by rw [hin]; simpa using Ne.symm ‹_›)
              · exact hx.of_fields (by fld) (by fld) (by fld) (Or.inl hpn) (noOrphan_of_open 0 (Or.inr h1))
            | none =>
              have hnid := hidle st.nextId (Nat.le_refl _)
              have hopen : g.ph.anySinkOpen = true := (Ph.anySinkOpen_iff _).2 ⟨0, Or.inr h1⟩
              rw [hout] at h2
              execx 2
              refine ⟨fun i hi => by simp [show i ≠ st.nextId by omega, hidle i (by omega)], hoths,
                Mode.wgreet st.nextId h1 (h2.setSrc hpos _) hpos rfl (by simp) ?_ ⟨stk, rfl, h5⟩, ?_⟩
              · intro i hi hlt; rw [dead_setSrc, if_neg (by omega)]; exact h4 i hi hlt (by simp [hin])
              · exact hx.of_fields (by fld) (by fld) (by fld) (Or.inl hpn) (noOrphan_of_open 0 (Or.inr h1))
          | term =>
            cases hin : st.inner with
            | some k =>
              obtain ⟨hk0, hkn, hkl⟩ := h3 k hin
              execx 2
              refine ⟨idle_setSrc hidle hpos _, hoths, Mode.live (by simpa using h1) ⟨by simp, fun _ => by simp [Dead]⟩ ?_ ?_ h5,
                (X_benign h5).2 ?_⟩
              · intro k' hk'; simp at hk'; subst hk'; simp [show k ≠ 0 by omega, *]
              · intro i hi hlt hne; rw [dead_setSrc, if_neg (by omega)]; exact h4 i hi hlt (by simpa [hin] using hne)
              · apply XOk.onRetO
                exact hx.of_fields (by fld) (by fld) (by fld) (Or.inl hpn) (noOrphan_of_open 0 (Or.inr (by simpa using h1)))
            | none =>
              execx 1
              suffices hq : Quiet _ from
                ⟨idle_setSrc hidle hpos _, sinks_setSink hoths _, Mode.fin (by simp) hq (hben _),
                  hx.of_noPend hpn (by fld) (by fld) (noOrphan_of_noLive (noLive_of_quiet hq))⟩
              intro i; rw [off_setSink, off_setSrc]; split
              · simp
              · exact hoff i (by omega) (by simp [hin])
          | err e =>
            cases hin : st.inner with
            | some k =>
              obtain ⟨hk0, hkn, hkl⟩ := h3 k hin
              have hk0' : k ≠ 0 := by omega
              execx 1
              refine ⟨?_, hoths, Mode.oe1 k e (by simpa using h1) ?_ ⟨stk, rfl, h5⟩, ?_⟩
              · intro i hi; simp [show i ≠ k by omega, show i ≠ 0 by omega, hidle i hi]
              · intro i; rw [off_setSrc]; split
                · simp
                · rw [off_setSrc]; split
                  · simp
                  · exact hoff i (by omega) (by rw [hin]; simpa using Ne.symm ‹_›)
              · exact transErr_arrival hx hoths h1 (by fld) (by fld)
            | none =>
              execx 2
              suffices hq : Quiet _ from
                ⟨idle_setSrc hidle hpos _, sinks_setSink hoths _, Mode.fin (by simp) hq (hben _),
                  xok_of_transErr (transErr_arrival (g' := { g with pend := some (e, stk.length, livesOf g.ph) }) hx hoths h1 rfl rfl)
                    (by fld) (by fld) (by simp) (by simp [G.finOf, phAt_setAt]) hq⟩
              intro i; rw [off_setSink, off_setSrc]; split
              · simp
              · exact hoff i (by omega) (by simp [hin])
        · have hcur : st.inner = some i := by
            by_cases hcur : st.inner = some i
            · exact hcur
            · exact absurd hlive (hoff i (by omega) hcur).1
          obtain ⟨hk0, hkn, hkl⟩ := h3 i hcur
          obtain ⟨j, rfl⟩ : ∃ j, i = j + 1 := ⟨i - 1, by omega⟩
          have hoff' : ∀ i, 0 < i → i ≠ j + 1 → Off g.ph i := fun i hi hne => hoff i hi (by rw [hcur]; simpa using Ne.symm hne)
          cases d with
          | data a =>
            execx 1
            refine ⟨hidle, hoths, Mode.live h1 h2 h3 h4 (hben _), ?_⟩
            exact hx.of_fields (by fld) (by fld) (by fld) (Or.inl hpn) hno
          | term =>
            cases hout : st.outer with
            | true =>
              have h0 := h2.1 hout
              rw [hout] at h2
              execx 3
              refine ⟨idle_setSrc hidle hkn _, hoths, Mode.live (by simpa using h1) (h2.setSrc hk0 _) (by simp) ?_ (hben _), ?_⟩
              · intro i hi hlt _; rw [dead_setSrc]; split
                · simp
                · exact h4 i hi hlt (by rw [hcur]; simpa using Ne.symm ‹_›)
              · exact hx.of_fields (by fld) (by fld) (by fld) (Or.inl hpn) (noOrphan_of_open 0 (Or.inr (by simpa using h1)))
            | false =>
              have h0 := h2.2 hout
              execx 1
              suffices hq : Quiet _ from
                ⟨idle_setSrc hidle hkn _, sinks_setSink hoths _, Mode.fin (by simp) hq (hben _),
                  hx.of_noPend hpn (by fld) (by fld) (noOrphan_of_noLive (noLive_of_quiet hq))⟩
              intro i; rw [off_setSink, off_setSrc]; split
              · simp
              · by_cases hi0 : i = 0
                · subst hi0; exact h0.off
                · exact hoff' i (by omega) ‹_›
          | err e =>
            cases hout : st.outer with
            | true =>
              have h0 := h2.1 hout
              execx 1
              refine ⟨?_, hoths, Mode.ie1 e (by simpa using h1) ?_ ⟨stk, rfl, h5⟩, ?_⟩
              · intro i hi; simp [show i ≠ j + 1 by omega, show i ≠ 0 by omega, hidle i hi]
              · intro i; rw [off_setSrc]; split
                · simp
                · rw [off_setSrc]; split
                  · simp
                  · exact hoff' i (by omega) ‹_›
              · exact transErr_arrival hx hoths h1 (by fld) (by fld)
            | false =>
              have h0 := h2.2 hout
              execx 2
              suffices hq : Quiet _ from
                ⟨idle_setSrc hidle hkn _, sinks_setSink hoths _, Mode.fin (by simp) hq (hben _),
                  xok_of_transErr (transErr_arrival (g' := { g with pend := some (e, stk.length, livesOf g.ph) }) hx hoths h1 rfl rfl)
                    (by fld) (by fld) (by simp) (by simp [G.finOf, phAt_setAt]) hq⟩
              intro i; rw [off_setSink, off_setSrc]; split
              · simp
              · by_cases hi0 : i = 0
                · subst hi0; exact h0.off
                · exact hoff' i (by omega) ‹_›
      | wgreet j h1 h2 h3 h4 h5 h6 h7 =>
        obtain ⟨rest, rfl, hrest⟩ := h7
        simp [ctxOf] at hc; subst hc; simp [isTop, inSub, inPull] at hctx; subst hctx
        simp [h5] at hlive
      | od1 k _ _ _ h => noctx h
      | oe1 k e _ _ h => noctx h
      | ie1 e _ _ h => noctx h
      | x1 k _ _ _ h => noctx h
      | fin _ h _ => exact absurd hlive (h i).1
  | @ret st stk g tr o l hl =>
    simp only at hp hb hpos hidle hoths hm hX
    cases hm with
    | init _ _ h => simp at h
    | sub h1 h2 h3 h4 h5 h6 =>
      simp at h3; obtain ⟨⟨rfl, rfl⟩, rfl⟩ := h3
      simp [legalRet, h2, machine] at hl
    | live h1 h2 h3 h4 h5 =>
      have hben := h5 _ (List.mem_cons_self)
      have hrest := (List.forall_mem_cons.1 h5).2
      cases l with
      | done =>
        have hx : XOk g := hX
        execx 1
        exact ⟨hidle, hoths, Mode.live h1 h2 h3 h4 hrest, (X_benign hrest).2 (hx.onRetO _)⟩
      | _ => simp [Benign] at hben
    | wgreet j h1 h2 h3 h4 h5 h6 h7 =>
      obtain ⟨rest, he, hrest⟩ := h7
      simp at he; obtain ⟨⟨rfl, rfl⟩, rfl⟩ := he
      simp [legalRet, h5, machine] at hl
    | od1 k h1 h2 h3 h4 =>
      obtain ⟨rest, he, hrest⟩ := h4
      simp at he; obtain ⟨⟨rfl, rfl⟩, rfl⟩ := he
      have hx : XOk g := hX
      have hpn : g.pend = none := pend_none_of_sink0 hx hoths (by rw [h1]; decide)
      have hnid := hidle st.nextId (Nat.le_refl _)
      have hopen : g.ph.anySinkOpen = true := (Ph.anySinkOpen_iff _).2 ⟨0, Or.inr h1⟩
      execx 1
      refine ⟨fun i hi => by simp [show i ≠ st.nextId by omega, hidle i (by omega)], hoths,
        Mode.wgreet st.nextId h1 (h2.setSrc hpos _) hpos rfl (by simp) ?_ ⟨stk, rfl, hrest⟩, ?_⟩
      · intro i hi hlt; rw [dead_setSrc, if_neg (by omega)]; exact h3 i hi hlt
      · exact hx.of_fields (by fld) (by fld) (by fld) (Or.inl hpn) (noOrphan_of_open 0 (Or.inr h1))
    | oe1 k e h1 h2 h3 =>
      obtain ⟨rest, he, hrest⟩ := h3
      simp at he; obtain ⟨⟨rfl, rfl⟩, rfl⟩ := he
      have ht : TransErr g e := hX
      execx 1
      refine ⟨hidle, sinks_setSink hoths _, Mode.fin (by simp) h2 (List.forall_mem_cons.2 ⟨by simp [Benign], hrest⟩), ?_⟩
      exact xok_of_transErr ht (by fld) (by fld) (by simp) (by simp [G.finOf, phAt_setAt]) h2
    | ie1 e h1 h2 h3 =>
      obtain ⟨rest, he, hrest⟩ := h3
      simp at he; obtain ⟨⟨rfl, rfl⟩, rfl⟩ := he
      have ht : TransErr g e := hX
      execx 1
      refine ⟨hidle, sinks_setSink hoths _, Mode.fin (by simp) h2 (List.forall_mem_cons.2 ⟨by simp [Benign], hrest⟩), ?_⟩
      exact xok_of_transErr ht (by fld) (by fld) (by simp) (by simp [G.finOf, phAt_setAt]) h2
    | x1 k h1 h2 h3 h4 =>
      obtain ⟨rest, he, hrest⟩ := h4
      simp at he; obtain ⟨⟨rfl, rfl⟩, rfl⟩ := he
      have ht : TransX g := hX
      cases hout : st.outer with
      | true =>
        have h0 := h2.1 hout
        execx 1
        suffices hq : Quiet _ from
          ⟨idle_setSrc hidle hpos _, hoths, Mode.fin (Or.inr h1) hq (List.forall_mem_cons.2 ⟨by simp [Benign], hrest⟩),
            xok_quiet (by first | exact ht.1 | simp [ht.1]) (by first | exact ht.2 | simp [ht.2]) hq⟩
        intro i; rw [off_setSrc]; split
        · simp
        · exact h3 i (by omega)
      | false =>
        have h0 := h2.2 hout
        have hq : Quiet g.ph := by
          intro i
          by_cases hi0 : i = 0
          · subst hi0; exact h0.off
          · exact h3 i (by omega)
        execx 1
        exact ⟨hidle, hoths, Mode.fin (Or.inr h1) hq hrest, (X_benign hrest).2 (XOk.onRetO (xok_quiet ht.1 ht.2 hq) _)⟩
    | fin h1 h2 h3 =>
      have hben := h3 _ (List.mem_cons_self)
      have hrest := (List.forall_mem_cons.1 h3).2
      cases l with
      | done =>
        have hx : XOk g := hX
        execx 1
        exact ⟨hidle, hoths, Mode.fin h1 h2 hrest, (X_benign hrest).2 (hx.onRetO _)⟩
      | _ => simp [Benign] at hben

/-- flatten: under every conformant environment (re-entrant sink, synchronous or deferred outer and inner sources) the
operator never violates any clause of C01–C05 and never panics. -/
theorem flatten_safe {α : Type} : ∀ s, SReach (machine α) s → Safe s :=
  safe_of_macro_inv (machine α) Inv inv_init inv_turn inv_step

end Cb.FlattenFull

#print axioms Cb.FlattenFull.flatten_safe
