import CallbagModel.Inv.Ghost
import CallbagModel.Ops.Flatten
/-!
# flatten (switch): the phase-level safety invariant

Stated at environment turns only.  Upstream 0 is the outer source, upstreams `1 … nextId-1` are the inner sources seen
so far.  While the output is open, at most one inner is live (the one in `st.inner`), every other inner seen so far is
ended or disposed, and `st.outer` says whether the outer is live.  Once the output is over no upstream is live or
subscribed, so the environment can only return.

The continuations that are not tail calls (`od1`, `oe1 e`, `ie1 e`, `x1`) all wait on a `Terminate` just sent upstream:
their callee can only return, so each of them has a mode of its own with its frame on top of the stack.
-/
namespace Cb.Flatten
open Cb

variable {α : Type}

/-- continuations that may sit below the top of the stack: tail calls only -/
def Benign : Frame (Loc α) α → Prop
  | .wait _ .done => True
  | _ => False

/-- upstream `i` is over -/
def Dead (g : Ph) (i : Nat) : Prop := g.srcPh i = .ended ∨ g.srcPh i = .disposed

/-- upstream `i` cannot move -/
def Off (g : Ph) (i : Nat) : Prop := g.srcPh i ≠ .live ∧ g.srcPh i ≠ .subscribed

/-- no upstream can move -/
def Quiet (g : Ph) : Prop := ∀ i, Off g i

/-- the flag `st.outer` tells whether the outer source is live -/
def OuterOk (outer : Bool) (g : Ph) : Prop := (outer = true → g.srcPh 0 = .live) ∧ (outer = false → Dead g 0)

inductive Mode (st : St) (g : Ph) (stk : List (Frame (Loc α) α)) : Prop where
  | init : g.sinkPh 0 = .idle → g.srcPh 0 = .idle → stk = [] → st.outer = false → st.inner = none → st.nextId = 1 →
      Mode st g stk
  | sub : g.sinkPh 0 = .subscribed → g.srcPh 0 = .subscribed → stk = [.wait (.subSrc 0) .done] → st.outer = false →
      st.inner = none → st.nextId = 1 → Mode st g stk
  /-- output open, tail frames only -/
  | live : g.sinkPh 0 = .live → OuterOk st.outer g →
      (∀ k, st.inner = some k → 0 < k ∧ k < st.nextId ∧ g.srcPh k = .live) →
      (∀ i, 0 < i → i < st.nextId → st.inner ≠ some i → Dead g i) →
      (∀ f ∈ stk, Benign f) → Mode st g stk
  /-- waiting for the greeting of the inner source just subscribed -/
  | wgreet (j : Nat) : g.sinkPh 0 = .live → OuterOk st.outer g → 0 < j → st.nextId = j + 1 → g.srcPh j = .subscribed →
      (∀ i, 0 < i → i < j → Dead g i) →
      (∃ rest, stk = .wait (.subSrc j) .done :: rest ∧ ∀ f ∈ rest, Benign f) → Mode st g stk
  /-- the outer delivered a new inner, the old one has just been disposed -/
  | od1 (k : Nat) : g.sinkPh 0 = .live → OuterOk st.outer g → (∀ i, 0 < i → i < st.nextId → Dead g i) →
      (∃ rest, stk = .wait (.srcUp k .term) .od1 :: rest ∧ ∀ f ∈ rest, Benign f) → Mode st g stk
  /-- the outer errored, the inner has just been disposed -/
  | oe1 (k e : Nat) : g.sinkPh 0 = .live → Quiet g →
      (∃ rest, stk = .wait (.srcUp k .term) (.oe1 e) :: rest ∧ ∀ f ∈ rest, Benign f) → Mode st g stk
  /-- the inner errored, the outer has just been disposed -/
  | ie1 (e : Nat) : g.sinkPh 0 = .live → Quiet g →
      (∃ rest, stk = .wait (.srcUp 0 .term) (.ie1 e) :: rest ∧ ∀ f ∈ rest, Benign f) → Mode st g stk
  /-- the sink disposed, the inner has just been disposed, the outer is next -/
  | x1 (k : Nat) : g.sinkPh 0 = .doneBySelf → OuterOk st.outer g → (∀ i, 0 < i → Off g i) →
      (∃ rest, stk = .wait (.srcUp k .term) .x1 :: rest ∧ ∀ f ∈ rest, Benign f) → Mode st g stk
  /-- output over -/
  | fin : (g.sinkPh 0 = .doneBySrc ∨ g.sinkPh 0 = .doneBySelf) → Quiet g → (∀ f ∈ stk, Benign f) → Mode st g stk

def Inv (s : Sys St (Loc α) α α) : Prop :=
  s.panicked = none ∧ s.g.ph.viols = [] ∧ 0 < s.st.nextId ∧
  (∀ i, s.st.nextId ≤ i → s.g.ph.srcPh i = .idle) ∧ (∀ k, k ≠ 0 → s.g.ph.sinkPh k = .idle) ∧
  Mode s.st s.g.ph s.stack

theorem ctx_isSome_of_benign {stk : List (Frame (Loc α) α)} (h : ∀ f ∈ stk, Benign f) : (ctxOf stk).isSome := by
  cases stk with
  | nil => simp [ctxOf]
  | cons f r =>
    have := h f (by simp)
    cases f with
    | run l => simp [Benign] at this
    | wait o l => simp [ctxOf]

theorem inv_turn (s : Sys St (Loc α) α α) (h : Inv s) : EnvTurn s ∧ BasicSafe s := by
  obtain ⟨hp, hb, _, _, _, hm⟩ := h
  refine ⟨⟨hp, ?_⟩, hb, hp⟩
  cases hm with
  | init _ _ h => simp [h, ctxOf]
  | sub _ _ h => simp [h, ctxOf]
  | live _ _ _ _ h => exact ctx_isSome_of_benign h
  | wgreet _ _ _ _ _ _ _ h => obtain ⟨r, h, _⟩ := h; simp [h, ctxOf]
  | od1 _ _ _ _ h => obtain ⟨r, h, _⟩ := h; simp [h, ctxOf]
  | oe1 _ _ _ _ h => obtain ⟨r, h, _⟩ := h; simp [h, ctxOf]
  | ie1 _ _ _ h => obtain ⟨r, h, _⟩ := h; simp [h, ctxOf]
  | x1 _ _ _ _ h => obtain ⟨r, h, _⟩ := h; simp [h, ctxOf]
  | fin _ _ h => exact ctx_isSome_of_benign h

theorem inv_init : Inv (Sys.init (machine α)) :=
  ⟨rfl, rfl, by simp [Sys.init, machine], fun _ _ => by simp [Sys.init], fun _ _ => by simp [Sys.init],
    Mode.init (by simp [Sys.init]) (by simp [Sys.init]) rfl rfl rfl rfl⟩

/-! ### phase bookkeeping -/

theorem Dead.off {g : Ph} {i : Nat} (h : Dead g i) : Off g i := by
  rcases h with h | h <;> simp [Off, h]

theorem off_of_idle {g : Ph} {i : Nat} (h : g.srcPh i = .idle) : Off g i := by simp [Off, h]

@[simp] theorem dead_setSrc (g : Ph) (k i : Nat) (p : SrcPh) :
    Dead (g.setSrc k p) i ↔ if i = k then (p = .ended ∨ p = .disposed) else Dead g i := by
  simp only [Dead, Ph.srcPh_setSrc]; split <;> rfl

@[simp] theorem dead_setSink (g : Ph) (k i : Nat) (p : SinkPh) : Dead (g.setSink k p) i ↔ Dead g i := Iff.rfl

@[simp] theorem off_setSrc (g : Ph) (k i : Nat) (p : SrcPh) :
    Off (g.setSrc k p) i ↔ if i = k then (p ≠ .live ∧ p ≠ .subscribed) else Off g i := by
  simp only [Off, Ph.srcPh_setSrc]; split <;> rfl

@[simp] theorem off_setSink (g : Ph) (k i : Nat) (p : SinkPh) : Off (g.setSink k p) i ↔ Off g i := Iff.rfl

@[simp] theorem outerOk_setSink (b : Bool) (g : Ph) (k : Nat) (p : SinkPh) : OuterOk b (g.setSink k p) ↔ OuterOk b g := Iff.rfl

theorem OuterOk.setSrc {b : Bool} {g : Ph} (h : OuterOk b g) {k : Nat} (hk : 0 < k) (p : SrcPh) : OuterOk b (g.setSrc k p) := by
  simpa [OuterOk, show (0 : Nat) ≠ k by omega] using h

theorem idle_setSrc {g : Ph} {n k : Nat} (hidle : ∀ i, n ≤ i → g.srcPh i = .idle) (hk : k < n) (p : SrcPh) :
    ∀ i, n ≤ i → (if i = k then p else g.srcPh i) = .idle := by
  intro i hi; simp [show i ≠ k by omega, hidle i hi]

theorem sinks_setSink {g : Ph} (hoths : ∀ k, k ≠ 0 → g.sinkPh k = .idle) (p : SinkPh) :
    ∀ k, ¬ k = 0 → (if k = 0 then p else g.sinkPh k) = .idle := by
  intro k hk; simp [hk, hoths k hk]

/-- in the open modes every inner source other than the current one cannot move -/
theorem off_inner {g : Ph} {n : Nat} {cur : Option Nat} (hidle : ∀ i, n ≤ i → g.srcPh i = .idle)
    (hd : ∀ i, 0 < i → i < n → cur ≠ some i → Dead g i) (i : Nat) (hi : 0 < i) (hne : cur ≠ some i) : Off g i := by
  by_cases hn : i < n
  · exact (hd i hi hn hne).off
  · exact off_of_idle (hidle i (by omega))

macro "exec" n:num : tactic =>
  `(tactic| (refine ⟨$n, ?_⟩; simp [advance, opStep, machine, enter, step, Ph.onIn, Ph.onOut, Inv, isFinal, *]))

theorem live_not_subscribed {b : Bool} {g : Ph} {n : Nat} {cur : Option Nat} (h2 : OuterOk b g)
    (hidle : ∀ i, n ≤ i → g.srcPh i = .idle) (h3 : ∀ k, cur = some k → 0 < k ∧ k < n ∧ g.srcPh k = .live)
    (h4 : ∀ i, 0 < i → i < n → cur ≠ some i → Dead g i) (i : Nat) : g.srcPh i ≠ .subscribed := by
  by_cases hi : i = 0
  · subst hi
    cases b with
    | true => simp [h2.1 rfl]
    | false => exact (h2.2 rfl).off.2
  · by_cases hc : cur = some i
    · simp [(h3 i hc).2.2]
    · exact (off_inner hidle h4 i (by omega) hc).2

set_option hygiene false in
/-- the callee of the top frame was just sent `Terminate` (or must greet first): it cannot call -/
macro "noctx" h:ident : tactic =>
  `(tactic| (obtain ⟨rest, rfl, _⟩ := $h; simp [ctxOf] at hc; subst hc
             simp [isTop, inGreet, inData, inSub, inPull] at hctx))

theorem inv_step (s s' : Sys St (Loc α) α α) (m : Move α) (h : Inv s) (hs : EnvStep (machine α) m s s') :
    ∃ n, Inv (advance (machine α) n s') := by
  obtain ⟨hp, hb, hpos, hidle, hoths, hm⟩ := h
  cases hs with
  | @call st stk g tr c i hc hl =>
    simp only at hp hb hpos hidle hoths hm
    cases i with
    | subscribe k =>
      simp only [legalIn, Bool.and_eq_true, beq_iff_eq, machine, Bool.or_false] at hl
      obtain ⟨⟨hc', hidle0⟩, rfl⟩ := hl
      cases hm with
      | init h1 h2 h3 h4 h5 h6 =>
        subst h3
        have hopen : (g.ph.setSink 0 .subscribed).anySinkOpen = true := (Ph.anySinkOpen_iff _).2 ⟨0, by simp⟩
        exec 1
        exact ⟨fun i hi => by simp [show i ≠ 0 by omega, hidle i (by omega)], fun k hk => by simp [hk, hoths k hk],
          Mode.sub (by simp) (by simp) rfl h4 h5 h6⟩
      | _ => simp_all
    | sinkUp k u =>
      simp only [legalIn, Bool.and_eq_true, beq_iff_eq, Bool.or_eq_true] at hl
      obtain ⟨hlive, hctx⟩ := hl
      have hk : k = 0 := by
        by_cases hk : k = 0
        · exact hk
        · rw [hoths k hk] at hlive; cases hlive
      subst hk
      cases hm with
      | live h1 h2 h3 h4 h5 =>
        have hben : ∀ o, ∀ f ∈ (Frame.wait o Loc.done :: stk : List (Frame (Loc α) α)), Benign f :=
          fun o => List.forall_mem_cons.2 ⟨by simp [Benign], h5⟩
        cases u with
        | pull =>
          cases hin : st.inner with
          | some k =>
            obtain ⟨hk0, hkn, hkl⟩ := h3 k hin
            exec 1
            exact ⟨hidle, hoths, Mode.live h1 h2 h3 h4 (hben _)⟩
          | none =>
            cases hout : st.outer with
            | true =>
              have h0 := h2.1 hout
              exec 2
              exact ⟨hidle, hoths, Mode.live h1 h2 h3 h4 (hben _)⟩
            | false =>
              exec 2
              exact ⟨hidle, hoths, Mode.live h1 h2 h3 h4 h5⟩
        | term | err _ =>
          cases hin : st.inner with
          | some k =>
            obtain ⟨hk0, hkn, hkl⟩ := h3 k hin
            exec 1
            refine ⟨idle_setSrc hidle hkn _, sinks_setSink hoths _, Mode.x1 k (by simp) (h2.setSrc hk0 _) ?_ ⟨stk, rfl, h5⟩⟩
            intro i hi; rw [off_setSrc]; split
            · simp
            · exact off_inner hidle h4 i hi (by rw [hin]; simpa using Ne.symm ‹_›)
          | none =>
            have hoff : ∀ i, 0 < i → Off g.ph i := fun i hi => off_inner hidle h4 i hi (by simp [hin])
            cases hout : st.outer with
            | true =>
              have h0 := h2.1 hout
              exec 2
              refine ⟨idle_setSrc hidle hpos _, sinks_setSink hoths _, Mode.fin (by simp) ?_ (hben _)⟩
              intro i; rw [off_setSrc]; split
              · simp
              · exact hoff i (by omega)
            | false =>
              exec 2
              refine ⟨hidle, sinks_setSink hoths _, Mode.fin (by simp) ?_ h5⟩
              intro i
              by_cases hi : i = 0
              · subst hi; exact (h2.2 hout).off
              · exact hoff i (by omega)
      | wgreet j _ _ _ _ _ _ h => noctx h
      | od1 k _ _ _ h => noctx h
      | oe1 k e _ _ h => noctx h
      | ie1 e _ _ h => noctx h
      | _ => simp_all
    | srcGreet i =>
      simp only [legalIn, Bool.and_eq_true, beq_iff_eq, machine, Bool.false_and, Bool.or_false] at hl
      obtain ⟨hsub, hctx⟩ := hl
      cases hm with
      | init h1 h2 h3 h4 h5 h6 =>
        by_cases hi : i = 0
        · subst hi; simp [h2] at hsub
        · simp [hidle i (by omega)] at hsub
      | sub h1 h2 h3 h4 h5 h6 =>
        subst h3
        simp [ctxOf] at hc; subst hc; simp [inSub] at hctx; subst hctx
        exec 2
        refine ⟨fun i hi => by simp [show i ≠ 0 by omega, hidle i (by omega)], sinks_setSink hoths _,
          Mode.live (by simp) ⟨fun _ => by simp, fun h => by simp at h⟩ (fun k h => by simp at h)
            (fun i h1 h2 => by simp at h2; omega) (by simp [Benign])⟩
      | live h1 h2 h3 h4 h5 => exact absurd hsub (live_not_subscribed h2 hidle h3 h4 i)
      | wgreet j h1 h2 h3 h4 h5 h6 h7 =>
        obtain ⟨rest, rfl, hrest⟩ := h7
        simp [ctxOf] at hc; subst hc; simp [inSub] at hctx; subst hctx
        obtain ⟨j, rfl⟩ : ∃ j, i = j + 1 := ⟨i - 1, by omega⟩
        have hidle' : ∀ i, j + 1 + 1 ≤ i → g.ph.srcPh i = .idle := h4 ▸ hidle
        exec 2
        refine ⟨idle_setSrc hidle' (by omega) _, hoths, Mode.live (by simpa using h1) (h2.setSrc (by omega) _)
          (fun k hk => by simp at hk; subst hk; simp) ?_ (by simpa [Benign] using hrest)⟩
        intro i hi hlt hne
        have : i ≠ j + 1 := fun h => hne (by rw [h])
        rw [dead_setSrc, if_neg this]; exact h6 i hi (by simp at hlt; omega)
      | od1 k _ _ _ h => noctx h
      | oe1 k e _ _ h => noctx h
      | ie1 e _ _ h => noctx h
      | x1 k _ _ _ h => noctx h
      | fin _ h _ => exact absurd hsub (h i).2
    | srcDown i d =>
      simp only [legalIn, Bool.and_eq_true, beq_iff_eq, Bool.or_eq_true] at hl
      obtain ⟨hlive, hctx⟩ := hl
      cases hm with
      | init h1 h2 h3 h4 h5 h6 =>
        by_cases hi : i = 0
        · subst hi; simp [h2] at hlive
        · simp [hidle i (by omega)] at hlive
      | sub h1 h2 h3 h4 h5 h6 =>
        by_cases hi : i = 0
        · subst hi; simp [h2] at hlive
        · simp [hidle i (by omega)] at hlive
      | live h1 h2 h3 h4 h5 =>
        have hben : ∀ o, ∀ f ∈ (Frame.wait o Loc.done :: stk : List (Frame (Loc α) α)), Benign f :=
          fun o => List.forall_mem_cons.2 ⟨by simp [Benign], h5⟩
        have hoff : ∀ i, 0 < i → st.inner ≠ some i → Off g.ph i := off_inner hidle h4
        by_cases hi : i = 0
        · subst hi
          have hout : st.outer = true := by
            cases hout : st.outer with
            | true => rfl
            | false => exact absurd hlive (h2.2 hout).off.1
          cases d with
          | data a =>
            cases hin : st.inner with
            | some k =>
              obtain ⟨hk0, hkn, hkl⟩ := h3 k hin
              exec 1
              refine ⟨idle_setSrc hidle hkn _, hoths, Mode.od1 k h1 (h2.setSrc hk0 _) ?_ ⟨stk, rfl, h5⟩⟩
              intro i hi hlt; rw [dead_setSrc]; split
              · simp
              · exact h4 i hi hlt (by rw [hin]; simpa using Ne.symm ‹_›)
            | none =>
              have hnid := hidle st.nextId (Nat.le_refl _)
              have hopen : g.ph.anySinkOpen = true := (Ph.anySinkOpen_iff _).2 ⟨0, Or.inr h1⟩
              rw [hout] at h2
              exec 2
              refine ⟨fun i hi => by simp [show i ≠ st.nextId by omega, hidle i (by omega)], hoths,
                Mode.wgreet st.nextId h1 (h2.setSrc hpos _) hpos rfl (by simp) ?_ ⟨stk, rfl, h5⟩⟩
              intro i hi hlt; rw [dead_setSrc, if_neg (by omega)]; exact h4 i hi hlt (by simp [hin])
          | term =>
            cases hin : st.inner with
            | some k =>
              obtain ⟨hk0, hkn, hkl⟩ := h3 k hin
              exec 2
              refine ⟨idle_setSrc hidle hpos _, hoths, Mode.live (by simpa using h1) ⟨by simp, fun _ => by simp [Dead]⟩ ?_ ?_ h5⟩
              · intro k' hk'; simp at hk'; subst hk'; simp [show k ≠ 0 by omega, *]
              · intro i hi hlt hne; rw [dead_setSrc, if_neg (by omega)]; exact h4 i hi hlt (by simpa [hin] using hne)
            | none =>
              exec 1
              refine ⟨idle_setSrc hidle hpos _, sinks_setSink hoths _, Mode.fin (by simp) ?_ (hben _)⟩
              intro i; rw [off_setSink, off_setSrc]; split
              · simp
              · exact hoff i (by omega) (by simp [hin])
          | err e =>
            cases hin : st.inner with
            | some k =>
              obtain ⟨hk0, hkn, hkl⟩ := h3 k hin
              have hk0' : k ≠ 0 := by omega
              exec 1
              refine ⟨?_, hoths, Mode.oe1 k e (by simpa using h1) ?_ ⟨stk, rfl, h5⟩⟩
              · intro i hi; simp [show i ≠ k by omega, show i ≠ 0 by omega, hidle i hi]
              · intro i; rw [off_setSrc]; split
                · simp
                · rw [off_setSrc]; split
                  · simp
                  · exact hoff i (by omega) (by rw [hin]; simpa using Ne.symm ‹_›)
            | none =>
              exec 2
              refine ⟨idle_setSrc hidle hpos _, sinks_setSink hoths _, Mode.fin (by simp) ?_ (hben _)⟩
              intro i; rw [off_setSink, off_setSrc]; split
              · simp
              · exact hoff i (by omega) (by simp [hin])
        · have hcur : st.inner = some i := by
            by_cases hcur : st.inner = some i
            · exact hcur
            · exact absurd hlive (hoff i (by omega) hcur).1
          obtain ⟨hk0, hkn, hkl⟩ := h3 i hcur
          obtain ⟨j, rfl⟩ : ∃ j, i = j + 1 := ⟨i - 1, by omega⟩
          have hoff' : ∀ i, 0 < i → i ≠ j + 1 → Off g.ph i := fun i hi hne => hoff i hi (by rw [hcur]; simpa using Ne.symm hne)
          cases d with
          | data a =>
            exec 1
            exact ⟨hidle, hoths, Mode.live h1 h2 h3 h4 (hben _)⟩
          | term =>
            cases hout : st.outer with
            | true =>
              have h0 := h2.1 hout
              rw [hout] at h2
              exec 3
              refine ⟨idle_setSrc hidle hkn _, hoths, Mode.live (by simpa using h1) (h2.setSrc hk0 _) (by simp) ?_ (hben _)⟩
              intro i hi hlt _; rw [dead_setSrc]; split
              · simp
              · exact h4 i hi hlt (by rw [hcur]; simpa using Ne.symm ‹_›)
            | false =>
              have h0 := h2.2 hout
              exec 1
              refine ⟨idle_setSrc hidle hkn _, sinks_setSink hoths _, Mode.fin (by simp) ?_ (hben _)⟩
              intro i; rw [off_setSink, off_setSrc]; split
              · simp
              · by_cases hi0 : i = 0
                · subst hi0; exact h0.off
                · exact hoff' i (by omega) ‹_›
          | err e =>
            cases hout : st.outer with
            | true =>
              have h0 := h2.1 hout
              exec 1
              refine ⟨?_, hoths, Mode.ie1 e (by simpa using h1) ?_ ⟨stk, rfl, h5⟩⟩
              · intro i hi; simp [show i ≠ j + 1 by omega, show i ≠ 0 by omega, hidle i hi]
              · intro i; rw [off_setSrc]; split
                · simp
                · rw [off_setSrc]; split
                  · simp
                  · exact hoff' i (by omega) ‹_›
            | false =>
              have h0 := h2.2 hout
              exec 2
              refine ⟨idle_setSrc hidle hkn _, sinks_setSink hoths _, Mode.fin (by simp) ?_ (hben _)⟩
              intro i; rw [off_setSink, off_setSrc]; split
              · simp
              · by_cases hi0 : i = 0
                · subst hi0; exact h0.off
                · exact hoff' i (by omega) ‹_›
      | wgreet j h1 h2 h3 h4 h5 h6 h7 =>
        obtain ⟨rest, rfl, hrest⟩ := h7
        simp [ctxOf] at hc; subst hc; simp [isTop, inSub, inPull] at hctx; subst hctx
        simp [h5] at hlive
      | od1 k _ _ _ h => noctx h
      | oe1 k e _ _ h => noctx h
      | ie1 e _ _ h => noctx h
      | x1 k _ _ _ h => noctx h
      | fin _ h _ => exact absurd hlive (h i).1
  | @ret st stk g tr o l hl =>
    simp only at hp hb hpos hidle hoths hm
    cases hm with
    | init _ _ h => simp at h
    | sub h1 h2 h3 h4 h5 h6 =>
      simp at h3; obtain ⟨⟨rfl, rfl⟩, rfl⟩ := h3
      simp [legalRet, h2, machine] at hl
    | live h1 h2 h3 h4 h5 =>
      have hben := h5 _ (List.mem_cons_self)
      have hrest := (List.forall_mem_cons.1 h5).2
      cases l with
      | done =>
        exec 1
        exact ⟨hidle, hoths, Mode.live h1 h2 h3 h4 hrest⟩
      | _ => simp [Benign] at hben
    | wgreet j h1 h2 h3 h4 h5 h6 h7 =>
      obtain ⟨rest, he, hrest⟩ := h7
      simp at he; obtain ⟨⟨rfl, rfl⟩, rfl⟩ := he
      simp [legalRet, h5, machine] at hl
    | od1 k h1 h2 h3 h4 =>
      obtain ⟨rest, he, hrest⟩ := h4
      simp at he; obtain ⟨⟨rfl, rfl⟩, rfl⟩ := he
      have hnid := hidle st.nextId (Nat.le_refl _)
      have hopen : g.ph.anySinkOpen = true := (Ph.anySinkOpen_iff _).2 ⟨0, Or.inr h1⟩
      exec 1
      refine ⟨fun i hi => by simp [show i ≠ st.nextId by omega, hidle i (by omega)], hoths,
        Mode.wgreet st.nextId h1 (h2.setSrc hpos _) hpos rfl (by simp) ?_ ⟨stk, rfl, hrest⟩⟩
      intro i hi hlt; rw [dead_setSrc, if_neg (by omega)]; exact h3 i hi hlt
    | oe1 k e h1 h2 h3 =>
      obtain ⟨rest, he, hrest⟩ := h3
      simp at he; obtain ⟨⟨rfl, rfl⟩, rfl⟩ := he
      exec 1
      exact ⟨hidle, sinks_setSink hoths _, Mode.fin (by simp) h2 (List.forall_mem_cons.2 ⟨by simp [Benign], hrest⟩)⟩
    | ie1 e h1 h2 h3 =>
      obtain ⟨rest, he, hrest⟩ := h3
      simp at he; obtain ⟨⟨rfl, rfl⟩, rfl⟩ := he
      exec 1
      exact ⟨hidle, sinks_setSink hoths _, Mode.fin (by simp) h2 (List.forall_mem_cons.2 ⟨by simp [Benign], hrest⟩)⟩
    | x1 k h1 h2 h3 h4 =>
      obtain ⟨rest, he, hrest⟩ := h4
      simp at he; obtain ⟨⟨rfl, rfl⟩, rfl⟩ := he
      cases hout : st.outer with
      | true =>
        have h0 := h2.1 hout
        exec 1
        refine ⟨idle_setSrc hidle hpos _, hoths, Mode.fin (Or.inr h1) ?_ (List.forall_mem_cons.2 ⟨by simp [Benign], hrest⟩)⟩
        intro i; rw [off_setSrc]; split
        · simp
        · exact h3 i (by omega)
      | false =>
        have h0 := h2.2 hout
        exec 1
        refine ⟨hidle, hoths, Mode.fin (Or.inr h1) ?_ hrest⟩
        intro i
        by_cases hi0 : i = 0
        · subst hi0; exact h0.off
        · exact h3 i (by omega)
    | fin h1 h2 h3 =>
      have hben := h3 _ (List.mem_cons_self)
      have hrest := (List.forall_mem_cons.1 h3).2
      cases l with
      | done =>
        exec 1
        exact ⟨hidle, hoths, Mode.fin h1 h2 hrest⟩
      | _ => simp [Benign] at hben

/-- flatten: under every conformant environment (re-entrant sink, synchronous or deferred outer and inner sources), the
operator never violates the sink- or source-side protocol and never panics. -/
theorem flatten_basicSafe {α : Type} : ∀ s, SReach (machine α) s → BasicSafe s :=
  basicSafe_of_macro_inv (machine α) Inv inv_init inv_turn inv_step

end Cb.Flatten

#print axioms Cb.Flatten.flatten_basicSafe
