import CallbagModel.Inv.Ghost2
import CallbagModel.Inv.Concat
/-!
# concat: the FULL safety invariant (both ghost layers: C01–C05, C17), every member count `n ≥ 1`

`Mode`, `Quiet` and the lemmas about them are those of `Inv/Concat.lean`.  New in the invariant: `XOk s.g` and
`sinkErr = none` unless the sink has disposed.  Case analysis and step counts are those of `Concat.inv_step`.

* relay (C04): `u1 u` hands the sink's `Terminate` / `Error(e)` to the current member only; at `u1 (err e)` the ghost has
  just recorded `sinkErr = some (e, height)`; at `u1 term` the sink was live, hence `sinkErr = none`.
* orphans (C04): when the sink disposes, the current member is disposed and it was the only live one; when the output
  completes every member has ended.
* C05: an upstream `Error(e)` comes from the current member, the only live upstream; `fwd (err e)` hands it to sink 0
  (the only sink) in one step.
-/
namespace Cb.ConcatFull
open Cb Cb.Concat

variable {α : Type}

def Inv (n : Nat) (s : Sys St (Loc α) α α) : Prop :=
  s.panicked = none ∧ s.g.ph.viols = [] ∧ (∀ k, k ≠ 0 → s.g.ph.sinkPh k = .idle) ∧ Mode n s.st s.g.ph s.stack ∧
  XOk s.g ∧ (s.g.ph.sinkPh 0 ≠ .doneBySelf → s.g.sinkErr = none)

theorem inv_turn (n : Nat) (s : Sys St (Loc α) α α) (h : Inv n s) : EnvTurn s ∧ Safe s := by
  obtain ⟨hp, hb, hos, hm, hx, hse⟩ := h
  have := (Concat.inv_turn n s ⟨hp, hb, hos, hm⟩).1
  exact ⟨this, by simp [G.viols, hb, hx.clean], hp⟩

macro "exec" n:num : tactic =>
  `(tactic| (refine ⟨$n, ?_⟩; simp [advance, opStep, machine, enter, step, Ph.onIn, Ph.onOut, Inv, isFinal, onIn_srcErr, *]))

/-- side goals about fields of a structure literal, whichever way `simp` has normalised it -/
macro "fld" : tactic => `(tactic| first | rfl | assumption | exact Or.inl rfl | exact Or.inr rfl | simp)

/-- no sink is `doneBySrc` while sink 0 is not -/
theorem noDone_of {g : Ph} (hoths : ∀ k, k ≠ 0 → g.sinkPh k = .idle) (h0 : g.sinkPh 0 ≠ .doneBySrc) :
    ∀ k, g.sinkPh k ≠ .doneBySrc := by
  intro k; by_cases hk : k = 0
  · subst hk; exact h0
  · rw [hoths k hk]; decide

/-- the second layer is untouched while some upstream is live -/
theorem xok_live {g g' : G} (hx : XOk g) (i : Nat) (h2 : g.ph.srcPh i = .live) (hfin : g'.fin = g.fin)
    (hpend : g'.pend = g.pend ∨ g'.pend = none) (hxv : g'.xviols = g.xviols) (ho : NoOrphan g'.ph) : XOk g' :=
  hx.of_fields hfin hpend hxv (Or.inl (hx.pend_none_of_live i h2)) ho

theorem inv_step (n : Nat) (hn : 0 < n) (s s' : Sys St (Loc α) α α) (m : Move α) (h : Inv n s)
    (hs : EnvStep (machine α n) m s s') : ∃ c, Inv n (advance (machine α n) c s') := by
  obtain ⟨hp, hb, hoths, hm, hx, hse⟩ := h
  cases hs with
  | @call st stk g tr c i hc hl =>
    simp only at hp hb hoths hm hx hse
    obtain ⟨si, sl, gp⟩ := st
    cases i with
    | subscribe k =>
      simp only [legalIn, Bool.and_eq_true, beq_iff_eq, machine, Bool.or_false] at hl
      obtain ⟨⟨hc', hidle⟩, rfl⟩ := hl
      cases hm with
      | idle h1 h2 h3 h4 =>
        subst h3 h4
        have hopen : (g.ph.setSink 0 .subscribed).anySinkOpen = true := (Ph.anySinkOpen_iff _).2 ⟨0, by simp⟩
        have hn' : ¬ (0 = n) := by omega
        have hpn : g.pend = none := hx.pend_none_of_noDone (noDone_of hoths (by rw [h1]; decide))
        have hse' : g.sinkErr = none := hse (by rw [h1]; decide)
        exec 1
        refine ⟨fun k hk => by simp [hk, hoths k hk], Mode.waiting hn (by simp) (by simp)
          (fun j hj => by have : j ≠ 0 := by simp at hj; omega
                          simp [this, h2]) (by simp) (by simp) ⟨[], rfl, by simp⟩, ?_⟩
        exact hx.of_fields (by fld) (by fld) (by fld) (Or.inl hpn) (noOrphan_of_open 0 (by simp))
      | waiting h1 h2 h3 h4 h5 h6 h7 =>
        by_cases h0 : si = 0
        · simp [h5 h0] at hidle
        · simp [h6 h0] at hidle
      | live h1 h2 h3 h4 h5 h6 h7 => simp [h3] at hidle
      | over h1 h2 h3 => rcases h1 with h1 | h1 <;> simp [h1] at hidle
    | sinkUp k u =>
      simp only [legalIn, Bool.and_eq_true, beq_iff_eq, Bool.or_eq_true] at hl
      obtain ⟨hlive, hctx⟩ := hl
      have hk : k = 0 := by
        by_cases hk : k = 0
        · exact hk
        · rw [hoths k hk] at hlive; cases hlive
      subst hk
      have hse' : g.sinkErr = none := hse (by rw [hlive]; decide)
      cases hm with
      | idle h1 h2 h3 h4 => simp [h1] at hlive
      | waiting h1 h2 h3 h4 h5 h6 h7 =>
        obtain ⟨rest, rfl, _⟩ := h7
        simp [ctxOf] at hc; subst hc; simp [isTop, inGreet, inData] at hctx
      | live h1 h2 h3 h4 h5 h6 h7 =>
        simp only at h1 h2 h4 h5 h6
        subst h2
        have hpn := hx.pend_none_of_live si h4
        cases u with
        | pull =>
          exec 2
          refine ⟨hoths, Mode.live h1 rfl h3 h4 h5 h6 (quiet_cons h7), ?_⟩
          exact xok_live hx si h4 (by fld) (by fld) (by fld) (noOrphan_of_open 0 (Or.inr h3))
        | term =>
          have hnl : ∀ j, (g.ph.setSrc si .disposed).srcPh j ≠ .live ∧ (g.ph.setSrc si .disposed).srcPh j ≠ .subscribed := by
            intro j
            by_cases hj : j = si
            · simp [hj]
            · rcases Nat.lt_or_gt_of_ne hj with hj' | hj'
              · simp [hj, h5 j hj']
              · simp [hj, h6 j hj']
          exec 1
          refine ⟨fun k hk => by simp [hk, hoths k hk], Mode.over (by simp) (by simpa using hnl) (quiet_cons h7), ?_⟩
          exact hx.of_fields (by fld) (by fld) (by fld) (Or.inl hpn) (noOrphan_of_noLive (fun j => by simpa using (hnl j).1))
        | err e =>
          have hnl : ∀ j, (g.ph.setSrc si .disposed).srcPh j ≠ .live ∧ (g.ph.setSrc si .disposed).srcPh j ≠ .subscribed := by
            intro j
            by_cases hj : j = si
            · simp [hj]
            · rcases Nat.lt_or_gt_of_ne hj with hj' | hj'
              · simp [hj, h5 j hj']
              · simp [hj, h6 j hj']
          exec 1
          refine ⟨fun k hk => by simp [hk, hoths k hk], Mode.over (by simp) (by simpa using hnl) (quiet_cons h7), ?_⟩
          exact hx.of_fields (by fld) (by fld) (by fld) (Or.inl hpn) (noOrphan_of_noLive (fun j => by simpa using (hnl j).1))
      | over h1 h2 h3 => rcases h1 with h1 | h1 <;> simp [h1] at hlive
    | srcGreet j =>
      simp only [legalIn, Bool.and_eq_true, beq_iff_eq, machine, Bool.false_and, Bool.or_false] at hl
      obtain ⟨hsub, hin⟩ := hl
      cases hm with
      | idle h1 h2 h3 h4 => simp [h2 j] at hsub
      | waiting h1 h2 h3 h4 h5 h6 h7 =>
        simp only at h1 h2 h3 h4 h5 h6 h7
        have hj : j = si := by
          by_cases hj : j = si
          · exact hj
          · rcases Nat.lt_or_gt_of_ne hj with hj' | hj'
            · simp [h3 j hj'] at hsub
            · simp [h4 j hj'] at hsub
        subst hj
        obtain ⟨rest, rfl, hrest⟩ := h7
        have hq := quiet_cons (o := Out.subSrc j) hrest
        by_cases h0 : j = 0
        · subst h0
          have hs0 := h5 rfl
          have hpn : g.pend = none := hx.pend_none_of_noDone (noDone_of hoths (by rw [hs0]; decide))
          have hse' : g.sinkErr = none := hse (by rw [hs0]; decide)
          exec 2
          refine ⟨fun k hk => by simp [hk, hoths k hk], Mode.live h1 rfl (by simp) (by simp) (by simp) ?_ (quiet_cons hq), ?_⟩
          · intro j hj
            have : j ≠ 0 := by omega
            simp [this, h4 j hj]
          · exact hx.of_fields (by fld) (by fld) (by fld) (Or.inl hpn) (noOrphan_of_open 0 (by simp))
        · have hs0 := h6 h0
          have hpn : g.pend = none := hx.pend_none_of_noDone (noDone_of hoths (by rw [hs0]; decide))
          have hse' : g.sinkErr = none := hse (by rw [hs0]; decide)
          cases gp with
          | false =>
            exec 3
            refine ⟨hoths, Mode.live h1 rfl (by simpa using hs0) (by simp) ?_ ?_ hq, ?_, ?_⟩
            · intro i hi
              dsimp only at hi
              have : i ≠ j := by omega
              simp [this, h3 i hi]
            · intro i hi
              dsimp only at hi
              have : i ≠ j := by omega
              simp [this, h4 i hi]
            · apply XOk.onRetO
              exact hx.of_fields (by fld) (by fld) (by fld) (Or.inl hpn) (noOrphan_of_open 0 (Or.inr (by simpa using hs0)))
            · apply onRetO_sinkErr_none
              · exact hx.of_fields (by fld) (by fld) (by fld) (Or.inl hpn) (noOrphan_of_open 0 (Or.inr (by simpa using hs0)))
              · fld
          | true =>
            exec 4
            refine ⟨hoths, Mode.live h1 rfl (by simpa using hs0) (by simp) ?_ ?_ (quiet_cons hq), ?_⟩
            · intro i hi
              dsimp only at hi
              have : i ≠ j := by omega
              simp [this, h3 i hi]
            · intro i hi
              dsimp only at hi
              have : i ≠ j := by omega
              simp [this, h4 i hi]
            · exact hx.of_fields (by fld) (by fld) (by fld) (Or.inl hpn) (noOrphan_of_open 0 (Or.inr (by simpa using hs0)))
      | live h1 h2 h3 h4 h5 h6 h7 =>
        simp only at h1 h2 h4 h5 h6
        by_cases hj : j = si
        · subst hj; simp [h4] at hsub
        · rcases Nat.lt_or_gt_of_ne hj with hj' | hj'
          · simp [h5 j hj'] at hsub
          · simp [h6 j hj'] at hsub
      | over h1 h2 h3 => exact absurd hsub (h2 j).2
    | srcDown j d =>
      simp only [legalIn, Bool.and_eq_true, beq_iff_eq, Bool.or_eq_true] at hl
      obtain ⟨hlive, hctx⟩ := hl
      cases hm with
      | idle h1 h2 h3 h4 => simp [h2 j] at hlive
      | waiting h1 h2 h3 h4 h5 h6 h7 =>
        simp only at h1 h2 h3 h4 h5 h6 h7
        by_cases hj : j = si
        · subst hj; simp [h2] at hlive
        · rcases Nat.lt_or_gt_of_ne hj with hj' | hj'
          · simp [h3 j hj'] at hlive
          · simp [h4 j hj'] at hlive
      | live h1 h2 h3 h4 h5 h6 h7 =>
        simp only at h1 h2 h4 h5 h6
        subst h2
        have hj : j = si := by
          by_cases hj : j = si
          · exact hj
          · rcases Nat.lt_or_gt_of_ne hj with hj' | hj'
            · simp [h5 j hj'] at hlive
            · simp [h6 j hj'] at hlive
        subst hj
        have hpn := hx.pend_none_of_live j h4
        have hse' : g.sinkErr = none := hse (by rw [h3]; decide)
        have hnolive : ∀ p : SrcPh, p ≠ .live → p ≠ .subscribed →
            ∀ i, (g.ph.setSrc j p).srcPh i ≠ .live ∧ (g.ph.setSrc j p).srcPh i ≠ .subscribed := by
          intro p hp1 hp2 i
          by_cases hi : i = j
          · simp [hi, hp1, hp2]
          · rcases Nat.lt_or_gt_of_ne hi with hi' | hi'
            · simp [hi, h5 i hi']
            · simp [hi, h6 i hi']
        cases d with
        | data a =>
          exec 1
          refine ⟨hoths, Mode.live h1 rfl h3 h4 h5 h6 (quiet_cons h7), ?_⟩
          exact xok_live hx j h4 (by fld) (by fld) (by fld) (noOrphan_of_open 0 (Or.inr h3))
        | err e =>
          have hlv : (livesOf g.ph).isEmpty = false := by
            cases hl : livesOf g.ph with
            | nil => exact absurd hl (livesOf_ne_nil 0 h3)
            | cons _ _ => rfl
          exec 1
          refine ⟨fun k hk => by simp [hk, hoths k hk], Mode.over (by simp) (hnolive _ (by simp) (by simp)) (quiet_cons h7), ?_⟩
          refine hx.of_err e stk.length (livesOf g.ph) (livesOf_ne_nil 0 h3) rfl rfl ?_ (fun i => (hnolive .ended (by simp) (by simp) i).1)
          intro k hk
          have hk0 : k = 0 := by
            by_cases hk0 : k = 0
            · exact hk0
            · have := (mem_livesOf g.ph k).1 hk; rw [hoths k hk0] at this; cases this
          subst hk0; simp [G.finOf, phAt_setAt]
        | term =>
          by_cases hlast : j + 1 = n
          · exec 2
            refine ⟨fun k hk => by simp [hk, hoths k hk], Mode.over (by simp) (hnolive _ (by simp) (by simp)) (quiet_cons h7), ?_⟩
            exact hx.of_noPend hpn (by fld) (by fld) (noOrphan_of_noLive (fun i => (hnolive .ended (by simp) (by simp) i).1))
          · have hopen : (g.ph.setSrc j .ended).anySinkOpen = true := (Ph.anySinkOpen_iff _).2 ⟨0, by simp [h3]⟩
            have hidle := h6 (j + 1) (by omega)
            exec 2
            refine ⟨hoths, Mode.waiting (by simp; omega) (by simp) ?_ ?_ (by simp) (by simp [h3]) ⟨_, rfl, h7⟩, ?_⟩
            · intro i hi
              simp at hi
              by_cases hij : i = j
              · simp [hij]
              · have : i < j := by omega
                have hij' : i ≠ j + 1 := by omega
                simp [hij, hij', h5 i this]
            · intro i hi
              simp at hi
              have : i ≠ j := by omega
              have : i ≠ j + 1 := by omega
              simp [*, h6 i (by omega)]
            · exact hx.of_fields (by fld) (by fld) (by fld) (Or.inl hpn) (noOrphan_of_open 0 (Or.inr (by simpa using h3)))
      | over h1 h2 h3 => exact absurd hlive (h2 j).1
  | @ret st stk g tr o l hl =>
    simp only at hp hb hoths hm hx hse
    have hdone : ∀ (_ : ∀ f ∈ (Frame.wait o l : Frame (Loc α) α) :: stk, Quiet f),
        l = .done ∧ ∀ f ∈ stk, Quiet f := by
      intro h
      have h1 := (List.forall_mem_cons.1 h).1
      refine ⟨?_, (List.forall_mem_cons.1 h).2⟩
      cases l <;> simp [Quiet] at h1 ⊢
    -- every continuation just returns
    have quiet_inv : ∀ (_ : Mode n st g.ph stk),
        Inv n (advance (machine α n) 1 ⟨st, .run .done :: stk, g, .retE :: tr, none⟩) := by
      intro hm'
      have : advance (machine α n) 1 ⟨st, .run .done :: stk, g, .retE :: tr, none⟩ =
          ⟨st, stk, g.onRetO stk.length, .retO :: .retE :: tr, none⟩ := by
        simp [advance, opStep, machine, step]
      rw [this]
      refine ⟨rfl, by simpa using hb, by simpa using hoths, by simpa using hm', hx.onRetO _, ?_⟩
      intro hne
      exact onRetO_sinkErr_none hx (hse (by simpa using hne)) _
    cases hm with
    | idle _ _ _ h => simp at h
    | waiting h1 h2 h3 h4 h5 h6 h7 =>
      obtain ⟨rest, he, _⟩ := h7
      simp at he; obtain ⟨⟨rfl, rfl⟩, rfl⟩ := he
      simp [legalRet, h2, machine] at hl
    | live h1 h2 h3 h4 h5 h6 h7 =>
      obtain ⟨rfl, hq⟩ := hdone h7
      exact ⟨1, quiet_inv (Mode.live h1 h2 h3 h4 h5 h6 hq)⟩
    | over h1 h2 h3 =>
      obtain ⟨rfl, hq⟩ := hdone h3
      exact ⟨1, quiet_inv (Mode.over h1 h2 hq)⟩

theorem inv_init (n : Nat) : Inv n (Sys.init (machine α n)) := by
  obtain ⟨h1, h2, h3, h4⟩ := Concat.inv_init (α := α) n
  exact ⟨h1, h2, h3, h4, ⟨rfl, (by intro e h ks hp; cases hp), noOrphan_of_noLive (by intro i; simp [Sys.init])⟩, fun _ => rfl⟩

/-- concat: for every member count `n ≥ 1`, under every conformant environment the operator never violates any clause of
C01–C05 and never panics. -/
theorem concat_safe {α : Type} (n : Nat) (hn : 0 < n) : ∀ s, SReach (machine α n) s → Safe s :=
  safe_of_macro_inv (machine α n) (Inv n) (inv_init n) (inv_turn n) (inv_step n hn)

end Cb.ConcatFull

#print axioms Cb.ConcatFull.concat_safe
