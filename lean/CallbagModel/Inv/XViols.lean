import CallbagModel.Inv.Ghost
/-!
# The second ghost layer only ever records violations of C04 and C05

Hence `BasicSafe` (no phase-level violation, no panic) already decides C01, C02, C03 and C17.
-/
namespace Cb
variable {St Loc α β : Type}

def XOnly (g : G) : Prop := ∀ v ∈ g.xviols, v.prop = 4 ∨ v.prop = 5

theorem xonly_flagAll (g : G) (vs : List Viol) (hg : XOnly g) (hv : ∀ v ∈ vs, v.prop = 4 ∨ v.prop = 5) : XOnly (g.flagAll vs) := by
  intro v h
  simp only [G.flagAll, List.mem_append, List.mem_reverse] at h
  rcases h with h | h
  · exact hv v h
  · exact hg v h

theorem xonly_onOut (sh : Shape) (g : G) (o : Out β) (hg : XOnly g) : XOnly (g.onOut sh o) := by
  unfold G.onOut
  cases o with
  | down k d => simp only; split; split <;> exact hg; exact hg
  | srcUp i u =>
    cases u with
    | pull => exact hg
    | term =>
      simp only; split
      · exact xonly_flagAll _ _ hg (by simp [Viol.prop])
      · exact hg
    | err e =>
      simp only; split
      · split
        · exact xonly_flagAll _ _ hg (by simp [Viol.prop])
        · exact hg
      · exact hg
  | _ => exact hg

theorem xonly_onIn (g : G) (h : Nat) (i : In α) (hg : XOnly g) : XOnly (g.onIn h i) := by
  unfold G.onIn
  cases i with
  | sinkUp k u => cases u <;> exact hg
  | srcDown j d =>
    cases d with
    | err e => simp only; split <;> exact hg
    | _ => exact hg
  | _ => exact hg

theorem xonly_onRetO (g : G) (h : Nat) (hg : XOnly g) : XOnly (g.onRetO h) := by
  have h0 : XOnly (g.clearSinkErr h) := by
    unfold G.clearSinkErr; split
    · split <;> exact hg
    · exact hg
  have h1 : ∀ g' : G, XOnly g' → XOnly (g'.checkPend h) := by
    intro g' hg'; unfold G.checkPend; split
    · split
      · apply xonly_flagAll _ _ hg'
        intro v hv
        simp only [List.mem_append, List.mem_map] at hv
        rcases hv with ⟨_, _, rfl⟩ | ⟨_, _, rfl⟩ <;> simp [Viol.prop]
      · exact hg'
    · exact hg'
  have h2 : ∀ g' : G, XOnly g' → XOnly (g'.checkOrphans h) := by
    intro g' hg'; unfold G.checkOrphans; split
    · apply xonly_flagAll _ _ hg'
      intro v hv
      simp only [List.mem_map] at hv
      obtain ⟨_, _, rfl⟩ := hv; simp [Viol.prop]
    · exact hg'
  exact h2 _ (h1 _ h0)

theorem xonly_of_reach (M : Machine St Loc α β) : ∀ s, SReach M s → XOnly s.g := by
  show ∀ s, SReachR M anyEnv s → XOnly s.g
  intro s hs
  induction hs with
  | init => intro v hv; simp [Sys.init] at hv
  | @step a b _ hab ih =>
    cases hab with
    | env h _ =>
      cases h with
      | call i hc hl => exact xonly_onIn _ _ _ ih
      | ret hl => exact ih
    | op h =>
      unfold opStep at h
      split at h
      · cases h
      · split at h
        · split at h
          all_goals (simp only [Option.some.injEq] at h; subst h)
          · exact ih
          · exact xonly_onOut _ _ _ ih
          · exact xonly_onRetO _ _ ih
          · exact ih
        · cases h

/-- C01, C02, C03 and C17 are decided by the phase layer alone. -/
theorem safeFor_of_basicSafe (M : Machine St Loc α β) (s : Sys St Loc α β) (hr : SReach M s) (hb : BasicSafe s)
    (p : Nat) (hp : p ≠ 4 ∧ p ≠ 5) : SafeFor p s := by
  refine ⟨?_, fun _ => hb.2⟩
  intro v hv
  unfold G.viols at hv
  rw [hb.1, List.append_nil] at hv
  rcases xonly_of_reach M s hr v hv with h | h <;> omega

end Cb

namespace Cb
variable {St Loc α β : Type}

/-- If the only phase-level violations are messages to upstreams that are not live (C04), then C01, C02, C03 and C17 hold. -/
theorem safeFor_of_onlyUpNotLive (M : Machine St Loc α β) (s : Sys St Loc α β) (hr : SReach M s)
    (hv : ∀ v ∈ s.g.ph.viols, ∃ i p, v = Viol.upNotLive i p) (hpn : s.panicked = none)
    (p : Nat) (hp : p ≠ 4 ∧ p ≠ 5) : SafeFor p s := by
  refine ⟨?_, fun _ => hpn⟩
  intro v hv'
  unfold G.viols at hv'
  rcases List.mem_append.1 hv' with h | h
  · rcases xonly_of_reach M s hr v h with h | h <;> omega
  · obtain ⟨i, q, rfl⟩ := hv v h
    simp [Viol.prop]; omega

end Cb

namespace Cb
variable {St Loc α β : Type}

/-- If the only phase-level violations are deliveries to sinks that are already done (C02, C03), then C01 and C17 hold. -/
theorem safeFor_of_onlyLateDelivery (M : Machine St Loc α β) (s : Sys St Loc α β) (hr : SReach M s)
    (hv : ∀ v ∈ s.g.ph.viols, (∃ k, v = Viol.afterTerm k) ∨ (∃ k, v = Viol.afterDispose k)) (hpn : s.panicked = none)
    (p : Nat) (hp : p = 1 ∨ p = 17) : SafeFor p s := by
  refine ⟨?_, fun _ => hpn⟩
  intro v hv'
  unfold G.viols at hv'
  rcases List.mem_append.1 hv' with h | h
  · rcases xonly_of_reach M s hr v h with h | h <;> omega
  · rcases hv v h with ⟨k, rfl⟩ | ⟨k, rfl⟩ <;> simp [Viol.prop] <;> omega

end Cb
