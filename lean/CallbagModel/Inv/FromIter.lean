import CallbagModel.Inv.Ghost
import CallbagModel.Ops.FromIter
/-!
# from_iter: the phase-level safety invariant

Stated at environment turns only.  `completed = true ↔ sink is doneBySelf`, `resDone = true ↔ sink is doneBySrc`,
`inLoop = true ↔` exactly one loop frame (`wait (down 0 (data _)) w0` / `wait (down 0 term) lend`) is on top of the
stack; everything below it is a tail frame `wait _ done`.  Nested pulls (from inside a data handler) only set `gotPull`;
the waiting loop frame re-reads `gotPull` and `completed` when it resumes.
-/
namespace Cb.FromIter
open Cb

variable {ι α α' : Type}

/-- only tail continuations (`wait _ done`) -/
def Tail (stk : List (Frame Loc α)) : Prop := ∀ f ∈ stk, ∃ o, f = Frame.wait o Loc.done

inductive Mode (st : St ι α) (g : Ph) (stk : List (Frame Loc α)) : Prop where
  | idle : g.sinkPh 0 = .idle → stk = [] → st.inLoop = false → st.gotPull = false → st.completed = false →
      st.resDone = false → st.res = none → Mode st g stk
  | live0 : g.sinkPh 0 = .live → st.completed = false → st.resDone = false → st.res = none → st.inLoop = false →
      Tail stk → Mode st g stk
  | live1 : g.sinkPh 0 = .live → st.completed = false → st.resDone = false → st.res = none → st.inLoop = true →
      (∃ a rest, stk = .wait (.down 0 (.data a)) .w0 :: rest ∧ Tail rest) → Mode st g stk
  | self0 : g.sinkPh 0 = .doneBySelf → st.completed = true → st.resDone = false → st.inLoop = false →
      Tail stk → Mode st g stk
  | self1 : g.sinkPh 0 = .doneBySelf → st.completed = true → st.resDone = false → st.inLoop = true →
      (∃ a rest, stk = .wait (.down 0 (.data a)) .w0 :: rest ∧ Tail rest) → Mode st g stk
  | src0 : g.sinkPh 0 = .doneBySrc → st.completed = false → st.resDone = true → st.inLoop = false →
      Tail stk → Mode st g stk
  | src1 : g.sinkPh 0 = .doneBySrc → st.completed = false → st.resDone = true → st.inLoop = true →
      (∃ rest, stk = .wait (.down 0 .term) .lend :: rest ∧ Tail rest) → Mode st g stk

def Inv (s : Sys (St ι α) Loc α' α) : Prop :=
  s.panicked = none ∧ s.g.ph.viols = [] ∧
  (∀ i, s.g.ph.srcPh i = .idle) ∧ (∀ k, k ≠ 0 → s.g.ph.sinkPh k = .idle) ∧
  Mode s.st s.g.ph s.stack

theorem ctx_isSome_of_tail {stk : List (Frame Loc α)} (h : Tail stk) : (ctxOf stk).isSome := by
  cases stk with
  | nil => simp [ctxOf]
  | cons f r =>
    obtain ⟨o, rfl⟩ := h f (by simp)
    simp [ctxOf]

theorem tail_cons {o : Out α} {stk : List (Frame Loc α)} (h : Tail stk) : Tail (.wait o .done :: stk) :=
  List.forall_mem_cons.2 ⟨⟨o, rfl⟩, h⟩

theorem tail_of_cons {f : Frame Loc α} {stk : List (Frame Loc α)} (h : Tail (f :: stk)) : Tail stk :=
  (List.forall_mem_cons.1 h).2

theorem inv_turn (s : Sys (St ι α) Loc α' α) (h : Inv s) : EnvTurn s ∧ BasicSafe s := by
  obtain ⟨hp, hb, _, _, hm⟩ := h
  refine ⟨⟨hp, ?_⟩, hb, hp⟩
  cases hm with
  | idle _ h => simp [h, ctxOf]
  | live0 _ _ _ _ _ h => exact ctx_isSome_of_tail h
  | live1 _ _ _ _ _ h => obtain ⟨a, r, h, _⟩ := h; simp [h, ctxOf]
  | self0 _ _ _ _ h => exact ctx_isSome_of_tail h
  | self1 _ _ _ _ h => obtain ⟨a, r, h, _⟩ := h; simp [h, ctxOf]
  | src0 _ _ _ _ h => exact ctx_isSome_of_tail h
  | src1 _ _ _ _ h => obtain ⟨r, h, _⟩ := h; simp [h, ctxOf]

macro "fld" : tactic => `(tactic| first | rfl | assumption | simp [*])

macro "exec" n:num : tactic =>
  `(tactic| (refine ⟨$n, ?_⟩; simp [advance, opStep, machine, enter, step, Ph.onIn, Ph.onOut, Inv, isFinal, *]))

theorem inv_step (next : ι → Option (α × ι)) (it0 : ι) (s s' : Sys (St ι α) Loc α' α) (m : Move α') (h : Inv s)
    (hs : EnvStep (machine α' next it0) m s s') : ∃ n, Inv (advance (machine α' next it0) n s') := by
  obtain ⟨hp, hb, hsrc, hoths, hm⟩ := h
  cases hs with
  | @call st stk g tr c i hc hl =>
    simp only at hp hb hsrc hoths hm
    cases i with
    | subscribe k =>
      simp only [legalIn, Bool.and_eq_true, beq_iff_eq, machine, Bool.or_false] at hl
      obtain ⟨⟨hc', hidle⟩, rfl⟩ := hl
      cases hm <;> simp_all
      exec 1
      refine ⟨fun k hk => by simp [hk, hoths k hk], Mode.live0 (by simp) ‹_› ‹_› ‹_› ‹_› ?_⟩
      exact tail_cons (fun _ h => by cases h)
    | sinkUp k u =>
      simp only [legalIn, Bool.and_eq_true, beq_iff_eq, Bool.or_eq_true] at hl
      obtain ⟨hlive, hctx⟩ := hl
      have hk : k = 0 := by
        by_cases hk : k = 0
        · exact hk
        · rw [hoths k hk] at hlive; cases hlive
      subst hk
      cases hm with
      | live0 h1 h2 h3 h4 h5 h6 =>
        cases u with
        | pull =>
          cases hn : next st.it with
          | none =>
            exec 10
            exact ⟨fun k hk => by simp [hk, hoths k hk], Mode.src1 (by simp) (by fld) (by fld) (by fld) ⟨stk, rfl, h6⟩⟩
          | some p =>
            obtain ⟨a, it'⟩ := p
            exec 10
            exact ⟨hoths, Mode.live1 h1 (by fld) (by fld) (by fld) (by fld) ⟨a, stk, rfl, h6⟩⟩
        | term =>
          exec 3
          exact ⟨fun k hk => by simp [hk, hoths k hk], Mode.self0 (by simp) (by fld) (by fld) (by fld) h6⟩
        | err e =>
          exec 3
          exact ⟨fun k hk => by simp [hk, hoths k hk], Mode.self0 (by simp) (by fld) (by fld) (by fld) h6⟩
      | live1 h1 h2 h3 h4 h5 h6 =>
        cases u with
        | pull =>
          exec 3
          exact ⟨hoths, Mode.live1 h1 (by fld) (by fld) (by fld) (by fld) h6⟩
        | term =>
          exec 3
          exact ⟨fun k hk => by simp [hk, hoths k hk], Mode.self1 (by simp) (by fld) (by fld) (by fld) h6⟩
        | err e =>
          exec 3
          exact ⟨fun k hk => by simp [hk, hoths k hk], Mode.self1 (by simp) (by fld) (by fld) (by fld) h6⟩
      | _ => simp_all
    | srcGreet i =>
      simp only [legalIn, Bool.and_eq_true, beq_iff_eq, Bool.or_eq_true] at hl
      simp [hsrc i] at hl
    | srcDown i d =>
      simp only [legalIn, Bool.and_eq_true, beq_iff_eq, Bool.or_eq_true] at hl
      simp [hsrc i] at hl
  | @ret st stk g tr o l hl =>
    simp only at hp hb hsrc hoths hm
    -- resuming a tail continuation: one step, nothing changes
    have resume_tail : Tail (Frame.wait o l :: stk) → Mode st g.ph stk → ∃ n, Inv (advance (machine α' next it0) n ⟨st, .run l :: stk, g, .retE :: tr, none⟩) := by
      intro ht hmode
      obtain ⟨o', he⟩ := ht _ List.mem_cons_self
      simp at he; obtain ⟨rfl, rfl⟩ := he
      exec 1
      exact hoths
    cases hm with
    | idle _ h => simp at h
    | live0 h1 h2 h3 h4 h5 h6 => exact resume_tail h6 (Mode.live0 h1 h2 h3 h4 h5 (tail_of_cons h6))
    | self0 h1 h2 h3 h4 h6 => exact resume_tail h6 (Mode.self0 h1 h2 h3 h4 (tail_of_cons h6))
    | src0 h1 h2 h3 h4 h6 => exact resume_tail h6 (Mode.src0 h1 h2 h3 h4 (tail_of_cons h6))
    | live1 h1 h2 h3 h4 h5 h6 =>
      obtain ⟨a, rest, he, hrest⟩ := h6
      simp at he; obtain ⟨⟨rfl, rfl⟩, rfl⟩ := he
      cases hgp : st.gotPull with
      | false =>
        exec 3
        exact ⟨hoths, Mode.live0 h1 (by fld) (by fld) (by fld) (by fld) hrest⟩
      | true =>
        cases hn : next st.it with
        | none =>
          exec 5
          exact ⟨fun k hk => by simp [hk, hoths k hk], Mode.src1 (by simp) (by fld) (by fld) (by fld) ⟨stk, rfl, hrest⟩⟩
        | some p =>
          obtain ⟨b, it'⟩ := p
          exec 5
          exact ⟨hoths, Mode.live1 h1 (by fld) (by fld) (by fld) (by fld) ⟨b, stk, rfl, hrest⟩⟩
    | self1 h1 h2 h3 h4 h6 =>
      obtain ⟨a, rest, he, hrest⟩ := h6
      simp at he; obtain ⟨⟨rfl, rfl⟩, rfl⟩ := he
      cases hgp : st.gotPull with
      | false =>
        exec 3
        exact ⟨hoths, Mode.self0 h1 (by fld) (by fld) (by fld) hrest⟩
      | true =>
        exec 4
        exact ⟨hoths, Mode.self0 h1 (by fld) (by fld) (by fld) hrest⟩
    | src1 h1 h2 h3 h4 h6 =>
      obtain ⟨rest, he, hrest⟩ := h6
      simp at he; obtain ⟨⟨rfl, rfl⟩, rfl⟩ := he
      exec 2
      exact ⟨hoths, Mode.src0 h1 (by fld) (by fld) (by fld) hrest⟩

theorem inv_init (next : ι → Option (α × ι)) (it0 : ι) : Inv (Sys.init (machine α' next it0)) :=
  ⟨rfl, rfl, fun _ => by simp [Sys.init], fun _ _ => by simp [Sys.init],
    Mode.idle (by simp [Sys.init]) rfl rfl rfl rfl rfl rfl⟩

/-- from_iter: under every conformant environment (a sink that may Pull / Terminate / Error from inside its greeting,
from inside any data handler, or at top level), the source never violates the sink-side protocol and never panics. -/
theorem fromIter_basicSafe {ι α α' : Type} (next : ι → Option (α × ι)) (it0 : ι) :
    ∀ s, SReach (machine α' next it0) s → BasicSafe s :=
  basicSafe_of_macro_inv (machine α' next it0) Inv (inv_init next it0) inv_turn (inv_step next it0)

end Cb.FromIter

#print axioms Cb.FromIter.fromIter_basicSafe
