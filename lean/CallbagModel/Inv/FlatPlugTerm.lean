import CallbagModel.Inv.ComposeTerm
import CallbagModel.Ops.FlatPlug
/-!
# Termination: potentials for `flatten` and for the network `flatPlug Mo Mi initOf`

`Flatten.pot`: flatten's handlers are loop-free.  The costs of its calls depend on the upstream: index 0 is the outer source (`cO`),
the indices `≥ 1` are the inner sources (`cI`) — where the program text leaves the index open (`inner_talkback`) the maximum is charged.

`Pot.flatPlug`: the state part of the network is the sum over the outer source, flatten and the inner sources created so far; the
creation of an inner source (its initial potential, at most `W`) is paid for by the subscribing call of flatten (`od1`), hence by the
delivery of the outer datum, hence by the outer source's item.  The condition `good` (inner sources are numbered from 1) is needed here:
an inner source numbered 0 would deliver as the outer source, and the cost of an outer datum contains `W`, which contains the cost of an
inner datum.

`HeadPot.flat`: the network of closed heads with potentials is a closed head with a potential.  The parameters are resolved in the order:
terminal of the outer source, `Pull` of the outer source, terminal of the inner sources (their `Terminate` makes flatten re-pull the
outer source), `Pull` of the inner sources, greetings, inner datum, subscriptions, outer datum.
-/
namespace Cb
namespace ComposeTerm
open ComposeSafe

/-! ## flatten -/
section FlattenPot

/-- the costs of flatten's calls: upstream 0 is the outer source, the others are inner sources -/
def costF (cO cI c : Costs) : Out Int → Nat
  | .subSrc 0 => cO.sub
  | .subSrc (_ + 1) => cI.sub
  | .srcUp 0 u => cO.of (Out.srcUp 0 u : Out Int)
  | .srcUp (_ + 1) u => cI.of (Out.srcUp 0 u : Out Int)
  | o => c.of o

theorem costF_sub_le (cO cI c : Costs) (i : Nat) : costF cO cI c (.subSrc i) ≤ cO.sub + cI.sub := by
  cases i <;> simp [costF]

theorem costF_pull_le (cO cI c : Costs) (i : Nat) : costF cO cI c (.srcUp i .pull) ≤ cO.pull + cI.pull := by
  cases i <;> simp [costF, Costs.of]

theorem costF_term_le (cO cI c : Costs) (i : Nat) : costF cO cI c (.srcUp i .term) ≤ cO.ufin + cI.ufin := by
  cases i <;> simp [costF, Costs.of]

def Flatten.pot (cO cI c : Costs) : Pot (Flatten.machine Int) (costF cO cI c) where
  good _ := True
  good_tau _ _ _ _ _ _ := trivial
  good_call _ _ _ _ _ _ _ := trivial
  Ψ _ := 0
  ρ _ l := match l with
    | .done => 0
    | .sub0 => cO.sub + 2
    | .og0 => c.greet + 3
    | .og1 => c.greet + 2
    | .od0 => cO.sub + cI.sub + cO.ufin + cI.ufin + 4
    | .od1 => cO.sub + cI.sub + 2
    | .oe0 _ => c.fin + cO.ufin + cI.ufin + 4
    | .oe1 _ => c.fin + 2
    | .ot0 => c.fin + 2
    | .ig0 _ => cO.pull + cI.pull + 3
    | .ig1 => cO.pull + cI.pull + 2
    | .fwd _ => c.data + 2
    | .ie0 _ => c.fin + cO.ufin + 4
    | .ie1 _ => c.fin + 2
    | .it0 => c.fin + cO.pull + 4
    | .it1 => cO.pull + 3
    | .it2 => cO.pull + 2
    | .p0 => cO.pull + cI.pull + 3
    | .p1 => cO.pull + 2
    | .x0 => cO.ufin + cO.ufin + cI.ufin + 5
    | .x1 => cO.ufin + 2
  ω l := match l with
    | .done => 1
    | .sub0 => cO.sub + 3
    | .og0 => c.greet + 4
    | .og1 => c.greet + 3
    | .od0 => cO.sub + cI.sub + cO.ufin + cI.ufin + 5
    | .od1 => cO.sub + cI.sub + 3
    | .oe0 _ => c.fin + cO.ufin + cI.ufin + 5
    | .oe1 _ => c.fin + 3
    | .ot0 => c.fin + 3
    | .ig0 _ => cO.pull + cI.pull + 4
    | .ig1 => cO.pull + cI.pull + 3
    | .fwd _ => c.data + 3
    | .ie0 _ => c.fin + cO.ufin + 5
    | .ie1 _ => c.fin + 3
    | .it0 => c.fin + cO.pull + 5
    | .it1 => cO.pull + 4
    | .it2 => cO.pull + 3
    | .p0 => cO.pull + cI.pull + 4
    | .p1 => cO.pull + 3
    | .x0 => cO.ufin + cO.ufin + cI.ufin + 6
    | .x1 => cO.ufin + 3
  le st l := by cases l <;> simp
  tau st l s' l' h _ := by
    cases l <;> simp only [Flatten.machine, Flatten.step] at h
    case done => simp at h
    case sub0 => simp at h
    case og0 => simp only [Act.tau.injEq] at h; obtain ⟨rfl, rfl⟩ := h; simp
    case og1 => simp at h
    case od0 =>
      split at h
      · simp at h
      · simp only [Act.tau.injEq] at h; obtain ⟨rfl, rfl⟩ := h; simp; omega
    case od1 => simp at h
    case oe0 e =>
      split at h
      · simp at h
      · simp only [Act.tau.injEq] at h; obtain ⟨rfl, rfl⟩ := h; simp; omega
    case oe1 e => simp at h
    case ot0 =>
      split at h
      · simp at h
      · simp only [Act.tau.injEq] at h; obtain ⟨rfl, rfl⟩ := h; simp
    case ig0 j => simp only [Act.tau.injEq] at h; obtain ⟨rfl, rfl⟩ := h; simp
    case ig1 => split at h <;> simp at h
    case fwd a => simp at h
    case ie0 e =>
      split at h
      · simp at h
      · simp only [Act.tau.injEq] at h; obtain ⟨rfl, rfl⟩ := h; simp; omega
    case ie1 e => simp at h
    case it0 =>
      split at h
      · simp at h
      · simp only [Act.tau.injEq] at h; obtain ⟨rfl, rfl⟩ := h; simp; omega
    case it1 => simp only [Act.tau.injEq] at h; obtain ⟨rfl, rfl⟩ := h; simp
    case it2 => split at h <;> simp at h
    case p0 =>
      split at h
      · simp at h
      · simp only [Act.tau.injEq] at h; obtain ⟨rfl, rfl⟩ := h; simp; omega
    case p1 => split at h <;> simp at h
    case x0 =>
      split at h
      · simp at h
      · simp only [Act.tau.injEq] at h; obtain ⟨rfl, rfl⟩ := h; simp; omega
    case x1 => split at h <;> simp at h
  call st l o s' l' h _ := by
    cases l <;> simp only [Flatten.machine, Flatten.step] at h
    case done => simp at h
    case sub0 => simp only [Act.call.injEq] at h; obtain ⟨rfl, rfl, rfl⟩ := h; simp [costF]; omega
    case og0 => simp at h
    case og1 => simp only [Act.call.injEq] at h; obtain ⟨rfl, rfl, rfl⟩ := h; simp [costF, Costs.of]; omega
    case od0 =>
      split at h
      · rename_i k hk
        simp only [Act.call.injEq] at h; obtain ⟨rfl, rfl, rfl⟩ := h
        have := costF_term_le cO cI c k
        simp only; omega
      · simp at h
    case od1 =>
      simp only [Act.call.injEq] at h; obtain ⟨rfl, rfl, rfl⟩ := h
      have := costF_sub_le cO cI c st.nextId
      simp only; omega
    case oe0 e =>
      split at h
      · rename_i k hk
        simp only [Act.call.injEq] at h; obtain ⟨rfl, rfl, rfl⟩ := h
        have := costF_term_le cO cI c k
        simp only; omega
      · simp at h
    case oe1 e => simp only [Act.call.injEq] at h; obtain ⟨rfl, rfl, rfl⟩ := h; simp [costF, Costs.of]; omega
    case ot0 =>
      split at h
      · simp only [Act.call.injEq] at h; obtain ⟨rfl, rfl, rfl⟩ := h; simp [costF, Costs.of]; omega
      · simp at h
    case ig0 j => simp at h
    case ig1 =>
      split at h
      · rename_i k hk
        simp only [Act.call.injEq] at h; obtain ⟨rfl, rfl, rfl⟩ := h
        have := costF_pull_le cO cI c k
        simp only; omega
      · simp at h
    case fwd a => simp only [Act.call.injEq] at h; obtain ⟨rfl, rfl, rfl⟩ := h; simp [costF, Costs.of]; omega
    case ie0 e =>
      split at h
      · simp only [Act.call.injEq] at h; obtain ⟨rfl, rfl, rfl⟩ := h; simp [costF, Costs.of]; omega
      · simp at h
    case ie1 e => simp only [Act.call.injEq] at h; obtain ⟨rfl, rfl, rfl⟩ := h; simp [costF, Costs.of]; omega
    case it0 =>
      split at h
      · simp only [Act.call.injEq] at h; obtain ⟨rfl, rfl, rfl⟩ := h; simp [costF, Costs.of]; omega
      · simp at h
    case it1 => simp at h
    case it2 =>
      split at h
      · simp only [Act.call.injEq] at h; obtain ⟨rfl, rfl, rfl⟩ := h; simp [costF, Costs.of]; omega
      · simp at h
    case p0 =>
      split at h
      · rename_i k hk
        simp only [Act.call.injEq] at h; obtain ⟨rfl, rfl, rfl⟩ := h
        have := costF_pull_le cO cI c k
        simp only; omega
      · simp at h
    case p1 =>
      split at h
      · simp only [Act.call.injEq] at h; obtain ⟨rfl, rfl, rfl⟩ := h; simp [costF, Costs.of]; omega
      · simp at h
    case x0 =>
      split at h
      · rename_i k hk
        simp only [Act.call.injEq] at h; obtain ⟨rfl, rfl, rfl⟩ := h
        have := costF_term_le cO cI c k
        simp only; omega
      · simp at h
    case x1 =>
      split at h
      · simp only [Act.call.injEq] at h; obtain ⟨rfl, rfl, rfl⟩ := h; simp [costF, Costs.of]; omega
      · simp at h

theorem Flatten.pot_upLe (cO cI c : Costs) :
    (Flatten.pot cO cI c).UpLe (cO.sub + 3) (cO.pull + cI.pull + 4) (cO.ufin + cO.ufin + cI.ufin + 6) := by
  refine ⟨?_, ?_, ?_, ?_⟩ <;> (try intro x) <;> simp [Flatten.pot, Flatten.machine, Flatten.enter]

theorem Flatten.pot_downLeAt0 (cO cI c : Costs) :
    (Flatten.pot cO cI c).DownLeAt 0 (c.greet + 4) (cO.sub + cI.sub + cO.ufin + cI.ufin + 5) (c.fin + cO.ufin + cI.ufin + 5) := by
  refine ⟨?_, ?_, ?_, ?_⟩ <;> (try intro x) <;> simp [Flatten.pot, Flatten.machine, Flatten.enter] <;> omega

theorem Flatten.pot_downLeAtS (cO cI c : Costs) (j : Nat) :
    (Flatten.pot cO cI c).DownLeAt (j + 1) (cO.pull + cI.pull + 4) (c.data + 3) (c.fin + cO.pull + cO.ufin + 5) := by
  refine ⟨?_, ?_, ?_, ?_⟩ <;> (try intro x) <;> simp [Flatten.pot, Flatten.machine, Flatten.enter] <;> omega

end FlattenPot


/-! ## the network -/
section Network
variable {So Lo Si Li αo αi : Type} {Mo : Machine So Lo αo Int} {Mi : Machine Si Li αi Int}

abbrev FL' := Flatten.Loc Int

/-- the state potentials of the inner sources created so far -/
def sumI {cI : Costs} (PI : Pot Mi (cI.of (β := Int))) : List (Nat × Si) → Nat
  | [] => 0
  | p :: t => PI.Ψ p.2 + sumI PI t

theorem sumI_filter_le {cI : Costs} (PI : Pot Mi (cI.of (β := Int))) (q : Nat × Si → Bool) (l : List (Nat × Si)) :
    sumI PI (l.filter q) ≤ sumI PI l := by
  induction l with
  | nil => exact Nat.le_refl _
  | cons p t ih =>
    simp only [List.filter_cons]
    split
    · simp only [sumI]; omega
    · simp only [sumI]; omega

theorem sumI_filter_find {cI : Costs} (PI : Pot Mi (cI.of (β := Int))) (j : Nat) (l : List (Nat × Si)) (si : Si)
    (h : (l.find? (fun p => p.1 == j)).map (fun p => p.2) = some si) :
    sumI PI (l.filter (fun p => p.1 != j)) + PI.Ψ si ≤ sumI PI l := by
  induction l with
  | nil => simp at h
  | cons p t ih =>
    simp only [List.find?_cons, List.filter_cons] at h ⊢
    by_cases hp : p.1 = j
    · have b1 : (p.1 == j) = true := by simp [hp]
      have b2 : (p.1 != j) = false := by simp [hp]
      simp only [b1, Option.map_some, Option.some.injEq] at h
      simp only [b2, Bool.false_eq_true, if_false, sumI]
      have := sumI_filter_le PI (fun p => p.1 != j) t
      rw [← h]; omega
    · have b1 : (p.1 == j) = false := by simp [hp]
      have b2 : (p.1 != j) = true := by simp [hp]
      simp only [b1] at h
      simp only [b2, if_true, sumI]
      have := ih h
      omega

theorem mem_of_innerSt {st : FPSt So Si} {j : Nat} {si : Si} (h : st.innerSt j = some si) : (j, si) ∈ st.inners := by
  simp only [FPSt.innerSt, Option.map_eq_some_iff] at h
  obtain ⟨p, hp, rfl⟩ := h
  have h1 := List.find?_some hp
  have h2 := List.mem_of_find?_eq_some hp
  simp only [beq_iff_eq] at h1
  obtain ⟨a, b⟩ := p
  simp only at h1; subst h1
  exact h2

def fρ {cO cI : Costs} {costFl : Out Int → Nat} (PO : Pot Mo (cO.of (β := Int))) (PI : Pot Mi (cI.of (β := Int)))
    (PF : Pot (Flatten.machine Int) costFl) (st : FPSt So Si) : FFr Lo FL' Li → Nat
  | .outer l => PO.ρ st.outer l
  | .flat l => PF.ρ st.flat l
  | .inner j l => match st.innerSt j with
    | some si => PI.ρ si l
    | none => 0

def fω {cO cI : Costs} {costFl : Out Int → Nat} (PO : Pot Mo (cO.of (β := Int))) (PI : Pot Mi (cI.of (β := Int)))
    (PF : Pot (Flatten.machine Int) costFl) : FFr Lo FL' Li → Nat
  | .outer l => PO.ω l
  | .flat l => PF.ω l
  | .inner _ l => PI.ω l

def fsum {cO cI : Costs} {costFl : Out Int → Nat} (PO : Pot Mo (cO.of (β := Int))) (PI : Pot Mi (cI.of (β := Int)))
    (PF : Pot (Flatten.machine Int) costFl) : List (FFr Lo FL' Li) → Nat
  | [] => 0
  | e :: t => fω PO PI PF e + fsum PO PI PF t

theorem fρ_lt {cO cI : Costs} {costFl : Out Int → Nat} (PO : Pot Mo (cO.of (β := Int))) (PI : Pot Mi (cI.of (β := Int)))
    (PF : Pot (Flatten.machine Int) costFl) (st : FPSt So Si) (e : FFr Lo FL' Li) : fρ PO PI PF st e < fω PO PI PF e := by
  cases e with
  | outer l => exact PO.le _ _
  | flat l => exact PF.le _ _
  | inner j l =>
    simp only [fρ, fω]
    split
    · exact PI.le _ _
    · exact Nat.lt_of_le_of_lt (Nat.zero_le _) (PI.le (Mi.init) l)


theorem innerSt_setInner_same' (st : FPSt So Si) (j : Nat) (x : Si) : (st.setInner j x).innerSt j = some x := by
  simp [FPSt.innerSt, FPSt.setInner]

/-- the inner sources are numbered from 1 and satisfy the condition of their potential -/
def goodI {cI : Costs} (PI : Pot Mi (cI.of (β := Int))) (l : List (Nat × Si)) : Prop := ∀ p ∈ l, 1 ≤ p.1 ∧ PI.good p.2

theorem goodI_set {cI : Costs} {PI : Pot Mi (cI.of (β := Int))} {l : List (Nat × Si)} (h : goodI PI l) (j : Nat) (x : Si)
    (hj : 1 ≤ j) (hx : PI.good x) : goodI PI ((j, x) :: l.filter (fun p => p.1 != j)) := by
  intro p hp
  rcases List.mem_cons.1 hp with rfl | hp
  · exact ⟨hj, hx⟩
  · exact h p (List.mem_filter.1 hp).1

/-- **the potential of the network** -/
def Pot.flatPlug {cO cI : Costs} {costFl : Out Int → Nat} (initOf : Int → Si) (PO : Pot Mo (cO.of (β := Int)))
    (PI : Pot Mi (cI.of (β := Int))) (PF : Pot (Flatten.machine Int) costFl) (W : Nat)
    (hdO : PF.DownLeAt 0 cO.greet cO.data cO.fin) (hdI : ∀ j, PF.DownLeAt (j + 1) cI.greet cI.data cI.fin)
    (hsO : PO.ω (Mo.enter (.subscribe 0)) ≤ costFl (.subSrc 0)) (huO : ∀ u, PO.ω (Mo.enter (.sinkUp 0 u)) ≤ costFl (.srcUp 0 u))
    (hsI : ∀ j, PI.ω (Mi.enter (.subscribe 0)) + W ≤ costFl (.subSrc (j + 1)))
    (huI : ∀ j u, PI.ω (Mi.enter (.sinkUp 0 u)) ≤ costFl (.srcUp (j + 1) u))
    (hW : ∀ a, PI.Ψ (initOf a) ≤ W) (hgI : ∀ a, PI.good (initOf a)) : Pot (Cb.flatPlug Mo Mi initOf) costFl where
  good st := PO.good st.outer ∧ PF.good st.flat ∧ goodI PI st.inners
  Ψ st := PO.Ψ st.outer + PF.Ψ st.flat + sumI PI st.inners
  ρ st cfs := match cfs with
    | [] => 0
    | e :: t => fρ PO PI PF st e + fsum PO PI PF t
  ω cfs := match cfs with
    | [] => 1
    | e :: t => fω PO PI PF e + fsum PO PI PF t
  le st cfs := by
    cases cfs with
    | nil => exact Nat.one_pos
    | cons e t => have := fρ_lt PO PI PF st e; simp only; omega
  tau st cfs s' cfs' h hg := by
    obtain ⟨hgO, hgF, hgi⟩ := hg
    cases cfs with
    | nil => simp [Cb.flatPlug] at h
    | cons e rest =>
      cases e with
      | outer l =>
        simp only [Cb.flatPlug] at h
        cases hst : Mo.step st.outer l with
        | tau s1 l' =>
          rw [hst] at h; simp only [Act.tau.injEq] at h; obtain ⟨rfl, rfl⟩ := h
          have := PO.tau _ _ _ _ hst hgO
          simp only [fρ]; omega
        | ret =>
          rw [hst] at h
          cases rest with
          | nil => simp at h
          | cons e2 r2 =>
            simp only [List.isEmpty_cons, Bool.false_eq_true, if_false, Act.tau.injEq] at h
            obtain ⟨rfl, rfl⟩ := h
            have := fρ_lt PO PI PF st e2
            simp only [fsum]; omega
        | panic m => rw [hst] at h; simp at h
        | call o s1 l' =>
          rw [hst] at h
          have hc := PO.call _ _ _ _ _ hst hgO
          cases o with
          | greet k =>
            cases k with
            | zero =>
              simp only [Act.tau.injEq] at h; obtain ⟨rfl, rfl⟩ := h
              have := PF.le st.flat ((Flatten.machine Int).enter (.srcGreet 0))
              have := hdO.greet
              simp only [fρ, fω, fsum, Costs.of] at hc ⊢; omega
            | succ k => simp at h
          | down k d =>
            cases k with
            | zero =>
              simp only [Act.tau.injEq] at h; obtain ⟨rfl, rfl⟩ := h
              have := PF.le st.flat ((Flatten.machine Int).enter (.srcDown 0 d))
              have hd : PF.ω ((Flatten.machine Int).enter (.srcDown 0 d)) ≤ cO.of (Out.down 0 d : Out Int) := by
                cases d with
                | data a => exact hdO.data a
                | term => exact hdO.term
                | err x => exact hdO.err x
              simp only [fρ, fω, fsum] at hc ⊢; omega
            | succ k => simp at h
          | subSrc i => simp at h
          | srcUp i u => simp at h
          | app b => simp at h
      | inner j l =>
        simp only [Cb.flatPlug] at h
        cases hin : st.innerSt j with
        | none => simp [hin] at h
        | some si =>
          simp only [hin] at h
          obtain ⟨hj1, hgsi⟩ := hgi _ (mem_of_innerSt hin)
          have hsum := sumI_filter_find PI j st.inners si hin
          cases hst : Mi.step si l with
          | tau s1 l' =>
            rw [hst] at h; simp only [Act.tau.injEq] at h; obtain ⟨rfl, rfl⟩ := h
            have := PI.tau _ _ _ _ hst hgsi
            simp only [fρ, innerSt_setInner_same', hin]
            simp only [FPSt.setInner, sumI]; omega
          | ret =>
            rw [hst] at h
            cases rest with
            | nil => simp at h
            | cons e2 r2 =>
              simp only [List.isEmpty_cons, Bool.false_eq_true, if_false, Act.tau.injEq] at h
              obtain ⟨rfl, rfl⟩ := h
              have := fρ_lt PO PI PF st e2
              simp only [fsum]; omega
          | panic m => rw [hst] at h; simp at h
          | call o s1 l' =>
            rw [hst] at h
            have hc := PI.call _ _ _ _ _ hst hgsi
            obtain ⟨j0, rfl⟩ : ∃ j0, j = j0 + 1 := ⟨j - 1, by omega⟩
            cases o with
            | greet k =>
              cases k with
              | zero =>
                simp only [Act.tau.injEq] at h; obtain ⟨rfl, rfl⟩ := h
                have := PF.le st.flat ((Flatten.machine Int).enter (.srcGreet (j0 + 1)))
                have := (hdI j0).greet
                simp only [fρ, fω, fsum, Costs.of, hin] at hc ⊢
                simp only [FPSt.setInner, sumI]; omega
              | succ k => simp at h
            | down k d =>
              cases k with
              | zero =>
                simp only [Act.tau.injEq] at h; obtain ⟨rfl, rfl⟩ := h
                have := PF.le st.flat ((Flatten.machine Int).enter (.srcDown (j0 + 1) d))
                have hd : PF.ω ((Flatten.machine Int).enter (.srcDown (j0 + 1) d)) ≤ cI.of (Out.down 0 d : Out Int) := by
                  cases d with
                  | data a => exact (hdI j0).data a
                  | term => exact (hdI j0).term
                  | err x => exact (hdI j0).err x
                simp only [fρ, fω, fsum, hin] at hc ⊢
                simp only [FPSt.setInner, sumI]; omega
              | succ k => simp at h
            | subSrc i => simp at h
            | srcUp i u => simp at h
            | app b => simp at h
      | flat l =>
        simp only [Cb.flatPlug] at h
        cases hst : (Flatten.machine Int).step st.flat l with
        | tau s1 l' =>
          rw [hst] at h; simp only [Act.tau.injEq] at h; obtain ⟨rfl, rfl⟩ := h
          have := PF.tau _ _ _ _ hst hgF
          simp only [fρ]; omega
        | ret =>
          rw [hst] at h
          cases rest with
          | nil => simp at h
          | cons e2 r2 =>
            simp only [List.isEmpty_cons, Bool.false_eq_true, if_false, Act.tau.injEq] at h
            obtain ⟨rfl, rfl⟩ := h
            have := fρ_lt PO PI PF st e2
            simp only [fsum]; omega
        | panic m => rw [hst] at h; simp at h
        | call o s1 l' =>
          rw [hst] at h
          have hc := PF.call _ _ _ _ _ hst hgF
          cases o with
          | subSrc i =>
            cases i with
            | zero =>
              simp only [Act.tau.injEq] at h; obtain ⟨rfl, rfl⟩ := h
              have := PO.le st.outer (Mo.enter (.subscribe 0))
              simp only [fρ, fω, fsum] at hc ⊢; omega
            | succ j0 =>
              simp only at h
              cases hp : st.pending with
              | none => simp [hp] at h
              | some a =>
                simp only [hp, Act.tau.injEq] at h; obtain ⟨rfl, rfl⟩ := h
                have := PI.le (initOf a) (Mi.enter (.subscribe 0))
                have := hsI j0
                have := hW a
                have := sumI_filter_le PI (fun p => p.1 != j0 + 1) st.inners
                simp only [fρ, fω, fsum, innerSt_setInner_same'] at hc ⊢
                simp only [FPSt.setInner, sumI]; omega
          | srcUp i u =>
            cases i with
            | zero =>
              simp only [Act.tau.injEq] at h; obtain ⟨rfl, rfl⟩ := h
              have := PO.le st.outer (Mo.enter (.sinkUp 0 u))
              have := huO u
              simp only [fρ, fω, fsum] at hc ⊢; omega
            | succ j0 =>
              simp only [Act.tau.injEq] at h; obtain ⟨rfl, rfl⟩ := h
              have hlt := fρ_lt PO PI PF { st with flat := s1 } (.inner (j0 + 1) (Mi.enter (.sinkUp 0 u)))
              have := huI j0 u
              have e1 : fω PO PI PF (FFr.inner (j0 + 1) (Mi.enter (.sinkUp 0 u))) = PI.ω (Mi.enter (.sinkUp 0 u)) := rfl
              have e2 : fρ PO PI PF st (FFr.flat l) = PF.ρ st.flat l := rfl
              have e3 : fω PO PI PF (FFr.flat l' : FFr Lo FL' Li) = PF.ω l' := rfl
              rw [e1] at hlt
              simp only [fsum]
              rw [e2, e3]; omega
          | greet k => simp at h
          | down k d => simp at h
          | app b => simp at h
  call st cfs o s' cfs' h hg := by
    obtain ⟨hgO, hgF, hgi⟩ := hg
    cases cfs with
    | nil => simp [Cb.flatPlug] at h
    | cons e rest =>
      cases e with
      | outer l =>
        simp only [Cb.flatPlug] at h
        cases hst : Mo.step st.outer l with
        | tau s1 l' => rw [hst] at h; simp at h
        | ret => rw [hst] at h; simp only at h; split at h <;> simp at h
        | panic m => rw [hst] at h; simp at h
        | call o1 s1 l' =>
          rw [hst] at h
          cases o1 with
          | greet k => cases k <;> simp at h
          | down k d => cases k <;> simp at h
          | subSrc i => simp at h
          | srcUp i u => simp at h
          | app b => simp at h
      | inner j l =>
        simp only [Cb.flatPlug] at h
        cases hin : st.innerSt j with
        | none => simp [hin] at h
        | some si =>
          simp only [hin] at h
          cases hst : Mi.step si l with
          | tau s1 l' => rw [hst] at h; simp at h
          | ret => rw [hst] at h; simp only at h; split at h <;> simp at h
          | panic m => rw [hst] at h; simp at h
          | call o1 s1 l' =>
            rw [hst] at h
            cases o1 with
            | greet k => cases k <;> simp at h
            | down k d => cases k <;> simp at h
            | subSrc i => simp at h
            | srcUp i u => simp at h
            | app b => simp at h
      | flat l =>
        simp only [Cb.flatPlug] at h
        cases hst : (Flatten.machine Int).step st.flat l with
        | tau s1 l' => rw [hst] at h; simp at h
        | ret => rw [hst] at h; simp only at h; split at h <;> simp at h
        | panic m => rw [hst] at h; simp at h
        | call o1 s1 l' =>
          rw [hst] at h
          have hc := PF.call _ _ _ _ _ hst hgF
          cases o1 with
          | subSrc i =>
            cases i with
            | zero => simp at h
            | succ j0 => simp only at h; split at h <;> simp at h
          | srcUp i u => cases i <;> simp at h
          | greet k =>
            simp only [Act.call.injEq] at h; obtain ⟨rfl, rfl, rfl⟩ := h
            simp only [fω, fρ] at hc ⊢; omega
          | down k d =>
            simp only [Act.call.injEq] at h; obtain ⟨rfl, rfl, rfl⟩ := h
            simp only [fω, fρ] at hc ⊢; omega
          | app b =>
            simp only [Act.call.injEq] at h; obtain ⟨rfl, rfl, rfl⟩ := h
            simp only [fω, fρ] at hc ⊢; omega
  good_tau st cfs s' cfs' h hg := by
    obtain ⟨hgO, hgF, hgi⟩ := hg
    cases cfs with
    | nil => simp [Cb.flatPlug] at h
    | cons e rest =>
      cases e with
      | outer l =>
        simp only [Cb.flatPlug] at h
        cases hst : Mo.step st.outer l with
        | tau s1 l' =>
          rw [hst] at h; simp only [Act.tau.injEq] at h; obtain ⟨rfl, rfl⟩ := h
          exact ⟨PO.good_tau _ _ _ _ hst hgO, hgF, hgi⟩
        | ret =>
          rw [hst] at h; simp only at h
          split at h
          · simp at h
          · simp only [Act.tau.injEq] at h; obtain ⟨rfl, rfl⟩ := h; exact ⟨hgO, hgF, hgi⟩
        | panic m => rw [hst] at h; simp at h
        | call o s1 l' =>
          rw [hst] at h
          have hgc := PO.good_call _ _ _ _ _ hst hgO
          cases o with
          | greet k =>
            cases k with
            | zero => simp only [Act.tau.injEq] at h; obtain ⟨rfl, rfl⟩ := h; exact ⟨hgc, hgF, hgi⟩
            | succ k => simp at h
          | down k d =>
            cases k with
            | zero => simp only [Act.tau.injEq] at h; obtain ⟨rfl, rfl⟩ := h; exact ⟨hgc, hgF, hgi⟩
            | succ k => simp at h
          | subSrc i => simp at h
          | srcUp i u => simp at h
          | app b => simp at h
      | inner j l =>
        simp only [Cb.flatPlug] at h
        cases hin : st.innerSt j with
        | none => simp [hin] at h
        | some si =>
          simp only [hin] at h
          obtain ⟨hj1, hgsi⟩ := hgi _ (mem_of_innerSt hin)
          cases hst : Mi.step si l with
          | tau s1 l' =>
            rw [hst] at h; simp only [Act.tau.injEq] at h; obtain ⟨rfl, rfl⟩ := h
            exact ⟨hgO, hgF, goodI_set hgi j s1 hj1 (PI.good_tau _ _ _ _ hst hgsi)⟩
          | ret =>
            rw [hst] at h; simp only at h
            split at h
            · simp at h
            · simp only [Act.tau.injEq] at h; obtain ⟨rfl, rfl⟩ := h; exact ⟨hgO, hgF, hgi⟩
          | panic m => rw [hst] at h; simp at h
          | call o s1 l' =>
            rw [hst] at h
            have hgc := PI.good_call _ _ _ _ _ hst hgsi
            cases o with
            | greet k =>
              cases k with
              | zero => simp only [Act.tau.injEq] at h; obtain ⟨rfl, rfl⟩ := h; exact ⟨hgO, hgF, goodI_set hgi j s1 hj1 hgc⟩
              | succ k => simp at h
            | down k d =>
              cases k with
              | zero => simp only [Act.tau.injEq] at h; obtain ⟨rfl, rfl⟩ := h; exact ⟨hgO, hgF, goodI_set hgi j s1 hj1 hgc⟩
              | succ k => simp at h
            | subSrc i => simp at h
            | srcUp i u => simp at h
            | app b => simp at h
      | flat l =>
        simp only [Cb.flatPlug] at h
        cases hst : (Flatten.machine Int).step st.flat l with
        | tau s1 l' =>
          rw [hst] at h; simp only [Act.tau.injEq] at h; obtain ⟨rfl, rfl⟩ := h
          exact ⟨hgO, PF.good_tau _ _ _ _ hst hgF, hgi⟩
        | ret =>
          rw [hst] at h; simp only at h
          split at h
          · simp at h
          · simp only [Act.tau.injEq] at h; obtain ⟨rfl, rfl⟩ := h; exact ⟨hgO, hgF, hgi⟩
        | panic m => rw [hst] at h; simp at h
        | call o s1 l' =>
          rw [hst] at h
          have hgc := PF.good_call _ _ _ _ _ hst hgF
          cases o with
          | subSrc i =>
            cases i with
            | zero => simp only [Act.tau.injEq] at h; obtain ⟨rfl, rfl⟩ := h; exact ⟨hgO, hgc, hgi⟩
            | succ j0 =>
              simp only at h
              cases hp : st.pending with
              | none => simp [hp] at h
              | some a =>
                simp only [hp, Act.tau.injEq] at h; obtain ⟨rfl, rfl⟩ := h
                exact ⟨hgO, hgc, goodI_set hgi (j0 + 1) (initOf a) (by omega) (hgI a)⟩
          | srcUp i u =>
            cases i with
            | zero => simp only [Act.tau.injEq] at h; obtain ⟨rfl, rfl⟩ := h; exact ⟨hgO, hgc, hgi⟩
            | succ j0 => simp only [Act.tau.injEq] at h; obtain ⟨rfl, rfl⟩ := h; exact ⟨hgO, hgc, hgi⟩
          | greet k => simp at h
          | down k d => simp at h
          | app b => simp at h
  good_call st cfs o s' cfs' h hg := by
    obtain ⟨hgO, hgF, hgi⟩ := hg
    cases cfs with
    | nil => simp [Cb.flatPlug] at h
    | cons e rest =>
      cases e with
      | outer l =>
        simp only [Cb.flatPlug] at h
        cases hst : Mo.step st.outer l with
        | tau s1 l' => rw [hst] at h; simp at h
        | ret => rw [hst] at h; simp only at h; split at h <;> simp at h
        | panic m => rw [hst] at h; simp at h
        | call o1 s1 l' =>
          rw [hst] at h
          cases o1 with
          | greet k => cases k <;> simp at h
          | down k d => cases k <;> simp at h
          | subSrc i => simp at h
          | srcUp i u => simp at h
          | app b => simp at h
      | inner j l =>
        simp only [Cb.flatPlug] at h
        cases hin : st.innerSt j with
        | none => simp [hin] at h
        | some si =>
          simp only [hin] at h
          cases hst : Mi.step si l with
          | tau s1 l' => rw [hst] at h; simp at h
          | ret => rw [hst] at h; simp only at h; split at h <;> simp at h
          | panic m => rw [hst] at h; simp at h
          | call o1 s1 l' =>
            rw [hst] at h
            cases o1 with
            | greet k => cases k <;> simp at h
            | down k d => cases k <;> simp at h
            | subSrc i => simp at h
            | srcUp i u => simp at h
            | app b => simp at h
      | flat l =>
        simp only [Cb.flatPlug] at h
        cases hst : (Flatten.machine Int).step st.flat l with
        | tau s1 l' => rw [hst] at h; simp at h
        | ret => rw [hst] at h; simp only at h; split at h <;> simp at h
        | panic m => rw [hst] at h; simp at h
        | call o1 s1 l' =>
          rw [hst] at h
          have hgc := PF.good_call _ _ _ _ _ hst hgF
          cases o1 with
          | subSrc i =>
            cases i with
            | zero => simp at h
            | succ j0 => simp only at h; split at h <;> simp at h
          | srcUp i u => cases i <;> simp at h
          | greet k => simp only [Act.call.injEq] at h; obtain ⟨rfl, rfl, rfl⟩ := h; exact ⟨hgO, hgc, hgi⟩
          | down k d => simp only [Act.call.injEq] at h; obtain ⟨rfl, rfl, rfl⟩ := h; exact ⟨hgO, hgc, hgi⟩
          | app b => simp only [Act.call.injEq] at h; obtain ⟨rfl, rfl, rfl⟩ := h; exact ⟨hgO, hgc, hgi⟩

theorem Pot.flatPlug_enter {cO cI : Costs} {costFl : Out Int → Nat} (initOf : Int → Si) (PO : Pot Mo (cO.of (β := Int)))
    (PI : Pot Mi (cI.of (β := Int))) (PF : Pot (Flatten.machine Int) costFl) (W : Nat)
    (hdO : PF.DownLeAt 0 cO.greet cO.data cO.fin) (hdI : ∀ j, PF.DownLeAt (j + 1) cI.greet cI.data cI.fin)
    (hsO : PO.ω (Mo.enter (.subscribe 0)) ≤ costFl (.subSrc 0)) (huO : ∀ u, PO.ω (Mo.enter (.sinkUp 0 u)) ≤ costFl (.srcUp 0 u))
    (hsI : ∀ j, PI.ω (Mi.enter (.subscribe 0)) + W ≤ costFl (.subSrc (j + 1)))
    (huI : ∀ j u, PI.ω (Mi.enter (.sinkUp 0 u)) ≤ costFl (.srcUp (j + 1) u))
    (hW : ∀ a, PI.Ψ (initOf a) ≤ W) (hgI : ∀ a, PI.good (initOf a)) (i : In Int) :
    (Pot.flatPlug initOf PO PI PF W hdO hdI hsO huO hsI huI hW hgI).ω ((Cb.flatPlug Mo Mi initOf).enter i) =
      PF.ω ((Flatten.machine Int).enter i) := by
  cases i <;> simp [Pot.flatPlug, Cb.flatPlug, fω, fsum]


end Network


/-! ## the network of closed heads is a closed head with a potential -/
section FlatHead
variable {So Lo Si Li αo αi : Type} {Mo : Machine So Lo αo Int} {Mi : Machine Si Li αi Int}

/-- the inner sources: a potential (for every cost of the sink) that works from every initial state `initOf a`, whose state part is
bounded there by `w g d f` -/
def HeadPotW (M : Machine Si Li αi Int) (initOf : Int → Si) : Prop :=
  ∃ (fs : Nat → Nat → Nat) (fp : Nat → Nat) (fu : Nat) (w : Nat → Nat → Nat → Nat), ∀ g d f : Nat,
    ∃ P : Pot M ((⟨0, 0, 0, g, d, f, 0⟩ : Costs).of (β := Int)),
      (∀ a, P.good (initOf a)) ∧ P.UpLe (fs g f) (fp f) fu ∧ ∀ a, P.Ψ (initOf a) ≤ w g d f

theorem HeadPot.flat (initOf : Int → Si) (hO : HeadPot Mo) (hI : HeadPotW Mi initOf) : HeadPot (Cb.flatPlug Mo Mi initOf) := by
  obtain ⟨fsO, fpO, fuO, hO⟩ := hO
  obtain ⟨fsI, fpI, fuI, wI, hI⟩ := hI
  refine ⟨fun g f => fsO (g + 4) (f + fuO + fuI + 5) + 3,
    fun f => fpO (f + fuO + fuI + 5) + fpI (f + fpO (f + fuO + fuI + 5) + fuO + 5) + 4, fuO + fuO + fuI + 6, fun g d f => ?_⟩
  -- the parameters, from the ends
  obtain ⟨fO, hfO⟩ : ∃ fO, fO = f + fuO + fuI + 5 := ⟨_, rfl⟩
  obtain ⟨pullO, hpullO⟩ : ∃ x, x = fpO fO := ⟨_, rfl⟩
  obtain ⟨fI, hfI⟩ : ∃ x, x = f + pullO + fuO + 5 := ⟨_, rfl⟩
  obtain ⟨pullI, hpullI⟩ : ∃ x, x = fpI fI := ⟨_, rfl⟩
  obtain ⟨gI, hgI'⟩ : ∃ x, x = pullO + pullI + 4 := ⟨_, rfl⟩
  obtain ⟨W, hW'⟩ : ∃ x, x = wI gI (d + 3) fI := ⟨_, rfl⟩
  obtain ⟨subI, hsubI⟩ : ∃ x, x = fsI gI fI + W := ⟨_, rfl⟩
  obtain ⟨subO, hsubO⟩ : ∃ x, x = fsO (g + 4) fO := ⟨_, rfl⟩
  obtain ⟨PO, gPO, uO⟩ := hO (g + 4) (subO + subI + fuO + fuI + 5) fO
  obtain ⟨PI, gPI, uI, wPI⟩ := hI gI (d + 3) fI
  let cO : Costs := ⟨subO, pullO, fuO, 0, 0, 0, 0⟩
  let cI : Costs := ⟨subI, pullI, fuI, 0, 0, 0, 0⟩
  let c : Costs := ⟨0, 0, 0, g, d, f, 0⟩
  have hdO : (Flatten.pot cO cI c).DownLeAt 0 (g + 4) (subO + subI + fuO + fuI + 5) fO := by
    have h0 := Flatten.pot_downLeAt0 cO cI c
    exact ⟨h0.greet, h0.data, Nat.le_trans h0.term (Nat.le_of_eq hfO.symm), fun x => Nat.le_trans (h0.err x) (Nat.le_of_eq hfO.symm)⟩
  have hdI : ∀ j, (Flatten.pot cO cI c).DownLeAt (j + 1) gI (d + 3) fI := by
    intro j
    have h0 := Flatten.pot_downLeAtS cO cI c j
    exact ⟨Nat.le_trans h0.greet (Nat.le_of_eq hgI'.symm), h0.data, Nat.le_trans h0.term (Nat.le_of_eq hfI.symm),
      fun x => Nat.le_trans (h0.err x) (Nat.le_of_eq hfI.symm)⟩
  have huO : ∀ u, PO.ω (Mo.enter (.sinkUp 0 u)) ≤ costF cO cI c (.srcUp 0 u) := by
    intro u
    cases u with
    | pull => exact Nat.le_trans uO.pull (Nat.le_of_eq hpullO.symm)
    | term => exact uO.uterm
    | err x => exact uO.uerr x
  have huI : ∀ j u, PI.ω (Mi.enter (.sinkUp 0 u)) ≤ costF cO cI c (.srcUp (j + 1) u) := by
    intro j u
    cases u with
    | pull => exact Nat.le_trans uI.pull (Nat.le_of_eq hpullI.symm)
    | term => exact uI.uterm
    | err x => exact uI.uerr x
  have hsO : PO.ω (Mo.enter (.subscribe 0)) ≤ costF cO cI c (.subSrc 0) := by
    exact Nat.le_trans uO.sub (Nat.le_of_eq hsubO.symm)
  have hsI : ∀ j, PI.ω (Mi.enter (.subscribe 0)) + W ≤ costF cO cI c (.subSrc (j + 1)) := by
    intro j; exact Nat.le_trans (Nat.add_le_add_right uI.sub _) (Nat.le_of_eq hsubI.symm)
  have hWa : ∀ a, PI.Ψ (initOf a) ≤ W := fun a => Nat.le_trans (wPI a) (Nat.le_of_eq hW'.symm)
  obtain ⟨P, hP, gP⟩ : ∃ P : Pot (Cb.flatPlug Mo Mi initOf) (costF cO cI c),
      (∀ i, P.ω ((Cb.flatPlug Mo Mi initOf).enter i) = (Flatten.pot cO cI c).ω ((Flatten.machine Int).enter i)) ∧
      P.good (Cb.flatPlug Mo Mi initOf).init :=
    ⟨Pot.flatPlug initOf PO PI (Flatten.pot cO cI c) W hdO hdI hsO huO hsI huI hWa gPI,
      fun i => Pot.flatPlug_enter initOf PO PI _ W hdO hdI hsO huO hsI huI hWa gPI i,
      ⟨gPO, trivial, fun p hp => by cases hp⟩⟩
  have hle : ∀ o : Out Int, c.of o ≤ costF cO cI c o := by
    intro o
    cases o with
    | subSrc i => simp [Costs.of, c]
    | srcUp i u => cases u <;> simp [Costs.of, c]
    | greet k => simp [costF]
    | down k d' => simp [costF]
    | app b => simp [costF]
  have h0 := Flatten.pot_upLe cO cI c
  refine ⟨P.weaken hle, gP, ?_, ?_, ?_, ?_⟩
  · rw [Pot.weaken_ω, hP]; exact Nat.le_trans h0.sub (Nat.le_of_eq (by simp only [cO, hsubO, hfO]))
  · rw [Pot.weaken_ω, hP]; exact Nat.le_trans h0.pull (Nat.le_of_eq (by simp only [cO, cI, hpullO, hpullI, hfI, hfO]))
  · rw [Pot.weaken_ω, hP]; exact h0.uterm
  · intro x; rw [Pot.weaken_ω, hP]; exact h0.uerr x

/-- `from_iter`, started with any iterator of measure at most `k` -/
theorem HeadPotW.fromIter {ι : Type} (α' : Type) (next : ι → Option (Int × ι)) (it0 : ι) (len : ι → Nat)
    (hlen : ∀ it a it', next it = some (a, it') → len it' < len it) (initOf : Int → FromIter.St ι Int) (k : Nat)
    (hk : ∀ a, len (initOf a).it ≤ k) : HeadPotW (FromIter.machine α' next it0) initOf :=
  ⟨fun g _ => g + 3, fun f => f + 13, 3, fun _ d _ => (d + 6) * k, fun g d f =>
    ⟨FromIter.pot α' next it0 len hlen ⟨0, 0, 0, g, d, f, 0⟩, fun _ => trivial,
      FromIter.pot_upLe α' next it0 len hlen ⟨0, 0, 0, g, d, f, 0⟩, fun a => Nat.mul_le_mul_left _ (hk a)⟩⟩

end FlatHead

end ComposeTerm
end Cb

#print axioms Cb.ComposeTerm.Flatten.pot
#print axioms Cb.ComposeTerm.Pot.flatPlug
#print axioms Cb.ComposeTerm.HeadPot.flat
#print axioms Cb.ComposeTerm.HeadPotW.fromIter
