import CallbagModel.Inv.Ghost
import CallbagModel.Ops.Concat
/-!
# concat: the phase-level safety invariant (every member count `n ≥ 1`)

Stated at environment turns only.  Every call of this machine is a tail call, so every frame is `wait _ .done` and
carries no assumption (`Quiet`).  The members are subscribed strictly one after another: sources `< st.i` are ended,
sources `> st.i` are idle, and the stale talkback in the slot (between a member's `Terminate` and the next member's
greeting) is never used because the sink has no control while the top frame is `wait (subSrc _) _`.
-/
namespace Cb.Concat
open Cb

variable {α : Type}

/-- the only continuations of this machine: return at once -/
def Quiet : Frame (Loc α) α → Prop
  | .wait _ .done => True
  | _ => False

inductive Mode (n : Nat) (st : St) (g : Ph) (stk : List (Frame (Loc α) α)) : Prop where
  | idle : g.sinkPh 0 = .idle → (∀ j, g.srcPh j = .idle) → st.i = 0 → stk = [] → Mode n st g stk
  | waiting : st.i < n → g.srcPh st.i = .subscribed →
      (∀ j, j < st.i → g.srcPh j = .ended) → (∀ j, st.i < j → g.srcPh j = .idle) →
      (st.i = 0 → g.sinkPh 0 = .subscribed) → (st.i ≠ 0 → g.sinkPh 0 = .live) →
      (∃ rest, stk = .wait (.subSrc st.i) .done :: rest ∧ ∀ f ∈ rest, Quiet f) → Mode n st g stk
  | live : st.i < n → st.slot = some st.i → g.sinkPh 0 = .live → g.srcPh st.i = .live →
      (∀ j, j < st.i → g.srcPh j = .ended) → (∀ j, st.i < j → g.srcPh j = .idle) →
      (∀ f ∈ stk, Quiet f) → Mode n st g stk
  | over : (g.sinkPh 0 = .doneBySelf ∨ g.sinkPh 0 = .doneBySrc) →
      (∀ j, g.srcPh j ≠ .live ∧ g.srcPh j ≠ .subscribed) →
      (∀ f ∈ stk, Quiet f) → Mode n st g stk

def Inv (n : Nat) (s : Sys St (Loc α) α α) : Prop :=
  s.panicked = none ∧ s.g.ph.viols = [] ∧ (∀ k, k ≠ 0 → s.g.ph.sinkPh k = .idle) ∧ Mode n s.st s.g.ph s.stack

theorem ctx_isSome_of_quiet {stk : List (Frame (Loc α) α)} (h : ∀ f ∈ stk, Quiet f) : (ctxOf stk).isSome := by
  cases stk with
  | nil => simp [ctxOf]
  | cons f r =>
    have := h f (by simp)
    cases f with
    | run l => simp [Quiet] at this
    | wait o l => simp [ctxOf]

theorem inv_turn (n : Nat) (s : Sys St (Loc α) α α) (h : Inv n s) : EnvTurn s ∧ BasicSafe s := by
  obtain ⟨hp, hb, _, hm⟩ := h
  refine ⟨⟨hp, ?_⟩, hb, hp⟩
  cases hm with
  | idle _ _ _ h => simp [h, ctxOf]
  | waiting _ _ _ _ _ _ h => obtain ⟨r, h, _⟩ := h; simp [h, ctxOf]
  | live _ _ _ _ _ _ h => exact ctx_isSome_of_quiet h
  | over _ _ h => exact ctx_isSome_of_quiet h

theorem quiet_cons {o : Out α} {stk : List (Frame (Loc α) α)} (h : ∀ f ∈ stk, Quiet f) :
    ∀ f ∈ (Frame.wait o Loc.done : Frame (Loc α) α) :: stk, Quiet f :=
  List.forall_mem_cons.2 ⟨by simp [Quiet], h⟩

macro "exec" n:num : tactic =>
  `(tactic| (refine ⟨$n, ?_⟩; simp [advance, opStep, machine, enter, step, Ph.onIn, Ph.onOut, Inv, isFinal, *]))

theorem inv_step (n : Nat) (hn : 0 < n) (s s' : Sys St (Loc α) α α) (m : Move α) (h : Inv n s)
    (hs : EnvStep (machine α n) m s s') : ∃ c, Inv n (advance (machine α n) c s') := by
  obtain ⟨hp, hb, hoths, hm⟩ := h
  cases hs with
  | @call st stk g tr c i hc hl =>
    simp only at hp hb hoths hm
    obtain ⟨si, sl, gp⟩ := st
    cases i with
    | subscribe k =>
      simp only [legalIn, Bool.and_eq_true, beq_iff_eq, machine, Bool.or_false] at hl
      obtain ⟨⟨hc', hidle⟩, rfl⟩ := hl
      cases hm with
      | idle h1 h2 h3 h4 =>
        subst h3 h4
        have hopen : (g.ph.setSink 0 .subscribed).anySinkOpen = true := (Ph.anySinkOpen_iff _).2 ⟨0, by simp⟩
        have hn' : ¬ (0 = n) := by omega
        exec 1
        refine ⟨fun k hk => by simp [hk, hoths k hk], Mode.waiting hn (by simp) (by simp)
          (fun j hj => by have : j ≠ 0 := by simp at hj; omega
                          simp [this, h2]) (by simp) (by simp) ⟨[], rfl, by simp⟩⟩
      | waiting h1 h2 h3 h4 h5 h6 h7 =>
        by_cases h0 : si = 0
        · simp [h5 h0] at hidle
        · simp [h6 h0] at hidle
      | live h1 h2 h3 h4 h5 h6 h7 => simp [h3] at hidle
      | over h1 h2 h3 => rcases h1 with h1 | h1 <;> simp [h1] at hidle
    | sinkUp k u =>
      simp only [legalIn, Bool.and_eq_true, beq_iff_eq, Bool.or_eq_true] at hl
      obtain ⟨hlive, hctx⟩ := hl
      have hk : k = 0 := by
        by_cases hk : k = 0
        · exact hk
        · rw [hoths k hk] at hlive; cases hlive
      subst hk
      cases hm with
      | idle h1 h2 h3 h4 => simp [h1] at hlive
      | waiting h1 h2 h3 h4 h5 h6 h7 =>
        obtain ⟨rest, rfl, _⟩ := h7
        simp [ctxOf] at hc; subst hc; simp [isTop, inGreet, inData] at hctx
      | live h1 h2 h3 h4 h5 h6 h7 =>
        simp only at h1 h2 h4 h5 h6
        subst h2
        cases u with
        | pull =>
          exec 2
          exact ⟨hoths, Mode.live h1 rfl h3 h4 h5 h6 (quiet_cons h7)⟩
        | term =>
          exec 1
          refine ⟨fun k hk => by simp [hk, hoths k hk], Mode.over (by simp) ?_ (quiet_cons h7)⟩
          intro j
          by_cases hj : j = si
          · simp [hj]
          · rcases Nat.lt_or_gt_of_ne hj with hj' | hj'
            · simp [hj, h5 j hj']
            · simp [hj, h6 j hj']
        | err e =>
          exec 1
          refine ⟨fun k hk => by simp [hk, hoths k hk], Mode.over (by simp) ?_ (quiet_cons h7)⟩
          intro j
          by_cases hj : j = si
          · simp [hj]
          · rcases Nat.lt_or_gt_of_ne hj with hj' | hj'
            · simp [hj, h5 j hj']
            · simp [hj, h6 j hj']
      | over h1 h2 h3 => rcases h1 with h1 | h1 <;> simp [h1] at hlive
    | srcGreet j =>
      simp only [legalIn, Bool.and_eq_true, beq_iff_eq, machine, Bool.false_and, Bool.or_false] at hl
      obtain ⟨hsub, hin⟩ := hl
      cases hm with
      | idle h1 h2 h3 h4 => simp [h2 j] at hsub
      | waiting h1 h2 h3 h4 h5 h6 h7 =>
        simp only at h1 h2 h3 h4 h5 h6 h7
        have hj : j = si := by
          by_cases hj : j = si
          · exact hj
          · rcases Nat.lt_or_gt_of_ne hj with hj' | hj'
            · simp [h3 j hj'] at hsub
            · simp [h4 j hj'] at hsub
        subst hj
        obtain ⟨rest, rfl, hrest⟩ := h7
        have hq := quiet_cons (o := Out.subSrc j) hrest
        by_cases h0 : j = 0
        · subst h0
          have hs0 := h5 rfl
          exec 2
          refine ⟨fun k hk => by simp [hk, hoths k hk], Mode.live h1 rfl (by simp) (by simp) (by simp) ?_ (quiet_cons hq)⟩
          intro j hj
          have : j ≠ 0 := by omega
          simp [this, h4 j hj]
        · have hs0 := h6 h0
          cases gp with
          | false =>
            exec 3
            refine ⟨hoths, Mode.live h1 rfl (by simpa using hs0) (by simp) ?_ ?_ hq⟩
            · intro i hi
              dsimp only at hi
              have : i ≠ j := by omega
              simp [this, h3 i hi]
            · intro i hi
              dsimp only at hi
              have : i ≠ j := by omega
              simp [this, h4 i hi]
          | true =>
            exec 4
            refine ⟨hoths, Mode.live h1 rfl (by simpa using hs0) (by simp) ?_ ?_ (quiet_cons hq)⟩
            · intro i hi
              dsimp only at hi
              have : i ≠ j := by omega
              simp [this, h3 i hi]
            · intro i hi
              dsimp only at hi
              have : i ≠ j := by omega
              simp [this, h4 i hi]
      | live h1 h2 h3 h4 h5 h6 h7 =>
        simp only at h1 h2 h4 h5 h6
        by_cases hj : j = si
        · subst hj; simp [h4] at hsub
        · rcases Nat.lt_or_gt_of_ne hj with hj' | hj'
          · simp [h5 j hj'] at hsub
          · simp [h6 j hj'] at hsub
      | over h1 h2 h3 => exact absurd hsub (h2 j).2
    | srcDown j d =>
      simp only [legalIn, Bool.and_eq_true, beq_iff_eq, Bool.or_eq_true] at hl
      obtain ⟨hlive, hctx⟩ := hl
      cases hm with
      | idle h1 h2 h3 h4 => simp [h2 j] at hlive
      | waiting h1 h2 h3 h4 h5 h6 h7 =>
        simp only at h1 h2 h3 h4 h5 h6 h7
        by_cases hj : j = si
        · subst hj; simp [h2] at hlive
        · rcases Nat.lt_or_gt_of_ne hj with hj' | hj'
          · simp [h3 j hj'] at hlive
          · simp [h4 j hj'] at hlive
      | live h1 h2 h3 h4 h5 h6 h7 =>
        simp only at h1 h2 h4 h5 h6
        subst h2
        have hj : j = si := by
          by_cases hj : j = si
          · exact hj
          · rcases Nat.lt_or_gt_of_ne hj with hj' | hj'
            · simp [h5 j hj'] at hlive
            · simp [h6 j hj'] at hlive
        subst hj
        have hnolive : ∀ p : SrcPh, p ≠ .live → p ≠ .subscribed →
            ∀ i, (g.ph.setSrc j p).srcPh i ≠ .live ∧ (g.ph.setSrc j p).srcPh i ≠ .subscribed := by
          intro p hp1 hp2 i
          by_cases hi : i = j
          · simp [hi, hp1, hp2]
          · rcases Nat.lt_or_gt_of_ne hi with hi' | hi'
            · simp [hi, h5 i hi']
            · simp [hi, h6 i hi']
        cases d with
        | data a =>
          exec 1
          exact ⟨hoths, Mode.live h1 rfl h3 h4 h5 h6 (quiet_cons h7)⟩
        | err e =>
          exec 1
          exact ⟨fun k hk => by simp [hk, hoths k hk], Mode.over (by simp) (hnolive _ (by simp) (by simp)) (quiet_cons h7)⟩
        | term =>
          by_cases hlast : j + 1 = n
          · exec 2
            exact ⟨fun k hk => by simp [hk, hoths k hk], Mode.over (by simp) (hnolive _ (by simp) (by simp)) (quiet_cons h7)⟩
          · have hopen : (g.ph.setSrc j .ended).anySinkOpen = true := (Ph.anySinkOpen_iff _).2 ⟨0, by simp [h3]⟩
            have hidle := h6 (j + 1) (by omega)
            exec 2
            refine ⟨hoths, Mode.waiting (by simp; omega) (by simp) ?_ ?_ (by simp) (by simp [h3]) ⟨_, rfl, h7⟩⟩
            · intro i hi
              simp at hi
              by_cases hij : i = j
              · simp [hij]
              · have : i < j := by omega
                have hij' : i ≠ j + 1 := by omega
                simp [hij, hij', h5 i this]
            · intro i hi
              simp at hi
              have : i ≠ j := by omega
              have : i ≠ j + 1 := by omega
              simp [*, h6 i (by omega)]
      | over h1 h2 h3 => exact absurd hlive (h2 j).1
  | @ret st stk g tr o l hl =>
    simp only at hp hb hoths hm
    have hdone : ∀ (_ : ∀ f ∈ (Frame.wait o l : Frame (Loc α) α) :: stk, Quiet f),
        l = .done ∧ ∀ f ∈ stk, Quiet f := by
      intro h
      have h1 := (List.forall_mem_cons.1 h).1
      refine ⟨?_, (List.forall_mem_cons.1 h).2⟩
      cases l <;> simp [Quiet] at h1 ⊢
    cases hm with
    | idle _ _ _ h => simp at h
    | waiting h1 h2 h3 h4 h5 h6 h7 =>
      obtain ⟨rest, he, _⟩ := h7
      simp at he; obtain ⟨⟨rfl, rfl⟩, rfl⟩ := he
      simp [legalRet, h2, machine] at hl
    | live h1 h2 h3 h4 h5 h6 h7 =>
      obtain ⟨rfl, hq⟩ := hdone h7
      exec 1
      exact ⟨hoths, Mode.live h1 h2 h3 h4 h5 h6 hq⟩
    | over h1 h2 h3 =>
      obtain ⟨rfl, hq⟩ := hdone h3
      exec 1
      exact ⟨hoths, Mode.over h1 h2 hq⟩

theorem inv_init (n : Nat) : Inv n (Sys.init (machine α n)) :=
  ⟨rfl, rfl, fun _ _ => by simp [Sys.init], Mode.idle (by simp [Sys.init]) (fun _ => by simp [Sys.init]) rfl rfl⟩

/-- concat: for every member count `n ≥ 1`, under every conformant environment (re-entrant sink, synchronous or
deferred members), the operator never violates the sink- or source-side protocol and never panics. -/
theorem concat_basicSafe {α : Type} (n : Nat) (hn : 0 < n) : ∀ s, SReach (machine α n) s → BasicSafe s :=
  basicSafe_of_macro_inv (machine α n) (Inv n) (inv_init n) (inv_turn n) (inv_step n hn)

end Cb.Concat

#print axioms Cb.Concat.concat_basicSafe
