import CallbagModel.Inv.Ghost
import CallbagModel.Ops.Combine
/-!
# combine!: partial phase-level safety

The real code never clears a member's talkback slot and treats a member's `Error` like `Terminate`, so messages of the
sink are also forwarded to members that are not live (`Viol.upNotLive`, known findings KF2/KF3).  Everything else is
proved: the sink is greeted exactly once and only when subscribed, nothing is delivered before the greeting, after the
sink's terminal or after the sink disposed, no member is subscribed twice, and the two potential panics
(`expect("source talkback not set")`, `unwrap()` on `None`) are unreachable — for every arity `n` (including 0).
-/
namespace Cb.Combine
open Cb

variable {α : Type}

/-- the only phase-level violations `combine!` can commit are messages to members that are not live (known findings KF2, KF3) -/
def OnlyUpNotLive (vs : List Viol) : Prop := ∀ v ∈ vs, ∃ i p, v = Viol.upNotLive i p

/-! ## counting over `0 … n-1` -/

def cnt (n : Nat) (p : Nat → Bool) : Nat := (List.range n).countP p

theorem cnt_succ (n : Nat) (p : Nat → Bool) : cnt (n + 1) p = cnt n p + (if p n then 1 else 0) := by
  simp [cnt, List.range_succ, List.countP_append, List.countP_cons]

theorem cnt_congr {n : Nat} {p q : Nat → Bool} (h : ∀ j, j < n → p j = q j) : cnt n p = cnt n q := by
  induction n with
  | zero => rfl
  | succ n ih => rw [cnt_succ, cnt_succ, ih (fun j hj => h j (by omega)), h n (by omega)]

theorem cnt_dec {n : Nat} {p q : Nat → Bool} {i : Nat} (hi : i < n) (hp : p i = true) (hq : q i = false)
    (h : ∀ j, j ≠ i → p j = q j) : cnt n p = cnt n q + 1 := by
  induction n with
  | zero => omega
  | succ n ih =>
    rw [cnt_succ, cnt_succ]
    by_cases hin : i = n
    · subst hin
      rw [cnt_congr (fun j hj => h j (by omega)), hp, hq]; simp
    · rw [ih (by omega), h n (by omega)]; omega

theorem cnt_zero {n : Nat} {p : Nat → Bool} (h : cnt n p = 0) : ∀ j, j < n → p j = false := by
  induction n with
  | zero => intro j hj; omega
  | succ n ih =>
    rw [cnt_succ] at h
    intro j hj
    by_cases hjn : j = n
    · subst hjn
      cases hp : p j with
      | false => rfl
      | true => simp [hp] at h
    · exact ih (by omega) j (by omega)

theorem cnt_eq_zero {n : Nat} {p : Nat → Bool} (h : ∀ j, j < n → p j = false) : cnt n p = 0 := by
  induction n with
  | zero => rfl
  | succ n ih => rw [cnt_succ, ih (fun j hj => h j (by omega)), h n (by omega)]; simp

theorem cnt_all {n : Nat} {p : Nat → Bool} (h : ∀ j, j < n → p j = true) : cnt n p = n := by
  induction n with
  | zero => rfl
  | succ n ih => rw [cnt_succ, ih (fun j hj => h j (by omega)), h n (by omega)]; simp

theorem cnt_pos {n : Nat} {p : Nat → Bool} {i : Nat} (hi : i < n) (hp : p i = true) : 0 < cnt n p := by
  apply Nat.pos_of_ne_zero
  intro h
  have := cnt_zero h i hi
  rw [hp] at this; cases this

/-! ## lists -/

theorem length_setAt {β : Type} [Inhabited β] (l : List β) (i : Nat) (a : β) (h : i < l.length) :
    (setAt l i a).length = l.length := by
  induction l generalizing i with
  | nil => simp at h
  | cons x xs ih =>
    cases i with
    | zero => simp [setAt]
    | succ i => simp [setAt, ih i (by simpa using h)]

theorem phAt_replicate {β : Type} [Inhabited β] (n j : Nat) : phAt (List.replicate n (default : β)) j = default := by
  simp only [phAt, List.getD, List.getElem?_replicate]; split <;> rfl

theorem unwrapAll_some (l : List (Option α)) (h : ∀ j, j < l.length → (phAt l j).isNone = false) :
    ∃ t, unwrapAll l = some t := by
  induction l with
  | nil => exact ⟨[], rfl⟩
  | cons x xs ih =>
    have h0 := h 0 (by simp)
    obtain ⟨t, ht⟩ := ih (fun j hj => by have := h (j + 1) (by simpa using hj); simpa [phAt] using this)
    cases x with
    | none => simp [phAt] at h0
    | some a => exact ⟨a :: t, by simp [unwrapAll, ht]⟩

/-! ## the monitor on `srcUp` -/

@[simp] theorem sinkPh_flag (g : Ph) (v : Viol) (k : Nat) : (g.flag v).sinkPh k = g.sinkPh k := rfl
@[simp] theorem srcPh_flag (g : Ph) (v : Viol) (i : Nat) : (g.flag v).srcPh i = g.srcPh i := rfl

theorem srcUp_cases (g : Ph) (j : Nat) (u : Up) :
    (g.onOut (.srcUp j u : Out (List α)) = g) ∨
    (∃ p, g.onOut (.srcUp j u : Out (List α)) = g.flag (.upNotLive j p) ∧ g.srcPh j ≠ .live) ∨
    (g.srcPh j = .live ∧ u ≠ .pull ∧ g.onOut (.srcUp j u : Out (List α)) = g.setSrc j .disposed) := by
  by_cases hl : g.srcPh j = .live
  · cases u with
    | pull => left; simp [Ph.onOut, hl]
    | term => right; right; simp [Ph.onOut, hl]
    | err e => right; right; simp [Ph.onOut, hl]
  · right; left
    cases u <;> exact ⟨g.srcPh j, by simp [Ph.onOut, hl], hl⟩

theorem srcUp_sinkPh (g : Ph) (j : Nat) (u : Up) (k : Nat) : (g.onOut (.srcUp j u : Out (List α))).sinkPh k = g.sinkPh k := by
  rcases srcUp_cases (α := α) g j u with h | ⟨p, h, _⟩ | ⟨_, _, h⟩ <;> rw [h] <;> simp

theorem srcUp_notLive (g : Ph) (j : Nat) (u : Up) (i : Nat) (hi : g.srcPh i ≠ .live) :
    (g.onOut (.srcUp j u : Out (List α))).srcPh i ≠ .live := by
  rcases srcUp_cases (α := α) g j u with h | ⟨p, h, _⟩ | ⟨_, _, h⟩ <;> rw [h]
  · exact hi
  · simpa using hi
  · simp only [Ph.srcPh_setSrc]; split
    · simp
    · exact hi

theorem srcUp_self_notLive (g : Ph) (j : Nat) (u : Up) (hu : u ≠ .pull) :
    (g.onOut (.srcUp j u : Out (List α))).srcPh j ≠ .live := by
  by_cases hl : g.srcPh j = .live
  · cases u with
    | pull => exact absurd rfl hu
    | term => simp [Ph.onOut, hl]
    | err e => simp [Ph.onOut, hl]
  · exact srcUp_notLive g j u j hl

/-! ## numeric / global part of the invariant -/

structure Glob (n : Nat) (st : St α) (g : Ph) : Prop where
  len : st.vals.length = n
  start : st.nStart = cnt n (fun j => !phAt st.slots j)
  data : st.nData = cnt n (fun j => (phAt st.vals j).isNone)
  fin : st.nEnd = cnt n (fun j => decide (g.srcPh j ≠ .ended))
  slot : ∀ j, phAt st.slots j = true ↔ (g.srcPh j = .live ∨ g.srcPh j = .ended ∨ g.srcPh j = .disposed)
  val : ∀ j, phAt st.slots j = false → phAt st.vals j = none
  oth : ∀ j, n ≤ j → g.srcPh j = .idle
  oths : ∀ k, k ≠ 0 → g.sinkPh k = .idle
  viols : OnlyUpNotLive g.viols

/-- every member has greeted -/
def AllSet (n : Nat) (st : St α) : Prop := ∀ j, j < n → phAt st.slots j = true

theorem Glob.lt_of_ne_idle {n : Nat} {st : St α} {g : Ph} (h : Glob n st g) {i : Nat} (hi : g.srcPh i ≠ .idle) : i < n := by
  apply Decidable.byContradiction
  intro hc
  exact hi (h.oth i (by omega))

theorem Glob.setSink {n : Nat} {st : St α} {g : Ph} (h : Glob n st g) (p : SinkPh) : Glob n st (g.setSink 0 p) := by
  refine ⟨h.len, h.start, h.data, h.fin, h.slot, h.val, h.oth, ?_, h.viols⟩
  intro k hk; simp [hk, h.oths k hk]

theorem Glob.flag {n : Nat} {st : St α} {g : Ph} (h : Glob n st g) (i : Nat) (p : SrcPh) : Glob n st (g.flag (.upNotLive i p)) := by
  refine ⟨h.len, h.start, h.data, h.fin, h.slot, h.val, h.oth, h.oths, ?_⟩
  intro v hv
  simp only [Ph.viols_flag, List.mem_cons] at hv
  rcases hv with rfl | hv
  · exact ⟨i, p, rfl⟩
  · exact h.viols v hv

theorem Glob.setSrc_same {n : Nat} {st : St α} {g : Ph} (h : Glob n st g) (i : Nat) (p : SrcPh)
    (hgreeted : (g.srcPh i = .live ∨ g.srcPh i = .ended ∨ g.srcPh i = .disposed) ↔ (p = .live ∨ p = .ended ∨ p = .disposed))
    (hended : g.srcPh i = .ended ↔ p = .ended) (hidle : g.srcPh i = .idle → p = .idle) :
    Glob n st (g.setSrc i p) := by
  refine ⟨h.len, h.start, h.data, ?_, ?_, h.val, ?_, h.oths, h.viols⟩
  · rw [h.fin]; apply cnt_congr
    intro j _
    simp only [Ph.srcPh_setSrc]
    by_cases hj : j = i
    · subst hj; simp [hended]
    · simp [hj]
  · intro j
    simp only [Ph.srcPh_setSrc]
    by_cases hj : j = i
    · subst hj; simp only [if_true]; rw [← hgreeted]; exact h.slot j
    · simp only [hj, if_false]; exact h.slot j
  · intro j hj
    simp only [Ph.srcPh_setSrc]
    by_cases hji : j = i
    · subst hji; simp [hidle (h.oth j hj)]
    · simp [hji, h.oth j hj]

theorem Glob.dispose {n : Nat} {st : St α} {g : Ph} (h : Glob n st g) {i : Nat} (hl : g.srcPh i = .live) :
    Glob n st (g.setSrc i .disposed) :=
  h.setSrc_same i .disposed (by simp [hl]) (by simp [hl]) (by simp [hl])

theorem Glob.subSrc {n : Nat} {st : St α} {g : Ph} (h : Glob n st g) {i : Nat} (hl : g.srcPh i = .idle) (hi : i < n) :
    Glob n st (g.setSrc i .subscribed) := by
  refine ⟨h.len, h.start, h.data, ?_, ?_, h.val, ?_, h.oths, h.viols⟩
  · rw [h.fin]; apply cnt_congr
    intro j _
    simp only [Ph.srcPh_setSrc]
    by_cases hj : j = i
    · subst hj; simp [hl]
    · simp [hj]
  · intro j
    simp only [Ph.srcPh_setSrc]
    by_cases hj : j = i
    · subst hj; simp only [if_true]; have := h.slot j; simp [hl] at this; simp [this]
    · simp only [hj, if_false]; exact h.slot j
  · intro j hj
    simp only [Ph.srcPh_setSrc]
    have : j ≠ i := by omega
    simp [this, h.oth j hj]

theorem Glob.srcUp {n : Nat} {st : St α} {g : Ph} (h : Glob n st g) (j : Nat) (u : Up) :
    Glob n st (g.onOut (.srcUp j u : Out (List α))) := by
  rcases srcUp_cases (α := α) g j u with e | ⟨p, e, _⟩ | ⟨hl, _, e⟩ <;> rw [e]
  · exact h
  · exact h.flag j p
  · exact h.dispose hl

theorem Glob.greet {n : Nat} {st : St α} {g : Ph} (h : Glob n st g) {i : Nat} (hs : g.srcPh i = .subscribed) :
    0 < st.nStart ∧ i < n ∧
    Glob n { st with slots := setAt st.slots i true, nStart := st.nStart - 1 } (g.setSrc i .live) := by
  have hi : i < n := h.lt_of_ne_idle (by simp [hs])
  have hslot : phAt st.slots i = false := by
    have := h.slot i; simp [hs] at this; simpa using this
  have hcnt := cnt_dec (p := fun j => !phAt st.slots j) (q := fun j => !phAt (setAt st.slots i true) j) hi
    (by simp [hslot]) (by simp [phAt_setAt]) (fun j hj => by simp [phAt_setAt, hj])
  have hst := h.start
  refine ⟨by omega, hi, ⟨h.len, ?_, h.data, ?_, ?_, ?_, ?_, h.oths, h.viols⟩⟩
  · show st.nStart - 1 = cnt n (fun j => !phAt (setAt st.slots i true) j); omega
  · show st.nEnd = _
    rw [h.fin]; apply cnt_congr
    intro j _
    simp only [Ph.srcPh_setSrc]
    by_cases hj : j = i
    · subst hj; simp [hs]
    · simp [hj]
  · intro j
    show phAt (setAt st.slots i true) j = true ↔ _
    simp only [Ph.srcPh_setSrc, phAt_setAt]
    by_cases hj : j = i
    · simp [hj]
    · simp only [hj, if_false]; exact h.slot j
  · intro j
    show phAt (setAt st.slots i true) j = false → phAt st.vals j = none
    simp only [phAt_setAt]
    by_cases hj : j = i
    · simp [hj]
    · simp only [hj, if_false]; exact h.val j
  · intro j hj
    simp only [Ph.srcPh_setSrc]
    have : j ≠ i := by omega
    simp [this, h.oth j hj]

theorem Glob.end {n : Nat} {st : St α} {g : Ph} (h : Glob n st g) {i : Nat} (hl : g.srcPh i = .live) :
    0 < st.nEnd ∧ Glob n { st with nEnd := st.nEnd - 1 } (g.setSrc i .ended) := by
  have hi : i < n := h.lt_of_ne_idle (by simp [hl])
  have hcnt := cnt_dec (p := fun j => decide (g.srcPh j ≠ .ended)) (q := fun j => decide ((g.setSrc i .ended).srcPh j ≠ .ended)) hi
    (by simp [hl]) (by simp) (fun j hj => by simp [hj])
  have hst := h.fin
  refine ⟨by omega, ⟨h.len, h.start, h.data, ?_, ?_, h.val, ?_, h.oths, h.viols⟩⟩
  · show st.nEnd - 1 = cnt n (fun j => decide ((g.setSrc i .ended).srcPh j ≠ .ended)); omega
  · intro j
    show phAt st.slots j = true ↔ _
    simp only [Ph.srcPh_setSrc]
    by_cases hj : j = i
    · subst hj; have := h.slot j; simp [hl] at this; simp [this]
    · simp only [hj, if_false]; exact h.slot j
  · intro j hj
    simp only [Ph.srcPh_setSrc]
    have : j ≠ i := by omega
    simp [this, h.oth j hj]

theorem Glob.dataStep {n : Nat} {st : St α} {g : Ph} (h : Glob n st g) {i : Nat} (hl : g.srcPh i = .live) (a : α) (nd : Nat)
    (hnd : ((phAt st.vals i).isNone = true ∧ nd = st.nData - 1) ∨ ((phAt st.vals i).isNone = false ∧ nd = st.nData)) :
    Glob n { st with nData := nd, vals := setAt st.vals i (some a) } g := by
  have hi : i < n := h.lt_of_ne_idle (by simp [hl])
  have hslot : phAt st.slots i = true := (h.slot i).2 (Or.inl hl)
  have hst := h.data
  refine ⟨?_, h.start, ?_, h.fin, h.slot, ?_, h.oth, h.oths, h.viols⟩
  · show (setAt st.vals i (some a)).length = n
    rw [length_setAt _ _ _ (by rw [h.len]; exact hi), h.len]
  · show nd = cnt n (fun j => (phAt (setAt st.vals i (some a)) j).isNone)
    rcases hnd with ⟨hn, rfl⟩ | ⟨hn, rfl⟩
    · have hcnt := cnt_dec (p := fun j => (phAt st.vals j).isNone) (q := fun j => (phAt (setAt st.vals i (some a)) j).isNone) hi
        hn (by simp [phAt_setAt]) (fun j hj => by simp [phAt_setAt, hj])
      omega
    · rw [hst]; apply cnt_congr
      intro j _
      by_cases hj : j = i
      · subst hj; simp [phAt_setAt, hn]
      · simp [phAt_setAt, hj]
  · intro j
    show phAt st.slots j = false → phAt (setAt st.vals i (some a)) j = none
    intro hf
    have hj : j ≠ i := by rintro rfl; rw [hslot] at hf; cases hf
    simp [phAt_setAt, hj, h.val j hf]

theorem Glob.allSet_iff {n : Nat} {st : St α} {g : Ph} (h : Glob n st g) : AllSet n st ↔ st.nStart = 0 := by
  constructor
  · intro ha; rw [h.start]; exact cnt_eq_zero (fun j hj => by simp [ha j hj])
  · intro hz j hj
    have := cnt_zero (h.start ▸ hz) j hj
    simpa using this

theorem Glob.allSet_of_nData {n : Nat} {st : St α} {g : Ph} (h : Glob n st g) (hz : st.nData = 0) : AllSet n st := by
  intro j hj
  have := cnt_zero (h.data ▸ hz) j hj
  cases hs : phAt st.slots j with
  | true => rfl
  | false => rw [h.val j hs] at this; simp at this

theorem Glob.unwrap {n : Nat} {st : St α} {g : Ph} (h : Glob n st g) (hz : st.nData = 0) : ∃ t, unwrapAll st.vals = some t := by
  apply unwrapAll_some
  intro j hj
  exact cnt_zero (h.data ▸ hz) j (h.len ▸ hj)

theorem Glob.no_sub {n : Nat} {st : St α} {g : Ph} (h : Glob n st g) (ha : AllSet n st) (i : Nat) : g.srcPh i ≠ .subscribed := by
  intro hs
  have hi : i < n := h.lt_of_ne_idle (by simp [hs])
  have := (h.slot i).1 (ha i hi)
  simp [hs] at this

theorem Glob.no_idle {n : Nat} {st : St α} {g : Ph} (h : Glob n st g) (ha : AllSet n st) (i : Nat) (hi : i < n) : g.srcPh i ≠ .idle := by
  intro hs
  have := (h.slot i).1 (ha i hi)
  simp [hs] at this

/-- all members ended ⇒ all have greeted -/
theorem Glob.allSet_of_nEnd {n : Nat} {st : St α} {g : Ph} (h : Glob n st g) (hz : st.nEnd = 0) : AllSet n st := by
  intro j hj
  have := cnt_zero (h.fin ▸ hz) j hj
  simp at this
  exact (h.slot j).2 (Or.inr (Or.inl this))

theorem Glob.notLive_of_nEnd {n : Nat} {st : St α} {g : Ph} (h : Glob n st g) (hz : st.nEnd = 0) : ∀ j, g.srcPh j ≠ .live := by
  intro j
  by_cases hj : j < n
  · have := cnt_zero (h.fin ▸ hz) j hj
    simp at this
    simp [this]
  · simp [h.oth j (by omega)]

/-! ## the invariant -/

/-- continuations that may sit below the top of the stack once every member has greeted: they only return or
continue a broadcast (which needs nothing but "all slots set") -/
def Quiet (n : Nat) : Loc α → Prop
  | .done => True
  | .subLoop i => n ≤ i
  | .uLoop _ _ => True
  | _ => False

def Benign (n : Nat) : Frame (Loc α) (List α) → Prop
  | .wait _ l => Quiet n l
  | .run _ => False

inductive Mode (n : Nat) (st : St α) (g : Ph) (stk : List (Frame (Loc α) (List α))) : Prop where
  | idle : g.sinkPh 0 = .idle → stk = [] → (∀ j, g.srcPh j = .idle) → st.nStart = n → Mode n st g stk
  | sub : g.sinkPh 0 = .subscribed → (n = 0 ∨ 0 < st.nStart) →
      (stk = [] ∨ ∃ i, stk = [.wait (.subSrc i) (.subLoop (i + 1))] ∧ i < n ∧ ∀ j, i < j → g.srcPh j = .idle) → Mode n st g stk
  | live : g.sinkPh 0 = .live → AllSet n st → (∀ f ∈ stk, Benign n f) → Mode n st g stk
  | disposing (j : Nat) (u : Up) (rest : List (Frame (Loc α) (List α))) : g.sinkPh 0 = .doneBySelf → AllSet n st → u ≠ .pull →
      (∀ j', j' ≤ j → g.srcPh j' ≠ .live) → stk = .wait (.srcUp j u) (.uLoop (j + 1) u) :: rest →
      (∀ f ∈ rest, Benign n f) → Mode n st g stk
  | over : (g.sinkPh 0 = .doneBySelf ∨ g.sinkPh 0 = .doneBySrc) → AllSet n st → (∀ j, g.srcPh j ≠ .live) →
      (∀ f ∈ stk, Benign n f) → Mode n st g stk

def Inv (n : Nat) (s : Sys (St α) (Loc α) α (List α)) : Prop :=
  s.panicked = none ∧ Glob n s.st s.g.ph ∧ Mode n s.st s.g.ph s.stack

/-- what is proved about every reachable configuration -/
def P (s : Sys (St α) (Loc α) α (List α)) : Prop := OnlyUpNotLive s.g.ph.viols ∧ s.panicked = none

theorem ctx_isSome_of_benign {n : Nat} {stk : List (Frame (Loc α) (List α))}
    (h : ∀ f ∈ stk, Benign n f) : (ctxOf stk).isSome := by
  cases stk with
  | nil => simp [ctxOf]
  | cons f r =>
    have := h f (by simp)
    cases f with
    | run l => simp [Benign] at this
    | wait o l => simp [ctxOf]

theorem inv_turn (n : Nat) (s : Sys (St α) (Loc α) α (List α)) (h : Inv n s) : EnvTurn s ∧ P s := by
  obtain ⟨hp, hg, hm⟩ := h
  refine ⟨⟨hp, ?_⟩, hg.viols, hp⟩
  cases hm with
  | idle _ h => simp [h, ctxOf]
  | sub _ _ h =>
    rcases h with h | ⟨i, h, _⟩ <;> simp [h, ctxOf]
  | live _ _ h => exact ctx_isSome_of_benign h
  | disposing j u rest _ _ _ _ h => simp [h, ctxOf]
  | over _ _ _ h => exact ctx_isSome_of_benign h

theorem inv_mk {n k : Nat} {s : Sys (St α) (Loc α) α (List α)} {st : St α} {stk : List (Frame (Loc α) (List α))} {g : G}
    {tr : List (Ev α (List α))} (he : advance (machine α n) k s = ⟨st, stk, g, tr, none⟩)
    (hg : Glob n st g.ph) (hm : Mode n st g.ph stk) : ∃ k, Inv n (advance (machine α n) k s) :=
  ⟨k, by rw [he]; exact ⟨rfl, hg, hm⟩⟩

/-- one step of the broadcast loop: with all slots set it never panics -/
theorem uLoop_step (n : Nat) (st : St α) (ha : AllSet n st) (j : Nat) (u : Up) (stk : List (Frame (Loc α) (List α))) (g : G)
    (tr : List (Ev α (List α))) :
    (j < n ∧ advance (machine α n) 1 ⟨st, .run (.uLoop j u) :: stk, g, tr, none⟩ =
      ⟨st, .wait (.srcUp j u) (.uLoop (j + 1) u) :: stk, g.onOut (machine α n).shape (.srcUp j u : Out (List α)), .out (.srcUp j u) :: tr, none⟩) ∨
    (n ≤ j ∧ advance (machine α n) 1 ⟨st, .run (.uLoop j u) :: stk, g, tr, none⟩ = ⟨st, stk, g.onRetO stk.length, .retO :: tr, none⟩) := by
  by_cases hj : j < n
  · left; exact ⟨hj, by simp [advance, opStep, machine, step, hj, ha j hj]⟩
  · right; exact ⟨by omega, by simp [advance, opStep, machine, step, hj]⟩

/-- resuming a quiet continuation -/
theorem resume (n : Nat) (st : St α) (ha : AllSet n st) (l : Loc α) (hq : Quiet n l) (stk : List (Frame (Loc α) (List α))) (g : G)
    (tr : List (Ev α (List α))) :
    (∃ g' tr', advance (machine α n) 1 ⟨st, .run l :: stk, g, tr, none⟩ = ⟨st, stk, g', tr', none⟩ ∧ g'.ph = g.ph) ∨
    (∃ j u g' tr', j < n ∧ advance (machine α n) 1 ⟨st, .run l :: stk, g, tr, none⟩ =
        ⟨st, .wait (.srcUp j u) (.uLoop (j + 1) u) :: stk, g', tr', none⟩ ∧ g'.ph = g.ph.onOut (.srcUp j u : Out (List α))) := by
  cases l with
  | done => left; exact ⟨g.onRetO stk.length, .retO :: tr, by simp [advance, opStep, machine, step], by simp⟩
  | subLoop i =>
    simp only [Quiet] at hq
    have : ¬ i < n := by omega
    left; exact ⟨g.onRetO stk.length, .retO :: tr, by simp [advance, opStep, machine, step, this], by simp⟩
  | uLoop j u =>
    rcases uLoop_step n st ha j u stk g tr with ⟨hj, h⟩ | ⟨hj, h⟩
    · right; exact ⟨j, u, _, _, hj, h, by simp⟩
    · left; exact ⟨_, _, h, by simp⟩
  | _ => simp [Quiet] at hq

macro "exec" n:num : tactic =>
  `(tactic| (refine ⟨$n, ?_⟩; simp [advance, opStep, machine, enter, step, Ph.onIn, Ph.onOut, Inv, isFinal, *]))

theorem inv_step (n : Nat) (s s' : Sys (St α) (Loc α) α (List α)) (m : Move α) (h : Inv n s)
    (hs : EnvStep (machine α n) m s s') : ∃ k, Inv n (advance (machine α n) k s') := by
  obtain ⟨hp, hg, hm⟩ := h
  cases hs with
  | @call st stk g tr c i hc hl =>
    simp only at hp hg hm
    cases i with
    | subscribe k =>
      simp only [legalIn, Bool.and_eq_true, beq_iff_eq, machine, Bool.or_false] at hl
      obtain ⟨⟨hc', hidle⟩, rfl⟩ := hl
      cases hm with
      | idle h1 h2 h3 h4 =>
        subst h2
        have hopen : (g.ph.setSink 0 .subscribed).anySinkOpen = true := (Ph.anySinkOpen_iff _).2 ⟨0, by simp⟩
        by_cases hn : 0 < n
        · exec 1
          exact ⟨(hg.setSink _).subSrc (by simp [h3]) hn, Mode.sub (by simp) (Or.inr (by omega))
            (Or.inr ⟨0, rfl, hn, fun j hj => by simp [show j ≠ 0 by omega, h3]⟩)⟩
        · exec 1
          exact ⟨hg.setSink _, Mode.sub (by simp) (Or.inl (by omega)) (Or.inl rfl)⟩
      | _ => simp_all
    | sinkUp k u =>
      simp only [legalIn, Bool.and_eq_true, beq_iff_eq, Bool.or_eq_true] at hl
      obtain ⟨hlive, hctx⟩ := hl
      have hk : k = 0 := by
        apply Decidable.byContradiction; intro hk
        rw [hg.oths k hk] at hlive; cases hlive
      subst hk
      cases hm with
      | live h1 h2 h3 =>
        rcases uLoop_step n st h2 0 u stk (g.onIn stk.length (.sinkUp 0 u)) (.inp (.sinkUp 0 u) :: tr) with ⟨hj, he⟩ | ⟨hj, he⟩
        · refine inv_mk he ?_ ?_
          · simp only [onOut_ph, onIn_ph]
            cases u <;> simp only [Ph.onIn]
            · exact hg.srcUp 0 _
            · exact (hg.setSink _).srcUp 0 _
            · exact (hg.setSink _).srcUp 0 _
          · simp only [onOut_ph, onIn_ph]
            cases u with
            | pull =>
              simp only [Ph.onIn]
              exact Mode.live (by rw [srcUp_sinkPh]; exact h1) h2 (List.forall_mem_cons.2 ⟨by simp [Benign, Quiet], h3⟩)
            | term =>
              simp only [Ph.onIn]
              exact Mode.disposing 0 .term stk (by rw [srcUp_sinkPh]; simp) h2 (by simp)
                (fun j' hj' => by have : j' = 0 := by omega
                                  subst this; exact srcUp_self_notLive _ _ _ (by simp)) rfl h3
            | err e =>
              simp only [Ph.onIn]
              exact Mode.disposing 0 (.err e) stk (by rw [srcUp_sinkPh]; simp) h2 (by simp)
                (fun j' hj' => by have : j' = 0 := by omega
                                  subst this; exact srcUp_self_notLive _ _ _ (by simp)) rfl h3
        · have hnl : ∀ j, g.ph.srcPh j ≠ .live := fun j => by simp [hg.oth j (by omega)]
          refine inv_mk he ?_ ?_
          · simp only [onRetO_ph, onIn_ph]
            cases u <;> simp only [Ph.onIn]
            · exact hg
            · exact hg.setSink _
            · exact hg.setSink _
          · simp only [onRetO_ph, onIn_ph]
            cases u with
            | pull => simp only [Ph.onIn]; exact Mode.live h1 h2 h3
            | term => simp only [Ph.onIn]; exact Mode.over (Or.inl (by simp)) h2 (by simpa using hnl) h3
            | err e => simp only [Ph.onIn]; exact Mode.over (Or.inl (by simp)) h2 (by simpa using hnl) h3
      | _ => simp_all
    | srcGreet i =>
      simp only [legalIn, Bool.and_eq_true, beq_iff_eq, machine, Bool.false_and, Bool.or_false] at hl
      obtain ⟨hsub, hin⟩ := hl
      cases hm with
      | idle h1 h2 h3 h4 => simp [h3] at hsub
      | sub h1 h2 h3 =>
        rcases h3 with rfl | ⟨i0, rfl, hi0, hidle⟩
        · simp [ctxOf] at hc; subst hc; simp [inSub] at hin
        · simp [ctxOf] at hc; subst hc; simp [inSub] at hin; subst hin
          obtain ⟨hpos, hi, hg'⟩ := hg.greet hsub
          by_cases hz : st.nStart - 1 = 0
          · rw [hz] at hg'
            have hall := hg'.allSet_iff.2 rfl
            have hni : n ≤ i + 1 := by
              apply Decidable.byContradiction; intro hc
              have h1 := hg'.no_idle hall (i + 1) (by omega)
              simp [hidle (i + 1) (by omega)] at h1
            exec 3
            refine ⟨hg'.setSink _, Mode.live (by simp) hall ?_⟩
            simp [Benign, Quiet, hni]
          · exec 3
            exact Mode.sub (by simpa using h1) (Or.inr (by show 0 < st.nStart - 1; omega))
              (Or.inr ⟨i, rfl, hi, fun j hj => by simp [show j ≠ i by omega, hidle j hj]⟩)
      | live h1 h2 h3 => exact absurd hsub (hg.no_sub h2 i)
      | disposing j u rest h1 h2 => exact absurd hsub (hg.no_sub h2 i)
      | over h1 h2 => exact absurd hsub (hg.no_sub h2 i)
    | srcDown i d =>
      simp only [legalIn, Bool.and_eq_true, beq_iff_eq, Bool.or_eq_true] at hl
      obtain ⟨hlive, hctx⟩ := hl
      have hi : i < n := hg.lt_of_ne_idle (by simp [hlive])
      cases hm with
      | idle h1 h2 h3 h4 => simp [h3] at hlive
      | disposing j u rest h1 h2 h3 h4 h5 h6 =>
        subst h5; simp [ctxOf] at hc; subst hc; cases u <;> simp_all [isTop, inSub, inPull]
      | over h1 h2 h3 h4 => exact absurd hlive (h3 i)
      | sub h1 h2 h3 =>
        have hpos : 0 < st.nStart := by omega
        cases d with
        | data a =>
          by_cases hn : (phAt st.vals i).isNone = true
          · have hg' := hg.dataStep hlive a (st.nData - 1) (Or.inl ⟨hn, rfl⟩)
            have hnd : ¬ st.nData - 1 = 0 := by
              intro hz
              have := hg'.allSet_iff.1 (hg'.allSet_of_nData hz)
              simp at this; omega
            exec 4
            exact Mode.sub h1 h2 h3
          · have hn' : (phAt st.vals i).isNone = false := by cases h : (phAt st.vals i).isNone <;> simp_all
            have hg' := hg.dataStep hlive a st.nData (Or.inr ⟨hn', rfl⟩)
            have hnd : ¬ st.nData = 0 := by
              intro hz
              have := hg'.allSet_iff.1 (hg'.allSet_of_nData hz)
              simp at this; omega
            exec 4
            exact Mode.sub h1 h2 h3
        | _ =>
          obtain ⟨hpos', hg'⟩ := hg.end hlive
          have hne : ¬ st.nEnd - 1 = 0 := by
            intro hz
            have := hg'.allSet_iff.1 (hg'.allSet_of_nEnd hz)
            simp at this; omega
          have h3' : stk = [] ∨ ∃ i0, stk = [.wait (.subSrc i0) (.subLoop (i0 + 1))] ∧ i0 < n ∧
              ∀ j, i0 < j → (g.ph.setSrc i .ended).srcPh j = .idle := by
            rcases h3 with h | ⟨i0, hs, hi0, hid⟩
            · exact Or.inl h
            · refine Or.inr ⟨i0, hs, hi0, fun j hj => ?_⟩
              have := hid j hj
              by_cases hji : j = i
              · subst hji; rw [hlive] at this; cases this
              · simp [hji, this]
          exec 2
          exact Mode.sub (by simpa using h1) h2 h3'
      | live h1 h2 h3 =>
        cases d with
        | data a =>
          by_cases hn : (phAt st.vals i).isNone = true
          · have hg' := hg.dataStep hlive a (st.nData - 1) (Or.inl ⟨hn, rfl⟩)
            by_cases hz : st.nData - 1 = 0
            · obtain ⟨t, ht⟩ := hg'.unwrap hz
              simp only at ht
              rw [hz] at hg'
              exec 6
              exact Mode.live h1 h2 (List.forall_mem_cons.2 ⟨by simp [Benign, Quiet], h3⟩)
            · exec 4
              exact Mode.live h1 h2 h3
          · have hn' : (phAt st.vals i).isNone = false := by cases h : (phAt st.vals i).isNone <;> simp_all
            have hg' := hg.dataStep hlive a st.nData (Or.inr ⟨hn', rfl⟩)
            by_cases hz : st.nData = 0
            · obtain ⟨t, ht⟩ := hg'.unwrap hz
              simp only at ht
              rw [hz] at hg'
              exec 6
              exact Mode.live h1 h2 (List.forall_mem_cons.2 ⟨by simp [Benign, Quiet], h3⟩)
            · exec 4
              exact Mode.live h1 h2 h3
        | _ =>
          obtain ⟨hpos', hg'⟩ := hg.end hlive
          by_cases hz : st.nEnd - 1 = 0
          · have hnl := hg'.notLive_of_nEnd hz
            rw [hz] at hg'
            exec 2
            exact ⟨hg'.setSink _, Mode.over (Or.inr (by simp)) h2 (fun j => by simpa using hnl j)
              (List.forall_mem_cons.2 ⟨by simp [Benign, Quiet], h3⟩)⟩
          · exec 2
            exact Mode.live (by simpa using h1) h2 h3
  | @ret st stk g tr o l hl =>
    simp only at hp hg hm
    cases hm with
    | idle h1 h2 => simp at h2
    | sub h1 h2 h3 =>
      rcases h3 with h | ⟨i, h, hi, hidle⟩
      · simp at h
      · simp at h; obtain ⟨⟨rfl, rfl⟩, rfl⟩ := h
        by_cases hlt : i + 1 < n
        · have hopen : g.ph.anySinkOpen = true := (Ph.anySinkOpen_iff _).2 ⟨0, Or.inl h1⟩
          have hid := hidle (i + 1) (by omega)
          exec 1
          exact ⟨hg.subSrc hid hlt, Mode.sub (by simpa using h1) h2
            (Or.inr ⟨i + 1, rfl, hlt, fun j hj => by simp [show j ≠ i + 1 by omega, hidle j (by omega)]⟩)⟩
        · exec 1
          exact Mode.sub h1 h2 (Or.inl rfl)
    | live h1 h2 h3 =>
      have hben := h3 _ List.mem_cons_self
      have hrest := (List.forall_mem_cons.1 h3).2
      simp only [Benign] at hben
      rcases resume n st h2 l hben stk g (.retE :: tr) with ⟨g', tr', he, hph⟩ | ⟨j, u, g', tr', hj, he, hph⟩
      · exact inv_mk he (by rw [hph]; exact hg) (by rw [hph]; exact Mode.live h1 h2 hrest)
      · exact inv_mk he (by rw [hph]; exact hg.srcUp j u)
          (by rw [hph]; exact Mode.live (by rw [srcUp_sinkPh]; exact h1) h2
                (List.forall_mem_cons.2 ⟨by simp [Benign, Quiet], hrest⟩))
    | disposing j u rest h1 h2 h3 h4 h5 h6 =>
      simp at h5; obtain ⟨⟨rfl, rfl⟩, rfl⟩ := h5
      rcases uLoop_step n st h2 (j + 1) u stk g (.retE :: tr) with ⟨hj, he⟩ | ⟨hj, he⟩
      · refine inv_mk he (by simp only [onOut_ph]; exact hg.srcUp _ _) ?_
        simp only [onOut_ph]
        refine Mode.disposing (j + 1) u stk (by rw [srcUp_sinkPh]; exact h1) h2 h3 (fun j' hj' => ?_) rfl h6
        by_cases hjj : j' ≤ j
        · exact srcUp_notLive _ _ _ _ (h4 j' hjj)
        · have : j' = j + 1 := by omega
          subst this; exact srcUp_self_notLive _ _ _ h3
      · refine inv_mk he (by simp only [onRetO_ph]; exact hg) ?_
        simp only [onRetO_ph]
        refine Mode.over (Or.inl h1) h2 (fun j' => ?_) h6
        by_cases hj' : j' ≤ j
        · exact h4 j' hj'
        · simp [hg.oth j' (by omega)]
    | over h1 h2 h3 h4 =>
      have hben := h4 _ List.mem_cons_self
      have hrest := (List.forall_mem_cons.1 h4).2
      simp only [Benign] at hben
      rcases resume n st h2 l hben stk g (.retE :: tr) with ⟨g', tr', he, hph⟩ | ⟨j, u, g', tr', hj, he, hph⟩
      · exact inv_mk he (by rw [hph]; exact hg) (by rw [hph]; exact Mode.over h1 h2 h3 hrest)
      · exact inv_mk he (by rw [hph]; exact hg.srcUp j u)
          (by rw [hph]; exact Mode.over (by rw [srcUp_sinkPh]; exact h1) h2 (fun j' => srcUp_notLive _ _ _ _ (h3 j'))
                (List.forall_mem_cons.2 ⟨by simp [Benign, Quiet], hrest⟩))

theorem inv_init (n : Nat) : Inv n (Sys.init (machine α n)) := by
  refine ⟨rfl, ⟨?_, ?_, ?_, ?_, ?_, ?_, ?_, ?_, ?_⟩, Mode.idle (by simp [Sys.init]) rfl (by simp [Sys.init]) rfl⟩
  · simp [Sys.init, machine]
  · show n = cnt n (fun j => !phAt (List.replicate n false) j)
    rw [cnt_all]; intro j _; rw [show false = (default : Bool) from rfl, phAt_replicate]; rfl
  · show n = cnt n (fun j => (phAt (List.replicate n (none : Option α)) j).isNone)
    rw [cnt_all]; intro j _; rw [show (none : Option α) = default from rfl, phAt_replicate]; rfl
  · show n = cnt n (fun j => decide (({} : Ph).srcPh j ≠ .ended))
    rw [cnt_all]; intro j _; simp
  · intro j
    show phAt (List.replicate n false) j = true ↔ _
    rw [show false = (default : Bool) from rfl, phAt_replicate]
    simp [Sys.init]
  · intro j _
    show phAt (List.replicate n (none : Option α)) j = none
    rw [show (none : Option α) = default from rfl, phAt_replicate]
  · intro j _; simp [Sys.init]
  · intro k _; simp [Sys.init]
  · intro v hv; simp [Sys.init] at hv

theorem P_mono (n : Nat) (s s' : Sys (St α) (Loc α) α (List α)) (h : opStep (machine α n) s = some s') (hs : P s') : P s := by
  obtain ⟨⟨l, hl⟩, _, hp⟩ := opStep_viols_suffix (machine α n) s s' h
  refine ⟨fun v hv => hs.1 v ?_, hp hs.2⟩
  rw [hl]; exact List.mem_append_right _ hv

/-- combine!, every arity `n` (also 0): under every conformant environment (re-entrant sink, members that deliver, end or
fail synchronously inside their subscribing call, nested disposal inside a `Pull` broadcast) the operator never panics,
and the only phase-level violations it commits are `Pull`/`Terminate`/`Error` sent to members that are not live. -/
theorem combine_safe_partial {α : Type} (n : Nat) :
    ∀ s, SReach (machine α n) s → OnlyUpNotLive s.g.ph.viols ∧ s.panicked = none :=
  reach_of_macro_inv (machine α n) anyEnv P (Inv n) (inv_init n) (inv_turn n)
    (fun s s' m hi he _ => inv_step n s s' m hi he) (P_mono n)

end Cb.Combine

#print axioms Cb.Combine.combine_safe_partial
