import CallbagModel.Sem
import CallbagModel.Mon
/-!
# The machine-free monitor computes the ghost of the configuration

`monRun sh evs` (Mon.lean) judges traces recorded from the real crate; the theorems of the project are about the ghost `s.g`
carried by `Sys`.  Here: on every model execution (`SReach`, conformant environment) the two are the same function of the
boundary trace — `(monRun M.shape s.tr.reverse).g = s.g`, the monitor never rejects the trace (`envOk`, `shapeOk`), never
classifies a call as cross-peer (`cross = 0`, `wide = 0`) and sees a panic exactly when the model panicked.

The monitor's abstract call stack `cs` relates to the model's stack by `absStk`: the model keeps ONE frame per open operator
handler (`.run l`, replaced by `.wait o l'` while the handler waits for a call it made), the monitor pushes `.op` at the call
and `.env o` ON TOP of it for the call made.  Hence `.run _ ↦ [.op]`, `.wait o _ ↦ [.env o, .op]`, and `opHeight` (which counts
only `.op`) is the LENGTH of the model's stack: the heights given to `G.onIn` / `G.onRetO` agree.
-/
namespace Cb

variable {St Loc α β : Type}

/-- the monitor's call stack that corresponds to a stack of the model -/
def absStk : List (Frame Loc β) → List (CFrame β)
  | [] => []
  | .run _ :: r => .op :: absStk r
  | .wait o _ :: r => .env o :: .op :: absStk r

theorem opHeight_absStk (stk : List (Frame Loc β)) : opHeight (absStk stk) = stk.length := by
  induction stk with
  | nil => rfl
  | cons f r ih => cases f <;> simp [absStk, opHeight, ih]

theorem ctxOfC_absStk (stk : List (Frame Loc β)) : ctxOfC (absStk stk) = ctxOf stk := by
  cases stk with
  | nil => rfl
  | cons f r => cases f <;> rfl

/-- `monRun` is a left fold: one more (newest) event is one more `monStep` -/
theorem monRun_snoc (sh : Shape) (evs : List (Ev α β)) (e : Ev α β) :
    monRun sh (evs ++ [e]) = monStep sh (monRun sh evs) e := by
  simp [monRun, List.foldl_append]

/-- a call that is legal for `legalIn` is legal for `legalInX` and is neither cross-peer nor wide -/
theorem legalInX_of_legalIn {sh : Shape} {g : Ph} {c : Ctx β} {i : In α} (h : legalIn sh g c i = true) :
    legalInX sh g c i = true ∧ isCross sh g c i = false ∧ isWide sh g c i = false := by
  simp [legalInX, isCross, isWide, h]

/-- the monitor state and the configuration agree -/
structure MonRel (m : MonSt β) (s : Sys St Loc α β) : Prop where
  g : m.g = s.g
  envOk : m.envOk = true
  shapeOk : m.shapeOk = true
  panicked : m.panicked = s.panicked.isSome
  cross : m.cross = 0
  wide : m.wide = 0
  /-- while the model has not panicked (a panic pops the frame in the model, not in the monitor; both stop there) -/
  cs : s.panicked = none → m.cs = absStk s.stack

theorem MonRel.init (M : Machine St Loc α β) : MonRel (α := α) ({} : MonSt β) (Sys.init M) :=
  ⟨rfl, rfl, rfl, rfl, rfl, rfl, fun _ => rfl⟩

/-- an operator micro-step: `tau` leaves trace and monitor alone; `call`, `ret`, `panic` record one event, and `monStep` on that
event re-establishes the relation -/
theorem MonRel.opStep {M : Machine St Loc α β} {m : MonSt β} {a b : Sys St Loc α β} (hr : MonRel m a) (h : opStep M a = some b) :
    (b.tr = a.tr ∧ MonRel m b) ∨ ∃ e, b.tr = e :: a.tr ∧ MonRel (monStep M.shape m e) b := by
  obtain ⟨st, stk, g, tr, p⟩ := a
  obtain ⟨mg, mcs, mEnv, mShape, mPan, mCross, mWide⟩ := m
  obtain ⟨hg, he, hs, hp, hc, hw, hcs⟩ := hr
  simp only at hg he hs hp hc hw hcs
  unfold Cb.opStep at h
  cases p with
  | some _ => simp at h
  | none =>
    simp only [Option.isSome_none, Bool.false_eq_true, ↓reduceIte] at h
    have hcs := hcs rfl
    subst hg he hs hc hw hcs
    simp only [Option.isSome_none] at hp; subst hp
    cases stk with
    | nil => simp at h
    | cons f r =>
      cases f with
      | wait o l => simp at h
      | run l =>
        simp only at h
        cases hst : M.step st l with
        | tau s' l' =>
          simp only [hst, Option.some.injEq] at h; subst h
          exact Or.inl ⟨rfl, ⟨rfl, rfl, rfl, rfl, rfl, rfl, fun _ => rfl⟩⟩
        | call o s' l' =>
          simp only [hst, Option.some.injEq] at h; subst h
          refine Or.inr ⟨.out o, rfl, ?_⟩
          simp only [monStep, absStk, Bool.not_true, Bool.or_self, Bool.false_eq_true, ↓reduceIte]
          exact ⟨rfl, rfl, rfl, rfl, rfl, rfl, fun _ => rfl⟩
        | ret =>
          simp only [hst, Option.some.injEq] at h; subst h
          refine Or.inr ⟨.retO, rfl, ?_⟩
          simp only [monStep, absStk, Bool.not_true, Bool.or_self, Bool.false_eq_true, ↓reduceIte, opHeight_absStk]
          exact ⟨rfl, rfl, rfl, rfl, rfl, rfl, fun _ => rfl⟩
        | panic msg =>
          simp only [hst, Option.some.injEq] at h; subst h
          refine Or.inr ⟨.panic, rfl, ?_⟩
          simp only [monStep, Bool.not_true, Bool.or_self, Bool.false_eq_true, ↓reduceIte]
          exact ⟨rfl, rfl, rfl, rfl, rfl, rfl, fun hn => by cases hn⟩

/-- an environment move records one event, and `monStep` on that event re-establishes the relation -/
theorem MonRel.envStep {M : Machine St Loc α β} {m : MonSt β} {mv : Move α} {a b : Sys St Loc α β} (hr : MonRel m a)
    (h : EnvStep M mv a b) : ∃ e, b.tr = e :: a.tr ∧ MonRel (monStep M.shape m e) b := by
  obtain ⟨mg, mcs, mEnv, mShape, mPan, mCross, mWide⟩ := m
  cases h with
  | @call st stk g tr c i hctx hl =>
    obtain ⟨hg, he, hs, hp, hc, hw, hcs⟩ := hr
    simp only at hg he hs hp hc hw
    have hcs' : mcs = absStk stk := hcs rfl
    subst hg he hs hc hw hcs'
    simp only [Option.isSome_none] at hp; subst hp
    obtain ⟨hx, hcr, hwd⟩ := legalInX_of_legalIn hl
    refine ⟨.inp i, rfl, ?_⟩
    simp only [monStep, Bool.not_true, Bool.or_self, Bool.false_eq_true, ↓reduceIte, ctxOfC_absStk, hctx, hx, hcr, hwd,
      opHeight_absStk, Nat.add_zero]
    exact ⟨rfl, rfl, rfl, rfl, rfl, rfl, fun _ => rfl⟩
  | @ret st stk g tr o l hl =>
    obtain ⟨hg, he, hs, hp, hc, hw, hcs⟩ := hr
    simp only at hg he hs hp hc hw
    have hcs' : mcs = absStk (.wait o l :: stk) := hcs rfl
    subst hg he hs hc hw hcs'
    simp only [Option.isSome_none] at hp; subst hp
    refine ⟨.retE, rfl, ?_⟩
    simp only [monStep, absStk, Bool.not_true, Bool.or_self, Bool.false_eq_true, ↓reduceIte, hl]
    exact ⟨rfl, rfl, rfl, rfl, rfl, rfl, fun _ => rfl⟩

/-- the invariant: the machine-free monitor, run on the recorded trace, is in the state that corresponds to the configuration
(for every restriction `R` of the conformant environment) -/
theorem monRel_of_reach (M : Machine St Loc α β) (R : Restr St Loc α β) :
    ∀ s, SReachR M R s → MonRel (monRun M.shape s.tr.reverse) s := by
  intro s hs
  induction hs with
  | init => exact MonRel.init M
  | @step a b _ hab ih =>
    cases hab with
    | op h =>
      rcases ih.opStep h with ⟨htr, hr⟩ | ⟨e, htr, hr⟩
      · rw [htr]; exact hr
      · rw [htr, List.reverse_cons, monRun_snoc]; exact hr
    | env h _ =>
      obtain ⟨e, htr, hr⟩ := ih.envStep h
      rw [htr, List.reverse_cons, monRun_snoc]; exact hr

/-- **Soundness of the machine-free monitor.**  On every execution of the model under the conformant environment, `monRun` applied to
the recorded boundary trace (chronological) computes exactly the ghost carried by the configuration, accepts the trace
(`envOk`, `shapeOk`), reports a panic iff the model panicked, and counts no cross-peer call. -/
theorem monRun_sound (M : Machine St Loc α β) :
    ∀ s, SReach M s →
      let m := monRun M.shape s.tr.reverse
      m.g = s.g ∧ m.envOk = true ∧ m.shapeOk = true ∧ m.panicked = s.panicked.isSome ∧ m.cross = 0 ∧ m.wide = 0 := by
  intro s hs
  have h := monRel_of_reach M anyEnv s hs
  exact ⟨h.g, h.envOk, h.shapeOk, h.panicked, h.cross, h.wide⟩

/-- … and the monitor's call stack is the abstraction of the model's stack (until a panic) -/
theorem monRun_cs (M : Machine St Loc α β) :
    ∀ s, SReach M s → s.panicked = none → (monRun M.shape s.tr.reverse).cs = absStk s.stack :=
  fun s hs hp => (monRel_of_reach M anyEnv s hs).cs hp

/-- the violations recorded by the machine-free monitor are those of the configuration (no hypothesis on `panicked` is needed: a
panic records nothing in the ghost, on either side) -/
theorem monRun_viols (M : Machine St Loc α β) :
    ∀ s, SReach M s → (monRun M.shape s.tr.reverse).g.viols = s.g.viols :=
  fun s hs => by rw [(monRun_sound M s hs).1]

/-- the corollary in the form used informally in the project -/
theorem monRun_viols_of_not_panicked (M : Machine St Loc α β) :
    ∀ s, SReach M s → s.panicked = none → (monRun M.shape s.tr.reverse).g.viols = s.g.viols :=
  fun s hs _ => monRun_viols M s hs

/-- `SafeFor p s` can be read off the machine-free monitor -/
theorem safeFor_iff_monRun (M : Machine St Loc α β) (p : Nat) :
    ∀ s, SReach M s →
      (SafeFor p s ↔
        (∀ v ∈ (monRun M.shape s.tr.reverse).g.viols, v.prop ≠ p) ∧ (p = 17 → (monRun M.shape s.tr.reverse).panicked = false)) := by
  intro s hs
  have hg := (monRel_of_reach M anyEnv s hs).g
  have hp := (monRel_of_reach M anyEnv s hs).panicked
  unfold SafeFor
  rw [hg, hp]
  cases s.panicked <;> simp

/-- `Safe s` likewise -/
theorem safe_iff_monRun (M : Machine St Loc α β) :
    ∀ s, SReach M s →
      (Safe s ↔ (monRun M.shape s.tr.reverse).g.viols = [] ∧ (monRun M.shape s.tr.reverse).panicked = false) := by
  intro s hs
  have hg := (monRel_of_reach M anyEnv s hs).g
  have hp := (monRel_of_reach M anyEnv s hs).panicked
  unfold Safe
  rw [hg, hp]
  cases s.panicked <;> simp

end Cb

#print axioms Cb.monRun_sound
#print axioms Cb.monRun_viols
#print axioms Cb.safeFor_iff_monRun
#print axioms Cb.safe_iff_monRun
