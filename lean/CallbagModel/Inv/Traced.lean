import CallbagModel.Ops.Traced
/-!
# Tracing is observationally inert (C20)

For EVERY machine `M`, the reachable configurations of `traced M` and of `M` are the same up to `eraseSys`: same operator state,
same ghost (hence the same recorded violations), same boundary trace, same panic flag.
-/
namespace Cb
variable {St Loc α β : Type}

/-! ### erasure and the pieces of a configuration the environment looks at -/

theorem ctxOf_map_eraseFrame (stk : List (Frame (TLoc Loc) β)) : ctxOf (stk.map eraseFrame) = ctxOf stk := by
  cases stk with
  | nil => rfl
  | cons f r =>
    cases f with
    | run l => cases l <;> rfl
    | wait o l => cases l <;> rfl

theorem eraseSys_init (M : Machine St Loc α β) : eraseSys (Sys.init (traced M)) = Sys.init M := rfl

/-- an operator step of the traced machine is a stutter or exactly one operator step of the original machine -/
theorem opStep_traced_erase (M : Machine St Loc α β) (a b : Sys St (TLoc Loc) α β) (h : opStep (traced M) a = some b) :
    eraseSys b = eraseSys a ∨ opStep M (eraseSys a) = some (eraseSys b) := by
  obtain ⟨st, stk, g, tr, p⟩ := a
  cases p with
  | some m => simp [opStep] at h
  | none =>
    cases stk with
    | nil => simp [opStep] at h
    | cons f r =>
      cases f with
      | wait o l => simp [opStep] at h
      | run tl =>
        cases tl with
        | pre l =>
          simp only [opStep, traced, Option.isSome_none, Bool.false_eq_true, ↓reduceIte, Option.some.injEq] at h
          subst h
          left; cases r <;> rfl
        | «at» l =>
          simp only [opStep, traced, Option.isSome_none, Bool.false_eq_true, ↓reduceIte] at h
          cases hst : M.step st l with
          | call o st' l' =>
            simp only [hst, Option.some.injEq] at h
            subst h
            left; rfl
          | tau st' l' =>
            simp only [hst, Option.some.injEq] at h
            subst h
            right
            simp only [opStep, eraseSys, List.map_cons, eraseFrame, Option.isSome_none, Bool.false_eq_true, ↓reduceIte, hst]
          | ret =>
            simp only [hst, Option.some.injEq] at h
            subst h
            right
            simp only [opStep, eraseSys, List.map_cons, eraseFrame, Option.isSome_none, Bool.false_eq_true, ↓reduceIte, hst,
              List.length_map]
          | panic m =>
            simp only [hst, Option.some.injEq] at h
            subst h
            right
            simp only [opStep, eraseSys, List.map_cons, eraseFrame, Option.isSome_none, Bool.false_eq_true, ↓reduceIte, hst]
        | logged l =>
          simp only [opStep, traced, Option.isSome_none, Bool.false_eq_true, ↓reduceIte] at h
          right
          cases hst : M.step st l with
          | call o st' l' =>
            simp only [hst, Option.some.injEq] at h
            subst h
            simp only [opStep, eraseSys, List.map_cons, eraseFrame, Option.isSome_none, Bool.false_eq_true, ↓reduceIte, hst]
          | tau st' l' =>
            simp only [hst, Option.some.injEq] at h
            subst h
            simp only [opStep, eraseSys, List.map_cons, eraseFrame, Option.isSome_none, Bool.false_eq_true, ↓reduceIte, hst]
          | ret =>
            simp only [hst, Option.some.injEq] at h
            subst h
            simp only [opStep, eraseSys, List.map_cons, eraseFrame, Option.isSome_none, Bool.false_eq_true, ↓reduceIte, hst,
              List.length_map]
          | panic m =>
            simp only [hst, Option.some.injEq] at h
            subst h
            simp only [opStep, eraseSys, List.map_cons, eraseFrame, Option.isSome_none, Bool.false_eq_true, ↓reduceIte, hst]

/-- an environment move of the traced machine is the same environment move of the original machine -/
theorem envStep_traced_erase (M : Machine St Loc α β) (m : Move α) (a b : Sys St (TLoc Loc) α β) (h : EnvStep (traced M) m a b) :
    EnvStep M m (eraseSys a) (eraseSys b) := by
  cases h with
  | @call st stk g tr c i hc hl =>
    have h1 : ctxOf (stk.map (eraseFrame (β := β))) = some c := by rw [ctxOf_map_eraseFrame]; exact hc
    have := EnvStep.call (M := M) (st := st) (g := g) (tr := tr) i h1 hl
    rw [List.length_map] at this
    exact this
  | @ret st stk g tr o l hl =>
    cases l with
    | pre l => exact EnvStep.ret (M := M) (st := st) (stk := stk.map eraseFrame) (g := g) (tr := tr) (o := o) (l := l) hl
    | «at» l => exact EnvStep.ret (M := M) (st := st) (stk := stk.map eraseFrame) (g := g) (tr := tr) (o := o) (l := l) hl
    | logged l => exact EnvStep.ret (M := M) (st := st) (stk := stk.map eraseFrame) (g := g) (tr := tr) (o := o) (l := l) hl

/-- every reachable configuration of the traced machine erases to a reachable configuration of the original machine: same operator
state, same ghost (hence the same recorded violations), same boundary trace, same panic flag -/
theorem traced_refines (M : Machine St Loc α β) :
    ∀ s, SReach (traced M) s → SReach M (eraseSys s) := by
  intro s hs
  induction hs with
  | init => exact .init
  | @step a b _ hab ih =>
    cases hab with
    | op h =>
      rcases opStep_traced_erase M a b h with h | h
      · rw [h]; exact ih
      · exact .step ih (.op h)
    | env h _ => exact .step ih (.env (envStep_traced_erase M _ a b h) trivial)

/-! ### completeness: the traced machine can follow the original one -/

/-- the traced frame that is at the program point proper -/
def liftFrame : Frame Loc β → Frame (TLoc Loc) β
  | .run l => .run (.at l)
  | .wait o l => .wait o (.at l)

/-- the traced configuration all of whose frames are at the program point proper -/
def liftSys (s : Sys St Loc α β) : Sys St (TLoc Loc) α β :=
  { st := s.st, stack := s.stack.map liftFrame, g := s.g, tr := s.tr, panicked := s.panicked }

theorem eraseFrame_liftFrame (f : Frame Loc β) : eraseFrame (liftFrame f) = f := by
  cases f <;> rfl

theorem eraseSys_liftSys (s : Sys St Loc α β) : eraseSys (liftSys s) = s := by
  obtain ⟨st, stk, g, tr, p⟩ := s
  have : (stk.map liftFrame).map eraseFrame = stk := by
    induction stk with
    | nil => rfl
    | cons f r ih => rw [List.map_cons, List.map_cons, ih, eraseFrame_liftFrame]
  simp only [eraseSys, liftSys, this]

theorem ctxOf_map_liftFrame (stk : List (Frame Loc β)) : ctxOf (stk.map liftFrame) = ctxOf stk := by
  cases stk with
  | nil => rfl
  | cons f r => cases f <;> rfl

/-- the traced machine follows every reachable configuration of the original one, frame by frame at the program point proper -/
theorem traced_follows (M : Machine St Loc α β) : ∀ s, SReach M s → SReach (traced M) (liftSys s) := by
  intro s hs
  induction hs with
  | init => exact .init
  | @step a b _ hab ih =>
    cases hab with
    | op h =>
      obtain ⟨st, stk, g, tr, p⟩ := a
      cases p with
      | some m => simp [opStep] at h
      | none =>
        cases stk with
        | nil => simp [opStep] at h
        | cons f r =>
          cases f with
          | wait o l => simp [opStep] at h
          | run l =>
            simp only [opStep, Option.isSome_none, Bool.false_eq_true, ↓reduceIte] at h
            cases hst : M.step st l with
            | tau st' l' =>
              simp only [hst, Option.some.injEq] at h
              subst h
              refine .step ih (.op ?_)
              simp only [opStep, traced, liftSys, List.map_cons, liftFrame, Option.isSome_none, Bool.false_eq_true, ↓reduceIte, hst]
            | call o st' l' =>
              simp only [hst, Option.some.injEq] at h
              subst h
              have h1 : opStep (traced M) (liftSys ⟨st, .run l :: r, g, tr, none⟩)
                  = some ⟨st, .run (.logged l) :: r.map liftFrame, g, tr, none⟩ := by
                simp only [opStep, traced, liftSys, List.map_cons, liftFrame, Option.isSome_none, Bool.false_eq_true, ↓reduceIte, hst]
              refine .step (.step ih (.op h1)) (.op ?_)
              simp only [opStep, traced, liftSys, List.map_cons, liftFrame, Option.isSome_none, Bool.false_eq_true, ↓reduceIte, hst]
            | ret =>
              simp only [hst, Option.some.injEq] at h
              subst h
              refine .step ih (.op ?_)
              simp only [opStep, traced, liftSys, List.map_cons, liftFrame, Option.isSome_none, Bool.false_eq_true, ↓reduceIte, hst,
                List.length_map]
            | panic m =>
              simp only [hst, Option.some.injEq] at h
              subst h
              refine .step ih (.op ?_)
              simp only [opStep, traced, liftSys, List.map_cons, liftFrame, Option.isSome_none, Bool.false_eq_true, ↓reduceIte, hst]
    | env h _ =>
      cases h with
      | @call st stk g tr c i hc hl =>
        have h1 : ctxOf (stk.map (liftFrame (β := β))) = some c := by rw [ctxOf_map_liftFrame]; exact hc
        have h2 := EnvStep.call (M := traced M) (st := st) (g := g) (tr := tr) i h1 hl
        rw [List.length_map] at h2
        refine .step (.step ih (.env h2 trivial)) (.op ?_)
        simp only [opStep, traced, liftSys, List.map_cons, liftFrame, Option.isSome_none, Bool.false_eq_true, ↓reduceIte]
      | @ret st stk g tr o l hl =>
        exact .step ih (.env (EnvStep.ret (M := traced M) (st := st) (stk := stk.map liftFrame) (g := g) (tr := tr) (o := o)
          (l := .at l) hl) trivial)

/-- … and conversely every reachable configuration of the original machine is the erasure of a reachable traced one -/
theorem traced_complete (M : Machine St Loc α β) :
    ∀ s, SReach M s → ∃ s', SReach (traced M) s' ∧ eraseSys s' = s :=
  fun s hs => ⟨liftSys s, traced_follows M s hs, eraseSys_liftSys s⟩

/-- corollary: any property of configurations that only looks at operator state, ghost, trace and panic flag transfers -/
theorem traced_transfer (M : Machine St Loc α β) (P : St → G → List (Ev α β) → Option String → Prop)
    (h : ∀ s, SReach M s → P s.st s.g s.tr s.panicked) :
    ∀ s, SReach (traced M) s → P s.st s.g s.tr s.panicked :=
  fun s hs => h (eraseSys s) (traced_refines M s hs)

/-- … in both directions: the two machines satisfy exactly the same properties of that kind -/
theorem traced_transfer_iff (M : Machine St Loc α β) (P : St → G → List (Ev α β) → Option String → Prop) :
    (∀ s, SReach (traced M) s → P s.st s.g s.tr s.panicked) ↔ (∀ s, SReach M s → P s.st s.g s.tr s.panicked) := by
  refine ⟨fun h s hs => ?_, traced_transfer M P⟩
  obtain ⟨s', hs', rfl⟩ := traced_complete M s hs
  exact h s' hs'

/-- each message expression is evaluated exactly once: a call of the traced machine is performed from `logged l`, which is entered
exactly once per call from `at l`, and the message sent is the one `M.step` computes at `l` in the state in which it was logged -/
theorem traced_call_once (M : Machine St Loc α β) (st : St) (l : Loc) (o : Out β) (st' : St) (l' : Loc) (h : M.step st l = .call o st' l') :
    (traced M).step st (.at l) = .tau st (.logged l) ∧ (traced M).step st (.logged l) = .call o st' (.at l') := by
  constructor
  · show (match M.step st l with
      | .call _ _ _ => Act.tau st (TLoc.logged l) | .tau st' l' => .tau st' (.at l') | .ret => .ret | .panic m => .panic m) = _
    rw [h]
  · show (match M.step st l with
      | .call o st' l' => Act.call o st' (TLoc.at l') | .tau st' l' => .tau st' (.at l') | .ret => .ret | .panic m => .panic m) = _
    rw [h]

#print axioms traced_refines
#print axioms traced_complete
#print axioms traced_transfer
#print axioms traced_transfer_iff
#print axioms traced_call_once

end Cb
