import CallbagModel.Inv.ComposeComplete
import CallbagModel.Inv.Ghost2
import CallbagModel.Inv.RelayFull
import CallbagModel.Inv.TakeFull
import CallbagModel.Inv.FromIterFull
import CallbagModel.Inv.ForEachFull
import CallbagModel.Inv.Fuse
/-!
# FULL safety (both ghost layers: C04 in full, C05) of pipelines

Every second-layer violation needs BOTH ends of the operator to be active:

* `errNotRelayed i`  needs a sink that sent `Error` (so a sink that was live) and an upstream `i` that is live;
* `errLost e k`      needs an upstream that sent `Error e` (so an upstream that was live) and a sink `k` that was live;
* `errSibling e i`, `orphan i`  need an upstream `i` that is live.

Hence (Part 1) an operator none of whose upstreams is ever live (`NoUpstream`: a pipeline whose head is `from_iter`), or none of
whose sinks is ever greeted (`SinkQuiet`: a pipeline whose tail is `for_each`), is fully safe as soon as it is phase-level safe; both
properties are inherited by `compose` from the head resp. the tail.  This gives full safety of closed pipelines of any length and of
every pipeline `pipe!(from_iter(it), stage₁, …, stageₙ)` seen as a source.
-/
namespace Cb
namespace ComposeFull
open ComposeSafe ComposeFun ComposeComplete

/-! ## Part 1: operators with a quiet end -/
section Quiet
variable {St Loc α β : Type}

/-- no upstream is ever subscribed to -/
def NoUpstream (M : Machine St Loc α β) : Prop := ∀ s, SReach M s → ∀ i, s.g.ph.srcPh i = .idle

/-- no sink is ever greeted -/
def SinkQuiet (M : Machine St Loc α β) : Prop :=
  ∀ s, SReach M s → ∀ k, s.g.ph.sinkPh k = .idle ∨ s.g.ph.sinkPh k = .subscribed

theorem livesOf_eq_nil {g : Ph} (h : ∀ k, g.sinkPh k ≠ .live) : livesOf g = [] :=
  List.eq_nil_iff_forall_not_mem.2 (fun k hk => h k ((mem_livesOf g k).1 hk))

/-- the second ghost layer never records anything while no upstream is live and nothing is pending -/
theorem onRetO_quiet (g : G) (n : Nat) (hx : g.xviols = []) (hp : g.pend = none) (hl : liveSrcs g.ph = []) :
    (g.onRetO n).xviols = [] ∧ (g.onRetO n).pend = none ∧ (g.sinkErr = none → (g.onRetO n).sinkErr = none) := by
  obtain ⟨h1, h2, h3, h4, h5⟩ := clearSinkErr_fields g n
  have hc : (g.clearSinkErr n).checkPend n = g.clearSinkErr n := by
    unfold G.checkPend; rw [h3, hp]
  have ho : (g.clearSinkErr n).checkOrphans n = g.clearSinkErr n := by
    unfold G.checkOrphans
    split
    · rw [h1, hl]; rfl
    · rfl
  unfold G.onRetO
  rw [hc, ho]
  exact ⟨by rw [h4]; exact hx, by rw [h3]; exact hp, h5⟩

theorem onOut_quiet_src (sh : Shape) (g : G) (o : Out β) (hl : ∀ i, g.ph.srcPh i ≠ .live) :
    (g.onOut sh o).xviols = g.xviols ∧ (g.onOut sh o).pend = g.pend := by
  unfold G.onOut
  cases o with
  | down k d => simp only; split; split <;> exact ⟨rfl, rfl⟩; exact ⟨rfl, rfl⟩
  | srcUp i u =>
    cases u with
    | pull => exact ⟨rfl, rfl⟩
    | term => simp [hl i]
    | err e => simp only; split <;> simp [hl i]
  | _ => exact ⟨rfl, rfl⟩

theorem onOut_quiet_sink (sh : Shape) (g : G) (o : Out β) (hs : g.sinkErr = none) :
    (g.onOut sh o).xviols = g.xviols ∧ (g.onOut sh o).pend = g.pend ∧ (g.onOut sh o).sinkErr = none := by
  unfold G.onOut
  cases o with
  | down k d => simp only; split; split <;> exact ⟨rfl, rfl, hs⟩; exact ⟨rfl, rfl, hs⟩
  | srcUp i u =>
    cases u with
    | pull => exact ⟨rfl, rfl, hs⟩
    | term => simp [hs]
    | err e => simp only [hs]; exact ⟨trivial, trivial, trivial⟩
  | _ => exact ⟨rfl, rfl, hs⟩

theorem xquiet_of_noUpstream (M : Machine St Loc α β) (h : NoUpstream M) :
    ∀ s, SReach M s → s.g.xviols = [] ∧ s.g.pend = none := by
  have nl : ∀ s, SReach M s → ∀ i, s.g.ph.srcPh i ≠ .live := fun s hs i => by rw [h s hs i]; decide
  apply reach_ind
  · exact ⟨rfl, rfl⟩
  · intro a b ha ih hstep
    cases hstep with
    | tau _ => exact ih
    | @call st l stk g tr o s' l' hst =>
      obtain ⟨h1, h2⟩ := onOut_quiet_src M.shape g o (nl _ ha)
      exact ⟨by simp only [h1]; exact ih.1, by simp only [h2]; exact ih.2⟩
    | @ret st l stk g tr hst =>
      have := onRetO_quiet g stk.length ih.1 ih.2 (liveSrcs_eq_nil (nl _ ha))
      exact ⟨this.1, this.2.1⟩
    | panic _ => exact ih
  · intro a b m ha ih hstep
    cases hstep with
    | @call st stk g tr c i hc hl =>
      cases i with
      | srcDown j d =>
        have := legal_srcDown hl
        exact absurd this (nl _ ha j)
      | subscribe k => exact ih
      | srcGreet j => exact ih
      | sinkUp k u => cases u <;> exact ih
    | ret hl => exact ih

/-- an operator without upstreams is fully safe as soon as it is phase-level safe -/
theorem safe_of_noUpstream {M : Machine St Loc α β} (h : NoUpstream M) (hb : ∀ s, SReach M s → BasicSafe s) :
    ∀ s, SReach M s → Safe s := by
  intro s hs
  refine ⟨?_, (hb s hs).2⟩
  simp [G.viols, (hb s hs).1, (xquiet_of_noUpstream M h s hs).1]

theorem xquiet_of_sinkQuiet (M : Machine St Loc α β) (h : SinkQuiet M) :
    ∀ s, SReach M s → s.g.xviols = [] ∧ s.g.pend = none ∧ s.g.sinkErr = none := by
  have nlive : ∀ s, SReach M s → ∀ k, s.g.ph.sinkPh k ≠ .live := fun s hs k => by
    rcases h s hs k with h | h <;> rw [h] <;> decide
  apply reach_ind
  · exact ⟨rfl, rfl, rfl⟩
  · intro a b ha ih hstep
    cases hstep with
    | tau _ => exact ih
    | @call st l stk g tr o s' l' hst =>
      obtain ⟨h1, h2, h3⟩ := onOut_quiet_sink M.shape g o ih.2.2
      exact ⟨by simp only [h1]; exact ih.1, by simp only [h2]; exact ih.2.1, h3⟩
    | @ret st l stk g tr hst =>
      have hb : SReach M _ := reach_op ha (.ret hst)
      obtain ⟨hx, hp, hs⟩ := ih
      simp only at hx hp hs ⊢
      -- no orphan: if no sink is open every sink is idle, so nothing has happened at all
      obtain ⟨h1, h2, h3, h4, h5⟩ := clearSinkErr_fields g stk.length
      have hc : (g.clearSinkErr stk.length).checkPend stk.length = g.clearSinkErr stk.length := by
        unfold G.checkPend; rw [h3, hp]
      have ho : (g.clearSinkErr stk.length).checkOrphans stk.length = g.clearSinkErr stk.length := by
        unfold G.checkOrphans
        split
        · rename_i hcnd
          simp only [Bool.and_eq_true, beq_iff_eq, Bool.not_eq_eq_eq_not, Bool.not_true, decide_eq_true_eq] at hcnd
          have hidle : ∀ k, g.ph.sinkPh k = .idle := by
            intro k
            have hopen := (Ph.anySinkOpen_false_iff g.ph).1 (by rw [← h1]; exact hcnd.1.2) k
            rcases h _ ha k with hk | hk
            · exact hk
            · exact absurd hk hopen.1
          have := (idle_empty M ha hidle).2
          rw [h1, liveSrcs_eq_nil (fun i => by rw [this i]; decide)]
          rfl
        · rfl
      unfold G.onRetO
      rw [hc, ho]
      exact ⟨by rw [h4]; exact hx, by rw [h3]; exact hp, h5 hs⟩
    | panic _ => exact ih
  · intro a b m ha ih hstep
    cases hstep with
    | @call st stk g tr c i hc hl =>
      obtain ⟨hx, hp, hs⟩ := ih
      simp only at hx hp hs ⊢
      cases i with
      | sinkUp k u => exact absurd (legal_sinkUp hl) (nlive _ ha k)
      | subscribe k => exact ⟨hx, hp, hs⟩
      | srcGreet j => exact ⟨hx, hp, hs⟩
      | srcDown j d =>
        cases d with
        | data x => exact ⟨hx, hp, hs⟩
        | term => exact ⟨hx, hp, hs⟩
        | err e =>
          rw [onIn_srcErr, livesOf_eq_nil (nlive _ ha)]
          exact ⟨hx, hp, hs⟩
    | ret hl => exact ih

/-- an operator none of whose sinks is ever greeted (a consumer) is fully safe as soon as it is phase-level safe -/
theorem safe_of_sinkQuiet {M : Machine St Loc α β} (h : SinkQuiet M) (hb : ∀ s, SReach M s → BasicSafe s) :
    ∀ s, SReach M s → Safe s := by
  intro s hs
  refine ⟨?_, (hb s hs).2⟩
  simp [G.viols, (hb s hs).1, (xquiet_of_sinkQuiet M h s hs).1]

end Quiet

/-! ### syntactic criteria, closure under `compose`, instances -/
section Criteria
variable {St Loc S1 L1 S2 L2 α β γ : Type}

theorem onOut_srcPh_idle {β : Type} (g : Ph) (o : Out β) (i : Nat) (h : g.srcPh i = .idle) (ho : ∀ j, o ≠ .subSrc j) :
    (g.onOut o).srcPh i = .idle := by
  cases o with
  | greet k => simp only [Ph.onOut]; split <;> simp [h]
  | down k d =>
    simp only [Ph.onOut]
    split
    · split <;> simp [h]
    all_goals simp [h]
  | subSrc j => exact absurd rfl (ho j)
  | srcUp j u =>
    cases u <;> simp only [Ph.onOut] <;> split <;> (try simp [h])
    all_goals
      rename_i hl
      have : i ≠ j := by rintro rfl; rw [h] at hl; cases hl
      simp [this]
  | app b => exact h

theorem noUpstream_of_noSub {M : Machine St Loc α β} (h : ∀ st l i st' l', M.step st l ≠ .call (.subSrc i) st' l') :
    NoUpstream M := by
  apply reach_ind
  · intro i; simp [Sys.init]
  · intro a b ha ih hstep
    cases hstep with
    | tau _ => exact ih
    | @call st l stk g tr o s' l' hst =>
      intro i
      simp only [onOut_ph]
      exact onOut_srcPh_idle _ _ _ (ih i) (fun j hj => h _ _ _ _ _ (hj ▸ hst))
    | ret _ => intro i; simpa using ih i
    | panic _ => exact ih
  · intro a b m ha ih hstep
    cases hstep with
    | @call st stk g tr c i hc hl =>
      intro j
      simp only [onIn_ph]
      cases i with
      | subscribe k => simpa [Ph.onIn] using ih j
      | sinkUp k u => cases u <;> simpa [Ph.onIn] using ih j
      | srcGreet k => have := legal_srcGreet hl; rw [ih k] at this; cases this
      | srcDown k d => have := legal_srcDown hl; rw [ih k] at this; cases this
    | ret hl => exact ih

theorem onOut_sinkPh_quiet {β : Type} (g : Ph) (o : Out β) (h : ∀ k, g.sinkPh k = .idle ∨ g.sinkPh k = .subscribed)
    (ho : ∀ j, o ≠ .greet j) : ∀ k, (g.onOut o).sinkPh k = .idle ∨ (g.onOut o).sinkPh k = .subscribed := by
  intro k
  cases o with
  | greet j => exact absurd rfl (ho j)
  | down j d =>
    simp only [Ph.onOut]
    split
    · rename_i hl; rcases h j with hj | hj <;> rw [hj] at hl <;> cases hl
    all_goals simpa using h k
  | subSrc j =>
    simp only [Ph.onOut]
    split
    · simpa using h k
    · split <;> simpa using h k
  | srcUp j u => cases u <;> simp only [Ph.onOut] <;> split <;> simpa using h k
  | app b => exact h k

theorem sinkQuiet_of_noGreet {M : Machine St Loc α β} (h : ∀ st l k st' l', M.step st l ≠ .call (.greet k) st' l') :
    SinkQuiet M := by
  apply reach_ind
  · intro k; simp [Sys.init]
  · intro a b ha ih hstep
    cases hstep with
    | tau _ => exact ih
    | @call st l stk g tr o s' l' hst =>
      intro k
      simp only [onOut_ph]
      exact onOut_sinkPh_quiet _ _ ih (fun j hj => h _ _ _ _ _ (hj ▸ hst)) k
    | ret _ => intro k; simpa using ih k
    | panic _ => exact ih
  · intro a b m ha ih hstep
    cases hstep with
    | @call st stk g tr c i hc hl =>
      intro j
      simp only [onIn_ph]
      cases i with
      | subscribe k =>
        simp only [Ph.onIn, Ph.sinkPh_setSink]
        split
        · exact .inr rfl
        · exact ih j
      | sinkUp k u =>
        have := legal_sinkUp hl
        rcases ih k with hk | hk <;> rw [hk] at this <;> cases this
      | srcGreet k => simpa [Ph.onIn] using ih j
      | srcDown k d => cases d <;> simpa [Ph.onIn] using ih j
    | ret hl => exact ih

/-- the upstreams of a pipeline are those of its head -/
theorem NoUpstream.compose {M1 : Machine S1 L1 α β} {M2 : Machine S2 L2 β γ} (h : NoUpstream M1) (H : Hyp M1 M2) :
    NoUpstream (Cb.compose M1 M2) := by
  intro s hs i
  obtain ⟨s1, s2, hr1, _, hm⟩ := compose_inv H s hs
  rw [hm.gh.src i]; exact h s1 hr1 i

/-- the sinks of a pipeline are those of its tail -/
theorem SinkQuiet.compose {M1 : Machine S1 L1 α β} {M2 : Machine S2 L2 β γ} (h : SinkQuiet M2) (H : Hyp M1 M2) :
    SinkQuiet (Cb.compose M1 M2) := by
  intro s hs k
  obtain ⟨s1, s2, _, hr2, hm⟩ := compose_inv H s hs
  rw [hm.gh.sink k]; exact h s2 hr2 k

theorem FromIter.noUpstream {ι α α' : Type} (next : ι → Option (α × ι)) (it0 : ι) :
    NoUpstream (FromIter.machine α' next it0) := by
  apply noUpstream_of_noSub
  intro st l i st' l'
  cases l <;> simp only [FromIter.machine, FromIter.step] <;> (repeat' split) <;> simp

theorem ForEach.sinkQuiet {α : Type} : SinkQuiet (ForEach.machine α) := by
  apply sinkQuiet_of_noGreet
  intro st l k st' l'
  cases l <;> simp only [ForEach.machine, ForEach.step] <;> (repeat' split) <;> simp

end Criteria

/-! ### full safety of pipelines with a quiet end -/
section QuietPipes
variable {S1 L1 S2 L2 α β γ : Type}

theorem full_of_safe {St Loc α β : Type} {s : Sys St Loc α β} (h : Safe s) : Safe s ∧ SafeFor 4 s ∧ SafeFor 5 s :=
  ⟨h, h.safeFor 4, h.safeFor 5⟩

/-- a head without upstreams followed by anything tail-capable: fully safe -/
theorem head_pipeline_safe {M1 : Machine S1 L1 α β} {M2 : Machine S2 L2 β γ} (U : UpSide M1) (hN : NoUpstream M1)
    (D : DownSide M2) : ∀ s, SReach (compose M1 M2) s → Safe s :=
  safe_of_noUpstream (hN.compose (hyp_of_roles U D)) (compose_safe_of_roles U D)

/-- anything head-capable followed by a consumer: fully safe -/
theorem tail_pipeline_safe {M1 : Machine S1 L1 α β} {M2 : Machine S2 L2 β γ} (U : UpSide M1) (D : DownSide M2)
    (hQ : SinkQuiet M2) : ∀ s, SReach (compose M1 M2) s → Safe s :=
  safe_of_sinkQuiet (hQ.compose (hyp_of_roles U D)) (compose_safe_of_roles U D)

/-- **closed pipelines of any length, in full**: `pipe!(head, stage₁, …, stageₙ, for_each(f))` for ANY head-capable head (`from_iter`,
`concat!`, `flatten`, …): C01–C05 and C17 -/
theorem closed_pipeline_full {Msrc : Machine S1 L1 α β} {Mmid : Machine S2 L2 β γ} (hsrc : UpSide Msrc) (hmid : Pipeable Mmid) :
    ∀ s, SReach (compose (compose Msrc Mmid) (ForEach.machine γ)) s → Safe s ∧ SafeFor 4 s ∧ SafeFor 5 s :=
  fun s hs => full_of_safe (tail_pipeline_safe (hsrc.compose' hmid) ForEach.downSide ForEach.sinkQuiet s hs)

theorem closed_pipeline_full₀ {Msrc : Machine S1 L1 α β} (hsrc : UpSide Msrc) :
    ∀ s, SReach (compose Msrc (ForEach.machine β)) s → Safe s ∧ SafeFor 4 s ∧ SafeFor 5 s :=
  fun s hs => full_of_safe (tail_pipeline_safe hsrc ForEach.downSide ForEach.sinkQuiet s hs)

/-- **`pipe!(from_iter(it), stage₁, …, stageₙ)` as a source, in full**: against every conformant sink -/
theorem fromIter_pipeline_full {ι α α' β S L : Type} (next : ι → Option (α × ι)) (it0 : ι)
    {Mmid : Machine S L α β} (hmid : Pipeable Mmid) :
    ∀ s, SReach (compose (FromIter.machine α' next it0) Mmid) s → Safe s ∧ SafeFor 4 s ∧ SafeFor 5 s :=
  fun s hs => full_of_safe (head_pipeline_safe (FromIter.upSide next it0) (FromIter.noUpstream next it0) hmid.downSide s hs)

end QuietPipes

/-! ## Part 2: second-layer safety from phase-level safety, for operators with DIRECT error paths

The general statement "`M₁`, `M₂` fully safe ⇒ `compose M₁ M₂` fully safe" is false (see the end of this file).  What makes pipelines of
relays and `take` fully safe is that their error paths are direct: the handler of a sink's `Error e` does nothing but pass `Error e`
upstream, the handler of an upstream's `Error e` does nothing but pass `Error e` downstream.  `DirectPaths` says this syntactically;
it is inherited by `compose`, and together with phase-level safety it gives the second layer. -/
section Direct
variable {St Loc α β : Type}

/-- the error paths of `M` are direct -/
structure DirectPaths (M : Machine St Loc α β) where
  /-- locations of a handler that is passing `Error e` upstream -/
  relUp : Nat → Loc → Prop
  /-- locations of a handler that is passing `Error e` downstream -/
  fwdDown : Nat → Loc → Prop
  up_enter : ∀ e, relUp e (M.enter (.sinkUp 0 (.err e)))
  up_step : ∀ e st l, relUp e l → match M.step st l with
    | .tau _ l' => relUp e l'
    | .call o _ _ => o = .srcUp 0 (.err e)
    | .ret => False
    | .panic _ => True
  down_enter : ∀ e, fwdDown e (M.enter (.srcDown 0 (.err e)))
  down_step : ∀ e st l, fwdDown e l → match M.step st l with
    | .tau _ l' => fwdDown e l'
    | .call o _ _ => o = .down 0 (.err e)
    | .ret => False
    | .panic _ => True

/-- only sink 0 and upstream 0 are ever used -/
def Linear (M : Machine St Loc α β) : Prop :=
  ∀ s, SReach M s → (∀ k, s.g.ph.sinkPh (k + 1) = .idle) ∧ (∀ i, s.g.ph.srcPh (i + 1) = .idle)

/-- back at top level there is no orphan -/
def OrphanTop (M : Machine St Loc α β) : Prop := ∀ s, SReach M s → s.stack = [] → NoOrphan s.g.ph

/-! ### field lemmas for the second layer -/

theorem onOut_sinkErr (sh : Shape) (g : G) (o : Out β) : (g.onOut sh o).sinkErr = g.sinkErr := by
  unfold G.onOut
  cases o with
  | down k d => simp only; split; split <;> rfl; rfl
  | srcUp i u =>
    cases u with
    | pull => rfl
    | term => simp only; split <;> rfl
    | err e => simp only; split; split <;> rfl; rfl
  | _ => rfl

theorem onOut_pend (sh : Shape) (g : G) (o : Out β) : (g.onOut sh o).pend = g.pend := by
  unfold G.onOut
  cases o with
  | down k d => simp only; split; split <;> rfl; rfl
  | srcUp i u =>
    cases u with
    | pull => rfl
    | term => simp only; split <;> rfl
    | err e => simp only; split; split <;> rfl; rfl
  | _ => rfl

theorem onOut_xviols (sh : Shape) (g : G) (o : Out β)
    (h1 : ∀ i, o = .srcUp i .term → g.ph.srcPh i = .live → g.sinkErr = none)
    (h2 : ∀ i e', o = .srcUp i (.err e') → g.ph.srcPh i = .live → ∀ e h, g.sinkErr = some (e, h) → e = e') :
    (g.onOut sh o).xviols = g.xviols := by
  unfold G.onOut
  cases o with
  | down k d => simp only; split; split <;> rfl; rfl
  | srcUp i u =>
    cases u with
    | pull => rfl
    | term =>
      simp only
      split
      · rename_i hc
        simp only [Bool.and_eq_true, decide_eq_true_eq] at hc
        have := h1 i rfl hc.1.1
        rw [this] at hc; simp at hc
      · rfl
    | err e' =>
      simp only
      split
      · rename_i e h hs
        split
        · rename_i hc
          simp only [Bool.and_eq_true, decide_eq_true_eq, bne_iff_ne, ne_eq] at hc
          exact absurd (h2 i e' rfl hc.1.1 e h hs) hc.2
        · rfl
      · rfl
  | _ => rfl

theorem onOut_finOf_same (sh : Shape) (g : G) (o : Out β) (k : Nat) (h : ∀ d, o = .down k d → g.ph.sinkPh k ≠ .live) :
    (g.onOut sh o).finOf k = g.finOf k := by
  unfold G.onOut
  cases o with
  | down j d =>
    simp only
    split
    · rename_i hl
      split
      · have : k ≠ j := by rintro rfl; exact h d rfl hl
        simp [G.finOf, phAt_setAt, this]
      · rfl
    · rfl
  | srcUp i u =>
    cases u with
    | pull => rfl
    | term => simp only; split <;> rfl
    | err e => simp only; split; split <;> rfl; rfl
  | _ => rfl

theorem onOut_finOf_err (sh : Shape) (g : G) (k e : Nat) (h : g.ph.sinkPh k = .live) :
    (g.onOut sh (.down k (.err e) : Out β)).finOf k = some (Fin.err e) := by
  rw [onOut_downErr]; simp [h, G.finOf, phAt_setAt]

theorem onRetO_fields (g : G) (n : Nat) :
    (g.onRetO n).ph = g.ph ∧ (g.onRetO n).fin = g.fin ∧ ((g.onRetO n).pend = g.pend ∨ (g.onRetO n).pend = none) ∧
    ((g.onRetO n).sinkErr = g.sinkErr ∨ (g.onRetO n).sinkErr = none) := by
  have a : ∀ g' : G, (g'.clearSinkErr n).ph = g'.ph ∧ (g'.clearSinkErr n).fin = g'.fin ∧ (g'.clearSinkErr n).pend = g'.pend ∧
      ((g'.clearSinkErr n).sinkErr = g'.sinkErr ∨ (g'.clearSinkErr n).sinkErr = none) := by
    intro g'; unfold G.clearSinkErr; split
    · split
      · exact ⟨rfl, rfl, rfl, .inr rfl⟩
      · exact ⟨rfl, rfl, rfl, .inl rfl⟩
    · exact ⟨rfl, rfl, rfl, .inl rfl⟩
  have b : ∀ g' : G, (g'.checkPend n).ph = g'.ph ∧ (g'.checkPend n).fin = g'.fin ∧
      ((g'.checkPend n).pend = g'.pend ∨ (g'.checkPend n).pend = none) ∧ (g'.checkPend n).sinkErr = g'.sinkErr := by
    intro g'; unfold G.checkPend; split
    · split
      · exact ⟨rfl, rfl, .inr rfl, rfl⟩
      · exact ⟨rfl, rfl, .inl rfl, rfl⟩
    · exact ⟨rfl, rfl, .inl rfl, rfl⟩
  have c : ∀ g' : G, (g'.checkOrphans n).ph = g'.ph ∧ (g'.checkOrphans n).fin = g'.fin ∧
      (g'.checkOrphans n).pend = g'.pend ∧ (g'.checkOrphans n).sinkErr = g'.sinkErr := by
    intro g'; unfold G.checkOrphans; split <;> exact ⟨rfl, rfl, rfl, rfl⟩
  unfold G.onRetO
  obtain ⟨a1, a2, a3, a4⟩ := a g
  obtain ⟨b1, b2, b3, b4⟩ := b (g.clearSinkErr n)
  obtain ⟨c1, c2, c3, c4⟩ := c ((g.clearSinkErr n).checkPend n)
  refine ⟨by rw [c1, b1, a1], by rw [c2, b2, a2], ?_, ?_⟩
  · rw [c3]; rcases b3 with h | h
    · rw [h, a3]; exact .inl rfl
    · exact .inr h
  · rw [c4, b4]; exact a4

/-- the checks made at a return pass -/
theorem onRetO_xviols (g : G) (n : Nat)
    (hp : ∀ e h ks, g.pend = some (e, h, ks) → h = n →
      (∀ k ∈ ks, g.finOf k = some (Fin.err e) ∨ g.ph.sinkPh k = .doneBySelf) ∧ liveSrcs g.ph = [])
    (ho : n = 0 → g.ph.anySinkOpen = false → liveSrcs g.ph = []) : (g.onRetO n).xviols = g.xviols := by
  obtain ⟨h1, h2, h3, h4, _⟩ := clearSinkErr_fields g n
  have hc : ((g.clearSinkErr n).checkPend n).xviols = g.xviols ∧ ((g.clearSinkErr n).checkPend n).ph = g.ph := by
    unfold G.checkPend
    split
    · rename_i e h ks hpe
      split
      · rename_i hh
        rw [h3] at hpe
        obtain ⟨hk, hl⟩ := hp e h ks hpe (by simpa using hh)
        have hf : (ks.filter (fun k => (g.clearSinkErr n).finOf k != some (Fin.err e) &&
            (g.clearSinkErr n).ph.sinkPh k != SinkPh.doneBySelf)) = [] := by
          apply List.filter_eq_nil_iff.2
          intro k hkm
          unfold G.finOf; rw [h2, h1]
          rcases hk k hkm with h | h
          · simp [G.finOf] at h; simp [h]
          · simp [h]
        rw [hf, h1, hl]
        simp only [List.map_nil, List.append_nil, flagAll_nil]
        exact ⟨h4, trivial⟩
      · exact ⟨h4, h1⟩
    · exact ⟨h4, h1⟩
  unfold G.onRetO
  unfold G.checkOrphans
  split
  · rename_i hcnd
    simp only [Bool.and_eq_true, beq_iff_eq, Bool.not_eq_eq_eq_not, Bool.not_true, decide_eq_true_eq] at hcnd
    rw [hc.2] at hcnd ⊢
    rw [ho hcnd.1.1 hcnd.1.2]
    simp only [List.filter_nil, List.map_nil, flagAll_nil]
    exact hc.1
  · exact hc.1

theorem onIn_fields {α : Type} (g : G) (n : Nat) (i : In α) :
    (g.onIn n i).xviols = g.xviols ∧ (g.onIn n i).fin = g.fin := by
  unfold G.onIn
  cases i with
  | sinkUp k u => cases u <;> exact ⟨rfl, rfl⟩
  | srcDown j d =>
    cases d with
    | err e => simp only; split <;> exact ⟨rfl, rfl⟩
    | _ => exact ⟨rfl, rfl⟩
  | _ => exact ⟨rfl, rfl⟩

end Direct

section DirectSafe
variable {St Loc α β : Type} {M : Machine St Loc α β}

/-- the upstream is over -/
def Over (q : SrcPh) : Prop := q = .ended ∨ q = .disposed

theorem Over.not_live {q : SrcPh} (h : Over q) : q ≠ .live := by rcases h with h | h <;> rw [h] <;> decide

theorem onOut_srcPh_ended {β : Type} (g : Ph) (o : Out β) (i : Nat) (h : g.srcPh i = .ended) : (g.onOut o).srcPh i = .ended := by
  cases o with
  | greet k => simp only [Ph.onOut]; split <;> simp [h]
  | down k d =>
    simp only [Ph.onOut]
    split
    · split <;> simp [h]
    all_goals simp [h]
  | subSrc j =>
    simp only [Ph.onOut]
    split
    · simp [h]
    · split
      · simp [h]
      · rename_i h1 _
        simp only [ne_eq, Decidable.not_not] at h1
        have : i ≠ j := by rintro rfl; rw [h1] at h; cases h
        simp [this, h]
  | srcUp j u =>
    cases u <;> simp only [Ph.onOut] <;> split <;> (try simp [h])
    all_goals
      rename_i hl
      have : i ≠ j := by rintro rfl; rw [h] at hl; cases hl
      simp [this]
  | app b => exact h

theorem onIn_srcPh_ended {α β : Type} (sh : Shape) (g : Ph) (c : Ctx β) (m : In α) (i : Nat)
    (hl : legalIn sh g c m = true) (h : g.srcPh i = .ended) : (g.onIn m).srcPh i = .ended := by
  cases m with
  | subscribe k => simpa [Ph.onIn] using h
  | sinkUp k u => cases u <;> simpa [Ph.onIn] using h
  | srcGreet j =>
    have : i ≠ j := by rintro rfl; rw [legal_srcGreet hl] at h; cases h
    simp [Ph.onIn, this, h]
  | srcDown j d =>
    have : i ≠ j := by rintro rfl; rw [legal_srcDown hl] at h; cases h
    cases d <;> simp [Ph.onIn, this, h]

theorem Over.onOut {β : Type} {g : Ph} (o : Out β) {i : Nat} (h : Over (g.srcPh i)) : Over ((g.onOut o).srcPh i) := by
  rcases h with h | h
  · exact .inl (onOut_srcPh_ended _ _ _ h)
  · exact .inr (onOut_srcPh_disposed _ _ _ h)

theorem Over.onIn {α β : Type} {sh : Shape} {g : Ph} {c : Ctx β} {m : In α} {i : Nat} (hl : legalIn sh g c m = true)
    (h : Over (g.srcPh i)) : Over ((g.onIn m).srcPh i) := by
  rcases h with h | h
  · exact .inl (onIn_srcPh_ended _ _ _ _ _ hl h)
  · exact .inr (onIn_srcPh_disposed _ _ _ _ _ hl h)

/-- the handler on top of the stack is at a location satisfying `P` -/
def TopIs (P : Loc → Prop) (stk : List (Frame Loc β)) : Prop := ∃ l r, stk = Frame.run l :: r ∧ P l

theorem not_topIs_turn {P : Loc → Prop} {stk : List (Frame Loc β)} {c : Ctx β} (hc : ctxOf stk = some c) : ¬ TopIs P stk := by
  rintro ⟨l, r, rfl, _⟩; simp [ctxOf] at hc

theorem not_topIs_wait {P : Loc → Prop} {o : Out β} {l : Loc} {stk : List (Frame Loc β)} :
    ¬ TopIs P (Frame.wait o l :: stk) := by
  rintro ⟨l', r, h, _⟩; cases h

theorem onIn_sinkErr_same {α : Type} (g : G) (n : Nat) (i : In α) (h : ∀ k e, i ≠ .sinkUp k (.err e)) :
    (g.onIn n i).sinkErr = g.sinkErr := by
  unfold G.onIn
  cases i with
  | sinkUp k u =>
    cases u with
    | err e => exact absurd rfl (h k e)
    | _ => rfl
  | srcDown j d =>
    cases d with
    | err e => simp only; split <;> rfl
    | _ => rfl
  | _ => rfl

theorem onIn_pend_same {α : Type} (g : G) (n : Nat) (i : In α) (h : ∀ j e, i ≠ .srcDown j (.err e)) :
    (g.onIn n i).pend = g.pend := by
  unfold G.onIn
  cases i with
  | sinkUp k u => cases u <;> rfl
  | srcDown j d =>
    cases d with
    | err e => exact absurd rfl (h j e)
    | _ => rfl
  | _ => rfl

/-- the second-layer invariant, at EVERY reachable configuration -/
structure X (D : DirectPaths M) (s : Sys St Loc α β) : Prop where
  clean : s.g.xviols = []
  se : ∀ e h, s.g.sinkErr = some (e, h) → Over (s.g.ph.srcPh 0) ∨ TopIs (D.relUp e) s.stack
  pe : ∀ e h ks, s.g.pend = some (e, h, ks) → (∀ k ∈ ks, k = 0) ∧ Over (s.g.ph.srcPh 0) ∧
    ((s.g.ph.sinkPh 0 = .doneBySrc ∧ s.g.finOf 0 = some (Fin.err e)) ∨
     (s.g.ph.sinkPh 0 = .live ∧ TopIs (D.fwdDown e) s.stack))

theorem direct_X (D : DirectPaths M) (hb : ∀ s, SReach M s → BasicSafe s) (hlin : Linear M) (hor : OrphanTop M) :
    ∀ s, SReach M s → X D s := by
  apply reach_ind
  · exact ⟨rfl, fun e h hs => by simp [Sys.init] at hs, fun e h ks hp => by simp [Sys.init] at hp⟩
  · intro a b ha ih hstep
    have hbb := hb b (reach_op ha hstep)
    cases hstep with
    | @tau st l stk g tr s' l' hst =>
      refine ⟨ih.clean, ?_, ?_⟩
      · intro e h hs
        rcases ih.se e h hs with ho | ⟨l0, r, heq, hr⟩
        · exact .inl ho
        · cases heq
          have := D.up_step e st l hr
          rw [hst] at this
          exact .inr ⟨l', stk, rfl, this⟩
      · intro e h ks hp
        obtain ⟨h1, h2, h3⟩ := ih.pe e h ks hp
        refine ⟨h1, h2, ?_⟩
        rcases h3 with h3 | ⟨h3, l0, r, heq, hr⟩
        · exact .inl h3
        · cases heq
          have := D.down_step e st l hr
          rw [hst] at this
          exact .inr ⟨h3, l', stk, rfl, this⟩
    | @call st l stk g tr o s' l' hst =>
      have hv : (g.ph.onOut o).viols = [] := by simpa using hbb.1
      have hl := hlin _ ha
      simp only at hl
      have live0 : ∀ i, g.ph.srcPh i = .live → i = 0 := by
        intro i hi
        cases i with
        | zero => rfl
        | succ i => rw [hl.2 i] at hi; cases hi
      refine ⟨?_, ?_, ?_⟩
      · show (g.onOut M.shape o).xviols = []
        rw [onOut_xviols, ih.clean]
        · intro i ho hli
          cases hs : g.sinkErr with
          | none => rfl
          | some p =>
            obtain ⟨e, h⟩ := p
            exfalso
            have hi0 := live0 i hli; subst hi0
            rcases ih.se e h hs with hov | ⟨l0, r, heq, hr⟩
            · exact hov.not_live hli
            · cases heq
              have := D.up_step e st l hr
              rw [hst, ho] at this
              cases this
        · intro i e' ho hli e h hs
          have hi0 := live0 i hli; subst hi0
          rcases ih.se e h hs with hov | ⟨l0, r, heq, hr⟩
          · exact absurd hli hov.not_live
          · cases heq
            have := D.up_step e st l hr
            rw [hst, ho] at this
            cases this; rfl
      · intro e h hs
        simp only [onOut_sinkErr] at hs
        left
        simp only [onOut_ph]
        rcases ih.se e h hs with hov | ⟨l0, r, heq, hr⟩
        · exact hov.onOut o
        · cases heq
          have := D.up_step e st l hr
          rw [hst] at this
          subst this
          obtain ⟨_, he⟩ := onOut_srcUp_ok _ _ _ hv
          rw [he]
          exact .inr (by simp [afterUp])
      · intro e h ks hp
        simp only [onOut_pend] at hp
        obtain ⟨h1, h2, h3⟩ := ih.pe e h ks hp
        refine ⟨h1, by simp only [onOut_ph]; exact h2.onOut o, .inl ?_⟩
        rcases h3 with ⟨h3, h4⟩ | ⟨h3, l0, r, heq, hr⟩
        · refine ⟨by simp only [onOut_ph]; exact onOut_sinkPh_doneBySrc _ _ _ h3, ?_⟩
          rw [onOut_finOf_same _ _ _ _ (fun d _ => by rw [h3]; decide)]
          exact h4
        · cases heq
          have := D.down_step e st l hr
          rw [hst] at this
          subst this
          obtain ⟨_, he⟩ := onOut_down_ok _ _ _ hv
          refine ⟨by simp only [onOut_ph, he]; simp [isFinal], onOut_finOf_err M.shape _ _ _ h3⟩
    | @ret st l stk g tr hst =>
      have hl := hlin _ ha
      simp only at hl
      obtain ⟨f1, f2, f3, f4⟩ := onRetO_fields g stk.length
      have nolive : Over (g.ph.srcPh 0) → liveSrcs g.ph = [] := by
        intro hov
        apply liveSrcs_eq_nil
        intro i
        cases i with
        | zero => exact hov.not_live
        | succ i => rw [hl.2 i]; decide
      refine ⟨?_, ?_, ?_⟩
      · show (g.onRetO stk.length).xviols = []
        rw [onRetO_xviols, ih.clean]
        · intro e h ks hp _
          obtain ⟨h1, h2, h3⟩ := ih.pe e h ks hp
          rcases h3 with ⟨h3, h4⟩ | ⟨h3, l0, r, heq, hr⟩
          · exact ⟨fun k hk => by rw [h1 k hk]; exact .inl h4, nolive h2⟩
          · cases heq
            have := D.down_step e st l hr
            rw [hst] at this; exact absurd this id
        · intro hn hopen
          have hstk : stk = [] := List.eq_nil_of_length_eq_zero hn
          have := hor _ (reach_op ha (.ret hst)) hstk
          simp only [f1] at this
          exact liveSrcs_eq_nil (this hopen)
      · intro e h hs
        simp only at hs
        rcases f4 with f4 | f4
        · rw [f4] at hs
          rcases ih.se e h hs with hov | ⟨l0, r, heq, hr⟩
          · exact .inl (by simpa [f1] using hov)
          · cases heq
            have := D.up_step e st l hr
            rw [hst] at this; exact absurd this id
        · rw [f4] at hs; cases hs
      · intro e h ks hp
        simp only at hp
        rcases f3 with f3 | f3
        · rw [f3] at hp
          obtain ⟨h1, h2, h3⟩ := ih.pe e h ks hp
          rcases h3 with ⟨h3, h4⟩ | ⟨h3, l0, r, heq, hr⟩
          · exact ⟨h1, by simpa [f1] using h2, .inl ⟨by simpa [f1] using h3, by simpa [G.finOf, f2] using h4⟩⟩
          · cases heq
            have := D.down_step e st l hr
            rw [hst] at this; exact absurd this id
        · rw [f3] at hp; cases hp
    | panic hst => have := hbb.2; cases this
  · intro a b m ha ih hstep
    cases hstep with
    | @call st stk g tr c i hc hl =>
      have hlin' := hlin _ ha
      simp only at hlin'
      have hnt : ∀ P : Loc → Prop, ¬ TopIs P stk := fun P => not_topIs_turn hc
      obtain ⟨hx, hfin⟩ := onIn_fields g stk.length i
      have hse0 : ∀ e h, g.sinkErr = some (e, h) → Over (g.ph.srcPh 0) := fun e h hs =>
        (ih.se e h hs).resolve_right (hnt _)
      have hpe0 : ∀ e h ks, g.pend = some (e, h, ks) → (∀ k ∈ ks, k = 0) ∧ Over (g.ph.srcPh 0) ∧
          g.ph.sinkPh 0 = .doneBySrc ∧ g.finOf 0 = some (Fin.err e) := by
        intro e h ks hp
        obtain ⟨h1, h2, h3⟩ := ih.pe e h ks hp
        rcases h3 with h3 | ⟨_, h3⟩
        · exact ⟨h1, h2, h3⟩
        · exact absurd h3 (hnt _)
      refine ⟨by show (g.onIn stk.length i).xviols = []; rw [hx]; exact ih.clean, ?_, ?_⟩
      · intro e h hs
        simp only [onIn_ph] at hs ⊢
        by_cases hi : ∃ k e', i = .sinkUp k (.err e')
        · obtain ⟨k, e', rfl⟩ := hi
          rw [onIn_sinkErr] at hs
          simp only [Option.some.injEq, Prod.mk.injEq] at hs
          obtain ⟨rfl, _⟩ := hs
          have hk : k = 0 := by
            have := legal_sinkUp hl
            cases k with
            | zero => rfl
            | succ k => rw [hlin'.1 k] at this; cases this
          subst hk
          exact .inr ⟨_, _, rfl, D.up_enter e'⟩
        · rw [onIn_sinkErr_same _ _ _ (fun k e' he => hi ⟨k, e', he⟩)] at hs
          exact .inl ((hse0 e h hs).onIn hl)
      · intro e h ks hp
        simp only [onIn_ph] at hp ⊢
        by_cases hi : ∃ j e', i = .srcDown j (.err e')
        · obtain ⟨j, e', rfl⟩ := hi
          have hj : j = 0 := by
            have := legal_srcDown hl
            cases j with
            | zero => rfl
            | succ j => rw [hlin'.2 j] at this; cases this
          subst hj
          have hq : Over ((g.ph.onIn (.srcDown 0 (.err e') : In α)).srcPh 0) := .inl (by simp [Ph.onIn])
          have hp0 : ∀ k, (g.ph.onIn (.srcDown 0 (.err e') : In α)).sinkPh k = g.ph.sinkPh k := fun k => by simp [Ph.onIn]
          rw [onIn_srcErr] at hp
          split at hp
          · simp only at hp
            obtain ⟨h1, _, h3, h4⟩ := hpe0 e h ks hp
            exact ⟨h1, hq, .inl ⟨by rw [hp0]; exact h3, by simpa [G.finOf, hfin] using h4⟩⟩
          · rename_i hcond
            simp only [Option.some.injEq, Prod.mk.injEq] at hp
            obtain ⟨rfl, _, rfl⟩ := hp
            have hmem : ∀ k ∈ livesOf g.ph, k = 0 := by
              intro k hk
              have := (mem_livesOf _ _).1 hk
              cases k with
              | zero => rfl
              | succ k => rw [hlin'.1 k] at this; cases this
            have hlive : g.ph.sinkPh 0 = .live := by
              simp only [Bool.or_eq_true, List.isEmpty_iff, not_or] at hcond
              cases hls : livesOf g.ph with
              | nil => exact absurd hls hcond.1
              | cons k r =>
                have hk : k ∈ livesOf g.ph := by rw [hls]; exact List.mem_cons_self
                have := hmem k hk; subst this
                exact (mem_livesOf _ _).1 hk
            exact ⟨hmem, hq, .inr ⟨by rw [hp0]; exact hlive, _, _, rfl, D.down_enter _⟩⟩
        · rw [onIn_pend_same _ _ _ (fun j e' he => hi ⟨j, e', he⟩)] at hp
          obtain ⟨h1, h2, h3, h4⟩ := hpe0 e h ks hp
          exact ⟨h1, h2.onIn hl, .inl ⟨onIn_sinkPh_doneBySrc _ _ _ _ _ hl h3, by simpa [G.finOf, hfin] using h4⟩⟩
    | @ret st stk g tr o l hl =>
      refine ⟨ih.clean, ?_, ?_⟩
      · intro e h hs
        exact .inl ((ih.se e h hs).resolve_right not_topIs_wait)
      · intro e h ks hp
        obtain ⟨h1, h2, h3⟩ := ih.pe e h ks hp
        rcases h3 with h3 | ⟨_, h3⟩
        · exact ⟨h1, h2, .inl h3⟩
        · exact absurd h3 not_topIs_wait

/-- **second-layer safety from phase-level safety**: an operator with direct error paths that uses one sink and one upstream, is
phase-level safe and leaves no orphan at top level is fully safe -/
theorem direct_safe (D : DirectPaths M) (hb : ∀ s, SReach M s → BasicSafe s) (hlin : Linear M) (hor : OrphanTop M) :
    ∀ s, SReach M s → Safe s := by
  intro s hs
  refine ⟨?_, (hb s hs).2⟩
  simp [G.viols, (hb s hs).1, (direct_X D hb hlin hor s hs).clean]

end DirectSafe

/-! ### `DirectPaths`, `Linear`, `OrphanTop` are inherited by `compose` -/
section DirectCompose
variable {S1 L1 S2 L2 α β γ : Type} {M1 : Machine S1 L1 α β} {M2 : Machine S2 L2 β γ}

/-- the error paths of a pipeline: up through `M₂` then `M₁`, down through `M₁` then `M₂` -/
def DirectPaths.compose (D1 : DirectPaths M1) (D2 : DirectPaths M2) : DirectPaths (Cb.compose M1 M2) where
  relUp e cfs := match cfs with
    | .hi l :: _ => D2.relUp e l
    | .lo l :: _ => D1.relUp e l
    | [] => False
  fwdDown e cfs := match cfs with
    | .hi l :: _ => D2.fwdDown e l
    | .lo l :: _ => D1.fwdDown e l
    | [] => False
  up_enter e := by simpa [Cb.compose] using D2.up_enter e
  down_enter e := by simpa [Cb.compose] using D1.down_enter e
  up_step e st cfs h := by
    cases cfs with
    | nil => exact absurd h id
    | cons c rest =>
      cases c with
      | lo l =>
        have h1 := D1.up_step e st.1 l h
        cases hs : M1.step st.1 l with
        | tau s1 l' => rw [hs] at h1; simpa [Cb.compose, hs] using h1
        | ret => rw [hs] at h1; exact absurd h1 id
        | panic m => simp [Cb.compose, hs]
        | call o s1 l' => rw [hs] at h1; subst h1; simp [Cb.compose, hs]
      | hi l =>
        have h1 := D2.up_step e st.2 l h
        cases hs : M2.step st.2 l with
        | tau s2 l' => rw [hs] at h1; simpa [Cb.compose, hs] using h1
        | ret => rw [hs] at h1; exact absurd h1 id
        | panic m => simp [Cb.compose, hs]
        | call o s2 l' => rw [hs] at h1; subst h1; simpa [Cb.compose, hs] using D1.up_enter e
  down_step e st cfs h := by
    cases cfs with
    | nil => exact absurd h id
    | cons c rest =>
      cases c with
      | lo l =>
        have h1 := D1.down_step e st.1 l h
        cases hs : M1.step st.1 l with
        | tau s1 l' => rw [hs] at h1; simpa [Cb.compose, hs] using h1
        | ret => rw [hs] at h1; exact absurd h1 id
        | panic m => simp [Cb.compose, hs]
        | call o s1 l' => rw [hs] at h1; subst h1; simpa [Cb.compose, hs] using D2.down_enter e
      | hi l =>
        have h1 := D2.down_step e st.2 l h
        cases hs : M2.step st.2 l with
        | tau s2 l' => rw [hs] at h1; simpa [Cb.compose, hs] using h1
        | ret => rw [hs] at h1; exact absurd h1 id
        | panic m => simp [Cb.compose, hs]
        | call o s2 l' => rw [hs] at h1; subst h1; simp [Cb.compose, hs]

theorem Linear.compose (h1 : Linear M1) (h2 : Linear M2) (H : Hyp M1 M2) : Linear (Cb.compose M1 M2) := by
  intro s hs
  obtain ⟨s1, s2, hr1, hr2, hm⟩ := compose_inv H s hs
  exact ⟨fun k => by rw [hm.gh.sink]; exact (h2 s2 hr2).1 k, fun i => by rw [hm.gh.src]; exact (h1 s1 hr1).2 i⟩

theorem OrphanTop.compose (h1 : OrphanTop M1) (h2 : OrphanTop M2) (H : Hyp M1 M2) : OrphanTop (Cb.compose M1 M2) := by
  intro s hs hstk hopen i
  obtain ⟨s1, s2, hr1, hr2, hk1, hk2, _, _, hgh, _, _⟩ := proj_top H hs hstk
  rw [hgh.src i]
  have hopen' := (Ph.anySinkOpen_false_iff _).1 hopen
  have hopen2 : s2.g.ph.anySinkOpen = false :=
    (Ph.anySinkOpen_false_iff _).2 (fun k => by rw [← hgh.sink k]; exact hopen' k)
  have hq := h2 s2 hr2 hk2 hopen2 0
  have hnsub : s2.g.ph.srcPh 0 ≠ .subscribed := by
    intro hsub
    obtain ⟨l, r, he⟩ := subscribed_top M2 H.lg2 hr2 0 hsub
    rw [hk2] at he; cases he
  have hopen1 : s1.g.ph.anySinkOpen = false := by
    apply (Ph.anySinkOpen_false_iff _).2
    intro k
    cases k with
    | zero =>
      rw [hgh.ifc] at hq hnsub
      exact ⟨fun h => hnsub (by rw [h]; rfl), fun h => hq (by rw [h]; rfl)⟩
    | succ k => rw [hgh.sink1 k]; exact ⟨by decide, by decide⟩
  exact h1 s1 hr1 hk1 hopen1 i

end DirectCompose

/-- a stage whose second layer follows from its first -/
structure FullStage {St Loc α β : Type} (M : Machine St Loc α β) : Prop where
  pipe : Pipeable M
  lin : Linear M
  orphan : OrphanTop M
  direct : Nonempty (DirectPaths M)

theorem FullStage.safe {St Loc α β : Type} {M : Machine St Loc α β} (h : FullStage M) : ∀ s, SReach M s → Safe s :=
  let ⟨D⟩ := h.direct
  direct_safe D h.pipe.safe h.lin h.orphan

/-- open pipelines of any length: `FullStage` is closed under `compose` -/
theorem FullStage.compose {S1 L1 S2 L2 α β γ : Type} {M1 : Machine S1 L1 α β} {M2 : Machine S2 L2 β γ}
    (h1 : FullStage M1) (h2 : FullStage M2) : FullStage (Cb.compose M1 M2) :=
  have H : Hyp M1 M2 := hyp_of_roles h1.pipe.upSide h2.pipe.downSide
  let ⟨D1⟩ := h1.direct
  let ⟨D2⟩ := h2.direct
  ⟨h1.pipe.compose h2.pipe, h1.lin.compose h2.lin H, h1.orphan.compose h2.orphan H, ⟨D1.compose D2⟩⟩

/-- **FULL assume–guarantee for pipelines of direct stages** -/
theorem compose_safe {S1 L1 S2 L2 α β γ : Type} {M1 : Machine S1 L1 α β} {M2 : Machine S2 L2 β γ}
    (h1 : FullStage M1) (h2 : FullStage M2) :
    ∀ s, SReach (compose M1 M2) s → Safe s ∧ SafeFor 4 s ∧ SafeFor 5 s :=
  fun s hs => full_of_safe ((h1.compose h2).safe s hs)

/-! ### instances: relays and `take` -/
section Instances
variable {St Loc α β : Type}

theorem onOut_sinkPh_idle_keep {β : Type} (g : Ph) (o : Out β) (k : Nat) (h : g.sinkPh k = .idle) :
    (g.onOut o).sinkPh k = .idle := by
  cases o with
  | greet j =>
    simp only [Ph.onOut]
    split
    · rename_i hs
      have : k ≠ j := by rintro rfl; rw [h] at hs; cases hs
      simp [this, h]
    · simp [h]
  | down j d =>
    simp only [Ph.onOut]
    split
    · rename_i hs
      have : k ≠ j := by rintro rfl; rw [h] at hs; cases hs
      split <;> simp [this, h]
    all_goals simp [h]
  | subSrc j =>
    simp only [Ph.onOut]
    split
    · simp [h]
    · split <;> simp [h]
  | srcUp j u => cases u <;> simp only [Ph.onOut] <;> split <;> simp [h]
  | app b => exact h

theorem onOut_srcPh_idle_ne {β : Type} (g : Ph) (o : Out β) (i : Nat) (h : g.srcPh i = .idle) (ho : o ≠ .subSrc i) :
    (g.onOut o).srcPh i = .idle := by
  cases o with
  | subSrc j =>
    have hij : i ≠ j := by rintro rfl; exact ho rfl
    simp only [Ph.onOut]
    split
    · simp [h]
    · split <;> simp [h, hij]
  | greet k => exact onOut_srcPh_idle g _ i h (fun j hj => by cases hj)
  | down k d => exact onOut_srcPh_idle g _ i h (fun j hj => by cases hj)
  | srcUp k u => exact onOut_srcPh_idle g _ i h (fun j hj => by cases hj)
  | app b => exact h

/-- one sink (`multiSink = false`) and one upstream (never `subSrc (i+1)`) -/
theorem linear_of {M : Machine St Loc α β} (hm : M.shape.multiSink = false)
    (h1 : ∀ st l i st' l', M.step st l ≠ .call (.subSrc (i + 1)) st' l') : Linear M := by
  apply reach_ind
  · exact ⟨fun k => by simp [Sys.init], fun i => by simp [Sys.init]⟩
  · intro a b ha ih hstep
    cases hstep with
    | tau _ => exact ih
    | @call st l stk g tr o s' l' hst =>
      refine ⟨fun k => ?_, fun i => ?_⟩
      · simp only [onOut_ph]; exact onOut_sinkPh_idle_keep _ _ _ (ih.1 k)
      · simp only [onOut_ph]
        exact onOut_srcPh_idle_ne _ _ _ (ih.2 i) (fun ho => h1 _ _ _ _ _ (ho ▸ hst))
    | ret _ => exact ⟨fun k => by simpa using ih.1 k, fun i => by simpa using ih.2 i⟩
    | panic _ => exact ih
  · intro a b m ha ih hstep
    cases hstep with
    | @call st stk g tr c i hc hl =>
      simp only [onIn_ph]
      cases i with
      | subscribe k =>
        refine ⟨fun j => ?_, fun j => by simpa [Ph.onIn] using ih.2 j⟩
        simp only [legalIn, Bool.and_eq_true, beq_iff_eq, Bool.or_eq_true, hm] at hl
        obtain ⟨_, hk | hk⟩ := hl
        · subst hk; simpa [Ph.onIn] using ih.1 j
        · cases hk
      | sinkUp k u =>
        have := legal_sinkUp hl
        cases k with
        | succ k => rw [ih.1 k] at this; cases this
        | zero => cases u <;> exact ⟨fun j => by simpa [Ph.onIn] using ih.1 j, fun j => by simpa [Ph.onIn] using ih.2 j⟩
      | srcGreet k =>
        have := legal_srcGreet hl
        cases k with
        | succ k => rw [ih.2 k] at this; cases this
        | zero => exact ⟨fun j => by simpa [Ph.onIn] using ih.1 j, fun j => by simpa [Ph.onIn] using ih.2 j⟩
      | srcDown k d =>
        have := legal_srcDown hl
        cases k with
        | succ k => rw [ih.2 k] at this; cases this
        | zero => cases d <;> exact ⟨fun j => by simpa [Ph.onIn] using ih.1 j, fun j => by simpa [Ph.onIn] using ih.2 j⟩
    | ret hl => exact ih

end Instances

def Relay.directPaths {σ α β : Type} (k : Relay.Kind σ α β) : DirectPaths (Relay.machine k) where
  relUp e l := l = .u0 (.err e)
  fwdDown e l := l = .fwd (.err e)
  up_enter _ := rfl
  down_enter _ := rfl
  up_step e st l h := by
    subst h
    by_cases hc : (k.slotted && !st.slot) = true <;> simp [Relay.machine, Relay.step, hc]
  down_step e st l h := by subst h; simp only [Relay.machine, Relay.step]

theorem Relay.fullStage {σ α β : Type} (k : Relay.Kind σ α β) (hk : k.slotted = false → ∀ s a, (k.xfer s a).2 ≠ none) :
    FullStage (Relay.machine k) := by
  refine ⟨Relay.pipeable k hk, linear_of rfl (relay_oneSrc k), ?_, ⟨Relay.directPaths k⟩⟩
  intro s hs hstk
  have ht : EnvTurn s := ⟨(Relay.relay_basicSafe k hk s hs).2, by simp [hstk, ctxOf]⟩
  obtain ⟨_, _, _, _, _, hx, _⟩ := inv_at_turn (Relay.machine k) (RelayFull.Inv k) (RelayFull.inv_init k)
    (fun s hi => (RelayFull.inv_turn k s hi).1) (RelayFull.inv_step k hk) hs ht
  exact hx.orphan

def Take.directPaths {α : Type} (max : Nat) : DirectPaths (Take.machine α max) where
  relUp e l := l = .x0 (.err e) ∨ l = .x1 (.err e)
  fwdDown e l := l = .fwd (.err e)
  up_enter _ := .inl rfl
  down_enter _ := rfl
  up_step e st l h := by
    rcases h with h | h <;> subst h
    · simp [Take.machine, Take.step]
    · by_cases hc : st.tb = true <;> simp [Take.machine, Take.step, hc]
  down_step e st l h := by subst h; simp only [Take.machine, Take.step]

theorem Take.fullStage {α : Type} (max : Nat) : FullStage (Take.machine α max) := by
  refine ⟨Take.pipeable max, linear_of rfl (take_oneSrc max), ?_, ⟨Take.directPaths max⟩⟩
  intro s hs hstk
  have ht : EnvTurn s := ⟨(Take.take_basicSafe max s hs).2, by simp [hstk, ctxOf]⟩
  obtain ⟨_, _, _, _, _, _, hx, _⟩ := inv_at_turn (Take.machine α max) (TakeFull.Inv max) (TakeFull.inv_init max)
    (fun s hi => (TakeFull.inv_turn max s hi).1) (TakeFull.inv_step max) hs ht
  exact hx.orphan

/-- `pipe!(·, map(f), filter(p), take(n))` as an OPERATOR, against every conformant upstream and every conformant sink: C01–C05, C17 -/
theorem map_filter_take_full {α β : Type} (f : α → β) (p : β → Bool) (n : Nat) :
    ∀ s, SReach (compose (compose (Relay.machine (Relay.map f)) (Relay.machine (Relay.filter p))) (Take.machine β n)) s →
      Safe s ∧ SafeFor 4 s ∧ SafeFor 5 s :=
  compose_safe ((Relay.fullStage (Relay.map f) (fun _ _ _ => by simp [Relay.map])).compose
    (Relay.fullStage (Relay.filter p) (fun h => by simp [Relay.filter] at h))) (Take.fullStage n)

/-- five stages, bracketed to the right -/
example {α β γ : Type} (k : Nat) (r : β → α → β) (seed : β) (f : β → γ) (p : γ → Bool) (n : Nat) :
    ∀ s, SReach (compose (Relay.machine (Relay.skip (α := α) k)) (compose (Relay.machine (Relay.scan r seed))
        (compose (Relay.machine (Relay.map f)) (compose (Relay.machine (Relay.filter p)) (Take.machine γ n))))) s → Safe s :=
  ((Relay.fullStage (Relay.skip k) (fun h => by simp [Relay.skip] at h)).compose
    ((Relay.fullStage (Relay.scan r seed) (fun _ _ _ => by simp [Relay.scan])).compose
      ((Relay.fullStage (Relay.map f) (fun _ _ _ => by simp [Relay.map])).compose
        ((Relay.fullStage (Relay.filter p) (fun h => by simp [Relay.filter] at h)).compose (Take.fullStage n))))).safe

/-! ## Why there is no `compose_safe` from `Safe M₁`, `Safe M₂` and the `Pipeable` side conditions alone

Both executions below are runs of a pipeline `compose M₁ M₂` in which neither component records any violation (under EVERY conformant
environment each is `Safe`), the side conditions of `compose_basicSafe` hold, and the pipeline's monitor records a second-layer violation.

1. `errLost`.  `M₁`: on `Error e` from its upstream it first delivers one more `Data` to its sink and then `Error e` (its own check
   passes: its sink ends up with exactly `Error e`, or has disposed).  `M₂ = take(n)` with one item to go.  The external upstream
   sends `Error e` while the external sink is live (the pipeline's check is armed for that sink); `M₁` delivers the datum; `take`
   completes: `Terminate` to the external sink, `Terminate` upstream (so `M₁`'s sink has disposed — exempt from `M₁`'s check).  When
   the handler returns the external sink has received `Terminate`, not `Error e`: `errLost e 0` for the pipeline.
2. `errNotRelayed`.  `M₂`: on `Error e` from its sink it first sends `Pull` upstream and only then `Error e` (no check of `M₂` looks at a
   `Pull`).  `M₁ = take(n)` with one item to go, `relayErr` on both.  The external sink sends `Error e`; `M₂` pulls; `M₁` pulls the
   external upstream, which answers with the last item; `take` delivers it and completes: `Terminate` to the external upstream —
   while the pipeline is still inside the handler of the sink's `Error e` and that upstream was live: `errNotRelayed 0` for the
   pipeline.  (`M₁` has received no error from ITS sink, so its own monitor is silent.)

`DirectPaths` excludes exactly these: nothing happens between the arrival of an `Error` and its being passed on. -/

end ComposeFull
end Cb

#print axioms Cb.ComposeFull.safe_of_noUpstream
#print axioms Cb.ComposeFull.safe_of_sinkQuiet
#print axioms Cb.ComposeFull.closed_pipeline_full
#print axioms Cb.ComposeFull.fromIter_pipeline_full
#print axioms Cb.ComposeFull.direct_safe
#print axioms Cb.ComposeFull.FullStage.compose
#print axioms Cb.ComposeFull.compose_safe
#print axioms Cb.ComposeFull.Relay.fullStage
#print axioms Cb.ComposeFull.Take.fullStage
#print axioms Cb.ComposeFull.map_filter_take_full
