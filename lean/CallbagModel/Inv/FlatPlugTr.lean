import CallbagModel.Inv.FlattenK
/-!
# The projection for `flatPlug Mo Mi initOf`, with traces

`flatPlug_inv_tr`: the invariant `flatPlug_inv` of `Inv/FlatPlugSafe.lean`, extended by the interface equations between the traces of the
network, of flatten, of the outer source and of every inner source created so far (`TrF`):

* the network and flatten see the same sink-side events;
* flatten's events at upstream 0 are the sink-side events of the outer source;
* flatten's events at upstream `j ≥ 1` are the sink-side events of inner source `j` (none if it has not been created);
* inner source `j` was created from the `j`-th datum of the outer source (`born`), and `pending` is the last one.
-/
namespace Cb
namespace FlatPlugFun
open ComposeSafe ComposeFun ComposeComplete PlugSafe PlugConcat FlatPlugSafe

section TrDefs
variable {So Lo Si Li αo αi : Type}

structure TrF (pd : Option Int) (tr : List (Ev Int Int)) (trO : List (Ev αo Int)) (trF : List (Ev Int Int)) (fam : Fam Si Li αi) : Prop where
  sink : sinkEvs tr = sinkEvs trF
  ifcO : dualJ 0 (sinkEvs trO) = srcEq 0 (srcEvs trF)
  ifcI : ∀ j, srcEq (j + 1) (srcEvs trF) = match fam (j + 1) with
    | some (_, sI) => dualJ (j + 1) (sinkEvs sI.tr)
    | none => []
  pend : pd = (sentS 0 (srcEvs trF)).getLast?
  born : ∀ j a sI, fam (j + 1) = some (a, sI) → (sentS 0 (srcEvs trF))[j]? = some a

variable {pd pd' : Option Int} {tr tr' : List (Ev Int Int)} {trO trO' : List (Ev αo Int)} {trF trF' : List (Ev Int Int)} {fam : Fam Si Li αi}

/-- events that the views do not show -/
theorem TrF.congr (h : TrF pd tr trO trF fam) (h1 : sinkEvs tr' = sinkEvs tr) (h2 : sinkEvs trO' = sinkEvs trO)
    (h3 : sinkEvs trF' = sinkEvs trF) (h4 : srcEvs trF' = srcEvs trF) : TrF pd tr' trO' trF' fam :=
  ⟨by rw [h1, h3]; exact h.sink, by rw [h2, h4]; exact h.ifcO, fun j => by rw [h4]; exact h.ifcI j, by rw [h4]; exact h.pend,
    fun j a sI hf => by rw [h4]; exact h.born j a sI hf⟩

/-- a sink-side event of flatten -/
theorem TrF.ext (h : TrF pd tr trO trF fam) (e : Ev Int Int) (he : srcEv e = none) : TrF pd (e :: tr) trO (e :: trF) fam := by
  have h4 : srcEvs (e :: trF) = srcEvs trF := by simp [srcEvs, he]
  exact ⟨by simp only [sinkEvs]; rw [h.sink], by rw [h4]; exact h.ifcO, fun j => by rw [h4]; exact h.ifcI j, by rw [h4]; exact h.pend,
    fun j a sI hf => by rw [h4]; exact h.born j a sI hf⟩

/-- member `j0 + 1` of the family is replaced by a configuration with the same sink-side events -/
theorem TrF.upd (h : TrF pd tr trO trF fam) (j0 : Nat) (a : Int) (sI sI' : Sys Si Li αi Int) (hf : fam (j0 + 1) = some (a, sI))
    (hs : sinkEvs sI'.tr = sinkEvs sI.tr) : TrF pd tr trO trF (fam.upd (j0 + 1) (a, sI')) := by
  refine ⟨h.sink, h.ifcO, fun j => ?_, h.pend, fun j a' sI'' hf' => ?_⟩
  · by_cases hj : j = j0
    · subst hj; have := h.ifcI j; rw [hf] at this; simp [hs, this]
    · rw [Fam.upd_ne _ (by omega)]; exact h.ifcI j
  · by_cases hj : j = j0
    · subst hj; simp at hf'; obtain ⟨rfl, rfl⟩ := hf'; exact h.born j a sI hf
    · rw [Fam.upd_ne _ (by omega)] at hf'; exact h.born j a' sI'' hf'

theorem srcEq_cons_same {α : Type} {j : Nat} {x : SrcEv α} (l : List (SrcEv α)) (hx : srcIdx x = j) : srcEq j (x :: l) = x :: srcEq j l := by
  simp [srcEq, hx]

theorem srcEq_cons_ne {α : Type} {j : Nat} {x : SrcEv α} (l : List (SrcEv α)) (hx : srcIdx x ≠ j) : srcEq j (x :: l) = srcEq j l := by
  simp [srcEq, hx]

theorem sentS_cons_ne {α : Type} {x : SrcEv α} (l : List (SrcEv α)) (hx : srcIdx x ≠ 0) : sentS 0 (x :: l) = sentS 0 l := by
  cases x with
  | down i d => cases d <;> simp [sentS]; simp [srcIdx] at hx; exact hx
  | greet i => rfl
  | sub i => rfl
  | up i u => rfl

/-- the datum an event of upstream 0 carries -/
def datumOf : SrcEv Int → Option Int
  | .down _ (.data a) => some a
  | _ => none

/-- an event between flatten and the outer source -/
theorem TrF.src0 (h : TrF pd tr trO trF fam) (x : SrcEv Int) (y : SinkEv Int) (hx : srcIdx x = 0) (hd : dual1 0 y = some x)
    (hO : sinkEvs trO' = y :: sinkEvs trO) (hF1 : sinkEvs trF' = sinkEvs trF) (hF2 : srcEvs trF' = x :: srcEvs trF)
    (hN : sinkEvs tr' = sinkEvs tr) (hpd : pd' = (match datumOf x with | some a => some a | none => pd)) :
    TrF pd' tr' trO' trF' fam := by
  have hsent : sentS 0 (x :: srcEvs trF) = match datumOf x with
      | some a => sentS 0 (srcEvs trF) ++ [a]
      | none => sentS 0 (srcEvs trF) := by
    cases x with
    | down i d =>
      simp [srcIdx] at hx; subst hx
      cases d <;> simp [sentS, datumOf]
    | greet i => rfl
    | sub i => rfl
    | up i u => rfl
  refine ⟨by rw [hN, hF1]; exact h.sink, ?_, fun j => ?_, ?_, fun j a sI hf => ?_⟩
  · rw [hO, hF2, srcEq_cons_same _ hx]; simp only [dualJ, hd, consOpt_some]; rw [h.ifcO]
  · rw [hF2, srcEq_cons_ne _ (by omega)]; exact h.ifcI j
  · rw [hF2, hsent, hpd]
    cases datumOf x with
    | none => exact h.pend
    | some a => simp
  · rw [hF2, hsent]
    have := h.born j a sI hf
    cases datumOf x with
    | none => exact this
    | some a' =>
      simp only
      have hlt : j < (sentS 0 (srcEvs trF)).length := by
        by_cases hlt : j < (sentS 0 (srcEvs trF)).length
        · exact hlt
        · rw [List.getElem?_eq_none (by omega)] at this; cases this
      rw [List.getElem?_append_left hlt]; exact this

/-- an event between flatten and inner source `j0 + 1` (which is created by it if `fam (j0 + 1) = none`) -/
theorem TrF.srcJ (h : TrF pd tr trO trF fam) (j0 : Nat) (a : Int) (sI' : Sys Si Li αi Int) (x : SrcEv Int) (y : SinkEv Int)
    (hx : srcIdx x = j0 + 1) (hd : dual1 (j0 + 1) y = some x)
    (hI : sinkEvs sI'.tr = y :: (match fam (j0 + 1) with | some (_, sI) => sinkEvs sI.tr | none => []))
    (hb : (sentS 0 (srcEvs trF))[j0]? = some a)
    (hF1 : sinkEvs trF' = sinkEvs trF) (hF2 : srcEvs trF' = x :: srcEvs trF) (hN : sinkEvs tr' = sinkEvs tr) :
    TrF pd tr' trO trF' (fam.upd (j0 + 1) (a, sI')) := by
  have hs0 : sentS 0 (x :: srcEvs trF) = sentS 0 (srcEvs trF) := sentS_cons_ne _ (by omega)
  refine ⟨by rw [hN, hF1]; exact h.sink, ?_, fun j => ?_, by rw [hF2, hs0]; exact h.pend, fun j a' sI hf => ?_⟩
  · rw [hF2, srcEq_cons_ne _ (by omega)]; exact h.ifcO
  · by_cases hj : j = j0
    · subst hj
      rw [hF2, srcEq_cons_same _ hx]
      simp only [Fam.upd_same, hI, dualJ, hd, consOpt_some]
      have := h.ifcI j
      cases hf : fam (j + 1) with
      | none => rw [hf] at this; simp [this, dualJ]
      | some p => obtain ⟨a'', sI⟩ := p; rw [hf] at this; simp [this]
    · rw [hF2, srcEq_cons_ne _ (by omega), Fam.upd_ne _ (by omega)]; exact h.ifcI j
  · rw [hF2, hs0]
    by_cases hj : j = j0
    · subst hj; simp at hf; obtain ⟨rfl, rfl⟩ := hf; exact hb
    · rw [Fam.upd_ne _ (by omega)] at hf; exact h.born j a' sI hf

end TrDefs


/-! ## every step of the network is matched (copy of the steps of `Inv/FlatPlugSafe.lean`, with traces) -/
section Steps
variable {So Lo Si Li αo αi : Type} {Mo : Machine So Lo αo Int} {Mi : Machine Si Li αi Int} {initOf : Int → Si}

theorem subI_od1 {st s' : Flatten.St} {l l' : FL} {j0 : Nat} (h : (Flatten.machine Int).step st l = .call (.subSrc (j0 + 1)) s' l') :
    l = .od1 ∧ st.nextId = j0 + 1 := by
  have := FK.fcall_of h
  generalize ho : (Out.subSrc (j0 + 1) : Out Int) = o at this
  cases this
  all_goals first | (cases ho; done) | skip
  injection ho with h1
  exact ⟨rfl, h1.symm⟩

theorem step_outerT (H : HypF Mo Mi initOf) {st : FPSt So Si} {l : Lo} {rest : List (FFr Lo FL Li)}
    {stk : List (Frame (List (FFr Lo FL Li)) Int)} {g : G} {tr : List (Ev Int Int)}
    {stO : So} {kO : List (Frame Lo Int)} {gO : G} {trO : List (Ev αo Int)}
    {stF : Flatten.St} {kF : List (Frame FL Int)} {gF : G} {trF : List (Ev Int Int)}
    {fam : Fam Si Li αi} {kI : List (Nat × Frame Li Int)} {b : NSys So Lo Si Li}
    (hrO : SReach Mo ⟨stO, .run l :: kO, gO, trO, none⟩) (hrF : SReach (Flatten.machine Int) ⟨stF, kF, gF, trF, none⟩)
    (hrel : RelF .outer rest stk kO kI kF)
    (hc : Core (⟨st, .run (.outer l :: rest) :: stk, g, tr, none⟩ : NSys So Lo Si Li) ⟨stF, kF, gF, trF, none⟩)
    (ho : OuterRel (⟨st, .run (.outer l :: rest) :: stk, g, tr, none⟩ : NSys So Lo Si Li) ⟨stO, .run l :: kO, gO, trO, none⟩ ⟨stF, kF, gF, trF, none⟩)
    (hi : InnerRel Mi initOf (⟨st, .run (.outer l :: rest) :: stk, g, tr, none⟩ : NSys So Lo Si Li) ⟨stF, kF, gF, trF, none⟩ fam)
    (hsI : ∀ j a sI, fam j = some (a, sI) → sI.stack = istack none kI j) (hex : ∀ p ∈ kI, (fam p.1).isSome)
    (htr : TrF st.pending tr trO trF fam)
    (hop : opStep (flatPlug Mo Mi initOf) ⟨st, .run (.outer l :: rest) :: stk, g, tr, none⟩ = some b) :
    ∃ sO' sF' fam', SReach Mo sO' ∧ SReach (Flatten.machine Int) sF' ∧ MatchF Mi initOf b sO' sF' fam' ∧ TrF b.st.pending b.tr sO'.tr sF'.tr fam' := by
  have hstO : st.outer = stO := ho.stO
  cases hst : Mo.step stO l with
  | tau s1' l' =>
    simp [opStep, flatPlug, hstO, hst] at hop
    subst hop
    exact ⟨_, _, fam, reach_op hrO (.tau hst), hrF,
      ⟨⟨hc.stF, rfl, rfl, hc.v, hc.sink, hc.src, hc.pend⟩, ⟨rfl, rfl, ho.ifcO, ho.sinkO⟩, hi.congr (fun j => rfl) (fun j => rfl),
        none, kI, ⟨.runO hrel, hsI, hex, fun j l h => by cases h⟩⟩, htr⟩
  | panic m =>
    have := (H.upO.safe _ (reach_op hrO (.panic hst))).2
    cases this
  | ret =>
    have hrO' := reach_op hrO (.ret hst)
    cases hrel with
    | @subO l2 rest' _ _ kF' h =>
      simp [opStep, flatPlug, hstO, hst] at hop
      subst hop
      have h1 : gO.ph.sinkPh 0 ≠ .subscribed := by simpa using H.upO.sync _ hrO' rfl
      have h2 : gF.ph.srcPh 0 ≠ .subscribed := by
        have := ho.ifcO; simp only at this; rw [this]; exact fun h => h1 (toSrc_subscribed.1 h)
      have he := EnvStep.ret (M := Flatten.machine Int) (st := stF) (stk := kF') (g := gF) (tr := trF) (o := .subSrc 0) (l := l2)
        (by simp [legalRet, h2])
      refine ⟨_, _, fam, hrO', reach_env hrF he, ⟨⟨hc.stF, rfl, rfl, hc.v, hc.sink, hc.src, ?_⟩,
        ⟨hstO, rfl, by simpa using ho.ifcO, by simpa using ho.sinkO⟩, hi.congr (fun j => rfl) (fun j => rfl),
        none, kI, ⟨.runF h, hsI, hex, fun j l h => by cases h⟩⟩, htr.congr rfl (by simp [sinkEvs, sinkEv]) (by simp [sinkEvs, sinkEv]) (by simp [srcEvs, srcEv])⟩
      intro hp f hf
      rcases List.mem_cons.1 hf with rfl | hf
      · simpa [locOf] using hc.pend hp (Frame.wait (.subSrc 0) l2) List.mem_cons_self
      · exact hc.pend hp f (List.mem_cons_of_mem _ hf)
    | @upO u l2 rest' _ _ _ kF' h =>
      simp [opStep, flatPlug, hstO, hst] at hop
      subst hop
      have he := EnvStep.ret (M := Flatten.machine Int) (st := stF) (stk := kF') (g := gF) (tr := trF) (o := .srcUp 0 u) (l := l2)
        (by simp [legalRet])
      refine ⟨_, _, fam, hrO', reach_env hrF he, ⟨⟨hc.stF, rfl, rfl, hc.v, hc.sink, hc.src, ?_⟩,
        ⟨hstO, rfl, by simpa using ho.ifcO, by simpa using ho.sinkO⟩, hi.congr (fun j => rfl) (fun j => rfl),
        none, kI, ⟨.runF h, hsI, hex, fun j l h => by cases h⟩⟩, htr.congr rfl (by simp [sinkEvs, sinkEv]) (by simp [sinkEvs, sinkEv]) (by simp [srcEvs, srcEv])⟩
      intro hp f hf
      rcases List.mem_cons.1 hf with rfl | hf
      · simpa [locOf] using hc.pend hp (Frame.wait (.srcUp 0 u) l2) List.mem_cons_self
      · exact hc.pend hp f (List.mem_cons_of_mem _ hf)
  | call o s1' l' =>
    have hrO' := reach_op hrO (.call hst)
    have hv := (H.upO.safe _ hrO').1
    simp only [onOut_ph] at hv
    have hifc : gF.ph.srcPh 0 = toSrc (gO.ph.sinkPh 0) := ho.ifcO
    have hsinkO : ∀ k, gO.ph.sinkPh (k + 1) = .idle := ho.sinkO
    cases o with
    | greet k =>
      obtain ⟨hsub, heq⟩ := onOut_greet_ok _ _ hv
      cases k with
      | succ k => rw [hsinkO k] at hsub; cases hsub
      | zero =>
        simp [opStep, flatPlug, hstO, hst] at hop
        subst hop
        have hsub2 : gF.ph.srcPh 0 = .subscribed := by rw [hifc, hsub]; rfl
        obtain ⟨l2, r, hk2⟩ := subscribed_top (Flatten.machine Int) flatten_lg hrF 0 hsub2
        simp only at hk2
        subst hk2
        have he := EnvStep.call (M := Flatten.machine Int) (st := stF) (stk := .wait (.subSrc 0) l2 :: r) (g := gF) (tr := trF)
          (.srcGreet 0) rfl (by simp [legalIn, hsub2, inSub])
        refine ⟨_, _, fam, hrO', reach_env hrF he, ⟨⟨hc.stF, rfl, rfl, hc.v, by simpa [Ph.onIn] using hc.sink, hc.src, ?_⟩,
          ⟨rfl, rfl, ?_, ?_⟩, hi.congr (fun j => rfl) (fun j => by simp [Ph.onIn]),
          none, kI, ⟨.runF (.intO (by simp [Internal1]) hrel), hsI, hex, fun j l h => by cases h⟩⟩, htr.src0 (.greet 0) (.greet 0) rfl rfl (by simp [sinkEvs, sinkEv]) (by simp [sinkEvs, sinkEv]) (by simp [srcEvs, srcEv]) rfl rfl⟩
        · exact pend_cons (fun _ => by simp [Flatten.machine, Flatten.enter, locOf, isOd]) hc.pend
        · simp only [onOut_ph, onIn_ph, heq]; simp [Ph.onIn, toSrc]
        · intro k; simp only [onOut_ph, heq]; simp [hsinkO k]
    | down k d =>
      obtain ⟨hlive, heq⟩ := onOut_down_ok _ _ _ hv
      cases k with
      | succ k => rw [hsinkO k] at hlive; cases hlive
      | zero =>
        simp [opStep, flatPlug, hstO, hst] at hop
        subst hop
        have hlive2 : gF.ph.srcPh 0 = .live := by rw [hifc, hlive]; rfl
        have hctx : ∃ c, ctxOf kF = some c ∧ legalIn (Flatten.machine Int).shape gF.ph c (.srcDown 0 d) = true := by
          cases hrel with
          | @subO l2 rest' _ _ kF' h => exact ⟨_, rfl, by simp [legalIn, hlive2, inSub]⟩
          | @upO u l2 rest' _ _ _ kF' h =>
            cases u with
            | pull => exact ⟨_, rfl, by simp [legalIn, hlive2, inPull]⟩
            | term =>
              have := wait_srcUp_disposed _ hrF (Flatten.flatten_basicSafe _ hrF).1 0 .term l2 (by simp) (by simp)
              simp only at this; rw [hlive2] at this; cases this
            | err e =>
              have := wait_srcUp_disposed _ hrF (Flatten.flatten_basicSafe _ hrF).1 0 (.err e) l2 (by simp) (by simp)
              simp only at this; rw [hlive2] at this; cases this
        obtain ⟨c, hcc, hl⟩ := hctx
        have he := EnvStep.call (M := Flatten.machine Int) (st := stF) (stk := kF) (g := gF) (tr := trF) (.srcDown 0 d) hcc hl
        have hph : ∀ j, (gF.ph.onIn (.srcDown 0 d : In Int)).srcPh (j + 1) = gF.ph.srcPh (j + 1) := by
          intro j; cases d <;> simp [Ph.onIn]
        refine ⟨_, _, fam, hrO', reach_env hrF he,
          ⟨⟨hc.stF, rfl, rfl, hc.v, by cases d <;> simpa [Ph.onIn] using hc.sink, hc.src, ?_⟩,
          ⟨rfl, rfl, ?_, ?_⟩, hi.congr (fun j => rfl) (fun j => by simpa using hph j),
          none, kI, ⟨.runF (.intO (by simp [Internal1]) hrel), hsI, hex, fun j l h => by cases h⟩⟩, htr.src0 (.down 0 d) (.down 0 d) rfl rfl (by simp [sinkEvs, sinkEv]) (by simp [sinkEvs, sinkEv]) (by simp [srcEvs, srcEv]) rfl (by cases d <;> rfl)⟩
        · cases d with
          | data x => intro hp; simp at hp
          | term => exact pend_cons (fun _ => by simp [Flatten.machine, Flatten.enter, locOf, isOd]) hc.pend
          | err e => exact pend_cons (fun _ => by simp [Flatten.machine, Flatten.enter, locOf, isOd]) hc.pend
        · simp only [onOut_ph, onIn_ph, heq]
          cases d <;> simp [Ph.onIn, toSrc, isFinal, hifc, hlive]
        · intro k
          simp only [onOut_ph, heq]
          cases d <;> simp [isFinal, hsinkO k]
    | subSrc i =>
      obtain ⟨_, _, heq⟩ := onOut_subSrc_ok _ _ hv
      have := H.noUpO _ hrO' i
      simp [heq] at this
    | srcUp i u =>
      obtain ⟨hl, _⟩ := onOut_srcUp_ok _ _ _ hv
      have := H.noUpO _ hrO i
      simp only at this
      rw [this] at hl; cases hl
    | app b' => exact absurd hst (H.upO.noApp _ _ _ _ _)


theorem step_innerT (H : HypF Mo Mi initOf) {st : FPSt So Si} {j : Nat} {l : Li} {rest : List (FFr Lo FL Li)}
    {stk : List (Frame (List (FFr Lo FL Li)) Int)} {g : G} {tr : List (Ev Int Int)}
    {stO : So} {kO : List (Frame Lo Int)} {gO : G} {trO : List (Ev αo Int)}
    {stF : Flatten.St} {kF : List (Frame FL Int)} {gF : G} {trF : List (Ev Int Int)}
    {fam : Fam Si Li αi} {kI : List (Nat × Frame Li Int)} {b : NSys So Lo Si Li}
    {a : Int} {stI : Si} {gI : G} {trI : List (Ev αi Int)}
    (hrO : SReach Mo ⟨stO, kO, gO, trO, none⟩) (hrF : SReach (Flatten.machine Int) ⟨stF, kF, gF, trF, none⟩)
    (hrel : RelF (.inner j) rest stk kO kI kF)
    (hc : Core (⟨st, .run (.inner j l :: rest) :: stk, g, tr, none⟩ : NSys So Lo Si Li) ⟨stF, kF, gF, trF, none⟩)
    (ho : OuterRel (⟨st, .run (.inner j l :: rest) :: stk, g, tr, none⟩ : NSys So Lo Si Li) ⟨stO, kO, gO, trO, none⟩ ⟨stF, kF, gF, trF, none⟩)
    (hi : InnerRel Mi initOf (⟨st, .run (.inner j l :: rest) :: stk, g, tr, none⟩ : NSys So Lo Si Li) ⟨stF, kF, gF, trF, none⟩ fam)
    (hfj : fam j = some (a, ⟨stI, .run l :: proj j kI, gI, trI, none⟩))
    (hsI : ∀ j' a' sI, fam j' = some (a', sI) → sI.stack = istack (some (j, l)) kI j') (hex : ∀ p ∈ kI, (fam p.1).isSome)
    (htr : TrF st.pending tr trO trF fam)
    (hop : opStep (flatPlug Mo Mi initOf) ⟨st, .run (.inner j l :: rest) :: stk, g, tr, none⟩ = some b) :
    ∃ sO' sF' fam', SReach Mo sO' ∧ SReach (Flatten.machine Int) sF' ∧ MatchF Mi initOf b sO' sF' fam' ∧ TrF b.st.pending b.tr sO'.tr sF'.tr fam' := by
  have hrI : SReach (atInit Mi (initOf a)) ⟨stI, .run l :: proj j kI, gI, trI, none⟩ := hi.rI j a _ hfj
  have hUI := H.upI a
  have hinner : st.innerSt j = some stI := by have := hi.stI j; simp only at this; rw [this, hfj]; rfl
  -- `j` is `j0 + 1`
  obtain ⟨j0, rfl⟩ : ∃ j0, j = j0 + 1 := by
    cases j with
    | zero => rw [hi.fam0] at hfj; cases hfj
    | succ j0 => exact ⟨j0, rfl⟩
  have hifc : gF.ph.srcPh (j0 + 1) = toSrc (gI.ph.sinkPh 0) := by have := hi.ifcI j0; simp only at this; rw [this, hfj]
  have hsinkI : ∀ k, gI.ph.sinkPh (k + 1) = .idle := hi.sinkI _ a _ hfj
  have halive : gI.ph.sinkPh 0 ≠ .idle := hi.alive _ a _ hfj
  have hoth_stk : ∀ (topI' : Option (Nat × Li)) (kI' : List (Nat × Frame Li Int)),
      (∀ j', j' ≠ j0 + 1 → istack topI' kI' j' = proj j' kI) →
      ∀ j', j' ≠ j0 + 1 → istack topI' kI' j' = istack (some (j0 + 1, l)) kI j' := by
    intro topI' kI' h j' hj'
    rw [h j' hj', istack_some_ne hj']
  cases hst : (atInit Mi (initOf a)).step stI l with
  | tau s1' l' =>
    have hst' : Mi.step stI l = .tau s1' l' := hst
    simp [opStep, flatPlug, hinner, hst'] at hop
    subst hop
    refine ⟨_, _, fam.upd (j0 + 1) (a, ⟨s1', .run l' :: proj (j0 + 1) kI, gI, trI, none⟩), hrO, hrF,
      ⟨⟨hc.stF, rfl, rfl, hc.v, hc.sink, hc.src, hc.pend⟩, ⟨ho.stO, rfl, ho.ifcO, ho.sinkO⟩, ?_,
        some (j0 + 1, l'), kI, ⟨.runI hrel, ?_, fun p hp => isSome_upd (hex p hp), fun j' l0 h => by cases h; simp⟩⟩, htr.upd j0 a _ _ hfj rfl⟩
    · exact hi.upd j0 a _ (innerSt_setInner_same _ _ _) (fun j' hj' => innerSt_setInner_ne _ hj' _) rfl
        (reach_op hrI (.tau hst)) hifc (fun i _ => rfl) hsinkI halive
    · exact stkI_upd hsI _ a _ (istack_some_same _ _ _).symm
        (hoth_stk _ _ (fun j' hj' => istack_some_ne hj' _ _))
  | panic m =>
    have := (hUI.safe _ (reach_op hrI (.panic hst))).2
    cases this
  | ret =>
    have hst' : Mi.step stI l = .ret := hst
    have hrI' := reach_op hrI (.ret hst)
    have hfam' := fam.upd (j0 + 1) (a, (⟨stI, proj (j0 + 1) kI, gI.onRetO (proj (j0 + 1) kI).length, .retO :: trI, none⟩ : Sys Si Li αi Int))
    have hinn : InnerRel Mi initOf (⟨st, .run rest :: stk, g, tr, none⟩ : NSys So Lo Si Li) ⟨stF, kF, gF, trF, none⟩
        (fam.upd (j0 + 1) (a, ⟨stI, proj (j0 + 1) kI, gI.onRetO (proj (j0 + 1) kI).length, .retO :: trI, none⟩)) :=
      hi.upd j0 a _ hinner (fun j' _ => rfl) rfl hrI' (by simpa using hifc) (fun i _ => rfl) (by simpa using hsinkI)
        (by simpa using halive)
    have hstk' : ∀ j' a' sI, fam.upd (j0 + 1) (a, (⟨stI, proj (j0 + 1) kI, gI.onRetO (proj (j0 + 1) kI).length, .retO :: trI, none⟩ : Sys Si Li αi Int)) j' = some (a', sI) →
        sI.stack = istack none kI j' :=
      stkI_upd hsI _ a _ rfl (hoth_stk _ _ (fun j' _ => rfl))
    cases hrel with
    | @subI _ l2 rest' _ _ _ kF' hproj h =>
      simp [opStep, flatPlug, hinner, hst'] at hop
      subst hop
      have h1 : gI.ph.sinkPh 0 ≠ .subscribed := by
        have := hUI.sync _ hrI' (by simpa using hproj); simpa using this
      have h2 : gF.ph.srcPh (j0 + 1) ≠ .subscribed := by rw [hifc]; exact fun h => h1 (toSrc_subscribed.1 h)
      have he := EnvStep.ret (M := Flatten.machine Int) (st := stF) (stk := kF') (g := gF) (tr := trF) (o := .subSrc (j0 + 1)) (l := l2)
        (by simp [legalRet, h2])
      refine ⟨_, _, _, hrO, reach_env hrF he, ⟨⟨hc.stF, rfl, rfl, hc.v, hc.sink, hc.src, ?_⟩,
        ho.congr rfl rfl, hinn.congr (fun _ => rfl) (fun _ => rfl),
        none, kI, ⟨.runF h, hstk', fun p hp => isSome_upd (hex p hp), fun j' l0 h => by cases h⟩⟩, (htr.upd j0 a _ _ hfj (by simp [sinkEvs, sinkEv])).congr rfl rfl (by simp [sinkEvs, sinkEv]) (by simp [srcEvs, srcEv])⟩
      intro hp f hf
      rcases List.mem_cons.1 hf with rfl | hf
      · simpa [locOf] using hc.pend hp (Frame.wait (.subSrc (j0 + 1)) l2) List.mem_cons_self
      · exact hc.pend hp f (List.mem_cons_of_mem _ hf)
    | @upI _ u l2 rest' _ _ _ kF' h =>
      simp [opStep, flatPlug, hinner, hst'] at hop
      subst hop
      have he := EnvStep.ret (M := Flatten.machine Int) (st := stF) (stk := kF') (g := gF) (tr := trF) (o := .srcUp (j0 + 1) u) (l := l2)
        (by simp [legalRet])
      refine ⟨_, _, _, hrO, reach_env hrF he, ⟨⟨hc.stF, rfl, rfl, hc.v, hc.sink, hc.src, ?_⟩,
        ho.congr rfl rfl, hinn.congr (fun _ => rfl) (fun _ => rfl),
        none, kI, ⟨.runF h, hstk', fun p hp => isSome_upd (hex p hp), fun j' l0 h => by cases h⟩⟩, (htr.upd j0 a _ _ hfj (by simp [sinkEvs, sinkEv])).congr rfl rfl (by simp [sinkEvs, sinkEv]) (by simp [srcEvs, srcEv])⟩
      intro hp f hf
      rcases List.mem_cons.1 hf with rfl | hf
      · simpa [locOf] using hc.pend hp (Frame.wait (.srcUp (j0 + 1) u) l2) List.mem_cons_self
      · exact hc.pend hp f (List.mem_cons_of_mem _ hf)
  | call o s1' l' =>
    have hst' : Mi.step stI l = .call o s1' l' := hst
    have hrI' := reach_op hrI (.call hst)
    have hv := (hUI.safe _ hrI').1
    simp only [onOut_ph] at hv
    have hexI : ∀ (o' : Out Int) p, p ∈ ((j0 + 1, Frame.wait o' l') :: kI : List (Nat × Frame Li Int)) →
        ∀ x, ((fam.upd (j0 + 1) x) p.1).isSome := by
      intro o' p hp x
      rcases List.mem_cons.1 hp with rfl | hp
      · simp
      · exact isSome_upd (hex p hp)
    have hstkI : ∀ (o' : Out Int) (sI' : Sys Si Li αi Int), sI'.stack = .wait o' l' :: proj (j0 + 1) kI →
        ∀ j' a' sI, fam.upd (j0 + 1) (a, sI') j' = some (a', sI) → sI.stack = istack none ((j0 + 1, Frame.wait o' l') :: kI) j' := by
      intro o' sI' hs
      refine stkI_upd hsI _ a _ (by rw [hs, istack_none, proj_cons_same]) (hoth_stk _ _ (fun j' hj' => ?_))
      rw [istack_none, proj_cons_ne (Ne.symm hj')]
    cases o with
    | greet k =>
      obtain ⟨hsub, heq⟩ := onOut_greet_ok _ _ hv
      cases k with
      | succ k => rw [hsinkI k] at hsub; cases hsub
      | zero =>
        simp [opStep, flatPlug, hinner, hst'] at hop
        subst hop
        have hsub2 : gF.ph.srcPh (j0 + 1) = .subscribed := by rw [hifc, hsub]; rfl
        obtain ⟨l2, r, hk2⟩ := subscribed_top (Flatten.machine Int) flatten_lg hrF (j0 + 1) hsub2
        simp only at hk2
        subst hk2
        have he := EnvStep.call (M := Flatten.machine Int) (st := stF) (stk := .wait (.subSrc (j0 + 1)) l2 :: r) (g := gF) (tr := trF)
          (.srcGreet (j0 + 1)) rfl (by simp [legalIn, hsub2, inSub])
        have hcore : Core (⟨st.setInner (j0 + 1) s1',
            .run (.flat ((Flatten.machine Int).enter (.srcGreet (j0 + 1))) :: .inner (j0 + 1) l' :: rest) :: stk, g, tr, none⟩ : NSys So Lo Si Li)
            ⟨stF, .run ((Flatten.machine Int).enter (.srcGreet (j0 + 1))) :: .wait (.subSrc (j0 + 1)) l2 :: r,
              gF.onIn (Frame.wait (Out.subSrc (j0 + 1)) l2 :: r : List (Frame FL Int)).length (.srcGreet (j0 + 1) : In Int), .inp (.srcGreet (j0 + 1)) :: trF, none⟩ :=
          ⟨hc.stF, rfl, rfl, hc.v, by simpa [Ph.onIn] using hc.sink, hc.src,
            pend_cons (fun _ => by simp [Flatten.machine, Flatten.enter, locOf, isOd]) hc.pend⟩
        have hinn := hi.upd (s' := (⟨st.setInner (j0 + 1) s1',
            .run (.flat ((Flatten.machine Int).enter (.srcGreet (j0 + 1))) :: .inner (j0 + 1) l' :: rest) :: stk, g, tr, none⟩ : NSys So Lo Si Li))
          (sF' := ⟨stF, .run ((Flatten.machine Int).enter (.srcGreet (j0 + 1))) :: .wait (.subSrc (j0 + 1)) l2 :: r,
              gF.onIn (Frame.wait (Out.subSrc (j0 + 1)) l2 :: r : List (Frame FL Int)).length (.srcGreet (j0 + 1) : In Int), .inp (.srcGreet (j0 + 1)) :: trF, none⟩)
          j0 a ⟨s1', .wait (.greet 0) l' :: proj (j0 + 1) kI, gI.onOut (atInit Mi (initOf a)).shape (.greet 0), .out (.greet 0) :: trI, none⟩
          (innerSt_setInner_same _ _ _) (fun j' hj' => innerSt_setInner_ne _ hj' _) rfl hrI'
          (by simp only [onOut_ph, onIn_ph, heq]; simp [Ph.onIn, toSrc])
          (fun i hi' => by simp [Ph.onIn, hi'])
          (fun k => by simp only [onOut_ph, heq]; simp [hsinkI k])
          (by simp only [onOut_ph, heq]; simp)
        exact ⟨_, _, _, hrO, reach_env hrF he, ⟨hcore, ho.congr rfl (by simp [Ph.onIn]), hinn,
          none, (j0 + 1, .wait (.greet 0) l') :: kI,
          ⟨.runF (.intI (by simp [Internal1]) hrel), hstkI _ _ rfl, fun p hp => hexI _ p hp _, fun j' l0 h => by cases h⟩⟩, htr.srcJ j0 a _ (.greet (j0 + 1)) (.greet 0) rfl rfl (by rw [hfj]; simp [sinkEvs, sinkEv]) (htr.born j0 a _ hfj) (by simp [sinkEvs, sinkEv]) (by simp [srcEvs, srcEv]) rfl⟩
    | down k d =>
      obtain ⟨hlive, heq⟩ := onOut_down_ok _ _ _ hv
      cases k with
      | succ k => rw [hsinkI k] at hlive; cases hlive
      | zero =>
        simp [opStep, flatPlug, hinner, hst'] at hop
        subst hop
        have hlive2 : gF.ph.srcPh (j0 + 1) = .live := by rw [hifc, hlive]; rfl
        have hctx : ∃ c, ctxOf kF = some c ∧ legalIn (Flatten.machine Int).shape gF.ph c (.srcDown (j0 + 1) d) = true := by
          cases hrel with
          | @subI _ l2 rest' _ _ _ kF' hproj h => exact ⟨_, rfl, by simp [legalIn, hlive2, inSub]⟩
          | @upI _ u l2 rest' _ _ _ kF' h =>
            cases u with
            | pull => exact ⟨_, rfl, by simp [legalIn, hlive2, inPull]⟩
            | term =>
              have := wait_srcUp_disposed _ hrF (Flatten.flatten_basicSafe _ hrF).1 (j0 + 1) .term l2 (by simp) (by simp)
              simp only at this; rw [hlive2] at this; cases this
            | err e =>
              have := wait_srcUp_disposed _ hrF (Flatten.flatten_basicSafe _ hrF).1 (j0 + 1) (.err e) l2 (by simp) (by simp)
              simp only at this; rw [hlive2] at this; cases this
        obtain ⟨c, hcc, hl⟩ := hctx
        have he := EnvStep.call (M := Flatten.machine Int) (st := stF) (stk := kF) (g := gF) (tr := trF) (.srcDown (j0 + 1) d) hcc hl
        have hcore : Core (⟨st.setInner (j0 + 1) s1',
            .run (.flat ((Flatten.machine Int).enter (.srcDown (j0 + 1) d)) :: .inner (j0 + 1) l' :: rest) :: stk, g, tr, none⟩ : NSys So Lo Si Li)
            ⟨stF, .run ((Flatten.machine Int).enter (.srcDown (j0 + 1) d)) :: kF,
              gF.onIn kF.length (.srcDown (j0 + 1) d), .inp (.srcDown (j0 + 1) d) :: trF, none⟩ :=
          ⟨hc.stF, rfl, rfl, hc.v, by cases d <;> simpa [Ph.onIn] using hc.sink, hc.src,
            by cases d <;> exact pend_cons (fun _ => by simp [Flatten.machine, Flatten.enter, locOf, isOd]) hc.pend⟩
        have hinn := hi.upd (s' := (⟨st.setInner (j0 + 1) s1',
            .run (.flat ((Flatten.machine Int).enter (.srcDown (j0 + 1) d)) :: .inner (j0 + 1) l' :: rest) :: stk, g, tr, none⟩ : NSys So Lo Si Li))
          (sF' := ⟨stF, .run ((Flatten.machine Int).enter (.srcDown (j0 + 1) d)) :: kF,
              gF.onIn kF.length (.srcDown (j0 + 1) d), .inp (.srcDown (j0 + 1) d) :: trF, none⟩)
          j0 a ⟨s1', .wait (.down 0 d) l' :: proj (j0 + 1) kI, gI.onOut (atInit Mi (initOf a)).shape (.down 0 d), .out (.down 0 d) :: trI, none⟩
          (innerSt_setInner_same _ _ _) (fun j' hj' => innerSt_setInner_ne _ hj' _) rfl hrI'
          (by simp only [onOut_ph, onIn_ph, heq]; cases d <;> simp [Ph.onIn, toSrc, isFinal, hifc, hlive])
          (fun i hi' => by cases d <;> simp [Ph.onIn, hi'])
          (fun k => by simp only [onOut_ph, heq]; cases d <;> simp [isFinal, hsinkI k])
          (by simp only [onOut_ph, heq]; cases d <;> simp [isFinal, hlive])
        exact ⟨_, _, _, hrO, reach_env hrF he, ⟨hcore, ho.congr rfl (by cases d <;> simp [Ph.onIn]), hinn,
          none, (j0 + 1, .wait (.down 0 d) l') :: kI,
          ⟨.runF (.intI (by simp [Internal1]) hrel), hstkI _ _ rfl, fun p hp => hexI _ p hp _, fun j' l0 h => by cases h⟩⟩, htr.srcJ j0 a _ (.down (j0 + 1) d) (.down 0 d) rfl rfl (by rw [hfj]; simp [sinkEvs, sinkEv]) (htr.born j0 a _ hfj) (by simp [sinkEvs, sinkEv]) (by simp [srcEvs, srcEv]) rfl⟩
    | subSrc i =>
      obtain ⟨_, _, heq⟩ := onOut_subSrc_ok _ _ hv
      have := H.noUpI a _ hrI' i
      simp [heq] at this
    | srcUp i u =>
      obtain ⟨hl, _⟩ := onOut_srcUp_ok _ _ _ hv
      have := H.noUpI a _ hrI i
      simp only at this
      rw [this] at hl; cases hl
    | app b' => exact absurd hst (hUI.noApp _ _ _ _ _)


theorem step_flatT (H : HypF Mo Mi initOf) {st : FPSt So Si} {l : FL} {rest : List (FFr Lo FL Li)}
    {stk : List (Frame (List (FFr Lo FL Li)) Int)} {g : G} {tr : List (Ev Int Int)}
    {stO : So} {kO : List (Frame Lo Int)} {gO : G} {trO : List (Ev αo Int)}
    {stF : Flatten.St} {kF : List (Frame FL Int)} {gF : G} {trF : List (Ev Int Int)}
    {fam : Fam Si Li αi} {kI : List (Nat × Frame Li Int)} {b : NSys So Lo Si Li}
    (hrO : SReach Mo ⟨stO, kO, gO, trO, none⟩) (hrF : SReach (Flatten.machine Int) ⟨stF, .run l :: kF, gF, trF, none⟩)
    (hrel : RelF .flat rest stk kO kI kF)
    (hc : Core (⟨st, .run (.flat l :: rest) :: stk, g, tr, none⟩ : NSys So Lo Si Li) ⟨stF, .run l :: kF, gF, trF, none⟩)
    (ho : OuterRel (⟨st, .run (.flat l :: rest) :: stk, g, tr, none⟩ : NSys So Lo Si Li) ⟨stO, kO, gO, trO, none⟩ ⟨stF, .run l :: kF, gF, trF, none⟩)
    (hi : InnerRel Mi initOf (⟨st, .run (.flat l :: rest) :: stk, g, tr, none⟩ : NSys So Lo Si Li) ⟨stF, .run l :: kF, gF, trF, none⟩ fam)
    (hsI : ∀ j a sI, fam j = some (a, sI) → sI.stack = istack none kI j) (hex : ∀ p ∈ kI, (fam p.1).isSome)
    (htr : TrF st.pending tr trO trF fam)
    (hop : opStep (flatPlug Mo Mi initOf) ⟨st, .run (.flat l :: rest) :: stk, g, tr, none⟩ = some b) :
    ∃ sO' sF' fam', SReach Mo sO' ∧ SReach (Flatten.machine Int) sF' ∧ MatchF Mi initOf b sO' sF' fam' ∧ TrF b.st.pending b.tr sO'.tr sF'.tr fam' := by
  have hstF : st.flat = stF := hc.stF
  have hpendTl : st.pending = none → ∀ f ∈ kF, ¬ isOd (locOf f) := pend_tail hc.pend
  have hifcO : gF.ph.srcPh 0 = toSrc (gO.ph.sinkPh 0) := ho.ifcO
  have hsinkO : ∀ k, gO.ph.sinkPh (k + 1) = .idle := ho.sinkO
  have hwI := hrel.turnsF.2.2
  cases hst : (Flatten.machine Int).step stF l with
  | tau s' l' =>
    simp [opStep, flatPlug, hstF, hst] at hop
    subst hop
    refine ⟨_, _, fam, hrO, reach_op hrF (.tau hst), ⟨⟨rfl, rfl, rfl, hc.v, hc.sink, hc.src, ?_⟩,
      ho.congr rfl rfl, hi.congr (fun _ => rfl) (fun _ => rfl), none, kI, ⟨.runF hrel, hsI, hex, fun j l0 h => by cases h⟩⟩, htr⟩
    exact pend_cons (fun hp hod => hc.pend hp (.run l) List.mem_cons_self (flat_tau_od hst hod)) hpendTl
  | panic m =>
    have := (Flatten.flatten_basicSafe _ (reach_op hrF (.panic hst))).2
    cases this
  | ret =>
    have hrF' := reach_op hrF (.ret hst)
    cases rest with
    | nil =>
      simp [opStep, flatPlug, hstF, hst] at hop
      subst hop
      exact ⟨_, _, fam, hrO, hrF', ⟨⟨hstF, rfl, rfl, by simpa using hc.v, by simpa using hc.sink, by simpa using hc.src, hpendTl⟩,
        ho.congr rfl (by simp), hi.congr (fun _ => rfl) (fun _ => by simp), none, kI,
        ⟨.turn hrel, hsI, hex, fun j l0 h => by cases h⟩⟩, htr.congr (by simp [sinkEvs, sinkEv]) rfl (by simp [sinkEvs, sinkEv]) (by simp [srcEvs, srcEv])⟩
    | cons c rest' =>
      simp [opStep, flatPlug, hstF, hst] at hop
      subst hop
      have hcore : Core (⟨st, .run (c :: rest') :: stk, g, tr, none⟩ : NSys So Lo Si Li)
          ⟨stF, kF, gF.onRetO kF.length, .retO :: trF, none⟩ :=
        ⟨hstF, rfl, rfl, hc.v, by simpa using hc.sink, hc.src, hpendTl⟩
      cases hrel with
      | @intO o l1 _ _ kO' _ _ hio h =>
        have he := EnvStep.ret (M := Mo) (st := stO) (stk := kO') (g := gO) (tr := trO) (o := o) (l := l1)
          (legalRet_internal1 _ _ hio)
        exact ⟨_, _, fam, reach_env hrO he, hrF', ⟨hcore, ⟨ho.stO, rfl, by simpa using hifcO, hsinkO⟩,
          hi.congr (fun _ => rfl) (fun _ => by simp), none, kI, ⟨.runO h, hsI, hex, fun j l0 h => by cases h⟩⟩, htr.congr rfl (by simp [sinkEvs, sinkEv]) (by simp [sinkEvs, sinkEv]) (by simp [srcEvs, srcEv])⟩
      | @intI j o l1 _ _ _ kI' _ hio h =>
        have hsome := hex (j, .wait o l1) List.mem_cons_self
        obtain ⟨⟨a, sI⟩, hfj⟩ := Option.isSome_iff_exists.1 hsome
        obtain ⟨stI, kIj, gI, trI, pI⟩ := sI
        have hpI : pI = none := hi.pI j a _ hfj
        subst hpI
        have hk : kIj = .wait o l1 :: proj j kI' := by
          have := hsI j a _ hfj; simp only at this; rw [this, istack_none, proj_cons_same]
        subst hk
        obtain ⟨j0, rfl⟩ : ∃ j0, j = j0 + 1 := by
          cases j with
          | zero => rw [hi.fam0] at hfj; cases hfj
          | succ j0 => exact ⟨j0, rfl⟩
        have hrI := hi.rI _ a _ hfj
        have he := EnvStep.ret (M := atInit Mi (initOf a)) (st := stI) (stk := proj (j0 + 1) kI') (g := gI) (tr := trI) (o := o) (l := l1)
          (legalRet_internal1 _ _ hio)
        have hstj : st.innerSt (j0 + 1) = some stI := by have := hi.stI (j0 + 1); simp only at this; rw [this, hfj]; rfl
        have hifc : gF.ph.srcPh (j0 + 1) = toSrc (gI.ph.sinkPh 0) := by have := hi.ifcI j0; simp only at this; rw [this, hfj]
        have hsk : ∀ k, gI.ph.sinkPh (k + 1) = .idle := hi.sinkI _ a _ hfj
        have halive : gI.ph.sinkPh 0 ≠ .idle := hi.alive _ a _ hfj
        have hinn := hi.upd (s' := (⟨st, .run (.inner (j0 + 1) l1 :: rest') :: stk, g, tr, none⟩ : NSys So Lo Si Li))
          (sF' := ⟨stF, kF, gF.onRetO kF.length, .retO :: trF, none⟩) j0 a
          ⟨stI, .run l1 :: proj (j0 + 1) kI', gI, .retE :: trI, none⟩ hstj (fun _ _ => rfl) rfl (reach_env hrI he)
          (by simpa using hifc) (fun i _ => by simp) hsk halive
        refine ⟨_, _, _, hrO, hrF', ⟨hcore, ho.congr rfl (by simp), hinn, some (j0 + 1, l1), kI',
          ⟨.runI h, ?_, fun p hp => isSome_upd (hex p (List.mem_cons_of_mem _ hp)), fun j' l0 h => by cases h; simp⟩⟩, (htr.upd j0 a _ _ hfj (by simp [sinkEvs, sinkEv])).congr rfl rfl (by simp [sinkEvs, sinkEv]) (by simp [srcEvs, srcEv])⟩
        refine stkI_upd hsI _ a _ (istack_some_same _ _ _).symm ?_
        intro j' hj'
        rw [istack_some_ne hj', istack_none, proj_cons_ne (Ne.symm hj')]
  | call o s' l' =>
    have hrF' := reach_op hrF (.call hst)
    have hv := (Flatten.flatten_basicSafe _ hrF').1
    simp only [onOut_ph] at hv
    have hpend' : ∀ o' : Out Int, st.pending = none → ∀ f ∈ (Frame.wait o' l' :: kF : List (Frame FL Int)), ¬ isOd (locOf f) :=
      fun o' => pend_cons (fun hp hod => hc.pend hp (.run l) List.mem_cons_self (flat_call_od hst hod)) hpendTl
    cases o with
    | subSrc i =>
      obtain ⟨hidle2, hopen2, heq⟩ := onOut_subSrc_ok _ _ hv
      cases i with
      | zero =>
        simp [opStep, flatPlug, hstF, hst] at hop
        subst hop
        have hidle1 : gO.ph.sinkPh 0 = .idle := toSrc_idle.1 (hifcO ▸ hidle2)
        have hall : ∀ k, gO.ph.sinkPh k = .idle := by
          intro k; cases k with
          | zero => exact hidle1
          | succ k => exact hsinkO k
        have hk1 := (idle_empty Mo hrO hall).1
        simp only at hk1
        subst hk1
        have he := EnvStep.call (M := Mo) (st := stO) (stk := []) (g := gO) (tr := trO)
          (.subscribe 0) rfl (by simp [legalIn, isTop, hidle1])
        refine ⟨_, _, fam, reach_env hrO he, hrF', ⟨⟨rfl, rfl, rfl, hc.v, by simpa [heq] using hc.sink, hc.src, hpend' _⟩,
          ⟨ho.stO, rfl, ?_, ?_⟩, hi.congr (fun _ => rfl) (fun j => by simp [heq]),
          none, kI, ⟨.runO (.subO hrel), hsI, hex, fun j l0 h => by cases h⟩⟩, htr.src0 (.sub 0) (.subscribe 0) rfl rfl (by simp [sinkEvs, sinkEv]) (by simp [sinkEvs, sinkEv]) (by simp [srcEvs, srcEv]) rfl rfl⟩
        · simp only [onOut_ph, onIn_ph, heq]; simp [Ph.onIn, toSrc]
        · intro k; simp [Ph.onIn, hsinkO k]
      | succ j0 =>
        have hod : isOd l := flat_subI_od hst
        obtain ⟨a, hpa⟩ : ∃ a, st.pending = some a := by
          cases hp : st.pending with
          | none => exact absurd hod (hc.pend hp (.run l) List.mem_cons_self)
          | some a => exact ⟨a, rfl⟩
        obtain ⟨so, sf, pd, inn⟩ := st
        simp only at hpa hstF htr
        subst hpa hstF
        simp [opStep, flatPlug, hst] at hop
        subst hop
        have hnone : fam (j0 + 1) = none := by
          have := hi.ifcI j0
          simp only at this
          cases hf : fam (j0 + 1) with
          | none => rfl
          | some p =>
            obtain ⟨a', sI⟩ := p
            rw [hf] at this
            simp only at this
            rw [hidle2] at this
            exact absurd (toSrc_idle.1 this.symm) (hi.alive _ a' sI hf)
        have hproj : proj (j0 + 1) kI = [] := proj_eq_nil hex hnone
        have hborn : (sentS 0 (srcEvs trF))[j0]? = some a := by
          obtain ⟨hl1, hn1⟩ := subI_od1 hst
          subst hl1
          have hlen := FK.od1_count hrF
          rw [sentData_eq] at hlen
          have hp := htr.pend
          rw [List.getLast?_eq_getElem?, hlen, hn1] at hp
          simpa using hp.symm
        have he := EnvStep.call (M := atInit Mi (initOf a)) (st := initOf a) (stk := []) (g := {}) (tr := [])
          (.subscribe 0) rfl (by simp [legalIn, isTop])
        have hrI' := reach_env (SReachR.init (M := atInit Mi (initOf a)) (R := anyEnv)) he
        have hinn := hi.upd (s' := (⟨(⟨so, s', some a, inn⟩ : FPSt So Si).setInner (j0 + 1) (initOf a),
            .run (.inner (j0 + 1) (Mi.enter (.subscribe 0)) :: .flat l' :: rest) :: stk, g, tr, none⟩ : NSys So Lo Si Li))
          (sF' := ⟨s', .wait (.subSrc (j0 + 1)) l' :: kF, gF.onOut (Flatten.machine Int).shape (.subSrc (j0 + 1) : Out Int), .out (.subSrc (j0 + 1)) :: trF, none⟩)
          j0 a ⟨initOf a, [.run ((atInit Mi (initOf a)).enter (.subscribe 0))], ({} : G).onIn 0 (.subscribe 0 : In αi), [.inp (.subscribe 0)], none⟩
          (innerSt_setInner_same _ _ _) (fun j' hj' => by rw [innerSt_setInner_ne _ hj']; rfl) rfl hrI'
          (by simp only [onOut_ph, onIn_ph]; rw [heq]; simp [Ph.onIn, toSrc])
          (fun i hi' => by simp only [onOut_ph]; rw [heq]; simp [hi'])
          (fun k => by simp [Ph.onIn])
          (by simp [Ph.onIn])
        refine ⟨_, _, _, hrO, hrF', ⟨⟨rfl, rfl, rfl, hc.v, by simpa [heq] using hc.sink, hc.src,
            fun hp => by simp [FPSt.setInner] at hp⟩,
          ⟨ho.stO, rfl, by simpa [heq] using hifcO, hsinkO⟩, hinn,
          some (j0 + 1, Mi.enter (.subscribe 0)), kI,
          ⟨.runI (.subI hproj hrel), ?_, fun p hp => isSome_upd (hex p hp), fun j' l0 h => by cases h; simp⟩⟩, htr.srcJ j0 a _ (.sub (j0 + 1)) (.subscribe 0) rfl rfl (by rw [hnone]; simp [sinkEvs, sinkEv]) hborn (by simp [sinkEvs, sinkEv]) (by simp [srcEvs, srcEv]) rfl⟩
        refine stkI_upd hsI _ a ⟨initOf a, [.run ((atInit Mi (initOf a)).enter (.subscribe 0))], ({} : G).onIn 0 (.subscribe 0 : In αi), [.inp (.subscribe 0)], none⟩
          (by rw [istack_some_same, hproj]; rfl) ?_
        intro j' hj'
        rw [istack_some_ne hj', istack_none]
    | srcUp i u =>
      obtain ⟨hlive2, heq⟩ := onOut_srcUp_ok _ _ _ hv
      cases i with
      | zero =>
        simp [opStep, flatPlug, hstF, hst] at hop
        subst hop
        have hlive1 : gO.ph.sinkPh 0 = .live := toSrc_live.1 (hifcO ▸ hlive2)
        have hctx : ∃ c, ctxOf kO = some c ∧ legalIn Mo.shape gO.ph c (.sinkUp 0 u : In αo) = true := by
          rcases hrel.flat_kO with h | ⟨o, l1, r, h, hio⟩
          · subst h; exact ⟨_, rfl, by simp [legalIn, hlive1, isTop]⟩
          · subst h
            cases o with
            | greet k =>
              cases k with
              | zero => exact ⟨_, rfl, by simp [legalIn, hlive1, inGreet]⟩
              | succ k => simp [Internal1] at hio
            | down k d =>
              cases k with
              | succ k => simp [Internal1] at hio
              | zero =>
                cases d with
                | data x => exact ⟨_, rfl, by simp [legalIn, hlive1, inData]⟩
                | term =>
                  have := wait_down_done Mo hrO (H.upO.safe _ hrO).1 0 .term l1 (by simp) rfl
                  simp only at this; rw [hlive1] at this; cases this
                | err e =>
                  have := wait_down_done Mo hrO (H.upO.safe _ hrO).1 0 (.err e) l1 (by simp) rfl
                  simp only at this; rw [hlive1] at this; cases this
            | subSrc i => simp [Internal1] at hio
            | srcUp i u => simp [Internal1] at hio
            | app b => simp [Internal1] at hio
        obtain ⟨c, hcc, hl⟩ := hctx
        have he := EnvStep.call (M := Mo) (st := stO) (stk := kO) (g := gO) (tr := trO) (.sinkUp 0 u) hcc hl
        refine ⟨_, _, fam, reach_env hrO he, hrF', ⟨⟨rfl, rfl, rfl, hc.v, ?_, hc.src, hpend' _⟩,
          ⟨ho.stO, rfl, ?_, ?_⟩, hi.congr (fun _ => rfl) (fun j => by cases u <;> simp [heq, afterUp]),
          none, kI, ⟨.runO (.upO hrel), hsI, hex, fun j l0 h => by cases h⟩⟩, htr.src0 (.up 0 u) (.up 0 u) rfl rfl (by simp [sinkEvs, sinkEv]) (by simp [sinkEvs, sinkEv]) (by simp [srcEvs, srcEv]) rfl rfl⟩
        · intro k; simp only [onOut_ph, heq]; cases u <;> simpa [afterUp] using hc.sink k
        · simp only [onOut_ph, onIn_ph, heq]
          cases u <;> simp [Ph.onIn, toSrc, afterUp, hifcO, hlive1]
        · intro k; cases u <;> simp [Ph.onIn, hsinkO k]
      | succ j0 =>
        simp [opStep, flatPlug, hstF, hst] at hop
        subst hop
        have hifc := hi.ifcI j0
        simp only at hifc
        rw [hlive2] at hifc
        cases hf : fam (j0 + 1) with
        | none => rw [hf] at hifc; cases hifc
        | some p =>
          obtain ⟨a, sI⟩ := p
          rw [hf] at hifc
          simp only at hifc
          obtain ⟨stI, kIj, gI, trI, pI⟩ := sI
          have hpI : pI = none := hi.pI _ a _ hf
          subst hpI
          have hk : kIj = proj (j0 + 1) kI := by have := hsI _ a _ hf; simpa [istack_none] using this
          subst hk
          have hrI := hi.rI _ a _ hf
          have hlive1 : gI.ph.sinkPh 0 = .live := toSrc_live.1 hifc.symm
          have hctx : ∃ c, ctxOf (proj (j0 + 1) kI) = some c ∧
              legalIn (atInit Mi (initOf a)).shape gI.ph c (.sinkUp 0 u : In αi) = true := by
            cases hpj : proj (j0 + 1) kI with
            | nil => exact ⟨_, rfl, by simp [legalIn, hlive1, isTop]⟩
            | cons f r =>
              have hmem : (j0 + 1, f) ∈ kI := by
                have : f ∈ proj (j0 + 1) kI := by rw [hpj]; exact List.mem_cons_self
                simp only [proj, List.mem_map, List.mem_filter, beq_iff_eq] at this
                obtain ⟨p, ⟨hp, hp1⟩, hp2⟩ := this
                have : p = (j0 + 1, f) := by cases p; simp at hp1 hp2; simp [hp1, hp2]
                rw [← this]; exact hp
              obtain ⟨o, l1, hfo, hio⟩ := hwI _ hmem
              simp only at hfo
              subst hfo
              have hfr : Frame.wait o l1 ∈ (⟨stI, proj (j0 + 1) kI, gI, trI, none⟩ : Sys Si Li αi Int).stack := by
                simp only; rw [hpj]; exact List.mem_cons_self
              cases o with
              | greet k =>
                cases k with
                | zero => exact ⟨_, rfl, by simp [legalIn, hlive1, inGreet]⟩
                | succ k => simp [Internal1] at hio
              | down k d =>
                cases k with
                | succ k => simp [Internal1] at hio
                | zero =>
                  cases d with
                  | data x => exact ⟨_, rfl, by simp [legalIn, hlive1, inData]⟩
                  | term =>
                    have := wait_down_done _ hrI ((H.upI a).safe _ hrI).1 0 .term l1 hfr rfl
                    simp only at this; rw [hlive1] at this; cases this
                  | err e =>
                    have := wait_down_done _ hrI ((H.upI a).safe _ hrI).1 0 (.err e) l1 hfr rfl
                    simp only at this; rw [hlive1] at this; cases this
              | subSrc i => simp [Internal1] at hio
              | srcUp i u => simp [Internal1] at hio
              | app b => simp [Internal1] at hio
          obtain ⟨c, hcc, hl⟩ := hctx
          have he := EnvStep.call (M := atInit Mi (initOf a)) (st := stI) (stk := proj (j0 + 1) kI) (g := gI) (tr := trI)
            (.sinkUp 0 u) hcc hl
          have hstj : st.innerSt (j0 + 1) = some stI := by have := hi.stI (j0 + 1); simp only at this; rw [this, hf]; rfl
          have hinn := hi.upd (s' := (⟨({ st with flat := s' } : FPSt So Si),
              .run (.inner (j0 + 1) (Mi.enter (.sinkUp 0 u)) :: .flat l' :: rest) :: stk, g, tr, none⟩ : NSys So Lo Si Li))
            (sF' := ⟨s', .wait (.srcUp (j0 + 1) u) l' :: kF, gF.onOut (Flatten.machine Int).shape (.srcUp (j0 + 1) u : Out Int), .out (.srcUp (j0 + 1) u) :: trF, none⟩)
            j0 a ⟨stI, .run ((atInit Mi (initOf a)).enter (.sinkUp 0 u)) :: proj (j0 + 1) kI, gI.onIn (proj (j0 + 1) kI).length (.sinkUp 0 u : In αi),
              .inp (.sinkUp 0 u) :: trI, none⟩
            hstj (fun _ _ => rfl) rfl (reach_env hrI he)
            (by simp only [onOut_ph, onIn_ph, heq]; cases u <;> simp [Ph.onIn, toSrc, afterUp, hlive1, hlive2])
            (fun i hi' => by cases u <;> simp [heq, afterUp, hi'])
            (fun k => by cases u <;> simp [Ph.onIn, hi.sinkI _ a _ hf k])
            (by cases u <;> simp [Ph.onIn, hlive1])
          refine ⟨_, _, _, hrO, hrF', ⟨⟨rfl, rfl, rfl, hc.v, ?_, hc.src, hpend' _⟩,
            ⟨ho.stO, rfl, by cases u <;> simpa [heq, afterUp] using hifcO, hsinkO⟩, hinn,
            some (j0 + 1, Mi.enter (.sinkUp 0 u)), kI,
            ⟨.runI (.upI hrel), ?_, fun p hp => isSome_upd (hex p hp), fun j' l0 h => by cases h; simp⟩⟩, htr.srcJ j0 a _ (.up (j0 + 1) u) (.up 0 u) rfl rfl (by rw [hf]; simp [sinkEvs, sinkEv]) (htr.born j0 a _ hf) (by simp [sinkEvs, sinkEv]) (by simp [srcEvs, srcEv]) rfl⟩
          · intro k; simp only [onOut_ph, heq]; cases u <;> simpa [afterUp] using hc.sink k
          · refine stkI_upd hsI _ a _ (by rw [istack_some_same]; rfl) ?_
            intro j' hj'
            rw [istack_some_ne hj', istack_none]
    | greet k =>
      obtain ⟨hsub, heq⟩ := onOut_greet_ok _ _ hv
      simp [opStep, flatPlug, hstF, hst] at hop
      subst hop
      have hsubC : g.ph.sinkPh k = .subscribed := (hc.sink k).trans hsub
      refine ⟨_, _, fam, hrO, hrF', ⟨⟨rfl, rfl, rfl, ?_, ?_, ?_, hpend' _⟩,
        ho.congr rfl (by simp [heq]), hi.congr (fun _ => rfl) (fun j => by simp [heq]),
        none, kI, ⟨.turn (.ext (by simp [SinkSide]) hrel), hsI, hex, fun j l0 h => by cases h⟩⟩, htr.ext _ rfl⟩
      · simp only [onOut_greet_eq hsubC]; exact hc.v
      · intro k'; simp only [onOut_ph, onOut_greet_eq hsubC, heq]; simp [hc.sink k']
      · intro i; simp only [onOut_greet_eq hsubC]; simpa using hc.src i
    | down k d =>
      obtain ⟨hlive, heq⟩ := onOut_down_ok _ _ _ hv
      simp [opStep, flatPlug, hstF, hst] at hop
      subst hop
      have hliveC : g.ph.sinkPh k = .live := (hc.sink k).trans hlive
      refine ⟨_, _, fam, hrO, hrF', ⟨⟨rfl, rfl, rfl, ?_, ?_, ?_, hpend' _⟩,
        ho.congr rfl (by simp only [onOut_ph, heq]; split <;> simp), hi.congr (fun _ => rfl) (fun j => by simp only [onOut_ph, heq]; split <;> simp),
        none, kI, ⟨.turn (.ext (by simp [SinkSide]) hrel), hsI, hex, fun j l0 h => by cases h⟩⟩, htr.ext _ rfl⟩
      · simp only [onOut_ph, onOut_down_eq d hliveC]; split <;> simpa using hc.v
      · intro k'; simp only [onOut_ph, onOut_down_eq d hliveC, heq]; split <;> simp [hc.sink k']
      · intro i; simp only [onOut_ph, onOut_down_eq d hliveC]; split <;> simpa using hc.src i
    | app b' =>
      simp [opStep, flatPlug, hstF, hst] at hop
      subst hop
      exact ⟨_, _, fam, hrO, hrF', ⟨⟨rfl, rfl, rfl, by simpa [Ph.onOut] using hc.v, by simpa [Ph.onOut] using hc.sink,
        by simpa [Ph.onOut] using hc.src, hpend' _⟩,
        ho.congr rfl (by simp [Ph.onOut]), hi.congr (fun _ => rfl) (fun j => by simp [Ph.onOut]),
        none, kI, ⟨.turn (.ext (by simp [SinkSide]) hrel), hsI, hex, fun j l0 h => by cases h⟩⟩, htr.ext _ rfl⟩


theorem step_envT {a b : NSys So Lo Si Li} {sO : Sys So Lo αo Int} {sF : FSys} {fam : Fam Si Li αi} {m : Move Int}
    (hrO : SReach Mo sO) (hrF : SReach (Flatten.machine Int) sF) (hm : MatchF Mi initOf a sO sF fam)
    (htr : TrF a.st.pending a.tr sO.tr sF.tr fam) (he : EnvStep (flatPlug Mo Mi initOf) m a b) :
    ∃ sO' sF' fam', SReach Mo sO' ∧ SReach (Flatten.machine Int) sF' ∧ MatchF Mi initOf b sO' sF' fam' ∧ TrF b.st.pending b.tr sO'.tr sF'.tr fam' := by
  obtain ⟨stO, kO, gO, trO, pO⟩ := sO
  obtain ⟨stF, kF, gF, trF, pF⟩ := sF
  obtain ⟨hc, ho, hi, topI, kI, hsm, hsI, hex, hexT⟩ := hm
  have hpO : pO = none := ho.pO
  have hpF : pF = none := hc.pF
  subst hpO hpF
  cases he with
  | @call st stk g tr c i hc' hl =>
    simp only at hsm
    cases hsm with
    | runO h => simp [ctxOf] at hc'
    | runI h => simp [ctxOf] at hc'
    | runF h => simp [ctxOf] at hc'
    | turn hrel =>
      have hc2 : ctxOf kF = some c := by rw [hrel.ctx]; exact hc'
      have hsink : ∀ k, g.ph.sinkPh k = gF.ph.sinkPh k := hc.sink
      cases i with
      | subscribe k =>
        have hl2 : legalIn (Flatten.machine Int).shape gF.ph c (.subscribe k : In Int) = true := by
          simpa [legalIn, flatPlug, Flatten.machine, hsink k] using hl
        have he2 := EnvStep.call (M := Flatten.machine Int) (st := stF) (stk := kF) (g := gF) (tr := trF) (.subscribe k) hc2 hl2
        exact ⟨_, _, fam, hrO, reach_env hrF he2, ⟨⟨hc.stF, rfl, rfl, by simpa using hc.v, fun k' => by simp [Ph.onIn, hsink k'],
          fun i' => by simpa [Ph.onIn] using hc.src i',
          pend_cons (fun _ => by simp [Flatten.machine, Flatten.enter, locOf, isOd]) hc.pend⟩,
          ho.congr rfl (by simp [Ph.onIn]), hi.congr (fun _ => rfl) (fun j => by simp [Ph.onIn]),
          none, kI, ⟨.runF hrel, hsI, hex, fun j l0 h => by cases h⟩⟩, htr.ext _ rfl⟩
      | sinkUp k u =>
        have hl2 : legalIn (Flatten.machine Int).shape gF.ph c (.sinkUp k u : In Int) = true := by
          simpa [legalIn, flatPlug, Flatten.machine, hsink k] using hl
        have he2 := EnvStep.call (M := Flatten.machine Int) (st := stF) (stk := kF) (g := gF) (tr := trF) (.sinkUp k u) hc2 hl2
        exact ⟨_, _, fam, hrO, reach_env hrF he2, ⟨⟨hc.stF, rfl, rfl, by simpa using hc.v, fun k' => by cases u <;> simp [Ph.onIn, hsink k'],
          fun i' => by cases u <;> simpa [Ph.onIn] using hc.src i',
          pend_cons (fun _ => by cases u <;> simp [Flatten.machine, Flatten.enter, locOf, isOd]) hc.pend⟩,
          ho.congr rfl (by cases u <;> simp [Ph.onIn]), hi.congr (fun _ => rfl) (fun j => by cases u <;> simp [Ph.onIn]),
          none, kI, ⟨.runF hrel, hsI, hex, fun j l0 h => by cases h⟩⟩, htr.ext _ rfl⟩
      | srcGreet i' =>
        have := legal_srcGreet hl
        rw [hc.src i'] at this; cases this
      | srcDown i' d =>
        have := legal_srcDown hl
        rw [hc.src i'] at this; cases this
  | @ret st stk g tr o l hl =>
    simp only at hsm
    cases hsm with
    | turn hrel =>
      cases hrel with
      | @ext _ l2 cfs _ _ _ kF' hos h =>
        have he2 := EnvStep.ret (M := Flatten.machine Int) (st := stF) (stk := kF') (g := gF) (tr := trF) (o := o) (l := l2)
          (legalRet_sinkSide _ _ hos)
        refine ⟨_, _, fam, hrO, reach_env hrF he2, ⟨⟨hc.stF, rfl, rfl, hc.v, hc.sink, hc.src, ?_⟩,
          ho.congr rfl rfl, hi.congr (fun _ => rfl) (fun _ => rfl), none, kI, ⟨.runF h, hsI, hex, fun j l0 h => by cases h⟩⟩, htr.ext _ rfl⟩
        intro hp f hf
        rcases List.mem_cons.1 hf with rfl | hf
        · simpa [locOf] using hc.pend hp (Frame.wait o l2) List.mem_cons_self
        · exact hc.pend hp f (List.mem_cons_of_mem _ hf)

theorem flatPlug_inv_tr (H : HypF Mo Mi initOf) :
    ∀ s, SReach (flatPlug Mo Mi initOf) s →
      ∃ sO sF fam, SReach Mo sO ∧ SReach (Flatten.machine Int) sF ∧ MatchF Mi initOf s sO sF fam ∧ TrF s.st.pending s.tr sO.tr sF.tr fam := by
  intro s hs
  induction hs with
  | init =>
    refine ⟨Sys.init Mo, Sys.init (Flatten.machine Int), fun _ => none, .init, .init,
      ⟨⟨rfl, rfl, rfl, rfl, fun k => (by simp [Sys.init]), fun i => (by simp [Sys.init]), fun _ f hf => (by simp [Sys.init] at hf)⟩,
       ⟨rfl, rfl, (by simp [Sys.init, toSrc]), fun k => (by simp [Sys.init])⟩,
       ⟨fun j => (by simp [Sys.init, flatPlug, FPSt.innerSt]), fun j a sI h => (by cases h), fun j a sI h => (by cases h),
        fun j => (by simp [Sys.init]), fun j a sI h => (by cases h), rfl, fun j a sI h => (by cases h)⟩,
       none, [], ⟨.turn .nil, fun j a sI h => (by cases h), fun p hp => (by cases hp), fun j l h => (by cases h)⟩⟩,
      ⟨rfl, rfl, fun j => rfl, rfl, fun j a sI h => (by cases h)⟩⟩
  | @step a b ha hab ih =>
    obtain ⟨sO, sF, fam, hrO, hrF, hm, htr⟩ := ih
    cases hab with
    | env he _ => exact step_envT hrO hrF hm htr he
    | op hop =>
      obtain ⟨st, stk, g, tr, p⟩ := a
      obtain ⟨stO, kO, gO, trO, pO⟩ := sO
      obtain ⟨stF, kF, gF, trF, pF⟩ := sF
      obtain ⟨hc, ho, hi, topI, kI, hsm, hsI, hex, hexT⟩ := hm
      have hp : p = none := hc.p
      have hpO : pO = none := ho.pO
      have hpF : pF = none := hc.pF
      subst hp hpO hpF
      simp only at hsm
      cases hsm with
      | turn hrel =>
        have hturn : (ctxOf stk).isSome = true := by cases hrel <;> simp [ctxOf]
        have := opStep_none_of_envTurn (M := flatPlug Mo Mi initOf) (s := ⟨st, stk, g, tr, none⟩) ⟨rfl, hturn⟩
        rw [this] at hop; cases hop
      | runO hrel => exact step_outerT H hrO hrF hrel hc ho hi hsI hex htr hop
      | runF hrel => exact step_flatT H hrO hrF hrel hc ho hi hsI hex htr hop
      | @runI j l cfs _ _ _ _ hrel =>
        obtain ⟨⟨a, sI⟩, hfj⟩ := Option.isSome_iff_exists.1 (hexT j l rfl)
        obtain ⟨stI, kIj, gI, trI, pI⟩ := sI
        have hpI : pI = none := hi.pI j a _ hfj
        subst hpI
        have hk : kIj = .run l :: proj j kI := by have := hsI j a _ hfj; simpa [istack_some_same] using this
        subst hk
        exact step_innerT H hrO hrF hrel hc ho hi hfj hsI hex htr hop


end Steps

end FlatPlugFun
end Cb

#print axioms Cb.FlatPlugFun.flatPlug_inv_tr
